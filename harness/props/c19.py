"""C19 — sampling grids lie in and cover their target region.
The subset / no-duplicate / unit / local / reduced-sample clauses are theorems about the model and predicates on the
implementation; the covering radius is MEASURED against method-specific bounds fixed in advance (category `other`)."""
from __future__ import annotations

import warnings

import math
import numpy as np

from .. import common, sites
from ..common import f2h, h2f
from ..main import lean_phase
from .c04 import hmul

# covering-radius bounds in degrees as functions of the resolution r (degrees); measured once on the unchanged tree
# (probe at r = 6, 9, 13 / 3, 6, 10) and committed with >= 25 % margin; haar_euler and equal_area shrink like sqrt(r)
SO3_BOUND = {"cubochoric": lambda r: 1.5 * r, "quaternion": lambda r: 2.2 * r, "haar_euler": lambda r: 10.0 * np.sqrt(r)}
S2_BOUND = {"uv": lambda r: 0.9 * r, "equal_area": lambda r: 5.4 * np.sqrt(r), "spherified_cube_corner": lambda r: 0.9 * r,
            "spherified_cube_edge": lambda r: 0.9 * r, "icosahedral": lambda r: 0.9 * r, "hexagonal": lambda r: 0.9 * r,
            "normalized_cube": lambda r: 0.9 * r}
PROPER = ["1", "211", "121", "112", "222", "4", "422", "3", "321", "312", "32", "6", "622", "23", "432"]
ELEVEN = ["1", "112", "222", "4", "422", "3", "32", "6", "622", "23", "432"]


def group(name):
    from orix.quaternion import symmetry as S
    for g in S._groups:
        if g.name == name:
            return g
    raise KeyError(name)


def targets(rng, n):
    """stratified target orientations: Haar, near identity, two-fold, cubochoric pyramid edges (|x|=|y|=|z| axes)"""
    t = rng.normal(size=(n, 4))
    k = n // 5
    t[:k, 1:] *= 1e-2                       # small angles
    t[k:2 * k, 0] = 0.0                     # angle pi
    ax = np.sign(rng.normal(size=(k, 3)))   # body diagonals = pyramid edges
    ang = rng.uniform(0, np.pi, size=k)
    t[2 * k:3 * k] = np.concatenate([np.cos(ang / 2)[:, None], np.sin(ang / 2)[:, None] * ax / np.sqrt(3)], axis=1)
    return t / np.linalg.norm(t, axis=1, keepdims=True)


def so3_check(ctx, c, outs):
    from orix.quaternion.orientation_region import OrientationRegion
    from orix.sampling import get_sample_fundamental
    G = group(c["group"])
    with warnings.catch_warnings():
        warnings.simplefilter("ignore")
        R = get_sample_fundamental(c["resolution"], point_group=G, method=c["method"])
        reg = OrientationRegion.from_symmetry(G)
        inside = R < reg
    if R.size == 0:
        return "empty sample"
    if not bool(np.all(inside)):
        return f"{int((~inside).sum())} sampled rotations lie outside the fundamental zone of {G.name}"
    q = R.data.reshape(-1, 4)
    if np.abs(np.linalg.norm(q, axis=1) - 1).max() > 1e-12:
        return "sample contains non-unit quaternions"
    # no duplicates (as rotations: q ~ -q); neighbours in a sorted order are enough to expose exact duplicates
    key = np.round(q * np.sign(q[np.arange(len(q)), np.argmax(np.abs(q) > 1e-9, axis=1)])[:, None], 9)
    if len(np.unique(key, axis=0)) != len(q):
        # classify: Rotation.unique() merges rotations by their products a*a, a*b, ... rounded to 12 decimals.  A pair
        # (q, -q) computed with 1-ulp differences can straddle a rounding boundary and survive (open finding); any other
        # surviving duplicate is a different violation
        _, inv, cnt = np.unique(key, axis=0, return_inverse=True, return_counts=True)
        dup = np.flatnonzero(cnt[inv.reshape(-1)] > 1)
        iu = np.triu_indices(4)
        prod = (q[dup][:, :, None] * q[dup][:, None, :])[:, iu[0], iu[1]]
        rk = np.round(prod, 12)
        order = np.lexsort(key[dup].T[::-1])
        ks, rs = key[dup][order], rk[order]
        same_rot = (ks[1:] == ks[:-1]).all(axis=1)
        split = (rs[1:] != rs[:-1]).any(axis=1) & (np.abs(prod[order][1:] - prod[order][:-1]).max(axis=1) < 1e-14)
        if bool(np.all(split[same_rot])):
            return (f"sample of {G.name} ({c['method']}, {c['resolution']} deg) contains duplicate rotations: "
                    f"{int(same_rot.sum())} antipodal pairs whose 12-decimal unique() keys straddle a rounding boundary")
        return f"sample of {G.name} ({c['method']}, {c['resolution']} deg) contains duplicate rotations"
    # covering: every orientation has an equivalent within bound(r) of a grid point
    rng = np.random.default_rng(c["seed"])
    t = targets(rng, c["n_targets"])
    g = G.data.reshape(-1, 4)
    eq = hmul(g[:, None, :], t[None, :, :]).reshape(-1, 4)
    d = np.abs(eq @ q.T).max(axis=1).reshape(len(g), len(t)).max(axis=0)
    rad = np.rad2deg(2 * np.arccos(np.clip(d, 0, 1)))
    worst = float(rad.max())
    ctx.dev(f"covering_deg/{c['method']}/r{c['resolution']}", worst)
    bound = float(SO3_BOUND[c["method"]](c["resolution"]))
    if worst > bound:
        j = int(np.argmax(rad))
        return (f"covering radius of the {c['method']} sample of {G.name} at {c['resolution']} deg is {worst:.2f} deg > bound "
                f"{bound:.2f} deg (target {t[j].tolist()})")
    return None


def s2_check(ctx, c, outs):
    from orix.sampling import sample_S2
    with warnings.catch_warnings():
        warnings.simplefilter("ignore")
        v = sample_S2(c["resolution"], method=c["method"]).data.reshape(-1, 3)
    if np.abs(np.linalg.norm(v, axis=1) - 1).max() > 1e-12:
        return f"sample_S2({c['method']}) returns non-unit vectors"
    rng = np.random.default_rng(c["seed"])
    t = rng.normal(size=(c["n_targets"], 3))
    t[: len(t) // 6, :2] *= 1e-3  # poles
    t[len(t) // 6: len(t) // 3, 2] *= 1e-3  # equator
    t /= np.linalg.norm(t, axis=1, keepdims=True)
    rad = np.rad2deg(np.arccos(np.clip((t @ v.T).max(axis=1), -1, 1)))
    worst = float(rad.max())
    ctx.dev(f"s2_covering_deg/{c['method']}/r{c['resolution']}", worst)
    bound = float(S2_BOUND[c["method"]](c["resolution"]))
    if worst > bound:
        return (f"covering radius of sample_S2({c['method']}, {c['resolution']} deg) is {worst:.2f} deg > bound {bound:.2f} deg "
                f"(direction {t[int(np.argmax(rad))].tolist()})")
    return None


def reduced_check(ctx, c, outs):
    from orix.sampling import get_sample_reduced_fundamental
    from orix.vector import Vector3d
    G = group(c["group"])
    with warnings.catch_warnings():
        warnings.simplefilter("ignore")
        R = get_sample_reduced_fundamental(c["resolution"], point_group=G, **({"method": c["method"]} if c.get("method") else {}))
        fs = G.fundamental_sector
        z = (R * Vector3d.zvector()).data.reshape(-1, 3)
    n = fs.data.reshape(-1, 3)
    if len(n):
        nn = n / np.linalg.norm(n, axis=1, keepdims=True)
        if (z @ nn.T).min() < -1e-7:
            return (f"reduced fundamental sample of {G.name}: rotated Z axis {z[int(np.argmin((z @ nn.T).min(axis=1)))].tolist()} "
                    "lies outside the fundamental sector")
    if np.abs(np.linalg.norm(z, axis=1) - 1).max() > 1e-12:
        return "rotated Z axis is not a unit vector"
    # phi1 = 0 and R*z equals the (theta, phi) direction (theorem reduced_sample_maps_z)
    eu = R.to_euler()
    want = np.stack([np.sin(eu[:, 1]) * np.sin(eu[:, 2]), np.sin(eu[:, 1]) * np.cos(eu[:, 2]), np.cos(eu[:, 1])], axis=1)
    if np.abs(want - z).max() > 1e-7:
        return "R*z differs from the direction given by the Euler angles (0, Phi, phi2)"
    # covering of the sector
    rng = np.random.default_rng(c["seed"])
    t = rng.normal(size=(4 * c["n_targets"], 3))
    t /= np.linalg.norm(t, axis=1, keepdims=True)
    if len(n):
        t = t[((t @ nn.T) >= 0).all(axis=1)]
    if len(t):
        rad = np.rad2deg(np.arccos(np.clip((t @ z.T).max(axis=1), -1, 1)))
        worst = float(rad.max())
        ctx.dev(f"reduced_covering_deg/r{c['resolution']}", worst)
        bound = 1.5 * c["resolution"] if not c.get("method") else max(float(S2_BOUND[c["method"]](c["resolution"])), 1.5 * c["resolution"])
        if worst > bound:
            return (f"reduced fundamental sample of {G.name}{' (method ' + c['method'] + ')' if c.get('method') else ''} at {c['resolution']} deg leaves direction "
                    f"{t[int(np.argmax(rad))].tolist()} {worst:.2f} deg from the nearest sampled direction")
    return None


def local_check(ctx, c, outs):
    from orix.quaternion import Rotation
    from orix.sampling import get_sample_local
    centre = Rotation(np.asarray(c["centre"], float))
    with warnings.catch_warnings():
        warnings.simplefilter("ignore")
        R = get_sample_local(c["resolution"], center=centre, grid_width=c["width"], method=c["method"])
    if R.size == 0:
        ctx.note("a local sample was empty (resolution coarse relative to the width): vacuously within the angle")
        return None
    a = np.rad2deg(R.angle_with(centre))
    if a.max() > c["width"] + 1e-6:
        return (f"local sample ({c['method']}) contains a rotation {a.max():.4f} deg from its centre, more than the requested "
                f"{c['width']} deg")
    return None


# ====================================================================================================================
# Lean model of the deterministic S2 meshes (OrixModel/Sampling.lean, driver op `samp`) vs the implementation
# ====================================================================================================================
RTOL = 1e-12            # coordinates: relative (absolute below 1) tolerance between model and implementation
HEMIS = ("both", "upper", "lower")
GRID_FN = {"normalized": "_edge_grid_normalized_cube", "spherified_edge": "_edge_grid_spherified_edge_cube",
           "spherified_corner": "_edge_grid_spherified_corner_cube"}
# resolutions (degrees) at which ceil(360/r), ceil(180/r), ceil(90/r) sit exactly on an integer
DIVISORS = [1.0, 2.0, 2.5, 3.0, 5.0, 7.5, 10.0, 22.5, 30.0, 45.0, 90.0]
LARGE = [90.0, 100.0, 120.0, 135.0, 150.0, 180.0, 200.0, 270.0, 360.0, 400.0]


def _impl_err(e):
    if isinstance(e, ZeroDivisionError):
        return "zerodiv"
    if isinstance(e, (ValueError, OverflowError, MemoryError)):
        return "value"
    raise e


def _same_err(model_out, impl_err):
    """model `!err tag` vs the class of the Python exception"""
    tag = model_out.split()[1] if model_out.startswith("!err") else None
    if tag is None or impl_err is None:
        return tag is None and impl_err is None
    return (tag == "zerodiv") == (impl_err == "zerodiv")


def _close(a, b):
    a, b = np.asarray(a, float), np.asarray(b, float)
    if a.shape != b.shape:
        return False, float("inf")
    if a.size == 0:
        return True, 0.0
    d = np.abs(a - b) / np.maximum(1.0, np.abs(b))
    return bool(d.max() <= RTOL), float(d.max())


def _same_set(A, B):
    """A, B (n, 3): same set of points within RTOL (a bijection by nearest neighbours)"""
    from scipy.spatial import cKDTree
    if A.shape != B.shape:
        return f"{len(A)} model vectors, {len(B)} implementation vectors", 0.0
    if len(A) == 0:
        return None, 0.0
    d, idx = cKDTree(B).query(A)
    if d.max() > RTOL:
        k = int(np.argmax(d))
        return f"model vector {A[k].tolist()} has no implementation vector within {RTOL} (nearest at {d[k]:.3g})", float(d.max())
    if len(np.unique(idx)) != len(A):
        return "the nearest-neighbour matching of model and implementation vectors is not a bijection", float(d.max())
    return None, float(d.max())


def _floats(toks):
    return np.array([h2f(t) for t in toks], float)


def linspace_lines(c):
    return [f"samp linspace {f2h(c['start'])} {f2h(c['stop'])} {c['num']} {int(c['endpoint'])}"]


def linspace_check(ctx, c, outs):
    want = np.linspace(c["start"], c["stop"], num=c["num"], endpoint=c["endpoint"])
    got = _floats(outs[0].split())
    ok, d = _close(got, want)
    ctx.dev("linspace_rel", d if d != float("inf") else 0.0)
    if not ok:
        return f"np.linspace({c['start']}, {c['stop']}, {c['num']}, endpoint={c['endpoint']}) = {want[:4].tolist()}… ({len(want)}), model {got[:4].tolist()}… ({len(got)})"
    if c["endpoint"] and c["num"] > 1 and got[-1] != c["stop"]:
        return "model linspace does not end exactly at stop"
    return None


def uvc_lines(c):
    return [f"samp uv {f2h(c['resolution'])} {c['hemisphere']} {f2h(c['offset'])} {int(c['endpoint'])}"]


def uvc_check(ctx, c, outs):
    from orix.sampling.S2_sampling import _sample_S2_uv_mesh_coordinates as f
    err = None
    try:
        with warnings.catch_warnings():
            warnings.simplefilter("ignore")
            az, pol = f(c["resolution"], c["hemisphere"], c["offset"], c["endpoint"])
    except Exception as e:
        err = _impl_err(e)
    if err is not None or outs[0].startswith("!err"):
        if not _same_err(outs[0], err):
            return f"_sample_S2_uv_mesh_coordinates{(c['resolution'], c['hemisphere'], c['offset'], c['endpoint'])}: implementation {'raises ' + err if err else 'returns'}, model answers {outs[0][:40]}"
        return None
    t = outs[0].split()
    sa, sp, na, npol = (int(x) for x in t[:4])
    maz, mpol = _floats(t[4:4 + na]), _floats(t[4 + na:4 + na + npol])
    if (na, npol) != (len(az), len(pol)):
        return (f"grid lines at {c['resolution']} deg ({c['hemisphere']}, offset {c['offset']}, endpoint {c['endpoint']}): implementation "
                f"{len(az)} azimuth x {len(pol)} polar, model {na} x {npol}")
    if sa != na:
        return f"model steps_azimuth {sa} != number of azimuth lines {na}"
    for name, a, b in (("azimuth", maz, az), ("polar", mpol, pol)):
        ok, d = _close(a, b)
        ctx.dev(f"uv_{name}_rel", d)
        if not ok:
            return f"{name} grid lines differ by {d:.3g} (relative) at {c['resolution']} deg, {c['hemisphere']}, offset {c['offset']}"
    return None


def uvm_lines(c):
    return [f"samp uvmesh {f2h(c['resolution'])} {c['hemisphere']} {f2h(c['offset'])} {int(c['remove'])} {int(c['full'])}"]


def _mesh_compare(ctx, name, c, out, v, ordered):
    """out: `count [xyz…]`; v: implementation Vector3d"""
    t = out.split()
    n = int(t[0])
    if n != v.size:
        return f"{name}{tuple(c[k] for k in c if k not in ('full',))}: implementation returns {v.size} vectors, model {n}"
    if not c["full"]:
        return None
    m = _floats(t[1:]).reshape(-1, 3)
    w = v.data.reshape(-1, 3)
    if ordered:
        ok, d = _close(m, w)
        msg = None if ok else f"{name}: vectors differ by {d:.3g} in grid order"
    else:
        msg, d = _same_set(m, w)
        if msg:
            msg = f"{name}{tuple(c[k] for k in c if k not in ('full',))}: {msg}"
    ctx.dev(f"{name}_xyz_abs", d if d != float("inf") else 0.0)
    return msg


def uvm_check(ctx, c, outs):
    from orix.sampling import sample_S2_uv_mesh
    err = None
    try:
        with warnings.catch_warnings():
            warnings.simplefilter("ignore")
            v = sample_S2_uv_mesh(c["resolution"], c["hemisphere"], c["offset"], c["remove"])
    except Exception as e:
        err = _impl_err(e)
    if err is not None or outs[0].startswith("!err"):
        return None if _same_err(outs[0], err) else f"sample_S2_uv_mesh: implementation {'raises ' + err if err else 'returns'}, model {outs[0][:40]}"
    if not c["remove"] and v.ndim != 2:
        return "sample_S2_uv_mesh(remove_pole_duplicates=False) is not a 2-d grid"
    return _mesh_compare(ctx, "sample_S2_uv_mesh", c, outs[0], v, ordered=not c["remove"])


def eac_lines(c):
    return [f"samp ea {f2h(c['resolution'])} {c['hemisphere']} {int(c['endpoint'])}"]


def eac_check(ctx, c, outs):
    from orix.sampling.S2_sampling import _sample_S2_equal_area_coordinates as f
    err = None
    try:
        with warnings.catch_warnings():
            warnings.simplefilter("ignore")
            az, pol = f(c["resolution"], c["hemisphere"], c["endpoint"])
    except Exception as e:
        err = _impl_err(e)
    if err is not None or outs[0].startswith("!err"):
        return None if _same_err(outs[0], err) else f"_sample_S2_equal_area_coordinates: implementation {'raises ' + err if err else 'returns'}, model {outs[0][:40]}"
    t = outs[0].split()
    steps, na, npol = (int(x) for x in t[:3])
    if (na, npol) != (len(az), len(pol)):
        return (f"equal-area grid lines at {c['resolution']} deg ({c['hemisphere']}, endpoint {c['endpoint']}): implementation "
                f"{len(az)} x {len(pol)}, model {na} x {npol}")
    maz, mpol = _floats(t[3:3 + na]), _floats(t[3 + na:3 + na + npol])
    ok, d = _close(maz, az)
    ctx.dev("ea_azimuth_rel", d)
    if not ok:
        return f"equal-area azimuth lines differ by {d:.3g}"
    # arccos near +-1 amplifies one ulp of the cosine to sqrt(ulp): compare the cosines
    ok, d = _close(np.cos(mpol), np.cos(pol))
    ctx.dev("ea_cos_polar_rel", d)
    if not ok:
        return f"equal-area polar lines differ by {d:.3g} (in cos)"
    return None


def eam_lines(c):
    return [f"samp eamesh {f2h(c['resolution'])} {c['hemisphere']} {int(c['remove'])} {int(c['full'])}"]


def eam_check(ctx, c, outs):
    from orix.sampling import sample_S2_equal_area_mesh
    err = None
    try:
        with warnings.catch_warnings():
            warnings.simplefilter("ignore")
            v = sample_S2_equal_area_mesh(c["resolution"], c["hemisphere"], c["remove"])
    except Exception as e:
        err = _impl_err(e)
    if err is not None or outs[0].startswith("!err"):
        return None if _same_err(outs[0], err) else f"sample_S2_equal_area_mesh: implementation {'raises ' + err if err else 'returns'}, model {outs[0][:40]}"
    return _mesh_compare(ctx, "sample_S2_equal_area_mesh", c, outs[0], v, ordered=not c["remove"])


def cube_lines(c):
    return [f"samp cube {c['grid_type']} {f2h(c['resolution'])} {int(c['full'])}"]


def cube_check(ctx, c, outs):
    from orix.sampling import S2_sampling as S, sample_S2_cube_mesh
    err = None
    try:
        with warnings.catch_warnings():
            warnings.simplefilter("ignore")
            edge = getattr(S, GRID_FN[c["grid_type"]])(c["resolution"])
            v = sample_S2_cube_mesh(c["resolution"], c["grid_type"])
    except Exception as e:
        err = _impl_err(e)
    if err is not None or outs[0].startswith("!err"):
        return None if _same_err(outs[0], err) else (f"sample_S2_cube_mesh({c['resolution']}, {c['grid_type']}): implementation "
                                                      f"{'raises ' + err if err else 'returns'}, model {outs[0][:40]}")
    t = outs[0].split()
    steps, ne, total = (int(x) for x in t[:3])
    if ne != len(edge) or total != v.size:
        return (f"sample_S2_cube_mesh({c['resolution']}, {c['grid_type']}): implementation {len(edge)} points per edge and {v.size} "
                f"vectors, model {ne} and {total} (steps {steps})")
    if total != 6 * ne * ne + 2:
        return f"model total {total} != 6*{ne}^2 + 2"
    if steps > 0 and ne != 2 * steps:
        return f"model edge points {ne} != 2*steps = {2 * steps}"
    ok, d = _close(_floats(t[3:3 + ne]), edge)
    ctx.dev("cube_edge_rel", d)
    if not ok:
        return f"edge grid of {c['grid_type']} at {c['resolution']} deg differs by {d:.3g}"
    if c["full"]:
        msg, d = _same_set(_floats(t[3 + ne:]).reshape(-1, 3), v.data.reshape(-1, 3))
        ctx.dev("cube_xyz_abs", d)
        if msg:
            return f"sample_S2_cube_mesh({c['resolution']}, {c['grid_type']}): {msg}"
    return None


def hex_lines(c):
    return [f"samp hex {f2h(c['resolution'])} {int(c['full'])}"]


def hex_check(ctx, c, outs):
    from orix.sampling import sample_S2_hexagonal_mesh
    err = None
    try:
        with warnings.catch_warnings():
            warnings.simplefilter("ignore")
            v = sample_S2_hexagonal_mesh(c["resolution"])
    except Exception as e:
        err = _impl_err(e)
    if err is not None or outs[0].startswith("!err"):
        return None if _same_err(outs[0], err) else (f"sample_S2_hexagonal_mesh({c['resolution']}): implementation "
                                                      f"{'raises ' + err if err else 'returns'}, model {outs[0][:40]}")
    t = outs[0].split()
    steps, total = int(t[0]), int(t[1])
    if total != v.size:
        return f"sample_S2_hexagonal_mesh({c['resolution']}): implementation {v.size} vectors, model {total} (steps {steps})"
    if steps > 0 and total != 6 * steps * steps + 2:
        return f"model total {total} != 6*{steps}^2 + 2"
    if c["full"]:
        msg, d = _same_set(_floats(t[2:]).reshape(-1, 3), v.data.reshape(-1, 3))
        ctx.dev("hex_xyz_abs", d)
        if msg:
            return f"sample_S2_hexagonal_mesh({c['resolution']}): {msg}"
    return None


def _s2_theorem_bound(method, r):
    """lower bound on max_g v.g proved in Properties/C19.lean for the full-sphere mesh (None: no theorem)"""
    if method == "uv" and r >= 0.002:
        return 1.0 - (r * np.pi / 180) ** 2 / 4          # squared chord <= (r pi/180)^2 / 2
    if method == "equal_area" and 0.002 <= r <= 360:
        return float(np.cos(r * np.pi / 360) - r / 180)
    if method == "spherified_cube_edge":
        return 1.0 - (r * np.pi / 180) ** 2                # squared chord <= 2 (r pi/180)^2
    if method == "spherified_cube_corner":
        return 1.0 - 9.0 / 8.0 * (r * np.pi / 180) ** 2    # squared chord <= 9/4 (r pi/180)^2
    if method == "normalized_cube" and r < 90:
        return 1.0 - np.tan(r * np.pi / 180) ** 2 / 4      # squared chord <= tan(r)^2 / 2
    return None


def _s2_adversarial(method, r):
    """directions half-way between neighbouring grid lines, next to the poles and at the equator"""
    out = []
    if "cube" in method:
        # face centres, edge midpoints, corners, and points half-way between grid lines near a corner and a face centre
        ang = {"spherified_cube_edge": np.pi / 4, "spherified_cube_corner": np.arctan(np.sqrt(2))}.get(method)
        if ang is None:
            n = max(1, int(np.ceil(1 / np.tan(np.deg2rad(r))))) if r < 90 else 1
            mids = [(-0.5) / n, (n - 0.5) / n, (n // 2 + 0.5) / n]
        else:
            n = max(1, int(np.ceil(ang / np.deg2rad(r))))
            sc = np.tan(ang)
            mids = [np.tan((i + 0.5) * ang / n) / sc for i in (-1, n - 1, n // 2)]
        for a in mids + [0.0, 1.0]:
            for b in mids + [0.0, 1.0]:
                for p in ([a, b, 1.0], [1.0, a, -b], [-a, -1.0, b]):
                    out.append(p)
        o = np.array(out, dtype=float)
        return o / np.linalg.norm(o, axis=1, keepdims=True)
    if method == "equal_area":
        D = int(np.ceil(90 / r))
        us = [1 - (i + 0.5) / D for i in {0, 1, D - 1, D, 2 * D - 2, 2 * D - 1} if 0 <= i < 2 * D]
        for u in us:
            for j in (0, 1, 2 * D, 4 * D - 1):
                ph = (j + 0.5) * np.pi / (2 * D)
                s_ = np.sqrt(max(0.0, 1 - u * u))
                out.append([s_ * np.cos(ph), s_ * np.sin(ph), u])
    else:
        na, npol = int(np.ceil(360 / r)), int(np.ceil(180 / r))
        for i in {0, 1, npol // 2, npol - 1}:
            th = (i + 0.5) * np.pi / npol
            for j in (0, 1, na // 2, na - 1):
                ph = (j + 0.5) * 2 * np.pi / na
                out.append([np.sin(th) * np.cos(ph), np.sin(th) * np.sin(ph), np.cos(th)])
    return np.array(out, dtype=float).reshape(-1, 3)


def s2_any_check(ctx, c, outs):
    """every deterministic method at every positive resolution returns a non-empty set of unit vectors covering the
    sphere within the method's bound (also at resolutions on / next to the ceil boundaries and above 90 degrees)"""
    from orix.sampling import sample_S2
    try:
        with warnings.catch_warnings():
            warnings.simplefilter("ignore")
            v = sample_S2(c["resolution"], method=c["method"]).data.reshape(-1, 3)
    except Exception as e:
        return f"sample_S2({c['resolution']}, method={c['method']!r}) raises {type(e).__name__}: {e}"
    if len(v) == 0:
        return f"sample_S2({c['resolution']}, method={c['method']!r}) returns an empty grid"
    if np.abs(np.linalg.norm(v, axis=1) - 1).max() > 1e-12:
        return f"sample_S2({c['resolution']}, method={c['method']!r}) returns non-unit vectors"
    rng = np.random.default_rng(c["seed"])
    t = rng.normal(size=(c["n_targets"], 3))
    t[: len(t) // 6, :2] *= 1e-3
    t[len(t) // 6: len(t) // 3, 2] *= 1e-3
    t /= np.linalg.norm(t, axis=1, keepdims=True)
    t = np.concatenate([t, np.eye(3), -np.eye(3)])
    rad = np.rad2deg(np.arccos(np.clip((t @ v.T).max(axis=1), -1, 1)))
    worst = float(rad.max())
    # the bounds PROVED for the model (uv_mesh_covers_sphere, equal_area_mesh_covers_sphere) evaluated on the
    # implementation's mesh, at random directions and at the directions half-way between the grid lines
    r = float(c["resolution"])
    thm = _s2_theorem_bound(c["method"], r)
    if thm is not None:
        tt = np.concatenate([t, _s2_adversarial(c["method"], r)])
        best = (tt @ v.T).max(axis=1)
        k = int(np.argmin(best))
        if thm < 1:     # fraction of the proved allowance 1 - v.g actually used by the worst direction
            ctx.dev(f"s2_theorem_allowance_used/{c['method']}", float((1 - best[k]) / (1 - thm)))
        if best[k] < thm - 1e-12:
            return (f"sample_S2({r!r}, method={c['method']!r}) ({len(v)} vectors): direction {tt[k].tolist()} has largest scalar product "
                    f"{best[k]!r} with the mesh < {thm!r}: the covering theorem proved for the model does not hold for the "
                    f"implementation's mesh")
    # the sqrt(r) bound of equal_area was fitted at small r; at coarse resolutions the linear multiple applies to every method
    bound = max(float(S2_BOUND[c["method"]](c["resolution"])), 0.9 * c["resolution"])
    ctx.dev(f"s2_covering_over_bound/{c['method']}", worst / bound)
    if worst > bound:
        return (f"covering radius of sample_S2({c['resolution']}, method={c['method']!r}) ({len(v)} vectors) is {worst:.2f} deg > bound "
                f"{bound:.2f} deg (direction {t[int(np.argmax(rad))].tolist()})")
    return None


def s2_hemisphere_check(ctx, c, outs):
    """the target region of a hemisphere mesh: `hemisphere="upper"` returns unit vectors with z >= 0 only, "lower" z <= 0 only
    (whatever the offset), and the mesh covers that hemisphere within the method's bound"""
    from orix.sampling import sample_S2
    kw = {"hemisphere": c["hemisphere"]}
    if c["method"] == "uv":
        kw["offset"] = c["offset"]
    try:
        with warnings.catch_warnings():
            warnings.simplefilter("ignore")
            v = sample_S2(c["resolution"], method=c["method"], **kw).data.reshape(-1, 3)
    except Exception as e:
        return f"sample_S2({c['resolution']}, method={c['method']!r}, {kw}) raises {type(e).__name__}: {e}"
    if len(v) == 0:
        return f"sample_S2({c['resolution']}, method={c['method']!r}, {kw}) returns an empty grid"
    if np.abs(np.linalg.norm(v, axis=1) - 1).max() > 1e-12:
        return f"sample_S2({c['resolution']}, method={c['method']!r}, {kw}) returns non-unit vectors"
    sgn = {"upper": 1.0, "lower": -1.0}.get(c["hemisphere"])
    if sgn is not None:
        bad = v[sgn * v[:, 2] < -1e-12]
        if len(bad):
            return (f"sample_S2({c['resolution']}, method={c['method']!r}, {kw}): {len(bad)} of {len(v)} vectors lie outside the "
                    f"{c['hemisphere']} hemisphere, e.g. {bad[0].tolist()} (polar angle {np.rad2deg(np.arccos(bad[0][2])):.3f} deg)")
    rng = np.random.default_rng(c["seed"])
    t = rng.normal(size=(c["n_targets"], 3))
    t /= np.linalg.norm(t, axis=1, keepdims=True)
    if sgn is not None:
        t[:, 2] = sgn * np.abs(t[:, 2])
    rad = np.rad2deg(np.arccos(np.clip((t @ v.T).max(axis=1), -1, 1)))
    # the bound PROVED for the model's UV grid of any hemisphere with any offset (uv_hemisphere_grid_covers: grid with its
    # pole duplicates), evaluated on the implementation's grid
    if c["method"] == "uv":
        from orix.sampling import sample_S2_uv_mesh
        with warnings.catch_warnings():
            warnings.simplefilter("ignore")
            vg = sample_S2_uv_mesh(c["resolution"], c["hemisphere"], c["offset"], remove_pole_duplicates=False).data.reshape(-1, 3)
        thm = 1.0 - 5.0 / 8.0 * (c["resolution"] * np.pi / 180) ** 2
        adv = _s2_adversarial("uv", float(c["resolution"]))
        adv = np.concatenate([adv, [[0, 0, 1.0], [0, 0, -1.0], [1.0, 0, 0], [0, -1.0, 0]]])
        if sgn is not None:
            adv = adv[sgn * adv[:, 2] >= 0]
        tt = np.concatenate([t, adv])
        best = (tt @ vg.T).max(axis=1)
        k = int(np.argmin(best))
        if best[k] < thm - 1e-12:
            return (f"sample_S2_uv_mesh({c['resolution']}, {c['hemisphere']!r}, {c['offset']}, remove_pole_duplicates=False) ({len(vg)} vectors): "
                    f"direction {tt[k].tolist()} of the hemisphere has largest scalar product {best[k]!r} with the grid < {thm!r}: the "
                    f"covering theorem proved for the model does not hold for the implementation's grid")
    # the bound PROVED for the model's equal-area mesh of any hemisphere (equal_area_hemisphere_mesh_covers)
    if c["method"] == "equal_area" and 0.002 <= c["resolution"] <= 360:
        thm = float(np.cos(c["resolution"] * np.pi / 360) - c["resolution"] / 180)
        adv = _s2_adversarial("equal_area", float(c["resolution"]))
        if sgn is not None:
            adv = adv[sgn * adv[:, 2] >= 0]
        tt = np.concatenate([t, adv])
        best = (tt @ v.T).max(axis=1)
        k = int(np.argmin(best))
        if best[k] < thm - 1e-12:
            return (f"sample_S2({c['resolution']}, method='equal_area', {kw}) ({len(v)} vectors): direction {tt[k].tolist()} of the "
                    f"hemisphere has largest scalar product {best[k]!r} with the mesh < {thm!r}: the covering theorem proved for the "
                    f"model does not hold for the implementation's mesh")
    # an offset mesh starts up to one step away from the pole / from the equator: one more resolution
    bound = max(float(S2_BOUND[c["method"]](c["resolution"])), 0.9 * c["resolution"]) + c["resolution"]
    if float(rad.max()) > bound:
        return (f"covering radius of sample_S2({c['resolution']}, method={c['method']!r}, {kw}) over its hemisphere is {rad.max():.2f} deg > "
                f"{bound:.2f} deg (direction {t[int(np.argmax(rad))].tolist()})")
    return None


def ea_range_check(ctx, c, outs):
    """the equal-area coordinate grid restricted to an azimuth / polar range: nodes stay inside the requested range, both ends of
    the polar range and the start of the azimuth range are nodes, consecutive nodes are at most one resolution apart in azimuth
    and in equal-area spacing of cos(polar), so the range is covered"""
    from orix.sampling.S2_sampling import _sample_S2_equal_area_coordinates
    az_r, po_r = tuple(c["azimuth_range"]), tuple(c["polar_range"])
    with warnings.catch_warnings():
        warnings.simplefilter("ignore")
        az, po = _sample_S2_equal_area_coordinates(c["resolution"], azimuth_range=az_r, polar_range=po_r,
                                                   azimuth_endpoint=c["endpoint"])
    az, po = np.asarray(az, float), np.asarray(po, float)
    a0, a1 = max(az_r[0], 0.0), min(az_r[1], 2 * np.pi)
    p0, p1 = max(po_r[0], 0.0), min(po_r[1], np.pi)
    if len(az) == 0 or len(po) < 2:
        return f"equal-area coordinates for ranges {az_r}, {po_r} at {c['resolution']} deg: {len(az)} azimuth and {len(po)} polar nodes"
    if az.min() < a0 - 1e-12 or az.max() > a1 + 1e-12 or po.min() < p0 - 1e-7 or po.max() > p1 + 1e-7:
        return (f"equal-area nodes leave the requested range: azimuth [{az.min()}, {az.max()}] for {(a0, a1)}, polar "
                f"[{po.min()}, {po.max()}] for {(p0, p1)}")
    if abs(az[0] - a0) > 1e-12 or abs(po[0] - p0) > 1e-7 or abs(po[-1] - p1) > 1e-7:
        return f"the ends of the requested range are not nodes: azimuth starts at {az[0]} ({a0}), polar spans [{po[0]}, {po[-1]}] ({(p0, p1)})"
    if c["endpoint"] and abs(az[-1] - a1) > 1e-12:
        return f"azimuth_endpoint=True but the last azimuth node is {az[-1]}, not {a1}"
    step = np.deg2rad(c["resolution"])
    gaps = np.diff(np.concatenate([az, [a1]]))
    if gaps.max() > step * (1 + 1e-9):
        return f"azimuth nodes are up to {np.rad2deg(gaps.max()):.4f} deg apart at resolution {c['resolution']} deg (range {az_r})"
    dz = np.abs(np.diff(np.cos(po)))
    if dz.max() > 1.0 / math.ceil(90 / c["resolution"]) * (1 + 1e-9):
        return f"cos(polar) steps up to {dz.max()} exceed 1/steps = {1.0 / math.ceil(90 / c['resolution'])}"
    return None


def so3_space_group_check(ctx, c, outs):
    """the space_group= route of get_sample_fundamental: same sample as for the proper point group of that space group,
    inside the fundamental zone of that proper group"""
    from orix.quaternion import OrientationRegion
    from orix.quaternion.symmetry import get_point_group
    from orix.sampling import get_sample_fundamental
    with warnings.catch_warnings():
        warnings.simplefilter("ignore")
        Gp = get_point_group(c["space_group"], proper=True)
        R = get_sample_fundamental(c["resolution"], space_group=c["space_group"], method=c["method"])
        Rp = get_sample_fundamental(c["resolution"], point_group=Gp, method=c["method"])
        # membership in the zone decided independently: no operation of the proper group brings the rotation closer to
        # the identity
        q = R.data.reshape(-1, 4)
        g = Gp.data.reshape(-1, 4)
        sq = hmul(g[:, None, :], q[None, :, :])
        worse = np.abs(sq[..., 0]).max(axis=0) > np.abs(q[:, 0]) + 1e-9
    if R.size == 0:
        return "empty sample"
    if worse.any():
        return (f"space group {c['space_group']} (proper point group {Gp.name}), {c['method']}: {int(worse.sum())} of {R.size} "
                f"sampled rotations lie outside the fundamental zone of {Gp.name}, e.g. {q[int(np.argmax(worse))].tolist()}")
    if R.size != Rp.size or not np.array_equal(R.data, Rp.data):
        return (f"space group {c['space_group']}: get_sample_fundamental(space_group=...) returns {R.size} rotations but "
                f"point_group={Gp.name} gives {Rp.size}")
    return None


S2_DIRECT = {"uv": "sample_S2_uv_mesh", "equal_area": "sample_S2_equal_area_mesh", "spherified_cube_edge": "sample_S2_cube_mesh",
             "hexagonal": "sample_S2_hexagonal_mesh", "icosahedral": "sample_S2_icosahedral_mesh"}


def s2_sequence_check(ctx, c, outs):
    """a sequence of sample_S2 calls with varying options in one process, the returned sample edited in place in between:
    every call returns what the concrete mesh function returns for the same options (those are tied to the Lean model by
    the corr sites)"""
    from orix import sampling
    from orix.sampling import sample_S2
    for step, (m, r, kw, spoil) in enumerate(c["calls"]):
        with warnings.catch_warnings():
            warnings.simplefilter("ignore")
            v = sample_S2(r, method=m, **kw)
            fn = getattr(sampling.S2_sampling, S2_DIRECT[m])
            extra = {"grid_type": "spherified_edge"} if m == "spherified_cube_edge" else {}
            w = fn(r, **kw, **extra)
        a, b = np.asarray(v.data, float).reshape(-1, 3), np.asarray(w.data, float).reshape(-1, 3)
        if a.shape != b.shape or not np.array_equal(a, b):
            return (f"step {step}: sample_S2({r}, method='{m}', **{kw}) returns {a.shape[0]} vectors"
                    f"{'' if a.shape != b.shape else ' with different values'} but {S2_DIRECT[m]}({r}, **{kw}) returns "
                    f"{b.shape[0]} (earlier calls in this process: {[(x[0], x[1], x[2]) for x in c['calls'][:step]]})")
        if spoil:
            v.data[...] = 0.0          # the caller owns the returned sample
    return None


# ---- SO(3) grids of the "quaternion" and "haar_euler" methods vs the model (SO3Sampling.lean) --------------------------------
def so3steps_lines(c):
    return [f"samp so3steps {f2h(c['resolution'])} {int(c['even'])} {int(c['odd'])}"]


def so3steps_check(ctx, c, outs):
    from orix.sampling.SO3_sampling import _resolution_to_num_steps
    err = None
    try:
        with warnings.catch_warnings(), np.errstate(all="ignore"):
            warnings.simplefilter("ignore")
            n = _resolution_to_num_steps(c["resolution"], even_only=c["even"], odd_only=c["odd"])
    except Exception as e:
        err = _impl_err(e)
    if err is not None or outs[0].startswith("!err"):
        return None if _same_err(outs[0], err) else (f"_resolution_to_num_steps({c['resolution']}): implementation "
                                                      f"{'raises ' + err if err else 'returns'}, model {outs[0][:40]}")
    if int(outs[0]) != int(n):
        return (f"_resolution_to_num_steps({c['resolution']}, even_only={c['even']}, odd_only={c['odd']}) = {n} but the model "
                f"gives {outs[0]}")
    return None


def so3grid_lines(c):
    return [f"samp {'so3q' if c['method'] == 'quaternion' else 'so3e'} {f2h(c['resolution'])} {int(c['full'])}"]


def _so3_theorem_bound(method, r):
    """the covering bound proved in Properties/C19.lean (so3_quaternion_covers_resolution / so3_euler_covers_resolution)"""
    if method == "quaternion":
        return math.cos(r * math.pi / 360) * math.sqrt(1 - r / (2 * (360 - r)))
    return math.cos(r * math.pi / 360) * math.sqrt(1 - r / 180)


def so3grid_check(ctx, c, outs):
    """grid before unique(): same number of rotations, same rotations in the same order (up to the sign the Rotation
    constructor may not change: compared as data, 4 ulp), and - for the implementation's grid - the covering bound the
    theorem states about the model's grid, on seeded random rotations"""
    from orix.sampling.SO3_sampling import _three_uniform_samples_method, _euler_angles_haar_measure
    fn = _three_uniform_samples_method if c["method"] == "quaternion" else _euler_angles_haar_measure
    err = None
    try:
        with warnings.catch_warnings(), np.errstate(all="ignore"):
            warnings.simplefilter("ignore")
            rot = fn(c["resolution"], False)
    except Exception as e:
        err = _impl_err(e)
    if err is not None or outs[0].startswith("!err"):
        return None if _same_err(outs[0], err) else (f"{fn.__name__}({c['resolution']}): implementation "
                                                      f"{'raises ' + err if err else 'returns'}, model {outs[0][:40]}")
    t = outs[0].split()
    if int(t[0]) != rot.size:
        return f"{fn.__name__}({c['resolution']}, unique=False): {rot.size} rotations, model {t[0]}"
    data = rot.data.reshape(-1, 4)
    if np.abs(np.linalg.norm(data, axis=1) - 1).max() > 1e-14:
        return f"{fn.__name__}({c['resolution']}): non-unit quaternions"
    if c["full"]:
        m = _floats(t[1:]).reshape(-1, 4)
        nm = np.linalg.norm(m, axis=1)
        m = m / nm[:, None]                              # the Rotation constructor normalises
        d = float(np.abs(m - data).max()) if len(m) else 0.0
        ctx.dev(f"so3_{c['method']}_grid_abs", d)
        if d > 2e-15:
            k = int(np.argmax(np.abs(m - data).max(axis=1)))
            return (f"{fn.__name__}({c['resolution']}, unique=False)[{k}] = {data[k].tolist()} but the model's grid has "
                    f"{m[k].tolist()} there (max deviation {d:.3g})")
    if 0 < c["resolution"] <= 180 and rot.size:
        bound = _so3_theorem_bound(c["method"], c["resolution"])
        rng = np.random.Generator(np.random.PCG64(c["seed"]))
        p = rng.normal(size=(c["n_targets"], 4))
        p /= np.linalg.norm(p, axis=1)[:, None]
        # rotations at the poles of the radial coordinate (u = 0, 1), where the bound is attained
        a = rng.uniform(0, 2 * np.pi, size=8)
        poles = np.concatenate([np.stack([np.sin(a[:4]), np.cos(a[:4]), 0 * a[:4], 0 * a[:4]], axis=1),
                                np.stack([0 * a[4:], 0 * a[4:], np.sin(a[4:]), np.cos(a[4:])], axis=1)])
        if c["method"] != "quaternion":
            poles = poles[:, [1, 2, 3, 0]]
        p = np.concatenate([p, poles])
        best = np.abs(p @ data.T).max(axis=1)
        ctx.dev(f"so3_{c['method']}_bound_minus_best", float((bound - best).max()))
        if (best < bound - 1e-12).any():
            k = int(np.argmin(best - bound))
            return (f"{fn.__name__}({c['resolution']}): rotation {p[k].tolist()} has no grid rotation with |p.q| >= {bound!r} "
                    f"(best {best[k]!r}): the covering theorem proved for the model does not hold for the implementation's grid")
    return None


SITES = {
    "so3_space_group": sites.Site("so3_space_group", "prop", so3_space_group_check),
    "s2_sequence": sites.Site("s2_sequence", "prop", s2_sequence_check),
    "so3_sample": sites.Site("so3_sample", "prop", so3_check),
    "s2_sample": sites.Site("s2_sample", "prop", s2_check),
    "reduced_sample": sites.Site("reduced_sample", "prop", reduced_check),
    "local_sample": sites.Site("local_sample", "prop", local_check),
    "linspace": sites.Site("linspace", "corr", linspace_check, linspace_lines),
    "uv_coordinates": sites.Site("uv_coordinates", "corr", uvc_check, uvc_lines),
    "uv_mesh": sites.Site("uv_mesh", "corr", uvm_check, uvm_lines),
    "equal_area_coordinates": sites.Site("equal_area_coordinates", "corr", eac_check, eac_lines),
    "equal_area_mesh": sites.Site("equal_area_mesh", "corr", eam_check, eam_lines),
    "cube_mesh": sites.Site("cube_mesh", "corr", cube_check, cube_lines),
    "hexagonal_mesh": sites.Site("hexagonal_mesh", "corr", hex_check, hex_lines),
    "s2_any_resolution": sites.Site("s2_any_resolution", "prop", s2_any_check),
    "s2_hemisphere": sites.Site("s2_hemisphere", "prop", s2_hemisphere_check),
    "ea_range": sites.Site("ea_range", "prop", ea_range_check),
    "so3_num_steps": sites.Site("so3_num_steps", "corr", so3steps_check, so3steps_lines),
    "so3_grid": sites.Site("so3_grid", "corr", so3grid_check, so3grid_lines),
}


def _sector_label(case):
    bad = set()
    for e in common.load_findings().get("findings", []):
        if e.get("id") == "C07-sector-not-domain":
            bad |= set(e.get("members", []))
    return case.get("group") in bad


def _tan_above_90(case, what=""):
    """normalized_cube / hexagonal derive the number of steps from 1/tan(resolution): for 90 < r mod 180 <= 135 degrees the
    count is 0 and the division `length / number_of_steps` raises"""
    r = float(case.get("resolution", 0.0)) % 180.0
    return case.get("method") in ("normalized_cube", "hexagonal") and 90.0 < r < 135.0 + 1e-9 and "ZeroDivisionError" in what


def _rounding_split(case, what=""):
    return case.get("method") == "quaternion" and "straddle a rounding boundary" in str(what)


def _icosahedral_coarse(case, what=""):
    """icosahedral: n = ceil(1.3232 / tan(r)) <= 1 (r mod 180 >= 52.92 degrees): the unrefined icosahedron is not returned"""
    if case.get("method") != "icosahedral" or " raises " not in str(what):
        return False
    ratio = 12.0 / (np.sqrt(3.0) * (3.0 + np.sqrt(5.0)))      # edge length / inscribed-sphere radius
    return float(np.ceil(ratio / np.tan(np.deg2rad(float(case["resolution"]))))) <= 1.0


PREDICATES = {"c19_quaternion_rounding_split": _rounding_split, "c19_bad_sector": _sector_label, "c19_tan_above_90": _tan_above_90,
              "c19_icosahedral_coarse": _icosahedral_coarse}


def awkward_resolutions(rng):
    """ceil boundaries (r divides 90/180/360), their neighbours r(1 +- 1e-12), large and small resolutions, seeded ones"""
    rs = []
    for d in DIVISORS:
        rs += [d, d * (1 + 1e-12), d * (1 - 1e-12)]
    rs += LARGE + [0.5]
    rs += [180.0 / int(k) for k in rng.integers(2, 200, size=4)]
    rs += [float(x) for x in rng.uniform(0.8, 60.0, size=4)]
    rs += [float(x) for x in rng.uniform(60.0, 400.0, size=2)]
    return [float(r) for r in rs]


def generate_s2_model(ctx):
    rng = ctx.rng
    quick = ctx.tier == "quick"
    full_from = 2.9 if quick else 0.9      # below this resolution only the counts are compared (grid too large to ship)
    rs = awkward_resolutions(rng)
    offsets = (0.0, 0.5, 0.999)

    def stratum(r):
        if r >= 90:
            return "large"
        if any(abs(r / d - 1) < 1e-9 for d in DIVISORS):
            return "ceil-boundary" if r in DIVISORS else "next-to-boundary"
        return "small" if r < 1 else "seeded"

    # np.linspace itself
    for k in range(60 if quick else 600):
        a = float(rng.uniform(-10, 10)) if k % 5 else 0.0
        b = a if k % 7 == 3 else float(rng.uniform(-10, 10))
        if k % 11 == 5:
            b = a + 5e-324 * int(rng.integers(1, 9))
        num = int([0, 1, 2, 3][k % 4] if k % 3 == 0 else rng.integers(0, 60))
        c = {"start": a, "stop": b, "num": num, "endpoint": bool(k % 2)}
        ctx.count(f"linspace/{'endpoint' if c['endpoint'] else 'open'}/{'num<=1' if num <= 1 else 'num>1'}", ("ls", a, b, num, k % 2),
                  nontrivial=num > 0)
        yield "linspace", c
    # UV coordinates: every option combination at every awkward resolution
    for r in rs:
        for h in HEMIS:
            for off in offsets:
                for ep in (False, True):
                    ctx.count(f"uv_coordinates/{stratum(r)}/{h}", ("uvc", r, h, off, ep))
                    yield "uv_coordinates", {"resolution": r, "hemisphere": h, "offset": off, "endpoint": ep}
    ctx.sample({"site": "uv_coordinates", "resolution": rs[1], "hemisphere": "both", "offset": 0.0, "endpoint": False})
    for r, off in ((0.0, 0.0), (-10.0, 0.0), (-1000.0, 0.0), (float("inf"), 0.0), (7.5, 1.0), (7.5, -0.1)):
        ctx.count("uv_coordinates/rejected", ("uvc", r, off), nontrivial=False)
        yield "uv_coordinates", {"resolution": r, "hemisphere": "both", "offset": off, "endpoint": False}
    # UV mesh: default options and two seeded combinations per resolution
    for r in rs:
        combos = [("both", 0.0, True)] + [(HEMIS[int(rng.integers(3))], offsets[int(rng.integers(3))], bool(rng.integers(2)))
                                          for _ in range(2)]
        for h, off, rm in combos:
            ctx.count(f"uv_mesh/{stratum(r)}/{'removed' if rm else 'grid'}", ("uvm", r, h, off, rm))
            yield "uv_mesh", {"resolution": r, "hemisphere": h, "offset": off, "remove": rm, "full": r >= full_from}
    # equal-area coordinates and mesh
    for r in rs:
        for h in HEMIS:
            for ep in (False, True):
                ctx.count(f"equal_area_coordinates/{stratum(r)}", ("eac", r, h, ep))
                yield "equal_area_coordinates", {"resolution": r, "hemisphere": h, "endpoint": ep}
        for h, rm in [("both", True), (HEMIS[int(rng.integers(3))], bool(rng.integers(2)))]:
            ctx.count(f"equal_area_mesh/{stratum(r)}", ("eam", r, h, rm))
            yield "equal_area_mesh", {"resolution": r, "hemisphere": h, "remove": rm, "full": r >= full_from}
    # cube meshes and the hexagonal mesh
    for r in rs:
        for g in GRID_FN:
            ctx.count(f"cube_mesh/{g}/{stratum(r)}", ("cube", g, r))
            yield "cube_mesh", {"grid_type": g, "resolution": r, "full": r >= full_from}
        ctx.count(f"hexagonal_mesh/{stratum(r)}", ("hex", r))
        yield "hexagonal_mesh", {"resolution": r, "full": r >= full_from}
    ctx.sample({"site": "cube_mesh", "grid_type": "normalized", "resolution": 45.0, "full": True})
    # SO(3): number of steps at every awkward resolution, grids of the quaternion / haar_euler methods (whole grid shipped
    # from 9 degrees (quick) / 6 degrees upwards; counts and the covering bound below that down to 4 / 3 degrees)
    for r in rs + [0.0, -10.0, float("inf")]:
        for ev, od in ((False, False), (True, False), (False, True)):
            ctx.count("so3_num_steps", ("so3n", r, ev, od), nontrivial=r > 0)
            yield "so3_num_steps", {"resolution": r, "even": ev, "odd": od}
    cand = [r for r in rs if (5.0 if quick else 3.0) <= r <= 180.0]
    if quick:                                           # a seeded handful of the awkward resolutions, the fixed ones always
        cand = [cand[int(i)] for i in rng.choice(len(cand), size=min(6, len(cand)), replace=False)]
    so3_rs = sorted(set(cand) | {180.0, 120.0, 90.0, 45.0, 30.0, 20.0, 12.0, 10.0} | {200.0, 360.0, 400.0})
    for r in so3_rs:
        for m in ("quaternion", "haar_euler"):
            full = r >= (12.0 if quick else 6.0)
            ctx.count(f"so3_grid/{m}/{'full' if full else 'count+bound'}", ("so3g", m, r))
            yield "so3_grid", {"method": m, "resolution": r, "full": full, "n_targets": 40 if quick else 200,
                               "seed": int(rng.integers(1 << 30))}
    for r in (0.0, -10.0):
        for m in ("quaternion", "haar_euler"):
            ctx.count("so3_grid/rejected", ("so3g", m, r), nontrivial=False)
            yield "so3_grid", {"method": m, "resolution": r, "full": False, "n_targets": 0, "seed": 0}
    # equal-area grid over an azimuth / polar range
    for k in range(12 if quick else 120):
        a0 = float(rng.uniform(0, 5.5))
        p0 = float(rng.uniform(0, 2.6))
        c = {"resolution": float(rng.choice([2.0, 3.0, 7.5, 10.0, 11.3])), "endpoint": bool(k % 2),
             "azimuth_range": [a0 if k % 4 else 0.0, float(min(2 * np.pi, a0 + rng.uniform(0.2, 3.0))) if k % 5 else 2 * np.pi + 0.5],
             "polar_range": [p0 if k % 3 else 0.0, float(min(np.pi, p0 + rng.uniform(0.2, 1.5))) if k % 7 else np.pi + 0.2]}
        ctx.count("ea_range", ("ear", k, c["resolution"]))
        yield "ea_range", c
    # hemisphere meshes: every vector in the requested hemisphere, for every offset
    for r in [x for x in rs if 0.9 <= x <= 90.0]:
        for m, offs in (("uv", offsets), ("equal_area", (0.0,))):
            for h in HEMIS:
                for off in offs:
                    ctx.count(f"s2_hemisphere/{m}/{h}", ("hemi", m, r, h, off))
                    yield "s2_hemisphere", {"method": m, "resolution": r, "hemisphere": h, "offset": off,
                                            "n_targets": 200 if quick else 1000, "seed": int(rng.integers(1 << 30))}
    # the property itself on the implementation at the awkward resolutions
    for r in rs:
        for m in S2_BOUND:
            if quick and r < 0.9 and m != "uv":
                continue
            ctx.count(f"s2_any_resolution/{m}/{stratum(r)}", ("any", m, r))
            yield "s2_any_resolution", {"method": m, "resolution": r, "n_targets": 300 if quick else 1500,
                                        "seed": int(rng.integers(1 << 30))}


def generate(ctx):
    rng = ctx.rng
    from ..gen import quat as GQ
    quick = ctx.tier == "quick"
    so3_res = [12.0] if quick else [12.0, 9.0, 6.0]
    nt = 200 if quick else 600
    for name in ELEVEN:
        for m in ("cubochoric", "haar_euler", "quaternion"):
            for r in so3_res:
                c = {"group": name, "method": m, "resolution": r, "n_targets": nt, "seed": int(rng.integers(1 << 30))}
                ctx.count(f"so3_sample/{m}", ("so3", name, m, r))
                yield "so3_sample", c
    ctx.sample({"site": "so3_sample", **c})
    # the space_group= route: one space group per point group, proper and improper, with and without inversion
    sgs = [1, 2, 3, 6, 10, 16, 25, 47, 75, 81, 83, 89, 99, 111, 123, 143, 147, 149, 156, 162, 168, 174, 175, 177, 183, 187,
           191, 195, 200, 207, 215, 221]
    for j, sg in enumerate(sgs if not quick else [sgs[i] for i in rng.permutation(len(sgs))[:12]]):
        m = ("cubochoric", "haar_euler", "quaternion")[j % 3]
        ctx.count(f"so3_space_group/{m}", ("sg", sg, m))
        yield "so3_space_group", {"space_group": int(sg), "method": m, "resolution": 15.0 if quick else 10.0}
    # sequences of sample_S2 calls in one process
    for k in range(6 if quick else 30):
        calls = []
        r = float(rng.choice([10.0, 15.0, 7.5, 20.0]))
        for _ in range(int(rng.integers(3, 6))):
            m = ["uv", "uv", "equal_area", "spherified_cube_edge", "hexagonal", "icosahedral"][int(rng.integers(6))]
            kw = {}
            if m in ("uv", "equal_area") and rng.random() < 0.7:
                kw["hemisphere"] = ["upper", "lower", "both"][int(rng.integers(3))]
            if m == "uv" and rng.random() < 0.3:
                kw["offset"] = 0.5
            calls.append([m, r if rng.random() < 0.8 else float(rng.choice([10.0, 15.0])), kw, bool(rng.random() < 0.4)])
        ctx.count("s2_sequence", ("seq", k, repr(calls)), nontrivial=True)
        yield "s2_sequence", {"calls": calls}
    for m in S2_BOUND:
        for r in ([8.0, 4.0] if quick else [8.0, 4.0, 2.0]):
            ctx.count(f"s2_sample/{m}", ("s2", m, r))
            yield "s2_sample", {"method": m, "resolution": r, "n_targets": 1500 if quick else 6000,
                                "seed": int(rng.integers(1 << 30))}
    from orix.quaternion import symmetry as S
    for G in S._groups:
        ctx.count("reduced_sample", ("red", G.name))
        yield "reduced_sample", {"group": G.name, "resolution": 5.0 if quick else 3.0, "n_targets": 400,
                                 "seed": int(rng.integers(1 << 30))}
        # an explicit meshing method (rotating through all of them over the groups)
        meth = list(S2_BOUND)[S._groups.index(G) % len(S2_BOUND)]
        ctx.count(f"reduced_sample/{meth}", ("redm", G.name, meth))
        yield "reduced_sample", {"group": G.name, "resolution": 5.0 if quick else 3.0, "n_targets": 400, "method": meth,
                                 "seed": int(rng.integers(1 << 30))}
        if not G.is_proper and not G.contains_inversion:
            # sectors of these groups reach below the equator: the hemisphere-limited meshes must not be cut
            for meth in ("uv", "equal_area"):
                ctx.count(f"reduced_sample/{meth}/improper_without_inversion", ("redi", G.name, meth))
                yield "reduced_sample", {"group": G.name, "resolution": 6.0, "n_targets": 300, "method": meth,
                                         "seed": int(rng.integers(1 << 30))}
        if not quick:
            for meth in S2_BOUND:
                ctx.count(f"reduced_sample/{meth}", ("redm", G.name, meth))
                yield "reduced_sample", {"group": G.name, "resolution": 4.0, "n_targets": 300, "method": meth,
                                         "seed": int(rng.integers(1 << 30))}
    for m in ("cubochoric", "haar_euler", "quaternion"):
        for k in range(2 if quick else 6):
            ctx.count(f"local_sample/{m}", ("loc", m, k))
            yield "local_sample", {"method": m, "resolution": 4.0, "width": float(rng.choice([8.0, 15.0])),
                                   "centre": GQ.unit_quat(rng)[0]}
    yield from generate_s2_model(ctx)


def run(ctx, status):
    driver_ok = lean_phase(ctx, status, ["OrixProofs.Properties.C19", "OrixProofs.Lemmas.SamplingBasic",
                                         "OrixProofs.Lemmas.SamplingUV", "OrixProofs.Lemmas.SamplingCube", "OrixProofs.Lemmas.SamplingCubeGen",
                                         "OrixProofs.Lemmas.SamplingUVH", "OrixProofs.Lemmas.SamplingEA", "OrixProofs.Lemmas.SO3Cover"], kernels=["so3_quat_point", "from_polar_xyz"])
    if ctx.replay:
        site, case, body = sites.load_replay(ctx.replay)
        if site in SITES:
            sites.run_cases(ctx, SITES, [(site, case)], driver_ok)
    else:
        sites.run_cases(ctx, SITES, generate(ctx), driver_ok)
    return common.finish(
        ctx, "other", PREDICATES,
        rule="11 proper point groups x 3 SO(3) methods x resolutions; all S2 methods x resolutions; all 38 point groups for "
             "the reduced sample; local samples about random centres; covering measured over stratified random targets "
             "(Haar, small angle, angle pi, cubochoric pyramid edges; poles and equator for S2). Lean model of the S2 meshes vs "
             "the implementation: np.linspace (60/600 seeded calls incl. num 0/1, zero and denormal steps); UV coordinates for "
             "every hemisphere x offset {0, 0.5, 0.999} x endpoint flag at ~56 resolutions (divisors of 90/180/360, their "
             "neighbours r(1 +- 1e-12), 0.5, 90..400 degrees, seeded ones) plus rejected inputs; UV / equal-area meshes (default "
             "and seeded options), the three cube meshes and the hexagonal mesh at the same resolutions: counts exactly, "
             "coordinates within 1e-12, vectors as sets; every S2 method at every such resolution on the implementation alone",
        assumptions=["the covering bounds (cubochoric 1.5 r, quaternion 2.2 r, haar_euler 10 sqrt(r); S2 0.9 r, equal_area "
                     "5.4 sqrt(r); reduced sample 1.5 r) are constants measured once on the unchanged tree with >= 25 % margin",
                     "S2 mesh theorems are about the Lean model over the reals (OrixModel/Sampling.lean); model = code is "
                     "differential testing (counts exact, coordinates 1e-12) at the listed resolutions, floating-point "
                     "rounding of 360/r before the ceil is not modelled over the reals",
                     "np.linspace, np.ceil/int, np.isclose, np.meshgrid, np.arange are modelled by contract (linspace and "
                     "the whole pipeline are compared with numpy on every run)"],
        explanation="Theorems (Lean, all inputs): a sample built as unique(filter inside grid) lies in the region, has no "
                    "duplicates and keeps every grid point inside; local samples stay within the requested angle; the "
                    "three-uniform-samples quaternion is unit; from_euler(0, theta, pi/2 - phi) rotates Z exactly onto the "
                    "direction (theta, phi); an L-Lipschitz image of a grid of mesh h covers within L*h. S2 meshes (model of "
                    "S2_sampling.py / _polyhedral_sampling.py, every resolution): UV mesh defined for r > 0, unit vectors for "
                    "every input, steps <= r from the integer ceilings, chord bound, COVERING of the whole sphere within chord "
                    "(r pi/180)/sqrt 2 for hemisphere both / offset 0 (with pole-duplicate removal for r >= 0.002 deg; the "
                    "removed nodes are exact duplicates), cube meshes unit + counts 6(2 steps)^2 + 2, normalized cube: face "
                    "lattice spacing <= tan r, face lists miss no lattice point, COVERING within chord tan(r)/sqrt 2 for "
                    "0 < r < 90; counter-example of the division by zero at r = 120. NOT proved: the Lipschitz constants of "
                    "the cubochoric/homochoric/Euler parametrisations (SO(3) covering radius), coverings of the spherified "
                    "cube, hexagonal, icosahedral, equal-area meshes and of offset / single-hemisphere UV meshes: measured on "
                    "every run (worst values in worst_model_impl_deviation) against bounds fixed in advance. This is why the "
                    "level is 'other' and not 'proof'.")
