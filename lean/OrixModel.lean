-- This module serves as the root of the `OrixModel` library.
-- Import modules here that should be built as part of the library.
import OrixModel.Basic
