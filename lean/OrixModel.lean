import OrixModel.Scalar
import OrixModel.Quat
