import OrixModel.Scalar
import OrixModel.Quat
import OrixModel.Conv
import OrixModel.ConvSpec
import OrixModel.Group
import OrixModel.PhaseList
import OrixModel.XMap
import OrixModel.NDArray
