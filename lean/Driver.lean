import Driver.Main
