import OrixModel.Scalar
/- wire format of the line protocol: floats are 16 hex digits of the IEEE bit pattern, integers decimal -/
namespace Orix.Proto

def hexDigit (c : Char) : Option Nat :=
  if '0' ≤ c ∧ c ≤ '9' then some (c.toNat - '0'.toNat)
  else if 'a' ≤ c ∧ c ≤ 'f' then some (c.toNat - 'a'.toNat + 10)
  else if 'A' ≤ c ∧ c ≤ 'F' then some (c.toNat - 'A'.toNat + 10)
  else none

def parseHex (s : String) : Option Nat :=
  s.toList.foldl (fun acc c => do let a ← acc; let d ← hexDigit c; pure (a * 16 + d)) (some 0)

def parseFloat (s : String) : Option Float :=
  if s.length != 16 then none else (parseHex s).map fun n => Float.ofBits (UInt64.ofNat n)

def hexOfNat (n : Nat) (width : Nat) : String :=
  let rec go (n : Nat) (k : Nat) (acc : List Char) : List Char :=
    match k with
    | 0 => acc
    | k + 1 => go (n / 16) k ((Nat.digitChar (n % 16)) :: acc)
  String.ofList (go n width [])

def showFloat (x : Float) : String := hexOfNat x.toBits.toNat 16

def parseInt (s : String) : Option Int := s.toInt?

def showList {α} (f : α → String) (xs : List α) : String := " ".intercalate (xs.map f)

def parseAll {α} (f : String → Option α) (xs : List String) : Option (List α) := xs.mapM f

end Orix.Proto
