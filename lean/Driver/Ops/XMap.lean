import OrixModel.XMap
import Driver.Proto
/-
op `xmap c11 …` : a crystal map and a whole selection history in one line, answers the observations of
                   the map after every step.
op `xmap c12 …` : constructor inputs (phase-id array, caller's phase list in one of its constructor
                   forms) and a history of selections / assignments / phase-list operations.
op `xmap slice L a b c` : `range(*slice(a, b, c).indices(L))`.
op `xmap plget <phases> <gkey>` : `PhaseList.__getitem__`.

Token formats (no blanks inside a token): integer lists `1,2,-1` (`-` = empty), bit strings `0110`
(`-` = empty), floats as 16 hex digits.  See `harness/props/c11.py` / `c12.py` for the encoders.
-/
namespace Orix.Driver.XMapOp
open Orix Orix.XMap Proto

def sep (s : String) (c : String) : List String := s.splitOn c

def parseIntList (s : String) : Option (List Int) :=
  if s == "-" then some [] else (sep s ",").mapM String.toInt?

def parseNatList (s : String) : Option (List Nat) :=
  if s == "-" then some [] else (sep s ",").mapM String.toNat?

def parseBits (s : String) : Option (List Bool) :=
  if s == "-" then some []
  else s.toList.mapM fun c => if c == '1' then some true else if c == '0' then some false else none

def optInt (s : String) : Option (Option Int) :=
  if s == "" || s == "_" then some none else (s.toInt?).map some

/-- full-size arrays are kept as evaluated `Array`s between steps and handed to the model as functions;
`@[noinline]` + strict array parameters keep the compiler from re-evaluating a whole history per lookup -/
@[noinline] def fnOfArr (a : Array Int) : Nat → Int := fun p => a.getD p 0
@[noinline] def maskOfArr (a : Array Bool) : Mask := fun p => a.getD p false

def fnOfList (l : List Int) : Nat → Int := fnOfArr l.toArray
def maskOfList (l : List Bool) : Mask := maskOfArr l.toArray

/-- evaluate a mask on `0 … n-1` -/
@[noinline] def evalMask (n : Nat) (m : Mask) : Array Bool := ((List.range n).map m).toArray
@[noinline] def evalFn (n : Nat) (f : Nat → Int) : Array Int := ((List.range n).map f).toArray

def showInts (l : List Int) : String := if l.isEmpty then "-" else ",".intercalate (l.map toString)
def showNats (l : List Nat) : String := if l.isEmpty then "-" else ",".intercalate (l.map toString)
def showFloats (l : List Float) : String := if l.isEmpty then "-" else ",".intercalate (l.map showFloat)
def showErr (e : XErr) : String := "!" ++ e.toString

def showEx {α} (f : α → String) : Except XErr α → String
  | .ok v => f v
  | .error e => showErr e

/-- `5` or `a:b:c` -/
def parseIx (s : String) : Option Ix :=
  match sep s ":" with
  | [i] => (i.toInt?).map Ix.int
  | [a, b, c] => do
    let a ← optInt a; let b ← optInt b; let c ← optInt c
    pure (Ix.slice a b c)
  | _ => none

/-- `I<ix>;<ix>…`, `B<bits>`, `N<name>;<name>…` -/
def parseKey (s : String) : Option Key :=
  match s.toList with
  | 'I' :: r => ((sep (String.ofList r) ";").mapM parseIx).map Key.idx
  | 'B' :: r => (if r.isEmpty then some [] else parseBits (String.ofList r)).map Key.mask
  | 'N' :: r => some (Key.names (sep (String.ofList r) ";"))
  | _ => none

/-- `name~sym~tag` (empty sym = None) -/
def parsePhase (s : String) : Option Phase :=
  match sep s "~" with
  | [n, sy, t] => (t.toNat?).map fun t => ⟨n, if sy == "" then none else some sy, t⟩
  | _ => none

/-- `id~name~sym~tag&…` or `-` -/
def parseEntries (s : String) : Option PhaseList :=
  if s == "-" then some []
  else (sep s "&").mapM fun e =>
    match sep e "~" with
    | [i, n, sy, t] => do
      let i ← i.toInt?; let t ← t.toNat?
      pure (i, (⟨n, if sy == "" then none else some sy, t⟩ : Phase))
    | _ => none

def showPhase (p : Phase) : String :=
  p.name ++ "~" ++ (match p.sym with | some s => s | none => "") ++ "~" ++ toString p.tag

def showEntries (d : PhaseList) : String :=
  if d.isEmpty then "-" else "&".intercalate (d.map fun e => toString e.1 ++ "~" ++ showPhase e.2)

/-- `name=1,2,3&name=…` or `-` -/
def parseProps (n : Nat) (s : String) : Option (List (String × List Int)) :=
  if s == "-" then some []
  else (sep s "&").mapM fun e =>
    match sep e "=" with
    | [nm, vs] => do
      let vs ← parseIntList vs
      if vs.length = n then pure (nm, vs) else none
    | _ => none

def showOptVals {β} (f : β → String) (l : List (Option β)) : String :=
  if l.isEmpty then "-" else ",".intercalate (l.map fun v => match v with | some v => f v | none => "F")

/-! #### C11 -/

structure Ctx11 where
  b : Base
  q : Geom Float
  props : List (String × (Nat → Int))

def observe11 (c : Ctx11) (m : Mask) : String :=
  let g := c.b.grid
  let n := g.size
  let I := ids n m
  let fields : List String := [
    "id=" ++ showNats I,
    "size=" ++ toString (size n m),
    "shape=" ++ showEx showNats (shape g I),
    -- both layers of the extent computation must agree
    "layers=" ++ (match dataSlices g I, dataSlicesC c.q g I with
      | .ok a, .ok b => if a.map (fun e => ((e.1 : Int), (e.2 : Int))) == b then "ok" else "differ"
      | .error e, .error f => if e == f then "ok" else "differ"
      | _, _ => "differ"),
    "rows=" ++ showEx showNats (rows g m),
    "cols=" ++ showEx showNats (cols g m),
    "pid=" ++ showInts (maskFilter n m c.b.phaseId),
    "x=" ++ (match xs c.q g m with | some l => showFloats l | none => "N"),
    "y=" ++ (match ys c.q g m with | some l => showFloats l | none => "N"),
    "Gpid=" ++ showEx (showOptVals toString) (mapData g m c.b.phaseId),
    "Gid=" ++ showEx (showOptVals toString) (mapData g m (fun p => p)),
    "Gx=" ++ showEx (showOptVals showFloat) (mapData g m (xOf c.q g))]
  let pf := c.props.map fun e => "P" ++ e.1 ++ "=" ++ showInts (maskFilter n m e.2)
  let gf := c.props.map fun e => "G" ++ e.1 ++ "=" ++ showEx (showOptVals toString) (mapData g m e.2)
  ";".intercalate (fields ++ pf ++ gf)

def runC11 (args : List String) : String :=
  match args with
  | ny :: nx :: oy :: ox :: dy :: dx :: pid :: mask :: props :: phases :: keys =>
    let r : Option String := do
      let ny ← ny.toNat?; let nx ← nx.toNat?
      let oy ← parseFloat oy; let ox ← parseFloat ox; let dy ← parseFloat dy; let dx ← parseFloat dx
      let n := ny * nx
      let pid ← parseIntList pid
      let mask ← parseBits mask
      if pid.length ≠ n ∨ mask.length ≠ n ∨ ny = 0 ∨ nx = 0 then none
      let props ← parseProps n props
      let phases ← parseEntries phases
      let keys ← keys.mapM parseKey
      let c : Ctx11 := ⟨⟨⟨ny, nx⟩, fnOfList pid, phases⟩, ⟨oy, ox, dy, dx⟩,
        props.map fun e => (e.1, fnOfList e.2)⟩
      let a0 := mask.toArray
      let (_, outs) := keys.foldl (fun (acc : Array Bool × List String) k =>
        let cur := maskOfArr acc.1
        match getItemC c.q c.b cur k with
        | .ok m' =>
          let a' := evalMask n m'
          -- the index-level `getItem` (the one the theorems are about) must give the same map
          let agree := (match getItem c.b cur k with
            | .ok m2 => evalMask n m2 == a'
            | .error _ => false)
            -- … and so must the set-semantics specification
            && (match specSelect c.b (ids n cur) k with
            | .ok T => T == ids n (maskOfArr a')
            | .error _ => false)
          (a', acc.2 ++ [(if agree then "" else "LAYERS-DIFFER;") ++ observe11 c (maskOfArr a')])
        | .error e =>
          let agree := (match getItem c.b cur k with
            | .ok _ => false
            | .error f => e == f)
            && (match specSelect c.b (ids n cur) k with
            | .ok _ => false
            | .error f => e == f)
          (acc.1, acc.2 ++ [(if agree then "" else "LAYERS-DIFFER;") ++ "E=" ++ e.toString]))
        (a0, [observe11 c (maskOfArr a0)])
      pure (" | ".intercalate outs)
    match r with
    | some s => s
    | none => "!err parse"
  | _ => "!err arity"

/-! #### C12 -/

def parseOptList {α} (f : String → Option α) (s : String) : Option (Option (List α)) :=
  match s.toList with
  | ['N'] => some none
  | '=' :: r => ((sep (String.ofList r) "&").mapM f).map some
  | _ => none

def parseOptLabel (s : String) : Option (Option String) := some (if s == "" then none else some s)

/-- caller's phase list: `none`, `L@<name~sym~tag/…>@<ids|N>`, `D@<entries>`, `S@<name~sym~tag>@<id|N>`,
`K@<names>@<sgs>@<pgs>@<ids>@<tags>` (each `N` or `=a/b/…`) -/
def parsePlForm (s : String) : Option (Option (Except XErr PhaseList)) :=
  match sep s "@" with
  | ["none"] => some none
  | ["L", ps, is] => do
    let ps ← if ps == "-" then some [] else (sep ps "&").mapM parsePhase
    let is ← if is == "N" then some none else (parseIntList is).map some
    pure (some (.ok (PhaseList.ofList ps is)))
  | ["D", es] => do
    let es ← parseEntries es
    pure (some (.ok (PhaseList.ofDict es)))
  | ["S", p, i] => do
    let p ← parsePhase p
    let i ← if i == "N" then some none else (i.toInt?).map some
    pure (some (.ok (PhaseList.ofSingle p i)))
  | ["K", ns, sg, pg, is, ts] => do
    let ns ← parseOptList some ns
    let sg ← parseOptList parseOptLabel sg
    let pg ← parseOptList parseOptLabel pg
    let is ← parseOptList String.toInt? is
    let ts ← parseOptList String.toNat? ts
    pure (some (match PhaseList.ofKeywords ns sg pg is ts with
      | some d => .ok d
      | none => .error .emptyList))
  | _ => none

def parseValue (s : String) : Option Value :=
  match s.toList with
  | 's' :: r => ((String.ofList r).toInt?).map Value.scalar
  | 'a' :: r => (parseIntList (String.ofList r)).map Value.array
  | _ => none

def parseGKey (s : String) : Option PhaseList.GKey :=
  match s.toList with
  | 'i' :: r => ((String.ofList r).toInt?).map PhaseList.GKey.id
  | 'n' :: r => some (PhaseList.GKey.name (String.ofList r))
  | 'J' :: r => (parseIntList (String.ofList r)).map PhaseList.GKey.idList
  | 'M' :: r => some (PhaseList.GKey.nameList (sep (String.ofList r) ";"))
  | 'S' :: r =>
    match sep (String.ofList r) ":" with
    | [a, b, c] => do
      let a ← optInt a; let b ← optInt b; let c ← optInt c
      pure (PhaseList.GKey.slice a b c)
    | _ => none
  | _ => none

inductive Cmd
  | op (o : Op)
  | get (k : PhaseList.GKey)

def parseCmd (s : String) : Option Cmd :=
  match sep s "@" with
  | ["sel", v, k] => do let v ← v.toNat?; let k ← parseKey k; pure (.op (.select v k))
  | ["pid", v, x] => do let v ← v.toNat?; let x ← parseValue x; pure (.op (.setPhaseId v x))
  | ["prop", v, nm, x] => do let v ← v.toNat?; let x ← parseValue x; pure (.op (.setProp v nm x))
  | ["add", ps] => do let ps ← (sep ps "&").mapM parsePhase; pure (.op (.plAdd ps))
  | ["deli", i] => do let i ← i.toInt?; pure (.op (.plDel (.id i)))
  | ["deln", nm] => some (.op (.plDel (.name nm)))
  | ["ani"] => some (.op .plAddNotIndexed)
  | ["sort"] => some (.op .plSort)
  | ["get", k] => (parseGKey k).map Cmd.get
  | _ => none

def observe12 (s : Sys) (err : String) (ret : String) : String :=
  let n := s.n
  let fields : List String := [
    "err=" ++ err,
    "ret=" ++ ret,
    "phases=" ++ showEntries s.phases,
    "pid=" ++ showInts ((List.range n).map s.phaseId)]
  let pf := s.props.map fun e => "P" ++ e.1 ++ "=" ++ showInts ((List.range n).map e.2)
  let vf := s.views.map fun m =>
    "V=" ++ showNats (ids n m) ++ "^" ++ showInts (maskFilter n m s.phaseId) ++ "^"
      ++ showEx showEntries (phasesInData s m) ++ "^"
      ++ showEx (fun o => match o with | some x => "s" ++ x | none => "N") (orientationsSym s m)
  ";".intercalate (fields ++ pf ++ vf)

def tabSys (s : Sys) : Sys :=
  let pid := evalFn s.n s.phaseId
  let props := s.props.map fun e => (e.1, evalFn s.n e.2)
  let views := s.views.map (evalMask s.n)
  { s with phaseId := fnOfArr pid, props := props.map (fun e => (e.1, fnOfArr e.2)), views := views.map maskOfArr }

def runC12 (args : List String) : String :=
  match args with
  | ny :: nx :: pid :: mask :: props :: plform :: cmds =>
    let r : Option String := do
      let ny ← ny.toNat?; let nx ← nx.toNat?
      let n := ny * nx
      let pid ← parseIntList pid
      let mask ← parseBits mask
      if pid.length ≠ n ∨ mask.length ≠ n ∨ ny = 0 ∨ nx = 0 then none
      let props ← parseProps n props
      let pl ← parsePlForm plform
      let cmds ← cmds.mapM parseCmd
      match pl with
      | some (.error e) => pure ("C=" ++ showErr e)
      | _ =>
        let plv : Option PhaseList := match pl with | some (.ok d) => some d | _ => none
        let s0 := init ⟨ny, nx⟩ (fnOfList pid) plv (props.map fun e => (e.1, fnOfList e.2)) (maskOfList mask)
        let callerStr := match plv with | some d => showEntries d | none => "N"
        let (_, outs) := cmds.foldl (fun (acc : Sys × List String) c =>
          match c with
          | .op o =>
            let r := step acc.1 o
            let s' := tabSys r.1
            (s', acc.2 ++ [observe12 s' (match r.2 with | some e => e.toString | none => "-") "-"])
          | .get k =>
            (acc.1, acc.2 ++ [observe12 acc.1 "-" (showEx showEntries (PhaseList.getItem acc.1.phases k))]))
          (s0, ["C=" ++ callerStr ++ ";" ++ observe12 s0 "-" "-"])
        pure (" | ".intercalate outs)
    match r with
    | some s => s
    | none => "!err parse"
  | _ => "!err arity"

def runSlice : List String → String
  | [l, a, b, c] =>
    match l.toNat?, optInt a, optInt b, optInt c with
    | some l, some a, some b, some c =>
      (match PySlice.indices l a b c with
       | some r => showNats r
       | none => "!err zero-step")
    | _, _, _, _ => "!err parse"
  | _ => "!err arity"

def runPlGet : List String → String
  | [es, k] =>
    match parseEntries es, parseGKey k with
    | some d, some k => showEx showEntries (PhaseList.getItem d k)
    | _, _ => "!err parse"
  | _ => "!err arity"

def handle : List String → String
  | "c11" :: args => runC11 args
  | "c12" :: args => runC12 args
  | "slice" :: args => runSlice args
  | "plget" :: args => runPlGet args
  | _ => "!err bad-op"

end Orix.Driver.XMapOp
