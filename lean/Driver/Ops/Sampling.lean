import OrixModel.Sampling
import OrixModel.SO3Sampling
import Driver.Proto
/-
ops `samp …` (C19): deterministic S2 sampling grids, run in Float (counts are exact integers).
  samp linspace <start> <stop> <num> <0|1>           `np.linspace(start, stop, num, endpoint)`       → num floats
  samp uv <res> <upper|lower|both> <offset> <0|1>    `_sample_S2_uv_mesh_coordinates`                → stepsAz stepsPol nAz nPol az… pol…
  samp uvmesh <res> <hemi> <offset> <rm 0|1> <full 0|1>   `sample_S2_uv_mesh`                         → count [xyz…]
  samp ea <res> <hemi> <0|1>                         `_sample_S2_equal_area_coordinates`             → steps nAz nPol az… pol…
  samp eamesh <res> <hemi> <rm 0|1> <full 0|1>       `sample_S2_equal_area_mesh`                     → count [xyz…]
  samp cube <normalized|spherified_edge|spherified_corner> <res> <full 0|1>   `sample_S2_cube_mesh`  → steps nEdge total edge… [xyz…]
  samp hex <res> <full 0|1>                          `sample_S2_hexagonal_mesh`                      → steps total [xyz…]
  samp so3steps <res> <even 0|1> <odd 0|1>          `_resolution_to_num_steps`                      → n
  samp so3q <res> <full 0|1>                         `_three_uniform_samples_method(res, unique=False)` → count [abcd…]
  samp so3e <res> <full 0|1>                         `_euler_angles_haar_measure(res, unique=False)`    → count [abcd…]
Python exceptions answer `!err zerodiv|nonfinite|negcount|offset|value`.
-/
namespace Orix.Driver.Samp
open Orix Proto Sampling SO3Sampling

def floats (xs : List Float) : String := showList showFloat xs

def flag : String → Option Bool
  | "0" => some false | "1" => some true | _ => none

def xyz (vs : List (Vec3 Float)) : List Float := (vs.map Vec3.toList).flatten

def quats (qs : List (Quat Float)) : List Float := (qs.map fun q => [q.a, q.b, q.c, q.d]).flatten

def join (parts : List String) : String := " ".intercalate (parts.filter (· ≠ ""))

def err (e : Err) : String := "!err " ++ e.tag

def handle : List String → String
  | ["linspace", a, b, n, e] =>
    match parseFloat a, parseFloat b, n.toNat?, flag e with
    | some a, some b, some n, some e => floats (linspace a b n e)
    | _, _, _, _ => "!err parse"
  | ["uv", r, h, o, e] =>
    match parseFloat r, Hemisphere.parse h, parseFloat o, flag e with
    | some r, some h, some o, some e =>
      match uvCoordinates r h o e with
      | .error x => err x
      | .ok c => join [toString c.stepsAzimuth, toString c.stepsPolar, toString c.azimuth.length,
                       toString c.polar.length, floats c.azimuth, floats c.polar]
    | _, none, _, _ => err .value
    | _, _, _, _ => "!err parse"
  | ["uvmesh", r, h, o, rm, full] =>
    match parseFloat r, Hemisphere.parse h, parseFloat o, flag rm, flag full with
    | some r, some h, some o, some rm, some full =>
      if full then
        match uvMesh r h o rm with
        | .error x => err x
        | .ok vs => join [toString vs.length, floats (xyz vs)]
      else
        match uvMeshNodes r h o rm with
        | .error x => err x
        | .ok g => toString g.length
    | _, none, _, _, _ => err .value
    | _, _, _, _, _ => "!err parse"
  | ["ea", r, h, e] =>
    match parseFloat r, Hemisphere.parse h, flag e with
    | some r, some h, some e =>
      match eaCoordinates r h e with
      | .error x => err x
      | .ok c => join [toString c.steps, toString c.azimuth.length, toString c.polar.length,
                       floats c.azimuth, floats c.polar]
    | _, none, _ => err .value
    | _, _, _ => "!err parse"
  | ["eamesh", r, h, rm, full] =>
    match parseFloat r, Hemisphere.parse h, flag rm, flag full with
    | some r, some h, some rm, some full =>
      if full then
        match eaMesh r h rm with
        | .error x => err x
        | .ok vs => join [toString vs.length, floats (xyz vs)]
      else
        match eaMeshNodes r h rm with
        | .error x => err x
        | .ok g => toString g.length
    | _, none, _, _ => err .value
    | _, _, _, _ => "!err parse"
  | ["cube", t, r, full] =>
    match GridType.parse t, parseFloat r, flag full with
    | some t, some r, some full =>
      match cubeMesh r t with
      | .error x => err x
      | .ok m => join [toString m.steps, toString m.edge.length, toString m.vectors.length, floats m.edge,
                       if full then floats (xyz m.vectors) else ""]
    | none, _, _ => err .value
    | _, _, _ => "!err parse"
  | ["hex", r, full] =>
    match parseFloat r, flag full with
    | some r, some full =>
      match hexMesh r with
      | .error x => err x
      | .ok m => join [toString m.steps, toString m.vectors.length, if full then floats (xyz m.vectors) else ""]
    | _, _ => "!err parse"
  | ["so3steps", r, e, o] =>
    match parseFloat r, flag e, flag o with
    | some r, some e, some o =>
      match numSteps r e o with
      | .error x => err x
      | .ok n => toString n
    | _, _, _ => "!err parse"
  | ["so3q", r, full] =>
    match parseFloat r, flag full with
    | some r, some full =>
      match quatMethod r with
      | .error x => err x
      | .ok qs => join [toString qs.length, if full then floats (quats qs) else ""]
    | _, _ => "!err parse"
  | ["so3e", r, full] =>
    match parseFloat r, flag full with
    | some r, some full =>
      match eulerMethod r with
      | .error x => err x
      | .ok qs => join [toString qs.length, if full then floats (quats qs) else ""]
    | _, _ => "!err parse"
  | _ => "!err bad-op"

end Orix.Driver.Samp
