import OrixModel
/-
Model kernels of C01 (conversions) by name, appended to `Kern.modelRegistry`.
Wire conventions: Euler triplets, axis–angle `[nx, ny, nz, ω]`; a Rodrigues–Frank vector travels as
`[nx, ny, nz, isInf, t]` (`isInf = 1` ⇒ infinite magnitude, `t` ignored / 0); booleans as 0/1.
-/
namespace Orix.Driver.KernConv
open Orix

variable {α : Type} [Scalar α]

def flag (x : α) : Bool := Scalar.beq x (Scalar.lit 1)

def rfOut (r : RoFrank α) : List α :=
  match r.m with
  | .fin t => [r.n.x, r.n.y, r.n.z, Scalar.lit 0, t]
  | .inf => [r.n.x, r.n.y, r.n.z, Scalar.lit 1, Scalar.lit 0]

def rfIn (x y z i t : α) : RoFrank α := ⟨⟨x, y, z⟩, if flag i then .inf else .fin t⟩

def registry : List (String × (List α → Option (List α))) := [
  ("om2qu", fun xs => match xs with
    | [a, b, c, d, e, f, g, h, i] => some (Conv.om2qu ⟨a, b, c, d, e, f, g, h, i⟩).toList | _ => none),
  ("eu2qu", fun xs => match xs with | [a, b, c] => some (Conv.eu2qu ⟨a, b, c⟩).toList | _ => none),
  ("qu2eu", fun xs => match xs with | [a, b, c, d] => some (Conv.qu2eu ⟨a, b, c, d⟩).toList | _ => none),
  ("ax2qu", fun xs => match xs with | [x, y, z, w] => some (Conv.ax2qu ⟨⟨x, y, z⟩, w⟩).toList | _ => none),
  ("qu2ax", fun xs => match xs with | [a, b, c, d] => some (Conv.qu2ax ⟨a, b, c, d⟩).toList | _ => none),
  ("qu2ho", fun xs => match xs with | [a, b, c, d] => some (Conv.qu2ho ⟨a, b, c, d⟩).toList | _ => none),
  ("ho2ax", fun xs => match xs with | [x, y, z] => some (Conv.ho2ax ⟨x, y, z⟩).toList | _ => none),
  ("ax2ro", fun xs => match xs with | [x, y, z, w] => some (rfOut (Conv.ax2ro ⟨⟨x, y, z⟩, w⟩)) | _ => none),
  ("ro2ax", fun xs => match xs with | [x, y, z, i, t] => some (Conv.ro2ax (rfIn x y z i t)).toList | _ => none),
  -- public wrappers
  ("toMatrix", fun xs => match xs with | [a, b, c, d] => some (Conv.toMatrix ⟨a, b, c, d⟩).toList | _ => none),
  ("toEuler", fun xs => match xs with
    | [deg, a, b, c, d] => some (Conv.toEuler (flag deg) ⟨a, b, c, d⟩).toList | _ => none),
  ("fromEuler", fun xs => match xs with
    | [c2l, deg, a, b, c] => some (Conv.fromEuler (flag c2l) (flag deg) ⟨a, b, c⟩).toList | _ => none),
  ("toAxesAngles", fun xs => match xs with
    | [a, b, c, d] => some (Conv.toAxesAngles ⟨a, b, c, d⟩).toList | _ => none),
  ("fromAxesAngles", fun xs => match xs with
    | [deg, x, y, z, w] => some (Conv.fromAxesAngles (flag deg) ⟨x, y, z⟩ w).toList | _ => none),
  ("toRodriguesFrank", fun xs => match xs with
    | [a, b, c, d] => some (rfOut (Conv.toRodriguesFrank ⟨a, b, c, d⟩)) | _ => none),
  ("fromRodriguesFrank", fun xs => match xs with
    | [x, y, z, i, t] => some (Conv.fromRodriguesFrank (rfIn x y z i t)).toList | _ => none),
  ("toRodrigues", fun xs => match xs with
    | [a, b, c, d] => some (Conv.toRodrigues ⟨a, b, c, d⟩).toList | _ => none),
  ("fromRodrigues", fun xs => match xs with
    | [x, y, z] => some (Conv.fromRodrigues ⟨x, y, z⟩).toList | _ => none),
  ("toHomochoric", fun xs => match xs with
    | [a, b, c, d] => some (Conv.toHomochoric ⟨a, b, c, d⟩).toList | _ => none),
  ("fromHomochoric", fun xs => match xs with
    | [x, y, z] => some (Conv.fromHomochoric ⟨x, y, z⟩).toList | _ => none)
]

end Orix.Driver.KernConv
