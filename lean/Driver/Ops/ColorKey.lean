import OrixModel.ColorKey
import Driver.Proto
/-
ops `ckey …` (C08): geometry of the IPF colour key, run in Float.  The sector (normals as stored, centre, vertices)
comes from the implementation and travels in the request.
  ckey dirs <nn> <nv> <normals:3nn> <centre:3> <vertices:3nv> <dirs:3k>
        per direction: azimuth (before the correction) azimuth (after) polar r g b        → 6k | !err exception
  ckey table <nn> <nv> <normals:3nn> <centre:3> <vertices:3nv>
        `_correct_azimuth`: segment bounds (0 0 when not a 3-vertex sector) and the 1000 table values
                                                                                          → a b t0 … t999 | !err exception
  ckey rgb <azimuth> <lightness>          `rgb_from_polar_coordinates`                    → r g b
  ckey linspace <n> <a> <b>               `np.linspace(a, b, n)`                          → n
  ckey cumsum <x…>                        `np.cumsum`                                     → n
  ckey interp <n> <xp:n> <fp:n> <x…>      `np.interp(x, xp, fp)`                          → per x | !err value
  ckey anglewith <u:3> <v:3>              `Vector3d.angle_with`                           → angle
-/
namespace Orix.Driver.CKey
open Orix Proto ColorKey

def floats (xs : List Float) : String := showList showFloat xs

def vecs : List Float → List (Vec3 Float)
  | a :: b :: c :: r => ⟨a, b, c⟩ :: vecs r
  | _ => []

def isHex (s : String) : Bool := s.length == 16 && (parseFloat s).isSome

def sectorOf (nn nv : Nat) (xs : List Float) : Option (SectorIn Float × List Float) :=
  if xs.length < 3 * nn + 3 + 3 * nv then none else
  match vecs ((xs.drop (3 * nn)).take 3) with
  | [c] => some (⟨vecs (xs.take (3 * nn)), c, vecs ((xs.drop (3 * nn + 3)).take (3 * nv))⟩, xs.drop (3 * nn + 3 + 3 * nv))
  | _ => none

def dirsOut (S : SectorIn Float) (table : List Float) (ds : List (Vec3 Float)) : Option (List Float) :=
  (ds.mapM fun v =>
    match polarCoordinatesWith S table v with
    | none => none
    | some (az, p) =>
      some ([rawAzimuth S v, az, p] ++ rgbFromPolarCoordinates az (Scalar.dec 5 1 + p / Scalar.lit 2))).map List.flatten

def handleF (sub : String) (tags : List String) (xs : List Float) : String :=
  match sub, tags with
  | "dirs", [a, b] =>
    match a.toNat?, b.toNat? with
    | some nn, some nv =>
      match sectorOf nn nv xs with
      | none => "!err parse"
      | some (S, rest) =>
        if rest.length % 3 != 0 then "!err parse" else
        let table := if nv == 0 then some [] else azimuthTable S
        match table with
        | none => "!err exception"
        | some t => match dirsOut S t (vecs rest) with
          | none => "!err exception"
          | some o => floats o
    | _, _ => "!err parse"
  | "table", [a, b] =>
    match a.toNat?, b.toNat? with
    | some nn, some nv =>
      match sectorOf nn nv xs with
      | none => "!err parse"
      | some (S, _) =>
        let sb := if nv == 3 then segmentBounds (Vec3.unit S.center) (rxOf S) S.vertices else some (0, 0)
        match sb, azimuthTable S with
        | some (i, j), some t => s!"{i} {j} " ++ floats t
        | _, _ => "!err exception"
    | _, _ => "!err parse"
  | "rgb", [] =>
    match xs with
    | [az, l] => floats (rgbFromPolarCoordinates az l)
    | _ => "!err parse"
  | "linspace", [n] =>
    match n.toNat?, xs with
    | some k, [a, b] => floats (linspace a b k)
    | _, _ => "!err parse"
  | "cumsum", [] => floats (cumsum xs)
  | "interp", [n] =>
    match n.toNat? with
    | some k =>
      if xs.length < 2 * k then "!err parse" else
      let pts := (xs.take k).zip ((xs.drop k).take k)
      match (xs.drop (2 * k)).mapM (fun x => interp x pts) with
      | some o => floats o
      | none => "!err value"
    | none => "!err parse"
  | "anglewith", [] =>
    match xs with
    | [a, b, c, d, e, f] => floats [angleWith ⟨a, b, c⟩ ⟨d, e, f⟩]
    | _ => "!err parse"
  | _, _ => "!err bad-op"

def handle : List String → String
  | sub :: args =>
    let tags := args.takeWhile (fun s => !isHex s)
    match parseAll parseFloat (args.dropWhile (fun s => !isHex s)) with
    | none => "!err parse"
    | some xs => handleF sub tags xs
  | [] => "!err bad-op"

end Orix.Driver.CKey
