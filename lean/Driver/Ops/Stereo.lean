import OrixModel.Hist
import Driver.Proto
/-
ops `stereo …` and `hist …` (C20): stereographic model and histogram skeleton, run in Float.
  stereo v2xy <n|s> <v:3>              `_vector2xy` (raw) and region test                       → X Y <0|1>
  stereo xy2v <n|s> <X Y>              `xy2vector`                                              → x y z
  stereo split <v:3k>                  `vector2xy_split`                                         → <nu> <nl> XYupper… XYlower…
  stereo topolar <d|r> <v:3>           `to_polar(degrees)`                                       → az pol r
  stereo frompolar <d|r> <az pol r>    `from_polar(degrees)`                                     → x y z
  hist bin <x> <edges…>                `np.histogram` bin index                                  → i | -1
  hist h2 <na> <np> <ea:na> <ep:np> <(az pol w):3m>   2-d weighted histogram                     → bins… inRangeWeight
  hist corr <wrap|reflect> <r> <w:2r+1> <f:n>         `correlate1d`                              → n
  hist smooth2 <na> <np> <r0> <r1> <w0> <w1> <h:na·np>  `gaussian_filter(mode=("wrap","reflect"))` with given kernels → na·np
  hist mrd <n> <h:n> <mask:n as 0/1 floats>           division by the masked mean                → n | !err undefined
  hist pdf <na> <np> <r0> <r1> <mrd|raw> <ea> <ep> <w0:2r0+1> <w1:2r1+1> <(x y z w):4m>
                                                      full pipeline (no symmetry, no mask): spherical coordinates,
                                                      histogram, smoothing with the given kernels, [MRD]  → (na-1)(np-1) | !err undefined
-/
namespace Orix.Driver.St
open Orix Proto Stereo Hist

def pole : String → Option Pole
  | "n" => some .north | "s" => some .south | _ => none

def floats (xs : List Float) : String := showList showFloat xs

def vecs : List Float → List (Vec3 Float)
  | a :: b :: c :: r => ⟨a, b, c⟩ :: vecs r
  | _ => []

def pairs (l : List (Float × Float)) : List Float := (l.map fun p => [p.1, p.2]).flatten

def handleStereoF (sub : String) (tags : List String) (xs : List Float) : String :=
  match sub, tags, xs with
  | "v2xy", [p], [x, y, z] =>
    match pole p with
    | some q =>
      let r := vector2xyRaw q (⟨x, y, z⟩ : Vec3 Float)
      floats [r.1, r.2] ++ (if inRegion q (⟨x, y, z⟩ : Vec3 Float) then " 1" else " 0")
    | none => "!err value"
  | "xy2v", [p], [x, y] =>
    match pole p with
    | some q => floats (xy2vector q x y).toList
    | none => "!err value"
  | "split", [], vs =>
    if vs.length % 3 != 0 then "!err parse" else
    let r := vector2xySplit (vecs vs)
    s!"{r.1.length} {r.2.length} " ++ floats (pairs r.1 ++ pairs r.2)
  | "topolar", [d], [x, y, z] =>
    let r := toPolar (d == "d") (⟨x, y, z⟩ : Vec3 Float)
    floats [r.1, r.2.1, r.2.2]
  | "frompolar", [d], [a, t, r] => floats (fromPolar (d == "d") a t r).toList
  | _, _, _ => "!err bad-op"

def isHex (s : String) : Bool := s.length == 16 && (parseFloat s).isSome

def handleStereo : List String → String
  | sub :: args =>
    let tags := args.takeWhile (fun s => !isHex s)
    match parseAll parseFloat (args.dropWhile (fun s => !isHex s)) with
    | none => "!err parse"
    | some xs => handleStereoF sub tags xs
  | [] => "!err bad-op"

def triples : List Float → List (Float × Float × Float)
  | a :: b :: c :: r => (a, b, c) :: triples r
  | _ => []

def quads : List Float → List (Vec3 Float × Float)
  | a :: b :: c :: d :: r => (⟨a, b, c⟩, d) :: quads r
  | _ => []

/-- array-backed signal; indices produced by the boundary maps are always in range -/
def sig (a : Array Float) : Nat → Float := fun i => a.getD i 0.0
def sig2 (a : Array Float) (np : Nat) : Nat → Nat → Float := fun i j => a.getD (i * np + j) 0.0

def nats (ts : List String) : Option (List Nat) := ts.mapM String.toNat?

def handleHist : List String → String
  | sub :: args =>
    let tags := args.takeWhile (fun s => !isHex s)
    match parseAll parseFloat (args.dropWhile (fun s => !isHex s)) with
    | none => "!err parse"
    | some xs =>
      match sub, tags with
      | "bin", [] =>
        match xs with
        | x :: edges => match binIndex edges x with
          | some i => toString i
          | none => "-1"
        | [] => "!err parse"
      | "h2", [a, b] =>
        match a.toNat?, b.toNat? with
        | some na, some np =>
          let ea := xs.take na
          let ep := (xs.drop na).take np
          let pts := triples (xs.drop (na + np))
          let h := hist2 ea ep pts
          floats (h ++ [inRangeWeight (fun p => bin2 ea ep p.1 p.2.1) (fun p => p.2.2) pts])
        | _, _ => "!err parse"
      | "corr", [mode, rs] =>
        match rs.toNat? with
        | some r =>
          let w := (xs.take (2 * r + 1)).toArray
          let f := (xs.drop (2 * r + 1)).toArray
          let n := f.size
          if n == 0 then "!err parse" else
          let ext := if mode == "wrap" then wrapIdx else reflectIdx
          if mode != "wrap" && mode != "reflect" then "!err value" else
          floats ((List.range n).map (corr1 ext n r (sig w) (sig f)))
        | none => "!err parse"
      | "smooth2", [a, b, c, d] =>
        match nats [a, b, c, d] with
        | some [na, np, r0, r1] =>
          let w0 := (xs.take (2 * r0 + 1)).toArray
          let w1 := ((xs.drop (2 * r0 + 1)).take (2 * r1 + 1)).toArray
          let h := (xs.drop (2 * r0 + 1 + 2 * r1 + 1)).toArray
          if h.size != na * np || na == 0 || np == 0 then "!err parse" else
          let out := (List.range na).map fun i => (List.range np).map fun j =>
            smooth2 na np r0 r1 (sig w0) (sig w1) (sig2 h np) i j
          floats out.flatten
        | _ => "!err parse"
      | "mrd", [ns] =>
        match ns.toNat? with
        | some n =>
          let h := xs.take n
          let mask := (xs.drop n).map (fun x => x == 1.0)
          match mrd h mask with
          | some o => floats o
          | none => "!err undefined"
        | none => "!err parse"
      | "pdf", [a, b, c, d, m] =>
        match nats [a, b, c, d] with
        | some [na, np, r0, r1] =>
          let ea := xs.take na
          let ep := (xs.drop na).take np
          let rest := xs.drop (na + np)
          let w0 := (rest.take (2 * r0 + 1)).toArray
          let w1 := ((rest.drop (2 * r0 + 1)).take (2 * r1 + 1)).toArray
          let pts := quads (rest.drop (2 * r0 + 1 + 2 * r1 + 1))
          let ba := na - 1
          let bp := np - 1
          if ba == 0 || bp == 0 then "!err parse" else
          let post : List Float → List Float := fun h =>
            let arr := h.toArray
            ((List.range ba).map fun i => (List.range bp).map fun j =>
              smooth2 ba bp r0 r1 (sig w0) (sig w1) (sig2 arr bp) i j).flatten
          if m == "raw" then floats (pdfRaw (fun v => v) ea ep post pts)
          else match pdf (fun v => v) ea ep post (List.replicate (ba * bp) false) pts with
            | some o => floats o
            | none => "!err undefined"
        | _ => "!err parse"
      | _, _ => "!err bad-op"
  | [] => "!err bad-op"

end Orix.Driver.St
