import OrixModel.Orbit
import OrixGen.PointGroups
import Driver.Proto
/-
op `orb …` (C10): Miller symmetry operations of the model on integer lattice indices (direct lattice, `uvw`).
  orb sym <k> <cub|hex> <n> <u v w …>    `symmetrise(unique=True, return_multiplicity=True, return_index=True)`:
                                          `<m> vectors… | multiplicities… | index…`
  orb uniq <k> <cub|hex> <n> <u v w …>   `unique(use_symmetry=True)`: kept vectors (first met per orbit)
-/
namespace Orix.Driver.Orb
open Orix.Grp Orix.Orb Orix.Gen Orix.Proto

def vecs : List Int → Option (List Z3)
  | [] => some []
  | a :: b :: c :: r => (vecs r).map fun t => (⟨a, b, c⟩ : Z3) :: t
  | _ => none

def showZ (v : Z3) : String := s!"{v.x} {v.y} {v.z}"

def opsOf (k b : String) : Option (List M3) := do
  let i ← k.toNat?
  let r ← PG.all[i]?
  match b with
  | "cub" => r.cub
  | "hex" => r.hex
  | _ => none

def handle : List String → String
  | "sym" :: k :: b :: n :: xs =>
    match opsOf k b, n.toNat?, parseAll parseInt xs >>= vecs with
    | some L, some nn, some vs =>
      if vs.length != nn then "!err arity" else
      let r := symmetriseUnique M3.act L vs
      s!"{r.1.length} " ++ " ".intercalate (r.1.map showZ) ++ " | " ++ " ".intercalate (r.2.1.map toString) ++ " | " ++
        " ".intercalate (r.2.2.map toString)
    | _, _, _ => "!err args"
  | "uniq" :: k :: b :: n :: xs =>
    match opsOf k b, n.toNat?, parseAll parseInt xs >>= vecs with
    | some L, some nn, some vs =>
      if vs.length != nn then "!err arity" else
      let r := uniqueSym M3.act L vs
      s!"{r.length} " ++ " ".intercalate (r.map showZ)
    | _, _, _ => "!err args"
  | _ => "!err bad-op"

end Orix.Driver.Orb
