import OrixModel.Miller
import Driver.Proto
/-
op `lat …` (C09): the lattice / Miller model run in Float.  Floats cross as 16 hex digits.
  lat ts <d|r|c> <d|r|c> <B:9> <v:3>            `_transform_space` on the lattice `Lattice(base=B)`       → 3
  lat i4 <hkl2hkil|uvw2UVTW> <v:3>               3-index → 4-index                                         → 4
  lat i4 <hkil2hkl|UVTW2uvw> <q:4>               4-index → 3-index                                         → 3
  lat i4 check <q:4>                             `_check_hkil/_check_UVTW`                                 → 0|1
  lat align <B:9>                                `_new_structure_matrix_from_alignment`                    → exact:9 rounded:9
  lat phase <n> <B:9> <frac:3n>                  `Phase.structure` setter                                  → base:9 recbase:9 metrics:9 frac:3n
  lat abc <B:9>                                  `abcABG()` of `Lattice(base=B)`                           → 6
  lat mil <fmt-in> <fmt-out> <B:9> <coords:3|4>  `Miller(fmt-in=coords).fmt-out`, then `.length`            → coords… length
  lat dot|cross|angle <fmt1> <fmt2> <pg1> <pg2> <B1:9> <B2:9> <c1> <c2>
                                                 `Miller.dot/cross/angle_with`                             → value | fmt data:3 coords…
Errors: `!err lattice-degenerate`, `!err lattice-left-handed`, `!err value`, `!err key`, `!err parse`.
-/
namespace Orix.Driver.Lat
open Orix Proto

def mat (xs : List Float) : Option (Mat3 Float) :=
  match xs with
  | [a, b, c, d, e, f, g, h, i] => some ⟨a, b, c, d, e, f, g, h, i⟩
  | _ => none

def vec (xs : List Float) : Option (Vec3 Float) :=
  match xs with
  | [a, b, c] => some ⟨a, b, c⟩
  | _ => none

def space : String → Option Space
  | "d" => some .d | "r" => some .r | "c" => some .c | _ => none

def fmt : String → Option Fmt
  | "xyz" => some .xyz | "uvw" => some .uvw | "UVTW" => some .UVTW | "hkl" => some .hkl | "hkil" => some .hkil
  | _ => none

def fmtName : Fmt → String
  | .xyz => "xyz" | .uvw => "uvw" | .UVTW => "UVTW" | .hkl => "hkl" | .hkil => "hkil"

def latErr : LatErr → String
  | .degenerate => "!err lattice-degenerate"
  | .leftHanded => "!err lattice-left-handed"

def milErr : MillerErr → String
  | .value => "!err value"
  | .key => "!err key"
  | .lattice e => latErr e

def floats (xs : List Float) : String := showList showFloat xs

def nArgs (f : Fmt) : Nat := match f with | .UVTW | .hkil => 4 | _ => 3

def handleF (sub : String) (tags : List String) (xs : List Float) : String :=
  match sub, tags with
  | "ts", [a, b] =>
    match space a, space b, mat (xs.take 9), vec (xs.drop 9) with
    | some sa, some sb, some B, some v =>
      match Lattice.ofBase B with
      | .error e => latErr e
      | .ok L =>
        match transformSpace v sa sb L with
        | .error e => milErr e
        | .ok w => floats w.toList
    | none, _, _, _ => "!err value"
    | _, none, _, _ => "!err value"
    | _, _, _, _ => "!err parse"
  | "i4", [name] =>
    match name, xs with
    | "hkl2hkil", [a, b, c] => floats (hkl2hkil ⟨a, b, c⟩).toList
    | "uvw2UVTW", [a, b, c] => floats (uvw2UVTW ⟨a, b, c⟩).toList
    | "hkil2hkl", [a, b, c, d] => floats (hkil2hkl ⟨a, b, c, d⟩).toList
    | "UVTW2uvw", [a, b, c, d] => floats (UVTW2uvw ⟨a, b, c, d⟩).toList
    | "check", [a, b, c, d] => if check4 (⟨a, b, c, d⟩ : Vec4 Float) then "1" else "0"
    | _, _ => "!err parse"
  | "align", [] =>
    match mat xs with
    | some B => floats ((alignExact B).toList ++ (align B).toList)
    | none => "!err parse"
  | "abc", [] =>
    match mat xs with
    | some B =>
      match Lattice.ofBase B with
      | .error e => latErr e
      | .ok L => floats L.abcABG
    | none => "!err parse"
  | "phase", [n] =>
    match n.toNat?, mat (xs.take 9) with
    | some k, some B =>
      let fr := xs.drop 9
      if fr.length != 3 * k then "!err parse" else
      let rec chunk : Nat → List Float → List (Vec3 Float)
        | 0, _ => []
        | k + 1, a :: b :: c :: r => ⟨a, b, c⟩ :: chunk k r
        | _ + 1, _ => []
      match Lattice.ofBase B with
      | .error e => latErr e
      | .ok L =>
        match setStructure L (chunk k fr) with
        | .error e => latErr e
        | .ok P => floats (P.lattice.base.toList ++ P.lattice.recbase.toList ++ P.lattice.metrics.toList
            ++ (P.frac.map Vec3.toList).flatten)
    | _, _ => "!err parse"
  | "mil", [fi, fo] =>
    match fmt fi, fmt fo, mat (xs.take 9) with
    | some f1, some f2, some B =>
      match Lattice.ofBase B with
      | .error e => latErr e
      | .ok L =>
        match Miller.ofCoords f1 (xs.drop 9) ⟨L, 0⟩ with
        | .error e => milErr e
        | .ok m => floats (m.coordsIn f2 ++ [m.length])
    | _, _, _ => "!err parse"
  | op, [f1, f2, g1, g2] =>
    match fmt f1, fmt f2, g1.toNat?, g2.toNat?, mat (xs.take 9), mat ((xs.drop 9).take 9) with
    | some a, some b, some p1, some p2, some B1, some B2 =>
      let rest := xs.drop 18
      let c1 := rest.take (nArgs a)
      let c2 := rest.drop (nArgs a)
      match Lattice.ofBase B1, Lattice.ofBase B2 with
      | .error e, _ => latErr e
      | _, .error e => latErr e
      | .ok L1, .ok L2 =>
        match Miller.ofCoords a c1 ⟨L1, p1⟩, Miller.ofCoords b c2 ⟨L2, p2⟩ with
        | .error e, _ => milErr e
        | _, .error e => milErr e
        | .ok m, .ok n =>
          if op == "dot" then
            match Miller.dot m n with
            | .error e => milErr e
            | .ok d => floats [d]
          else if op == "angle" then
            match Miller.angleWith m n with
            | .error e => milErr e
            | .ok d => floats [d]
          else if op == "cross" then
            match Miller.cross m n with
            | .error e => milErr e
            | .ok r => fmtName r.fmt ++ " " ++ floats (r.data.toList ++ r.coordinates)
          else "!err bad-op"
    | _, _, _, _, _, _ => "!err parse"
  | _, _ => "!err bad-op"

/-- split the arguments into leading tags (non-hex words) and the float payload -/
def handle : List String → String
  | sub :: args =>
    let isHex (s : String) : Bool := s.length == 16 && (parseFloat s).isSome
    let tags := args.takeWhile (fun s => !isHex s)
    let payload := args.dropWhile (fun s => !isHex s)
    match parseAll parseFloat payload with
    | none => "!err parse"
    | some xs => handleF sub tags xs
  | [] => "!err bad-op"

end Orix.Driver.Lat
