import OrixModel
import OrixModel.Codec.H5
import OrixGen.IoTables
import Driver.Proto
/-
op `codec <sub> <ints…>`: run the file-codec models on a record serialised as integer tokens
(Nat/Int: one token; Bool: 0/1; string: length then code points; list: length then elements;
option: 0 | 1 then the value).  The answer is one line of JSON (strings as arrays of code points).
The column/alias/sentinel tables used are the ones generated from the source (`OrixGen.IoTables`).
-/
namespace Orix.Driver.Codec
open Orix.Codec Orix.Codec.Ang

/-! ### token parser -/
abbrev P := StateT (List Int) Option

def pInt : P Int := fun s => match s with | x :: r => some (x, r) | [] => none
def pNat : P Nat := do let x ← pInt; if x < 0 then failure else pure x.toNat
def pBool : P Bool := do let x ← pInt; pure (x != 0)
def pListN {α} (p : P α) : Nat → P (List α)
  | 0 => pure []
  | n + 1 => do let a ← p; let r ← pListN p n; pure (a :: r)
def pList {α} (p : P α) : P (List α) := do let n ← pNat; pListN p n
def pStr : P Str := pList pNat
def pOpt {α} (p : P α) : P (Option α) := do let t ← pInt; if t == 0 then pure none else some <$> p

/-! ### JSON printer -/
def jInt (x : Int) : String := toString x
def jNat (x : Nat) : String := toString x
def jBool (b : Bool) : String := if b then "true" else "false"
def jArr (xs : List String) : String := "[" ++ ",".intercalate xs ++ "]"
def jList {α} (f : α → String) (xs : List α) : String := jArr (xs.map f)
def jStr (s : Str) : String := jList jNat s
def jOpt {α} (f : α → String) : Option α → String
  | none => "null"
  | some a => f a
def jObj (kvs : List (String × String)) : String :=
  "{" ++ ",".intercalate (kvs.map fun (k, v) => "\"" ++ k ++ "\":" ++ v) ++ "}"
def jTag (s : String) : String := "\"" ++ s ++ "\""

def jArrRec (a : Arr) : String := jObj [("dt", jNat a.dt), ("shape", jList jNat a.shape), ("vals", jList jInt a.vals)]
def jEuler (e : Codec.Euler) : String := jArr [jInt e.p1, jInt e.pp, jInt e.p2]
def jPt (p : Pt) : String :=
  jObj [("x", jInt p.x), ("y", jInt p.y), ("ph", jInt p.phaseId), ("eu", jEuler p.eu), ("v", jList jInt p.vals)]
def jAtomInfo (a : AtomInfo) : String :=
  jObj [("el", jStr a.element), ("xyz", jList jStr a.xyz), ("occ", jInt a.occ)]
def jPhaseInfo (p : PhaseInfo) : String :=
  jObj [("id", jInt p.id), ("name", jStr p.name), ("pg", jOpt jStr p.pg), ("sg", jOpt jNat p.sg),
        ("lat", jList jInt p.lattice), ("atoms", jList jAtomInfo p.atoms)]
def jPMap (m : PMap) : String :=
  jObj [("props", jList jStr m.propNames), ("pts", jList jPt m.pts), ("phases", jList jPhaseInfo m.phases),
        ("unit", jStr m.unit), ("deg", jBool m.degrees)]

def vendorName : Vendor → String
  | .tsl => "tsl" | .emsoft => "emsoft" | .astar => "astar" | .orix => "orix" | .unknown => "unknown"

def jHLine : HLine → String
  | .phase i => jObj [("t", jTag "phase"), ("id", jNat i)]
  | .materialName t => jObj [("t", jTag "name"), ("toks", jList jStr t)]
  | .formula t => jObj [("t", jTag "formula"), ("toks", jList jStr t)]
  | .symmetry s => jObj [("t", jTag "sym"), ("s", jStr s)]
  | .lattice v => jObj [("t", jTag "lat"), ("v", jList jInt v)]
  | .columnNames n => jObj [("t", jTag "cols"), ("names", jList jStr n)]
  | .mark v => jObj [("t", jTag "mark"), ("v", jTag (vendorName v))]
  | .grid k v => jObj [("t", jTag "grid"), ("k", jStr k), ("v", jInt v)]
  | .other => jObj [("t", jTag "other")]

def jAngFile (f : AngFile) : String :=
  jObj [("header", jList jHLine f.header), ("ncols", jNat f.ncols), ("rows", jList (jList jInt) f.rows),
        ("widths", jList jNat f.widths)]

/-! ### records -/
def pEuler : P Codec.Euler := do let a ← pInt; let b ← pInt; let c ← pInt; pure ⟨a, b, c⟩
def pAtomInfo : P AtomInfo := do
  let e ← pStr; let xyz ← pList pStr; let o ← pInt; pure ⟨e, xyz, o⟩
def pPhaseInfo : P PhaseInfo := do
  let id ← pInt; let name ← pStr; let pg ← pOpt pStr; let sg ← pOpt pNat; let lat ← pList pInt
  let atoms ← pList pAtomInfo
  pure { id := id, name := name, pg := pg, sg := sg, lattice := lat, atoms := atoms }
def pInProp : P InProp := do let n ← pStr; let t ← pBool; pure ⟨n, t⟩
def pInPt : P InPt := do
  let d ← pBool; let ph ← pInt; let rots ← pList pEuler; let vals ← pList (pList pInt)
  pure ⟨d, ph, rots, vals⟩
def pGridIn : P GridIn := do
  let oneD ← pBool; let nr ← pNat; let nc ← pNat; let dy ← pInt; let dx ← pInt
  let props ← pList pInProp; let pts ← pList pInPt; let phases ← pList pPhaseInfo
  pure ⟨oneD, nr, nc, dy, dx, props, pts, phases⟩
def pAngOpts : P AngOpts := do
  let i ← pOpt pInt; let a ← pOpt pStr; let b ← pOpt pStr; let c ← pOpt pStr; let d ← pOpt pStr
  let e ← pOpt (pList pStr)
  pure ⟨i, a, b, c, d, e⟩

def pPt : P Pt := do
  let x ← pInt; let y ← pInt; let ph ← pInt; let e ← pEuler; let v ← pList pInt
  pure ⟨x, y, ph, e, v⟩
def pPMap : P PMap := do
  let names ← pList pStr; let pts ← pList pPt; let phases ← pList pPhaseInfo; let unit ← pStr
  let deg ← pBool
  pure ⟨names, pts, phases, unit, deg⟩

/-- `codec ang <opts> <grid>`: the orix .ang writer, the reader on its output, and the specification -/
def runAng : P String := do
  let o ← pAngOpts
  let m ← pGridIn
  let w := Gen.Io.angWriter
  match writeAng w o m with
  | none => pure (jObj [("err", jTag "writer-raises")])
  | some f =>
    let rd := match readAng Gen.Io.angReader w.scale f with
      | none => "null"
      | some (warned, pm) => jObj [("warned", jBool warned), ("map", jPMap pm)]
    let spec := match resolveProps w o m with
      | none => "null"
      | some cols => jPMap (quantise Gen.Io.properSubgroup o m cols)
    pure (jObj [("file", jAngFile f), ("read", rd), ("spec", spec)])


/-! ### orix HDF5 -/
section H5
open Orix.Codec.H5

def pArr : P Arr := do let dt ← pNat; let sh ← pList pNat; let v ← pList pInt; pure ⟨dt, sh, v⟩
def pAtomRec : P AtomRec := do
  let e ← pStr; let l ← pStr; let odt ← pNat; let o ← pInt; let xyz ← pArr; let u ← pArr
  pure ⟨e, l, odt, o, xyz, u⟩
def pPhaseRec : P PhaseRec := do
  let id ← pInt; let name ← pStr; let sg ← pOpt pNat; let pg ← pOpt pStr; let color ← pStr
  let abc ← pArr; let br ← pArr; let atoms ← pList pAtomRec
  pure ⟨id, name, sg, pg, color, abc, br, atoms⟩
def pPropRec : P PropRec := do let n ← pStr; let a ← pArr; pure ⟨n, a⟩
def pMapRec : P MapRec := do
  let y ← pOpt pArr; let x ← pOpt pArr; let ind ← pArr; let pid ← pArr
  let p1 ← pArr; let pp ← pArr; let p2 ← pArr; let props ← pList pPropRec; let unit ← pStr
  let phases ← pList pPhaseRec
  pure ⟨y, x, ind, pid, p1, pp, p2, props, unit, phases⟩
def pDerived : P Derived := do
  let ny ← pInt; let nx ← pInt; let ysd ← pNat; let ys ← pInt; let xsd ← pNat; let xs ← pInt
  let rpp ← pInt; let ida ← pArr; let idt ← pNat
  pure ⟨ny, nx, (ysd, ys), (xsd, xs), rpp, ida, idt⟩

def jKey : Key → String
  | .s name => jObj [("s", jStr name)]
  | .n i => jObj [("n", jInt i)]
def jDS : DS → String
  | .num dt sh v => jObj [("dt", jNat dt), ("shape", jList jNat sh), ("vals", jList jInt v)]
  | .bytes cap b => jObj [("cap", jNat cap), ("bytes", jList jNat b)]
mutual
def jH5 : H5 → String
  | .ds d => jObj [("d", jDS d)]
  | .group items => jObj [("g", jArr (jH5Items items))]
def jH5Items : List (Key × H5) → List String
  | [] => []
  | (k, t) :: r => jArr [jKey k, jH5 t] :: jH5Items r
end
def jAtomRec (a : AtomRec) : String :=
  jObj [("el", jStr a.element), ("label", jStr a.label), ("occdt", jNat a.occDt), ("occ", jInt a.occ),
        ("xyz", jArrRec a.xyz), ("u", jArrRec a.u)]
def jPhaseRec (p : PhaseRec) : String :=
  jObj [("id", jInt p.id), ("name", jStr p.name), ("sg", jOpt jNat p.sg), ("pg", jOpt jStr p.pg),
        ("color", jStr p.color), ("abc", jArrRec p.abcABG), ("baserot", jArrRec p.baserot),
        ("atoms", jList jAtomRec p.atoms)]
def jMapRec (m : MapRec) : String :=
  jObj [("y", jOpt jArrRec m.y), ("x", jOpt jArrRec m.x), ("in", jArrRec m.inData), ("pid", jArrRec m.phaseId),
        ("phi1", jArrRec m.phi1), ("Phi", jArrRec m.phi), ("phi2", jArrRec m.phi2),
        ("props", jList (fun p => jObj [("name", jStr p.name), ("arr", jArrRec p.arr)]) m.props),
        ("unit", jStr m.scanUnit), ("phases", jList jPhaseRec m.phases)]

def h5Tables : PhaseTables :=
  { aliases := Gen.Io.pointGroupAliases, groups := Gen.Io.pointGroupNames, sgPointGroup := Gen.Io.sgPointGroup }

/-- `codec h5 <derived> <not-indexed phase> <map>`: tree written below /crystal_map and the map read back;
then the second cycle -/
def runH5 : P String := do
  let e ← pDerived
  let ni ← pPhaseRec
  let m ← pMapRec
  match H5.write e m with
  | none => pure (jObj [("err", jTag "writer-raises")])
  | some t =>
    let rd := H5.read h5Tables ni t
    let second := rd.bind fun m' => (H5.write e m').bind (H5.read h5Tables ni)
    pure (jObj [("tree", jH5 t), ("read", jOpt jMapRec rd), ("second", jOpt jMapRec second)])

end H5

def subops : List (String × P String) := [("ang", runAng), ("h5", runH5)]

def handle : List String → String
  | sub :: args =>
    match subops.find? (·.1 == sub), args.mapM String.toInt? with
    | some (_, p), some toks =>
      match p.run toks with
      | some (out, []) => out
      | some (_, _ :: _) => "!err trailing-tokens"
      | none => "!err parse"
    | none, _ => "!err unknown-codec-op"
    | _, none => "!err parse"
  | _ => "!err bad-op"

end Orix.Driver.Codec
