import OrixModel
import OrixModel.Codec.H5
import OrixModel.Codec.AngVendors
import OrixModel.Codec.Ctf
import OrixModel.Codec.Bruker
import OrixModel.Codec.Emsoft
import OrixGen.IoTables
import Driver.Proto
/-
op `codec <sub> <ints…>`: run the file-codec models on a record serialised as integer tokens
(Nat/Int: one token; Bool: 0/1; string: length then code points; list: length then elements;
option: 0 | 1 then the value).  The answer is one line of JSON (strings as arrays of code points).
The column/alias/sentinel tables used are the ones generated from the source (`OrixGen.IoTables`).
-/
namespace Orix.Driver.Codec
open Orix.Codec Orix.Codec.Ang

/-! ### token parser -/
abbrev P := StateT (List Int) Option

def pInt : P Int := fun s => match s with | x :: r => some (x, r) | [] => none
def pNat : P Nat := do let x ← pInt; if x < 0 then failure else pure x.toNat
def pBool : P Bool := do let x ← pInt; pure (x != 0)
def pListN {α} (p : P α) : Nat → P (List α)
  | 0 => pure []
  | n + 1 => do let a ← p; let r ← pListN p n; pure (a :: r)
def pList {α} (p : P α) : P (List α) := do let n ← pNat; pListN p n
def pStr : P Str := pList pNat
def pOpt {α} (p : P α) : P (Option α) := do let t ← pInt; if t == 0 then pure none else some <$> p

/-! ### JSON printer -/
def jInt (x : Int) : String := toString x
def jNat (x : Nat) : String := toString x
def jBool (b : Bool) : String := if b then "true" else "false"
def jArr (xs : List String) : String := "[" ++ ",".intercalate xs ++ "]"
def jList {α} (f : α → String) (xs : List α) : String := jArr (xs.map f)
def jStr (s : Str) : String := jList jNat s
def jOpt {α} (f : α → String) : Option α → String
  | none => "null"
  | some a => f a
def jObj (kvs : List (String × String)) : String :=
  "{" ++ ",".intercalate (kvs.map fun (k, v) => "\"" ++ k ++ "\":" ++ v) ++ "}"
def jTag (s : String) : String := "\"" ++ s ++ "\""

def jArrRec (a : Arr) : String := jObj [("dt", jNat a.dt), ("shape", jList jNat a.shape), ("vals", jList jInt a.vals)]
def jEuler (e : Codec.Euler) : String := jArr [jInt e.p1, jInt e.pp, jInt e.p2]
def jPt (p : Pt) : String :=
  jObj [("x", jInt p.x), ("y", jInt p.y), ("ph", jInt p.phaseId), ("eu", jEuler p.eu), ("v", jList jInt p.vals)]
def jAtomInfo (a : AtomInfo) : String :=
  jObj [("el", jStr a.element), ("xyz", jList jStr a.xyz), ("occ", jInt a.occ)]
def jPhaseInfo (p : PhaseInfo) : String :=
  jObj [("id", jInt p.id), ("name", jStr p.name), ("pg", jOpt jStr p.pg), ("sg", jOpt jNat p.sg),
        ("lat", jList jInt p.lattice), ("atoms", jList jAtomInfo p.atoms)]
def jPMap (m : PMap) : String :=
  jObj [("props", jList jStr m.propNames), ("pts", jList jPt m.pts), ("phases", jList jPhaseInfo m.phases),
        ("unit", jStr m.unit), ("deg", jBool m.degrees)]

def vendorName : Vendor → String
  | .tsl => "tsl" | .emsoft => "emsoft" | .astar => "astar" | .orix => "orix" | .unknown => "unknown"

def jHLine : HLine → String
  | .phase i => jObj [("t", jTag "phase"), ("id", jNat i)]
  | .materialName t => jObj [("t", jTag "name"), ("toks", jList jStr t)]
  | .formula t => jObj [("t", jTag "formula"), ("toks", jList jStr t)]
  | .symmetry s => jObj [("t", jTag "sym"), ("s", jStr s)]
  | .lattice v => jObj [("t", jTag "lat"), ("v", jList jInt v)]
  | .columnNames n => jObj [("t", jTag "cols"), ("names", jList jStr n)]
  | .mark v => jObj [("t", jTag "mark"), ("v", jTag (vendorName v))]
  | .grid k v => jObj [("t", jTag "grid"), ("k", jStr k), ("v", jInt v)]
  | .other => jObj [("t", jTag "other")]

def jAngFile (f : AngFile) : String :=
  jObj [("header", jList jHLine f.header), ("ncols", jNat f.ncols), ("rows", jList (jList jInt) f.rows),
        ("widths", jList jNat f.widths)]

/-! ### records -/
def pEuler : P Codec.Euler := do let a ← pInt; let b ← pInt; let c ← pInt; pure ⟨a, b, c⟩
def pAtomInfo : P AtomInfo := do
  let e ← pStr; let xyz ← pList pStr; let o ← pInt; pure ⟨e, xyz, o⟩
def pPhaseInfo : P PhaseInfo := do
  let id ← pInt; let name ← pStr; let pg ← pOpt pStr; let sg ← pOpt pNat; let lat ← pList pInt
  let atoms ← pList pAtomInfo
  pure { id := id, name := name, pg := pg, sg := sg, lattice := lat, atoms := atoms }
def pInProp : P InProp := do let n ← pStr; let t ← pBool; pure ⟨n, t⟩
def pInPt : P InPt := do
  let d ← pBool; let ph ← pInt; let rots ← pList pEuler; let vals ← pList (pList pInt)
  pure ⟨d, ph, rots, vals⟩
def pGridIn : P GridIn := do
  let oneD ← pBool; let nr ← pNat; let nc ← pNat; let dy ← pInt; let dx ← pInt
  let props ← pList pInProp; let pts ← pList pInPt; let phases ← pList pPhaseInfo
  pure ⟨oneD, nr, nc, dy, dx, props, pts, phases⟩
def pAngOpts : P AngOpts := do
  let i ← pOpt pInt; let a ← pOpt pStr; let b ← pOpt pStr; let c ← pOpt pStr; let d ← pOpt pStr
  let e ← pOpt (pList pStr)
  pure ⟨i, a, b, c, d, e⟩

def pPt : P Pt := do
  let x ← pInt; let y ← pInt; let ph ← pInt; let e ← pEuler; let v ← pList pInt
  pure ⟨x, y, ph, e, v⟩
def pPMap : P PMap := do
  let names ← pList pStr; let pts ← pList pPt; let phases ← pList pPhaseInfo; let unit ← pStr
  let deg ← pBool
  pure ⟨names, pts, phases, unit, deg⟩

/-- `codec ang <opts> <grid>`: the orix .ang writer, the reader on its output, and the specification -/
def runAng : P String := do
  let o ← pAngOpts
  let m ← pGridIn
  let w := Gen.Io.angWriter
  match writeAng w o m with
  | none => pure (jObj [("err", jTag "writer-raises")])
  | some f =>
    let rd := match readAng Gen.Io.angReader w.scale f with
      | none => "null"
      | some (warned, pm) => jObj [("warned", jBool warned), ("map", jPMap pm)]
    let spec := match resolveProps w o m with
      | none => "null"
      | some cols => jPMap (quantise Gen.Io.properSubgroup o m cols)
    pure (jObj [("file", jAngFile f), ("read", rd), ("spec", spec)])


/-! ### orix HDF5 -/
section H5
open Orix.Codec.H5

def pArr : P Arr := do let dt ← pNat; let sh ← pList pNat; let v ← pList pInt; pure ⟨dt, sh, v⟩
def pAtomRec : P AtomRec := do
  let e ← pStr; let l ← pStr; let odt ← pNat; let o ← pInt; let xyz ← pArr; let u ← pArr
  pure ⟨e, l, odt, o, xyz, u⟩
def pPhaseRec : P PhaseRec := do
  let id ← pInt; let name ← pStr; let sg ← pOpt pNat; let pg ← pOpt pStr; let color ← pStr
  let abc ← pArr; let br ← pArr; let atoms ← pList pAtomRec
  pure ⟨id, name, sg, pg, color, abc, br, atoms⟩
def pPropRec : P PropRec := do let n ← pStr; let a ← pArr; pure ⟨n, a⟩
def pMapRec : P MapRec := do
  let y ← pOpt pArr; let x ← pOpt pArr; let ind ← pArr; let pid ← pArr
  let p1 ← pArr; let pp ← pArr; let p2 ← pArr; let props ← pList pPropRec; let unit ← pStr
  let phases ← pList pPhaseRec
  pure ⟨y, x, ind, pid, p1, pp, p2, props, unit, phases⟩
def pDerived : P Derived := do
  let ny ← pInt; let nx ← pInt; let ysd ← pNat; let ys ← pInt; let xsd ← pNat; let xs ← pInt
  let rpp ← pInt; let ida ← pArr; let idt ← pNat
  pure ⟨ny, nx, (ysd, ys), (xsd, xs), rpp, ida, idt⟩

def jKey : Key → String
  | .s name => jObj [("s", jStr name)]
  | .n i => jObj [("n", jInt i)]
def jDS : DS → String
  | .num dt sh v => jObj [("dt", jNat dt), ("shape", jList jNat sh), ("vals", jList jInt v)]
  | .bytes cap b => jObj [("cap", jNat cap), ("bytes", jList jNat b)]
mutual
def jH5 : H5 → String
  | .ds d => jObj [("d", jDS d)]
  | .group items => jObj [("g", jArr (jH5Items items))]
def jH5Items : List (Key × H5) → List String
  | [] => []
  | (k, t) :: r => jArr [jKey k, jH5 t] :: jH5Items r
end
def jAtomRec (a : AtomRec) : String :=
  jObj [("el", jStr a.element), ("label", jStr a.label), ("occdt", jNat a.occDt), ("occ", jInt a.occ),
        ("xyz", jArrRec a.xyz), ("u", jArrRec a.u)]
def jPhaseRec (p : PhaseRec) : String :=
  jObj [("id", jInt p.id), ("name", jStr p.name), ("sg", jOpt jNat p.sg), ("pg", jOpt jStr p.pg),
        ("color", jStr p.color), ("abc", jArrRec p.abcABG), ("baserot", jArrRec p.baserot),
        ("atoms", jList jAtomRec p.atoms)]
def jMapRec (m : MapRec) : String :=
  jObj [("y", jOpt jArrRec m.y), ("x", jOpt jArrRec m.x), ("in", jArrRec m.inData), ("pid", jArrRec m.phaseId),
        ("phi1", jArrRec m.phi1), ("Phi", jArrRec m.phi), ("phi2", jArrRec m.phi2),
        ("props", jList (fun p => jObj [("name", jStr p.name), ("arr", jArrRec p.arr)]) m.props),
        ("unit", jStr m.scanUnit), ("phases", jList jPhaseRec m.phases)]

def h5Tables : PhaseTables :=
  { aliases := Gen.Io.pointGroupAliases, groups := Gen.Io.pointGroupNames, sgPointGroup := Gen.Io.sgPointGroup }

/-- `codec h5 <derived> <not-indexed phase> <map>`: tree written below /crystal_map and the map read back;
then the second cycle -/
def runH5 : P String := do
  let e ← pDerived
  let ni ← pPhaseRec
  let m ← pMapRec
  match H5.write e m with
  | none => pure (jObj [("err", jTag "writer-raises")])
  | some t =>
    let rd := H5.read h5Tables ni t
    let second := rd.bind fun m' => (H5.write e m').bind (H5.read h5Tables ni)
    pure (jObj [("tree", jH5 t), ("read", jOpt jMapRec rd), ("second", jOpt jMapRec second)])

end H5

/-! ### vendor formats (C15) -/
section Vendors

def pVendor : P Vendor := do
  let v ← pNat
  match v with
  | 0 => pure .tsl | 1 => pure .emsoft | 2 => pure .astar | 3 => pure .orix | _ => pure .unknown
def pHLine : P HLine := do
  let t ← pNat
  match t with
  | 0 => do let i ← pNat; pure (.phase i)
  | 1 => do let l ← pList pStr; pure (.materialName l)
  | 2 => do let l ← pList pStr; pure (.formula l)
  | 3 => do let s ← pStr; pure (.symmetry s)
  | 4 => do let v ← pList pInt; pure (.lattice v)
  | 5 => do let l ← pList pStr; pure (.columnNames l)
  | 6 => do let v ← pVendor; pure (.mark v)
  | 7 => do let k ← pStr; let v ← pInt; pure (.grid k v)
  | _ => pure .other
def pAngFile : P AngFile := do
  let h ← pList pHLine; let n ← pNat; let rows ← pList (pList pInt); pure ⟨h, n, rows, []⟩

def jRead (r : Option (Bool × PMap)) : String :=
  match r with
  | none => "null"
  | some (w, pm) => jObj [("warned", jBool w), ("map", jPMap pm)]

/-- `codec decang <scale> <file>`: the .ang reader on an arbitrary file record -/
def runDecAng : P String := do
  let scale ← pInt
  let f ← pAngFile
  pure (jObj [("read", jRead (readAng Gen.Io.angReader scale f))])

def pAngFmt : P AngFmt := do
  let v ← pNat
  match v with
  | 0 => pure .tsl | 1 => pure .tslWide | 2 => pure .emsoft | _ => pure .astar
def pAngExtras : P AngExtras := do
  let ph ← pList (do let m ← pList pStr; let s ← pStr; pure (⟨m, s⟩ : PhaseX))
  let ni ← pInt
  pure ⟨ph, ni⟩

/-- `codec encang <fmt> <scale> <extras> <map>`: the vendor file of a map and what the reader makes of it -/
def runEncAng : P String := do
  let fmt ← pAngFmt
  let scale ← pInt
  let x ← pAngExtras
  let m ← pPMap
  let f := encodeAng fmt x m
  pure (jObj [("file", jAngFile f), ("read", jRead (readAng Gen.Io.angReader scale f))])

open Orix.Codec.Ctf in
def jCtfFile (f : CtfFile) : String :=
  jObj [("marks", jList jStr f.marks), ("xcells", jOpt jInt f.xcells), ("ycells", jOpt jInt f.ycells),
        ("xstep", jOpt jInt f.xstep), ("ystep", jOpt jInt f.ystep), ("nphases", jNat f.nPhases),
        ("phases", jList (fun (l : PhaseLine) => jObj [("lat", jList jInt l.lattice), ("name", jStr l.name),
            ("laue", jInt l.laue), ("sg", jInt l.sg)]) f.phaseLines),
        ("ncols", jNat f.ncols), ("rows", jList (jList jInt) f.rows)]

open Orix.Codec.Ctf in
def runEncCtf : P String := do
  let v ← pNat
  let fmt : CtfFmt := match v with | 0 => .oxford | 1 => .emsoft | 2 => .astar | _ => .mtex
  let laue ← pList pInt; let sg ← pList pInt; let xc ← pInt; let yc ← pInt; let xs ← pInt; let ys ← pInt
  let fx ← pList pInt; let fy ← pList pInt
  let m ← pPMap
  let f := encodeCtf fmt ⟨laue, sg, xc, yc, xs, ys, fx, fy⟩ m
  pure (jObj [("file", jCtfFile f), ("read", jOpt jPMap (readCtf Gen.Io.ctfTables f))])

open Orix.Codec.Ctf in
/-- `codec decctf <file>`: the .ctf reader on an arbitrary file record -/
def runDecCtf : P String := do
  let marks ← pList pStr; let xc ← pOpt pInt; let yc ← pOpt pInt; let xs ← pOpt pInt; let ys ← pOpt pInt
  let np ← pNat
  let pl ← pList (do let lat ← pList pInt; let nm ← pStr; let la ← pInt; let sg ← pInt; pure (⟨lat, nm, la, sg⟩ : PhaseLine))
  let nc ← pNat; let rows ← pList (pList pInt)
  pure (jObj [("read", jOpt jPMap (readCtf Gen.Io.ctfTables ⟨marks, xc, yc, xs, ys, np, pl, nc, rows⟩))])

open Orix.Codec.Bruker in
def jBrukerFile (f : BrukerFile) : String :=
  jObj [("grid", jStr f.gridType), ("nrows", jInt f.nrows), ("ncols", jInt f.ncols),
        ("iy", jOpt (jList jInt) f.iy), ("ix", jOpt (jList jInt) f.ix),
        ("phases", jList (fun (p : BPhase) => jObj [("id", jInt p.id), ("name", jStr p.name), ("it", jInt p.it),
            ("lat", jList jInt p.lattice), ("atoms", jList (jList jStr) p.atoms)]) f.phases),
        ("phase", jList jInt f.phase),
        ("euler", jList (fun (e : Str × List Int) => jArr [jStr e.1, jList jInt e.2]) f.euler),
        ("data", jList (fun (e : Str × List Int) => jArr [jStr e.1, jList jInt e.2]) f.data)]

open Orix.Codec.Bruker in
def runEncBruker : P String := do
  let roi ← pBool; let perm ← pList pNat; let nr ← pNat; let nc ← pNat; let iy0 ← pInt; let ix0 ← pInt
  let x0 ← pInt; let y0 ← pInt
  let atoms ← pList (pList (pList pStr)); let it ← pList pInt
  let m ← pPMap
  let f := encode ⟨roi, perm, nr, nc, iy0, ix0, x0, y0, atoms, it⟩ m
  pure (jObj [("file", jBrukerFile f), ("read", jOpt jPMap (decode Gen.Io.brukerTables f))])

open Orix.Codec.Emsoft in
def jKMap (m : KMap) : String :=
  jObj [("props", jList jStr m.propNames),
        ("pts", jList (fun (p : KPt) => jObj [("x", jInt p.x), ("y", jInt p.y), ("ph", jInt p.phaseId),
            ("eus", jList jEuler p.eus), ("v", jList (jList jInt) p.vals)]) m.pts),
        ("phases", jList jPhaseInfo m.phases), ("unit", jStr m.unit), ("deg", jBool m.degrees)]

open Orix.Codec.Emsoft in
def jEmsoftFile (f : EmsoftFile) : String :=
  jObj [("nrows", jInt f.nRows), ("ncols", jInt f.nColumns), ("stepy", jInt f.stepY),
        ("material", jStr f.materialName), ("pg", jStr f.pointGroup), ("lat", jList jInt f.lattice),
        ("x", jList jInt f.xPosition), ("phase", jList jInt f.phase), ("nnk", jInt f.nnk), ("fzcnt", jInt f.fzcnt),
        ("dict", jList jEuler f.dictEuler), ("idx", jList (jList jInt) f.topMatchIdx),
        ("refined", jOpt (jList jEuler) f.refinedEuler),
        ("props", jList (fun (p : EProp) => jObj [("name", jStr p.name), ("shape", jList jNat p.shape),
            ("vals", jList jInt p.vals)]) f.props)]

open Orix.Codec.Emsoft in
def runEncEmsoft : P String := do
  let nr ← pNat; let nc ← pNat; let sy ← pInt; let mat ← pStr; let pg ← pStr; let refined ← pBool
  let nnk ← pNat; let dict ← pList pEuler; let idx ← pList (pList pInt); let shapes ← pList (pList pNat)
  let names ← pList pStr
  let pts ← pList (do
    let x ← pInt; let y ← pInt; let ph ← pInt; let eus ← pList pEuler; let v ← pList (pList pInt)
    pure (⟨x, y, ph, eus, v⟩ : KPt))
  let phases ← pList pPhaseInfo; let unit ← pStr; let deg ← pBool
  let m : KMap := ⟨names, pts, phases, unit, deg⟩
  let f := encode ⟨nr, nc, sy, mat, pg, refined, nnk, dict, idx, shapes⟩ m
  pure (jObj [("file", jEmsoftFile f), ("read", jOpt jKMap (decode Gen.Io.emsoftTables refined f))])

end Vendors

def subops : List (String × P String) :=
  [("ang", runAng), ("h5", runH5), ("decang", runDecAng), ("encang", runEncAng), ("encctf", runEncCtf),
   ("decctf", runDecCtf), ("encbruker", runEncBruker), ("encemsoft", runEncEmsoft)]

def handle : List String → String
  | sub :: args =>
    match subops.find? (·.1 == sub), args.mapM String.toInt? with
    | some (_, p), some toks =>
      match p.run toks with
      | some (out, []) => out
      | some (_, _ :: _) => "!err trailing-tokens"
      | none => "!err parse"
    | none, _ => "!err unknown-codec-op"
    | _, none => "!err parse"
  | _ => "!err bad-op"

end Orix.Driver.Codec
