import OrixModel.Sector
import OrixGen.Sectors
import Driver.Proto
/-
op `sec …` (C07, C08, C20): the regenerated sector table and the model projection, run in Float on lattice
coordinates.
  sec list                         names of the certified (good) and refuted (bad) sector records
  sec walls <good-index>           walls, half-space, centre of a certified record (integers)
  sec proj <good-index> <x y z>    model projection (two-stage pre-flip, argmax over the cell group, inverse):
                                   `<x' y' z'> <n-strictly-inside> <n-closed-inside>` (hex floats, counts)
-/
namespace Orix.Driver.Sec
open Orix.Grp Orix.Gen Orix.Proto

abbrev F3 := Float × Float × Float
def dotF (h : Z3) (v : F3) : Float := Float.ofInt h.x * v.1 + Float.ofInt h.y * v.2.1 + Float.ofInt h.z * v.2.2
def actF (m : M3) (v : F3) : F3 :=
  (Float.ofInt m.a * v.1 + Float.ofInt m.b * v.2.1 + Float.ofInt m.c * v.2.2,
   Float.ofInt m.d * v.1 + Float.ofInt m.e * v.2.1 + Float.ofInt m.f * v.2.2,
   Float.ofInt m.g * v.1 + Float.ofInt m.h * v.2.1 + Float.ofInt m.i * v.2.2)
def toF (c : Z3) : F3 := (Float.ofInt c.x, Float.ofInt c.y, Float.ofInt c.z)
def pairF (G : M3) (u v : F3) : Float :=
  let w := actF G v
  u.1 * w.1 + u.2.1 * w.2.1 + u.2.2 * w.2.2

def argmaxBy (f : M3 → Float) : List M3 → Option M3
  | [] => none
  | m :: ms => some (ms.foldl (fun best y => if f best < f y then y else best) m)

def project (r : SectorRec) (x : F3) : Option F3 := do
  let x1 ← match r.half with
    | none => some x
    | some p =>
      if dotF p x < 0 then
        (r.ops.find? fun m => decide (M3.cov p m = p.neg)).map fun s => actF s x
      else some x
  let H := r.sub
  let c := toF r.cert.centre
  let k ← argmaxBy (fun m => pairF r.metric x1 (actF m c)) H
  let g ← H.find? fun g => decide (k.mul g = M3.one)
  pure (actF g x1)

def norm (v : F3) : Float := Float.sqrt (v.1 * v.1 + v.2.1 * v.2.1 + v.2.2 * v.2.2)

def countInside (r : SectorRec) (x : F3) (eps : Float) : Nat × Nat :=
  let n := norm x
  r.ops.foldl (fun (acc : Nat × Nat) m =>
    let y := actF m x
    let strict := r.walls.all fun h => dotF h y > eps * n
    let closed := r.walls.all fun h => dotF h y ≥ -eps * n
    (acc.1 + (if strict then 1 else 0), acc.2 + (if closed then 1 else 0))) (0, 0)

def showZ (v : Z3) : String := s!"{v.x} {v.y} {v.z}"

def handle : List String → String
  | ["list"] => s!"{SEC.good.length} {SEC.bad.length}"
  | ["walls", k] =>
    match k.toNat? >>= fun i => SEC.good[i]? with
    | none => "!err index"
    | some r =>
      let half := match r.half with | none => "none" | some p => showZ p
      s!"{r.walls.length} " ++ " ".intercalate (r.walls.map showZ) ++ " | " ++ half ++ " | " ++ showZ r.cert.centre
        ++ s!" | {r.ops.length}"
  | ["proj", k, a, b, c] =>
    match k.toNat? >>= fun i => SEC.good[i]?, parseFloat a, parseFloat b, parseFloat c with
    | some r, some x, some y, some z =>
      match project r (x, y, z) with
      | none => "!err noproj"
      | some v =>
        let cnt := countInside r (x, y, z) 1e-9
        s!"{showFloat v.1} {showFloat v.2.1} {showFloat v.2.2} {cnt.1} {cnt.2}"
    | _, _, _, _ => "!err args"
  | _ => "!err bad-op"

end Orix.Driver.Sec
