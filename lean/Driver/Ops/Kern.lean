import OrixModel
import OrixGen.Kernels
import Driver.Proto
import Driver.Ops.KernConv
/-
op `kern <g|m> <name> <i|f> <args…>`: run a generated (g) or hand-written model (m) scalar kernel on
Int / Float.  Unknown or ill-formed requests answer `!err …` (never a default value).
-/
namespace Orix.Driver.Kern
open Orix Proto

def flag {α : Type} [Scalar α] (x : α) : Bool := Scalar.beq x (Scalar.lit 1)
def unflag {α : Type} [Scalar α] (b : Bool) : α := if b then Scalar.lit 1 else Scalar.lit 0

/-- hand-written model kernels by name -/
def modelRegistry {α : Type} [Scalar α] : List (String × (List α → Option (List α))) := [
  ("hslToHsv", fun xs => match xs with | [h, s, l] => some (Color.hslToHsv h s l) | _ => none),
  ("rgbOfHuePolar", fun xs => match xs with | [h, p] => some (Color.rgbOfHuePolar h p) | _ => none),
  ("qmul", fun xs => match xs with
    | [a, b, c, d, e, f, g, h] => some (Quat.mul ⟨a, b, c, d⟩ ⟨e, f, g, h⟩).toList | _ => none),
  ("qconj", fun xs => match xs with | [a, b, c, d] => some (Quat.conj ⟨a, b, c, d⟩).toList | _ => none),
  ("qinv", fun xs => match xs with | [a, b, c, d] => some (Quat.inv ⟨a, b, c, d⟩).toList | _ => none),
  ("qrot", fun xs => match xs with
    | [a, b, c, d, x, y, z] => some (Quat.rotate ⟨a, b, c, d⟩ ⟨x, y, z⟩).toList | _ => none),
  ("qsandwich", fun xs => match xs with
    | [a, b, c, d, x, y, z] => some (Quat.rotateSandwich ⟨a, b, c, d⟩ ⟨x, y, z⟩).toList | _ => none),
  ("qu2om", fun xs => match xs with | [a, b, c, d] => some (Quat.toMat ⟨a, b, c, d⟩).toList | _ => none),
  ("matvec", fun xs => match xs with
    | [a, b, c, d, x, y, z] => some (Mat3.mulVec (Quat.toMat ⟨a, b, c, d⟩) ⟨x, y, z⟩).toList | _ => none),
  -- rotations: the improper flag travels as a scalar (1 = improper, 0 = proper)
  ("rmul", fun xs => match xs with
    | [a, b, c, d, i, e, f, g, h, j] =>
      let r := Rot.mul ⟨⟨a, b, c, d⟩, flag i⟩ ⟨⟨e, f, g, h⟩, flag j⟩
      some (r.q.toList ++ [unflag r.improper]) | _ => none),
  ("rinv", fun xs => match xs with
    | [a, b, c, d, i] => let r := Rot.inv ⟨⟨a, b, c, d⟩, flag i⟩; some (r.q.toList ++ [unflag r.improper])
    | _ => none),
  ("rneg", fun xs => match xs with
    | [a, b, c, d, i] => let r := Rot.neg ⟨⟨a, b, c, d⟩, flag i⟩; some (r.q.toList ++ [unflag r.improper])
    | _ => none),
  ("ract", fun xs => match xs with
    | [a, b, c, d, i, x, y, z] => some (Rot.act ⟨⟨a, b, c, d⟩, flag i⟩ ⟨x, y, z⟩).toList | _ => none)
] ++ KernConv.registry

def lookup {β} (k : String) : List (String × β) → Option β
  | [] => none
  | (n, v) :: r => if n == k then some v else lookup k r

def runKern (which name ty : String) (args : List String) : String :=
  let go {α : Type} [Scalar α] (parse : String → Option α) (shw : α → String) : String :=
    let reg : List (String × (List α → Option (List α))) :=
      if which == "g" then Gen.registry else modelRegistry
    match lookup name reg with
    | none => "!err unknown-kernel"
    | some f =>
      match parseAll parse args with
      | none => "!err parse"
      | some xs =>
        match f xs with
        | none => "!err arity"
        | some ys => showList shw ys
  if ty == "i" then go (α := Int) parseInt toString
  else if ty == "f" then go (α := Float) parseFloat showFloat
  else "!err scalar-kind"


def handle : List String → String
  | which :: name :: ty :: args => runKern which name ty args
  | _ => "!err bad-op"

end Orix.Driver.Kern
