import OrixModel.Group
import OrixGen.PointGroups
import OrixGen.SpaceGroups
import OrixGen.C03Known
/-
op `grp …` (C03 and the symmetry tables used by C04–C08, C10)
  grp ref <cub|hex> <name>     reference group of a Hermann–Mauguin name: `n m…` (9 ints per matrix) | `!err noref`
  grp ops <cub|hex> <k>        operations of generated point-group object k in that basis | `none`
  grp names                    names of the generated point-group objects
  grp check                    verdict of the verified checkers per object and the list of bad space groups
-/
namespace Orix.Driver.Grp
open Orix.Grp Orix.Gen

def showMats (L : List M3) : String :=
  toString L.length ++ " " ++ " ".intercalate (L.map fun m => " ".intercalate (m.toList.map toString))

def basisOf : String → Option Basis
  | "cub" => some .cub
  | "hex" => some .hex
  | _ => none

def handle : List String → String
  | ["ref", b, name] =>
    match basisOf b with
    | none => "!err basis"
    | some bb => match reference bb name with
      | none => "!err noref"
      | some L => showMats L
  | ["ops", b, k] =>
    match basisOf b, k.toNat? with
    | some bb, some kk => match PG.all[kk]? with
      | none => "!err index"
      | some r => match r.ops bb with
        | none => "none"
        | some L => showMats L
    | _, _ => "!err args"
  | ["names"] => " ".intercalate (PG.all.map (·.name))
  | ["check"] =>
    let per := PG.all.map fun r =>
      r.name ++ ":" ++ toString (checkGroup r) ++ ":" ++ toString (checkSubgroups PG.all r) ++ ":" ++
        toString (checkGroupName r)
    " ".intercalate per ++ " | " ++ " ".intercalate ((sgBad PG.all SG.sgs).map toString)
  | _ => "!err bad-op"

end Orix.Driver.Grp
