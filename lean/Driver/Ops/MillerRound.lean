import OrixModel.MillerRound
import OrixGen.PointGroups
import Driver.Proto
/-
op `mround …` (C10): `_round_indices` / `Miller.round` and `angle_with(use_symmetry=True)` of the model run in Float.
Floats cross as 16 hex digits, integers decimal.
  mround idx <maxIndex> <x:3>                     `_round_indices` of a triplet          → `<m> | i0 i1 i2`
  mround idx <maxIndex> <x:4>                     `_round_indices` of a quartet          → `<m> | i0 i1 i2 i3`
  mround miller4 <maxIndex> <x:4>                 `Miller.round` in `hkil`/`UVTW` format → `i0 i1 i2 i3`
  mround angle <k> <cub|hex> <G:9> <self:3> <other:3>
        `angle_with(use_symmetry=True)`: operations of live group `k` on direct-lattice coordinates, metric tensor `G`
                                                                                          → angle
Errors: `!err nomult`, `!err zero`, `!err convention`, `!err parse`, `!err args`.
-/
namespace Orix.Driver.MRound
open Orix Orix.Grp Orix.Orb Orix.Gen Orix.Proto Orix.MillerRound

def opsOf (k b : String) : Option (List M3) := do
  let i ← k.toNat?
  let r ← PG.all[i]?
  match b with
  | "cub" => r.cub
  | "hex" => r.hex
  | _ => none

def ints (xs : List Int) : String := showList toString xs

def handle : List String → String
  | "idx" :: mi :: xs =>
    match mi.toNat?, parseAll parseFloat xs with
    | some n, some [a, b, c] =>
      let v : Vec3 Float := ⟨a, b, c⟩
      match bestMultiplier n v, roundIndices n v with
      | .ok m, .ok r => s!"{m} | " ++ ints [r.x, r.y, r.z]
      | .error e, _ => "!err " ++ e.tag
      | _, .error e => "!err " ++ e.tag
    | some n, some [a, b, c, d] =>
      let q : Vec4 Float := ⟨a, b, c, d⟩
      match bestMultiplier n (⟨a, b, d⟩ : Vec3 Float), roundIndices4 n q with
      | .ok m, .ok r => s!"{m} | " ++ ints r.toList
      | .error e, _ => "!err " ++ e.tag
      | _, .error e => "!err " ++ e.tag
    | _, _ => "!err parse"
  | "miller4" :: mi :: xs =>
    match mi.toNat?, parseAll parseFloat xs with
    | some n, some [a, b, c, d] =>
      match millerRound4 n (⟨a, b, c, d⟩ : Vec4 Float) with
      | .ok r => ints r.toList
      | .error e => "!err " ++ e.tag
    | _, _ => "!err parse"
  | "angle" :: k :: b :: xs =>
    match opsOf k b, parseAll parseFloat xs with
    | some L, some [g0, g1, g2, g3, g4, g5, g6, g7, g8, s0, s1, s2, o0, o1, o2] =>
      let G : Mat3 Float := ⟨g0, g1, g2, g3, g4, g5, g6, g7, g8⟩
      match angleWithSym actS (dotG G) L (⟨s0, s1, s2⟩ : Vec3 Float) ⟨o0, o1, o2⟩ with
      | some a => showFloat a
      | none => "!err args"
    | none, _ => "!err args"
    | _, _ => "!err parse"
  | _ => "!err bad-op"

end Orix.Driver.MRound
