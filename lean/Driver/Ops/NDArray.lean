import OrixModel.NDArray
import OrixModel.Unique
import Driver.Proto
/-
op `nd <cls> <shape> <flags> <meta> <prog>`: run a program of structural / element-wise operations (C16) on an
object whose elements are symbolic tags `0 … n-1` (C order).  The whole history travels in one line.

  cls    Q | R | M | O | V | L          (Quaternion Rotation Misorientation Orientation Vector3d Miller)
  shape  d1,d2,…                         flags  string of 0/1 (one per element) or `-`
  meta   symL,symR,phase,fmt             (tokens, 0 = default)
  prog   ops joined by `;` (or `-` for the empty program):
         G<item>,<item>…   getitem with a tuple key; item = i<int> | s<a>_<b>_<c>  (n = None)
         K<d1xd2…>_<bits>  getitem with a boolean mask of that shape
         R<d1,d2,…>        reshape          F  flatten        T | T<a1,a2,…>  transpose     S  squeeze
         C<pos>_<f1.f2.…>  stack: the current object at position pos among fresh operands (one 0/1 string of
                           flags per operand, `-` for none); fresh operands get the next free tags
         U unit   I inverse   N negation
answer: `<shape> <elems> <flags> <meta>` with elems = `tag.<history>` joined by `,` (or `-`); history = letters u/i/n
(unit, inverse, negation) in the order applied,
or `!err <index|value|dimension|internal|parse>`.
-/
namespace Orix.Driver.ND
open Orix Proto NDArray

/-- the driver runs programs on the index object of `OrixProofs.Properties.C16.run_index_array`: elements are
`SymE` (source tag + history of element-wise operations), element-wise operations only record themselves -/
abbrev Sym := SymE

def fresh (t : Nat) : Sym := ⟨t, []⟩

def parseCls : String → Option Cls
  | "Q" => some .quaternion | "R" => some .rotation | "M" => some .misorientation
  | "O" => some .orientation | "V" => some .vector3d | "L" => some .miller | _ => none

def splitOn (s : String) (sep : String) : List String := (s.splitOn sep).filter (· ≠ "")

def parseNats (s : String) (sep : String := ",") : Option (List Nat) := (splitOn s sep).mapM String.toNat?
def parseInts (s : String) (sep : String := ",") : Option (List Int) := (splitOn s sep).mapM String.toInt?

def parseBits (s : String) : Option (List Bool) :=
  if s == "-" then some [] else s.toList.mapM (fun c => if c == '0' then some false else if c == '1' then some true else none)

def parseOptInt (s : String) : Option (Option Int) := if s == "n" then some none else s.toInt?.map some

def parseItem (s : String) : Option KeyItem :=
  match s.toList with
  | 'i' :: r => (String.ofList r).toInt?.map KeyItem.int
  | 's' :: r =>
    match (String.ofList r).splitOn "_" with
    | [a, b, c] => do
      let a ← parseOptInt a; let b ← parseOptInt b; let c ← parseOptInt c
      pure (KeyItem.slice a b c)
    | _ => none
  | _ => none

def bit (b : Bool) : String := if b then "1" else "0"
def showE : EOp → String
  | .unit => "u" | .inv => "i" | .neg => "n"
/-- `tag.<history, oldest operation first>` -/
def showSym (s : Sym) : String := s!"{s.src}." ++ String.join (s.hist.reverse.map showE)
def showErr : NDErr → String
  | .index => "!err index" | .value => "!err value" | .dimension => "!err dimension" | .internal => "!err internal"

def showObj (O : Obj Sym) : String :=
  let sh := ",".intercalate (O.arr.shape.map toString)
  let el := if O.arr.data.isEmpty then "-" else ",".intercalate (O.arr.data.map (fun e => showSym e.1))
  let fl := if O.arr.data.isEmpty then "-" else String.join (O.arr.data.map (fun e => bit e.2))
  s!"{sh} {el} {fl} {O.md.symL},{O.md.symR},{O.md.phase},{O.md.fmt}"

/-- one op token → model op; `next` is the next free tag -/
def parseOp (tok : String) (O : Obj Sym) (next : Nat) : Option (Op Sym × Nat) :=
  match tok.toList with
  | 'G' :: r => do
    let items ← (splitOn (String.ofList r) ",").mapM parseItem
    pure (Op.getitem (Key.tuple items), next)
  | 'K' :: r =>
    match (String.ofList r).splitOn "_" with
    | [msh, bits] => do
      let msh ← parseNats msh "x"
      let bits ← parseBits bits
      pure (Op.getitem (Key.mask msh bits), next)
    | _ => none
  | 'R' :: r => do
    let d ← parseInts (String.ofList r)
    pure (Op.reshape d, next)
  | ['F'] => some (Op.flatten, next)
  | ['S'] => some (Op.squeeze, next)
  | ['U'] => some (Op.unit, next)
  | ['I'] => some (Op.inv, next)
  | ['N'] => some (Op.neg, next)
  | ['T'] => some (Op.transpose none, next)
  | 'T' :: r => do
    let ax ← parseInts (String.ofList r)
    pure (Op.transpose (some ax), next)
  | 'C' :: r =>
    match (String.ofList r).splitOn "_" with
    | [pos, fls] => do
      let pos ← pos.toNat?
      let n := NDArray.prod O.arr.shape
      let groups := if fls == "-" then [] else fls.splitOn "."
      let rec build (gs : List String) (next : Nat) (acc : List (NDArray (Sym × Bool))) :
          Option (List (NDArray (Sym × Bool)) × Nat) :=
        match gs with
        | [] => some (acc.reverse, next)
        | g :: gs => do
          let fl ← if g == "e" then some (List.replicate n false) else parseBits g
          if fl.length ≠ n then none
          else
            let d := (List.range n).zip fl |>.map (fun (j, f) => (fresh (next + j), f))
            build gs (next + n) (⟨O.arr.shape, d⟩ :: acc)
      let (others, next') ← build groups next []
      pure (Op.stack pos others, next')
    | _ => none
  | _ => none

def runProg (toks : List String) (O : Obj Sym) (next : Nat) : String :=
  match toks with
  | [] => showObj O
  | t :: ts =>
    match parseOp t O next with
    | none => "!err parse"
    | some (op, next') =>
      match O.step symOps op with
      | .error e => showErr e
      | .ok O' => runProg ts O' next'

def handle : List String → String
  | [cls, shape, flags, md, prog] =>
    match parseCls cls, parseNats shape, parseBits flags, parseNats md with
    | some c, some sh, some fl, some [a, b, p, f] =>
      let n := NDArray.prod sh
      let fl := if fl.isEmpty then List.replicate n false else fl
      if fl.length ≠ n then "!err parse"
      else
        let d := (List.range n).zip fl |>.map (fun (j, f) => (fresh j, f))
        let O : Obj Sym := ⟨c, ⟨sh, d⟩, ⟨a, b, p, f⟩⟩
        runProg (if prog == "-" then [] else splitOn prog ";") O n
    | _, _, _, _ => "!err parse"
  | _ => "!err bad-op"

end Orix.Driver.ND

/-
op `uniq <variant> <mode> <ncomp> <v…>`: `unique()` of the model (`OrixModel/Unique.lean`) on a list of rows.
  variant  base  `Object3d.unique` (Quaternion, Vector3d, Miller): rows of ncomp components, zero rows dropped
           rotA  `Rotation.unique(antipodal=True)`:  rows a b c d flag, keys = differentiators (12 decimals) + flag
           rotN  `Rotation.unique(antipodal=False)`: rows a b c d flag, keys = components (10 decimals) + flag
           spec  the specification (`uniqueSpec`) on the `base` keys
  mode     f  components are floats (16 hex digits), keys are `rint(x·10^d)` as the code rounds
           i  components are integers m meaning m/2^k: rounding is the identity, keys are computed exactly in Int
answer: `<rows of returned keys, `|`-separated, components `,`-separated> <idx> <inv>`  (`-` = empty)
-/
namespace Orix.Driver.Uniq
open Orix Proto Orix.Unique

def chunks (n : Nat) (xs : List α) : List (List α) :=
  if n = 0 then [] else
  let rec go (fuel : Nat) (xs : List α) (acc : List (List α)) : List (List α) :=
    match fuel, xs with
    | 0, _ => acc.reverse
    | _, [] => acc.reverse
    | fuel + 1, xs => go fuel (xs.drop n) (xs.take n :: acc)
  go xs.length xs []

def showNats (l : List Nat) : String := if l.isEmpty then "-" else ",".intercalate (l.map toString)
def showRows (l : List (List Int)) : String :=
  if l.isEmpty then "-" else "|".intercalate (l.map (fun r => ",".intercalate (r.map toString)))
def showResult (r : Result (List Int)) : String := s!"{showRows r.out} {showNats r.idx} {showNats r.inv}"

def quatOf {α : Type} (r : List α) : Option (Quat α × α) :=
  match r with
  | [a, b, c, d, f] => some (⟨a, b, c, d⟩, f)
  | _ => none

def handle : List String → String
  | variant :: mode :: ncomp :: vals =>
    match ncomp.toNat? with
    | none => "!err parse"
    | some nc =>
      let keysOpt : Option (List (List Int)) :=
        if mode == "f" then do
          let xs ← parseAll parseFloat vals
          let rows := chunks nc xs
          if variant == "rotA" then
            rows.mapM (fun r => do
              let (q, f) ← quatOf r
              pure ((differentiators q ++ [f]).map (roundKey 12)))
          else pure (rows.map (fun r => r.map (roundKey 10)))
        else if mode == "i" then do
          let xs ← parseAll parseInt vals
          let rows := chunks nc xs
          if variant == "rotA" then
            rows.mapM (fun r => do
              let (q, f) ← quatOf r
              pure (differentiators q ++ [f]))
          else pure rows
        else none
      match keysOpt with
      | none => "!err parse"
      | some keys =>
        let drop : List Int → Bool := if mode == "f" then zeroRow else fun r => r.all (· == 0)
        if variant == "base" then showResult (baseUnique lexLt drop keys)
        else if variant == "spec" then showResult (uniqueSpec drop keys)
        else if variant == "rotA" || variant == "rotN" then
          showResult (rotUnique lexLt keys)
        else "!err parse"
  | _ => "!err bad-op"

end Orix.Driver.Uniq
