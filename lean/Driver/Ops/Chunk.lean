import OrixModel.Chunk
import OrixModel.Quat
import Driver.Proto
/-
op `chunk …` (C18): outer products evaluated block by block in the model, on integer quaternions/vectors.
  chunk qq <n> <m> <nA> <nB> <ints…>    chunked outer Hamilton product, chunk sizes n+1 / m+1, row-major
  chunk qv <n> <m> <nA> <nB> <ints…>    chunked outer matrix·vector (the dask q·v table), row-major
-/
namespace Orix.Driver.ChunkOp
open Orix Orix.Chunk Orix.Proto

def quats : List Int → List (Quat Int)
  | a :: b :: c :: d :: r => ⟨a, b, c, d⟩ :: quats r
  | _ => []
def vecs : List Int → List (Vec3 Int)
  | a :: b :: c :: r => ⟨a, b, c⟩ :: vecs r
  | _ => []

def handle : List String → String
  | kind :: n :: m :: na :: nb :: xs =>
    match n.toNat?, m.toNat?, na.toNat?, nb.toNat?, parseAll parseInt xs with
    | some n, some m, some na, some nb, some is =>
      if kind == "qq" then
        if is.length != 4 * (na + nb) then "!err arity" else
        let A := quats (is.take (4 * na))
        let B := quats (is.drop (4 * na))
        showList toString ((outerChunked n m Quat.mul A B).flatMap Quat.toList)
      else if kind == "qv" then
        if is.length != 4 * na + 3 * nb then "!err arity" else
        let A := quats (is.take (4 * na))
        let B := vecs (is.drop (4 * na))
        showList toString ((outerChunked n m (fun q v => Mat3.mulVec (Quat.toMat q) v) A B).flatMap Vec3.toList)
      else "!err kind"
    | _, _, _, _, _ => "!err parse"
  | _ => "!err bad-op"

end Orix.Driver.ChunkOp
