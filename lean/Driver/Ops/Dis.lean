import OrixModel.Disori
import Driver.Proto
/-
op `dis …` (C04, C05, C06): brute-force symmetry-reduced dot products of the model, in Float.
A rotation travels as 5 floats `a b c d flag` (flag 1 = improper).
  dis brute <n1> <n2> <G1 …> <G2 …> <O1> <O2>       max over pairs of |(g2 O2)·(g1 O1)| (equal properness)
  dis code <n> <S …> <O1> <O2>                      the code's formula over the list S of symmetry products
  dis brutemis <nl> <nr> <Gl …> <Gr …> <M> <N>      max over (gl M gr)·(gl' N gr')
-/
namespace Orix.Driver.Dis
open Orix Orix.Proto Orix.Disori

def rots : List Float → Option (List (Rot Float))
  | [] => some []
  | a :: b :: c :: d :: f :: rest => (rots rest).map fun r => (⟨⟨a, b, c, d⟩, f == 1.0⟩ : Rot Float) :: r
  | _ => none

def handle : List String → String
  | "brute" :: n1 :: n2 :: xs =>
    match n1.toNat?, n2.toNat?, parseAll parseFloat xs >>= rots with
    | some k1, some k2, some rs =>
      if rs.length != k1 + k2 + 2 then "!err arity" else
      let G1 := rs.take k1
      let G2 := (rs.drop k1).take k2
      match rs.drop (k1 + k2) with
      | [o1, o2] => showFloat (bruteDot G1 G2 o1 o2)
      | _ => "!err arity"
    | _, _, _ => "!err parse"
  | "code" :: n :: xs =>
    match n.toNat?, parseAll parseFloat xs >>= rots with
    | some k, some rs =>
      if rs.length != k + 2 then "!err arity" else
      match rs.drop k with
      | [o1, o2] => showFloat (codeDot (rs.take k) o1 o2)
      | _ => "!err arity"
    | _, _ => "!err parse"
  | "brutemis" :: n1 :: n2 :: xs =>
    match n1.toNat?, n2.toNat?, parseAll parseFloat xs >>= rots with
    | some k1, some k2, some rs =>
      if rs.length != k1 + k2 + 2 then "!err arity" else
      match rs.drop (k1 + k2) with
      | [m, n] => showFloat (bruteDotMis (rs.take k1) ((rs.drop k1).take k2) m n)
      | _ => "!err arity"
    | _, _, _ => "!err parse"
  | _ => "!err bad-op"

end Orix.Driver.Dis
