import OrixModel.Disori
import Driver.Proto
/-
op `dis …` (C04, C05, C06): brute-force symmetry-reduced dot products of the model, in Float.
A rotation travels as 5 floats `a b c d flag` (flag 1 = improper).
  dis brute <n1> <n2> <G1 …> <G2 …> <O1> <O2>       max over pairs of |(g2 O2)·(g1 O1)| (equal properness)
  dis code <n> <S …> <O1> <O2>                      the code's formula over the list S of symmetry products
  dis brutemis <nl> <nr> <Gl …> <Gr …> <M> <N>      max over (gl M gr)·(gl' N gr')
-/
namespace Orix.Driver.Dis
open Orix Orix.Proto Orix.Disori

def rots : List Float → Option (List (Rot Float))
  | [] => some []
  | a :: b :: c :: d :: f :: rest => (rots rest).map fun r => (⟨⟨a, b, c, d⟩, f == 1.0⟩ : Rot Float) :: r
  | _ => none

def quats : List Float → List (Quat Float)
  | a :: b :: c :: d :: rest => ⟨a, b, c, d⟩ :: quats rest
  | _ => []

def handle : List String → String
  | "brute" :: n1 :: n2 :: xs =>
    match n1.toNat?, n2.toNat?, parseAll parseFloat xs >>= rots with
    | some k1, some k2, some rs =>
      if rs.length != k1 + k2 + 2 then "!err arity" else
      let G1 := rs.take k1
      let G2 := (rs.drop k1).take k2
      match rs.drop (k1 + k2) with
      | [o1, o2] => showFloat (bruteDot G1 G2 o1 o2)
      | _ => "!err arity"
    | _, _, _ => "!err parse"
  | "code" :: n :: xs =>
    match n.toNat?, parseAll parseFloat xs >>= rots with
    | some k, some rs =>
      if rs.length != k + 2 then "!err arity" else
      match rs.drop k with
      | [o1, o2] => showFloat (codeDot (rs.take k) o1 o2)
      | _ => "!err arity"
    | _, _ => "!err parse"
  | "brutemis" :: n1 :: n2 :: xs =>
    match n1.toNat?, n2.toNat?, parseAll parseFloat xs >>= rots with
    | some k1, some k2, some rs =>
      if rs.length != k1 + k2 + 2 then "!err arity" else
      match rs.drop (k1 + k2) with
      | [m, n] => showFloat (bruteDotMis (rs.take k1) ((rs.drop k1).take k2) m n)
      | _ => "!err arity"
    | _, _, _ => "!err parse"
  | "reduce" :: n1 :: n2 :: n3 :: xs =>
    -- dis reduce <nl> <nr> <nn> <Gl …> <Gr …> <M> <normals: 4 floats each>
    match n1.toNat?, n2.toNat?, n3.toNat?, parseAll parseFloat xs with
    | some k1, some k2, some k3, some fs =>
      if fs.length != 5 * (k1 + k2 + 1) + 4 * k3 then "!err arity" else
      match rots (fs.take (5 * (k1 + k2 + 1))) with
      | none => "!err parse"
      | some rs =>
        let ns := quats (fs.drop (5 * (k1 + k2 + 1)))
        match rs.drop (k1 + k2) with
        | [m] =>
          match reduceZone (Scalar.dec 1 9) (rs.take k1) ((rs.drop k1).take k2) ns m with
          | none => "!err empty"
          | some r => showList showFloat r.q.toList ++ (if r.improper then " 1" else " 0") ++
              (if insideRegion (Scalar.dec 1 9) ns r.q then " in" else " out")
        | _ => "!err arity"
    | _, _, _, _ => "!err parse"
  | "reduce3" :: lp :: li :: rp :: ri :: a1 :: a2 :: a3 :: b1 :: b2 :: b3 :: nn :: xs =>
    -- groups chosen by the model of get_proper_groups from (self, proper subgroup, Laue proper subgroup) of each side
    match [a1, a2, a3, b1, b2, b3, nn].mapM String.toNat?, parseAll parseFloat xs with
    | some [k1, k2, k3, m1, m2, m3, kn], some fs =>
      let tot := k1 + k2 + k3 + m1 + m2 + m3
      if fs.length != 5 * (tot + 1) + 4 * kn then "!err arity" else
      match rots (fs.take (5 * (tot + 1))) with
      | none => "!err parse"
      | some rs =>
        let Ls := rs.take k1
        let Lp := (rs.drop k1).take k2
        let Ll := (rs.drop (k1 + k2)).take k3
        let Rs := (rs.drop (k1 + k2 + k3)).take m1
        let Rp := (rs.drop (k1 + k2 + k3 + m1)).take m2
        let Rl := (rs.drop (k1 + k2 + k3 + m1 + m2)).take m3
        let pick (c : ProperChoice) (s p l : List (Rot Float)) := match c with
          | .self => s | .proper => p | .laueProper => l
        let ns := quats (fs.drop (5 * (tot + 1)))
        match properGroups (lp == "1") (li == "1") (rp == "1") (ri == "1"), rs.drop tot with
        | none, _ => "!err notimpl"
        | some (cl, cr), [m] =>
          match reduceZone (Scalar.dec 1 9) (pick cl Ls Lp Ll) (pick cr Rs Rp Rl) ns m with
          | none => "!err empty"
          | some r => showList showFloat r.q.toList ++ (if r.improper then " 1" else " 0") ++
              (if insideRegion (Scalar.dec 1 9) ns r.q then " in" else " out")
        | _, _ => "!err arity"
    | _, _ => "!err parse"
  | _ => "!err bad-op"

end Orix.Driver.Dis
