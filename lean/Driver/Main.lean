import Driver.Proto
import Driver.Ops.Kern
import Driver.Ops.Lattice
import Driver.Ops.Stereo
import Driver.Ops.ColorKey
import Driver.Ops.NDArray
import Driver.Ops.XMap
import Driver.Ops.Grp
import Driver.Ops.Sec
import Driver.Ops.Dis
import Driver.Ops.Orb
import Driver.Ops.MillerRound
import Driver.Ops.Chunk
import Driver.Ops.Codec
import Driver.Ops.Sampling
/-
Line-protocol driver.  One request per line (`<op> <args…>`), one response line per request.
Each op family lives in its own module `Driver/Ops/*.lean` exposing `handle : List String → String`
and is registered in `handlers` below.  Stateless by design: an operation *history* travels in one line.
-/
namespace Orix.Driver

def handlers : List (String × (List String → String)) := [
  ("kern", Kern.handle),
  ("lat", Lat.handle),
  ("stereo", St.handleStereo),
  ("hist", St.handleHist),
  ("ckey", CKey.handle),
  ("nd", ND.handle),
  ("uniq", Uniq.handle),
  ("xmap", XMapOp.handle),
  ("grp", Grp.handle),
  ("sec", Sec.handle),
  ("dis", Dis.handle),
  ("orb", Orb.handle),
  ("mround", MRound.handle),
  ("chunk", ChunkOp.handle),
  ("codec", Codec.handle),
  ("samp", Samp.handle)
]

def step (line : String) : String :=
  match (line.trimAscii.toString.splitOn " ").filter (· ≠ "") with
  | op :: args =>
    match handlers.find? (·.1 == op) with
    | some (_, h) => h args
    | none => "!err bad-op"
  | [] => "!err bad-op"

partial def loop (h : IO.FS.Stream) (out : IO.FS.Stream) : IO Unit := do
  let line ← h.getLine
  if line.isEmpty then return ()
  out.putStrLn (step line)
  loop h out

end Orix.Driver

def main : IO Unit := do
  let out ← IO.getStdout
  Orix.Driver.loop (← IO.getStdin) out
  out.flush
