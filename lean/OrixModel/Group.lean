/-
Finite point groups as lists of integer 3×3 matrices in lattice coordinates.

By the crystallographic restriction every operation of a crystallographic point group is an
integer matrix in the conventional lattice basis: the cubic basis `e1,e2,e3` (`Basis.cub`)
for triclinic … tetragonal and cubic groups, the hexagonal basis `a = e1`, `b = (-1/2, √3/2, 0)`,
`c = e3` (`Basis.hex`) for trigonal and hexagonal groups (low-symmetry groups are integer in
both).  A matrix is the full orthogonal operation (rotation times ±1), so `det = -1` ⇔ improper.
Convention: column vectors of lattice coordinates, `x' = M x`.

This file is executable and Mathlib-free; the soundness lemmas of the Boolean checkers are in
`OrixProofs/Lemmas/GroupSound.lean`.
-/
namespace Orix.Grp

structure M3 where
  a : Int
  b : Int
  c : Int
  d : Int
  e : Int
  f : Int
  g : Int
  h : Int
  i : Int
deriving DecidableEq, Repr

namespace M3
def one : M3 := ⟨1, 0, 0, 0, 1, 0, 0, 0, 1⟩
def mul (x y : M3) : M3 :=
  ⟨x.a * y.a + x.b * y.d + x.c * y.g, x.a * y.b + x.b * y.e + x.c * y.h, x.a * y.c + x.b * y.f + x.c * y.i,
   x.d * y.a + x.e * y.d + x.f * y.g, x.d * y.b + x.e * y.e + x.f * y.h, x.d * y.c + x.e * y.f + x.f * y.i,
   x.g * y.a + x.h * y.d + x.i * y.g, x.g * y.b + x.h * y.e + x.i * y.h, x.g * y.c + x.h * y.f + x.i * y.i⟩
def neg (x : M3) : M3 := ⟨-x.a, -x.b, -x.c, -x.d, -x.e, -x.f, -x.g, -x.h, -x.i⟩
def det (x : M3) : Int :=
  x.a * (x.e * x.i - x.f * x.h) - x.b * (x.d * x.i - x.f * x.g) + x.c * (x.d * x.h - x.e * x.g)
def toList (x : M3) : List Int := [x.a, x.b, x.c, x.d, x.e, x.f, x.g, x.h, x.i]
def mulVec (x : M3) (v : Int × Int × Int) : Int × Int × Int :=
  (x.a * v.1 + x.b * v.2.1 + x.c * v.2.2, x.d * v.1 + x.e * v.2.1 + x.f * v.2.2,
   x.g * v.1 + x.h * v.2.1 + x.i * v.2.2)
end M3

/-! ### Boolean checkers (decided by the kernel on complete tables) -/

def mem (x : M3) (L : List M3) : Bool := L.any fun y => decide (y = x)
def subset (A B : List M3) : Bool := A.all (mem · B)
def setEq (A B : List M3) : Bool := subset A B && subset B A
def closed (L : List M3) : Bool := L.all fun x => L.all fun y => mem (x.mul y) L
def hasInv (L : List M3) : Bool := L.all fun x => L.any fun y => decide (x.mul y = M3.one)
def nodup : List M3 → Bool
  | [] => true
  | x :: r => !mem x r && nodup r
/-- identity, closure, inverses, no duplicates -/
def isGroup (L : List M3) : Bool := mem M3.one L && closed L && hasInv L && nodup L

/-- one round of closure: `L ∪ L·S` -/
def extend (S L : List M3) : List M3 :=
  (L.flatMap fun x => S.map fun s => x.mul s).foldl (fun acc y => if mem y acc then acc else acc ++ [y]) L
/-- closure of the generators `S` under right multiplication, `fuel` rounds -/
def closure (S : List M3) : Nat → List M3 → List M3
  | 0, L => L
  | n + 1, L =>
    let L' := extend S L
    if L'.length = L.length then L else closure S n L'
def generated (S : List M3) : List M3 := closure S 48 [M3.one]

inductive Basis where
  | cub
  | hex
deriving DecidableEq, Repr

/-- generating operations named as the Hermann–Mauguin symbols use them, in the Cartesian crystal frame
(`a ∥ e1`, `c* ∥ e3`; hexagonal secondary axis `∥ a = e1`, tertiary `∥ [120] = e2`) -/
inductive GenSym where
  | inv | r2z | r2x | r2y | mz | mx | my | r4z | r4zbar | r3z | r6z | r3d | md
deriving DecidableEq, Repr

/-- the matrix of a generating operation in a lattice basis, when it is integer there -/
def genMat : Basis → GenSym → Option M3
  | _, .inv => some ⟨-1, 0, 0, 0, -1, 0, 0, 0, -1⟩
  | _, .r2z => some ⟨-1, 0, 0, 0, -1, 0, 0, 0, 1⟩
  | _, .mz => some ⟨1, 0, 0, 0, 1, 0, 0, 0, -1⟩
  | .cub, .r2x => some ⟨1, 0, 0, 0, -1, 0, 0, 0, -1⟩
  | .cub, .r2y => some ⟨-1, 0, 0, 0, 1, 0, 0, 0, -1⟩
  | .cub, .mx => some ⟨-1, 0, 0, 0, 1, 0, 0, 0, 1⟩
  | .cub, .my => some ⟨1, 0, 0, 0, -1, 0, 0, 0, 1⟩
  | .cub, .r4z => some ⟨0, -1, 0, 1, 0, 0, 0, 0, 1⟩
  | .cub, .r4zbar => some ⟨0, 1, 0, -1, 0, 0, 0, 0, -1⟩
  | .cub, .r3d => some ⟨0, 0, 1, 1, 0, 0, 0, 1, 0⟩      -- 3-fold about [111]
  | .cub, .md => some ⟨0, 1, 0, 1, 0, 0, 0, 0, 1⟩       -- mirror with normal [1 -1 0] (x ↔ y)
  | .cub, .r3z => none
  | .cub, .r6z => none
  -- hexagonal basis: 2-fold about a = e1: (x-y, -y, -z); about [120] = e2: (-x+y, y, -z)
  | .hex, .r2x => some ⟨1, -1, 0, 0, -1, 0, 0, 0, -1⟩
  | .hex, .r2y => some ⟨-1, 1, 0, 0, 1, 0, 0, 0, -1⟩
  | .hex, .mx => some ⟨-1, 1, 0, 0, 1, 0, 0, 0, 1⟩
  | .hex, .my => some ⟨1, -1, 0, 0, -1, 0, 0, 0, 1⟩
  | .hex, .r3z => some ⟨0, -1, 0, 1, -1, 0, 0, 0, 1⟩
  | .hex, .r6z => some ⟨1, -1, 0, 1, 0, 0, 0, 0, 1⟩
  | .hex, .r4z => none
  | .hex, .r4zbar => none
  | .hex, .r3d => none
  | .hex, .md => none

/-- Reference table, written from the Hermann–Mauguin symbols independently of orix: generators of the
group each name denotes, in the Cartesian crystal frame.  Axis-less monoclinic names (`2`, `m`, `2/m`)
follow the unique-axis-c setting that orix documents for them. -/
def hmGenerators : String → Option (List GenSym)
  | "1" => some []
  | "-1" => some [.inv]
  | "211" => some [.r2x]
  | "121" => some [.r2y]
  | "112" => some [.r2z]
  | "2" => some [.r2z]
  | "m11" => some [.mx]
  | "1m1" => some [.my]
  | "11m" => some [.mz]
  | "m" => some [.mz]
  | "2/m" => some [.r2z, .mz]
  | "222" => some [.r2z, .r2x]
  | "mm2" => some [.mx, .my]
  | "mmm" => some [.mx, .my, .mz]
  | "4" => some [.r4z]
  | "-4" => some [.r4zbar]
  | "4/m" => some [.r4z, .mz]
  | "422" => some [.r4z, .r2x]
  | "4mm" => some [.r4z, .mx]
  | "-42m" => some [.r4zbar, .r2x]
  | "4/mmm" => some [.r4z, .mz, .mx]
  | "3" => some [.r3z]
  | "-3" => some [.r3z, .inv]
  | "321" => some [.r3z, .r2x]
  | "312" => some [.r3z, .r2y]
  | "32" => some [.r3z, .r2x]
  | "3m" => some [.r3z, .mx]
  | "-3m" => some [.r3z, .inv, .mx]
  | "6" => some [.r6z]
  | "-6" => some [.r3z, .mz]
  | "6/m" => some [.r6z, .mz]
  | "622" => some [.r6z, .r2x]
  | "6mm" => some [.r6z, .mx]
  | "-6m2" => some [.r3z, .mz, .mx]
  | "6/mmm" => some [.r6z, .mz, .mx]
  | "23" => some [.r2z, .r2x, .r3d]
  | "m-3" => some [.r2z, .r2x, .r3d, .inv]
  | "432" => some [.r4z, .r3d]
  | "-43m" => some [.r4zbar, .r3d]
  | "m-3m" => some [.r4z, .r3d, .inv]
  | _ => none

/-- the group a name denotes, in a basis where all its generators are integer -/
def reference (b : Basis) (name : String) : Option (List M3) := do
  let gs ← hmGenerators name
  let ms ← gs.mapM (genMat b)
  pure (generated ms)

/-- What T-gen extracts from one live `Symmetry` object. -/
structure GroupRec where
  name : String
  order : Nat
  /-- operations in the cubic basis, if all are integer there -/
  cub : Option (List M3)
  /-- operations in the hexagonal basis, if all are integer there -/
  hex : Option (List M3)
  laueCub : Option (List M3)
  laueHex : Option (List M3)
  properCub : Option (List M3)
  properHex : Option (List M3)
  laueName : String
  properName : String
  subgroupNames : List String
  containsInversion : Bool
  isProper : Bool
deriving Repr

def GroupRec.ops (r : GroupRec) : Basis → Option (List M3)
  | .cub => r.cub
  | .hex => r.hex
def GroupRec.laueOps (r : GroupRec) : Basis → Option (List M3)
  | .cub => r.laueCub
  | .hex => r.laueHex
def GroupRec.properOps (r : GroupRec) : Basis → Option (List M3)
  | .cub => r.properCub
  | .hex => r.properHex

def negI : M3 := M3.neg M3.one

/-- all single-group clauses in one basis -/
def checkIn (b : Basis) (r : GroupRec) : Bool :=
  match r.ops b with
  | none => true
  | some L =>
    isGroup L && decide (L.length = r.order)
    && (match r.laueOps b with
        | some LL => isGroup LL && setEq LL (L ++ L.map M3.neg)
        | none => false)
    && (match r.properOps b with
        | some P => setEq P (L.filter fun x => decide (x.det = 1))
        | none => false)
    && (r.containsInversion == mem negI L)
    && (r.isProper == L.all fun x => decide (x.det = 1))

/-- the group is the one its name denotes -/
def checkName (b : Basis) (r : GroupRec) : Bool :=
  match r.ops b, reference b r.name with
  | some L, some R => setEq L R
  | none, none => true
  | some _, none => false      -- integer in a basis in which the named group is not
  | none, some _ => false

def hasBasis (r : GroupRec) : Bool := r.cub.isSome || r.hex.isSome

def checkGroup (r : GroupRec) : Bool :=
  hasBasis r && checkIn .cub r && checkIn .hex r

def checkGroupName (r : GroupRec) : Bool :=
  hasBasis r && checkName .cub r && checkName .hex r

/-- `H ⊆ G` as sets of operations: decided in a basis in which `G` is integer (an operation of `G` is
integer in every such basis, so a group that is not integer there cannot be contained in `G`). -/
def isSubgroup (h g : GroupRec) : Bool :=
  match g.cub, g.hex with
  | some G, _ => (match h.cub with | some H => subset H G | none => false)
  | none, some G => (match h.hex with | some H => subset H G | none => false)
  | none, none => false

/-- the `subgroups` query of `g` agrees with set inclusion over the whole table -/
def checkSubgroups (all : List GroupRec) (g : GroupRec) : Bool :=
  all.all fun h => (g.subgroupNames.contains h.name) == isSubgroup h g

/-! ### space groups -/

structure SpaceGroupRec where
  number : Nat
  basis : Basis
  /-- name of the point group orix assigns (`Phase(space_group=n).point_group.name`) -/
  pointGroup : String
  /-- distinct rotational parts of the space group's symmetry operations (fractional coordinates) -/
  rotParts : List M3
deriving Repr

def lookup (all : List GroupRec) (name : String) : Option GroupRec := all.find? (·.name == name)

/-- the assigned point group is exactly the set of rotational parts, in the phase's lattice basis -/
def sgOk (all : List GroupRec) (s : SpaceGroupRec) : Bool :=
  match lookup all s.pointGroup with
  | none => false
  | some g =>
    match g.ops s.basis with
    | none => false
    | some L => setEq L s.rotParts

def sgBad (all : List GroupRec) (sgs : List SpaceGroupRec) : List Nat :=
  (sgs.filter fun s => !sgOk all s).map (·.number)

/-- The Cartesian rotation part of an operation does not depend on the free lattice parameters of the
crystal family when the operation only mixes axes whose lengths are tied: `M` commutes with the diagonal
scaling `diag(sa, sb, sc)`.  `tied i j` says whether axes `i` and `j` have equal free length. -/
def respectsScaling (tied : Fin 3 → Fin 3 → Bool) (m : M3) : Bool :=
  let e : Fin 3 → Fin 3 → Int := fun i j =>
    match i.val, j.val with
    | 0, 0 => m.a | 0, 1 => m.b | 0, 2 => m.c
    | 1, 0 => m.d | 1, 1 => m.e | 1, 2 => m.f
    | 2, 0 => m.g | 2, 1 => m.h | _, _ => m.i
  (List.finRange 3).all fun i => (List.finRange 3).all fun j => decide (e i j = 0) || tied i j

end Orix.Grp
