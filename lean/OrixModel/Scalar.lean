/-
Scalar interface of the executable model.

Every model function is written once against this class.  It is *run* on `Float`
(transcendental kernels), on `Int` (exact evaluation of polynomial code on integer inputs)
and it is *reasoned about* on `ℝ` (instance in `OrixProofs/Lemmas/RealScalar.lean`).
No Mathlib import here: the driver must stay Mathlib-free.
-/
namespace Orix

class Scalar (α : Type) extends Add α, Sub α, Mul α, Neg α, Div α where
  /-- natural-number literal -/
  lit : Nat → α
  /-- decimal literal `m · 10^(-e)` -/
  dec : Nat → Nat → α
  lt : α → α → Bool
  le : α → α → Bool
  beq : α → α → Bool
  sqrt : α → α
  cos : α → α
  sin : α → α
  tan : α → α
  acos : α → α
  atan : α → α
  atan2 : α → α → α
  /-- real cube root for non-negative arguments (`x ** (1/3)`) -/
  cbrt : α → α
  abs : α → α
  pi : α
  /-- `np.mod(x, y)` (result has the sign of `y`) -/
  fmod : α → α → α

namespace Scalar
variable {α : Type} [Scalar α]

/-- integer power with a literal exponent (`x ** n`) -/
def npow (x : α) : Nat → α
  | 0 => lit 1
  | 1 => x
  | n + 1 => npow x n * x

def max2 (x y : α) : α := if lt x y then y else x
def min2 (x y : α) : α := if lt y x then y else x
def sq (x : α) : α := x * x
end Scalar

instance : Scalar Float where
  lit n := Float.ofNat n
  dec m e := Float.ofScientific m true e
  lt x y := decide (x < y)
  le x y := decide (x ≤ y)
  beq x y := x == y
  sqrt := Float.sqrt
  cos := Float.cos
  sin := Float.sin
  tan := Float.tan
  acos := Float.acos
  atan := Float.atan
  atan2 := Float.atan2
  cbrt := Float.cbrt
  abs := Float.abs
  pi := 3.141592653589793
  fmod x y :=
    let r := x - Float.floor (x / y) * y
    r

/-- Exact integer evaluation of polynomial code.  Transcendental members are not meaningful on
`Int`; they are never reached by the polynomial kernels run on this instance (the driver only
routes polynomial ops here). -/
instance : Scalar Int where
  lit n := Int.ofNat n
  dec _ _ := 0
  lt x y := decide (x < y)
  le x y := decide (x ≤ y)
  beq x y := x == y
  sqrt x := x
  cos x := x
  sin x := x
  tan x := x
  acos x := x
  atan x := x
  atan2 x _ := x
  cbrt x := x
  abs x := Int.ofNat x.natAbs
  pi := 3
  fmod x y := x % y

end Orix
