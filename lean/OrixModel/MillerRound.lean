import OrixModel.Miller
import OrixModel.Orbit
/-
`Miller.round` / `_round_indices` and `Miller.angle_with(use_symmetry=True)` (C10), mirrored step by step.

`_round_indices(indices, max_index)`:
  * a Miller–Bravais quartet drops its redundant third index for the *search* (`idx_flat[..., [0, 1, 3]]`);
  * `max_per_set = max |index|` of the remaining three;
  * for every multiplier `m = 1 … max_index`: `idx_scaled = idx_flat / max_per_set * m` and the error
    `1e-7 * round(1e7 * Σ (x - round x)² / Σ x²)` (i.e. the relative squared error on a grid of 1e-7);
  * `argmin` takes the FIRST minimum; `multiplier = (argmin + 1) / max_per_set`;
  * the result is `round(multiplier * idx).astype(int)` of ALL given indices (three or four: the redundant index of a
    quartet is rounded on its own, it is not rebuilt from the first two).
`Miller.round` passes `self.coordinates` and hands the result to the constructor; for the four-index formats the
constructor checks `h + k + i = 0` (`ValueError` otherwise), drops the third index, and the `hkil` / `UVTW` getter
rebuilds it as `-(h + k)`.

`np.round(x)` is `Orix.rint` (ties to even, built from `fmod`; contract lemmas in `Lemmas/Lattice.lean`);
`.astype(int)` of an integral value is `HasToInt.toInt`.
The zero triplet (NaN errors, garbage integers in numpy) and `max_index = 0` (`argmin` of an empty sequence raises)
are explicit error values.
-/
namespace Orix.MillerRound
open Orix Scalar Orix.Grp Orix.Orb

/-- `.astype(int)` of a float holding an integral value -/
class HasToInt (α : Type) where
  toInt : α → Int

instance : HasToInt Float := ⟨fun x => x.toInt64.toInt⟩

inductive RoundErr where
  /-- `max_index = 0`: `np.argmin` of an empty sequence raises `ValueError` -/
  | noMultiplier
  /-- all searched indices are 0: division by `max_per_set = 0`, every error is NaN, numpy returns meaningless integers -/
  | zeroVector
  /-- `Miller(hkil=…)` / `Miller(UVTW=…)` rejects the rounded quartet: the first three indices do not sum to zero -/
  | convention
deriving Repr, DecidableEq

def RoundErr.tag : RoundErr → String
  | .noMultiplier => "nomult"
  | .zeroVector => "zero"
  | .convention => "convention"

variable {α : Type} [Scalar α]

/-- `np.max(np.abs(idx_flat), axis=-1)` -/
def maxAbs3 (v : Vec3 α) : α := max2 (max2 (abs v.x) (abs v.y)) (abs v.z)

/-- `idx_flat / max_per_set * m` -/
def scaled (v : Vec3 α) (mx : α) (m : Nat) : Vec3 α := ⟨v.x / mx * lit m, v.y / mx * lit m, v.z / mx * lit m⟩

/-- `np.sum(x ** 2, axis=-1)` -/
def sumSq (s : Vec3 α) : α := s.x * s.x + s.y * s.y + s.z * s.z

/-- `idx_scaled - np.round(idx_scaled)` -/
def resid (s : Vec3 α) : Vec3 α := ⟨s.x - rint s.x, s.y - rint s.y, s.z - rint s.z⟩

/-- the error of multiplier `m`, on the 1e-7 grid -/
def err (v : Vec3 α) (mx : α) (m : Nat) : α :=
  let s := scaled v mx m
  dec 1 7 * rint (lit 10000000 * sumSq (resid s) / sumSq s)

/-- SPEC variant of the error: the relative squared error itself, not put on the 1e-7 grid -/
def errExact (v : Vec3 α) (mx : α) (m : Nat) : α :=
  let s := scaled v mx m
  sumSq (resid s) / sumSq s

/-- errors of the multipliers `1 … maxIndex`, in this order (`e` = `err` for the code) -/
def errorsBy (e : Vec3 α → α → Nat → α) (maxIndex : Nat) (v : Vec3 α) (mx : α) : List α :=
  (List.range maxIndex).map fun i => e v mx (i + 1)

/-- scan of `np.argmin`: `best` at index `bi` so far, next index `i` -/
def argminGo (best : α) (bi i : Nat) : List α → Nat
  | [] => bi
  | x :: xs => if lt x best then argminGo x i (i + 1) xs else argminGo best bi (i + 1) xs

/-- `np.argmin`: index of the FIRST minimum -/
def argminFirst : List α → Option Nat
  | [] => none
  | x :: xs => some (argminGo x 0 1 xs)

/-- the multiplier `m` (1-based) the search selects, for the error function `e` -/
def bestMultiplierBy (e : Vec3 α → α → Nat → α) (maxIndex : Nat) (v : Vec3 α) : Except RoundErr Nat :=
  let mx := maxAbs3 v
  if beq mx (lit 0) then .error .zeroVector
  else match argminFirst (errorsBy e maxIndex v mx) with
    | none => .error .noMultiplier
    | some k => .ok (k + 1)

/-- the multiplier `_round_indices` selects -/
def bestMultiplier (maxIndex : Nat) (v : Vec3 α) : Except RoundErr Nat := bestMultiplierBy err maxIndex v

variable [HasToInt α]

/-- `np.round(multiplier * x).astype(int)` with `multiplier = m / max_per_set` -/
def roundOne (m : Nat) (mx x : α) : Int := HasToInt.toInt (rint (lit m / mx * x))

def roundIndicesBy (e : Vec3 α → α → Nat → α) (maxIndex : Nat) (v : Vec3 α) : Except RoundErr Z3 :=
  match bestMultiplierBy e maxIndex v with
  | .error e => .error e
  | .ok m =>
    let mx := maxAbs3 v
    .ok ⟨roundOne m mx v.x, roundOne m mx v.y, roundOne m mx v.z⟩

/-- `_round_indices` of one index triplet -/
def roundIndices (maxIndex : Nat) (v : Vec3 α) : Except RoundErr Z3 := roundIndicesBy err maxIndex v

/-- SPEC: the same search with the exact error (no 1e-7 grid) -/
def roundIndicesSpec (maxIndex : Nat) (v : Vec3 α) : Except RoundErr Z3 := roundIndicesBy errExact maxIndex v

/-- `_round_indices` of one Miller–Bravais quartet: the search looks at indices 0, 1, 3; all four are scaled and rounded -/
def roundIndices4 (maxIndex : Nat) (q : Vec4 α) : Except RoundErr (Vec4 Int) :=
  let v : Vec3 α := ⟨q.x0, q.x1, q.x3⟩
  match bestMultiplier maxIndex v with
  | .error e => .error e
  | .ok m =>
    let mx := maxAbs3 v
    .ok ⟨roundOne m mx q.x0, roundOne m mx q.x1, roundOne m mx q.x2, roundOne m mx q.x3⟩

/-- what the constructor and the four-index getter do with an integer quartet: `_check_hkil`/`_check_UVTW`
(`np.allclose(sum, 0, atol=1e-4)`, exact for integers), third index dropped and rebuilt as `-(x0 + x1)` -/
def rebuild4 (r : Vec4 Int) : Except RoundErr (Vec4 Int) :=
  if r.x0 + r.x1 + r.x2 = 0 then .ok ⟨r.x0, r.x1, -(r.x0 + r.x1), r.x3⟩ else .error .convention

/-- `Miller.round` of a vector whose coordinate format is `hkil` or `UVTW`, as read back through the same format -/
def millerRound4 (maxIndex : Nat) (q : Vec4 α) : Except RoundErr (Vec4 Int) :=
  match roundIndices4 maxIndex q with
  | .error e => .error e
  | .ok r => rebuild4 r

/-! ### `angle_with(use_symmetry=True)` -/

/-- `np.min` of a non-empty list -/
def minList : List α → Option α
  | [] => none
  | x :: xs => some (xs.foldl min2 x)

variable {X : Type}

/-- one entry of `arccos(round(dot_outer / (|self| |other2|), 12))` -/
def angleTo (dot : X → X → α) (x y : X) : α :=
  acos (roundDec 12 (dot x y / (sqrt (dot x x) * sqrt (dot y y))))

/-- minimum of the rounded angles to the vectors of a list (`other2`) -/
def angleOver (dot : X → X → α) (self : X) (orbit : List X) : Option α := minList (orbit.map (angleTo dot self))

/-- `self.angle_with(other, use_symmetry=True)` for one `other`: minimum over the images of `other` under all
operations.  (The code first removes repeated images, `symmetrise(unique=True)`; the minimum does not see this:
`angleWithSym_eq_over_distinct`.)  `none`: empty operation list. -/
def angleWithSym (act : M3 → X → X) (dot : X → X → α) (L : List M3) (self other : X) : Option α :=
  angleOver dot self (images act L other)

/-- `self.angle_with(other, use_symmetry=True)` for several vectors at matching positions (after fix 820316b in /repo:
the equivalents of each other vector sit on their own axis and the minimum runs over that axis only) -/
def angleWithSymEach (act : M3 → X → X) (dot : X → X → α) (L : List M3) (selfs others : List X) : List (Option α) :=
  List.zipWith (angleWithSym act dot L) selfs others

/-- what the code returned BEFORE fix 820316b for ONE `self` vector when `other` held several vectors:
`other.symmetrise(unique=True)` is the concatenation of all orbits and the minimum ran over all of it (not only over the
orbit of the vector at the same position).  Kept with the theorems that show how it deviates. -/
def angleWithSymAll (act : M3 → X → X) (dot : X → X → α) (L : List M3) (self : X) (others : List X) : Option α :=
  angleOver dot self (others.flatMap (images act L))

/-! lattice coordinates for the driver: integer operation on real direct-lattice coordinates, metric dot product -/

def ofInt : Int → α
  | .ofNat n => lit n
  | .negSucc n => -(lit (n + 1))

/-- `M x` on real lattice coordinates (column vector) -/
def actS (m : M3) (v : Vec3 α) : Vec3 α :=
  ⟨ofInt m.a * v.x + ofInt m.b * v.y + ofInt m.c * v.z, ofInt m.d * v.x + ofInt m.e * v.y + ofInt m.f * v.z,
   ofInt m.g * v.x + ofInt m.h * v.y + ofInt m.i * v.z⟩

/-- `uᵀ G v` -/
def dotG (G : Mat3 α) (u v : Vec3 α) : α := Vec3.dot u (Mat3.mulVec G v)

end Orix.MillerRound
