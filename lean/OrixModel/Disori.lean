import OrixModel.Quat
/-
Symmetry-reduced dot products as orix computes them (C04, C06), executable on any `Scalar`.
-/
namespace Orix.Disori
open Orix Scalar
variable {α : Type} [Scalar α]

/-- entry of `Rotation.dot_outer`: `|p·q|`, and 0 when the two rotations differ in properness -/
def rdot (r s : Rot α) : α := bif xor r.improper s.improper then lit 0 else abs (Quat.dot r.q s.q)

def maxL : List α → α
  | [] => lit 0
  | x :: xs => max2 x (maxL xs)

/-- conjugate = inverse of a unit rotation (`~O`) -/
def rconj (r : Rot α) : Rot α := ⟨Quat.conj r.q, r.improper⟩

def pairs (A B : List (Rot α)) : List (Rot α × Rot α) := A.flatMap fun a => B.map fun b => (a, b)

/-- brute force over all pairs of equivalents `(g₁ O₁, g₂ O₂)` -/
def bruteDot (G1 G2 : List (Rot α)) (O1 O2 : Rot α) : α :=
  maxL ((pairs G1 G2).map fun p => rdot (Rot.mul p.2 O2) (Rot.mul p.1 O1))

/-- `Orientation.dot`: maximum of `rdot (O₂ ~O₁) s` over the unique symmetry products `S` -/
def codeDot (S : List (Rot α)) (O1 O2 : Rot α) : α :=
  maxL (S.map fun s => rdot (Rot.mul O2 (rconj O1)) s)

/-- misorientation equivalents `gl · M · gr`; brute-force maximum dot between the orbits of `M` and `N` -/
def bruteDotMis (Gl Gr : List (Rot α)) (M N : Rot α) : α :=
  maxL ((pairs Gl Gr).flatMap fun p => (pairs Gl Gr).map fun q =>
    rdot (Rot.mul (Rot.mul p.1 M) p.2) (Rot.mul (Rot.mul q.1 N) q.2))

inductive ProperChoice where
  | self | proper | laueProper
deriving DecidableEq, Repr

/-- decision table of `get_proper_groups` on the flags (is_proper, contains_inversion) of the two groups;
`none` is the `NotImplementedError` branch -/
def properGroups (lProper lInv rProper rInv : Bool) : Option (ProperChoice × ProperChoice) :=
  if lProper && rProper then some (.self, .self)
  else if lProper && !rProper then some (.self, .proper)
  else if !lProper && rProper then some (.proper, .self)
  else if lInv && rInv then some (.proper, .proper)
  else if lInv && !rInv then some (.proper, .laueProper)
  else if !lInv && rInv then some (.laueProper, .proper)
  else none

/-- `OrientationRegion.__gt__`: all normal dot products `≥ -eps` or all `≤ eps` -/
def insideRegion (eps : α) (normals : List (Quat α)) (q : Quat α) : Bool :=
  (normals.all fun n => le (-eps) (Quat.dot n q)) || (normals.all fun n => le (Quat.dot n q) eps)

/-- the first element satisfying `p`, else the last element (the loop of `map_into_symmetry_reduced_zone`) -/
def firstInside {β : Type} (p : β → Bool) : List β → Option β
  | [] => none
  | [x] => some x
  | x :: y :: r => if p x then some x else firstInside p (y :: r)

/-- `Misorientation.map_into_symmetry_reduced_zone`: images `gl·M·gr` in the order of `itertools.product(Gl, Gr)` -/
def reduceZone (eps : α) (Gl Gr : List (Rot α)) (normals : List (Quat α)) (M : Rot α) : Option (Rot α) :=
  firstInside (fun r => insideRegion eps normals r.q)
    (Gl.flatMap fun gl => Gr.map fun gr => Rot.mul (Rot.mul gl M) gr)

end Orix.Disori
