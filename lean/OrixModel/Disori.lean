import OrixModel.Quat
/-
Symmetry-reduced dot products as orix computes them (C04, C06), executable on any `Scalar`.
-/
namespace Orix.Disori
open Orix Scalar
variable {α : Type} [Scalar α]

/-- entry of `Rotation.dot_outer`: `|p·q|`, and 0 when the two rotations differ in properness -/
def rdot (r s : Rot α) : α := bif xor r.improper s.improper then lit 0 else abs (Quat.dot r.q s.q)

def maxL : List α → α
  | [] => lit 0
  | x :: xs => max2 x (maxL xs)

/-- conjugate = inverse of a unit rotation (`~O`) -/
def rconj (r : Rot α) : Rot α := ⟨Quat.conj r.q, r.improper⟩

def pairs (A B : List (Rot α)) : List (Rot α × Rot α) := A.flatMap fun a => B.map fun b => (a, b)

/-- brute force over all pairs of equivalents `(g₁ O₁, g₂ O₂)` -/
def bruteDot (G1 G2 : List (Rot α)) (O1 O2 : Rot α) : α :=
  maxL ((pairs G1 G2).map fun p => rdot (Rot.mul p.2 O2) (Rot.mul p.1 O1))

/-- `Orientation.dot`: maximum of `rdot (O₂ ~O₁) s` over the unique symmetry products `S` -/
def codeDot (S : List (Rot α)) (O1 O2 : Rot α) : α :=
  maxL (S.map fun s => rdot (Rot.mul O2 (rconj O1)) s)

/-- misorientation equivalents `gl · M · gr`; brute-force maximum dot between the orbits of `M` and `N` -/
def bruteDotMis (Gl Gr : List (Rot α)) (M N : Rot α) : α :=
  maxL ((pairs Gl Gr).flatMap fun p => (pairs Gl Gr).map fun q =>
    rdot (Rot.mul (Rot.mul p.1 M) p.2) (Rot.mul (Rot.mul q.1 N) q.2))

end Orix.Disori
