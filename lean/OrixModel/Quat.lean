import OrixModel.Scalar
/-
Quaternions, 3-vectors, 3×3 matrices and (possibly improper) rotations as orix defines them
(`orix/quaternion/quaternion.py`, `rotation.py`).  Scalar part first: `Q = (a, b, c, d)`.
-/
namespace Orix
open Scalar

structure Vec3 (α : Type) where
  x : α
  y : α
  z : α
deriving Repr, BEq, DecidableEq

structure Quat (α : Type) where
  a : α
  b : α
  c : α
  d : α
deriving Repr, BEq, DecidableEq

/-- row-major 3×3 matrix -/
structure Mat3 (α : Type) where
  m00 : α
  m01 : α
  m02 : α
  m10 : α
  m11 : α
  m12 : α
  m20 : α
  m21 : α
  m22 : α
deriving Repr, BEq, DecidableEq

variable {α : Type} [Scalar α]

namespace Vec3
def toList (v : Vec3 α) : List α := [v.x, v.y, v.z]
def add (u v : Vec3 α) : Vec3 α := ⟨u.x + v.x, u.y + v.y, u.z + v.z⟩
def sub (u v : Vec3 α) : Vec3 α := ⟨u.x - v.x, u.y - v.y, u.z - v.z⟩
def neg (v : Vec3 α) : Vec3 α := ⟨-v.x, -v.y, -v.z⟩
def smul (k : α) (v : Vec3 α) : Vec3 α := ⟨k * v.x, k * v.y, k * v.z⟩
def dot (u v : Vec3 α) : α := u.x * v.x + u.y * v.y + u.z * v.z
def cross (u v : Vec3 α) : Vec3 α :=
  ⟨u.y * v.z - u.z * v.y, u.z * v.x - u.x * v.z, u.x * v.y - u.y * v.x⟩
def normSq (v : Vec3 α) : α := dot v v
def norm (v : Vec3 α) : α := sqrt (normSq v)
end Vec3

namespace Quat
def toList (q : Quat α) : List α := [q.a, q.b, q.c, q.d]
def one : Quat α := ⟨lit 1, lit 0, lit 0, lit 0⟩
def neg (q : Quat α) : Quat α := ⟨-q.a, -q.b, -q.c, -q.d⟩
def conj (q : Quat α) : Quat α := ⟨q.a, -q.b, -q.c, -q.d⟩
def normSq (q : Quat α) : α := q.a * q.a + q.b * q.b + q.c * q.c + q.d * q.d
def norm (q : Quat α) : α := sqrt (normSq q)
def scale (k : α) (q : Quat α) : Quat α := ⟨k * q.a, k * q.b, k * q.c, k * q.d⟩
def divS (q : Quat α) (k : α) : Quat α := ⟨q.a / k, q.b / k, q.c / k, q.d / k⟩
/-- `Quaternion.unit` -/
def unit (q : Quat α) : Quat α := divS q (norm q)
/-- `Quaternion.__invert__`: conjugate divided by the squared norm -/
def inv (q : Quat α) : Quat α := divS (conj q) (normSq q)
def dot (p q : Quat α) : α := p.a * q.a + p.b * q.b + p.c * q.c + p.d * q.d
def ofVec (v : Vec3 α) : Quat α := ⟨lit 0, v.x, v.y, v.z⟩
def vec (q : Quat α) : Vec3 α := ⟨q.b, q.c, q.d⟩

/-- Hamilton product (class docstring of `Quaternion`, `qu_multiply_gufunc`) -/
def mul (p q : Quat α) : Quat α :=
  ⟨p.a * q.a - p.b * q.b - p.c * q.c - p.d * q.d,
   p.a * q.b + p.b * q.a + p.c * q.d - p.d * q.c,
   p.a * q.c - p.b * q.d + p.c * q.a + p.d * q.b,
   p.a * q.d + p.b * q.c - p.c * q.b + p.d * q.a⟩

/-- `qu_rotate_vec_gufunc`: rotation of a vector by a *unit* quaternion (built-in fallback path) -/
def rotate (q : Quat α) (v : Vec3 α) : Vec3 α :=
  let tx := lit 2 * (q.c * v.z - q.d * v.y)
  let ty := lit 2 * (q.d * v.x - q.b * v.z)
  let tz := lit 2 * (q.b * v.y - q.c * v.x)
  ⟨v.x + q.a * tx - q.d * ty + q.c * tz,
   v.y + q.d * tx + q.a * ty - q.b * tz,
   v.z - q.c * tx + q.b * ty + q.a * tz⟩

/-- numpy-quaternion path of `Quaternion.__mul__(Vector3d)`: vector part of `(q·v)·q⁻¹` -/
def rotateSandwich (q : Quat α) (v : Vec3 α) : Vec3 α := vec (mul (mul q (ofVec v)) (inv q))

/-- `qu2om_single`: passive orientation matrix of a unit quaternion -/
def toMat (q : Quat α) : Mat3 α :=
  let bb := q.b * q.b
  let cc := q.c * q.c
  let dd := q.d * q.d
  let qq := q.a * q.a - (bb + cc + dd)
  ⟨qq + lit 2 * bb, lit 2 * (q.b * q.c - q.a * q.d), lit 2 * (q.b * q.d + q.a * q.c),
   lit 2 * (q.b * q.c + q.a * q.d), qq + lit 2 * cc, lit 2 * (q.c * q.d - q.a * q.b),
   lit 2 * (q.b * q.d - q.a * q.c), lit 2 * (q.c * q.d + q.a * q.b), qq + lit 2 * dd⟩
end Quat

namespace Mat3
def toList (m : Mat3 α) : List α :=
  [m.m00, m.m01, m.m02, m.m10, m.m11, m.m12, m.m20, m.m21, m.m22]
def one : Mat3 α := ⟨lit 1, lit 0, lit 0, lit 0, lit 1, lit 0, lit 0, lit 0, lit 1⟩
def mulVec (m : Mat3 α) (v : Vec3 α) : Vec3 α :=
  ⟨m.m00 * v.x + m.m01 * v.y + m.m02 * v.z,
   m.m10 * v.x + m.m11 * v.y + m.m12 * v.z,
   m.m20 * v.x + m.m21 * v.y + m.m22 * v.z⟩
def mul (m n : Mat3 α) : Mat3 α :=
  ⟨m.m00 * n.m00 + m.m01 * n.m10 + m.m02 * n.m20,
   m.m00 * n.m01 + m.m01 * n.m11 + m.m02 * n.m21,
   m.m00 * n.m02 + m.m01 * n.m12 + m.m02 * n.m22,
   m.m10 * n.m00 + m.m11 * n.m10 + m.m12 * n.m20,
   m.m10 * n.m01 + m.m11 * n.m11 + m.m12 * n.m21,
   m.m10 * n.m02 + m.m11 * n.m12 + m.m12 * n.m22,
   m.m20 * n.m00 + m.m21 * n.m10 + m.m22 * n.m20,
   m.m20 * n.m01 + m.m21 * n.m11 + m.m22 * n.m21,
   m.m20 * n.m02 + m.m21 * n.m12 + m.m22 * n.m22⟩
def transpose (m : Mat3 α) : Mat3 α :=
  ⟨m.m00, m.m10, m.m20, m.m01, m.m11, m.m21, m.m02, m.m12, m.m22⟩
def det (m : Mat3 α) : α :=
  m.m00 * (m.m11 * m.m22 - m.m12 * m.m21) - m.m01 * (m.m10 * m.m22 - m.m12 * m.m20)
    + m.m02 * (m.m10 * m.m21 - m.m11 * m.m20)
end Mat3

/-- A rotation as `orix.quaternion.Rotation` stores it: a quaternion and an `improper` flag. -/
structure Rot (α : Type) where
  q : Quat α
  improper : Bool
deriving Repr, BEq, DecidableEq

namespace Rot
/-- `Rotation.__mul__(Rotation)`: quaternion product, flags combine by xor -/
def mul (r s : Rot α) : Rot α := ⟨Quat.mul r.q s.q, xor r.improper s.improper⟩
/-- `Rotation.__invert__`: conjugate data, flag kept -/
def inv (r : Rot α) : Rot α := ⟨Quat.inv r.q, r.improper⟩
/-- `Rotation.__neg__`: same quaternion data, flag toggled -/
def neg (r : Rot α) : Rot α := ⟨r.q, !r.improper⟩
/-- `Rotation.__mul__(Vector3d)`: rotate by the proper part, then invert if improper -/
def act (r : Rot α) (v : Vec3 α) : Vec3 α :=
  let w := Quat.rotate r.q v
  if r.improper then Vec3.neg w else w
end Rot

end Orix
