import OrixModel.Sampling
import OrixModel.Conv
/-
Deterministic SO(3) grids of `orix/sampling/SO3_sampling.py` (C19): `_resolution_to_num_steps`,
`_three_uniform_samples_method` (method "quaternion", without `max_angle`) and `_euler_angles_haar_measure`
(method "haar_euler"), before `Rotation.unique()`.  The cubochoric method is not modelled here (its grid goes through the
fitted `cu2ho`/`ho2ax` kernels).

Numbers are `Scalar`; numbers of steps are `Int`/`Nat`, obtained from a number only through `HasCeil.ceilInt`
(= `int(np.ceil(x))`).  Python exceptions are explicit `Err` results.
-/
namespace Orix.SO3Sampling
open Orix Scalar Sampling

variable {α : Type} [Scalar α]

/-- `_resolution_to_num_steps(resolution, even_only, odd_only)`: `int(np.ceil(360 / resolution))`, plus one when the
parity is not the wanted one (Python's `%` with a positive modulus is non-negative, like `Int.emod`) -/
def numSteps [HasCeil α] (resolution : α) (evenOnly oddOnly : Bool) : Except Err Int :=
  if beq resolution (lit 0) then .error .zeroDivision
  else
    match HasCeil.ceilInt (lit 360 / resolution) with
    | none => .error .nonFinite
    | some n =>
      let m := n % 2
      .ok (if (evenOnly && m == 1) || (oddOnly && m == 0) then n + 1 else n)

/-! ### method "quaternion" (`_three_uniform_samples_method`, `max_angle=None`) -/

/-- one grid quaternion: `(a sin 2πu₂, a cos 2πu₂, b sin 2πu₃, b cos 2πu₃)` with `a = √(1-u₁)`, `b = √u₁` -/
def quatPoint (u1 u2 u3 : α) : Quat α :=
  let a := sqrt (lit 1 - u1)
  let b := sqrt u1
  let t2 := lit 2 * pi * u2
  let t3 := lit 2 * pi * u3
  ⟨a * sin t2, a * cos t2, b * sin t3, b * cos t3⟩

/-- the `u₁` axis: `np.linspace(0, 1, num_steps, endpoint=True)` -/
def quatU1 (n : Nat) : List α := linspace (lit 0) (lit 1) n true

/-- the `u₂` and `u₃` axes: `np.linspace(0, 1, num_steps, endpoint=False)` -/
def quatU23 (n : Nat) : List α := linspace (lit 0) (lit 1) n false

/-- all grid quaternions in the order of `np.meshgrid(u_1, u_2, u_3)` flattened (`u₂` outermost, then `u₁`, `u₃`
innermost) -/
def quatGrid (n : Nat) : List (Quat α) :=
  (quatU23 n).flatMap fun u2 => (quatU1 n).flatMap fun u1 => (quatU23 n).map fun u3 => quatPoint u1 u2 u3

/-- `_three_uniform_samples_method(resolution, unique=False)` (data handed to `Rotation`) -/
def quatMethod [HasCeil α] (resolution : α) : Except Err (List (Quat α)) :=
  match numSteps resolution false false with
  | .error e => .error e
  | .ok n => if n < 0 then .error .negativeCount else .ok (quatGrid n.toNat)

/-! ### method "haar_euler" (`_euler_angles_haar_measure`) -/

/-- `alpha`, `gamma`: `np.linspace(0, 2π, num_steps, endpoint=False)` -/
def eulerAlpha (n : Nat) : List α := linspace (lit 0) (lit 2 * pi) n false

/-- `beta`: `np.arccos(np.linspace(1, -1, half_steps, endpoint=False))` -/
def eulerBeta (half : Nat) : List α := (linspace (lit 1) (-(lit 1)) half false).map acos

/-- Euler triplets in the order of `np.array(np.meshgrid(alpha, beta, gamma)).T.reshape(-1, 3)`: `γ` outermost, then `α`,
`β` innermost -/
def eulerTriplets (n half : Nat) : List (Euler α) :=
  (eulerAlpha n).flatMap fun g => (eulerAlpha n).flatMap fun a => (eulerBeta half).map fun b => ⟨a, b, g⟩

/-- the grid as quaternions (`Rotation.from_euler`, i.e. `eu2qu_single`) -/
def eulerGrid (n half : Nat) : List (Quat α) := (eulerTriplets n half).map Conv.eu2qu

/-- `_euler_angles_haar_measure(resolution, unique=False)`: even number of steps, `half_steps = int(num_steps / 2)` -/
def eulerMethod [HasCeil α] (resolution : α) : Except Err (List (Quat α)) :=
  match numSteps resolution true false with
  | .error e => .error e
  | .ok n => if n < 0 then .error .negativeCount else .ok (eulerGrid n.toNat (n.toNat / 2))

end Orix.SO3Sampling
