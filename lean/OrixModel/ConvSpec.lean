import OrixModel.Scalar
import OrixModel.Quat
import OrixModel.Conv
/-
The conversions as mathematics wants them: canonical sign, no thresholds (every `eps` of the code is
replaced by an exact comparison with 0), and the `Φ = π` gimbal branch of `qu2eu` with the correct sign.
The theorems of C01 are proved at full strength for these maps; the code-shaped model (`Conv`) is
related to them under the explicit guards its thresholds need.
-/
namespace Orix
open Scalar

namespace ConvSpec
variable {α : Type} [Scalar α]

/-- canonical representative of `±q`: the first non-zero component is positive -/
def canon (q : Quat α) : Quat α :=
  if lt (lit 0) q.a then q else if lt q.a (lit 0) then Quat.neg q
  else if lt (lit 0) q.b then q else if lt q.b (lit 0) then Quat.neg q
  else if lt (lit 0) q.c then q else if lt q.c (lit 0) then Quat.neg q
  else if lt (lit 0) q.d then q else if lt q.d (lit 0) then Quat.neg q
  else q

/-- passive rotation about `z` / `x` by `t` -/
def Rz (t : α) : Mat3 α := ⟨cos t, sin t, lit 0, -sin t, cos t, lit 0, lit 0, lit 0, lit 1⟩
def Rx (t : α) : Mat3 α := ⟨lit 1, lit 0, lit 0, lit 0, cos t, sin t, lit 0, -sin t, cos t⟩

/-- the passive Bunge ZXZ matrix `Rz(φ2) · Rx(Φ) · Rz(φ1)` -/
def bunge (e : Euler α) : Mat3 α := Mat3.mul (Rz e.phi2) (Mat3.mul (Rx e.Phi) (Rz e.phi1))

/-- matrix → quaternion with canonical sign; exact comparisons, no thresholds.
`a > 0`: the antisymmetric part gives `b, c, d`; two-fold rotations (`a = 0`): the symmetric part. -/
def om2qu (om : Mat3 α) : Quat α :=
  let aA := lit 1 + om.m00 + om.m11 + om.m22
  let bA := lit 1 + om.m00 - om.m11 - om.m22
  let cA := lit 1 - om.m00 + om.m11 - om.m22
  let dA := lit 1 - om.m00 - om.m11 + om.m22
  if lt (lit 0) aA then
    let a := sqrt aA / lit 2
    ⟨a, (om.m21 - om.m12) / (lit 4 * a), (om.m02 - om.m20) / (lit 4 * a), (om.m10 - om.m01) / (lit 4 * a)⟩
  else if lt (lit 0) bA then
    let b := sqrt bA / lit 2
    ⟨lit 0, b, (om.m01 + om.m10) / (lit 4 * b), (om.m02 + om.m20) / (lit 4 * b)⟩
  else if lt (lit 0) cA then
    let c := sqrt cA / lit 2
    ⟨lit 0, lit 0, c, (om.m12 + om.m21) / (lit 4 * c)⟩
  else ⟨lit 0, lit 0, lit 0, sqrt dA / lit 2⟩

/-- Euler angles → quaternion, no sign flip (`eu2quRaw`); the code's flip only picks `±` -/
def eu2qu (e : Euler α) : Quat α := Conv.eu2quRaw e

/-- quaternion → Bunge Euler angles, exact gimbal tests, `+2bc` in the `Φ = π` branch -/
def qu2eu (q : Quat α) : Euler α :=
  let q_ad := q.a * q.a + q.d * q.d
  let q_bc := q.b * q.b + q.c * q.c
  let chi := sqrt (q_ad * q_bc)
  let twoPi : α := pi * lit 2
  if beq q_bc (lit 0) then
    ⟨fmod (atan2 (-(lit 2) * q.a * q.d) (q.a * q.a - q.d * q.d)) twoPi, lit 0, lit 0⟩
  else if beq q_ad (lit 0) then
    ⟨fmod (atan2 (lit 2 * q.b * q.c) (q.b * q.b - q.c * q.c)) twoPi, pi, lit 0⟩
  else
    ⟨fmod (atan2 ((q.b * q.d - q.a * q.c) / chi) ((-q.a * q.b - q.c * q.d) / chi)) twoPi,
     atan2 (lit 2 * chi) (q_ad - q_bc),
     fmod (atan2 ((q.a * q.c + q.b * q.d) / chi) ((q.c * q.d - q.a * q.b) / chi)) twoPi⟩

/-- axis–angle → quaternion -/
def ax2qu (x : AxAng α) : Quat α :=
  let c := cos (x.w / lit 2)
  let s := sin (x.w / lit 2)
  ⟨c, x.n.x * s, x.n.y * s, x.n.z * s⟩

/-- quaternion (scalar part ≥ 0) → axis–angle with `ω ∈ [0, π]`; identity ↦ `(ẑ, 0)` -/
def qu2ax (q : Quat α) : AxAng α :=
  let s := sqrt (q.b * q.b + q.c * q.c + q.d * q.d)
  if beq s (lit 0) then ⟨⟨lit 0, lit 0, lit 1⟩, lit 0⟩
  else ⟨⟨q.b / s, q.c / s, q.d / s⟩, lit 2 * acos q.a⟩

/-- axis–angle → Rodrigues–Frank: infinite exactly at `ω = π` -/
def ax2ro (x : AxAng α) : RoFrank α :=
  if beq x.w pi then ⟨x.n, .inf⟩ else ⟨x.n, .fin (tan (x.w / lit 2))⟩

/-- Rodrigues–Frank → axis–angle -/
def ro2ax (r : RoFrank α) : AxAng α :=
  match r.m with
  | .fin t => ⟨r.n, lit 2 * atan t⟩
  | .inf => ⟨r.n, pi⟩

/-- quaternion (scalar part ≥ 0) → homochoric vector `n̂ · (3(ω − sin ω)/4)^{1/3}` -/
def qu2ho (q : Quat α) : Vec3 α :=
  let omega := lit 2 * acos q.a
  let s := sqrt (q.b * q.b + q.c * q.c + q.d * q.d)
  if beq s (lit 0) then ⟨lit 0, lit 0, lit 0⟩
  else
    let k := cbrt (lit 3 * (omega - sin omega) / lit 4)
    ⟨q.b / s * k, q.c / s * k, q.d / s * k⟩

end ConvSpec
end Orix
