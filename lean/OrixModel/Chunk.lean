/-
Chunked (lazy) evaluation as algebra (C18): splitting operands into chunks of any size, evaluating block by block
and re-assembling gives the same list as evaluating whole.  Core Lean only.
-/
namespace Orix.Chunk

/-- split a list into consecutive chunks of size `n + 1` (structural recursion on a fuel = the length) -/
def chunksAux {α : Type} (n : Nat) : Nat → List α → List (List α)
  | 0, _ => []
  | fuel + 1, l => if l.isEmpty then [] else l.take (n + 1) :: chunksAux n fuel (l.drop (n + 1))

def chunks {α : Type} (n : Nat) (l : List α) : List (List α) := chunksAux n l.length l

/-- element-wise evaluation, whole -/
def mapWhole {α β : Type} (f : α → β) (A : List α) : List β := A.map f
/-- element-wise evaluation, chunk by chunk -/
def mapChunked {α β : Type} (n : Nat) (f : α → β) (A : List α) : List β := ((chunks n A).map (List.map f)).flatten

/-- outer product (row-major over `A × B`), whole -/
def outerWhole {α β γ : Type} (f : α → β → γ) (A : List α) (B : List β) : List γ := A.flatMap fun a => B.map (f a)
/-- outer product evaluated block by block (chunks of `A` × chunks of `B`) and re-assembled in row-major order -/
def outerChunked {α β γ : Type} (n m : Nat) (f : α → β → γ) (A : List α) (B : List β) : List γ :=
  (chunks n A).flatMap fun ca => ca.flatMap fun a => (chunks m B).flatMap fun cb => cb.map (f a)

/-- element-wise binary evaluation (`a * b`, `a.dot(b)` on equally chunked operands), whole -/
def zipWhole {α β γ : Type} (f : α → β → γ) (A : List α) (B : List β) : List γ := List.zipWith f A B
/-- element-wise binary evaluation block by block: the i-th chunk of `A` meets the i-th chunk of `B` -/
def zipChunked {α β γ : Type} (n : Nat) (f : α → β → γ) (A : List α) (B : List β) : List γ :=
  (List.zipWith (List.zipWith f) (chunks n A) (chunks n B)).flatten

/-- reduction along an axis (the max over symmetry-equivalent pairs in a lazy distance matrix), whole -/
def reduceWhole {α : Type} (op : α → α → α) (e : α) (A : List α) : α := A.foldl op e
/-- reduction block by block: reduce every chunk, then reduce the partial results -/
def reduceChunked {α : Type} (n : Nat) (op : α → α → α) (e : α) (A : List α) : α :=
  ((chunks n A).map fun c => c.foldl op e).foldl op e

end Orix.Chunk
