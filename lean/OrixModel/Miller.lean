import OrixModel.Lattice
/-
`orix.vector.miller` (C09): the six `_transform_space` cases, the 4-index helpers with their consistency
checks, and the `Miller` object (Cartesian data + coordinate format + phase) with the guards of
`dot` / `cross` / `angle_with`.  Everything the real code rejects is an explicit error value.
-/
namespace Orix
open Scalar

variable {α : Type} [Scalar α]

inductive Space where
  | d | r | c
deriving Repr, DecidableEq

inductive Fmt where
  | xyz | uvw | UVTW | hkl | hkil
deriving Repr, DecidableEq

inductive MillerErr where
  /-- `ValueError` (incompatible operands, 4-index convention violated, wrong number of coordinates) -/
  | value
  /-- `KeyError` (`cross` of vectors whose format is `xyz`) -/
  | key
  /-- `LatticeError` raised by diffpy while building the reciprocal lattice -/
  | lattice (e : LatErr)
deriving Repr, DecidableEq

structure Vec4 (α : Type) where
  x0 : α
  x1 : α
  x2 : α
  x3 : α
deriving Repr, BEq, DecidableEq

def Vec4.toList (q : Vec4 α) : List α := [q.x0, q.x1, q.x2, q.x3]

/-- `_transform_space(v, space_in, space_out, lattice)` -/
def transformSpace (v : Vec3 α) (sIn sOut : Space) (L : Lattice α) : Except MillerErr (Vec3 α) :=
  match sIn, sOut with
  | .d, .d => .ok v
  | .r, .r => .ok v
  | .c, .c => .ok v
  | .d, .c => .ok (Mat3.vecMul v L.base)                       -- xyz = uvw · A
  | .d, .r => .ok (Mat3.vecMul v L.metrics)                    -- hkl = uvw · g
  | .r, .c => .ok (Mat3.vecMul v (Mat3.transpose L.recbase))   -- xyz = hkl · (A⁻¹)ᵀ
  | .r, .d =>                                                  -- uvw = hkl · g⁻¹ (metrics of `reciprocal()`)
    match L.reciprocal with
    | .error e => .error (.lattice e)
    | .ok R => .ok (Mat3.vecMul v R.metrics)
  | .c, .d => .ok (Mat3.vecMul v L.recbase)                    -- uvw = xyz · A⁻¹
  | .c, .r => .ok (Mat3.vecMul v (Mat3.transpose L.base))      -- hkl = xyz · Aᵀ

/-! ### 4-index helpers -/
def hkl2hkil (v : Vec3 α) : Vec4 α := ⟨v.x, v.y, -(v.x + v.y), v.z⟩
def hkil2hkl (q : Vec4 α) : Vec3 α := ⟨q.x0, q.x1, q.x3⟩
def uvw2UVTW (v : Vec3 α) : Vec4 α :=
  ⟨(lit 2 * v.x - v.y) / lit 3, (lit 2 * v.y - v.x) / lit 3, -(v.x + v.y) / lit 3, v.z⟩
def UVTW2uvw (q : Vec4 α) : Vec3 α := ⟨lit 2 * q.x0 + q.x1, q.x0 + lit 2 * q.x1, q.x3⟩
/-- `_check_hkil` / `_check_UVTW`: `np.allclose(x0 + x1 + x2, 0, atol=1e-4)` -/
def check4 (q : Vec4 α) : Bool := le (abs (q.x0 + q.x1 + q.x2)) (dec 1 4)

/-! ### the `Miller` object -/

/-- a phase as far as `Miller` looks at it: lattice and an identifier of the point group -/
structure MillerPhase (α : Type) where
  lattice : Lattice α
  pointGroup : Nat

structure Miller (α : Type) where
  data : Vec3 α
  fmt : Fmt
  phase : MillerPhase α

namespace Miller

/-- `Miller(xyz=…)` -/
def ofXyz (v : Vec3 α) (p : MillerPhase α) : Miller α := ⟨v, .xyz, p⟩
/-- `Miller(uvw=…)` -/
def ofUvw (v : Vec3 α) (p : MillerPhase α) : Miller α := ⟨Mat3.vecMul v p.lattice.base, .uvw, p⟩
/-- `Miller(hkl=…)` -/
def ofHkl (v : Vec3 α) (p : MillerPhase α) : Miller α := ⟨Mat3.vecMul v (Mat3.transpose p.lattice.recbase), .hkl, p⟩
/-- `Miller(UVTW=…)`: rejected off the hyperplane `U + V + T = 0` -/
def ofUVTW (q : Vec4 α) (p : MillerPhase α) : Except MillerErr (Miller α) :=
  if check4 q then .ok ⟨Mat3.vecMul (UVTW2uvw q) p.lattice.base, .UVTW, p⟩ else .error .value
/-- `Miller(hkil=…)`: rejected off the hyperplane `h + k + i = 0` -/
def ofHkil (q : Vec4 α) (p : MillerPhase α) : Except MillerErr (Miller α) :=
  if check4 q then .ok ⟨Mat3.vecMul (hkil2hkl q) (Mat3.transpose p.lattice.recbase), .hkil, p⟩
  else .error .value

/-- constructor by format name and coordinate list (3 or 4 numbers) -/
def ofCoords (f : Fmt) (xs : List α) (p : MillerPhase α) : Except MillerErr (Miller α) :=
  match f, xs with
  | .xyz, [x, y, z] => .ok (ofXyz ⟨x, y, z⟩ p)
  | .uvw, [x, y, z] => .ok (ofUvw ⟨x, y, z⟩ p)
  | .hkl, [x, y, z] => .ok (ofHkl ⟨x, y, z⟩ p)
  | .UVTW, [a, b, c, d] => ofUVTW ⟨a, b, c, d⟩ p
  | .hkil, [a, b, c, d] => ofHkil ⟨a, b, c, d⟩ p
  | _, _ => .error .value

def hkl (m : Miller α) : Vec3 α := Mat3.vecMul m.data (Mat3.transpose m.phase.lattice.base)
def uvw (m : Miller α) : Vec3 α := Mat3.vecMul m.data m.phase.lattice.recbase
def hkil (m : Miller α) : Vec4 α := hkl2hkil m.hkl
def UVTW (m : Miller α) : Vec4 α := uvw2UVTW m.uvw

/-- `Miller.coordinates` in a given format -/
def coordsIn (m : Miller α) : Fmt → List α
  | .xyz => m.data.toList
  | .uvw => m.uvw.toList
  | .UVTW => m.UVTW.toList
  | .hkl => m.hkl.toList
  | .hkil => m.hkil.toList
def coordinates (m : Miller α) : List α := coordsIn m m.fmt

/-- setters (`m.hkl = …` etc.); the 4-index setters do *not* check the hyperplane (as the code) -/
def setHkl (m : Miller α) (v : Vec3 α) : Miller α :=
  { m with data := Mat3.vecMul v (Mat3.transpose m.phase.lattice.recbase) }
def setUvw (m : Miller α) (v : Vec3 α) : Miller α := { m with data := Mat3.vecMul v m.phase.lattice.base }
def setHkil (m : Miller α) (q : Vec4 α) : Miller α := setHkl m (hkil2hkl q)
def setUVTW (m : Miller α) (q : Vec4 α) : Miller α := setUvw m (UVTW2uvw q)

/-- `Miller.space` -/
def space (m : Miller α) : Space :=
  match m.fmt with
  | .xyz | .uvw | .UVTW => .d
  | .hkl | .hkil => .r

/-- `Miller.length` -/
def length (m : Miller α) : α :=
  match m.fmt with
  | .hkl | .hkil => m.phase.lattice.rnorm m.hkl
  | .uvw | .UVTW => m.phase.lattice.norm m.uvw
  | .xyz => Vec3.norm m.data

/-- `np.allclose(x, y)` on lists (`rtol=1e-5`, `atol=1e-8`) -/
def allclose : List α → List α → Bool
  | [], [] => true
  | x :: xs, y :: ys => le (abs (x - y)) (dec 1 8 + dec 1 5 * abs y) && allclose xs ys
  | _, _ => false

/-- `Miller._compatible_with` -/
def compatible (m n : Miller α) : Bool :=
  (m.phase.pointGroup == n.phase.pointGroup)
    && allclose m.phase.lattice.abcABG n.phase.lattice.abcABG
    && (m.space == n.space)

/-- `Miller.dot`: Cartesian dot product, operands must be compatible -/
def dot (m n : Miller α) : Except MillerErr α :=
  if compatible m n then .ok (Vec3.dot m.data n.data) else .error .value

/-- `Miller.cross`: Cartesian cross product reported in the dual space -/
def cross (m n : Miller α) : Except MillerErr (Miller α) :=
  if compatible m n then
    match m.fmt with
    | .hkl => .ok ⟨Vec3.cross m.data n.data, .uvw, m.phase⟩
    | .uvw => .ok ⟨Vec3.cross m.data n.data, .hkl, m.phase⟩
    | .hkil => .ok ⟨Vec3.cross m.data n.data, .UVTW, m.phase⟩
    | .UVTW => .ok ⟨Vec3.cross m.data n.data, .hkil, m.phase⟩
    | .xyz => .error .key
  else .error .value

/-- `Miller.angle_with(other, use_symmetry=False)`: `arccos(round(cos, 10))` -/
def angleWith (m n : Miller α) : Except MillerErr α :=
  if compatible m n then
    .ok (acos (roundDec 10 (Vec3.dot m.data n.data / Vec3.norm m.data / Vec3.norm n.data)))
  else .error .value

end Miller
end Orix
