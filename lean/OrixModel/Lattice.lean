import OrixModel.Quat
/-
Crystal lattices as orix / diffpy.structure see them (C09).

* `Lattice` mirrors the attributes of `diffpy.structure.Lattice` that orix reads: `base` (rows a, b, c in
  Cartesian coordinates), `recbase = inv(base)` (columns a*, b*, c*), `metrics` (computed by diffpy from cell
  lengths and cosines) and the constructor guards of `Lattice.set_new_latt_base_vec`.
* `alignExact` / `align` mirror `orix.crystal_map.phase_list._new_structure_matrix_from_alignment(old, x="a", z="c*")`,
  the 12-decimal rounding being the explicit last step `roundDec 12`.
* `Phase.setStructure` mirrors the `Phase.structure` setter (re-aligned base, atoms re-expressed from their old
  Cartesian coordinates).

`numpy.linalg.inv` is modelled by adjugate / determinant (contract: it returns the inverse matrix).
-/
namespace Orix
open Scalar

variable {α : Type} [Scalar α]

namespace Vec3
/-- `Object3d.unit`: `nan_to_num(data / norm)`; the zero vector stays zero -/
def unit (v : Vec3 α) : Vec3 α :=
  let n := norm v
  if beq n (lit 0) then ⟨lit 0, lit 0, lit 0⟩ else ⟨v.x / n, v.y / n, v.z / n⟩
def zero : Vec3 α := ⟨lit 0, lit 0, lit 0⟩
end Vec3

namespace Mat3
def ofRows (a b c : Vec3 α) : Mat3 α := ⟨a.x, a.y, a.z, b.x, b.y, b.z, c.x, c.y, c.z⟩
def row0 (m : Mat3 α) : Vec3 α := ⟨m.m00, m.m01, m.m02⟩
def row1 (m : Mat3 α) : Vec3 α := ⟨m.m10, m.m11, m.m12⟩
def row2 (m : Mat3 α) : Vec3 α := ⟨m.m20, m.m21, m.m22⟩
def col0 (m : Mat3 α) : Vec3 α := ⟨m.m00, m.m10, m.m20⟩
def col1 (m : Mat3 α) : Vec3 α := ⟨m.m01, m.m11, m.m21⟩
def col2 (m : Mat3 α) : Vec3 α := ⟨m.m02, m.m12, m.m22⟩
/-- row vector times matrix, `np.matmul(v, M)` -/
def vecMul (v : Vec3 α) (m : Mat3 α) : Vec3 α :=
  ⟨v.x * m.m00 + v.y * m.m10 + v.z * m.m20,
   v.x * m.m01 + v.y * m.m11 + v.z * m.m21,
   v.x * m.m02 + v.y * m.m12 + v.z * m.m22⟩
/-- adjugate (transposed cofactor matrix) -/
def adj (m : Mat3 α) : Mat3 α :=
  ⟨m.m11 * m.m22 - m.m12 * m.m21, m.m02 * m.m21 - m.m01 * m.m22, m.m01 * m.m12 - m.m02 * m.m11,
   m.m12 * m.m20 - m.m10 * m.m22, m.m00 * m.m22 - m.m02 * m.m20, m.m02 * m.m10 - m.m00 * m.m12,
   m.m10 * m.m21 - m.m11 * m.m20, m.m01 * m.m20 - m.m00 * m.m21, m.m00 * m.m11 - m.m01 * m.m10⟩
def map (f : α → α) (m : Mat3 α) : Mat3 α :=
  ⟨f m.m00, f m.m01, f m.m02, f m.m10, f m.m11, f m.m12, f m.m20, f m.m21, f m.m22⟩
/-- `numpy.linalg.inv` (contract: the inverse), as adjugate over determinant -/
def inv (m : Mat3 α) : Mat3 α :=
  let d := det m
  map (fun x => x / d) (adj m)
/-- Gram matrix of the rows, `M · Mᵀ` -/
def gram (m : Mat3 α) : Mat3 α := mul m (transpose m)
end Mat3

/-! ### rounding to decimals, `np.round(x, k)` = `rint(x · 10^k) / 10^k` -/

/-- `floor`, from the class's `fmod` (`np.mod(x, 1) = x - floor x`) -/
def floorS (x : α) : α := x - fmod x (lit 1)
/-- round half to even, `np.rint` -/
def rint (t : α) : α :=
  let f := floorS t
  let r := t - f
  let half : α := dec 5 1
  if lt r half then f
  else if lt half r then f + lit 1
  else if beq (fmod f (lit 2)) (lit 0) then f else f + lit 1
def pow10 (k : Nat) : α := npow (lit 10) k
def roundDec (k : Nat) (x : α) : α := rint (x * pow10 k) / pow10 k

/-! ### the lattice object -/

inductive LatErr where
  /-- `LatticeError("base vectors are degenerate")`: `|det base| < 1e-8` -/
  | degenerate
  /-- `LatticeError("base is not right-handed")` -/
  | leftHanded
deriving Repr, DecidableEq

/-- the attributes of `diffpy.structure.Lattice` orix uses -/
structure Lattice (α : Type) where
  base : Mat3 α
  recbase : Mat3 α
  metrics : Mat3 α
deriving Repr

namespace Lattice
/-- cell lengths and cosines exactly as `set_new_latt_base_vec` computes them -/
structure Cell (α : Type) where
  a : α
  b : α
  c : α
  ca : α
  cb : α
  cg : α

def cellOf (B : Mat3 α) : Cell α :=
  let a := sqrt (Vec3.dot B.row0 B.row0)
  let b := sqrt (Vec3.dot B.row1 B.row1)
  let c := sqrt (Vec3.dot B.row2 B.row2)
  ⟨a, b, c, Vec3.dot B.row1 B.row2 / (b * c), Vec3.dot B.row0 B.row2 / (a * c), Vec3.dot B.row0 B.row1 / (a * b)⟩

/-- the metric tensor as diffpy builds it from lengths and cosines -/
def metricsOf (B : Mat3 α) : Mat3 α :=
  let p := cellOf B
  ⟨p.a * p.a, p.a * p.b * p.cg, p.a * p.c * p.cb,
   p.b * p.a * p.cg, p.b * p.b, p.b * p.c * p.ca,
   p.c * p.a * p.cb, p.c * p.b * p.ca, p.c * p.c⟩

/-- `Lattice(base=B)` / `Lattice.setLatBase(B)` with its two guards -/
def ofBase (B : Mat3 α) : Except LatErr (Lattice α) :=
  let d := Mat3.det B
  if lt (abs d) (dec 1 8) then .error .degenerate
  else if lt d (lit 0) then .error .leftHanded
  else .ok ⟨B, Mat3.inv B, metricsOf B⟩

/-- the reciprocal base vectors a*, b*, c* as rows (`lattice.recbase.T`) -/
def recRows (L : Lattice α) : Mat3 α := Mat3.transpose L.recbase

/-- `Lattice.reciprocal()`: `Lattice(base=recbase.T)` (same guards: may fail) -/
def reciprocal (L : Lattice α) : Except LatErr (Lattice α) := ofBase (Mat3.transpose L.recbase)

/-- lattice parameters `abcABG()` (lengths, angles in degrees) -/
def abcABG (L : Lattice α) : List α :=
  let p := cellOf L.base
  let deg (x : α) : α := acos x * lit 180 / pi
  [p.a, p.b, p.c, deg p.ca, deg p.cb, deg p.cg]

/-- `Lattice.norm(uvw)`: length of a direct lattice vector -/
def norm (L : Lattice α) (uvw : Vec3 α) : α := Vec3.norm (Mat3.vecMul uvw L.base)
/-- `Lattice.rnorm(hkl)`: length of a reciprocal lattice vector, `hkl · recbaseᵀ` -/
def rnorm (L : Lattice α) (hkl : Vec3 α) : α := Vec3.norm (Mat3.vecMul hkl (Mat3.transpose L.recbase))
end Lattice

/-! ### `_new_structure_matrix_from_alignment(old, x = "a", z = "c*")` -/

/-- the new Cartesian frame `(x̂, ŷ, ẑ)`: `x̂ = â`, `ẑ = ĉ* = unit(â × b̂)`, `ŷ = ẑ × x̂` (rows) -/
def alignFrame (old : Mat3 α) : Mat3 α :=
  let ad := Vec3.unit old.row0
  let bd := Vec3.unit old.row1
  let cr := Vec3.unit (Vec3.cross ad bd)
  Mat3.ofRows ad (Vec3.cross cr ad) cr

/-- `new[i][j] = old_i · e_j` before rounding -/
def alignExact (old : Mat3 α) : Mat3 α := Mat3.mul old (Mat3.transpose (alignFrame old))

/-- the value the code returns: rounded to 12 decimals -/
def align (old : Mat3 α) : Mat3 α := Mat3.map (roundDec 12) (alignExact old)

/-! ### `Phase.structure` setter -/

/-- result of the setter: the new lattice and the atoms' new fractional coordinates -/
structure PhaseStructure (α : Type) where
  lattice : Lattice α
  frac : List (Vec3 α)

/-- `Phase.structure = value`: new base from the alignment, atoms keep their old Cartesian coordinates
(`old_xyz_cartn = value.xyz_cartn; setLatBase(new); value.xyz_cartn = old_xyz_cartn`) -/
def setStructure (L : Lattice α) (frac : List (Vec3 α)) : Except LatErr (PhaseStructure α) :=
  let cart := frac.map (fun f => Mat3.vecMul f L.base)
  match Lattice.ofBase (align L.base) with
  | .error e => .error e
  | .ok L' => .ok ⟨L', cart.map (fun x => Mat3.vecMul x L'.recbase)⟩

end Orix
