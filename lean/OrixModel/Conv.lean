import OrixModel.Scalar
import OrixModel.Quat
/-
Code-shaped model of `orix/quaternion/_conversions.py` (scalar kernels) and of the public wrappers
`Quaternion.to_*` / `from_*` of `orix/quaternion/quaternion.py`.

Every `eps` comparison and every branch of the code is mirrored (they are logic); rounding is not
modelled.  Written once against `Orix.Scalar`: run on `Float` by the driver, reasoned about on `ℝ`.
`qu2om_single` is `Quat.toMat` (OrixModel/Quat.lean).
The infinite Rodrigues–Frank magnitude is an explicit constructor (`RFMag.inf`), not a scalar value.
-/
namespace Orix
open Scalar

/-- Bunge Euler triplet `(φ1, Φ, φ2)` -/
structure Euler (α : Type) where
  phi1 : α
  Phi : α
  phi2 : α
deriving Repr, BEq, DecidableEq

/-- axis–angle pair `(n̂, ω)` -/
structure AxAng (α : Type) where
  n : Vec3 α
  w : α
deriving Repr, BEq, DecidableEq

/-- magnitude of a Rodrigues–Frank vector: `tan(ω/2)` or infinite -/
inductive RFMag (α : Type) where
  | fin (t : α)
  | inf
deriving Repr, BEq, DecidableEq

/-- Rodrigues–Frank four-vector `(n̂, tan(ω/2))` -/
structure RoFrank (α : Type) where
  n : Vec3 α
  m : RFMag α
deriving Repr, BEq, DecidableEq

namespace Euler
variable {α : Type}
def toList (e : Euler α) : List α := [e.phi1, e.Phi, e.phi2]
end Euler
namespace AxAng
variable {α : Type}
def toList (x : AxAng α) : List α := [x.n.x, x.n.y, x.n.z, x.w]
end AxAng

namespace Conv
variable {α : Type} [Scalar α]

/-- `constants.eps9` -/
def eps9 : α := dec 1 9
/-- the literal `1e-8` of `ax2qu_single`, `ax2ro_single`, `ro2ax_single`, and of the `|s - π|` test of `ho2ax_single` -/
def eps8 : α := dec 1 8
/-- the literal `1e-16` of `ho2ax_single` (squared tolerance for the squared homochoric length) -/
def eps16 : α := dec 1 16
/-- the literal `1e-3` cut-off of `ax2ro_single` -/
def eps3 : α := dec 1 3
/-- the literal `0.5` -/
def half : α := dec 5 1

/-- `qu2om_single` -/
def qu2om (q : Quat α) : Mat3 α := Quat.toMat q

/-- `om2qu_single` (as repaired by `fix: om2qu recovers the axis signs of two-fold rotations`) -/
def om2qu (om : Mat3 α) : Quat α :=
  let aA := lit 1 + om.m00 + om.m11 + om.m22
  let bA := lit 1 + om.m00 - om.m11 - om.m22
  let cA := lit 1 - om.m00 + om.m11 - om.m22
  let dA := lit 1 - om.m00 - om.m11 + om.m22
  let q0 := if lt aA eps9 then lit 0 else half * sqrt aA
  let q1 := if lt bA eps9 then lit 0
    else if lt om.m21 om.m12 then -half * sqrt bA else half * sqrt bA
  let q2 := if lt cA eps9 then lit 0
    else if lt om.m02 om.m20 then -half * sqrt cA else half * sqrt cA
  let q3 := if lt dA eps9 then lit 0
    else if lt om.m10 om.m01 then -half * sqrt dA else half * sqrt dA
  -- two-fold rotation: relative signs of b, c, d from the symmetric part
  let v : Vec3 α :=
    if lt aA eps9 then
      if !(beq q1 (lit 0)) then
        ⟨abs q1,
         if lt (om.m01 + om.m10) (lit 0) then -abs q2 else abs q2,
         if lt (om.m02 + om.m20) (lit 0) then -abs q3 else abs q3⟩
      else if !(beq q2 (lit 0)) then
        ⟨q1, abs q2, if lt (om.m12 + om.m21) (lit 0) then -abs q3 else abs q3⟩
      else ⟨q1, q2, q3⟩
    else ⟨q1, q2, q3⟩
  let n := sqrt (q0 * q0 + v.x * v.x + v.y * v.y + v.z * v.z)
  ⟨q0 / n, v.x / n, v.y / n, v.z / n⟩

/-- `eu2qu_single` before its final sign flip -/
def eu2quRaw (e : Euler α) : Quat α :=
  let sigma := half * (e.phi1 + e.phi2)
  let delta := half * (e.phi1 - e.phi2)
  let c := cos (e.Phi / lit 2)
  let s := sin (e.Phi / lit 2)
  ⟨c * cos sigma, -s * cos delta, -s * sin delta, -c * sin sigma⟩

/-- `eu2qu_single` -/
def eu2qu (e : Euler α) : Quat α :=
  let q := eu2quRaw e
  if lt q.a (lit 0) then Quat.neg q else q

/-- `eu[np.abs(eu) < eps9] = 0` -/
def zeroSmall (x : α) : α := if lt (abs x) eps9 then lit 0 else x

/-- `qu2eu_single`.  `bcSign` is the factor in the `Φ = π` gimbal branch: the code has `-2`
(`a = -2 * qu[1] * qu[2]`), the correct value is `+2`; see `ConvSpec.qu2eu`. -/
def qu2euWith (bcSign : α) (q : Quat α) : Euler α :=
  let q_ad := q.a * q.a + q.d * q.d
  let q_bc := q.b * q.b + q.c * q.c
  let chi := sqrt (q_ad * q_bc)
  let twoPi : α := pi * lit 2
  if lt chi eps9 then
    if lt q_bc eps9 then
      let a := -(lit 2) * q.a * q.d
      let b := q.a * q.a - q.d * q.d
      ⟨fmod (atan2 a b) twoPi, fmod (lit 0) twoPi, fmod (lit 0) twoPi⟩
    else
      let a := bcSign * q.b * q.c
      let b := q.b * q.b - q.c * q.c
      ⟨fmod (atan2 a b) twoPi, fmod pi twoPi, fmod (lit 0) twoPi⟩
  else
    let eu_0a := (q.b * q.d - q.a * q.c) / chi
    let eu_0b := (-q.a * q.b - q.c * q.d) / chi
    let eu_2a := (q.a * q.c + q.b * q.d) / chi
    let eu_2b := (q.c * q.d - q.a * q.b) / chi
    let e0 := atan2 eu_0a eu_0b
    let e1 := atan2 (lit 2 * chi) (q_ad - q_bc)
    let e2 := atan2 eu_2a eu_2b
    ⟨fmod (zeroSmall e0) twoPi, fmod (zeroSmall e1) twoPi, fmod (zeroSmall e2) twoPi⟩

/-- `qu2eu_single` as it is in the code -/
def qu2eu (q : Quat α) : Euler α := qu2euWith (-(lit 2)) q

/-- `ax2qu_single` -/
def ax2qu (x : AxAng α) : Quat α :=
  if lt (-eps8) x.w && lt x.w eps8 then ⟨lit 1, lit 0, lit 0, lit 0⟩
  else
    let c := cos (x.w * half)
    let s := sin (x.w * half)
    let q : Quat α := ⟨c, x.n.x * s, x.n.y * s, x.n.z * s⟩
    let n := sqrt (q.a * q.a + q.b * q.b + q.c * q.c + q.d * q.d)
    Quat.divS q n

/-- `qu2ax_single` -/
def qu2ax (q : Quat α) : AxAng α :=
  let omega := lit 2 * acos q.a
  if lt omega eps9 then ⟨⟨lit 0, lit 0, lit 1⟩, lit 0⟩
  else if lt (abs q.a) eps9 then ⟨⟨q.b, q.c, q.d⟩, pi⟩
  else
    let s := sqrt (q.b * q.b + q.c * q.c + q.d * q.d)
    let s' := if le q.a (lit 0) then -s else s
    ⟨⟨q.b / s', q.c / s', q.d / s'⟩, omega⟩

/-- `ax2ro_single`; `ro[3] = np.inf` is the constructor `RFMag.inf` -/
def ax2ro (x : AxAng α) : RoFrank α :=
  if lt (-eps8) x.w && lt x.w eps8 then ⟨⟨lit 0, lit 0, lit 1⟩, .fin (lit 0)⟩
  else if lt (abs (x.w - pi)) eps3 then ⟨x.n, .inf⟩
  else ⟨x.n, .fin (tan (x.w * half))⟩

/-- `ro2ax_single` -/
def ro2ax (r : RoFrank α) : AxAng α :=
  match r.m with
  | .fin t =>
    if lt (-eps8) t && lt t eps8 then ⟨⟨lit 0, lit 0, lit 1⟩, lit 0⟩
    else
      let nrm := sqrt (r.n.x * r.n.x + r.n.y * r.n.y + r.n.z * r.n.z)
      ⟨⟨r.n.x / nrm, r.n.y / nrm, r.n.z / nrm⟩, lit 2 * atan t⟩
  | .inf => ⟨r.n, pi⟩

/-- `qu2ho_single` -/
def qu2ho (q : Quat α) : Vec3 α :=
  let omega := lit 2 * acos q.a
  if lt omega eps9 then ⟨lit 0, lit 0, lit 0⟩
  else
    let s := sqrt (q.b * q.b + q.c * q.c + q.d * q.d)
    let f := lit 3 * (omega - sin omega) / lit 4
    let k := cbrt f
    ⟨q.b / s * k, q.c / s * k, q.d / s * k⟩

/-- fit parameters of `ho2ax_single` (21 terms) -/
def hoFit : List α := [
  dec 9999999999999968 16, -(dec 49999999999986866 17), -(dec 25000000000632055 18),
  -(dec 3928571496460683 18), -(dec 8164666077062752 19), -(dec 19411896443261646 20),
  -(dec 4985822229871769 20), -(dec 14164962366386031 21), -(dec 19000248160936107 22),
  -(dec 572184549898506 20), dec 7772149920658778 21, -(dec 1053483452909705 20),
  dec 9528014229335313 21, -(dec 5660288876265125 21), dec 12844901692764126 22,
  dec 11255185726258763 22, -(dec 13834391419956455 22), dec 7513691751164847 22,
  -(dec 2401996891720091 22), dec 4386887017466388 23, -(dec 35917775353564864 25)]

/-- `s = Σ fit[i] · hm^i` accumulated as the code's loop does (`hom = hom * ho_magnitude`) -/
def hoPoly (hm : α) : List α → α → α → α
  | [], _, s => s
  | c :: cs, hom, s => hoPoly hm cs (hom * hm) (s + c * hom)

/-- `ho2ax_single`: the homochoric inverse is a fitted polynomial in the code -/
def ho2ax (h : Vec3 α) : AxAng α :=
  let hm := h.x * h.x + h.y * h.y + h.z * h.z
  if lt (-eps16) hm && lt hm eps16 then ⟨⟨lit 0, lit 0, lit 1⟩, lit 0⟩
  else
    let s := match (hoFit : List α) with
      | c0 :: cs => hoPoly hm cs hm c0
      | [] => lit 0
    let r := sqrt hm
    let w := lit 2 * acos s
    ⟨⟨h.x / r, h.y / r, h.z / r⟩, if lt (abs (w - pi)) eps8 then pi else w⟩

/-! ### public wrappers (`orix/quaternion/quaternion.py`) -/

/-- `np.deg2rad` / `np.rad2deg` -/
def deg2rad (x : α) : α := x * (pi / lit 180)
def rad2deg (x : α) : α := x * (lit 180 / pi)

/-- the wrappers' `np.where(qu[..., :1] < 0, -qu, qu)` -/
def nonnegScalar (q : Quat α) : Quat α := if lt q.a (lit 0) then Quat.neg q else q

/-- `Quaternion.to_matrix` -/
def toMatrix (q : Quat α) : Mat3 α := qu2om (Quat.unit q)
/-- `Quaternion.from_matrix` -/
def fromMatrix (m : Mat3 α) : Quat α := om2qu m

/-- `Quaternion.to_euler(degrees)` -/
def toEuler (degrees : Bool) (q : Quat α) : Euler α :=
  let e := qu2eu (Quat.unit q)
  if degrees then ⟨rad2deg e.phi1, rad2deg e.Phi, rad2deg e.phi2⟩ else e

/-- `Quaternion.from_euler(euler, direction, degrees)`; `crystal2lab = true` is the direction
`"crystal2lab"` (alias `"mtex"`), `false` is the default `"lab2crystal"` -/
def fromEuler (crystal2lab degrees : Bool) (e : Euler α) : Quat α :=
  let e' : Euler α := if degrees then ⟨deg2rad e.phi1, deg2rad e.Phi, deg2rad e.phi2⟩ else e
  let q := eu2qu e'
  if crystal2lab then Quat.inv q else q

/-- `Quaternion.to_axes_angles` up to the final `axes * angles` scaling: canonical sign first -/
def toAxAng (q : Quat α) : AxAng α := qu2ax (nonnegScalar (Quat.unit q))
/-- `Quaternion.to_axes_angles`: the axis–angle vector `ω · n̂` -/
def toAxesAngles (q : Quat α) : Vec3 α := let x := toAxAng q; Vec3.smul x.w x.n

/-- `Vector3d.unit` -/
def vunit (v : Vec3 α) : Vec3 α := let n := Vec3.norm v; ⟨v.x / n, v.y / n, v.z / n⟩

/-- `Quaternion.from_axes_angles(axes, angles, degrees)`: axes normalised, result normalised -/
def fromAxesAngles (degrees : Bool) (axis : Vec3 α) (angle : α) : Quat α :=
  let w := if degrees then deg2rad angle else angle
  Quat.unit (ax2qu ⟨vunit axis, w⟩)

/-- `Quaternion.to_rodrigues(frank=True)` -/
def toRodriguesFrank (q : Quat α) : RoFrank α := ax2ro (toAxAng q)

/-- `Quaternion.from_rodrigues(ro, angles)` (Rodrigues–Frank input: axis and `tan(ω/2)`) -/
def fromRodriguesFrank (r : RoFrank α) : Quat α :=
  let x := ro2ax r
  fromAxesAngles false x.n x.w

/-- `Quaternion.axis` -/
def axisProp (q : Quat α) : Vec3 α :=
  let v : Vec3 α := if lt q.a (lit 0) then ⟨-q.b, -q.c, -q.d⟩ else ⟨q.b, q.c, q.d⟩
  let v : Vec3 α := if beq (Vec3.norm v) (lit 0) then
      (if lt (lit 0) q.a then ⟨lit 0, lit 0, lit 1⟩ else if lt q.a (lit 0) then ⟨lit 0, lit 0, -(lit 1)⟩
       else ⟨lit 0, lit 0, lit 0⟩)
    else v
  vunit v
/-- `Quaternion.angle` = `2·arccos|a|` -/
def angleProp (q : Quat α) : α := lit 2 * acos (abs q.a)

/-- `Quaternion.to_rodrigues(frank=False)` on a unit quaternion: `axis · tan(angle/2)` -/
def toRodrigues (q : Quat α) : Vec3 α :=
  let u := Quat.unit q
  Vec3.smul (tan (angleProp u / lit 2)) (axisProp u)

/-- `Quaternion.from_rodrigues(ro)` (plain Rodrigues vector: angle `2·arctan‖ρ‖`) -/
def fromRodrigues (ro : Vec3 α) : Quat α :=
  fromAxesAngles false ro (lit 2 * atan (Vec3.norm ro))

/-- `Quaternion.to_homochoric` -/
def toHomochoric (q : Quat α) : Vec3 α := qu2ho (Quat.unit q)
/-- `Quaternion.from_homochoric` -/
def fromHomochoric (h : Vec3 α) : Quat α :=
  let x := ho2ax h
  Quat.unit (ax2qu x)

end Conv
end Orix
