import OrixModel.Group
/-
Fundamental sectors in lattice coordinates (C07, C08, C20).

A sector is a list of integer covectors `h` (walls `h·x ≥ 0`): every sector wall of every point group is a
rational covector up to a positive factor in the conventional lattice basis, and the invariant pairing is
the integer metric tensor of that basis — so all certificates below are over small integers and are
checked by `decide +kernel`.  Executable and Mathlib-free; soundness in `OrixProofs/Lemmas/Dirichlet.lean`.
-/
namespace Orix.Grp

structure Z3 where
  x : Int
  y : Int
  z : Int
deriving DecidableEq, Repr

namespace Z3
def dot (h v : Z3) : Int := h.x * v.x + h.y * v.y + h.z * v.z
def add (u v : Z3) : Z3 := ⟨u.x + v.x, u.y + v.y, u.z + v.z⟩
def sub (u v : Z3) : Z3 := ⟨u.x - v.x, u.y - v.y, u.z - v.z⟩
def neg (u : Z3) : Z3 := ⟨-u.x, -u.y, -u.z⟩
def smul (k : Int) (u : Z3) : Z3 := ⟨k * u.x, k * u.y, k * u.z⟩
def zero : Z3 := ⟨0, 0, 0⟩
end Z3

/-- `M x` on lattice coordinates -/
def M3.act (m : M3) (v : Z3) : Z3 :=
  ⟨m.a * v.x + m.b * v.y + m.c * v.z, m.d * v.x + m.e * v.y + m.f * v.z, m.g * v.x + m.h * v.y + m.i * v.z⟩
/-- covector times matrix: `(h M)·x = h·(M x)` -/
def M3.cov (h : Z3) (m : M3) : Z3 :=
  ⟨h.x * m.a + h.y * m.d + h.z * m.g, h.x * m.b + h.y * m.e + h.z * m.h, h.x * m.c + h.y * m.f + h.z * m.i⟩
def M3.transpose (m : M3) : M3 := ⟨m.a, m.d, m.g, m.b, m.e, m.h, m.c, m.f, m.i⟩

/-- `Mᵀ G M = G`: `M` preserves the pairing `⟨x, y⟩ = xᵀ G y` -/
def preserves (G M : M3) : Bool := decide (M.transpose.mul (G.mul M) = G)
def symmetric (G : M3) : Bool := decide (G.transpose = G)

/-- Dirichlet wall of the operation `M` for the centre `c`: the covector `G (c − M c)`;
`⟨x, c⟩ − ⟨x, M c⟩ = wall · x`. -/
def cellWall (G M : M3) (c : Z3) : Z3 := G.act (c.sub (M.act c))

/-- `Σ kᵢ • vᵢ` for aligned lists -/
def lincomb : List Nat → List Z3 → Z3
  | k :: ks, v :: vs => (Z3.smul (Int.ofNat k) v).add (lincomb ks vs)
  | _, _ => Z3.zero

structure CellCert where
  centre : Z3
  /-- per operation of the (sub)group `H`, in order: `μ • wall = Σ λᵢ • Wᵢ` with `μ > 0`, some `λᵢ > 0` -/
  fwd : List (Nat × List Nat)
  /-- per cell wall of the sector, in order: `ν • Wᵢ = Σ κ_M • wall_M` with `ν > 0` -/
  bwd : List (Nat × List Nat)
deriving Repr

structure SectorRec where
  ops : List M3
  metric : M3
  walls : List Z3
  /-- two-stage sectors: a half-space `π·x ≥ 0` (one of the walls) which the subgroup `H = {M | π M = π}`
  preserves and all other operations reverse -/
  half : Option Z3
  cert : CellCert
deriving Repr

def SectorRec.sub (r : SectorRec) : List M3 :=
  match r.half with
  | none => r.ops
  | some p => r.ops.filter fun m => decide (M3.cov p m = p)

def SectorRec.cellWalls (r : SectorRec) : List Z3 :=
  match r.half with
  | none => r.walls
  | some p => r.walls.filter fun h => !decide (h = p)

def zip3 {α β : Type} (f : α → β → Bool) : List α → List β → Bool
  | [], [] => true
  | a :: as, b :: bs => f a b && zip3 f as bs
  | _, _ => false

def checkFwd (G : M3) (c : Z3) (W : List Z3) (m : M3) (cert : Nat × List Nat) : Bool :=
  decide (m = M3.one) ||
    (decide (0 < cert.1) && decide (cert.2.length = W.length) && cert.2.any (fun l => decide (0 < l)) &&
      decide (Z3.smul (Int.ofNat cert.1) (cellWall G m c) = lincomb cert.2 W))

def checkBwd (G : M3) (c : Z3) (H : List M3) (h : Z3) (cert : Nat × List Nat) : Bool :=
  decide (0 < cert.1) && decide (cert.2.length = H.length) &&
    decide (Z3.smul (Int.ofNat cert.1) h = lincomb cert.2 (H.map fun m => cellWall G m c))

/-- everything the soundness theorem needs, decided on integers -/
def checkSector (r : SectorRec) : Bool :=
  let L := r.ops
  let H := r.sub
  let W := r.cellWalls
  isGroup L && isGroup H && symmetric r.metric && L.all (preserves r.metric) &&
  (match r.half with
   | none => true
   | some p => mem' p r.walls && (L.all fun m => decide (M3.cov p m = p) || decide (M3.cov p m = p.neg)) &&
       (L.any fun m => decide (M3.cov p m = p.neg))) &&
  H.all (fun m => decide (m.act r.cert.centre = r.cert.centre → m = M3.one)) &&
  zip3 (checkFwd r.metric r.cert.centre W) H r.cert.fwd &&
  zip3 (checkBwd r.metric r.cert.centre H) W r.cert.bwd
where
  mem' (p : Z3) (l : List Z3) : Bool := l.any fun h => decide (h = p)

/-- Witness that a sector is NOT a fundamental domain: a lattice direction in general position
(trivial stabiliser) with two distinct equivalents strictly inside. -/
structure BadWitness where
  v : Z3
  g : M3
deriving Repr

def strictlyInside (walls : List Z3) (v : Z3) : Bool := walls.all fun h => decide (0 < h.dot v)

def checkBad (ops : List M3) (walls : List Z3) (w : BadWitness) : Bool :=
  mem w.g ops && !decide (w.g = M3.one) && strictlyInside walls w.v && strictlyInside walls (w.g.act w.v) &&
    ops.all (fun m => decide (m.act w.v = w.v → m = M3.one))

/-! ### the projection algorithm (`Vector3d.in_fundamental_sector`) over the integers / any ordered scalar
(see `OrixProofs/Lemmas/Dirichlet.lean` for the version over ℝ that the theorems are about) -/

/-- index of the first maximum -/
def argmaxIdx : List Int → Nat
  | [] => 0
  | x :: xs => go xs x 0 1
where
  go : List Int → Int → Nat → Nat → Nat
    | [], _, best, _ => best
    | y :: ys, cur, best, i => if cur < y then go ys y i (i + 1) else go ys cur best (i + 1)

end Orix.Grp
