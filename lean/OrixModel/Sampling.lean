import OrixModel.Stereo
/-
Deterministic S2 sampling grids (C19): `orix/sampling/S2_sampling.py`
(`_remove_pole_duplicates`, `_sample_S2_uv_mesh_coordinates`, `sample_S2_uv_mesh`,
`_sample_S2_equal_area_coordinates`, `sample_S2_equal_area_mesh`, `sample_S2_cube_mesh`,
`sample_S2_hexagonal_mesh`) and `orix/sampling/_polyhedral_sampling.py` (`_get_start_and_end_index`,
`_number_of_equidistant_steps`, `_sample_length_equidistant`, `_number_of_equiangular_steps`,
`_sample_length_equiangular`, `_edge_grid_normalized_cube`, `_edge_grid_spherified_edge_cube`,
`_edge_grid_spherified_corner_cube`).

Numbers are `Scalar`; numbers of grid lines are `Int`/`Nat`, obtained from a number only through
`HasCeil.ceilInt` (= `int(np.ceil(x))`).  Python exceptions are explicit `Err` results.
-/
namespace Orix.Sampling
open Orix Scalar

/-- `int(np.ceil(x))`; `none` when `x` is NaN or infinite (Python raises `ValueError`/`OverflowError`) or when the
count would not fit a 63-bit integer (numpy cannot allocate such a grid) -/
class HasCeil (α : Type) where
  ceilInt : α → Option Int

instance : HasCeil Float where
  ceilInt x :=
    if x.isNaN || x.isInf then none
    else
      let c := Float.ceil x
      if Float.abs c < 4.0e18 then some c.toInt64.toInt else none

inductive Err where
  /-- `ZeroDivisionError` (Python `float / int` with a zero count) -/
  | zeroDivision
  /-- `int()` of NaN / infinity, or a count that cannot be allocated -/
  | nonFinite
  /-- `np.linspace` with a negative number of samples (`ValueError`) -/
  | negativeCount
  /-- offset outside `[0, 1)` (`ValueError`) -/
  | offset
  /-- unknown hemisphere / grid type (`ValueError`) -/
  | value
deriving Repr, DecidableEq

def Err.tag : Err → String
  | .zeroDivision => "zerodiv"
  | .nonFinite => "nonfinite"
  | .negativeCount => "negcount"
  | .offset => "offset"
  | .value => "value"

variable {α : Type} [Scalar α]

/-- exact embedding of a Python `int` -/
def ofInt : Int → α
  | .ofNat n => lit n
  | .negSucc n => -(lit (n + 1))

/-- `range(a, b)` / `np.arange(a, b)` on integers (empty when `b ≤ a`) -/
def intRange (a b : Int) : List Int := (List.range (b - a).toNat).map (fun (k : Nat) => a + Int.ofNat k)

/-! ### `np.linspace` -/

/-- the divisor `div` of `np.linspace` -/
def linspaceDiv (num : Nat) (endpoint : Bool) : Nat := if endpoint then num - 1 else num

/-- the element with index `i` of `np.linspace(start, stop, num, endpoint)`:
`y = arange(0, num) * step + start` with `step = (stop - start) / div` (for a zero step numpy computes
`arange / div * delta`; for `div = 0` it computes `arange * delta`), and `y[-1] = stop` when `endpoint and num > 1` -/
def linspaceAt (start stop : α) (num : Nat) (endpoint : Bool) (i : Nat) : α :=
  let div := linspaceDiv num endpoint
  let delta := stop - start
  if endpoint && decide (1 < num) && decide (i + 1 = num) then stop
  else if div = 0 then lit i * delta + start
  else
    let step := delta / lit div
    if beq step (lit 0) then lit i / lit div * delta + start
    else lit i * step + start

/-- `np.linspace(start, stop, num, endpoint)` for `num ≥ 0` (a negative `num` is a `ValueError` at the caller) -/
def linspace (start stop : α) (num : Nat) (endpoint : Bool) : List α :=
  (List.range num).map (linspaceAt start stop num endpoint)

/-! ### UV mesh -/

inductive Hemisphere where
  | upper | lower | both
deriving Repr, DecidableEq

def Hemisphere.parse : String → Option Hemisphere
  | "upper" => some .upper | "lower" => some .lower | "both" => some .both | _ => none

/-- `(polar_min, polar_max)` in degrees -/
def Hemisphere.polarDeg : Hemisphere → Nat × Nat
  | .both => (0, 180)
  | .upper => (0, 90)
  | .lower => (90, 180)

/-- `np.deg2rad` -/
def deg2rad (x : α) : α := x * (pi / lit 180)

structure UVCoords (α : Type) where
  /-- `steps_azimuth` -/
  stepsAzimuth : Nat
  /-- `steps_polar` (before the `polar <= polar_max` filter) -/
  stepsPolar : Nat
  stepAzimuth : α
  stepPolar : α
  azimuth : List α
  polar : List α

variable [HasCeil α]

/-- `_sample_S2_uv_mesh_coordinates(resolution, hemisphere, offset, azimuth_endpoint)` -/
def uvCoordinates (resolution : α) (hemi : Hemisphere) (offset : α) (azimuthEndpoint : Bool) :
    Except Err (UVCoords α) :=
  if !(le (lit 0) offset && lt offset (lit 1)) then .error .offset
  else
    let pmin := hemi.polarDeg.1
    let pmax := hemi.polarDeg.2
    let range := pmax - pmin
    -- `360 / resolution` on Python floats
    if beq resolution (lit 0) then .error .zeroDivision
    else match HasCeil.ceilInt (lit 360 / resolution), HasCeil.ceilInt (lit range / resolution) with
      | none, _ => .error .nonFinite
      | _, none => .error .nonFinite
      | some ca, some cp =>
        let stepsAzimuth : Int := ca
        let stepsPolar : Int := cp + 1
        -- `(2 * np.pi) / steps_azimuth` on a Python float and a Python int
        if stepsAzimuth = 0 then .error .zeroDivision
        else
          let stepAz : α := (lit 2 * pi) / ofInt stepsAzimuth
          -- numpy division: a zero divisor gives inf/nan, no exception
          let stepPol : α := deg2rad (lit range) / ofInt (stepsPolar - 1)
          if stepsAzimuth < 0 then .error .negativeCount
          else if stepsPolar < 0 then .error .negativeCount
          else
            let azimuth := linspace (offset * stepAz) (lit 2 * pi + offset * stepAz) stepsAzimuth.toNat azimuthEndpoint
            let polarMin : α := deg2rad (lit pmin)
            let polarMax : α := deg2rad (lit pmax)
            let polar := linspace (polarMin + offset * stepPol) (polarMax + offset * stepPol) stepsPolar.toNat true
            .ok { stepsAzimuth := stepsAzimuth.toNat, stepsPolar := stepsPolar.toNat, stepAzimuth := stepAz,
                  stepPolar := stepPol, azimuth := azimuth, polar := polar.filter (fun p => le p polarMax) }

omit [HasCeil α] in
/-- `np.isclose(a, b)` with the default `rtol = 1e-5`, `atol = 1e-8` (finite arguments) -/
def isclose (a b : α) : Bool := le (abs (a - b)) (dec 1 8 + dec 1 5 * abs b)

/-- the mask of `_remove_pole_duplicates`: a grid node is REMOVED when its azimuth is positive and its polar
angle is close to 0 or to π -/
def poleDuplicate (ap : α × α) : Bool := lt (lit 0) ap.1 && (isclose ap.2 (lit 0) || isclose ap.2 pi)

/-- `_remove_pole_duplicates` on the flattened (azimuth, polar) grid -/
def removePoleDuplicates (g : List (α × α)) : List (α × α) := g.filter (fun ap => !poleDuplicate ap)

/-- `np.meshgrid(azimuth, polar)` flattened in C order: rows run over `polar`, columns over `azimuth` -/
def meshAP (azimuth polar : List α) : List (α × α) :=
  polar.flatMap (fun p => azimuth.map (fun a => (a, p)))

/-- `Vector3d.from_polar(azimuth, polar).unit` for one node -/
def nodeVector (ap : α × α) : Vec3 α := Vec3.unit (Stereo.fromPolar false ap.1 ap.2 (lit 1))

/-- the (azimuth, polar) nodes of `sample_S2_uv_mesh(resolution, hemisphere, offset, remove_pole_duplicates)` -/
def uvMeshNodes (resolution : α) (hemi : Hemisphere) (offset : α) (removeDup : Bool) :
    Except Err (List (α × α)) :=
  match uvCoordinates resolution hemi offset false with
  | .error e => .error e
  | .ok c =>
    let g := meshAP c.azimuth c.polar
    .ok (if removeDup then removePoleDuplicates g else g)

/-- `sample_S2_uv_mesh` -/
def uvMesh (resolution : α) (hemi : Hemisphere) (offset : α) (removeDup : Bool) : Except Err (List (Vec3 α)) :=
  match uvMeshNodes resolution hemi offset removeDup with
  | .error e => .error e
  | .ok g => .ok (g.map nodeVector)

/-! ### equal-area mesh (full azimuth range, hemisphere given; the `azimuth_range`/`polar_range` arguments are not
modelled) -/

/-- `(polar_min, polar_max)` in units of cos θ -/
def Hemisphere.polarCos : Hemisphere → Int × Int
  | .both => (1, -1)
  | .upper => (1, 0)
  | .lower => (0, -1)

structure EACoords (α : Type) where
  steps : Int
  azimuth : List α
  polar : List α

/-- `_sample_S2_equal_area_coordinates(resolution, hemisphere, azimuth_endpoint)` -/
def eaCoordinates (resolution : α) (hemi : Hemisphere) (azimuthEndpoint : Bool) : Except Err (EACoords α) :=
  if beq resolution (lit 0) then .error .zeroDivision
  else match HasCeil.ceilInt (lit 90 / resolution) with
    | none => .error .nonFinite
    | some steps =>
      let azMin : α := lit 0
      let azMax : α := lit 2 * pi
      match HasCeil.ceilInt ((azMax - azMin) / (pi / lit 2) * ofInt steps) with
      | none => .error .nonFinite
      | some azNum0 =>
        let pc := hemi.polarCos
        -- `polar_range * steps` is an integer product; `int(np.ceil(..))` of it is itself
        let polarNum : Int := (pc.1 - pc.2) * steps + 1
        let azNum : Int := if azimuthEndpoint then azNum0 + 1 else azNum0
        if azNum < 0 then .error .negativeCount
        else if polarNum < 0 then .error .negativeCount
        else
          let azimuth := linspace azMin azMax azNum.toNat azimuthEndpoint
          let polar := (linspace (ofInt pc.1 : α) (ofInt pc.2) polarNum.toNat true).map acos
          .ok { steps := steps, azimuth := azimuth, polar := polar }

/-- the nodes of `sample_S2_equal_area_mesh(resolution, hemisphere, remove_pole_duplicates)` -/
def eaMeshNodes (resolution : α) (hemi : Hemisphere) (removeDup : Bool) : Except Err (List (α × α)) :=
  match eaCoordinates resolution hemi false with
  | .error e => .error e
  | .ok c =>
    let g := meshAP c.azimuth c.polar
    .ok (if removeDup then removePoleDuplicates g else g)

def eaMesh (resolution : α) (hemi : Hemisphere) (removeDup : Bool) : Except Err (List (Vec3 α)) :=
  match eaMeshNodes resolution hemi removeDup with
  | .error e => .error e
  | .ok g => .ok (g.map nodeVector)

/-! ### polyhedral edge grids -/

omit [Scalar α] [HasCeil α] in
/-- `_get_start_and_end_index` -/
def startEndIndex (n : Int) (includeStart includeEnd positiveAndNegative : Bool) : Int × Int :=
  let start0 : Int := if positiveAndNegative then -n else 0
  let start := if includeStart then start0 else start0 + 1
  let stop := if includeEnd then n + 1 else n
  (start, stop)

/-- `_number_of_equidistant_steps(resolution, length)` -/
def numberOfEquidistantSteps (resolution length : α) : Option Int :=
  HasCeil.ceilInt (length / tan (deg2rad resolution))

omit [HasCeil α] in
/-- `_sample_length_equidistant`; `length / number_of_steps` divides a Python float by a Python int -/
def sampleLengthEquidistant (n : Int) (length : α) (includeStart : Bool := true) (includeEnd : Bool := false)
    (positiveAndNegative : Bool := true) : Except Err (List α) :=
  let se := startEndIndex n includeStart includeEnd positiveAndNegative
  if n = 0 then .error .zeroDivision
  else
    let spacing := length / ofInt n
    .ok ((intRange se.1 se.2).map (fun i => ofInt i * spacing))

/-- `_number_of_equiangular_steps(resolution, length)` -/
def numberOfEquiangularSteps (resolution length : α) : Option Int :=
  HasCeil.ceilInt (atan length / deg2rad resolution)

omit [HasCeil α] in
/-- `_sample_length_equiangular` (numpy division: a zero count gives inf and an empty grid, no exception) -/
def sampleLengthEquiangular (n : Int) (length : α) (includeStart : Bool := true) (includeEnd : Bool := false)
    (positiveAndNegative : Bool := true) : List α :=
  let se := startEndIndex n includeStart includeEnd positiveAndNegative
  let increment := atan length / ofInt n
  (intRange se.1 se.2).map (fun i => tan (ofInt i * increment))

inductive GridType where
  | normalized | spherifiedEdge | spherifiedCorner
deriving Repr, DecidableEq

def GridType.parse : String → Option GridType
  | "normalized" => some .normalized
  | "spherified_edge" => some .spherifiedEdge
  | "spherified_corner" => some .spherifiedCorner
  | _ => none

/-- `_edge_grid_normalized_cube`, `_edge_grid_spherified_edge_cube`, `_edge_grid_spherified_corner_cube`:
(number of steps, grid on the edge) -/
def edgeGrid (t : GridType) (resolution : α) : Except Err (Int × List α) :=
  match t with
  | .normalized =>
    match numberOfEquidistantSteps resolution (lit 1) with
    | none => .error .nonFinite
    | some n => match sampleLengthEquidistant n (lit 1 : α) with
      | .error e => .error e
      | .ok g => .ok (n, g)
  | .spherifiedEdge =>
    match numberOfEquiangularSteps resolution (lit 1) with
    | none => .error .nonFinite
    | some n => .ok (n, sampleLengthEquiangular n (lit 1 : α))
  | .spherifiedCorner =>
    let c : α := sqrt (lit 2)
    match numberOfEquiangularSteps resolution c with
    | none => .error .nonFinite
    | some n => .ok (n, (sampleLengthEquiangular n c).map (fun x => x / c))

omit [HasCeil α] in
/-- `np.meshgrid(g, g)` ravelled: `x` runs fastest -/
def meshXY (g : List α) : List (α × α) := g.flatMap (fun y => g.map (fun x => (x, y)))

omit [HasCeil α] in
/-- the points on the cube (before normalisation) of `sample_S2_cube_mesh`: six faces from the same edge grid,
then the two corners the faces miss -/
def cubePoints (g : List α) : List (Vec3 α) :=
  let xy := meshXY g
  let one : α := lit 1
  xy.map (fun p => (⟨-p.1, -p.2, -one⟩ : Vec3 α))      -- bottom
  ++ xy.map (fun p => ⟨p.1, p.2, one⟩)                 -- top
  ++ xy.map (fun p => ⟨one, p.1, -p.2⟩)                -- east
  ++ xy.map (fun p => ⟨-one, -p.1, p.2⟩)               -- west
  ++ xy.map (fun p => ⟨p.1, -one, p.2⟩)                -- south
  ++ xy.map (fun p => ⟨-p.1, one, -p.2⟩)               -- north
  ++ [⟨-one, one, one⟩, ⟨one, -one, -one⟩]

structure CubeMesh (α : Type) where
  steps : Int
  edge : List α
  vectors : List (Vec3 α)

/-- `sample_S2_cube_mesh(resolution, grid_type)` -/
def cubeMesh (resolution : α) (t : GridType) : Except Err (CubeMesh α) :=
  match edgeGrid t resolution with
  | .error e => .error e
  | .ok (n, g) => .ok { steps := n, edge := g, vectors := (cubePoints g).map Vec3.unit }

/-! ### hexagonal bipyramid mesh -/

structure HexMesh (α : Type) where
  steps : Int
  vectors : List (Vec3 α)

omit [HasCeil α] in
/-- rotation about z by the angle `r` applied to a point (`np.dot(rotation(r), points)`) -/
def rotZ (r : α) (p : Vec3 α) : Vec3 α :=
  ⟨cos r * p.x + (-(sin r)) * p.y + lit 0 * p.z, sin r * p.x + cos r * p.y + lit 0 * p.z,
   lit 0 * p.x + lit 0 * p.y + lit 1 * p.z⟩

omit [HasCeil α] in
/-- the points of one top face of the hexagonal bipyramid for the grid `grid1D` on `[0, 1]` -/
def hexFace (grid1D : List α) : List (Vec3 α) :=
  let h : α := lit 2 / sqrt (lit 3)                       -- hexagon_edge_length
  let uv := grid1D.flatMap (fun v => (grid1D.drop 1).map (fun u => (u, v)))
  let pts := uv.map (fun p =>
    let x := h * p.1 + h / lit 2 * p.2
    let y := lit 0 * p.1 + lit 1 * p.2
    let z := -(lit 1) / h * x - lit 1 / lit 2 * y + lit 1
    (⟨x, y, z⟩ : Vec3 α))
  pts.filter (fun p => lt (-(dec 1 7)) p.z)

omit [HasCeil α] in
/-- all points of the bipyramid before normalisation: the six rotated top faces, the north pole, the mirrored bottom
faces without the rim, the south pole -/
def hexPoints (grid1D : List α) : List (Vec3 α) :=
  let face := hexFace grid1D
  let angle : α := deg2rad (lit 60)
  let top := (List.range 6).flatMap (fun i => face.map (rotZ (lit i * angle)))
  let bottom := (top.map (fun p => (⟨p.x, p.y, p.z * -(lit 1)⟩ : Vec3 α))).filter
    (fun p => lt p.z (-(dec 1 7)))
  top ++ [⟨lit 0, lit 0, lit 1⟩] ++ bottom ++ [⟨lit 0, lit 0, -(lit 1)⟩]

omit [Scalar α] [HasCeil α] in
/-- an even number of steps is required to get a point in the middle of the hexagon edge (Python `%`: the result has
the sign of the divisor, as `Int.emod` for a positive divisor) -/
def evenSteps (n0 : Int) : Int := if n0 % 2 = 1 then n0 + 1 else n0

/-- `sample_S2_hexagonal_mesh(resolution)` -/
def hexMesh (resolution : α) : Except Err (HexMesh α) :=
  match HasCeil.ceilInt (lit 2 / tan (deg2rad resolution)) with
  | none => .error .nonFinite
  | some n0 =>
    match sampleLengthEquidistant (evenSteps n0) (lit 1 : α) true true false with
    | .error e => .error e
    | .ok grid1D => .ok { steps := evenSteps n0, vectors := (hexPoints grid1D).map Vec3.unit }

end Orix.Sampling
