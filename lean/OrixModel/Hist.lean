import OrixModel.Stereo
/-
Skeleton of `orix.measure.pole_density_function` (C20):

  vectors ──(optional projection into the fundamental sector)──▶ (azimuth, polar) ──▶ weighted 2-d histogram on
  an edge grid (`np.histogram2d`) ──▶ smoothing (`scipy.ndimage.gaussian_filter`, mode ("wrap", "reflect"))
  ──▶ (optional re-binning of the folded bin centres, `np.digitize` + `np.add.at`) ──▶ mask ──▶ division by
  the mean over the valid bins (MRD).

`np.histogram2d` and `gaussian_filter` are third-party: they are modelled by their contracts
(`binIndex`: half-open bins, last bin closed, out-of-range samples dropped; `corr1`: correlation with a finite
kernel under an index-extension rule).  The smoothing operator is a *parameter* of `pdf`.
-/
namespace Orix.Hist
open Orix Scalar

variable {α : Type} [Scalar α]

def sumL (l : List α) : α := l.foldr (· + ·) (lit 0)

/-! ### binning -/

/-- index of the bin of `x` among the edges *after* a lower edge already known to be `≤ x`:
bins are `[eᵢ, eᵢ₊₁)`, the last one is closed -/
def binFrom : List α → α → Option Nat
  | [], _ => none
  | [hi], x => if le x hi then some 0 else none
  | hi :: t, x => if lt x hi then some 0 else (binFrom t x).map (· + 1)

/-- `np.histogram` bin index for monotone edges; `none` = outside the range (sample dropped) -/
def binIndex : List α → α → Option Nat
  | [], _ => none
  | lo :: t, x => if lt x lo then none else binFrom t x

/-- flat (row-major) bin index of `np.histogram2d(az, pol, bins=(ea, ep))` -/
def bin2 (ea ep : List α) (az pol : α) : Option Nat :=
  match binIndex ea az, binIndex ep pol with
  | some i, some j => some (i * (ep.length - 1) + j)
  | _, _ => none

def addAt (i : Nat) (w : α) : List α → List α
  | [] => []
  | b :: bs => match i with
    | 0 => (b + w) :: bs
    | i + 1 => b :: addAt i w bs

/-- one step of the accumulation: the sample's weight goes to its bin; samples without a bin are dropped -/
def accStep {β : Type} (idx : β → Option Nat) (wt : β → α) (acc : List α) (p : β) : List α :=
  match idx p with
  | some i => addAt i (wt p) acc
  | none => acc

/-- weighted accumulation into `n` bins -/
def accumulate {β : Type} (n : Nat) (idx : β → Option Nat) (wt : β → α) (pts : List β) : List α :=
  pts.foldl (accStep idx wt) (List.replicate n (lit 0))

/-- total weight of the samples that have a bin -/
def inRangeWeight {β : Type} (idx : β → Option Nat) (wt : β → α) (pts : List β) : α :=
  pts.foldr (fun p s => match idx p with
    | some _ => wt p + s
    | none => s) (lit 0)

/-- the 2-d histogram of (azimuth, polar, weight) samples, flat row-major -/
def hist2 (ea ep : List α) (pts : List (α × α × α)) : List α :=
  accumulate ((ea.length - 1) * (ep.length - 1)) (fun p => bin2 ea ep p.1 p.2.1) (fun p => p.2.2) pts

/-- `np.digitize(c, inner_edges)` + `np.add.at(temp, idx, hist)`: every source bin `k` is added to the target
bin `tgt k` (always a valid index after `digitize` on the inner edges) -/
def rebin (n : Nat) (tgt : Nat → Nat) (h : List α) : List α :=
  accumulate n (fun (p : Nat × α) => if tgt p.1 < n then some (tgt p.1) else none) (fun p => p.2)
    (List.zip (List.range h.length) h)

/-! ### smoothing: correlation with a finite kernel under an index extension -/

def sumTo (n : Nat) (g : Nat → α) : α :=
  match n with
  | 0 => lit 0
  | k + 1 => sumTo k g + g k

/-- mode "wrap": `… c d | a b c d | a b …` -/
def wrapIdx (n : Nat) (j : Int) : Nat := (j % (n : Int)).toNat
/-- mode "reflect": `… b a | a b c d | d c …` (half-sample symmetric) -/
def reflectIdx (n : Nat) (j : Int) : Nat :=
  let m := (j % (2 * (n : Int))).toNat
  if m < n then m else 2 * n - 1 - m

/-- `scipy.ndimage.correlate1d(f, w, mode)`: kernel weights `w 0 … w (2r)`, origin at the centre -/
def corr1 (ext : Nat → Int → Nat) (n r : Nat) (w : Nat → α) (f : Nat → α) : Nat → α :=
  fun i => sumTo (2 * r + 1) (fun k => w k * f (ext n ((i : Int) + (k : Int) - (r : Int))))

/-- `gaussian_filter(h, σ, mode=("wrap", "reflect"))` on an `na × np` array: axis 0 wraps, axis 1 reflects -/
def smooth2 (na np r0 r1 : Nat) (w0 w1 : Nat → α) (h : Nat → Nat → α) : Nat → Nat → α :=
  let h1 : Nat → Nat → α := fun i j => corr1 wrapIdx na r0 w0 (fun i' => h i' j) i
  fun i j => corr1 reflectIdx np r1 w1 (fun j' => h1 i j') j

/-! ### MRD normalisation over the valid (unmasked) bins -/

/-- sum over the bins whose mask entry is `false` (numpy convention: `True` = masked out) -/
def validSum : List α → List Bool → α
  | h :: hs, m :: ms => if m then validSum hs ms else h + validSum hs ms
  | _, _ => lit 0
def validCount : List α → List Bool → Nat
  | _ :: hs, m :: ms => if m then validCount hs ms else validCount hs ms + 1
  | _, _ => 0

/-- `hist.mean()` of the masked array -/
def maskedMean (h : List α) (mask : List Bool) : α := validSum h mask / lit (validCount h mask)

/-- `hist / hist.mean()`; `none` when there is no valid bin or the mean is zero (numpy yields an
all-masked/NaN array there) -/
def mrd (h : List α) (mask : List Bool) : Option (List α) :=
  if validCount h mask == 0 then none
  else
    let m := maskedMean h mask
    if beq m (lit 0) then none else some (h.map (· / m))

/-! ### the pipeline -/

/-- the histogram before normalisation (`mrd=False`): projection, spherical coordinates, binning, `post` -/
def pdfRaw (proj : Vec3 α → Vec3 α) (ea ep : List α) (post : List α → List α) (pts : List (Vec3 α × α)) : List α :=
  let sph := pts.map (fun p => let u := proj p.1; (Stereo.azimuth u, Stereo.polar u, p.2))
  post (hist2 ea ep sph)

/-- `pole_density_function(v, weights, symmetry)` with the projection into the fundamental sector `proj`
(identity when no symmetry is given), the smoothing/re-binning stage `post` and the validity mask as
parameters -/
def pdf (proj : Vec3 α → Vec3 α) (ea ep : List α) (post : List α → List α) (mask : List Bool)
    (pts : List (Vec3 α × α)) : Option (List α) :=
  mrd (pdfRaw proj ea ep post pts) mask

end Orix.Hist
