import OrixModel.Sector
/-
Miller symmetry operations on lattice coordinates (C10): `symmetrise`, multiplicities with the index array,
and the one-per-orbit `unique(use_symmetry=True)`.  Generic in the vector type and the action so that the same
definitions run on integer indices in the driver and are reasoned about for any action.
-/
namespace Orix.Orb
open Orix.Grp

variable {X : Type} [DecidableEq X]

/-- first-occurrence de-duplication -/
def dedupFirst : List X → List X
  | [] => []
  | x :: xs => x :: (dedupFirst xs).filter fun y => !decide (y = x)

/-- `symmetrise(unique=False)`: all images of one vector -/
def images (act : M3 → X → X) (L : List M3) (v : X) : List X := L.map fun g => act g v

/-- `symmetrise(unique=True, return_multiplicity=True, return_index=True)`: distinct images grouped in input order,
multiplicity per input vector, and the index of the input vector for every returned vector -/
def symmetriseUnique (act : M3 → X → X) (L : List M3) (vs : List X) : List X × List Nat × List Nat :=
  let groups := vs.map fun v => dedupFirst (images act L v)
  (groups.flatten, groups.map List.length, (groups.zipIdx.map fun p => List.replicate p.1.length p.2).flatten)

def sameOrbit (act : M3 → X → X) (L : List M3) (v w : X) : Bool := L.any fun g => decide (act g w = v)

/-- `unique(use_symmetry=True)`: keep one vector per orbit (the first met) -/
def uniqueSym (act : M3 → X → X) (L : List M3) : List X → List X
  | [] => []
  | v :: vs => v :: (uniqueSym act L vs).filter fun w => !sameOrbit act L w v

end Orix.Orb
