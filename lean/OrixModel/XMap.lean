import OrixModel.PhaseList
/-
Crystal map (`orix/crystal_map/crystal_map.py`, class `CrystalMap`) as the code represents it.

* The *original grid* has `ny` rows and `nx` columns (`ny, nx ≥ 1`); original point `p < ny*nx` sits in
  row `p / nx`, column `p % nx` (all per-point arrays are flattened in this order).  An axis *exists*
  for the code only if it has more than one coordinate value: `(1, n)`, `(n, 1)` and 1-D inputs are all
  1-D maps, `(1, 1)` is a 0-dimensional map (`_original_shape == ()`).
* Full-size arrays (`_id`, `_phase_id`, `_x`, `_y`, `_prop[...]`, `_rotations`) are functions of the
  original point id; rotations are represented by the original point id itself.
* A map and all its selections differ only by `is_in_data`, a boolean mask over the original points.

`getItem` mirrors `CrystalMap.__getitem__` branch by branch (slice/int/tuple keys via the bounding box
of the current data and `&=` into the old mask; boolean arrays and phase names via scatter into a fresh
mask through `self.id`).  Errors are explicit (`Except XErr`).

Core Lean only; everything is executable.
-/
namespace Orix.XMap
open Orix

abbrev Mask := Nat → Bool

structure Grid where
  ny : Nat
  nx : Nat
deriving Repr, DecidableEq

namespace Grid
def size (g : Grid) : Nat := g.ny * g.nx
end Grid

/-- one existing map axis: its original length and the coordinate (index) of an original point on it -/
structure Axis where
  len : Nat
  coord : Nat → Nat

/-- existing axes in `(y, x)` order, as `_data_slices_from_coordinates` visits them
(`coords is not None and step != 0`, i.e. more than one distinct coordinate) -/
def Grid.axes (g : Grid) : List Axis :=
  (if g.ny > 1 then [⟨g.ny, fun p => p / g.nx⟩] else []) ++
  (if g.nx > 1 then [⟨g.nx, fun p => p % g.nx⟩] else [])

/-- `self.id`: original ids of the points in the data, ascending (`self._id[self.is_in_data]`) -/
def ids (n : Nat) (m : Mask) : List Nat := (List.range n).filter m

/-- `array[self.is_in_data]` for a full-size array -/
def maskFilter {β : Type} (n : Nat) (m : Mask) (arr : Nat → β) : List β :=
  (List.range n).filterMap fun p => if m p then some (arr p) else none

def minOf : List Nat → Option Nat
  | [] => none
  | x :: xs => some (xs.foldl min x)

def maxOf : List Nat → Option Nat
  | [] => none
  | x :: xs => some (xs.foldl max x)

/-- `slice(i_min, i_max)` of one axis: smallest and largest+1 index among the points `I`;
`np.min` of an empty array raises -/
def extent (a : Axis) (I : List Nat) : Except XErr (Nat × Nat) :=
  match minOf (I.map a.coord), maxOf (I.map a.coord) with
  | some lo, some hi => .ok (lo, hi + 1)
  | _, _ => .error .emptyReduction

/-- `self._data_slices_from_coordinates()` (index level) -/
def dataSlices (g : Grid) (I : List Nat) : Except XErr (List (Nat × Nat)) :=
  g.axes.mapM (fun a => extent a I)

/-- `self.shape` -/
def shape (g : Grid) (I : List Nat) : Except XErr (List Nat) :=
  (dataSlices g I).map fun l => l.map fun e => e.2 - e.1

/-! ### keys of `__getitem__` -/

inductive Ix
  | int (i : Int)
  | slice (start stop step : Option Int)
deriving Repr, DecidableEq

inductive Key
  | idx (ks : List Ix)          -- int, slice or tuple of them (non-empty)
  | mask (m : List Bool)        -- boolean numpy array
  | names (ks : List String)    -- phase name, "indexed", "not_indexed", or tuple of them (non-empty)
deriving Repr

/-- positions along one axis of length `L` picked by one entry of the key
(`np.zeros(shape)[slices] = True`, numpy basic indexing) -/
def pick (L : Nat) : Ix → Except XErr (List Nat)
  | .int i =>
    if -(L : Int) ≤ i ∧ i < (L : Int) then .ok [(if i < 0 then i + L else i).toNat]
    else .error .indexOutOfBounds
  | .slice a b c =>
    match PySlice.indices L a b c with
    | some l => .ok l
    | none => .error .zeroStep

/-- per-axis data of a slice selection: axis, extent of the current data, picked relative positions -/
abbrev AxisSel := Axis × (Nat × Nat) × List Nat

def inBox (sel : List AxisSel) (p : Nat) : Bool :=
  sel.all fun s => decide (s.2.1.1 ≤ s.1.coord p) && decide (s.1.coord p < s.2.1.2)

def inPicks (sel : List AxisSel) (p : Nat) : Bool :=
  sel.all fun s => s.2.2.contains (s.1.coord p - s.2.1.1)

/-- `slices = [slice(None)] * self.ndim; slices[i] = k` (IndexError when the key has more entries than the
map has dimensions) followed by `np.zeros(self.shape)[tuple(slices)] = True`: the positions picked on
every axis, relative to the extent `ext` of the current data -/
def pickAll (ks : List Ix) (ext : List (Nat × Nat)) : Except XErr (List (List Nat)) :=
  if ks.length > ext.length then .error .tooManyIndices
  else
    ((ks ++ List.replicate (ext.length - ks.length) (Ix.slice none none none)).zip ext).mapM
      fun ke => pick (ke.2.2 - ke.2.1) ke.1

/-- slice / int / tuple branch of `__getitem__`, given the function `ds` that computes the extent of
the current data (`_data_slices_from_coordinates`, called for `self.shape` and for `data_slices`) -/
def getIdxWith (g : Grid) (ds : List Nat → Except XErr (List (Nat × Nat))) (m : Mask) (ks : List Ix) :
    Except XErr Mask :=
  -- `self.ndim` evaluates `self.shape`, i.e. the extent of the current data
  match ds (ids g.size m) with
  | .error e => .error e
  | .ok ext =>
    match pickAll ks ext with
    | .error e => .error e
    | .ok picks =>
      let sel : List AxisSel := g.axes.zip (ext.zip picks)
      -- `new = self.is_in_data.reshape(orig).copy(); new[data_slices] &= new_is_in_data_slice`
      .ok fun p => if inBox sel p then m p && inPicks sel p else m p

def getIdx (g : Grid) (m : Mask) (ks : List Ix) : Except XErr Mask :=
  getIdxWith g (dataSlices g) m ks

/-- `new[data_slices] = new_is_in_data_slice` (`__getitem__` as it was before `fix:` commit 20c9772; kept to pin the repaired defect) -/
def getIdxOld (g : Grid) (m : Mask) (ks : List Ix) : Except XErr Mask :=
  match dataSlices g (ids g.size m) with
  | .error e => .error e
  | .ok ext =>
    match pickAll ks ext with
    | .error e => .error e
    | .ok picks =>
      let sel : List AxisSel := g.axes.zip (ext.zip picks)
      .ok fun p => if inBox sel p then inPicks sel p else m p

/-- `new = np.zeros(n, bool); new[I] = vals` -/
def scatter (I : List Nat) (vals : List Bool) : Mask :=
  fun p => (I.zip vals).lookup p == some true

/-- boolean-array branch of `__getitem__` (numpy broadcasts a length-1 value) -/
def getMask (n : Nat) (m : Mask) (key : List Bool) : Except XErr Mask :=
  let I := ids n m
  if key.length = I.length then .ok (scatter I key)
  else match key with
    | [b] => .ok (scatter I (List.replicate I.length b))
    | _ => .error .shapeMismatch

/-- `k.lower() == "indexed"` -/
def isIndexedKw (k : String) : Bool := k.toLower == "indexed"

/-- phase-name branch of `__getitem__`: the loops over `key` and over `self.phases` acting on the
in-data boolean array `is_in_data` (one flag per point of `self.phase_id`) -/
def nameFlags (phases : PhaseList) (pids : List Int) (ks : List String) : List Bool :=
  ks.foldl (fun flags k =>
    phases.foldl (fun flags e =>
      if k == e.2.name then List.zipWith (fun f q => f || q == e.1) flags pids
      else if isIndexedKw k then List.zipWith (fun f q => f || q != -1) flags pids
      else flags) flags)
    (List.replicate pids.length false)

def getNames (n : Nat) (phaseId : Nat → Int) (phases : PhaseList) (m : Mask) (ks : List String) : Mask :=
  let I := ids n m
  scatter I (nameFlags phases (I.map phaseId) ks)

/-- immutable part of a map as far as selections are concerned -/
structure Base where
  grid : Grid
  phaseId : Nat → Int
  phases : PhaseList

/-- `CrystalMap.__getitem__`: the new `is_in_data` -/
def getItem (b : Base) (m : Mask) : Key → Except XErr Mask
  | .idx ks => getIdx b.grid m ks
  | .mask key => getMask b.grid.size m key
  | .names ks => .ok (getNames b.grid.size b.phaseId b.phases m ks)

/-- a selection history: every key is applied to the result of the previous one -/
def run (b : Base) (m : Mask) : List Key → Except XErr Mask
  | [] => .ok m
  | k :: ks => match getItem b m k with
    | .error e => .error e
    | .ok m' => run b m' ks

/-! ### specification: a map *is* the finite set of its original point ids -/

/-- does a tuple of phase-name keys select a point with phase id `q`? -/
def nameSel (phases : PhaseList) (ks : List String) (q : Int) : Bool :=
  ks.any fun k => phases.any fun e => if k == e.2.name then q == e.1 else isIndexedKw k && q != -1

/-- `select S key`: the points of `S` the key picks, positions being taken relative to the bounding box
of `S` (slices/ints), to the position in the ascending id list (boolean arrays), or through the phase id
of the point (names) -/
def specSelect (b : Base) (S : List Nat) : Key → Except XErr (List Nat)
  | .idx ks =>
    match dataSlices b.grid S with
    | .error e => .error e
    | .ok ext =>
      match pickAll ks ext with
      | .error e => .error e
      | .ok picks => .ok (S.filter (inPicks (b.grid.axes.zip (ext.zip picks))))
  | .mask key =>
    if key.length = S.length then .ok (((S.zip key).filter (·.2)).map (·.1))
    else match key with
      | [v] => .ok (if v then S else [])
      | _ => .error .shapeMismatch
  | .names ks => .ok (S.filter fun p => nameSel b.phases ks (b.phaseId p))

def specRun (b : Base) (S : List Nat) : List Key → Except XErr (List Nat)
  | [] => .ok S
  | k :: ks => match specSelect b S k with
    | .error e => .error e
    | .ok T => specRun b T ks

/-! ### accessors -/

/-- `self.size` -/
def size (n : Nat) (m : Mask) : Nat := (ids n m).length

/-- `self.row` -/
def rows (g : Grid) (m : Mask) : Except XErr (List Nat) :=
  if g.axes.isEmpty then .error .degenerate
  else
    let rs := (ids g.size m).map (· / g.nx)
    match minOf rs with
    | none => .error .emptyReduction
    | some lo => .ok (rs.map (· - lo))

/-- `self.col` -/
def cols (g : Grid) (m : Mask) : Except XErr (List Nat) :=
  if g.axes.isEmpty then .error .degenerate
  else
    let cs := (ids g.size m).map (· % g.nx)
    match minOf cs with
    | none => .error .emptyReduction
    | some lo => .ok (cs.map (· - lo))

/-- the rows (resp. columns) of the original grid spanned by the current data -/
def spanY (g : Grid) (I : List Nat) : Except XErr (Nat × Nat) :=
  if g.ny > 1 then extent ⟨g.ny, fun p => p / g.nx⟩ I else .ok (0, 1)
def spanX (g : Grid) (I : List Nat) : Except XErr (Nat × Nat) :=
  if g.nx > 1 then extent ⟨g.nx, fun p => p % g.nx⟩ I else .ok (0, 1)

/-- `self.get_map_data(item, fill_value=fill)` for a per-point array: values in row-major order over the
bounding box of the data (`none` = fill value) -/
def mapData {β : Type} (g : Grid) (m : Mask) (arr : Nat → β) : Except XErr (List (Option β)) :=
  if g.axes.isEmpty then .error .degenerate
  else
    match spanY g (ids g.size m), spanX g (ids g.size m) with
    | .ok ry, .ok rx =>
      .ok <| (List.range (ry.2 - ry.1)).flatMap fun i =>
        (List.range (rx.2 - rx.1)).map fun j =>
          let p := (ry.1 + i) * g.nx + (rx.1 + j)
          if m p then some (arr p) else none
    | .error e, _ => .error e
    | _, .error e => .error e

/-! ### coordinate layer: the same quantities computed from `x`, `y`, origin and step as the code does -/

/-- arithmetic the code performs on coordinates (`Float` when run, an ordered field when reasoned about) -/
class Coord (α : Type) where
  add : α → α → α
  sub : α → α → α
  mul : α → α → α
  div : α → α → α
  ofNat : Nat → α
  lt : α → α → Bool
  /-- `int(np.around(x))` -/
  rnd : α → Int

/-- origin and step of a regular grid -/
structure Geom (α : Type) where
  oy : α
  ox : α
  dy : α
  dx : α

section
variable {α : Type} [Coord α]
open Coord

/-- `_y[p]`, `_x[p]` of a regular grid (`origin + arange(n) * step`, row-major) -/
def yOf (q : Geom α) (g : Grid) (p : Nat) : α := add q.oy (mul (ofNat (p / g.nx)) q.dy)
def xOf (q : Geom α) (g : Grid) (p : Nat) : α := add q.ox (mul (ofNat (p % g.nx)) q.dx)

def minC : List α → Option α
  | [] => none
  | x :: xs => some (xs.foldl (fun a b => if lt b a then b else a) x)
def maxC : List α → Option α
  | [] => none
  | x :: xs => some (xs.foldl (fun a b => if lt a b then b else a) x)

/-- `_step_size_from_coordinates`: second smallest minus smallest distinct value; `none` stands for the
value 0 returned when there is a single distinct coordinate -/
def stepSize (l : List α) : Option α :=
  match minC l with
  | none => none
  | some a => match minC (l.filter fun x => lt a x) with
    | none => none
    | some b => some (sub b a)

/-- one axis of `_data_slices_from_coordinates`: `none` when the axis does not exist for the code
(`coords is None or step == 0`); coordinates are taken relative to the origin of *all* points -/
def axisSliceC (all inData : List α) : Except XErr (Option (Int × Int)) :=
  match minC all, stepSize all with
  | some o, some st =>
    let rel := inData.map fun v => sub v o
    (match minC rel, maxC rel with
     | some lo, some hi => .ok (some (rnd (div lo st), rnd (add (div hi st) (ofNat 1))))
     | _, _ => .error .emptyReduction)
  | _, _ => .ok none

/-- `self._data_slices_from_coordinates()` computed from coordinates -/
def dataSlicesC (q : Geom α) (g : Grid) (I : List Nat) : Except XErr (List (Int × Int)) :=
  let all := List.range g.size
  match axisSliceC (all.map (yOf q g)) (I.map (yOf q g)) with
  | .error e => .error e
  | .ok sy =>
    match axisSliceC (all.map (xOf q g)) (I.map (xOf q g)) with
    | .error e => .error e
    | .ok sx => .ok (sy.toList ++ sx.toList)

def dataSlicesCN (q : Geom α) (g : Grid) (I : List Nat) : Except XErr (List (Nat × Nat)) :=
  (dataSlicesC q g I).map fun l => l.map fun e => (e.1.toNat, e.2.toNat)

/-- `__getitem__` with the extents computed from coordinates -/
def getItemC (q : Geom α) (b : Base) (m : Mask) : Key → Except XErr Mask
  | .idx ks => getIdxWith b.grid (dataSlicesCN q b.grid) m ks
  | k => getItem b m k

/-- `self.x`, `self.y`: `None` when the map has a single column (row) -/
def xs (q : Geom α) (g : Grid) (m : Mask) : Option (List α) :=
  if g.nx > 1 then some (maskFilter g.size m (xOf q g)) else none
def ys (q : Geom α) (g : Grid) (m : Mask) : Option (List α) :=
  if g.ny > 1 then some (maskFilter g.size m (yOf q g)) else none
end

instance : Coord Float where
  add := (· + ·)
  sub := (· - ·)
  mul := (· * ·)
  div := (· / ·)
  ofNat := Float.ofNat
  lt x y := decide (x < y)
  rnd x :=
    -- round half to even, as `np.around`
    let f := Float.floor x
    let d := x - f
    let r := if d < 0.5 then f else if d > 0.5 then f + 1 else (if Float.floor (f / 2) * 2 == f then f else f + 1)
    r.toInt64.toInt

/-! ### a map together with all selections made from it (shared arrays, C12) -/

/-- value of an assignment `xmap[...].phase_id = v` / `xmap[...].prop[name] = v` -/
inductive Value
  | scalar (v : Int)
  | array (vs : List Int)
deriving Repr

/-- all state reachable from a constructed map: the shared full-size arrays, the shared phase list and
the masks of the root map (`views[0]`) and of every selection made so far -/
structure Sys where
  grid : Grid
  phaseId : Nat → Int
  props : List (String × (Nat → Int))
  phases : PhaseList
  views : List Mask

namespace Sys
def base (s : Sys) : Base := ⟨s.grid, s.phaseId, s.phases⟩
def n (s : Sys) : Nat := s.grid.size
end Sys

/-- `np.unique(a)` of integers: ascending, duplicates removed -/
def insertUniq (x : Int) : List Int → List Int
  | [] => [x]
  | y :: r => if x < y then x :: y :: r else if x = y then y :: r else y :: insertUniq x r
def uniqueSorted (l : List Int) : List Int := l.foldr insertUniq []

/-- the loop removing superfluous phases: walk the ids in descending list order, delete a phase whose id
is not in the data, stop as soon as the surplus `k` is gone -/
def dropSurplus (uniq : List Int) : List Int → Nat → PhaseList → PhaseList
  | [], _, d => d
  | _ :: _, 0, d => d
  | i :: rest, k + 1, d =>
    if uniq.contains i then dropSurplus uniq rest (k + 1) d
    else dropSurplus uniq rest k (d.filter fun e => !(e.1 == i))

/-- `phase_dict[i] = phase_list[i] if i in phase_ids else Phase(...)`: the entry created for id `i` of the
data when the caller's list has fewer phases than the data has ids -/
def fillFor (pl : PhaseList) (i : Int) : Int × Phase :=
  match (if (PhaseList.ids pl).contains i then PhaseList.dictGet pl i else none) with
  | some p => (i, p)
  | none => (i, Phase.dflt)

/-- reconciliation of the caller's (deep-copied) phase list with the sorted unique non-negative... ids
`uniq` of the data, as written in `CrystalMap.__init__` -/
def reconcile (uniq : List Int) (pl : PhaseList) : PhaseList :=
  let pids := PhaseList.ids pl
  let pl1 : PhaseList :=
    if pids.length > uniq.length then
      dropSurplus uniq pids.reverse (pids.length - uniq.length) pl
    else if pids.length < uniq.length then
      PhaseList.ofDict (uniq.map (fillFor pl))
    else pl
  -- `phase_list._dict = dict(zip(new_ids, phase_list._dict.values()))`
  PhaseList.ofPairs (uniq.zip (pl1.map (·.2)))

/-- `CrystalMap.__init__` as it was before `fix:` commit 1077dd8 (kept to pin the repaired defect: a
`not_indexed` entry of the caller's list was reconciled like an ordinary phase) -/
def initOld (g : Grid) (pid : Nat → Int) (pl : Option PhaseList) (props : List (String × (Nat → Int)))
    (mask : Mask) : Sys :=
  let u := uniqueSorted ((List.range g.size).map pid)
  let notIdx := u.head? == some (-1)
  let uniq := if notIdx then u.drop 1 else u
  let phases := match pl with
    | none => (match PhaseList.ofKeywords none none none (some uniq) none with
               | some d => d
               | none => [])       -- `uniq` is given, so `max(ids)` is only evaluated when an id is missing: never
    | some pl => reconcile uniq pl
  let phases := if notIdx then PhaseList.addNotIndexed phases else phases
  ⟨g, pid, props, phases, [mask]⟩

/-- `if -1 in phase_list.ids: del phase_list[-1]` on the deep copy of the caller's list -/
def dropNotIndexed (pl : PhaseList) : PhaseList :=
  match PhaseList.dictPop pl (-1) with
  | some d => d
  | none => pl

/-- `CrystalMap(rotations, phase_id=pid, x, y, phase_list=pl, prop=props, is_in_data=mask)`:
the caller's list is deep-copied, a `not_indexed` entry (id -1) is dropped — it is re-created from the data —
and the rest is reconciled with the ids of the data -/
def init (g : Grid) (pid : Nat → Int) (pl : Option PhaseList) (props : List (String × (Nat → Int)))
    (mask : Mask) : Sys :=
  initOld g pid (pl.map dropNotIndexed) props mask

/-- `self.phases[np.intersect1d(np.unique(self.phase_id), self.phases.ids)]` -/
def phasesInDataGet (s : Sys) (m : Mask) : Except XErr PhaseList :=
  let present := uniqueSorted ((ids s.n m).map s.phaseId)
  let common := present.filter fun i => (PhaseList.ids s.phases).contains i
  PhaseList.getItem s.phases (.idList common)

/-- `CrystalMap.phases_in_data`: a single phase in the data is returned as a one-entry list under the id
it was found with (`ids_in_data[0]`) -/
def phasesInData (s : Sys) (m : Mask) : Except XErr PhaseList :=
  let present := uniqueSorted ((ids s.n m).map s.phaseId)
  let common := present.filter fun i => (PhaseList.ids s.phases).contains i
  match PhaseList.getItem s.phases (.idList common) with
  | .error e => .error e
  | .ok [(_, p)] =>
    (match common.head? with
     | some i => .ok (PhaseList.ofSingle p (some i))
     | none => .error .keyError)
  | .ok d => .ok d

/-- `phases_in_data` as it was before `fix:` commit bb01d48: the id of a single phase was looked up again
*by name* (kept to pin the repaired defect) -/
def phasesInDataOld (s : Sys) (m : Mask) : Except XErr PhaseList :=
  let present := uniqueSorted ((ids s.n m).map s.phaseId)
  let common := present.filter fun i => (PhaseList.ids s.phases).contains i
  match PhaseList.getItem s.phases (.idList common) with
  | .error e => .error e
  | .ok [(_, p)] =>
    (match PhaseList.idFromName s.phases p.name with
     | some i => .ok (PhaseList.ofSingle p (some i))
     | none => .error .keyError)
  | .ok d => .ok d

/-- `phases_in_data` as the property wants it: the entries of the phase list whose id occurs in the data -/
def phasesInDataSpec (s : Sys) (m : Mask) : PhaseList :=
  s.phases.filter fun e => ((ids s.n m).map s.phaseId).contains e.1

/-- point-group label of `self.orientations` (`phases_in_data` must hold exactly one phase) -/
def orientationsSym (s : Sys) (m : Mask) : Except XErr (Option String) :=
  match phasesInData s m with
  | .error e => .error e
  | .ok [(_, p)] => .ok p.sym
  | .ok _ => .error .notOnePhase

/-- `array[mask] = value` for the points `I` selected by the mask -/
def assign (I : List Nat) (old : Nat → Int) : Value → Except XErr (Nat → Int)
  | .scalar v => .ok fun p => if I.contains p then v else old p
  | .array vs =>
    if vs.length = I.length then
      .ok fun p => match (I.zip vs).lookup p with | some v => v | none => old p
    else match vs with
      | [v] => .ok fun p => if I.contains p then v else old p
      | _ => .error .shapeMismatch

def Value.hasNeg1 : Value → Bool
  | .scalar v => v == -1
  | .array vs => vs.contains (-1)

/-- `self.setdefault(key, np.zeros(n))`: the stored array of a property, zeros for a new one -/
def propOld (props : List (String × (Nat → Int))) (name : String) : Nat → Int :=
  match props.lookup name with
  | some a => a
  | none => fun _ => 0

inductive Op
  | select (v : Nat) (k : Key)                    -- views.append(views[v][k])
  | setPhaseId (v : Nat) (val : Value)            -- views[v].phase_id = val
  | setProp (v : Nat) (name : String) (val : Value)   -- views[v].prop[name] = val
  | plAdd (ps : List Phase)                       -- xmap.phases.add(ps)
  | plDel (k : PhaseList.DKey)                    -- del xmap.phases[k]
  | plAddNotIndexed
  | plSort
deriving Repr

/-- one operation on the shared state; the second component is the exception raised, if any
(the state returned is what the code leaves behind) -/
def step (s : Sys) : Op → Sys × Option XErr
  | .select v k =>
    match s.views[v]? with
    | none => (s, some .badView)
    | some m =>
      match getItem s.base m k with
      | .ok m' => ({ s with views := s.views ++ [m'] }, none)
      | .error e => (s, some e)
  | .setPhaseId v val =>
    match s.views[v]? with
    | none => (s, some .badView)
    | some m =>
      match assign (ids s.n m) s.phaseId val with
      | .error e => (s, some e)
      | .ok pid' =>
        let phases' := if val.hasNeg1 && !((PhaseList.names s.phases).contains "not_indexed")
          then PhaseList.addNotIndexed s.phases else s.phases
        ({ s with phaseId := pid', phases := phases' }, none)
  | .setProp v name val =>
    match s.views[v]? with
    | none => (s, some .badView)
    | some m =>
      -- `array = self.setdefault(key, np.zeros(n))` happens before the assignment can fail
      let old : Nat → Int := propOld s.props name
      let props0 := if (s.props.lookup name).isSome then s.props else s.props ++ [(name, old)]
      match assign (ids s.n m) old val with
      | .error e => ({ s with props := props0 }, some e)
      | .ok a' => ({ s with props := props0.map fun e => if e.1 == name then (name, a') else e }, none)
  | .plAdd ps =>
    let r := PhaseList.add s.phases ps
    ({ s with phases := r.1 }, r.2)
  | .plDel k =>
    match PhaseList.delItem s.phases k with
    | .ok d => ({ s with phases := d }, none)
    | .error e => (s, some e)
  | .plAddNotIndexed => ({ s with phases := PhaseList.addNotIndexed s.phases }, none)
  | .plSort => ({ s with phases := PhaseList.sortById s.phases }, none)

def runOps (s : Sys) : List Op → Sys
  | [] => s
  | o :: os => runOps (step s o).1 os

/-- the guard of property C12: assigned phase ids are `-1` or already in the phase list, a deleted
phase is not in use by any point, and no added phase is called `not_indexed` -/
def admissible (s : Sys) : Op → Bool
  | .setPhaseId _ val =>
    let okv := fun (v : Int) => v == -1 || (PhaseList.ids s.phases).contains v
    (match val with
     | .scalar v => okv v
     | .array vs => vs.all okv)
  | .plDel (.id i) => (List.range s.n).all fun p => s.phaseId p != i
  | .plDel (.name nm) =>
    (match s.phases.find? (fun e => e.2.name == nm) with
     | some e => (List.range s.n).all fun p => s.phaseId p != e.1
     | none => true)
  | .plAdd ps => ps.all fun p => p.name != "not_indexed"
  | _ => true

def admissibleAll (s : Sys) : List Op → Bool
  | [] => true
  | o :: os => admissible s o && admissibleAll (step s o).1 os

end Orix.XMap
