import OrixModel.Scalar
/-
Colour arithmetic of the inverse-pole-figure key (C08): `hsl_to_hsv` of
`orix/plot/direction_color_keys/_util.py` and the standard HSV → RGB map that matplotlib's `hsv_to_rgb`
implements (third party, modelled by its documented algorithm and exercised by the correspondence check).
-/
namespace Orix.Color
open Orix Scalar
variable {α : Type} [Scalar α]

/-- `hsl_to_hsv(hue, saturation, lightness)` -/
def hslToHsv (h s l : α) : List α :=
  let l2 := lit 2 * l
  let s2 := s * (if le l2 (lit 1) then l2 else lit 2 - l2)
  let sat := (lit 2 * s2) / (l2 + s2)
  let sat := if !(beq sat sat) then lit 0 else sat   -- NaN (0/0) ↦ 0
  [h, sat, (l2 + s2) / lit 2]

/-- HSV → RGB by sextants, for `h ∈ [0, 1]` (h = 1 wraps to the first sextant as `int(h*6) % 6` does) -/
def hsvToRgb (h s v : α) : List α :=
  let h6 := h * lit 6
  let sext (k : Nat) := h6 - lit k
  let p := v * (lit 1 - s)
  let q (f : α) := v * (lit 1 - s * f)
  let t (f : α) := v * (lit 1 - s * (lit 1 - f))
  if lt h6 (lit 1) then [v, t (sext 0), p]
  else if lt h6 (lit 2) then [q (sext 1), v, p]
  else if lt h6 (lit 3) then [p, v, t (sext 2)]
  else if lt h6 (lit 4) then [p, q (sext 3), v]
  else if lt h6 (lit 5) then [t (sext 4), p, v]
  else if lt h6 (lit 6) then [v, p, q (sext 5)]
  else [v, t (sext 6), p]

/-- `rgb_from_polar_coordinates` after `polar = 0.5 + polar/2`, with the hue already reduced to `[0,1)` -/
def rgbOfHuePolar (hue polar : α) : List α :=
  match hslToHsv hue (lit 1) (dec 5 1 + polar / lit 2) with
  | [h, s, v] => hsvToRgb h s v
  | _ => []

end Orix.Color
