import OrixModel.Lattice
/-
Stereographic projection and spherical coordinates (C20):
`orix/projections/stereographic.py` (`_vector2xy`, `StereographicProjection.vector2xy`, `vector2xy_split`,
`InverseStereographicProjection.xy2vector`) and `Vector3d.azimuth/polar/radial/to_polar/from_polar`.
The projection pole `p` is `+1` (north, lower hemisphere shown) or `-1` (south, upper hemisphere shown).
-/
namespace Orix.Stereo
open Orix Scalar

variable {α : Type} [Scalar α]

inductive Pole where
  /-- `pole = 1`: projection point [001], vectors with `z < 0` are shown -/
  | north
  /-- `pole = -1`: projection point [00-1], vectors with `z > 0` are shown -/
  | south
deriving Repr, DecidableEq

def Pole.val : Pole → α
  | .north => lit 1
  | .south => -(lit 1)

/-- the arithmetic of `_vector2xy` on the already normalised components (this is what T-ast ties to the source) -/
def vector2xyUnit (pole : α) (u : Vec3 α) : α × α :=
  let denom := u.z - pole
  if beq denom (lit 0) then (lit 0, lit 0)
  else ((-pole) * u.x / denom, (-pole) * u.y / denom)

/-- `_vector2xy(v, pole)`: the vector is made a unit vector first; `(X, Y) = (0, 0)` is the explicit
guarded branch when the denominator `z - p` vanishes (vector at the projection point) -/
def vector2xyRaw (p : Pole) (v : Vec3 α) : α × α := vector2xyUnit p.val (Vec3.unit v)

/-- `v <= SphericalRegion([0, 0, -pole])`, i.e. `dot(normal, v) > -1e-9` on the vector *as given*
(not normalised) -/
def inRegion (p : Pole) (v : Vec3 α) : Bool :=
  lt (-(dec 1 9)) (Vec3.dot ⟨lit 0, lit 0, -p.val⟩ v)

/-- `StereographicProjection(pole).vector2xy(v)`: only the vectors of the region are returned -/
def vector2xy (p : Pole) (vs : List (Vec3 α)) : List (α × α) :=
  (vs.filter (inRegion p)).map (vector2xyRaw p)

/-- `StereographicProjection.vector2xy_split(v)`: (upper, lower) -/
def vector2xySplit (vs : List (Vec3 α)) : List (α × α) × List (α × α) :=
  (vector2xy .south vs, vector2xy .north vs)

/-- the arithmetic of `xy2vector` with the pole as a number (this is what T-ast ties to the source) -/
def xy2vectorP (pole : α) (x y : α) : Vec3 α :=
  let denom := lit 1 + npow x 2 + npow y 2
  ⟨lit 2 * x / denom, lit 2 * y / denom, (-pole) * (lit 1 - npow x 2 - npow y 2) / denom⟩

/-- `InverseStereographicProjection(pole).xy2vector(x, y)` -/
def xy2vector (p : Pole) (x y : α) : Vec3 α := xy2vectorP p.val x y

/-! ### spherical coordinates -/

/-- `np.isclose(x, 0)` (absolute tolerance `1e-8`) -/
def isclose0 (x : α) : Bool := le (abs x) (dec 1 8)

/-- `Vector3d.azimuth`: components with `|·| ≤ 1e-8` are snapped to zero first, range `[0, 2π)` -/
def azimuth (v : Vec3 α) : α :=
  let x := if isclose0 v.x then lit 0 else v.x
  let y := if isclose0 v.y then lit 0 else v.y
  let a := atan2 y x
  if lt a (lit 0) then a + lit 2 * pi else a

def radial (v : Vec3 α) : α := sqrt (npow v.x 2 + npow v.y 2 + npow v.z 2)
def polar (v : Vec3 α) : α := acos (v.z / radial v)

def rad2deg (x : α) : α := x * (lit 180 / pi)
def deg2rad (x : α) : α := x * (pi / lit 180)

/-- `Vector3d.to_polar(degrees)` = (azimuth, polar, radial) -/
def toPolar (degrees : Bool) (v : Vec3 α) : α × α × α :=
  if degrees then (rad2deg (azimuth v), rad2deg (polar v), radial v)
  else (azimuth v, polar v, radial v)

/-- `Vector3d.from_polar(azimuth, polar, radial, degrees)` -/
def fromPolar (degrees : Bool) (az pol rad : α) : Vec3 α :=
  let a := if degrees then deg2rad az else az
  let t := if degrees then deg2rad pol else pol
  let s := sin t
  ⟨rad * (cos a * s), rad * (sin a * s), rad * cos t⟩

end Orix.Stereo
