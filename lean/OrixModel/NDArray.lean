/-
N-dimensional arrays as orix uses them (`orix/_base.py`, `quaternion/rotation.py`, `misorientation.py`,
`orientation.py`, `vector/vector3d.py`, `vector/miller.py`): a shape and the C-order list of elements,
with numpy's structural operations as *gathers* (every output element is an input element at an explicit
source index), and on top of it the orix objects (class, widened array of (element, improper flag),
metadata) with the structural / element-wise operations of property C16 and programs of them.

Core Lean only.  Errors are explicit (`Except NDErr`); `NDErr.internal` is the answer of a gather whose
source index is out of range — `OrixProofs/Properties/C16.lean` proves it never happens for well-formed
arrays.

Scope notes (what is *not* modelled):
* 0-d results: orix objects are never 0-d (`np.atleast_2d` in the constructor); `reshape(())` is refused.
* keys longer than the number of navigation axes (they would reach into the component axis), `Ellipsis`,
  `None`, integer-array indices.
* the rotation classes renormalise their data in every constructor call; for unit quaternions this is the
  identity over ℝ and is not repeated in the model.
-/
namespace Orix

inductive NDErr where
  | index      -- IndexError
  | value      -- ValueError / TypeError (numpy refuses shapes, axes; operation not defined)
  | dimension  -- orix DimensionError (not produced by any modelled operation at present)
  | internal   -- a gather reached outside its source (never for well-formed arrays, proved)
  deriving Repr, DecidableEq

structure NDArray (α : Type) where
  shape : List Nat
  data : List α
  deriving Repr, DecidableEq

namespace NDArray
variable {α β : Type}

/-- number of elements of a shape -/
def prod : List Nat → Nat
  | [] => 1
  | n :: s => n * prod s

/-- well-formed: the data list has as many entries as the shape says -/
def WF (A : NDArray α) : Prop := A.data.length = prod A.shape

def map (f : α → β) (A : NDArray α) : NDArray β := ⟨A.shape, A.data.map f⟩

/-- pair two arrays of equal shape element by element (the widened `_data` of a rotation) -/
def zip (A : NDArray α) (B : NDArray β) : Option (NDArray (α × β)) :=
  if A.shape = B.shape then some ⟨A.shape, A.data.zip B.data⟩ else none

def optAll : List (Option α) → Option (List α)
  | [] => some []
  | none :: _ => none
  | some x :: r => (optAll r).map (x :: ·)

def ofOpt : Option β → Except NDErr β
  | some x => .ok x
  | none => .error .internal

/-- cartesian product of per-axis index lists, last axis fastest (C order) -/
def cart : List (List Nat) → List (List Nat)
  | [] => [[]]
  | l :: ls => l.flatMap (fun i => (cart ls).map (i :: ·))

/-- all multi-indices of a shape in C order -/
def allIdx (s : List Nat) : List (List Nat) := cart (s.map List.range)

/-- flat C-order position of a multi-index -/
def ravel : List Nat → List Nat → Nat
  | _ :: s, i :: is => i * prod s + ravel s is
  | _, _ => 0

def validIdx : List Nat → List Nat → Bool
  | [], [] => true
  | n :: s, i :: is => decide (i < n) && validIdx s is
  | _, _ => false

/-- element at a multi-index -/
def get? (A : NDArray α) (idx : List Nat) : Option α :=
  if validIdx A.shape idx then A.data[ravel A.shape idx]? else none

/-- the array of shape `ns` whose `k`-th element (C order) is `A[src[k]]` -/
def gatherList (A : NDArray α) (ns : List Nat) (src : List (List Nat)) : Option (NDArray α) :=
  (optAll (src.map A.get?)).map (fun d => ⟨ns, d⟩)

/-! ### reshape (`ndarray.reshape`, C order) -/

/-- numpy's resolution of a requested shape (one `-1` allowed) against `n` elements -/
def resolveShape (n : Nat) (dims : List Int) : Except NDErr (List Nat) :=
  if dims.any (fun d => decide (d < -1)) then .error .value
  else match (dims.filter (fun d => d == -1)).length with
    | 0 =>
      let ns := dims.map Int.toNat
      if prod ns = n then .ok ns else .error .value
    | 1 =>
      let p := prod ((dims.filter (fun d => d != -1)).map Int.toNat)
      if p = 0 then .error .value
      else if n % p = 0 then .ok (dims.map (fun d => if d == -1 then n / p else d.toNat))
      else .error .value
    | _ => .error .value

/-- C-order reshape: the flat data is unchanged -/
def reshape (dims : List Int) (A : NDArray α) : Except NDErr (NDArray α) := do
  let ns ← resolveShape (prod A.shape) dims
  if ns = [] then .error .value else .ok ⟨ns, A.data⟩

/-! ### transpose -/

/-- numpy normalises axes against the number of axes of the array it is applied to.  orix calls
`self.data.transpose(*axes + (-1,))` on the data (`extra = 1`: the component axis is present) and
`self.improper.transpose(*axes)` on the flags (`extra = 0`).  The result must be a permutation of the
navigation axes. -/
def normAxes (nd extra : Nat) (axes : List Int) : Except NDErr (List Nat) :=
  let m : Int := (nd + extra : Nat)
  let norm := axes.map (fun a => if a < 0 then a + m else a)
  if norm.all (fun a => decide (0 ≤ a) && decide (a < (nd : Int))) then
    let p := norm.map Int.toNat
    if p.Nodup then .ok p else .error .value
  else .error .value

/-- old multi-index of the element that sits at new multi-index `j` after `transpose p` -/
def unperm (p : List Nat) (j : List Nat) : List Nat :=
  (List.range p.length).filterMap (fun a => j[p.idxOf a]?)

def transposePerm (p : List Nat) (A : NDArray α) : Except NDErr (NDArray α) :=
  let ns := p.filterMap (fun a => A.shape[a]?)
  ofOpt (gatherList A ns ((allIdx ns).map (unperm p)))

/-- `Object3d.transpose(*axes)`: 1-d objects are returned as they are, 2-d objects may omit the axes -/
def transpose (extra : Nat) (axes : Option (List Int)) (A : NDArray α) : Except NDErr (NDArray α) :=
  let nd := A.shape.length
  if nd = 1 then .ok A
  else match axes with
    | none => if nd = 2 then transposePerm [1, 0] A else .error .value
    | some ax =>
      if ax.length ≠ nd then .error .value
      else do
        let p ← normAxes nd extra ax
        transposePerm p A

/-! ### flatten (`Object3d.flatten`: `data.T.reshape(dim, -1).T`, i.e. column-major order) -/

def flatten (A : NDArray α) : Except NDErr (NDArray α) := do
  let T ← transposePerm (List.range A.shape.length).reverse A
  .ok ⟨[prod A.shape], T.data⟩

/-! ### squeeze (`np.atleast_2d(_data.squeeze())`) -/

def atleast1 (s : List Nat) : List Nat := if s = [] then [1] else s

def squeeze (A : NDArray α) : NDArray α := ⟨atleast1 (A.shape.filter (· ≠ 1)), A.data⟩

/-! ### stack (`np.stack(seq, axis=-2)` on the widened data: a new last navigation axis) -/

def stack (As : List (NDArray α)) : Except NDErr (NDArray α) :=
  match As with
  | [] => .error .value
  | A :: rest =>
    if rest.all (fun B => B.shape == A.shape) then
      ofOpt ((optAll ((List.range (prod A.shape)).flatMap (fun j => As.map (fun B => B.data[j]?)))).map
        (fun d => ⟨A.shape ++ [As.length], d⟩))
    else .error .value

/-! ### getitem (basic indexing: integers, slices, tuples of them; one boolean mask) -/

inductive KeyItem where
  | int (i : Int)
  | slice (start stop step : Option Int)
  deriving Repr, DecidableEq

inductive Key where
  | tuple (items : List KeyItem)
  | mask (mshape : List Nat) (bits : List Bool)
  deriving Repr, DecidableEq

/-- bounds `slice.indices` clamps to: `[0, n]` for a positive step, `[-1, n-1]` for a negative one -/
def sliceLower (st : Int) : Int := if st < 0 then -1 else 0
def sliceUpper (n : Nat) (st : Int) : Int := if st < 0 then (n : Int) - 1 else n

/-- a given start/stop: negative values count from the end, then clamp -/
def sliceClamp (n : Nat) (st x : Int) : Int :=
  if x < 0 then max (x + n) (sliceLower st) else min x (sliceUpper n st)

def sliceStart (n : Nat) (st : Int) : Option Int → Int
  | none => if st < 0 then sliceUpper n st else sliceLower st
  | some x => sliceClamp n st x

def sliceStop (n : Nat) (st : Int) : Option Int → Int
  | none => if st < 0 then sliceLower st else sliceUpper n st
  | some x => sliceClamp n st x

/-- `len(range(a, b, st))` -/
def sliceCount (a b st : Int) : Nat :=
  if st > 0 then (if a < b then ((b - a - 1) / st + 1).toNat else 0)
  else (if b < a then ((a - b - 1) / (-st) + 1).toNat else 0)

/-- `range(*slice(start, stop, step).indices(n))` -/
def sliceIndices (n : Nat) (start stop step : Option Int) : Except NDErr (List Nat) :=
  let st : Int := step.getD 1
  if st = 0 then .error .value
  else
    let a := sliceStart n st start
    let b := sliceStop n st stop
    .ok ((List.range (sliceCount a b st)).map (fun k => (a + Int.ofNat k * st).toNat))

/-- indices selected on one axis of length `n`, and whether the axis survives -/
def axisSel (n : Nat) : KeyItem → Except NDErr (List Nat × Bool)
  | .int i =>
    if -(n : Int) ≤ i ∧ i < n then .ok ([(if i < 0 then i + n else i).toNat], false) else .error .index
  | .slice a b c => do
    let l ← sliceIndices n a b c
    .ok (l, true)

def selections : List Nat → List KeyItem → Except NDErr (List (List Nat × Bool))
  | s, [] => .ok (s.map (fun n => (List.range n, true)))
  | [], _ :: _ => .error .index
  | n :: s, it :: its => do
    let a ← axisSel n it
    let r ← selections s its
    .ok (a :: r)

/-- positions of the `true` entries of a mask -/
def truePos (bits : List Bool) : List Nat :=
  bits.zipIdx.filterMap (fun bi => if bi.1 then some bi.2 else none)

def getitem (k : Key) (A : NDArray α) : Except NDErr (NDArray α) :=
  match k with
  | .tuple items => do
    let sels ← selections A.shape items
    let ns := (sels.filter (·.2)).map (·.1.length)
    ofOpt (gatherList A (atleast1 ns) (cart (sels.map (·.1))))
  | .mask msh bits =>
    if msh = [] ∨ msh ≠ A.shape.take msh.length ∨ bits.length ≠ prod msh then .error .index
    else
      let rest := A.shape.drop msh.length
      let pos := truePos bits
      let V : NDArray α := ⟨prod msh :: rest, A.data⟩
      ofOpt (gatherList V (pos.length :: rest) (cart (pos :: rest.map List.range)))

end NDArray

/-! ## orix objects -/

inductive Cls where
  | quaternion | rotation | misorientation | orientation | vector3d | miller
  deriving Repr, DecidableEq

namespace Cls
def isRot : Cls → Bool
  | rotation | misorientation | orientation => true
  | _ => false
def isQuat : Cls → Bool
  | vector3d | miller => false
  | _ => true
end Cls

/-- metadata tokens: symmetry pair (0 = `C1`), phase (0 = `None`), coordinate format (0 = "xyz").
A class only looks at its own fields; `Meta.default` is what a bare constructor call leaves. -/
structure Meta where
  symL : Nat
  symR : Nat
  phase : Nat
  fmt : Nat
  deriving Repr, DecidableEq

def Meta.default : Meta := ⟨0, 0, 0, 0⟩

/-- element-wise functions of a class on the data part of an element -/
structure ElemOps (ε : Type) where
  unit : ε → ε
  inv : ε → ε
  neg : ε → ε

/-- `arr` is the widened `_data` array: element data and improper flag (always `false` for the classes
without flags) -/
structure Obj (ε : Type) where
  cls : Cls
  arr : NDArray (ε × Bool)
  md : Meta
  deriving Repr, DecidableEq

inductive Op (ε : Type) where
  | getitem (k : NDArray.Key)
  | reshape (dims : List Int)
  | flatten
  | transpose (axes : Option (List Int))
  | squeeze
  | stack (pos : Nat) (others : List (NDArray (ε × Bool)))
  | unit
  | inv
  | neg

namespace Obj
variable {ε : Type}
open NDArray

/-- An operation `f` applied the way the rotation classes do it: once to the data columns, once to the
`improper` array, results put side by side.  Classes without flags only have the data path. -/
def split (c : Cls) (fData fFlag : {γ : Type} → NDArray γ → Except NDErr (NDArray γ))
    (A : NDArray (ε × Bool)) : Except NDErr (NDArray (ε × Bool)) := do
  let D ← fData (A.map Prod.fst)
  if c.isRot then
    let F ← fFlag (A.map Prod.snd)
    match NDArray.zip D F with
    | some Z => .ok Z
    | none => .error .internal
  else .ok (D.map (fun d => (d, false)))

/-- metadata after an operation that re-attaches it (`M._symmetry = self._symmetry`, `Miller(..., phase=self.phase)`) -/
def keepMeta (O : Obj ε) : Meta := O.md

/-- `Orientation.unit/__invert__/__neg__`: `O.symmetry = self.symmetry` stores `(C1, symmetry)` -/
def orientationMeta (O : Obj ε) : Meta := { O.md with symL := 0 }

def getitem (k : Key) (O : Obj ε) : Except NDErr (Obj ε) := do
  let a ← split O.cls (fun A => NDArray.getitem k A) (fun A => NDArray.getitem k A) O.arr
  .ok { O with arr := a }

/-- `_data.reshape(*shape, _data.shape[-1])`: data and flags travel together in the widened array -/
def reshape (dims : List Int) (O : Obj ε) : Except NDErr (Obj ε) := do
  let a ← NDArray.reshape dims O.arr
  .ok { O with arr := a }

/-- `Object3d.flatten` moves `_data`; `Rotation.flatten` then sets `improper` from the flags flattened on
their own -/
def flatten (O : Obj ε) : Except NDErr (Obj ε) := do
  let a ← split O.cls (fun A => NDArray.flatten A) (fun A => NDArray.flatten A) O.arr
  .ok { O with arr := a }

def transpose (axes : Option (List Int)) (O : Obj ε) : Except NDErr (Obj ε) := do
  let a ← split O.cls (fun A => NDArray.transpose 1 axes A) (fun A => NDArray.transpose 0 axes A) O.arr
  .ok { O with arr := a }

/-- `Object3d.squeeze` (`np.atleast_2d(_data.squeeze())` on the widened data); `Misorientation.squeeze` and
`Miller.squeeze` re-attach symmetry / phase and coordinate format -/
def squeeze (O : Obj ε) : Except NDErr (Obj ε) := .ok { O with arr := NDArray.squeeze O.arr }

/-- `cls.stack(sequence)`: the new object comes from a bare constructor call (default metadata) -/
def stack (pos : Nat) (others : List (NDArray (ε × Bool))) (O : Obj ε) : Except NDErr (Obj ε) := do
  let a ← NDArray.stack (others.take pos ++ O.arr :: others.drop pos)
  .ok { O with arr := a, md := Meta.default }

def unitMeta (O : Obj ε) : Meta := if O.cls = .orientation then orientationMeta O else O.md

def unit (E : ElemOps ε) (O : Obj ε) : Except NDErr (Obj ε) :=
  .ok { O with arr := O.arr.map (fun e => (E.unit e.1, e.2)), md := unitMeta O }

/-- `~`: conjugate / |q|²; flags kept; `Misorientation` swaps its symmetry pair; no inverse for vectors -/
def inv (E : ElemOps ε) (O : Obj ε) : Except NDErr (Obj ε) :=
  if O.cls.isQuat then
    .ok { O with
      arr := O.arr.map (fun e => (E.inv e.1, e.2)),
      md := match O.cls with
        | .misorientation => { O.md with symL := O.md.symR, symR := O.md.symL }
        | .orientation => orientationMeta O
        | _ => O.md }
  else .error .value

/-- unary minus: rotations keep their data and toggle the improper flag; quaternions and vectors negate
their data (`Miller.__neg__` re-attaches phase and coordinate format) -/
def neg (E : ElemOps ε) (O : Obj ε) : Except NDErr (Obj ε) :=
  if O.cls.isRot then
    .ok { O with arr := O.arr.map (fun e => (e.1, !e.2)), md := unitMeta O }
  else
    .ok { O with arr := O.arr.map (fun e => (E.neg e.1, e.2)) }

def step (E : ElemOps ε) (O : Obj ε) : Op ε → Except NDErr (Obj ε)
  | .getitem k => O.getitem k
  | .reshape d => O.reshape d
  | .flatten => O.flatten
  | .transpose ax => O.transpose ax
  | .squeeze => O.squeeze
  | .stack pos others => O.stack pos others
  | .unit => O.unit E
  | .inv => O.inv E
  | .neg => O.neg E

def run (E : ElemOps ε) : List (Op ε) → Obj ε → Except NDErr (Obj ε)
  | [], O => .ok O
  | op :: r, O => do
    let O' ← O.step E op
    run E r O'

end Obj

/-! ## the index object: elements as (source position, history of element-wise operations) -/

inductive EOp where
  | unit | inv | neg
  deriving Repr, DecidableEq

/-- symbolic element: which source element it is and which element-wise operations were applied to it
(most recent first) -/
structure SymE where
  src : Nat
  hist : List EOp
  deriving Repr, DecidableEq

def symOps : ElemOps SymE where
  unit s := ⟨s.src, .unit :: s.hist⟩
  inv s := ⟨s.src, .inv :: s.hist⟩
  neg s := ⟨s.src, .neg :: s.hist⟩

def applyE {ε : Type} (E : ElemOps ε) : EOp → ε → ε
  | .unit => E.unit
  | .inv => E.inv
  | .neg => E.neg

/-- value of a symbolic element: look the source element up, apply the recorded operations (oldest first) -/
def evalSym {ε : Type} (E : ElemOps ε) (lookup : Nat → ε) (s : SymE) : ε :=
  s.hist.foldr (applyE E) (lookup s.src)

end Orix
