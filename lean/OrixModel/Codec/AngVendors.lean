import OrixModel.Codec.Ang
/-
Format descriptions of the vendor variants of the .ang format (C15): EDAX TSL (10 or 14 columns), EMsoft
`EMdpmerge` (8 columns), NanoMegas ASTAR Index (9 columns).  (The orix variant is `Ang.writeAng`, C14.)

`encodeAng fmt x m` is the file a vendor program would write for the map `m`: the column order, header
fields, angular unit and not-indexed convention are those documented in the reader's docstring and in the
synthetic files the repository's own fixtures write; `x` holds what a file contains beyond the map
(material names next to formulas, the symmetry spelling, the phase number written for a not-indexed point).
The reader that must invert it is `Ang.readAng`, instantiated with the tables generated from the source.
-/
namespace Orix.Codec.Ang
open Orix.Codec

inductive AngFmt | tsl | tslWide | emsoft | astar
deriving DecidableEq, Repr, Inhabited

/-- column order of each variant (format description) -/
def fmtColumns : AngFmt → List Str
  | .tsl => [S "euler1", S "euler2", S "euler3", S "x", S "y", S "iq", S "ci", S "phase_id",
             S "detector_signal", S "fit"]
  | .tslWide => [S "euler1", S "euler2", S "euler3", S "x", S "y", S "iq", S "ci", S "phase_id",
                 S "detector_signal", S "fit", S "unknown1", S "unknown2", S "unknown3", S "unknown4"]
  | .emsoft => [S "euler1", S "euler2", S "euler3", S "x", S "y", S "iq", S "dp", S "phase_id"]
  | .astar => [S "euler1", S "euler2", S "euler3", S "x", S "y", S "ind", S "rel", S "phase_id", S "relx100"]

/-- the columns that are not map properties -/
def specialNames : List Str := [S "euler1", S "euler2", S "euler3", S "x", S "y", S "phase_id"]

def fmtProps (f : AngFmt) : List Str := (fmtColumns f).filter fun n => !specialNames.contains n

/-- EDAX TSL marks not-indexed points with confidence index -1 -/
def fmtCiRule : AngFmt → Bool
  | .tsl | .tslWide => true
  | _ => false

def fmtUnit : AngFmt → Str
  | .astar => S "nm"
  | _ => S "um"

/-- file-only information of one phase block -/
structure PhaseX where
  mat : List Str        -- tokens after `MaterialName` (TSL, EMsoft: free text; ASTAR: the phase name)
  sym : Str             -- spelling after `Symmetry` (e.g. `43` for 432)
deriving DecidableEq, Repr, Inhabited

structure AngExtras where
  phases : List PhaseX     -- aligned with the phases of the map (without `not_indexed`)
  niPhase : Int            -- phase number a TSL file carries at a not-indexed point
deriving DecidableEq, Repr, Inhabited

/-- value of the column called `n` at point `p` -/
def field (propNames : List Str) (p : Pt) (n : Str) : Int :=
  if n = S "euler1" then p.eu.p1 else if n = S "euler2" then p.eu.pp else if n = S "euler3" then p.eu.p2
  else if n = S "x" then p.x else if n = S "y" then p.y else if n = S "phase_id" then p.phaseId
  else (lookupStr n (propNames.zip p.vals)).getD 0

/-- header block of a phase -/
def vendorBlock (f : AngFmt) (p : PhaseInfo) (x : PhaseX) : List HLine :=
  match f with
  | .astar =>
    [.materialName x.mat, .formula [], .symmetry x.sym, .lattice p.lattice, .other, .other]
  | .emsoft =>
    [.phase p.id.toNat, .materialName x.mat, .formula [p.name], .mark .emsoft, .symmetry x.sym,
     .lattice p.lattice, .other]
  | _ =>
    [.phase p.id.toNat, .materialName x.mat, .formula [p.name], .other, .symmetry x.sym,
     .lattice p.lattice, .other, .other, .other, .other]

def vendorBlocks (f : AngFmt) : List PhaseInfo → List PhaseX → List HLine
  | p :: ps, x :: xs => vendorBlock f p x ++ vendorBlocks f ps xs
  | _, _ => []

def realPhases (m : PMap) : List PhaseInfo := m.phases.filter (·.id != -1)

/-- the vendor file of a map -/
def encodeAng (f : AngFmt) (x : AngExtras) (m : PMap) : AngFile :=
  let names := fmtColumns f
  let hdr : List HLine :=
    (if f = .astar then [.mark .astar, .other, .other, .other] else [.other, .other, .other, .other, .other, .other])
    ++ vendorBlocks f (realPhases m) x.phases
    ++ [.other, .other, .other, .other, .other, .other, .other]
  let fix (p : Pt) : Pt := if fmtCiRule f && p.phaseId == -1 then { p with phaseId := x.niPhase } else p
  { header := hdr, ncols := names.length,
    rows := m.pts.map fun p => names.map (field m.propNames (fix p)),
    widths := [] }

end Orix.Codec.Ang
