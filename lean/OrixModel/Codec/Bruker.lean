import OrixModel.Codec.AngVendors
import OrixModel.Codec.H5
/-
Model of `orix/io/plugins/bruker_h5ebsd.py` (Bruker Nano h5ebsd, Hough indexing) and the format description
for C15.  `BrukerFile` lists the datasets the reader looks at (after the generic `hdf5group2dict`): header
`Grid Type`, `NROWS`, `NCOLS`, `Phases/<id>/…`; data arrays; optional `SEM/IY`, `SEM/IX` giving the map row
and column of every data point (region of interest stored in acquisition order).  Euler angles in degrees.
-/
namespace Orix.Codec.Bruker
open Orix.Codec

structure BPhase where
  id : Int
  name : Str
  it : Int                   -- space-group number
  lattice : List Int
  atoms : List (List Str)    -- `AtomPositions/<k>`: comma-separated fields
deriving DecidableEq, Repr, Inhabited

structure BrukerFile where
  gridType : Str
  nrows : Int
  ncols : Int
  iy : Option (List Int)
  ix : Option (List Int)
  phases : List BPhase
  phase : List Int
  euler : List (Str × List Int)   -- the three angle datasets by name
  data : List (Str × List Int)    -- the other data arrays by dataset name
deriving DecidableEq, Repr, Inhabited

structure BrukerTables where
  props : List (Str × Str)        -- property name ↦ dataset name
  eulerDatasets : List Str
  degrees : Bool
  yProp : Str
  xProp : Str
  sortedAttrs : List Str          -- attributes re-ordered with `[map_order]`
  sortsProps : Bool
  reversedAttrs : List Str
  notIndexedId : Int
  unit : Str
  gridValue : Str
  phase : H5.PhaseTables
deriving Repr, Inhabited

def minOf : List Int → Int
  | [] => 0
  | a :: r => r.foldl min a
def maxOf : List Int → Int
  | [] => 0
  | a :: r => r.foldl max a

/-- insertion sort of (key, index) pairs by key, stable -/
def insertKV (e : Int × Nat) : List (Int × Nat) → List (Int × Nat)
  | [] => [e]
  | f :: r => if e.1 ≤ f.1 then e :: f :: r else f :: insertKV e r
/-- `np.argsort` (keys distinct in every readable file) -/
def argsort (keys : List Int) : List Nat :=
  ((Ang.zipIdxFrom 0 keys).map (fun jk => (jk.2, jk.1))).foldr insertKV [] |>.map (·.2)

/-- `a[order]` -/
def take {α} (a : List α) (order : List Nat) : Option (List α) := order.mapM (a[·]?)

/-- numbers of distinct values and whether consecutive: `np.all(np.diff(np.sort(unique)) == 1)` -/
def consecutive (l : List Int) : Bool :=
  let u := uniqSorted l
  (u.zip u.tail).all fun ab => ab.2 - ab.1 == 1
/-- `_roi_is_rectangular` -/
def roiRectangular (rows cols : List Int) : Bool :=
  consecutive rows && consecutive cols &&
  (uniqSorted ((uniqSorted rows).map fun v => (rows.count v : Int))).length == 1 &&
  (uniqSorted ((uniqSorted cols).map fun v => (cols.count v : Int))).length == 1

/-- `str2atom` -/
def atomOf (fields : List Str) : Option AtomInfo :=
  match fields with
  | el :: a :: b :: c :: rest =>
    match (a :: b :: c :: rest).getLast? with
    | some occ =>
      match (Str.show occ).toInt? with
      | some o => some { element := el, xyz := [a, b, c], occ := o }
      | none => none
    | none => none
  | _ => none

def phaseOf (t : BrukerTables) (p : BPhase) : Option PhaseInfo :=
  if p.it < 0 then none
  else
    match H5.mkPhase t.phase (some p.it.toNat) none, p.atoms.mapM atomOf with
    | some (sg, pg), some atoms =>
      some { id := p.id, name := p.name, pg := pg, sg := sg, lattice := p.lattice, atoms := atoms }
    | _, _ => none

def applyOrder {α} (flag : Bool) (order : Option (List Nat)) (a : List α) : Option (List α) :=
  match flag, order with
  | true, some o => take a o
  | _, _ => some a

def mkPts : List Int → List Int → List Int → List Euler → List (List Int) → List Pt
  | x :: xs, y :: ys, p :: ps, e :: es, v :: vs => ⟨x, y, p, e, v⟩ :: mkPts xs ys ps es vs
  | _, _, _, _, _ => []

def transpose (cols : List (List Int)) (n : Nat) : List (List Int) :=
  (List.range n).map fun j => cols.map fun c => (c[j]?).getD 0

def mkEulers : List Int → List Int → List Int → List Euler
  | a :: as, b :: bs, c :: cs => ⟨a, b, c⟩ :: mkEulers as bs cs
  | _, _, _ => []

/-- `file_reader` + `CrystalMap.__init__`; `none`: the code raises -/
def decode (t : BrukerTables) (f : BrukerFile) : Option PMap :=
  let n := f.phase.length
  -- set_map_shape
  let roi : Option (List Int × List Int × Int × Bool) := match f.iy, f.ix with
    | some iy, some ix =>
      let r0 := minOf iy
      let c0 := minOf ix
      some (iy.map (· - r0), ix.map (· - c0), maxOf ix - c0 + 1, roiRectangular iy ix)
    | _, _ => none
  let rectangular := match roi with | some (_, _, _, r) => r | none => true
  if ¬ (f.gridType = t.gridValue ∧ rectangular = true) then none
  else
    -- set_properties
    match t.props.mapM (fun pd => lookupStr pd.2 f.data), t.eulerDatasets.mapM (fun d => lookupStr d f.euler),
          f.phases.mapM (phaseOf t) with
    | some cols, some [e1, e2, e3], some phases0 =>
      if ¬ (cols.all (·.length == n) ∧ e1.length = n ∧ e2.length = n ∧ e3.length = n ∧ 2 ≤ n) then none
      else
        match lookupStr t.yProp (t.props.map (·.1) |>.zip cols), lookupStr t.xProp (t.props.map (·.1) |>.zip cols) with
        | some ys, some xs =>
          let y := ys.map (· - minOf ys)
          let x := xs.map (· - minOf xs)
          -- set_phase_list
          let hasNI := f.phase.contains t.notIndexedId
          let pid := f.phase.map fun p => if p = t.notIndexedId then -1 else p
          let pl0 := sortById phases0
          let pl1 := if hasNI then notIndexedPhase :: pl0.filter (·.id != -1) else pl0
          -- final_preparations
          let order : Option (List Nat) := match roi with
            | some (rows, cols', ncols, _) => some (argsort ((rows.zip cols').map fun rc => rc.1 * ncols + rc.2))
            | none => none
          match applyOrder (t.sortedAttrs.contains (S "x")) order x,
                applyOrder (t.sortedAttrs.contains (S "y")) order y,
                applyOrder (t.sortedAttrs.contains (S "phase_id")) order pid,
                applyOrder (t.sortedAttrs.contains (S "rotations")) order (mkEulers e1 e2 e3),
                cols.mapM (applyOrder t.sortsProps order) with
          | some x1, some y1, some pid1, some eu1, some cols1 =>
            let x2 := if t.reversedAttrs.contains (S "x") then x1.reverse else x1
            let pts := mkPts x2 y1 pid1 eu1 (transpose cols1 n)
            match reconcile pid1 pl1 with
            | none => none
            | some pl =>
              some { propNames := t.props.map (·.1), pts := pts, phases := pl, unit := t.unit, degrees := t.degrees }
          | _, _, _, _, _ => none
        | _, _ => none
    | _, _, _ => none

/-! ### format description -/

/-- what a file contains beyond the map -/
structure BrukerExtras where
  useRoi : Bool               -- whether `SEM/IY`, `SEM/IX` are present
  perm : List Nat             -- file position k holds the map point `perm[k]` (row-major index)
  nrows : Nat
  ncols : Nat
  iy0 : Int
  ix0 : Int
  x0 : Int                    -- offsets of the stage coordinates
  y0 : Int
  atoms : List (List (List Str))   -- atom strings of each phase
  it : List Int               -- space-group number of each phase
deriving DecidableEq, Repr, Inhabited

/-- dataset names of the thirteen property arrays, in the documented order -/
def fmtProps : List (Str × Str) :=
  [(S "PCX", S "PCX"), (S "PCY", S "PCY"), (S "DD", S "DD"), (S "MAD", S "MAD"), (S "MADPhase", S "MADPhase"),
   (S "NIndexedBands", S "NIndexedBands"), (S "RadonBandCount", S "RadonBandCount"),
   (S "RadonQuality", S "RadonQuality"), (S "XBEAM", S "X BEAM"), (S "YBEAM", S "Y BEAM"),
   (S "XSAMPLE", S "X SAMPLE"), (S "YSAMPLE", S "Y SAMPLE"), (S "ZSAMPLE", S "Z SAMPLE")]

def bphasesOf : List PhaseInfo → List Int → List (List (List Str)) → List BPhase
  | p :: ps, i :: is, a :: as => ⟨p.id, p.name, i, p.lattice, a⟩ :: bphasesOf ps is as
  | _, _, _ => []

/-- the Bruker file of a map whose points are given in row-major order.  The stage coordinates of the
file are the `XSAMPLE`/`YSAMPLE` properties of the map (x is stored mirrored: the reader's `x` of point `j`
is `XSAMPLE - min` of point `N-1-j`); phase 0 stands for not indexed; Euler angles are in degrees; the data
arrays are stored in acquisition order `perm`. -/
def encode (x : BrukerExtras) (m : PMap) : BrukerFile :=
  let real := m.phases.filter (·.id != -1)
  let nat (g : Pt → Int) : List Int := x.perm.map fun j => match m.pts[j]? with | some p => g p | none => 0
  let col (k : Nat) : List Int := nat fun p => (p.vals[k]?).getD 0
  { gridType := S "isometric", nrows := x.nrows, ncols := x.ncols,
    iy := if x.useRoi then some (x.perm.map fun j => ((j / x.ncols : Nat) : Int) + x.iy0) else none,
    ix := if x.useRoi then some (x.perm.map fun j => ((j % x.ncols : Nat) : Int) + x.ix0) else none,
    phases := bphasesOf real x.it x.atoms,
    phase := nat fun p => if p.phaseId = -1 then 0 else p.phaseId,
    euler := [(S "phi1", nat (·.eu.p1)), (S "PHI", nat (·.eu.pp)), (S "phi2", nat (·.eu.p2))],
    data := (Ang.zipIdxFrom 0 fmtProps).map fun kp => (kp.2.2, col kp.1) }

end Orix.Codec.Bruker
