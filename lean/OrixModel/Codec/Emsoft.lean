import OrixModel.Codec.AngVendors
import OrixModel.Codec.H5
/-
Model of `orix/io/plugins/emsoft_h5ebsd.py` (EMsoft dictionary-indexing dot-product file) and the format
description for C15.  A point has `k` top matches: `k` rotations (indices into the dictionary of Euler
angles, 1-based, in degrees) or one refined rotation (radians), and properties with one or `k` values.
-/
namespace Orix.Codec.Emsoft
open Orix.Codec

/-- a point with several rotations / values per property -/
structure KPt where
  x : Int
  y : Int
  phaseId : Int
  eus : List Euler
  vals : List (List Int)
deriving DecidableEq, Repr, Inhabited

structure KMap where
  propNames : List Str
  pts : List KPt
  phases : List PhaseInfo
  unit : Str
  degrees : Bool
deriving DecidableEq, Repr, Inhabited

/-- a property dataset: its shape and values (C order) -/
structure EProp where
  name : Str
  shape : List Nat
  vals : List Int
deriving DecidableEq, Repr, Inhabited

structure EmsoftFile where
  nRows : Int
  nColumns : Int
  stepY : Int
  materialName : Str           -- `Phase/1/MaterialName`, e.g. `fe4al13/fe4al13`
  pointGroup : Str             -- `Phase/1/Point Group`, e.g. `Monoclinic b (C2h) [2/m]`
  lattice : List Int           -- `Lattice Constant a … gamma`
  xPosition : List Int
  phase : List Int
  nnk : Int                    -- `NMLparameters/EBSDIndexingNameListType/nnk`
  fzcnt : Int
  dictEuler : List Euler       -- `DictionaryEulerAngles` (degrees)
  topMatchIdx : List (List Int)
  refinedEuler : Option (List Euler)
  props : List EProp
deriving DecidableEq, Repr, Inhabited

structure EmsoftTables where
  props : List Str
  refinedDegrees : Bool
  dictDegrees : Bool
  indexBase : Int
  unit : Str
  aliases : List (Str × List Str)
  groups : List Str
deriving Repr, Inhabited

def isWord (c : Nat) : Bool := (65 ≤ c && c ≤ 122) || (48 ≤ c && c ≤ 57)   -- `[A-z0-9]`

/-- `re.search(r"([A-z0-9]+)", s).group(1)`: the first run of word characters -/
def firstWord (s : Str) : Option Str :=
  match s.dropWhile (fun c => !isWord c) with
  | [] => none
  | r => some (r.takeWhile isWord)

def isPgChar (c : Nat) : Bool := isWord c || c == 47 || c == 45   -- word characters, slash, minus

/-- the point-group regular expression of `dict2phase`: the first bracketed run of such characters -/
def bracketed : Str → Option Str
  | [] => none
  | 91 :: r =>
    -- greedy run with backtracking: the longest prefix of the run that is followed by `]`
    -- (the class `A-z` contains `[`, `]` themselves)
    let run := r.takeWhile isPgChar
    match ((List.range run.length).reverse.map (· + 1)).find? (fun k => r[k]? == some 93) with
    | some k => some (r.take k)
    | none => bracketed r
  | _ :: r => bracketed r

def chunk (k : Nat) : Nat → List Int → List (List Int)
  | 0, _ => []
  | n + 1, l => l.take k :: chunk k n (l.drop k)

/-- `set_properties` for one dataset -/
def propCol (n : Nat) (nnk : Int) (p : EProp) : Option (List (List Int)) :=
  let size := p.shape.foldl (· * ·) 1
  if p.vals.length ≠ size then none
  else if (p.shape.getLast?.map (fun (d : Nat) => (d : Int))) == some nnk && size > n then
    some (chunk nnk.toNat n p.vals)
  else if size = n then some (p.vals.map fun v => [v]) else none

def mkKPts : List Int → List Int → List Int → List (List Euler) → List (List (List Int)) → List KPt
  | x :: xs, y :: ys, p :: ps, e :: es, v :: vs => ⟨x, y, p, e, v⟩ :: mkKPts xs ys ps es vs
  | _, _, _, _, _ => []

def transposeK (cols : List (List (List Int))) (n : Nat) : List (List (List Int)) :=
  (List.range n).map fun j => cols.map fun c => (c[j]?).getD []

/-- `file_reader(refined=…)` + `CrystalMap.__init__` -/
def decode (t : EmsoftTables) (refined : Bool) (f : EmsoftFile) : Option KMap :=
  match firstWord f.materialName, bracketed f.pointGroup with
  | some name, some pgs =>
    match resolvePG t.aliases t.groups pgs with
    | none => none
    | some pg =>
      if f.nRows < 0 ∨ f.nColumns < 0 then none
      else
        let ny := f.nRows.toNat
        let nx := f.nColumns.toNat
        let n := ny * nx
        if ¬ (f.xPosition.length = n ∧ f.phase.length = n ∧ 2 ≤ n) then none
        else
          -- np.sort(np.tile(np.arange(ny) * step_y, nx))
          let y := (List.range n).map fun j => ((j / nx : Nat) : Int) * f.stepY
          let eus? : Option (List (List Euler)) :=
            if refined then
              match f.refinedEuler with
              | some l => if l.length = n then some (l.map fun e => [e]) else none
              | none => none
            else
              (f.topMatchIdx.take n).mapM fun row => row.mapM fun i =>
                Ang.pyGet (f.dictEuler.take f.fzcnt.toNat) (i - t.indexBase)
          match eus?, (t.props.filterMap fun nm => f.props.find? (·.name == nm)).mapM (fun p => (propCol n f.nnk p).map fun c => (p.name, c)) with
          | some eus, some cols =>
            if eus.length ≠ n then none
            else
              let phase0 : PhaseInfo := { id := 0, name := name, pg := some pg, sg := none, lattice := f.lattice, atoms := [] }
              match reconcile f.phase [phase0] with
              | none => none
              | some pl =>
                some { propNames := cols.map (·.1),
                       pts := mkKPts f.xPosition y f.phase eus (transposeK (cols.map (·.2)) n),
                       phases := pl, unit := t.unit,
                       degrees := if refined then t.refinedDegrees else t.dictDegrees }
          | _, _ => none
  | _, _ => none

/-! ### format description -/

structure EmsoftExtras where
  nrows : Nat
  ncols : Nat
  stepY : Int
  materialName : Str     -- e.g. `Ni/Ni`
  pointGroup : Str       -- e.g. `Cubic (Oh) [m-3m]`
  refined : Bool
  nnk : Nat
  dict : List Euler      -- dictionary of orientations (degrees)
  idx : List (List Int)  -- 1-based top-match indices of every point
  propShapes : List (List Nat)
deriving DecidableEq, Repr, Inhabited

/-- the EMsoft file of a map: rotations are given either as refined angles (one per point, radians) or as
indices into the dictionary; a property with `k` values per point is stored as an `(n, k)` dataset -/
def encode (x : EmsoftExtras) (m : KMap) : EmsoftFile :=
  { nRows := x.nrows, nColumns := x.ncols, stepY := x.stepY, materialName := x.materialName,
    pointGroup := x.pointGroup,
    lattice := match m.phases.filter (·.id != -1) with | p :: _ => p.lattice | [] => [],
    xPosition := m.pts.map (·.x), phase := m.pts.map (·.phaseId), nnk := x.nnk, fzcnt := x.dict.length,
    dictEuler := x.dict, topMatchIdx := x.idx,
    refinedEuler := if x.refined then some (m.pts.map fun p => (p.eus.head?).getD ⟨0, 0, 0⟩) else none,
    props := (Ang.zipIdxFrom 0 m.propNames).map fun kn =>
      { name := kn.2, shape := (x.propShapes[kn.1]?).getD [],
        vals := m.pts.flatMap fun p => (p.vals[kn.1]?).getD [] } }

end Orix.Codec.Emsoft
