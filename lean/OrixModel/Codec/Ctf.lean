import OrixModel.Codec.Rec
import OrixModel.Codec.AngVendors
import OrixModel.Codec.H5
/-
Model of `orix/io/plugins/ctf.py` (Channel Text File) and the format descriptions of its vendor variants
(Oxford AZtec / Bruker Esprit, EMsoft `EMdpmerge`, NanoMegas ASTAR Index, MTEX) for C15.

`CtfFile` is a format description: the header fields the reader looks at and the table of numeric rows
(integers in the unit of the text column: Euler angles are in **degrees**).  `readCtf` mirrors `file_reader`
(vendor patterns, `Phases` block with Laue-class numbers, column names, EMsoft renaming, ASTAR coordinate
repair, phase 0 = not indexed, `degrees=True`) followed by the `Phase` constructor and `CrystalMap.__init__`.
-/
namespace Orix.Codec.Ctf
open Orix.Codec

/-- a line of the `Phases` block: `a;b;c <tab> alpha;beta;gamma <tab> name <tab> LaueId <tab> SpaceGroup …` -/
structure PhaseLine where
  lattice : List Int
  name : Str
  laue : Int
  sg : Int
deriving DecidableEq, Repr, Inhabited

structure CtfFile where
  marks : List Str               -- vendor patterns matched by header lines (one entry per matching line)
  xcells : Option Int
  ycells : Option Int
  xstep : Option Int
  ystep : Option Int
  nPhases : Nat                  -- the number after `Phases`
  phaseLines : List PhaseLine    -- the lines that follow
  ncols : Nat
  rows : List (List Int)
deriving DecidableEq, Repr, Inhabited

/-- tables and constants of the reader (generated from the source) -/
structure CtfTables where
  columns : List Str
  emsoftMapping : List (Str × Str)
  dataKeys : List Str
  laueIds : List Str
  notIndexedId : Int
  unit : Str
  degrees : Bool
  vendorPatterns : List Str
  defaultVendor : Str
  coordFixVendor : Str
  emsoftVendor : Str
  phase : H5.PhaseTables
deriving Repr, Inhabited

/-- `vendor[0] if len(vendor) == 1 else "oxford_or_bruker"` -/
def vendorOf (t : CtfTables) (marks : List Str) : Str :=
  match marks.filter (t.vendorPatterns.contains ·) with
  | [v] => v
  | _ => t.defaultVendor

/-- python `round` half to even of `a / b` for `b > 0` -/
def roundHalfEven (a b : Int) : Int :=
  let q := Int.fdiv a b
  let r := a - q * b
  if 2 * r < b then q else if 2 * r > b then q + 1 else if q % 2 = 0 then q else q + 1

/-- `_step_size_from_coordinates` -/
def stepOf (c : List Int) : Int :=
  match uniqSorted c with
  | a :: b :: _ => b - a
  | _ => 0

/-- `slice.stop` of `_data_slices_from_coordinates` for one coordinate array (`none`: step 0, no slice) -/
def sliceStop (c : List Int) : Option Int :=
  let step := stepOf c
  if step = 0 then none
  else match uniqSorted c with
    | [] => none
    | l => some (roundHalfEven (l.getLast?.getD 0) step + 1)

/-- `_fix_astar_coords`: regenerate the coordinates from the header when the shape found from the
coordinate columns differs from the header's.  `none`: the code raises. -/
def fixAstar (f : CtfFile) (pts : List Pt) : Option (List Pt) :=
  match sliceStop (pts.map (·.x)), sliceStop (pts.map (·.y)) with
  | some sx, some sy =>
    match f.xcells, f.ycells with
    | some xc, some yc =>
      -- found_shape = (slices[0].stop + 1, slices[1].stop + 1) with slices in (x, y) order;
      -- shape = (cells["y"], cells["x"])
      if (sx + 1, sy + 1) ≠ (yc, xc) then
        match f.xstep, f.ystep with
        | some dx, some dy =>
          if 0 ≤ xc ∧ 0 ≤ yc ∧ pts.length = (yc * xc).toNat then
            some ((Ang.zipIdxFrom 0 pts).map fun jp =>
              { jp.2 with x := ((jp.1 % xc.toNat : Nat) : Int) * dx, y := ((jp.1 / xc.toNat : Nat) : Int) * dy })
          else none
        | _, _ => none
      else some pts
    | _, _ => none
  | _, _ => none

/-- one phase of the header -/
def phaseOf (t : CtfTables) (i : Nat) (l : PhaseLine) : Option PhaseInfo :=
  match Ang.pyGet t.laueIds (l.laue - 1) with
  | none => none
  | some pgs =>
    if l.sg < 0 then none
    else
      let sg : Option Nat := if l.sg = 0 then none else some l.sg.toNat
      match H5.mkPhase t.phase sg (some pgs) with
      | none => none
      | some (sg', pg') => some { id := (i : Int), name := l.name, pg := pg', sg := sg', lattice := l.lattice, atoms := [] }

def phasesOf (t : CtfTables) : Nat → List PhaseLine → Option (List PhaseInfo)
  | _, [] => some []
  | i, l :: r =>
    match phaseOf t i l, phasesOf t (i + 1) r with
    | some p, some ps => some (p :: ps)
    | _, _ => none

/-- property names after the EMsoft renaming -/
def propNameOf (t : CtfTables) (vendor : Str) (n : Str) : Str :=
  if vendor = t.emsoftVendor then (lookupStr n t.emsoftMapping).getD n else n

/-- `file_reader` -/
def readCtf (t : CtfTables) (f : CtfFile) : Option PMap :=
  let vendor := vendorOf t f.marks
  if f.phaseLines.length < f.nPhases then none
  else
    match phasesOf t 1 (f.phaseLines.take f.nPhases) with
    | none => none
    | some phases =>
      if ¬ (t.columns.length ≤ f.ncols ∧ f.rows.all (fun r => r.length == f.ncols)) then none
      else
        let rawProps := t.columns.filter fun n => !t.dataKeys.contains n
        match f.rows.mapM (Ang.rowToPt t.columns rawProps) with
        | none => none
        | some pts0 =>
          let pts1? := if vendor = t.coordFixVendor then fixAstar f pts0 else some pts0
          match pts1? with
          | none => none
          | some pts1 =>
            let pts := pts1.map fun p => if p.phaseId = t.notIndexedId then { p with phaseId := -1 } else p
            match reconcile (pts.map (·.phaseId)) phases with
            | none => none
            | some pl =>
              some { propNames := rawProps.map (propNameOf t vendor), pts := pts, phases := pl,
                     unit := t.unit, degrees := t.degrees }

/-! ### format descriptions -/

inductive CtfFmt | oxford | emsoft | astar | mtex
deriving DecidableEq, Repr, Inhabited

/-- column order of the format -/
def fmtColumns : List Str :=
  [S "phase_id", S "x", S "y", S "bands", S "error", S "euler1", S "euler2", S "euler3", S "MAD", S "BC", S "BS"]

/-- names under which the three quality columns are documented to come back -/
def fmtProps : CtfFmt → List Str
  | .emsoft => [S "bands", S "error", S "DP", S "OSM", S "IQ"]
  | _ => [S "bands", S "error", S "MAD", S "BC", S "BS"]

def fmtMarks : CtfFmt → List Str
  | .oxford => []
  | .emsoft => [S "emsoft"]
  | .astar => [S "astar"]
  | .mtex => [S "mtex"]

/-- what a file contains beyond the map -/
structure CtfExtras where
  laue : List Int          -- Laue-class number of each phase
  sg : List Int            -- space-group number of each phase (0: none)
  xcells : Int
  ycells : Int
  xstep : Int
  ystep : Int
  fileX : List Int         -- ASTAR: the (rounded) coordinate columns of the file
  fileY : List Int
deriving DecidableEq, Repr, Inhabited

def phaseLinesOf : List PhaseInfo → List Int → List Int → List PhaseLine
  | p :: ps, l :: ls, s :: ss => ⟨p.lattice, p.name, l, s⟩ :: phaseLinesOf ps ls ss
  | _, _, _ => []

def zip3 : List Pt → List Int → List Int → List Pt
  | p :: ps, x :: xs, y :: ys => { p with x := x, y := y } :: zip3 ps xs ys
  | _, _, _ => []

/-- the vendor file of a map: phases numbered 1 … n in header order, phase 0 for not-indexed points,
Euler angles in degrees -/
def encodeCtf (fmt : CtfFmt) (x : CtfExtras) (m : PMap) : CtfFile :=
  let real := m.phases.filter (·.id != -1)
  let pts := if fmt = .astar then zip3 m.pts x.fileX x.fileY else m.pts
  { marks := fmtMarks fmt, xcells := some x.xcells, ycells := some x.ycells, xstep := some x.xstep,
    ystep := some x.ystep, nPhases := real.length, phaseLines := phaseLinesOf real x.laue x.sg,
    ncols := 11,
    rows := pts.map fun p =>
      fmtColumns.map (Ang.field ([S "bands", S "error", S "MAD", S "BC", S "BS"])
        (if p.phaseId = -1 then { p with phaseId := 0 } else p)) }

end Orix.Codec.Ctf
