import OrixModel.Codec.Rec
/-
Model of `orix/io/plugins/ang.py`.

* `AngFile` is a *format description* of an .ang file: header lines in the structure the reader's regular
  expressions see (a key and whitespace-separated tokens), a table of numeric rows.  Rendering such a record
  to text and `np.loadtxt`'s parsing of decimal numbers are harness glue / numpy's contract.
* All numbers are integers in units of `1/scale` (`scale = 10^decimals = 100000` for the orix writer),
  i.e. the value `%.5f` prints.  Lattice constants are in units of 1e-3 (`%.3f`).
* `readAng` mirrors `file_reader`: vendor footprint, column-name tables (passed in as `ReaderTables`, which
  the proofs instantiate with the tables *generated from the source*), phase blocks, `ci == -1` rule,
  scan unit, and the phase-list reconciliation of `CrystalMap.__init__`.
* `writeAng` mirrors `file_writer` on the view of the map the writer asks `CrystalMap` for
  (`GridIn`: rows × columns of the in-data extent, row-major, masked points flagged).
* `quantise` is the documented loss (specification side of C14).
-/
namespace Orix.Codec.Ang
open Orix.Codec

inductive Vendor | tsl | emsoft | astar | orix | unknown
deriving DecidableEq, Repr, Inhabited

/-- a header line -/
inductive HLine
  | phase (id : Nat)                    -- `# Phase 2`
  | materialName (toks : List Str)      -- `# MaterialName  Iron Titanium Oxide`
  | formula (toks : List Str)           -- `# Formula  FeTiO3`
  | symmetry (s : Str)                  -- `# Symmetry  43`
  | lattice (v : List Int)              -- `# LatticeConstants a b c alpha beta gamma` (unit 1e-3)
  | columnNames (names : List Str)      -- `# Column names: phi1, Phi, phi2, …` (orix)
  | mark (v : Vendor)                   -- any line containing the footprint text of vendor `v`
  | grid (key : Str) (v : Int)          -- XSTEP / YSTEP / NCOLS_ODD / NCOLS_EVEN / NROWS (not read back)
  | other                               -- anything else
deriving DecidableEq, Repr, Inhabited

structure AngFile where
  header : List HLine
  ncols : Nat
  rows : List (List Int)
  widths : List Nat        -- printf widths of the float columns (whitespace to the reader)
deriving DecidableEq, Repr, Inhabited

/-! ## reader -/

/-- the tables and constants of the reader; generated from the source in `OrixGen.IoTables` -/
structure ReaderTables where
  footprintOrder : List Vendor              -- key order of `vendor_footprint`
  orixFootprintNames : List Str             -- names in the orix footprint `Column names: phi1, Phi, phi2`
  columns : List (Vendor × List (List Str)) -- `column_names`
  dataKeys : List Str                       -- keys of `data_dict`
  notIndexedVendors : List Vendor           -- vendors with the `ci == -1` rule
  ciName : Str
  ciSentinel : Int                          -- in units of 1
  astarUnit : Str
  defaultUnit : Str
  aliases : List (Str × List Str)           -- `point_group_aliases`
  groups : List Str                         -- names of `symmetry._groups`
deriving Repr, Inhabited

def isPrefix : Str → Str → Bool
  | [], _ => true
  | _ :: _, [] => false
  | a :: r, b :: s => a == b && isPrefix r s

def listPrefix (p l : List Str) : Bool := p.length ≤ l.length && l.take p.length == p

/-- the line in which the footprint of vendor `v` is found first, if any (`some none`: found, content
irrelevant; `some (some names)`: the orix `Column names:` line) -/
def findMark (t : ReaderTables) (v : Vendor) : List HLine → Option (Option (List Str))
  | [] => none
  | .mark w :: r => if w = v then some none else findMark t v r
  | .columnNames names :: r =>
    if v = .orix ∧ listPrefix t.orixFootprintNames names then some (some names) else findMark t v r
  | _ :: r => findMark t v r

/-- vendor detection: later entries of `vendor_footprint` override earlier ones -/
def detectVendor (t : ReaderTables) (h : List HLine) : Vendor × Option (List Str) :=
  t.footprintOrder.foldl
    (fun acc v => match findMark t v h with
      | some l => (v, l.join)
      | none => acc)
    (Vendor.tsl, none)

def lookupV {β} (v : Vendor) : List (Vendor × β) → Option β
  | [] => none
  | (w, x) :: r => if w = v then some x else lookupV v r

/-- `"unknown" + str(i + 3)` -/
def unknownName (i : Nat) : Str := S "unknown" ++ S (toString (i + 3))

/-- the part of `_get_vendor_columns` after vendor detection (no orix `Column names:` line): the variant of
the vendor's table with the file's number of columns, or — with a warning — the generic names -/
def columnsFor (t : ReaderTables) (vendor : Vendor) (nColsFile : Nat) : Option (Vendor × List Str × Bool) :=
  match lookupV vendor t.columns with
  | none => none
  | some variants =>
    if (variants.map List.length).contains nColsFile then
      match variants.find? (fun c => c.length == nColsFile) with
      | some c => some (vendor, c, false)
      | none => none
    else
      match (lookupV Vendor.unknown t.columns).bind List.head? with
      | none => none
      | some base =>
        let extra := (List.range (nColsFile - base.length)).map unknownName
        some (Vendor.unknown, base ++ extra, true)

/-- `_get_vendor_columns`: vendor, column names, whether the "unexpected number of columns" warning is
issued.  `none`: a table the code indexes is missing. -/
def vendorColumns (t : ReaderTables) (h : List HLine) (nColsFile : Nat) :
    Option (Vendor × List Str × Bool) :=
  match detectVendor t h with
  | (.orix, some names) =>
    match (lookupV Vendor.orix t.columns).bind List.head? with
    | none => none
    | some base =>
      let extra := (names.drop base.length).map fun s => (Str.lstripSp s).spaceToUnderscore
      some (.orix, base ++ extra, false)
  | (vendor, _) => columnsFor t vendor nColsFile

/-- what `_get_phases_from_header` collects, one list per key -/
def hdrIds (h : List HLine) : List Nat := h.filterMap fun | .phase i => some i | _ => none
def hdrNames (h : List HLine) : List Str :=
  h.filterMap fun | .materialName (t :: ts) => some (joinSp (t :: ts)) | _ => none
/-- all words of the `Formula` field (since fb90b43) -/
def hdrFormulas (h : List HLine) : List Str :=
  h.filterMap fun | .formula (t :: ts) => some (joinSp (t :: ts)) | _ => none
/-- the reader before the fix kept only the last word of `Formula` -/
def hdrFormulasPreFix (h : List HLine) : List Str :=
  h.filterMap fun | .formula (t :: ts) => (t :: ts).getLast? | _ => none
def hdrSyms (h : List HLine) : List Str := h.filterMap fun | .symmetry s => some s | _ => none
def hdrLattices (h : List HLine) : List (List Int) := h.filterMap fun | .lattice v => some v | _ => none

/-- phase ids: header ids, or `0 … n-1` when there are none, or extended by fresh ids -/
def phaseIds (ids : List Nat) (n : Nat) : List Nat :=
  if ids.isEmpty then List.range n
  else if ids.length < n then
    let next := ids.foldl max 0 + 1
    ids ++ (List.range (n - ids.length)).map (· + next)
  else ids

/-- `PhaseList(ids=…, names=…, point_groups=…, structures=…)` for lists of equal length (`none` otherwise:
ragged headers are outside the model; `none` also when a symmetry string is not a point-group name, where
the code raises `ValueError`) -/
def zipPhases (t : ReaderTables) : List Nat → List Str → List Str → List (List Int) → Option (List PhaseInfo)
  | [], [], [], [] => some []
  | i :: is, n :: ns, g :: gs, l :: ls =>
    match resolvePG t.aliases t.groups g, zipPhases t is ns gs ls with
    | some pg, some r =>
      some ({ id := (i : Int), name := n, pg := some pg, sg := none, lattice := l, atoms := [] } :: r)
    | _, _ => none
  | _, _, _, _ => none

/-- phase list from the header, sorted by id -/
def headerPhases (t : ReaderTables) (h : List HLine) : Option (List PhaseInfo) :=
  let names := hdrNames h
  let formulas := hdrFormulas h
  let n := names.length
  let names' := if formulas.length == n && formulas.all (fun s => !s.isEmpty) then formulas else names
  (zipPhases t (phaseIds (hdrIds h) n) names' (hdrSyms h) (hdrLattices h)).map sortById

/-- value of the column called `k` -/
def getCol (names : List Str) (row : List Int) (k : Str) : Option Int := lookupStr k (names.zip row)

def rowToPt (names propNames : List Str) (row : List Int) : Option Pt :=
  match getCol names row (S "x"), getCol names row (S "y"), getCol names row (S "phase_id"),
        getCol names row (S "euler1"), getCol names row (S "euler2"), getCol names row (S "euler3"),
        propNames.mapM (getCol names row) with
  | some x, some y, some ph, some e1, some e2, some e3, some vals =>
    some { x := x, y := y, phaseId := ph, eu := ⟨e1, e2, e3⟩, vals := vals }
  | _, _, _, _, _, _, _ => none

/-- `not_indexed = prop["ci"] == -1; phase_id[not_indexed] = -1` -/
def applyCi (propNames : List Str) (ciName : Str) (sentinel : Int) (p : Pt) : Option Pt :=
  match getCol propNames p.vals ciName with
  | none => none
  | some c => some (if c = sentinel then { p with phaseId := -1 } else p)

/-- `file_reader`.  `scale`: units per 1.0 of the numeric columns.  Result: warning flag and the map.
`none`: the code raises (or the file is outside the model, see `zipPhases`, `reconcile`). -/
def readAng (t : ReaderTables) (scale : Int) (f : AngFile) : Option (Bool × PMap) :=
  match headerPhases t f.header, vendorColumns t f.header f.ncols with
  | some phases, some (vendor, names, warned) =>
    if ¬ (names.length ≤ f.ncols ∧ names.Nodup ∧ f.rows.all (fun r => r.length == f.ncols)) then none
    else
      let propNames := names.filter fun n => !t.dataKeys.contains n
      match f.rows.mapM (rowToPt names propNames) with
      | none => none
      | some pts0 =>
        let pts? := if t.notIndexedVendors.contains vendor
          then pts0.mapM (applyCi propNames t.ciName (t.ciSentinel * scale)) else some pts0
        match pts? with
        | none => none
        | some pts =>
          match reconcile (pts.map (·.phaseId)) phases with
          | none => none
          | some pl =>
            some (warned, { propNames := propNames, pts := pts, phases := pl,
                            unit := if vendor = .astar then t.astarUnit else t.defaultUnit,
                            degrees := false })
  | _, _ => none

/-! ## writer -/

/-- a map property as the writer sees it: name and whether it has one value per point or several -/
structure InProp where
  name : Str
  twoD : Bool
deriving DecidableEq, Repr, Inhabited

/-- a point of the writer's view: all rotations of the point, and for each map property (in the order of
`GridIn.props`) its value(s) at the point -/
structure InPt where
  inData : Bool
  phaseId : Int
  rots : List Euler
  vals : List (List Int)
deriving DecidableEq, Repr, Inhabited

/-- what `file_writer` asks the crystal map for.  `oneD`: `xmap.ndim == 1`; then `nrows = 1`,
`ncols = xmap.shape[0]`.  `dx`, `dy` as reported by `xmap.dx`, `xmap.dy` (units of `1/scale`). -/
structure GridIn where
  oneD : Bool
  nrows : Nat
  ncols : Nat
  dy : Int
  dx : Int
  props : List InProp
  pts : List InPt
  phases : List PhaseInfo
deriving DecidableEq, Repr, Inhabited

structure AngOpts where
  index : Option Int
  iq : Option Str
  ci : Option Str
  ds : Option Str
  fit : Option Str
  extra : Option (List Str)
deriving DecidableEq, Repr, Inhabited

/-- where a column of the written table comes from -/
inductive ColTag | e1 | e2 | e3 | x | y | p0 | p1 | phase | p2 | p3 | extras
deriving DecidableEq, Repr, Inhabited

/-- constants of the writer, generated from the source -/
structure WriterTables where
  scale : Int                      -- 10 ^ decimals
  eulerSentinel : Int              -- 4π in units
  sentIq : Int                     -- values written for not-indexed points, in units of 1
  sentCi : Int
  sentDs : Int
  sentFit : Int
  sentExtra : Int
  expIq : List Str                 -- `all_expected_prop_names`
  expCi : List Str
  expDs : List Str
  expFit : List Str
  columnOrder : List ColTag        -- order of `np.column_stack([...])`
  columnHeader : List Str          -- names in the `Column names:` header line
  proper : List (Str × Str)        -- point group name ↦ name of its proper subgroup
  aliases : List (Str × List Str)
  noPointGroup : Str               -- written when the phase has no point group
deriving Repr, Inhabited

/-- python indexing `a[i]` with negative indices -/
def pyGet {α} (l : List α) (i : Int) : Option α :=
  if 0 ≤ i then l[i.toNat]? else if (l.length : Int) + i < 0 then none else l[((l.length : Int) + i).toNat]?

/-- `[k.lower().replace("_", "") for k in prop_names]` -/
def normName (s : Str) : Str := (Str.lower s).dropChar 95

/-- index of the map property `_get_prop_array` uses for one column.
`some none`: no such property (column of zeros); `none`: the code raises `KeyError`. -/
def findProp (props : List InProp) (given : Option Str) (expected : List Str) : Option (Option Nat) :=
  let given' := match given with | some [] => none | g => g
  match given' with
  | some nm =>
    match props.findIdx? (·.name == nm) with
    | some i => some (some i)
    | none => none
  | none =>
    if props.isEmpty then some none
    else
      let lower := props.map (normName ·.name)
      match expected.find? (fun k => lower.contains k) with
      | some k => some (lower.findIdx? (· == k))
      | none => some none

/-- value of property `i` at a point: 1-D property → its value; 2-D → layer `index` (`None`/0 → 0) -/
def propVal (props : List InProp) (index : Option Int) (p : InPt) (i : Nat) : Option Int :=
  match props[i]?, p.vals[i]? with
  | some pr, some vs =>
    if pr.twoD then pyGet vs (match index with | some k => k | none => 0) else vs.head?
  | _, _ => none

/-- the rotation written for a point -/
def rotOf (index : Option Int) (p : InPt) : Option Euler :=
  match index with
  | some k => pyGet p.rots k
  | none => p.rots.head?

def phasesNoNI (pl : List PhaseInfo) : List PhaseInfo := pl.filter (·.id != -1)

/-- new phase id of a point -/
def newPhaseId (pl : List PhaseInfo) (p : InPt) : Int :=
  let dflt : Int := if pl.length > 1 then 0 else -1
  if p.inData then
    match pl.findIdx? (·.id == p.phaseId) with
    | some i => (i : Int) + 1
    | none => dflt
  else dflt

def isIndexed (p : InPt) : Bool := p.inData && p.phaseId != -1

/-- which map property feeds which column (`none`: a column of zeros) -/
structure PropCols where
  iq : Option Nat
  ci : Option Nat
  ds : Option Nat
  fit : Option Nat
  extras : List (Option Nat)
deriving DecidableEq, Repr, Inhabited

/-- the property columns resolved once for the whole map: 4 standard ones and the extras -/
def resolveProps (w : WriterTables) (o : AngOpts) (m : GridIn) : Option PropCols :=
  match findProp m.props o.iq w.expIq, findProp m.props o.ci w.expCi, findProp m.props o.ds w.expDs,
        findProp m.props o.fit w.expFit, (o.extra.getD []).mapM (fun e => findProp m.props (some e) []) with
  | some a, some b, some c, some d, some ex => some ⟨a, b, c, d, ex⟩
  | _, _, _, _, _ => none

structure OutRow where
  eu : Euler
  x : Int
  y : Int
  iq : Int
  ci : Int
  ds : Int
  fit : Int
  extras : List Int
  phase : Int
deriving DecidableEq, Repr, Inhabited

/-- value written for a property column at an indexed point -/
def colVal (m : GridIn) (index : Option Int) (p : InPt) : Option Nat → Option Int
  | none => some 0
  | some i => propVal m.props index p i

/-- `_get_nrows_ncols_step_sizes` (since 8c013c0): a 1-D map whose points lie along y (`dx = 0`, `dy ≠ 0`) is
written as one column, every other 1-D map as one row -/
def isColumn (m : GridIn) : Bool := m.oneD && m.dx == 0 && m.dy != 0
def wNrows (m : GridIn) : Nat := if m.oneD then (if isColumn m then m.ncols else 1) else m.nrows
def wNcols (m : GridIn) : Nat := if m.oneD then (if isColumn m then 1 else m.ncols) else m.ncols
def wDy (w : WriterTables) (m : GridIn) : Int := if m.oneD then (if isColumn m then m.dy else w.scale) else m.dy
def wDx (w : WriterTables) (m : GridIn) : Int := if isColumn m then w.scale else m.dx

/-- coordinates the writer before the fix gave point `j` of a 1-D map: always one row -/
def coordsPreFix (w : WriterTables) (m : GridIn) (j : Nat) : Int × Int :=
  (((j % m.ncols : Nat) : Int) * m.dx, ((j / m.ncols : Nat) : Int) * (if m.oneD then w.scale else m.dy))

/-- one point of the written table (`none`: the code raises, e.g. layer index out of range) -/
def outRow (w : WriterTables) (o : AngOpts) (m : GridIn) (cols : PropCols) (pl : List PhaseInfo)
    (j : Nat) (p : InPt) : Option OutRow :=
  let x := ((j % wNcols m : Nat) : Int) * wDx w m
  let y := ((j / wNcols m : Nat) : Int) * wDy w m
  let ph := newPhaseId pl p
  if isIndexed p then
    match rotOf o.index p, colVal m o.index p cols.iq, colVal m o.index p cols.ci,
          colVal m o.index p cols.ds, colVal m o.index p cols.fit,
          cols.extras.mapM (colVal m o.index p) with
    | some e, some a, some b, some c, some d, some ex =>
      some { eu := e, x := x, y := y, iq := a, ci := b, ds := c, fit := d, extras := ex, phase := ph }
    | _, _, _, _, _, _ => none
  else
    some { eu := ⟨w.eulerSentinel, w.eulerSentinel, w.eulerSentinel⟩, x := x, y := y,
           iq := w.sentIq * w.scale, ci := w.sentCi * w.scale, ds := w.sentDs * w.scale,
           fit := w.sentFit * w.scale, extras := cols.extras.map (fun _ => w.sentExtra * w.scale),
           phase := ph }

def colOf (r : OutRow) : ColTag → List Int
  | .e1 => [r.eu.p1] | .e2 => [r.eu.pp] | .e3 => [r.eu.p2]
  | .x => [r.x] | .y => [r.y]
  | .p0 => [r.iq] | .p1 => [r.ci] | .p2 => [r.ds] | .p3 => [r.fit]
  | .phase => [r.phase]
  | .extras => r.extras

def rowOf (w : WriterTables) (r : OutRow) : List Int := w.columnOrder.flatMap (colOf r)

/-- symmetry string of a phase in the header -/
def symmetryOf (w : WriterTables) (pg : Option Str) : Option Str :=
  match pg with
  | none => some w.noPointGroup
  | some g =>
    match lookupStr g w.proper with
    | none => none
    | some p =>
      match lookupStr p w.aliases with
      | some (a :: _) => some a
      | _ => some p

def phaseNameOf (i : Nat) (name : Str) : Str := if name.isEmpty then S "phase" ++ S (toString i) else name

/-- header block of the phase written with id `i` -/
def phaseBlock (w : WriterTables) (i : Nat) (p : PhaseInfo) : Option (List HLine) :=
  match symmetryOf w p.pg with
  | none => none
  | some sym =>
    let nm := phaseNameOf i p.name
    some [.phase i, .materialName (splitWs nm), .formula (splitWs nm), .other, .symmetry sym,
          .lattice p.lattice, .other]

/-- blocks of phases `k, k+1, …` in list order -/
def phaseBlocks (w : WriterTables) : Nat → List PhaseInfo → Option (List (List HLine))
  | _, [] => some []
  | k, p :: r =>
    match phaseBlock w k p, phaseBlocks w (k + 1) r with
    | some b, some bs => some (b :: bs)
    | _, _ => none

/-- number of characters of `str(int(v // 1))` for a value in units -/
def intDigits (scale v : Int) : Nat := (toString (Int.fdiv v scale)).length

def colWidth (scale : Int) (vals : List Int) : Nat :=
  match vals with
  | [] => 0
  | v :: r => intDigits scale (r.foldl max v) + 5 + 2

def zipIdxFrom {α} : Nat → List α → List (Nat × α)
  | _, [] => []
  | k, a :: r => (k, a) :: zipIdxFrom (k + 1) r

/-- `file_writer` -/
def writeAng (w : WriterTables) (o : AngOpts) (m : GridIn) : Option AngFile :=
  let pl := phasesNoNI m.phases
  match phaseBlocks w 1 pl, resolveProps w o m with
  | some blocks, some cols =>
    match (zipIdxFrom 0 m.pts).mapM (fun jp => outRow w o m cols pl jp.1 jp.2) with
    | none => none
    | some rows =>
      let names := w.columnHeader ++ (o.extra.getD [])
      let hdr : List HLine :=
        [.other, .other, .other, .other, .other, .other]
        ++ blocks.reverse.flatten
        ++ [.other, .grid (S "XSTEP") m.dx, .grid (S "YSTEP") m.dy, .grid (S "NCOLS_ODD") (wNcols m),
            .grid (S "NCOLS_EVEN") (wNcols m), .grid (S "NROWS") (wNrows m), .other, .other, .other, .other,
            .other, .other, .other, .columnNames names, .other]
      let pw := [colWidth w.scale (rows.map (·.iq)), colWidth w.scale (rows.map (·.ci)),
                 colWidth w.scale (rows.map (·.ds)), colWidth w.scale (rows.map (·.fit))]
        ++ (List.range cols.extras.length).map fun i => colWidth w.scale (rows.map fun r => (r.extras[i]?).getD 0)
      some { header := hdr, ncols := 10 + (o.extra.getD []).length,
             rows := rows.map (rowOf w),
             widths := [colWidth w.scale (rows.map (·.x)), colWidth w.scale (rows.map (·.y))] ++ pw }
  | _, _ => none

/-! ## specification: the documented loss -/

/-- names under which the orix .ang variant returns its four standard property columns -/
def stdPropNames : List Str := [S "iq", S "ci", S "detector_signal", S "fit"]

/-- phase `p` of the map as it must come back when written at position `i` (1-based): renumbered, proper
point group, name kept (an empty name is replaced by `phase<i>`), lattice to 3 decimals (already in unit 1e-3) -/
def quantPhase (proper : List (Str × Str)) (i : Nat) (p : PhaseInfo) : PhaseInfo :=
  { id := (i : Int), name := phaseNameOf i p.name,
    pg := some (match p.pg with | none => S "1" | some g => (lookupStr g proper).getD g),
    sg := none, lattice := p.lattice, atoms := [] }

def quantPhases (proper : List (Str × Str)) : Nat → List PhaseInfo → List PhaseInfo
  | _, [] => []
  | k, p :: r => quantPhase proper k p :: quantPhases proper (k + 1) r

/-- the value a chosen property column must carry at an indexed point -/
def specVal (m : GridIn) (index : Option Int) (p : InPt) (c : Option Nat) : Int :=
  (colVal m index p c).getD 0

/-- documented constants of the format: 5 decimals; not-indexed points carry Euler angles 4π, image quality
0, confidence index -1, detector signal 0, pattern fit 180, extra properties 0 -/
def specScale : Int := 100000
def specEulerSentinel : Int := 1256637
def specSentinels : List Int := [0, -1, 0, 180]

/-- the point that must come back for point `p` at row-major position `j` of the written view -/
def quantPt (o : AngOpts) (m : GridIn) (cols : PropCols) (pl : List PhaseInfo) (j : Nat) (p : InPt) : Pt :=
  let x := ((j % m.ncols : Nat) : Int) * m.dx
  let y := if m.oneD then (if m.dx = 0 then (j : Int) * m.dy else 0) else ((j / m.ncols : Nat) : Int) * m.dy
  if isIndexed p then
    { x := x, y := y,
      phaseId := (match pl.findIdx? (·.id == p.phaseId) with | some i => (i : Int) + 1 | none => -1),
      eu := (rotOf o.index p).getD ⟨0, 0, 0⟩,
      vals := [specVal m o.index p cols.iq, specVal m o.index p cols.ci, specVal m o.index p cols.ds,
               specVal m o.index p cols.fit] ++ cols.extras.map (specVal m o.index p) }
  else
    { x := x, y := y, phaseId := -1,
      eu := ⟨specEulerSentinel, specEulerSentinel, specEulerSentinel⟩,
      vals := specSentinels.map (· * specScale) ++ cols.extras.map (fun _ => 0) }

/-- the map `.ang` export/import must return (C14, specification).
Coordinates are those of the regular grid of the map's shape and step sizes; `proper` is the table
point group ↦ proper subgroup; `cols` says which map property was chosen for which column. -/
def quantise (proper : List (Str × Str)) (o : AngOpts) (m : GridIn) (cols : PropCols) : PMap :=
  let pl := phasesNoNI m.phases
  { propNames := stdPropNames ++ (o.extra.getD []),
    pts := (zipIdxFrom 0 m.pts).map fun jp => quantPt o m cols pl jp.1 jp.2,
    phases := (if m.pts.all isIndexed then [] else [notIndexedPhase]) ++ quantPhases proper 1 pl,
    unit := S "um", degrees := false }

end Orix.Codec.Ang
