import OrixModel.Codec.Rec
/-
Model of orix's own HDF5 format (`orix/io/plugins/orix_hdf5.py`, generic reader `_h5ebsd.hdf5group2dict`).

  MapRec --crystalmap2dict--> PyTree --dict2hdf5group--> H5 --hdf5group2dict--> PyTree --dict2crystalmap--> MapRec

* `PyTree` is a nested Python dict with scalar / string / array leaves, `H5` an HDF5 group tree with
  datasets.  Numbers are opaque integers with a dtype tag (the codec never computes with them); strings are
  code-point lists, written as UTF-8 into a fixed-length `S<len+1>` dataset and read back as latin-1.
* Keys of numbered children (`phases/<id>`, `atoms/<i>`) are `Key.n i`, standing for the decimal string of
  `i`; HDF5 iterates a group in alphabetical order of names, which for numbered children is the
  lexicographic order of the decimal strings (`Key.le`).
* The generic reader's lossy rules are modelled exactly: an array whose first axis has length 1 loses that
  axis (a length-1 vector becomes a scalar), byte strings become `str`.
* `dict2crystalmap` ends in `CrystalMap(**kwargs)`; its phase-list reconciliation is `reconcileRec`, the
  `Phase(...)` constructor's point-group resolution is `mkPhase` (alias table, group names and the
  space-group → point-group table are parameters; the proofs instantiate them with the generated tables).
-/
namespace Orix.Codec.H5
open Orix.Codec

inductive Key
  | s (name : Str)
  | n (i : Int)
deriving DecidableEq, Repr, Inhabited

/-- lexicographic order on code points (HDF5 orders links by name) -/
def strLe : Str → Str → Bool
  | [], _ => true
  | _ :: _, [] => false
  | a :: r, b :: t => if a < b then true else if a = b then strLe r t else false

/-- the text of a key -/
def Key.text : Key → Str
  | .s name => name
  | .n i => S (toString i)

def Key.le (a b : Key) : Bool := strLe a.text b.text

/-- a Python leaf value -/
inductive Val
  | scalar (dt : Nat) (v : Int)
  | str (s : Str)
  | arr (a : Arr)
  | none
deriving DecidableEq, Repr, Inhabited

inductive PyTree
  | leaf (v : Val)
  | dict (items : List (Key × PyTree))
deriving Repr, Inhabited

/-- an HDF5 dataset -/
inductive DS
  | num (dt : Nat) (shape : List Nat) (vals : List Int)
  | bytes (cap : Nat) (b : List Nat)       -- dtype `S<cap>`, shape (1,)
deriving DecidableEq, Repr, Inhabited

inductive H5
  | ds (d : DS)
  | group (items : List (Key × H5))
deriving Repr, Inhabited

/-! ### strings in the file -/

/-- UTF-8 encoding of one code point -/
def utf8 (c : Nat) : List Nat :=
  if c < 128 then [c]
  else if c < 2048 then [192 + c / 64, 128 + c % 64]
  else if c < 65536 then [224 + c / 4096, 128 + (c / 64) % 64, 128 + c % 64]
  else [240 + c / 262144, 128 + (c / 4096) % 64, 128 + (c / 64) % 64, 128 + c % 64]

def dropTrailingNul (b : List Nat) : List Nat := (b.reverse.dropWhile (· == 0)).reverse

/-- `val.encode()` stored in a dataset of dtype `"S" + str(len(val) + 1)` -/
def storeStr (s : Str) : DS := .bytes (s.length + 1) ((s.flatMap utf8).take (s.length + 1))

/-- numpy strips trailing NULs of fixed-length strings; the reader decodes latin-1 (byte = code point) -/
def loadStr (b : List Nat) : Str := dropTrailingNul b

/-! ### `dict2hdf5group` -/

mutual
/-- one item; `none`: the `TypeError` branch (warning, then `break` out of the enclosing loop) -/
def writeTree : PyTree → Option H5
  | .leaf (.scalar dt v) => some (.ds (.num dt [1] [v]))
  | .leaf (.str s) => some (.ds (storeStr s))
  | .leaf (.arr a) => some (.ds (.num a.dt a.shape a.vals))
  | .leaf .none => none
  | .dict items => some (.group (writeItems items))
/-- the loop over `dictionary.items()`: stops at the first item that cannot be written -/
def writeItems : List (Key × PyTree) → List (Key × H5)
  | [] => []
  | (k, t) :: r =>
    match writeTree t with
    | some h => (k, h) :: writeItems r
    | none => []
end

/-! ### `hdf5group2dict(recursive=True)` -/

/-- insertion sort of a group's links by name -/
def insertK {α} (e : Key × α) : List (Key × α) → List (Key × α)
  | [] => [e]
  | f :: r => if Key.le e.1 f.1 then e :: f :: r else f :: insertK e r
def sortK {α} (l : List (Key × α)) : List (Key × α) := l.foldr insertK []

def readDS : DS → Val
  | .num dt [1] (v :: _) => .scalar dt v
  | .num dt (1 :: d :: rest) vals => .arr ⟨dt, d :: rest, vals⟩
  | .num dt shape vals => .arr ⟨dt, shape, vals⟩
  | .bytes _ b => .str (loadStr b)

mutual
def readTree : H5 → PyTree
  | .ds d => .leaf (readDS d)
  | .group items => .dict (readItems items)
def readItems : List (Key × H5) → List (Key × PyTree)
  | [] => []
  | (k, t) :: r => (k, readTree t) :: readItems r
end

mutual
/-- a stored file presents every group's links in alphabetical order -/
def storeTree : H5 → H5
  | .ds d => .ds d
  | .group items => .group (sortK (storeItems items))
def storeItems : List (Key × H5) → List (Key × H5)
  | [] => []
  | (k, t) :: r => (k, storeTree t) :: storeItems r
end

/-! ### `crystalmap2dict` -/

def kS (s : String) : Key := .s (S s)

/-- `dict.update`: an existing key keeps its position and gets the new value, a new key is appended -/
def dictSet {α} (k : Key) (v : α) : List (Key × α) → List (Key × α)
  | [] => [(k, v)]
  | (k', v') :: r => if k' = k then (k', v) :: r else (k', v') :: dictSet k v r
def dictUpdate {α} (d : List (Key × α)) (u : List (Key × α)) : List (Key × α) :=
  u.foldl (fun acc e => dictSet e.1 e.2 acc) d

/-- header entries the writer derives from the map and the reader ignores -/
structure Derived where
  ny : Int
  nx : Int
  yStep : Nat × Int
  xStep : Nat × Int
  rpp : Int
  idArr : Arr
  intDt : Nat           -- dtype tag of a Python int
deriving Repr, Inhabited

def atom2dict (a : AtomRec) : PyTree :=
  .dict [(kS "element", .leaf (.str a.element)), (kS "label", .leaf (.str a.label)),
         (kS "occupancy", .leaf (.scalar a.occDt a.occ)), (kS "xyz", .leaf (.arr a.xyz)),
         (kS "U", .leaf (.arr a.u))]

def enumFrom {α} : Nat → List α → List (Nat × α)
  | _, [] => []
  | k, a :: r => (k, a) :: enumFrom (k + 1) r

def structure2dict (p : PhaseRec) : PyTree :=
  .dict [(kS "lattice", .dict [(kS "abcABG", .leaf (.arr p.abcABG)), (kS "baserot", .leaf (.arr p.baserot))]),
         (kS "atoms", .dict ((enumFrom 0 p.atoms).map fun (i, a) => (Key.n i, atom2dict a)))]

def noneStr : Str := S "None"

/-- `phase.space_group.number` or the string "None" -/
def encodeSg (intDt : Nat) : Option Nat → Val
  | some n => .scalar intDt n
  | none => .str noneStr
/-- `phase.point_group.name` or the string "None" -/
def encodePg : Option Str → Str
  | some g => g
  | none => noneStr

def phase2dict (intDt : Nat) (p : PhaseRec) : PyTree :=
  .dict [(kS "name", .leaf (.str p.name)),
         (kS "space_group", .leaf (encodeSg intDt p.sg)),
         (kS "point_group", .leaf (.str (encodePg p.pg))),
         (kS "color", .leaf (.str p.color)),
         (kS "structure", structure2dict p)]

def optArr (intDt : Nat) : Option Arr → PyTree
  | some a => .leaf (.arr a)
  | none => .leaf (.scalar intDt 0)

def reservedData : List Key :=
  [kS "y", kS "x", kS "phi1", kS "Phi", kS "phi2", kS "phase_id", kS "id", kS "is_in_data"]

/-- the fixed datasets of the `data` group, in the writer's order -/
def reservedItems (e : Derived) (m : MapRec) : List (Key × PyTree) :=
  [(kS "y", optArr e.intDt m.y), (kS "x", optArr e.intDt m.x), (kS "phi1", .leaf (.arr m.phi1)),
   (kS "Phi", .leaf (.arr m.phi)), (kS "phi2", .leaf (.arr m.phi2)),
   (kS "phase_id", .leaf (.arr m.phaseId)), (kS "id", .leaf (.arr e.idArr)),
   (kS "is_in_data", .leaf (.arr m.inData))]

/-- `crystal_map.prop` as dict items -/
def propItems (m : MapRec) : List (Key × PyTree) := m.props.map fun p => (Key.s p.name, PyTree.leaf (.arr p.arr))

def phaseItems (intDt : Nat) (phases : List PhaseRec) : List (Key × PyTree) :=
  phases.map fun p => (Key.n p.id, phase2dict intDt p)

def headerItems (e : Derived) (m : MapRec) : List (Key × PyTree) :=
  [(kS "grid_type", .leaf (.str (S "square"))),
   (kS "ny", .leaf (.scalar e.intDt e.ny)), (kS "nx", .leaf (.scalar e.intDt e.nx)),
   (kS "y_step", .leaf (.scalar e.yStep.1 e.yStep.2)), (kS "x_step", .leaf (.scalar e.xStep.1 e.xStep.2)),
   (kS "rotations_per_point", .leaf (.scalar e.intDt e.rpp)),
   (kS "scan_unit", .leaf (.str m.scanUnit)),
   (kS "phases", .dict (phaseItems e.intDt m.phases))]

/-- `dictionary["data"].update(crystal_map.prop)`: a property called like a fixed dataset replaces it -/
def crystalmap2dict (e : Derived) (m : MapRec) : PyTree :=
  .dict [(kS "data", .dict (dictUpdate (reservedItems e m) (propItems m))),
         (kS "header", .dict (headerItems e m))]

/-- what `file_writer` puts below `/crystal_map`, as h5py presents it afterwards -/
def write (e : Derived) (m : MapRec) : Option H5 := (writeTree (crystalmap2dict e m)).map storeTree

/-! ### `dict2crystalmap` -/

def lookupK {α} (k : Key) : List (Key × α) → Option α
  | [] => none
  | (k', v) :: r => if k' = k then some v else lookupK k r

def getDict : PyTree → Option (List (Key × PyTree))
  | .dict items => some items
  | _ => none
def getArr : PyTree → Option Arr
  | .leaf (.arr a) => some a
  | _ => none
def getStr : PyTree → Option Str
  | .leaf (.str s) => some s
  | _ => none

/-- tables the `Phase` constructor consults -/
structure PhaseTables where
  aliases : List (Str × List Str)
  groups : List Str
  sgPointGroup : List Str        -- point-group name of space group 1 … 230 (`get_point_group`)
deriving Repr, Inhabited

def sgPG (t : PhaseTables) (n : Nat) : Option Str := if n = 0 then none else t.sgPointGroup[n - 1]?

/-- `Phase(space_group=sg, point_group=pg)`: observable space group and point-group name afterwards.
`none`: `ValueError` (unknown point-group string / space-group number). -/
def mkPhase (t : PhaseTables) (sg : Option Nat) (pg : Option Str) : Option (Option Nat × Option Str) :=
  match sg with
  | none =>
    match pg with
    | none => some (none, none)
    | some g => (resolvePG t.aliases t.groups g).map fun c => (none, some c)
  | some n =>
    match sgPG t n with
    | none => none
    | some derived =>
      match pg with
      | none => some (some n, some derived)
      | some g =>
        match resolvePG t.aliases t.groups g with
        | none => none
        | some c => if derived = c then some (some n, some derived) else some (none, some c)

def dict2atom (d : PyTree) : Option AtomRec :=
  match getDict d with
  | none => none
  | some it =>
    match lookupK (kS "element") it, lookupK (kS "label") it, lookupK (kS "occupancy") it,
          lookupK (kS "xyz") it, lookupK (kS "U") it with
    | some (.leaf (.str el)), some (.leaf (.str lb)), some (.leaf (.scalar odt o)), some (.leaf (.arr xyz)),
      some (.leaf (.arr u)) => some ⟨el, lb, odt, o, xyz, u⟩
    | _, _, _, _, _ => none

/-- `space_group == "None"` → `None`, else `int(space_group)`; `none`: the code raises -/
def decodeSg : Val → Option (Option Nat)
  | .str s => if s = noneStr then some none else none
  | .scalar _ v => if 0 ≤ v then some (some v.toNat) else none
  | _ => none
def decodePg (pgs : Str) : Option Str := if pgs = noneStr then none else some pgs

/-- `int(kv[0])` of a link name -/
def keyInt : Key → Option Int
  | .n i => some i
  | .s _ => none
def insertByInt (e : Int × PyTree) : List (Int × PyTree) → List (Int × PyTree)
  | [] => [e]
  | f :: r => if e.1 ≤ f.1 then e :: f :: r else f :: insertByInt e r
def sortByInt (l : List (Int × PyTree)) : List (Int × PyTree) := l.foldr insertByInt []

/-- `[dict2atom(atom) for _, atom in sorted(dictionary["atoms"].items(), key=lambda kv: int(kv[0]))]` -/
def atomsInOrder (items : List (Key × PyTree)) : Option (List AtomRec) :=
  match items.mapM (fun kv => (keyInt kv.1).map fun i => (i, kv.2)) with
  | none => none
  | some ia => (sortByInt ia).mapM fun e => dict2atom e.2

/-- the reader before the fix: atoms in the order the file lists them (alphabetical link names) -/
def atomsInFileOrderPreFix (items : List (Key × PyTree)) : Option (List AtomRec) :=
  items.mapM fun kv => dict2atom kv.2

def dict2phase (t : PhaseTables) (id : Int) (d : PyTree) : Option PhaseRec :=
  match getDict d with
  | none => none
  | some it =>
    match lookupK (kS "name") it, lookupK (kS "space_group") it, lookupK (kS "point_group") it,
          lookupK (kS "color") it, (lookupK (kS "structure") it).bind getDict with
    | some (.leaf (.str name)), some (.leaf sgv), some (.leaf (.str pgs)), some (.leaf (.str color)), some st =>
      -- `if point_group == "None" or space_group is not None: point_group = None`
      let pgOf (sg : Option Nat) : Option Str := if sg.isSome then none else decodePg pgs
      match decodeSg sgv, (lookupK (kS "lattice") st).bind getDict, (lookupK (kS "atoms") st).bind getDict with
      | some sg, some lat, some atoms =>
        match mkPhase t sg (pgOf sg), (lookupK (kS "abcABG") lat).bind getArr, (lookupK (kS "baserot") lat).bind getArr,
              atomsInOrder atoms with
        | some (sg', pg'), some abc, some br, some ats =>
          some { id := id, name := name, sg := sg', pg := pg', color := color, abcABG := abc, baserot := br,
                 atoms := ats }
        | _, _, _, _ => none
      | _, _, _ => none
    | _, _, _, _, _ => none

/-- `{int(k): dict2phase(v) for k, v in dictionary.items()}` -/
def dict2phases (t : PhaseTables) : List (Key × PyTree) → Option (List PhaseRec)
  | [] => some []
  | (Key.n i, d) :: r =>
    match dict2phase t i d, dict2phases t r with
    | some p, some ps => some (p :: ps)
    | _, _ => none
  | (Key.s _, _) :: _ => none

def insertRecById (p : PhaseRec) : List PhaseRec → List PhaseRec
  | [] => [p]
  | q :: r => if p.id ≤ q.id then p :: q :: r else q :: insertRecById p r
def sortRecById (l : List PhaseRec) : List PhaseRec := l.foldr insertRecById []

def dropSuperfluousRec (u : List Int) : Nat → List PhaseRec → List PhaseRec
  | 0, l => l
  | _ + 1, [] => []
  | n + 1, p :: r =>
    if u.contains p.id then p :: dropSuperfluousRec u (n + 1) r
    else if n = 0 then r else dropSuperfluousRec u n r

def rekeyRec : List Int → List PhaseRec → List PhaseRec
  | i :: is, p :: ps => { p with id := i } :: rekeyRec is ps
  | _, _ => []

/-- phase-list part of `CrystalMap.__init__` on full phase records; `ni` is the phase
`PhaseList.add_not_indexed` creates -/
def reconcileRec (ni : PhaseRec) (ids : List Int) (pl0 : List PhaseRec) : Option (List PhaseRec) :=
  -- `if -1 in phase_list.ids: del phase_list[-1]`: "not_indexed" is (re-)created below from the data
  let pl := pl0.filter (·.id != -1)
  let u0 := uniqSorted ids
  let inc := u0.head? == some (-1)
  let u := if inc then u0.tail else u0
  if pl.length < u.length then none
  else
    let pl1 := (dropSuperfluousRec u (pl.length - u.length) pl.reverse).reverse
    let pl2 := rekeyRec u pl1
    some (if inc then ni :: pl2.filter (·.id != -1) else pl2)

/-- `np.dstack((phi1, Phi, phi2)).squeeze()` seen from one of the three arrays: size-1 axes disappear -/
def squeezeShape (sh : List Nat) : List Nat := sh.filter (· != 1)

/-- what is left in `data` after the pops must be property arrays -/
def propOf (kv : Key × PyTree) : Option PropRec :=
  match kv with
  | (Key.s name, .leaf (.arr a)) => some ⟨name, a⟩
  | _ => none

/-- `dict2crystalmap` on the `crystal_map` dictionary -/
def dict2crystalmap (t : PhaseTables) (ni : PhaseRec) (d : PyTree) : Option MapRec :=
  match (getDict d).bind (lookupK (kS "data")) |>.bind getDict,
        (getDict d).bind (lookupK (kS "header")) |>.bind getDict with
  | some data, some header =>
    match (lookupK (kS "phi1") data).bind getArr, (lookupK (kS "Phi") data).bind getArr,
          (lookupK (kS "phi2") data).bind getArr, (lookupK (kS "scan_unit") header).bind getStr,
          (lookupK (kS "phases") header).bind getDict, (lookupK (kS "phase_id") data).bind getArr,
          (lookupK (kS "is_in_data") data).bind getArr, lookupK (kS "y") data, lookupK (kS "x") data,
          lookupK (kS "id") data with
    | some p1, some pp, some p2, some unit, some phd, some pid, some ind, some yv, some xv, some _ =>
      let rest := data.filter fun kv => !reservedData.contains kv.1
      let props? := rest.mapM propOf
      match dict2phases t phd, props? with
      | some pl0, some props =>
        match reconcileRec ni pid.vals (sortRecById pl0) with
        | none => none
        | some pl =>
          some { y := getArr yv, x := getArr xv, inData := ind, phaseId := pid,
                 phi1 := { p1 with shape := squeezeShape p1.shape },
                 phi := { pp with shape := squeezeShape pp.shape },
                 phi2 := { p2 with shape := squeezeShape p2.shape },
                 props := props, scanUnit := unit, phases := pl }
      | _, _ => none
    | _, _, _, _, _, _, _, _, _, _ => none
  | _, _ => none

/-- `file_reader` below `/crystal_map` -/
def read (t : PhaseTables) (ni : PhaseRec) (h : H5) : Option MapRec := dict2crystalmap t ni (readTree h)

end Orix.Codec.H5
