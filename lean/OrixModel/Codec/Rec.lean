/-
Records shared by the file-codec models (C13 orix HDF5, C14 .ang writer, C15 vendor readers).

Exact representations only (core Lean, executable):
* strings are lists of Unicode code points (`Str`), so that byte-level effects (UTF-8 written, latin-1
  read) can be modelled and decided in the kernel;
* numbers are integers: either an opaque payload that a codec moves verbatim (for HDF5: the bit pattern of
  the stored value together with a dtype tag) or a fixed-point value in the unit of the text column
  (for .ang: 1e-5; rotations travel as Bunge Euler triplets in that unit).

Two presentations of a crystal map are used:
* `MapRec`  — the state a `CrystalMap` holds / its constructor receives, as arrays (used by the HDF5 codec,
  which stores whole arrays and never looks inside them);
* `PMap`    — the same information point by point (`Pt`), which is what the text and h5ebsd readers build
  from file rows.  Every reader ends in `CrystalMap(**kwargs)`, whose phase-list reconciliation
  (`reconcile`) is part of the model.
-/
namespace Orix.Codec

abbrev Str := List Nat

/-- code points of a literal -/
def S (s : String) : Str := s.toList.map Char.toNat

def Str.show (s : Str) : String := String.ofList (s.map Char.ofNat)

/-! ### small string functions used by the readers/writers (ASCII semantics) -/

def lowerC (c : Nat) : Nat := if 65 ≤ c ∧ c ≤ 90 then c + 32 else c
/-- `str.lower()` (ASCII letters only; non-ASCII names are outside the model) -/
def Str.lower (s : Str) : Str := s.map lowerC
/-- `s.replace(c, "")` for a single character -/
def Str.dropChar (c : Nat) (s : Str) : Str := s.filter (· != c)
/-- `s.replace(" ", "_")` -/
def Str.spaceToUnderscore (s : Str) : Str := s.map fun c => if c == 32 then 95 else c
/-- `s.lstrip(" ")` -/
def Str.lstripSp : Str → Str
  | 32 :: r => Str.lstripSp r
  | s => s

def isWs (c : Nat) : Bool := c == 32 || c == 9

def splitWsAux : Str → Str → List Str
  | cur, [] => if cur.isEmpty then [] else [cur.reverse]
  | cur, c :: r =>
    if isWs c then (if cur.isEmpty then splitWsAux [] r else cur.reverse :: splitWsAux [] r)
    else splitWsAux (c :: cur) r
/-- `list(filter(None, re.split("[ \t]", s)))`: the whitespace-separated tokens -/
def splitWs (s : Str) : List Str := splitWsAux [] s

/-- `" ".join(tokens)` -/
def joinSp : List Str → Str
  | [] => []
  | [t] => t
  | t :: r => t ++ 32 :: joinSp r

/-- `", ".join(names)` -/
def joinComma : List Str → Str
  | [] => []
  | [t] => t
  | t :: r => t ++ 44 :: 32 :: joinComma r

def splitOnAux (sep : Nat) : Str → Str → List Str
  | cur, [] => [cur.reverse]
  | cur, c :: r => if c == sep then cur.reverse :: splitOnAux sep [] r else splitOnAux sep (c :: cur) r
/-- `s.split(sep)` for a single separator character -/
def splitOnC (sep : Nat) (s : Str) : List Str := splitOnAux sep [] s

/-! ### arrays, phases -/

/-- an n-dimensional array: dtype tag (opaque), shape, values in C order -/
structure Arr where
  dt : Nat
  shape : List Nat
  vals : List Int
deriving DecidableEq, Repr, Inhabited

/-- one atom of a structure as the orix HDF5 format stores it -/
structure AtomRec where
  element : Str
  label : Str
  occDt : Nat
  occ : Int
  xyz : Arr
  u : Arr
deriving DecidableEq, Repr, Inhabited

/-- a phase with everything orix's HDF5 format stores -/
structure PhaseRec where
  id : Int
  name : Str
  sg : Option Nat
  pg : Option Str
  color : Str
  abcABG : Arr
  baserot : Arr
  atoms : List AtomRec
deriving DecidableEq, Repr, Inhabited

structure PropRec where
  name : Str
  arr : Arr
deriving DecidableEq, Repr, Inhabited

/-- constructor-level state of a crystal map, as arrays over *all* points (masked or not) -/
structure MapRec where
  y : Option Arr
  x : Option Arr
  inData : Arr
  phaseId : Arr
  phi1 : Arr
  phi : Arr
  phi2 : Arr
  props : List PropRec
  scanUnit : Str
  phases : List PhaseRec
deriving DecidableEq, Repr, Inhabited

/-! ### point-wise presentation (text and h5ebsd readers) -/

structure Euler where
  p1 : Int
  pp : Int
  p2 : Int
deriving DecidableEq, Repr, Inhabited

/-- one data point as a reader hands it to `CrystalMap`: coordinates, phase id, Euler triplet and the
property values in the order of `PMap.propNames` -/
structure Pt where
  x : Int
  y : Int
  phaseId : Int
  eu : Euler
  vals : List Int
deriving DecidableEq, Repr, Inhabited

/-- an atom as vendor h5ebsd files give it -/
structure AtomInfo where
  element : Str
  xyz : List Str
  occ : Int
deriving DecidableEq, Repr, Inhabited

/-- phase information a vendor file can carry -/
structure PhaseInfo where
  id : Int
  name : Str
  pg : Option Str
  sg : Option Nat
  lattice : List Int
  atoms : List AtomInfo
deriving DecidableEq, Repr, Inhabited

/-- what a text/h5ebsd reader returns.  `degrees` records the angular unit in which the reader interprets
the Euler columns (`Rotation.from_euler(…, degrees=…)` / `np.deg2rad`); `unit` is the scan unit. -/
structure PMap where
  propNames : List Str
  pts : List Pt
  phases : List PhaseInfo
  unit : Str
  degrees : Bool
deriving DecidableEq, Repr, Inhabited

/-! ### `CrystalMap.__init__`: reconciliation of the phase list with the phase ids in the data -/

/-- insertion into a strictly increasing list without duplicates -/
def insertUniq (a : Int) : List Int → List Int
  | [] => [a]
  | b :: r => if a < b then a :: b :: r else if a = b then b :: r else b :: insertUniq a r

/-- `np.unique(phase_id)`: sorted, duplicate free -/
def uniqSorted (l : List Int) : List Int := l.foldr insertUniq []

/-- the loop `for i in phase_ids[::-1]: if i not in unique: del phase_list[i]; n -= 1 … if n == 0: break`
on the reversed list -/
def dropSuperfluous (u : List Int) : Nat → List PhaseInfo → List PhaseInfo
  | 0, l => l
  | _ + 1, [] => []
  | n + 1, p :: r =>
    if u.contains p.id then p :: dropSuperfluous u (n + 1) r
    else if n = 0 then r else dropSuperfluous u n r

/-- `dict(zip(new_ids, phase_list._dict.values()))` -/
def rekey : List Int → List PhaseInfo → List PhaseInfo
  | i :: is, p :: ps => { p with id := i } :: rekey is ps
  | _, _ => []

/-- the phase `PhaseList.add_not_indexed` inserts -/
def notIndexedPhase : PhaseInfo :=
  { id := -1, name := S "not_indexed", pg := none, sg := none, lattice := [], atoms := [] }

/-- Phase-list part of `CrystalMap.__init__`. `none`: more phase ids in the data than phases in the list
(the constructor then invents default phases with fresh colours — outside this model). -/
def reconcile (ids : List Int) (pl0 : List PhaseInfo) : Option (List PhaseInfo) :=
  -- `if -1 in phase_list.ids: del phase_list[-1]`: "not_indexed" is (re-)created below from the data
  let pl := pl0.filter (·.id != -1)
  let u0 := uniqSorted ids
  let inc := u0.head? == some (-1)
  let u := if inc then u0.tail else u0
  if pl.length < u.length then none
  else
    let pl1 := (dropSuperfluous u (pl.length - u.length) pl.reverse).reverse
    let pl2 := rekey u pl1
    some (if inc then notIndexedPhase :: pl2 else pl2)

/-- insertion sort of phases by id (`OrderedDict(sorted(d.items()))`, ids distinct) -/
def insertById (p : PhaseInfo) : List PhaseInfo → List PhaseInfo
  | [] => [p]
  | q :: r => if p.id ≤ q.id then p :: q :: r else q :: insertById p r
def sortById (l : List PhaseInfo) : List PhaseInfo := l.foldr insertById []

/-! ### point-group names: alias table of `orix.quaternion.symmetry` -/

def lookupStr {β} (k : Str) : List (Str × β) → Option β
  | [] => none
  | (n, v) :: r => if n == k then some v else lookupStr k r

/-- `Phase.point_group` setter for a string: alias → canonical name; the name must be one of `_groups` -/
def resolvePG (aliases : List (Str × List Str)) (groups : List Str) (s : Str) : Option Str :=
  let c := match aliases.find? (fun e => e.2.contains s) with
    | some e => e.1
    | none => s
  if groups.contains c then some c else none

end Orix.Codec
