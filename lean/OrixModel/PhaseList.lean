/-
Phase list of a crystal map (`orix/crystal_map/phase_list.py`, class `PhaseList`) as the code keeps it:
an insertion-ordered dictionary `id -> Phase` (`_dict`) that the methods re-sort by id.

A `Phase` carries what the bookkeeping property (C12) talks about: its name, the label of its point
group (`None` allowed) and a `tag` identifying the caller's `Phase` object (0 = a phase the library
created itself), so that *which* phase ends up under *which* id is observable.  Colours are not modelled.

Core Lean only; every function is executable (run by `Driver/Ops/XMap.lean`).
-/
namespace Orix

/-- error enumeration shared by the phase-list and crystal-map models (`!err <enum>` on the wire) -/
inductive XErr
  | emptyReduction     -- ValueError: zero-size array to reduction operation (min/max of no points)
  | tooManyIndices     -- IndexError: list assignment index out of range (more keys than map dimensions)
  | indexOutOfBounds   -- IndexError: index i is out of bounds for axis a
  | zeroStep           -- ValueError: slice step cannot be zero
  | shapeMismatch      -- ValueError: shape mismatch / could not be broadcast
  | degenerate         -- 1×1 original grid: `row`, `col`, `get_map_data` crash
  | keyError           -- KeyError
  | duplicateName      -- ValueError raised by `PhaseList.add`
  | emptyList          -- IndexError / ValueError on an empty phase list
  | notOnePhase        -- ValueError: command only permits one phase
  | badView            -- harness-level: reference to a selection that does not exist
deriving DecidableEq, Repr

def XErr.toString : XErr → String
  | .emptyReduction => "empty-reduction"
  | .tooManyIndices => "too-many-indices"
  | .indexOutOfBounds => "index-out-of-bounds"
  | .zeroStep => "zero-step"
  | .shapeMismatch => "shape-mismatch"
  | .degenerate => "degenerate"
  | .keyError => "key-error"
  | .duplicateName => "duplicate-name"
  | .emptyList => "empty-list"
  | .notOnePhase => "not-one-phase"
  | .badView => "bad-view"

/-! ### Python slices (`slice.indices`, CPython `PySlice_AdjustIndices`) -/
namespace PySlice

/-- clamp one bound of a slice for a sequence of length `L` and a non-zero `step` -/
def adjust (L : Int) (step : Int) (v : Int) : Int :=
  if v < 0 then
    (if v + L < 0 then (if step < 0 then -1 else 0) else v + L)
  else if v ≥ L then (if step < 0 then L - 1 else L)
  else v

/-- `slice(start, stop, step).indices(len)` for a non-zero step -/
def bounds (len : Nat) (start stop : Option Int) (step : Int) : Int × Int :=
  let L : Int := len
  let s := match start with
    | none => if step < 0 then L - 1 else 0
    | some v => adjust L step v
  let e := match stop with
    | none => if step < 0 then -1 else L
    | some v => adjust L step v
  (s, e)

/-- `len(range(s, e, step))` -/
def count (s e step : Int) : Nat :=
  if step > 0 then (if s < e then ((e - s - 1) / step + 1).toNat else 0)
  else if step < 0 then (if e < s then ((s - e - 1) / (-step) + 1).toNat else 0)
  else 0

/-- the positions `range(*slice(start, stop, step).indices(len))`; `none` for `step = 0` (ValueError) -/
def indices (len : Nat) (start stop step : Option Int) : Option (List Nat) :=
  let st : Int := match step with | none => 1 | some v => v
  if st = 0 then none
  else
    let (s, e) := bounds len start stop st
    some ((List.range (count s e st)).map fun (i : Nat) => (s + Int.ofNat i * st).toNat)

end PySlice

/-! ### phases and phase lists -/

structure Phase where
  name : String
  /-- label of the point group (`Phase.point_group.name`) or `None` -/
  sym : Option String
  /-- identity of the caller's `Phase` object; 0 for phases created by the library -/
  tag : Nat
deriving DecidableEq, Repr

namespace Phase
/-- `Phase()` -/
def dflt : Phase := ⟨"", none, 0⟩
/-- `Phase(name="not_indexed", color="white")` -/
def notIndexed : Phase := ⟨"not_indexed", none, 0⟩
end Phase

/-- `PhaseList._dict`: insertion-ordered `id -> Phase` -/
abbrev PhaseList := List (Int × Phase)

namespace PhaseList

def ids (d : PhaseList) : List Int := d.map (·.1)
def names (d : PhaseList) : List String := d.map (·.2.name)

/-- `d[i] = p` on an insertion-ordered dict: replace in place or append -/
def dictSet (d : PhaseList) (i : Int) (p : Phase) : PhaseList :=
  if d.any (fun e => e.1 == i) then d.map (fun e => if e.1 == i then (i, p) else e) else d ++ [(i, p)]

/-- `d[i]` -/
def dictGet (d : PhaseList) (i : Int) : Option Phase :=
  match d.find? (fun e => e.1 == i) with
  | some e => some e.2
  | none => none

/-- `d.pop(i)`: `none` is `KeyError` -/
def dictPop (d : PhaseList) (i : Int) : Option PhaseList :=
  if d.any (fun e => e.1 == i) then some (d.filter (fun e => !(e.1 == i))) else none

def insertById (e : Int × Phase) : PhaseList → PhaseList
  | [] => [e]
  | f :: r => if e.1 ≤ f.1 then e :: f :: r else f :: insertById e r

/-- `OrderedDict(sorted(d.items()))` (keys are unique, so phases are never compared) -/
def sortById (d : PhaseList) : PhaseList := d.foldr insertById []

/-- `dict(zip(ids, phases))` built left to right -/
def ofPairs (ps : List (Int × Phase)) : PhaseList := ps.foldl (fun d e => dictSet d e.1 e.2) []

def natIds (n : Nat) : List Int := (List.range n).map Int.ofNat

/-- `max(ids)`; `none` on an empty list (ValueError) -/
def maxId : List Int → Option Int
  | [] => none
  | x :: xs => some (xs.foldl max x)

/-- `PhaseList(phases=[p, …], ids=…)` -/
def ofList (phases : List Phase) (ids : Option (List Int)) : PhaseList :=
  let is := match ids with | none => natIds phases.length | some l => l
  sortById (ofPairs (is.zip phases))

/-- `PhaseList(phases={id: p, …})` -/
def ofDict (d : List (Int × Phase)) : PhaseList := sortById (ofPairs d)

/-- `PhaseList(phases=p, ids=i)` -/
def ofSingle (p : Phase) (id : Option Int) : PhaseList :=
  [((match id with | none => 0 | some i => i), p)]

/-- keyword form `PhaseList(names=…, space_groups=…, point_groups=…, ids=…, structures=…)`.
`sgs`/`pgs` carry the point-group label derived from the space group / given directly
(entries may be `None`), `tags` stands for `structures`.  The number of phases is the longest given
list; missing names/symmetries/structures are padded with defaults, missing ids with
`max(ids) + 1, + 2, …`.  `none` = ValueError (`max` of an empty id list). -/
def ofKeywords (names : Option (List String)) (sgs pgs : Option (List (Option String)))
    (ids : Option (List Int)) (tags : Option (List Nat)) : Option PhaseList :=
  let len {α} (l : Option (List α)) : Nat := match l with | none => 0 | some l => l.length
  let n := max (max (max (len names) (len sgs)) (max (len pgs) (len ids))) (len tags)
  let is := match ids with | none => natIds n | some l => l
  let at? {α} (l : Option (List α)) (i : Nat) : Option α := match l with | none => none | some l => l[i]?
  let step := fun (acc : Option (PhaseList × Int)) (i : Nat) =>
    match acc with
    | none => none
    | some (d, it) =>
      let nm := match at? names i with | some s => s | none => ""
      let sy := match at? sgs i with
        | some (some s) => some s
        | _ => (match at? pgs i with | some (some s) => some s | _ => none)
      let tg := match at? tags i with | some t => t | none => 0
      match is[i]? with
      | some pid => some (dictSet d pid ⟨nm, sy, tg⟩, it)
      | none =>
        match maxId is with
        | none => none
        | some m => some (dictSet d (m + it + 1) ⟨nm, sy, tg⟩, it + 1)
  match (List.range n).foldl step (some ([], 0)) with
  | none => none
  | some (d, _) => some (sortById d)

/-! #### item access -/

inductive GKey
  | id (i : Int)
  | name (s : String)
  | idList (l : List Int)        -- tuple / list / array of ids (non-empty)
  | nameList (l : List String)   -- tuple / list of names (non-empty)
  | slice (start stop step : Option Int)
deriving Repr

/-- the dictionary `d` built by `PhaseList.__getitem__` before it is returned (sorted by id, as the
`PhaseList(d)` constructor does); a result of length one is returned by the code as a bare `Phase` -/
def getItem (d : PhaseList) (k : GKey) : Except XErr PhaseList :=
  let byNames (ks : List String) : Except XErr PhaseList :=
    let r := d.filter (fun e => ks.any (fun k => k == e.2.name))
    if r.isEmpty then .error .keyError else .ok (sortById r)
  let byIds (ks : List Int) : Except XErr PhaseList :=
    if ks.all (fun k => d.any (fun e => e.1 == k)) then
      let r := d.filter (fun e => ks.any (fun k => k == e.1))
      if r.isEmpty then .error .keyError else .ok (sortById r)
    else .error .keyError
  match k with
  | .id i => byIds [i]
  | .name s => byNames [s]
  | .idList l => byIds l
  | .nameList l => byNames l
  | .slice a b c =>
    match d with
    | [] => .error .emptyList
    | e0 :: _ =>
      match maxId (ids d) with
      | none => .error .emptyList
      | some m =>
        let start : Int := if e0.1 = -1 then -1 else 0
        let len := (m + 1 - start).toNat
        match PySlice.indices len a b c with
        | none => .error .zeroStep
        | some pos =>
          let sel := pos.map (fun (j : Nat) => start + Int.ofNat j)
          let r := d.filter (fun e => sel.any (fun k => k == e.1))
          if r.isEmpty then .error .keyError else .ok (sortById r)

inductive DKey
  | id (i : Int)
  | name (s : String)
deriving Repr

/-- `del pl[key]` -/
def delItem (d : PhaseList) : DKey → Except XErr PhaseList
  | .id i => match dictPop d i with | some r => .ok r | none => .error .keyError
  | .name s =>
    match d.find? (fun e => e.2.name == s) with
    | none => .error .keyError
    | some e => match dictPop d e.1 with | some r => .ok r | none => .error .keyError

/-- `pl.add_not_indexed()` -/
def addNotIndexed (d : PhaseList) : PhaseList := sortById (dictSet d (-1) Phase.notIndexed)

/-- one iteration of the loop in `PhaseList.add`; `none` = ValueError (name already present) -/
def add1 (d : PhaseList) (p : Phase) : Option PhaseList :=
  if (names d).contains p.name then none
  else
    let newId : Int := match maxId (ids d) with | some m => m + 1 | none => 0
    some (dictSet d newId p)

/-- `pl.add([p, …])`: phases are added one by one; the first duplicate name raises *after* the earlier
ones were added (the returned list is the state left behind) -/
def add (d : PhaseList) : List Phase → PhaseList × Option XErr
  | [] => (d, none)
  | p :: ps =>
    match add1 d p with
    | none => (d, some .duplicateName)
    | some d' => add d' ps

/-- `pl.id_from_name(name)` -/
def idFromName (d : PhaseList) (s : String) : Option Int :=
  match d.find? (fun e => e.2.name == s) with
  | some e => some e.1
  | none => none

end PhaseList
end Orix
