import OrixModel.Color
import OrixModel.Lattice
import OrixModel.Conv
/-
Geometry of the inverse-pole-figure colour key (C08): `orix/plot/direction_color_keys/_util.py`

  `_calculate_azimuth`, `_correct_azimuth`, `polar_coordinates_in_sector`, `rgb_from_polar_coordinates`
  and `DirectionColorKeyTSL.direction2color` after the projection into the sector (which is C07's subject).

The sector (normals as stored, i.e. not necessarily unit; centre; vertices) is an *input*: it comes from
`symmetry.laue.fundamental_sector` of the implementation.

numpy functions modelled by their documented contract, each a small reusable function here:
  `np.linspace` (`linspace`), `np.cumsum` (`cumsum`), `np.sum` (`sumList`, left to right), `np.interp` (`interp`),
  `np.round(x).astype(int)` on `[0, 1000]` (`roundIndex`), `np.min` along an axis (`npMin`, NaN propagating),
  `Vector3d.angle_with` (`angleWith`, with its `np.round(cos, 10)`), `Rotation.from_axes_angles` and
  `Rotation * Vector3d` (numpy-quaternion sandwich product; `Conv.fromAxesAngles`, `Quat.rotateSandwich`).

Orientation of the polar coordinate (as the code computes it): in the branch with sector walls
`polar = min over walls of dist(v, wall point)/dist(centre, wall point)` is 1 at the centre and 0 on a wall;
`direction2color` turns it into the HSL lightness `0.5 + polar/2`, so the centre is white and the walls carry the
pure hue.
-/
namespace Orix.ColorKey
open Orix Scalar Orix.Color

variable {α : Type} [Scalar α]

def isNaN (x : α) : Bool := !(beq x x)
/-- `2 * np.pi` -/
def twoPi : α := lit 2 * pi

/-! ### small numpy contracts -/

/-- `np.linspace(a, b, n)` (end point included): `arange(n) * step + a`, last entry set to `b` -/
def linspace (a b : α) : Nat → List α
  | 0 => []
  | 1 => [a]
  | n + 2 =>
    let step := (b - a) / lit (n + 1)
    (List.range (n + 1)).map (fun i => lit i * step + a) ++ [b]

/-- running sums after the accumulator `acc` -/
def cumsumFrom (acc : α) : List α → List α
  | [] => []
  | x :: r => (acc + x) :: cumsumFrom (acc + x) r

/-- `np.cumsum` -/
def cumsum : List α → List α
  | [] => []
  | x :: r => x :: cumsumFrom x r

/-- `np.sum` of a 1-d array (left to right; the pairwise order of numpy differs by rounding only) -/
def sumList (l : List α) : α := l.foldl (· + ·) (lit 0)

/-- linear search along the sample points: `(x0, y0)` is the last point with `x0 ≤ x` seen so far -/
def interpGo (x x0 y0 : α) : List (α × α) → α
  | [] => y0
  | (x1, y1) :: r =>
    if lt x x1 then
      (if beq x0 x then y0 else (y1 - y0) / (x1 - x0) * (x - x0) + y0)
    else interpGo x x1 y1 r

/-- `np.interp(x, xp, fp)` on the zipped sample points (`xp` increasing): `fp[0]` to the left, `fp[-1]` to the
right and at the last sample point, `slope * (x - xp[j]) + fp[j]` in between, NaN passed through;
`none` = the `ValueError` of an empty table -/
def interp (x : α) : List (α × α) → Option α
  | [] => none
  | (x0, y0) :: r => some (if isNaN x then x else if lt x x0 then y0 else interpGo x x0 y0 r)

/-- `np.min` (propagates NaN) of two values -/
def npMin (a b : α) : α := if isNaN a then a else if isNaN b then b else if lt b a then b else a

/-- `np.min` over a non-empty family -/
def npMinList (a : α) (l : List α) : α := l.foldl npMin a

/-- `np.round(x).astype(int)` for `0 ≤ x ≤ bound`: the index `k` with `rint x = k` (`none`: outside the range) -/
def roundIndex (bound : Nat) (x : α) : Option Nat :=
  (List.range (bound + 1)).find? (fun k => beq (rint x) (lit k))

/-- `Vector3d.dot`: `np.sum(u * v, axis=-1)`; numpy's sum starts from `+0`, which decides the sign of a zero result
(`-0 + -0 + -0` alone would be `-0`) — and `arctan2` in `_calculate_azimuth` sees that sign -/
def npDot (u v : Vec3 α) : α := lit 0 + u.x * v.x + u.y * v.y + u.z * v.z

/-- `Vector3d.angle_with`: `arccos(round(dot / |u| / |v|, 10))` -/
def angleWith (u v : Vec3 α) : α := acos (roundDec 10 (npDot u v / Vec3.norm u / Vec3.norm v))

/-! ### the sector as the colour key sees it -/

structure SectorIn (α : Type) where
  /-- `sector.data`: wall normals as stored (not normalised) -/
  normals : List (Vec3 α)
  /-- `sector.center` (not normalised) -/
  center : Vec3 α
  /-- `sector.vertices` -/
  vertices : List (Vec3 α)

/-- `rx` of `polar_coordinates_in_sector`: x axis (no vertices, point group -1) or north pole, minus the unit centre -/
def rxOf (S : SectorIn α) : Vec3 α :=
  let c := Vec3.unit S.center
  if S.vertices.length == 0 then Vec3.sub ⟨lit 1, lit 0, lit 0⟩ c else Vec3.sub ⟨lit 0, lit 0, lit 1⟩ c

/-- `_calculate_azimuth(center, rx, v)`; `v = center` gives the zero difference vector, `arctan2(0, 0) = 0`;
a NaN azimuth is replaced by 0 -/
def calculateAzimuth (center rx v : Vec3 α) : α :=
  let rx := Vec3.unit (Vec3.sub rx (Vec3.smul (npDot rx center) center))
  let ry := Vec3.unit (Vec3.cross center rx)
  let d := Vec3.unit (Vec3.sub v center)
  let az := fmod (atan2 (npDot ry d) (npDot rx d)) twoPi
  if isNaN az then lit 0 else az

/-- number of table points `m` of `_correct_azimuth` -/
def tableSize : Nat := 1000

/-- `azimuth2 = np.linspace(0, 2π, m)` -/
def tableAngles : List α := linspace (lit 0) twoPi tableSize

/-- `rot * rx.cross(center).unit` for one table angle -/
def rotatedNormal (center rx : Vec3 α) (angle : α) : Vec3 α :=
  Quat.rotateSandwich (Conv.fromAxesAngles false center angle) (Vec3.unit (Vec3.cross rx center))

/-- distance from the centre to the sector boundary in the direction of one table angle:
`min` over the walls of `angle_with(normal × rotated normal, center)`; `none` for a sector without walls
(`np.min` of an empty axis raises) -/
def boundaryDistance (normals : List (Vec3 α)) (center rn : Vec3 α) : Option α :=
  match normals.map (fun n => angleWith (Vec3.cross n rn) center) with
  | [] => none
  | d :: r => some (npMinList d r)

/-- `polar` of `_correct_azimuth` before the renormalisation: one distance per table angle but the last -/
def boundaryDistances (normals : List (Vec3 α)) (center rx : Vec3 α) : Option (List α) :=
  ((tableAngles (α := α)).take (tableSize - 1)).mapM
    (fun a => boundaryDistance normals center (rotatedNormal center rx a))

/-- `polar[idx] /= np.sum(polar[idx]) / 3` on one segment -/
def renormSegment (seg : List α) : List α :=
  let s := sumList seg / lit 3
  seg.map (· / s)

/-- the three-segment renormalisation with segment boundaries `a ≤ b` (`arange(a)`, `arange(a, b)`,
`arange(b, size)`); `none` = `IndexError` (an index beyond the end of `polar`) -/
def renorm3 (a b : Nat) (polar : List α) : Option (List α) :=
  if polar.length < a || (a < b && polar.length < b) then none
  else
    let polar := renormSegment (polar.take a) ++ polar.drop a
    let polar := polar.take a ++ renormSegment ((polar.drop a).take (b - a)) ++ polar.drop (max a b)
    some (polar.take b ++ renormSegment (polar.drop b))

/-- insertion into an increasing list (`np.sort`) -/
def insertSorted (x : α) : List α → List α
  | [] => [x]
  | y :: r => if lt y x then y :: insertSorted x r else x :: y :: r
def sortAsc (l : List α) : List α := l.foldr insertSorted []

/-- segment boundaries of a 3-vertex sector:
`azimuth3 = round(m * sort(angle) / 2π).astype(int)`, first entry deleted when `< 10`; the code then uses
entries 0 and 1.  `none`: a rounded index outside `0..m`. -/
def segmentBounds (center rx : Vec3 α) (vertices : List (Vec3 α)) : Option (Nat × Nat) :=
  let angles := sortAsc (vertices.map (fun v => calculateAzimuth center rx (Vec3.unit v)))
  match angles.mapM (fun a => roundIndex tableSize (lit tableSize * a / twoPi)) with
  | some [i0, i1, i2] => if i0 < 10 then some (i1, i2) else some (i0, i1)
  | _ => none

/-- `2π · cumsum(append(0, polar / sum(polar)))` -/
def cumulativeTable (polar : List α) : List α :=
  let s := sumList polar
  (cumsum (lit 0 :: polar.map (· / s))).map (twoPi * ·)

/-- the table `polar` of `_correct_azimuth` (as long as `azimuth2`); `none` = an exception in the code -/
def azimuthTable (S : SectorIn α) : Option (List α) :=
  let c := Vec3.unit S.center
  let rx := rxOf S
  match boundaryDistances S.normals c rx with
  | none => none
  | some polar =>
    if S.vertices.length == 3 then
      match segmentBounds c rx S.vertices with
      | none => none
      | some (a, b) =>
        match renorm3 a b polar with
        | none => none
        | some p => some (cumulativeTable p)
    else some (cumulativeTable polar)

/-- `np.interp(azimuth, azimuth2, polar)`; `none` = `ValueError` (lengths differ / empty) -/
def correctAzimuth (table : List α) (azimuth : α) : Option α :=
  if table.length != tableSize then none else interp azimuth ((tableAngles (α := α)).zip table)

/-- one term of the polar coordinate: `(-v).angle_with(b) / (-center).angle_with(b)` for the boundary point
`b = (v × center).unit × normal`, NaN (zero boundary vector, `v = centre`) replaced by 1 -/
def distanceRatio (center v vcn normal : Vec3 α) : α :=
  let b := Vec3.unit (Vec3.cross vcn normal)
  let d := angleWith (Vec3.neg v) b / angleWith (Vec3.neg center) b
  if isNaN d then lit 1 else d

/-- the polar coordinate of `polar_coordinates_in_sector` (`center`, `v` unit vectors) -/
def polarCoordinate (normals : List (Vec3 α)) (center v : Vec3 α) : α :=
  match normals with
  | [] => angleWith center v / pi                                      -- `count_nonzero` of nothing is 0
  | n :: ns =>
    if (n :: ns).all (fun m => beq (npDot m center) (lit 0)) then angleWith center v / pi
    else
      let vcn := Vec3.unit (Vec3.cross v center)
      -- `np.minimum(inf, d₀) = d₀`; the terms contain no NaN any more
      (ns.map (distanceRatio center v vcn)).foldl (fun p d => if lt d p then d else p) (distanceRatio center v vcn n)

/-- the azimuth before the correction -/
def rawAzimuth (S : SectorIn α) (v : Vec3 α) : α :=
  calculateAzimuth (Vec3.unit S.center) (rxOf S) (Vec3.unit v)

/-- `polar_coordinates_in_sector(sector, v)` given the correction table of the sector:
(azimuth, polar); `none` = an exception -/
def polarCoordinatesWith (S : SectorIn α) (table : List α) (v : Vec3 α) : Option (α × α) :=
  let c := Vec3.unit S.center
  let u := Vec3.unit v
  let az := calculateAzimuth c (rxOf S) u
  let polar := polarCoordinate S.normals c u
  if S.vertices.length == 0 then some (az, polar)
  else match correctAzimuth table az with
    | none => none
    | some a => some (a, polar)

/-- `polar_coordinates_in_sector(sector, v)` -/
def polarCoordinatesInSector (S : SectorIn α) (v : Vec3 α) : Option (α × α) :=
  if S.vertices.length == 0 then polarCoordinatesWith S [] v
  else match azimuthTable S with
    | none => none
    | some t => polarCoordinatesWith S t v

/-- `rgb_from_polar_coordinates(azimuth, polar)`: hue `mod(azimuth / 2π, 1)`, saturation 1, lightness `polar` -/
def rgbFromPolarCoordinates (azimuth polar : α) : List α :=
  match hslToHsv (fmod (azimuth / twoPi) (lit 1)) (lit 1) polar with
  | [h, s, v] => hsvToRgb h s v
  | _ => []

/-- `DirectionColorKeyTSL.direction2color` for a direction `h` that is already inside the sector -/
def directionColor (S : SectorIn α) (h : Vec3 α) : Option (List α) :=
  match polarCoordinatesInSector S h with
  | none => none
  | some (az, polar) => some (rgbFromPolarCoordinates az (dec 5 1 + polar / lit 2))

end Orix.ColorKey
