import OrixModel.Scalar
import OrixModel.Quat
/-
`unique()` as orix implements it (`Object3d.unique` in `orix/_base.py`, `Rotation.unique` and
`Rotation._differentiators` in `orix/quaternion/rotation.py`, `Miller.unique(use_symmetry=False)` in
`orix/vector/miller.py`), over an abstract type of *keys* (the rounded rows numpy compares), next to the
specification the property states (first-occurrence de-duplication with index and inverse maps).

Core Lean only.  `np.unique(rows, axis=0, return_index=True, return_inverse=True)` is modelled by its
contract: the distinct rows in sorted order, for each the position of its first occurrence, for each input row
the position of its row in the sorted list (`npUnique`).  `np.round` is modelled for `Float` by
`rint (x·10^d)` (`roundKey`); keys are the resulting integers (equal integers ⇔ equal rounded doubles for
|x| < 10^5, and the order is the same).
-/
namespace Orix.Unique

variable {κ : Type} [DecidableEq κ]

/-! ## specification -/

/-- is position `i` the first position holding its key? -/
def isFirst (keys : List κ) (i : Nat) : Bool :=
  match keys[i]? with
  | some k => keys.idxOf k == i
  | none => false

/-- positions of first occurrences, increasing: the `idx` the property asks for -/
def firstIdx (keys : List κ) : List Nat := (List.range keys.length).filter (isFirst keys)

/-- the returned keys: the key at each first occurrence, in order of first appearance -/
def outKeys (keys : List κ) : List κ := (firstIdx keys).filterMap (fun i => keys[i]?)

/-- for every input position the position (in the output) of the element it equals: the `inv` the property
asks for -/
def invSpec (keys : List κ) : List Nat := keys.map (fun k => (firstIdx keys).idxOf (keys.idxOf k))

/-- the same de-duplication written as a recursion: keep an element, delete its later copies -/
def dedup : List κ → List κ
  | [] => []
  | x :: xs => x :: (dedup xs).filter (fun y => y ≠ x)

/-- specification with dropped entries (zero vectors): `idx` refers to the flattened input, `inv` has one
entry per non-dropped input entry -/
structure Result (κ : Type) where
  out : List κ
  idx : List Nat
  inv : List Nat
  deriving Repr, DecidableEq

/-- the entries that are kept, with their positions in the flattened input -/
def keptZ (drop : κ → Bool) (keys : List κ) : List (κ × Nat) := keys.zipIdx.filter (fun p => !drop p.1)

def uniqueSpec (drop : κ → Bool) (keys : List κ) : Result κ :=
  let kept := (keptZ drop keys).map (·.1)
  let pos := (keptZ drop keys).map (·.2)
  { out := outKeys kept,
    idx := (firstIdx kept).filterMap (fun i => pos[i]?),
    inv := invSpec kept }

/-! ## the code -/

def insertBy (lt : κ → κ → Bool) (x : κ) : List κ → List κ
  | [] => [x]
  | y :: ys => if lt y x then y :: insertBy lt x ys else x :: y :: ys

/-- insertion sort (stable); with a strict total order on distinct elements this is *the* sorted list -/
def isort (lt : κ → κ → Bool) : List κ → List κ
  | [] => []
  | x :: xs => insertBy lt x (isort lt xs)

/-- `np.unique(keys, axis=0, return_index=True, return_inverse=True)` -/
def npUnique (lt : κ → κ → Bool) (keys : List κ) : List κ × List Nat × List Nat :=
  let U := isort lt (dedup keys)
  (U, U.map (fun k => keys.idxOf k), keys.map (fun k => U.idxOf k))

def natLt (a b : Nat) : Bool := decide (a < b)

/-- `Object3d.unique` (also `Quaternion`, `Vector3d`, and `Miller.unique(use_symmetry=False)`):
```
data = self.flatten()._data.round(10)
data = data[~np.all(np.isclose(data, 0), axis=1)]
_, idx, inv = np.unique(data, axis=0, return_index=True, return_inverse=True)
obj = self.__class__(data[np.sort(idx), : self.dim])
return obj, idx, inv
```
`idx` and `inv` are returned as numpy gave them: they refer to the zero-removed rows and to the *sorted*
unique rows, not to the returned elements. -/
def baseUnique (lt : κ → κ → Bool) (drop : κ → Bool) (keys : List κ) : Result κ :=
  let data := keys.filter (fun k => !drop k)
  let (_, idx, inv) := npUnique lt data
  { out := (isort natLt idx).filterMap (fun i => data[i]?), idx := idx, inv := inv }

/-- `Rotation.unique` (an empty object returns empty index arrays, which is what the general path computes):
```
_, idx, inv = np.unique(abcd, axis=0, return_index=True, return_inverse=True)
idx_argsort = np.argsort(idx); idx_sort = idx[idx_argsort]
inv_map = np.empty_like(idx_argsort); inv_map[idx_argsort] = np.arange(idx_argsort.size)
inv = inv_map[inv]; dat = R[idx_sort]
```
`idx` has distinct entries, so `idx[argsort idx]` is the sorted list and `inv_map[u]` is the rank of `idx[u]`
in it.  The returned elements are the input elements at `idx_sort` (`out` lists their keys). -/
def rotUnique (lt : κ → κ → Bool) (keys : List κ) : Result κ :=
  let (_, idx, inv) := npUnique lt keys
  let idxSort := isort natLt idx
  { out := idxSort.filterMap (fun i => keys[i]?),
    idx := idxSort,
    inv := inv.filterMap (fun u => (idx[u]?).map (fun i => idxSort.idxOf i)) }

/-! ## keys -/

/-- lexicographic order on rows, as `np.unique(axis=0)` sorts them -/
def lexLt : List Int → List Int → Bool
  | [], [] => false
  | [], _ :: _ => true
  | _ :: _, [] => false
  | a :: as, b :: bs => if a < b then true else if b < a then false else lexLt as bs

/-- `np.isclose(row, 0).all()` on a row rounded to 10 decimals and scaled by 10^10: |x| ≤ 1e-8 -/
def zeroRow (row : List Int) : Bool := row.all (fun n => decide (-100 ≤ n ∧ n ≤ 100))

variable {α : Type} [Scalar α]

/-- `Rotation._differentiators` before rounding:
`a², b², c², d², ab, ac, ad, bc, bd, cd` (the improper flag is appended by the caller) -/
def differentiators (q : Quat α) : List α :=
  [q.a * q.a, q.b * q.b, q.c * q.c, q.d * q.d, q.a * q.b, q.a * q.c, q.a * q.d, q.b * q.c, q.b * q.d, q.c * q.d]

/-- `rint`: round half to even, for |y| < 2^62 -/
def rint (y : Float) : Int :=
  let f := Float.floor y
  let d := y - f
  let n : Int := f.toInt64.toInt
  if d < 0.5 then n else if d > 0.5 then n + 1 else (if n % 2 = 0 then n else n + 1)

/-- `np.round(x, d)` computes `rint(x · 10^d) / 10^d`; the key is the integer `rint(x · 10^d)` -/
def roundKey (d : Nat) (x : Float) : Int := rint (x * Float.ofNat (10 ^ d))

end Orix.Unique
