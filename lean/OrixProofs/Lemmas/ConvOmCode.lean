import OrixProofs.Lemmas.ConvOmSpec
/-
matrix → quaternion, code-shaped model (`Conv.om2qu`, with the `eps9` thresholds on the *squared*
quantities and the repaired two-fold branch): on the matrix of a unit quaternion it returns the
canonical representative, under the guard the thresholds need —
each "almost" quantity `4x²` is either `≥ eps9` or the component `x` is exactly `0`.
-/
namespace Orix
open Scalar

/-- the guard of one component: outside the threshold band, or exactly zero -/
def OmGuard (x : ℝ) : Prop := 1 / 10 ^ 9 ≤ 4 * (x * x) ∨ x = 0

theorem OmGuard.lt_iff {x : ℝ} (g : OmGuard x) : 4 * (x * x) < 1 / 10 ^ 9 ↔ x = 0 := by
  constructor
  · intro h; rcases g with g | g
    · exact absurd h (not_lt.mpr g)
    · exact g
  · rintro rfl; norm_num

theorem lt_ab (q : Quat ℝ) : (Quat.toMat q).m21 < (Quat.toMat q).m12 ↔ q.a * q.b < 0 := by
  have := anti_ab q; constructor <;> intro h <;> nlinarith
theorem lt_ac (q : Quat ℝ) : (Quat.toMat q).m02 < (Quat.toMat q).m20 ↔ q.a * q.c < 0 := by
  have := anti_ac q; constructor <;> intro h <;> nlinarith
theorem lt_ad (q : Quat ℝ) : (Quat.toMat q).m10 < (Quat.toMat q).m01 ↔ q.a * q.d < 0 := by
  have := anti_ad q; constructor <;> intro h <;> nlinarith
theorem lt_bc (q : Quat ℝ) : (Quat.toMat q).m01 + (Quat.toMat q).m10 < 0 ↔ q.b * q.c < 0 := by
  rw [sym_bc]; constructor <;> intro h <;> linarith
theorem lt_bd (q : Quat ℝ) : (Quat.toMat q).m02 + (Quat.toMat q).m20 < 0 ↔ q.b * q.d < 0 := by
  rw [sym_bd]; constructor <;> intro h <;> linarith
theorem lt_cd (q : Quat ℝ) : (Quat.toMat q).m12 + (Quat.toMat q).m21 < 0 ↔ q.c * q.d < 0 := by
  rw [sym_cd]; constructor <;> intro h <;> linarith

theorem beq_real_false (x y : ℝ) : Scalar.beq x y = false ↔ ¬ x = y := by
  show decide (x = y) = false ↔ _; simp

/-- `|y|` with the sign of `x·y` -/
noncomputable def sgnAbs (x y : ℝ) : ℝ := if x * y < 0 then -|y| else |y|

theorem sgnAbs_pos {x : ℝ} (y : ℝ) (hx : 0 < x) : sgnAbs x y = y := by
  unfold sgnAbs
  split_ifs with h
  · have : y < 0 := by nlinarith
    rw [abs_of_neg this]; ring
  · have : 0 ≤ y := by by_contra hy; push Not at hy; exact h (by nlinarith)
    exact abs_of_nonneg this
theorem sgnAbs_neg {x : ℝ} (y : ℝ) (hx : x < 0) : sgnAbs x y = -y := by
  unfold sgnAbs
  split_ifs with h
  · have : 0 < y := by nlinarith
    rw [abs_of_pos this]
  · have : y ≤ 0 := by by_contra hy; push Not at hy; exact h (by nlinarith)
    exact abs_of_nonpos this
theorem sgnAbs_zero (y : ℝ) : sgnAbs 0 y = |y| := by simp [sgnAbs]

/-- first stage of one vector component of `om2qu_single`, under the guard -/
theorem om_stage1 (x y : ℝ) (g : OmGuard y) :
    (if 4 * (y * y) < 1 / 10 ^ 9 then (0 : ℝ)
      else if x * y < 0 then -(1 / 2) * Real.sqrt (4 * (y * y)) else 1 / 2 * Real.sqrt (4 * (y * y)))
      = sgnAbs x y := by
  rw [sqrt_four_sq]
  by_cases hy : y = 0
  · subst hy; simp [sgnAbs]
  · rw [if_neg (fun h => hy (g.lt_iff.mp h))]
    unfold sgnAbs; split_ifs <;> ring

theorem om_stage1_a (x : ℝ) (g : OmGuard x) :
    (if 4 * (x * x) < 1 / 10 ^ 9 then (0 : ℝ) else 1 / 2 * Real.sqrt (4 * (x * x))) = |x| := by
  rw [sqrt_four_sq]
  by_cases hx : x = 0
  · subst hx; simp
  · rw [if_neg (fun h => hx (g.lt_iff.mp h))]; ring

/-- the vector part `om2qu_single` arrives at before normalising (in terms of the quaternion whose
matrix it was given) -/
noncomputable def omVec (a b c d : ℝ) : Vec3 ℝ :=
  if a = 0 then
    if ¬ sgnAbs a b = 0 then
      ⟨|sgnAbs a b|, if b * c < 0 then -|sgnAbs a c| else |sgnAbs a c|,
        if b * d < 0 then -|sgnAbs a d| else |sgnAbs a d|⟩
    else if ¬ sgnAbs a c = 0 then ⟨sgnAbs a b, |sgnAbs a c|, if c * d < 0 then -|sgnAbs a d| else |sgnAbs a d|⟩
    else ⟨sgnAbs a b, sgnAbs a c, sgnAbs a d⟩
  else ⟨sgnAbs a b, sgnAbs a c, sgnAbs a d⟩

/-- the final `qu / norm` of `om2qu_single` -/
noncomputable def omNormalize (q0 : ℝ) (v : Vec3 ℝ) : Quat ℝ :=
  ⟨q0 / Real.sqrt (q0 * q0 + v.x * v.x + v.y * v.y + v.z * v.z),
   v.x / Real.sqrt (q0 * q0 + v.x * v.x + v.y * v.y + v.z * v.z),
   v.y / Real.sqrt (q0 * q0 + v.x * v.x + v.y * v.y + v.z * v.z),
   v.z / Real.sqrt (q0 * q0 + v.x * v.x + v.y * v.y + v.z * v.z)⟩

/-- `Conv.om2qu` on the matrix of a unit quaternion, in terms of the quaternion's components -/
theorem omCode_toMat (q : Quat ℝ) (h : Quat.normSq q = 1)
    (ga : OmGuard q.a) (gb : OmGuard q.b) (gc : OmGuard q.c) (gd : OmGuard q.d) :
    Conv.om2qu (Quat.toMat q) = omNormalize |q.a| (omVec q.a q.b q.c q.d) := by
  simp only [Conv.om2qu, lit_real, Nat.cast_one, Nat.cast_zero, lt_real, sqrt_real, abs_real,
    Bool.not_eq_eq_eq_not, Bool.not_true,
    almost_a q h, almost_b q h, almost_c q h, almost_d q h, lt_ab, lt_ac, lt_ad, lt_bc, lt_bd, lt_cd,
    eps9_real, half_real, om_stage1 _ _ gb, om_stage1 _ _ gc, om_stage1 _ _ gd, om_stage1_a _ ga, beq_real_false]
  simp only [ga.lt_iff, omNormalize, omVec]

theorem omNormalize_unit (x : ℝ) (v : Vec3 ℝ) (h : x * x + v.x * v.x + v.y * v.y + v.z * v.z = 1) :
    omNormalize x v = ⟨x, v.x, v.y, v.z⟩ := by
  simp only [omNormalize, h, Real.sqrt_one, div_one]

theorem ite_neg_abs_pos {x : ℝ} (y : ℝ) (hx : 0 < x) : (if x * y < 0 then -|y| else |y|) = y := sgnAbs_pos y hx
theorem ite_neg_abs_neg {x : ℝ} (y : ℝ) (hx : x < 0) : (if x * y < 0 then -|y| else |y|) = -y := sgnAbs_neg y hx

/-- the un-normalised result is already the canonical representative -/
theorem omVec_eq_canon (a b c d : ℝ) :
    (⟨|a|, (omVec a b c d).x, (omVec a b c d).y, (omVec a b c d).z⟩ : Quat ℝ) = ConvSpec.canon ⟨a, b, c, d⟩ := by
  rw [canon_real]
  simp only [Quat.neg, omVec]
  rcases lt_trichotomy a 0 with ha | ha | ha
  · simp only [if_neg ha.ne, sgnAbs_neg _ ha, if_neg (not_lt.mpr ha.le), if_pos ha, abs_of_neg ha]
  · subst ha
    simp only [sgnAbs_zero, if_true, abs_abs, abs_zero, lt_irrefl, if_false, abs_eq_zero]
    rcases lt_trichotomy b 0 with hb | hb | hb
    · simp only [if_pos hb.ne, ite_neg_abs_neg _ hb, if_neg (not_lt.mpr hb.le), if_pos hb, abs_of_neg hb,
        neg_zero]
    · subst hb
      simp only [not_true_eq_false, if_false, abs_zero, lt_irrefl]
      rcases lt_trichotomy c 0 with hc | hc | hc
      · simp only [if_pos hc.ne, ite_neg_abs_neg _ hc, if_neg (not_lt.mpr hc.le), if_pos hc, abs_of_neg hc,
          neg_zero]
      · subst hc
        simp only [not_true_eq_false, if_false, abs_zero, lt_irrefl]
        rcases lt_trichotomy d 0 with hd0 | hd0 | hd0
        · simp only [if_neg (not_lt.mpr hd0.le), if_pos hd0, abs_of_neg hd0, neg_zero]
        · subst hd0; simp
        · simp only [if_pos hd0, abs_of_pos hd0]
      · simp only [if_pos hc.ne', ite_neg_abs_pos _ hc, if_pos hc, abs_of_pos hc]
    · simp only [if_pos hb.ne', ite_neg_abs_pos _ hb, if_pos hb, abs_of_pos hb]
  · simp only [if_neg ha.ne', sgnAbs_pos _ ha, if_pos ha, abs_of_pos ha]

theorem normSq_canon (q : Quat ℝ) : Quat.normSq (ConvSpec.canon q) = Quat.normSq q := by
  rcases canon_eq_or_neg q with h | h <;> rw [h]
  simp only [Quat.normSq, Quat.neg]; ring

/-- **code-shaped matrix → quaternion inverts quaternion → matrix** (canonical sign), under the guards -/
theorem omCode_toMat_eq_canon (q : Quat ℝ) (h : Quat.normSq q = 1)
    (ga : OmGuard q.a) (gb : OmGuard q.b) (gc : OmGuard q.c) (gd : OmGuard q.d) :
    Conv.om2qu (Quat.toMat q) = ConvSpec.canon q := by
  rw [omCode_toMat q h ga gb gc gd]
  obtain ⟨a, b, c, d⟩ := q
  have e := omVec_eq_canon a b c d
  have hn : Quat.normSq (ConvSpec.canon ⟨a, b, c, d⟩) = 1 := by rw [normSq_canon, h]
  rw [← e] at hn ⊢
  exact omNormalize_unit _ _ hn

end Orix
