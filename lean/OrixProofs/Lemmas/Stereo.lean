import Mathlib.Tactic.Ring
import Mathlib.Tactic.FieldSimp
import Mathlib.Tactic.LinearCombination
import Mathlib.Tactic.Positivity
import Mathlib.Tactic.NormNum
import Mathlib.Tactic.Linarith
import OrixProofs.Lemmas.RealScalar
import OrixProofs.Lemmas.Lattice
import OrixModel.Stereo
import Mathlib.Analysis.Complex.Norm
/-
Helper lemmas for C20 (stereographic projection over ℝ).
-/
namespace Orix.StereoLemmas
open Orix Scalar Stereo LatLemmas

@[simp] theorem val_north : (Pole.val .north : ℝ) = 1 := by simp [Pole.val]
@[simp] theorem val_south : (Pole.val .south : ℝ) = -1 := by simp [Pole.val]

theorem val_sq (p : Pole) : (p.val : ℝ) * p.val = 1 := by cases p <;> simp

theorem npow_two (x : ℝ) : Scalar.npow x 2 = x * x := rfl

/-- `_vector2xy` on a unit vector away from the projection point: the plain formula -/
theorem vector2xyRaw_of_unit (p : Pole) (v : Vec3 ℝ) (hv : Vec3.normSq v = 1) (hz : v.z ≠ p.val) :
    vector2xyRaw p v = ((-p.val) * v.x / (v.z - p.val), (-p.val) * v.y / (v.z - p.val)) := by
  have hb : ¬ (Scalar.beq (v.z - p.val) (Scalar.lit 0 : ℝ) = true) := by
    rw [beq_real, lit_real]; simpa [sub_eq_zero] using hz
  simp only [vector2xyRaw, vector2xyUnit, unit_of_unit hv, hb, if_false, Bool.false_eq_true]

/-- at the projection point itself the guarded branch answers `(0, 0)` -/
theorem vector2xyRaw_at_pole (p : Pole) (v : Vec3 ℝ) (hv : Vec3.normSq v = 1) (hz : v.z = p.val) :
    vector2xyRaw p v = (0, 0) := by
  have hb : Scalar.beq (v.z - p.val) (0 : ℝ) = true := by
    rw [beq_real]; simp [hz]
  simp only [vector2xyRaw, vector2xyUnit, unit_of_unit hv, lit_real, Nat.cast_zero, hb, if_true]

theorem inRegion_iff (p : Pole) (v : Vec3 ℝ) : inRegion p v = true ↔ -(1 / 10 ^ 9 : ℝ) < -p.val * v.z := by
  simp only [inRegion, lt_real, dec_real, Vec3.dot, lit_real, Nat.cast_zero, Nat.cast_one, zero_mul, zero_add]



/-! ### spherical coordinates -/

theorem snap_id (x : ℝ) (hx : x = 0 ∨ 1 / 10 ^ 8 < |x|) :
    (if isclose0 x = true then (Scalar.lit 0 : ℝ) else x) = x := by
  rcases hx with rfl | h
  · simp [lit_real]
  · have : ¬ (isclose0 x = true) := by
      simp only [isclose0, le_real, abs_real, dec_real, Nat.cast_one]; linarith
    rw [if_neg this]

theorem radial_eq (v : Vec3 ℝ) : radial v = Real.sqrt (v.x * v.x + v.y * v.y + v.z * v.z) := by
  simp only [radial, npow_two, sqrt_real]

theorem azimuth_cos_sin (v : Vec3 ℝ) (hx : v.x = 0 ∨ 1 / 10 ^ 8 < |v.x|) (hy : v.y = 0 ∨ 1 / 10 ^ 8 < |v.y|) :
    Real.cos (azimuth v) = Real.cos (Complex.arg ⟨v.x, v.y⟩)
      ∧ Real.sin (azimuth v) = Real.sin (Complex.arg ⟨v.x, v.y⟩) := by
  simp only [azimuth]
  rw [snap_id v.x hx, snap_id v.y hy]
  simp only [atan2_real, lit_real, pi_real, lt_real, Nat.cast_zero, Nat.cast_ofNat]
  by_cases h : Complex.arg ⟨v.x, v.y⟩ < 0
  · rw [if_pos h]; exact ⟨Real.cos_add_two_pi _, Real.sin_add_two_pi _⟩
  · rw [if_neg h]; exact ⟨rfl, rfl⟩

/-- the heart of the spherical round trip, in radians -/
theorem fromPolar_toPolar_rad (v : Vec3 ℝ) (hv : 0 < Vec3.normSq v)
    (hx : v.x = 0 ∨ 1 / 10 ^ 8 < |v.x|) (hy : v.y = 0 ∨ 1 / 10 ^ 8 < |v.y|) :
    fromPolar false (azimuth v) (polar v) (radial v) = v := by
  obtain ⟨hc, hs⟩ := azimuth_cos_sin v hx hy
  obtain ⟨x, y, z⟩ := v
  simp only [Vec3.normSq, Vec3.dot] at hv hx hy hc hs
  have hr := radial_eq ⟨x, y, z⟩
  simp only at hr
  have hrpos : 0 < Real.sqrt (x * x + y * y + z * z) := Real.sqrt_pos.mpr hv
  have hrsq : Real.sqrt (x * x + y * y + z * z) * Real.sqrt (x * x + y * y + z * z) = x * x + y * y + z * z :=
    Real.mul_self_sqrt hv.le
  have hρnn : 0 ≤ x * x + y * y := by nlinarith [mul_self_nonneg x, mul_self_nonneg y]
  have hρsq : Real.sqrt (x * x + y * y) * Real.sqrt (x * x + y * y) = x * x + y * y := Real.mul_self_sqrt hρnn
  have hnorm : ‖(⟨x, y⟩ : ℂ)‖ = Real.sqrt (x * x + y * y) := by
    rw [Complex.norm_def, Complex.normSq_mk]
  simp only [fromPolar, polar, hr, if_false, Bool.false_eq_true, cos_real, sin_real, acos_real, hc, hs]
  generalize hR : Real.sqrt (x * x + y * y + z * z) = r at *
  generalize hP : Real.sqrt (x * x + y * y) = ρ at *
  have hρ0 : 0 ≤ ρ := by rw [← hP]; exact Real.sqrt_nonneg _
  -- polar angle
  have hzr : -1 ≤ z / r ∧ z / r ≤ 1 := by
    constructor
    · rw [le_div_iff₀ hrpos]; nlinarith [mul_self_nonneg (z + r)]
    · rw [div_le_iff₀ hrpos]; nlinarith [mul_self_nonneg (z - r)]
  have hcost : Real.cos (Real.arccos (z / r)) = z / r := Real.cos_arccos hzr.1 hzr.2
  have hsint : Real.sin (Real.arccos (z / r)) = ρ / r := by
    rw [Real.sin_arccos]
    have : 1 - (z / r) ^ 2 = (ρ / r) ^ 2 := by
      field_simp; nlinarith
    rw [this, Real.sqrt_sq (div_nonneg hρ0 hrpos.le)]
  rw [hcost, hsint]
  have hrne := hrpos.ne'
  by_cases hρz : ρ = 0
  · have hx0 : x = 0 := by nlinarith [mul_self_nonneg x, mul_self_nonneg y]
    have hy0 : y = 0 := by nlinarith [mul_self_nonneg x, mul_self_nonneg y]
    subst hx0; subst hy0
    rw [hρz]
    congr 1
    · simp
    · simp
    · field_simp
  · have hcne : (⟨x, y⟩ : ℂ) ≠ 0 := by
      intro h; apply hρz; rw [← hnorm, h, norm_zero]
    rw [Complex.cos_arg hcne, Complex.sin_arg, hnorm]
    simp only
    congr 1 <;> field_simp

/-- the azimuth is always in `[0, 2π)` -/
theorem azimuth_range (v : Vec3 ℝ) : 0 ≤ azimuth v ∧ azimuth v < 2 * Real.pi := by
  simp only [azimuth]
  generalize (if isclose0 v.x = true then (Scalar.lit 0 : ℝ) else v.x) = x
  generalize (if isclose0 v.y = true then (Scalar.lit 0 : ℝ) else v.y) = y
  simp only [atan2_real, lit_real, pi_real, lt_real, Nat.cast_zero, Nat.cast_ofNat]
  have h1 := Complex.neg_pi_lt_arg ⟨x, y⟩
  have h2 := Complex.arg_le_pi ⟨x, y⟩
  have hp := Real.pi_pos
  by_cases h : Complex.arg ⟨x, y⟩ < 0
  · rw [if_pos h]; constructor <;> linarith
  · rw [if_neg h]; push Not at h; constructor <;> linarith

/-- the polar angle is in `[0, π]`, and at most `π/2` exactly for the vectors of the closed upper hemisphere -/
theorem polar_range (v : Vec3 ℝ) (hv : 0 < Vec3.normSq v) :
    0 ≤ polar v ∧ polar v ≤ Real.pi ∧ (polar v ≤ Real.pi / 2 ↔ 0 ≤ v.z) ∧ (Real.pi / 2 ≤ polar v ↔ v.z ≤ 0) := by
  simp only [Vec3.normSq, Vec3.dot] at hv
  have hr : 0 < Real.sqrt (v.x * v.x + v.y * v.y + v.z * v.z) := Real.sqrt_pos.mpr hv
  simp only [polar, radial_eq, acos_real]
  refine ⟨Real.arccos_nonneg _, Real.arccos_le_pi _, ?_, ?_⟩
  · rw [Real.arccos_le_pi_div_two]
    constructor
    · intro h
      by_contra hz
      push Not at hz
      have := div_neg_of_neg_of_pos hz hr
      linarith
    · intro h; exact div_nonneg h hr.le
  · rw [← not_lt, Real.arccos_lt_pi_div_two, not_lt]
    constructor
    · intro h
      by_contra hz
      push Not at hz
      have := div_pos hz hr
      linarith
    · intro h; exact div_nonpos_of_nonpos_of_nonneg h hr.le

theorem deg_rad (a : ℝ) : deg2rad (rad2deg a) = a := by
  simp only [deg2rad, rad2deg, pi_real, lit_real]
  have := Real.pi_ne_zero
  push_cast; field_simp

end Orix.StereoLemmas
