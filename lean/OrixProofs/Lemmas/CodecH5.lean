import OrixProofs.Lemmas.CodecRec
import OrixModel.Codec.H5
set_option linter.unusedSimpArgs false
set_option linter.unusedVariables false
/-
Lemmas for the orix-HDF5 model: the generic codec (write → store → read) is "sort every dict by key and
normalise the leaves"; sorting facts; association lists under permutation.
-/
namespace Orix.Codec.H5
open Orix.Codec

/-! ### sorting = Mathlib's insertion sort -/

theorem insertK_eq {α} (e : Key × α) (l : List (Key × α)) :
    insertK e l = List.orderedInsert (fun a b : Key × α => Key.le a.1 b.1 = true) e l := by
  induction l with
  | nil => rfl
  | cons f r ih => simp [insertK, List.orderedInsert, ih]

theorem sortK_eq {α} (l : List (Key × α)) :
    sortK l = List.insertionSort (fun a b : Key × α => Key.le a.1 b.1 = true) l := by
  induction l with
  | nil => rfl
  | cons e r ih =>
    have : sortK (e :: r) = insertK e (sortK r) := rfl
    rw [this, ih, insertK_eq]; rfl

theorem sortK_perm {α} (l : List (Key × α)) : (sortK l).Perm l := by
  rw [sortK_eq]; exact List.perm_insertionSort _ l

/-- a function on the values commutes with sorting by key -/
theorem sortK_map {α β} (f : α → β) (l : List (Key × α)) :
    sortK (l.map fun kv => (kv.1, f kv.2)) = (sortK l).map fun kv => (kv.1, f kv.2) := by
  have hi : ∀ (e : Key × α) (l : List (Key × α)),
      insertK (e.1, f e.2) (l.map fun kv => (kv.1, f kv.2)) = (insertK e l).map fun kv => (kv.1, f kv.2) := by
    intro e l
    induction l with
    | nil => rfl
    | cons g r ih =>
      simp only [List.map_cons, insertK]
      split_ifs <;> simp [ih]
  induction l with
  | nil => rfl
  | cons e r ih =>
    have h1 : sortK (e :: r) = insertK e (sortK r) := rfl
    have h2 : sortK ((e :: r).map fun kv => (kv.1, f kv.2))
        = insertK (e.1, f e.2) (sortK (r.map fun kv => (kv.1, f kv.2))) := rfl
    rw [h1, h2, ih, hi]

/-! ### association lists -/

theorem lookupK_perm {α} (k : Key) {l₁ l₂ : List (Key × α)} (hp : l₁.Perm l₂)
    (hn : (l₁.map (·.1)).Nodup) : lookupK k l₁ = lookupK k l₂ := by
  induction hp with
  | nil => rfl
  | cons x _ ih =>
    obtain ⟨k', v⟩ := x
    simp only [lookupK]
    split_ifs
    · rfl
    · exact ih (List.nodup_cons.1 hn).2
  | swap x y l =>
    obtain ⟨kx, vx⟩ := x
    obtain ⟨ky, vy⟩ := y
    simp only [List.map_cons, List.nodup_cons, List.mem_cons] at hn
    have hne : ky ≠ kx := fun h => hn.1 (Or.inl h)
    simp only [lookupK]
    by_cases h1 : kx = k
    · have h2 : ¬ ky = k := fun h => hne (h.trans h1.symm)
      simp [h1, h2]
    · simp [h1]
  | trans h₁ _ ih₁ ih₂ =>
    exact (ih₁ hn).trans (ih₂ ((h₁.map _).nodup_iff.1 hn))

theorem lookupK_sortK {α} (k : Key) (l : List (Key × α)) (hn : (l.map (·.1)).Nodup) :
    lookupK k (sortK l) = lookupK k l :=
  lookupK_perm k (sortK_perm l) (((sortK_perm l).map _).nodup_iff.2 hn)

theorem lookupK_append_left {α} (k : Key) (l r : List (Key × α)) (v : α) (h : lookupK k l = some v) :
    lookupK k (l ++ r) = some v := by
  induction l with
  | nil => simp [lookupK] at h
  | cons e l ih =>
    obtain ⟨k', x⟩ := e
    simp only [lookupK, List.cons_append] at h ⊢
    split_ifs at h ⊢
    · exact h
    · exact ih h

/-! ### `dict.update` with fresh keys appends -/

theorem dictSet_fresh {α} (k : Key) (v : α) (l : List (Key × α)) (h : ∀ e ∈ l, e.1 ≠ k) :
    dictSet k v l = l ++ [(k, v)] := by
  induction l with
  | nil => rfl
  | cons e r ih =>
    obtain ⟨k', v'⟩ := e
    have : ¬ k' = k := h (k', v') (by simp)
    simp [dictSet, this, ih (fun e he => h e (by simp [he]))]

theorem dictUpdate_fresh {α} (d u : List (Key × α)) (hd : ∀ e ∈ u, ∀ f ∈ d, f.1 ≠ e.1)
    (hu : (u.map (·.1)).Nodup) : dictUpdate d u = d ++ u := by
  induction u generalizing d with
  | nil => simp [dictUpdate]
  | cons e r ih =>
    have h1 : dictUpdate d (e :: r) = dictUpdate (dictSet e.1 e.2 d) r := rfl
    rw [h1, dictSet_fresh e.1 e.2 d (fun f hf => hd e (by simp) f hf)]
    rw [ih (d ++ [(e.1, e.2)]) ?_ (List.nodup_cons.1 hu).2]
    · simp
    · intro g hg f hf
      rcases List.mem_append.1 hf with hf | hf
      · exact hd g (by simp [hg]) f hf
      · simp only [List.mem_singleton] at hf
        subst hf
        intro heq
        exact (List.nodup_cons.1 hu).1 (List.mem_map.2 ⟨g, hg, heq.symm⟩)

/-! ### strings -/

theorem utf8_ascii (s : Str) (h : ∀ c ∈ s, c < 128) : s.flatMap utf8 = s := by
  induction s with
  | nil => rfl
  | cons c r ih =>
    have hc : c < 128 := h c (by simp)
    simp [List.flatMap_cons, utf8, hc, ih (fun d hd => h d (by simp [hd]))]

theorem dropWhile_none {α} (p : α → Bool) (l : List α) (h : ∀ a ∈ l, p a = false) : l.dropWhile p = l := by
  cases l with
  | nil => rfl
  | cons a r => simp [List.dropWhile, h a (by simp)]

/-- an ASCII string without NUL characters survives `encode()` → `S<len+1>` → latin-1 -/
theorem str_roundtrip (s : Str) (h : ∀ c ∈ s, 0 < c ∧ c < 128) :
    readDS (storeStr s) = .str s := by
  have h1 : s.flatMap utf8 = s := utf8_ascii s (fun c hc => (h c hc).2)
  have h2 : s.take (s.length + 1) = s := List.take_of_length_le (by omega)
  have h3 : dropTrailingNul s = s := by
    unfold dropTrailingNul
    rw [dropWhile_none _ _ (fun a ha => by
      have := (h a (List.mem_reverse.1 ha)).1
      simp; omega)]
    simp
  simp [readDS, storeStr, loadStr, h1, h2, h3]

/-! ### the generic codec: write → store → read = sort every dict by key, normalise every leaf -/

/-- what a leaf value looks like after a trip through the file -/
def normVal : Val → Val
  | .scalar dt v => .scalar dt v
  | .str s => readDS (storeStr s)
  | .arr a => readDS (.num a.dt a.shape a.vals)
  | .none => .none

mutual
/-- no `None` leaf anywhere (a `None` makes the writer abandon the rest of the group) -/
def clean : PyTree → Bool
  | .leaf .none => false
  | .leaf (.scalar _ _) => true
  | .leaf (.str _) => true
  | .leaf (.arr _) => true
  | .dict items => cleanItems items
def cleanItems : List (Key × PyTree) → Bool
  | [] => true
  | (_, t) :: r => clean t && cleanItems r
end

mutual
def roundTree : PyTree → PyTree
  | .leaf v => .leaf (normVal v)
  | .dict items => .dict (sortK (roundItems items))
def roundItems : List (Key × PyTree) → List (Key × PyTree)
  | [] => []
  | (k, t) :: r => (k, roundTree t) :: roundItems r
end

theorem readItems_eq_map (l : List (Key × H5)) :
    readItems l = l.map fun kv => (kv.1, readTree kv.2) := by
  induction l with
  | nil => simp [readItems]
  | cons e r ih => obtain ⟨k, t⟩ := e; simp [readItems, ih]

theorem readItems_sortK (l : List (Key × H5)) : readItems (sortK l) = sortK (readItems l) := by
  rw [readItems_eq_map, readItems_eq_map, sortK_map]

mutual
/-- **generic codec theorem**: for every nested dict without `None` leaves, `dict2hdf5group` succeeds and
`hdf5group2dict` of the stored file is the dict with every level sorted by key and every leaf normalised -/
theorem codec_tree : ∀ t : PyTree, clean t = true →
    ∃ h, writeTree t = some h ∧ readTree (storeTree h) = roundTree t
  | .leaf (.scalar dt v), _ =>
    ⟨.ds (.num dt [1] [v]), by simp [writeTree], by simp [storeTree, readTree, readDS, roundTree, normVal]⟩
  | .leaf (.str s), _ =>
    ⟨.ds (storeStr s), by simp [writeTree], by simp [storeTree, readTree, roundTree, normVal]⟩
  | .leaf (.arr a), _ =>
    ⟨.ds (.num a.dt a.shape a.vals), by simp [writeTree], by simp [storeTree, readTree, roundTree, normVal]⟩
  | .leaf .none, h => by simp [clean] at h
  | .dict items, h => by
    refine ⟨.group (writeItems items), by simp [writeTree], ?_⟩
    have := codec_items items (by simpa [clean] using h)
    simp only [storeTree, readTree, roundTree, readItems_sortK, this]
theorem codec_items : ∀ l : List (Key × PyTree), cleanItems l = true →
    readItems (storeItems (writeItems l)) = roundItems l
  | [], _ => by simp [writeItems, storeItems, readItems, roundItems]
  | (k, t) :: r, h => by
    simp only [cleanItems, Bool.and_eq_true] at h
    obtain ⟨hh, hw, hr⟩ := codec_tree t h.1
    have ih := codec_items r h.2
    simp only [writeItems, hw, storeItems, readItems, hr, ih, roundItems]
end

theorem roundItems_append (a b : List (Key × PyTree)) : roundItems (a ++ b) = roundItems a ++ roundItems b := by
  induction a with
  | nil => simp [roundItems]
  | cons e r ih => obtain ⟨k, t⟩ := e; simp [roundItems, ih]

theorem roundItems_map {α} (l : List α) (key : α → Key) (tree : α → PyTree) :
    roundItems (l.map fun a => (key a, tree a)) = l.map fun a => (key a, roundTree (tree a)) := by
  induction l with
  | nil => simp [roundItems]
  | cons e r ih => simp [roundItems, ih]

theorem cleanItems_append (a b : List (Key × PyTree)) :
    cleanItems (a ++ b) = (cleanItems a && cleanItems b) := by
  induction a with
  | nil => simp [cleanItems]
  | cons e r ih => obtain ⟨k, t⟩ := e; simp [cleanItems, ih, Bool.and_assoc]

theorem cleanItems_map {α} (l : List α) (key : α → Key) (tree : α → PyTree) (h : ∀ a ∈ l, clean (tree a) = true) :
    cleanItems (l.map fun a => (key a, tree a)) = true := by
  induction l with
  | nil => simp [cleanItems]
  | cons e r ih => simp [cleanItems, h e (by simp), ih (fun a ha => h a (by simp [ha]))]

/-- an array whose first axis does not have length 1 comes back as it is -/
theorem arr_stable (a : Arr) (h : a.shape.head? ≠ some 1) : normVal (.arr a) = .arr a := by
  obtain ⟨dt, shape, vals⟩ := a
  unfold normVal
  cases shape with
  | nil => simp [readDS]
  | cons d rest =>
    have hd : d ≠ 1 := by simpa using h
    cases rest with
    | nil =>
      cases vals with
      | nil => simp [readDS]
      | cons v vs =>
        match d, hd with
        | 0, _ => simp [readDS]
        | (n + 2), _ => simp [readDS]
    | cons d2 rest2 =>
      match d, hd with
      | 0, _ => simp [readDS]
      | (n + 2), _ => simp [readDS]

theorem str_stable (s : Str) (h : ∀ c ∈ s, 0 < c ∧ c < 128) : normVal (.str s) = .str s :=
  str_roundtrip s h

end Orix.Codec.H5
