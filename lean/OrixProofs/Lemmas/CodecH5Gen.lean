import OrixProofs.Lemmas.CodecH5Main
import OrixGen.IoTables
set_option linter.unusedVariables false
/-
T-gen obligations for the orix-HDF5 model: the key names, markers and constants the model hard-codes are the
ones found in the source on this run (`OrixGen.IoTables`), and kernel-decided facts about the symmetry tables.
-/
namespace Orix.Codec.H5
open Orix.Codec Orix.Gen.Io

/-- the tables the `Phase` constructor consults, from the generated file -/
def genTables : PhaseTables :=
  { aliases := pointGroupAliases, groups := pointGroupNames, sgPointGroup := sgPointGroup }

def sameSet (a b : List Str) : Bool := a.all (b.contains ·) && b.all (a.contains ·)

def keyNames (l : List Key) : List Str := l.map Key.text

/-- writer and reader use the dataset names the model uses -/
theorem data_keys_ok :
    h5WriterDataKeys = keyNames reservedData ∧ sameSet h5ReaderDataKeys (keyNames reservedData) = true := by
  decide +kernel
theorem header_keys_ok :
    h5WriterHeaderKeys = [S "grid_type", S "ny", S "nx", S "y_step", S "x_step", S "rotations_per_point",
                          S "scan_unit", S "phases"] ∧
    sameSet h5ReaderHeaderKeys [S "scan_unit", S "phases"] = true := by decide +kernel
theorem phase_keys_ok :
    sameSet h5PhaseKeysWritten [S "name", S "space_group", S "point_group", S "color", S "structure"] = true ∧
    sameSet h5PhaseKeysRead h5PhaseKeysWritten = true ∧
    sameSet h5StructureKeysWritten [S "lattice", S "atoms"] = true ∧
    sameSet h5StructureKeysRead h5StructureKeysWritten = true ∧
    sameSet h5LatticeKeysWritten [S "abcABG", S "baserot"] = true ∧
    sameSet h5LatticeKeysRead h5LatticeKeysWritten = true ∧
    h5AtomAttrs = [S "element", S "label", S "occupancy", S "xyz", S "U"] := by decide +kernel
theorem constants_ok :
    h5NoneMarker = noneStr ∧ h5UnwrapLength = 1 ∧ h5Decode = S "latin-1" ∧ h5StrPad = 1 := by decide +kernel

/-- every point group the library lists by name resolves to itself through the alias table -/
theorem named_groups_resolve :
    (pointGroupNames.all fun g => resolvePG pointGroupAliases pointGroupNames g == some g) = true := by
  decide +kernel

/-- with the space group alone (`point_group=None`, the reader since 99d4b72) every space group 1 … 230 is
reproduced together with its derived point group -/
theorem all_space_groups_survive :
    ((List.range' 1 230).all fun n =>
      mkPhase genTables (some n) none == some (some n, sgPG genTables n)) = true := by
  decide +kernel

/-- pre-fix call `Phase(space_group, point_group=<stored name>)`: the derived point group did not survive for
exactly the space groups 3 … 9 (point groups named "2" — an alias of 2/m — and "m" — no group of that name) -/
theorem bad_space_groups_prefix :
    ((List.range' 1 230).filter fun n =>
      !(mkPhase genTables (some n) (sgPG genTables n) == some (some n, sgPG genTables n))) = [3, 4, 5, 6, 7, 8, 9] := by
  decide +kernel

theorem H5WF_perm (T : PhaseTables) (ni : PhaseRec) (m : MapRec) (ps : List PropRec) (hp : ps.Perm m.props)
    (h : H5WF T ni m) : H5WF T ni { m with props := ps } where
  unit := h.unit
  y := h.y
  x := h.x
  inData := h.inData
  phaseId := h.phaseId
  phi1 := h.phi1
  phi := h.phi
  phi2 := h.phi2
  props_arr := fun p hpm => h.props_arr p (hp.subset hpm)
  props_names := fun p hpm => h.props_names p (hp.subset hpm)
  props_nodup := (hp.map _).nodup_iff.2 h.props_nodup
  phases := h.phases
  phases_sorted := h.phases_sorted
  phases_consistent := h.phases_consistent

/-! ### the constructor keeps a phase list that is consistent with the data -/

theorem rekeyRec_self (pl : List PhaseRec) : rekeyRec (pl.map (·.id)) pl = pl := by
  induction pl with
  | nil => rfl
  | cons p r ih => simp [rekeyRec, ih]

theorem dropSuperfluousRec_last (u : List Int) (l : List PhaseRec) (a : PhaseRec)
    (hl : ∀ p ∈ l, p.id ∈ u) (ha : a.id ∉ u) :
    dropSuperfluousRec u 1 (l ++ [a]) = l := by
  induction l with
  | nil => simp [dropSuperfluousRec, ha]
  | cons p r ih =>
    have hp : p.id ∈ u := hl p (by simp)
    simp [dropSuperfluousRec, hp, ih (fun q hq => hl q (by simp [hq]))]

/-- **declarative form of `H5WF.phases_consistent`**: if the phase list is the `not_indexed` phase (exactly
the one `add_not_indexed` creates, present iff some point has phase id -1) followed by phases with strictly
increasing non-negative ids that are exactly the ids occurring in the data, the constructor returns it unchanged -/
theorem reconcileRec_consistent (ni : PhaseRec) (hni : ni.id = -1) (ids : List Int) (rp : List PhaseRec) (has : Bool)
    (hs : (rp.map (·.id)).Pairwise (· < ·)) (hpos : ∀ p ∈ rp, -1 < p.id)
    (hm : ∀ a, a ∈ ids ↔ (a = -1 ∧ has = true) ∨ a ∈ rp.map (·.id)) :
    reconcileRec ni ids ((if has then [ni] else []) ++ rp) = some ((if has then [ni] else []) ++ rp) := by
  have hfil : rp.filter (fun p => p.id != -1) = rp := by
    rw [List.filter_eq_self]
    intro p hp
    have := hpos p hp
    have hne : p.id ≠ -1 := by omega
    simpa using hne
  have hfilni : (ni :: rp).filter (fun p => p.id != -1) = rp := by
    simp [List.filter_cons, hni, hfil]
  cases has with
  | false =>
    have hu : uniqSorted ids = rp.map (·.id) := uniqSorted_eq hs (fun a => by simpa using hm a)
    have hh : ((rp.map (·.id)).head? == some (-1 : Int)) = false := by
      cases rp with
      | nil => rfl
      | cons p r =>
        have := hpos p (by simp)
        have hne : p.id ≠ -1 := by omega
        simp [hne]
    simp only [Bool.false_eq_true, if_false, List.nil_append]
    simp only [reconcileRec, hfil, hu, hh, Bool.false_eq_true, if_false, List.length_map, lt_irrefl, Nat.sub_self,
      dropSuperfluousRec, List.reverse_reverse, rekeyRec_self]
  | true =>
    have ht : ((-1 : Int) :: rp.map (·.id)).Pairwise (· < ·) := by
      refine List.Pairwise.cons ?_ hs
      intro a ha
      obtain ⟨p, hp, rfl⟩ := List.mem_map.1 ha
      exact hpos p hp
    have hu : uniqSorted ids = (-1 : Int) :: rp.map (·.id) := uniqSorted_eq ht (fun a => by simpa using hm a)
    simp only [if_true, List.singleton_append]
    simp [reconcileRec, hfilni, hu, dropSuperfluousRec, rekeyRec_self, hfil]

end Orix.Codec.H5
