import OrixProofs.Lemmas.CodecH5Main
import OrixGen.IoTables
set_option linter.unusedVariables false
/-
T-gen obligations for the orix-HDF5 model: the key names, markers and constants the model hard-codes are the
ones found in the source on this run (`OrixGen.IoTables`), and kernel-decided facts about the symmetry tables.
-/
namespace Orix.Codec.H5
open Orix.Codec Orix.Gen.Io

/-- the tables the `Phase` constructor consults, from the generated file -/
def genTables : PhaseTables :=
  { aliases := pointGroupAliases, groups := pointGroupNames, sgPointGroup := sgPointGroup }

def sameSet (a b : List Str) : Bool := a.all (b.contains ·) && b.all (a.contains ·)

def keyNames (l : List Key) : List Str := l.map Key.text

/-- writer and reader use the dataset names the model uses -/
theorem data_keys_ok :
    h5WriterDataKeys = keyNames reservedData ∧ sameSet h5ReaderDataKeys (keyNames reservedData) = true := by
  decide +kernel
theorem header_keys_ok :
    h5WriterHeaderKeys = [S "grid_type", S "ny", S "nx", S "y_step", S "x_step", S "rotations_per_point",
                          S "scan_unit", S "phases"] ∧
    sameSet h5ReaderHeaderKeys [S "scan_unit", S "phases"] = true := by decide +kernel
theorem phase_keys_ok :
    sameSet h5PhaseKeysWritten [S "name", S "space_group", S "point_group", S "color", S "structure"] = true ∧
    sameSet h5PhaseKeysRead h5PhaseKeysWritten = true ∧
    sameSet h5StructureKeysWritten [S "lattice", S "atoms"] = true ∧
    sameSet h5StructureKeysRead h5StructureKeysWritten = true ∧
    sameSet h5LatticeKeysWritten [S "abcABG", S "baserot"] = true ∧
    sameSet h5LatticeKeysRead h5LatticeKeysWritten = true ∧
    h5AtomAttrs = [S "element", S "label", S "occupancy", S "xyz", S "U"] := by decide +kernel
theorem constants_ok :
    h5NoneMarker = noneStr ∧ h5UnwrapLength = 1 ∧ h5Decode = S "latin-1" ∧ h5StrPad = 1 := by decide +kernel

/-- every point group the library lists by name resolves to itself through the alias table -/
theorem named_groups_resolve :
    (pointGroupNames.all fun g => resolvePG pointGroupAliases pointGroupNames g == some g) = true := by
  decide +kernel

/-- the space groups whose derived point group does not survive `Phase(space_group, point_group=name)`:
exactly 3 … 9 (point groups named "2" — an alias of 2/m — and "m" — no group of that name) -/
theorem bad_space_groups :
    ((List.range' 1 230).filter fun n =>
      !(mkPhase genTables (some n) (sgPG genTables n) == some (some n, sgPG genTables n))) = [3, 4, 5, 6, 7, 8, 9] := by
  decide +kernel

theorem H5WF_perm (T : PhaseTables) (ni : PhaseRec) (m : MapRec) (ps : List PropRec) (hp : ps.Perm m.props)
    (h : H5WF T ni m) : H5WF T ni { m with props := ps } where
  unit := h.unit
  y := h.y
  x := h.x
  inData := h.inData
  phaseId := h.phaseId
  phi1 := h.phi1
  phi := h.phi
  phi2 := h.phi2
  props_arr := fun p hpm => h.props_arr p (hp.subset hpm)
  props_names := fun p hpm => h.props_names p (hp.subset hpm)
  props_nodup := (hp.map _).nodup_iff.2 h.props_nodup
  phases := h.phases
  phases_sorted := h.phases_sorted
  phases_consistent := h.phases_consistent

end Orix.Codec.H5
