import Mathlib.Tactic.Ring
import Mathlib.Tactic.Linarith
import Mathlib.Tactic.FieldSimp
import Mathlib.Tactic.NormNum
import Mathlib.Tactic.LinearCombination
import Mathlib.Tactic.Positivity
import OrixProofs.Lemmas.RealScalar
import OrixProofs.Lemmas.Lattice
import OrixModel.ColorKey

/-
C08 — the polar coordinate and the azimuth of the colour key over ℝ: rounding to 10 decimals is monotone and fixes
integers, the distance ratio of a wall lies in [0, 1] for directions on the centre's side, it is 1 at the centre and 0
on the wall; the azimuth before the correction lies in [0, 2π).
-/
namespace Orix.ColorKey
open Orix Scalar LatLemmas

/-! ### rounding is monotone and fixes integers -/
theorem rint_int (m : ℤ) : rint ((m : ℝ)) = m := by
  obtain ⟨h, n, hn⟩ := rint_spec (m : ℝ)
  rw [hn] at h ⊢
  have h1 : |((n - m : ℤ) : ℝ)| ≤ 1 / 2 := by push_cast; exact h
  have h2 : |n - m| < 1 := by
    have : |((n - m : ℤ) : ℝ)| < 1 := by linarith
    exact_mod_cast this
  have : n - m = 0 := Int.abs_lt_one_iff.mp h2
  have : n = m := by omega
  rw [this]

theorem rint_mono {s t : ℝ} (hst : s ≤ t) : rint s ≤ rint t := by
  rcases eq_or_lt_of_le hst with rfl | hlt
  · exact le_refl _
  obtain ⟨hs, n, hn⟩ := rint_spec s
  obtain ⟨ht, m, hm⟩ := rint_spec t
  rw [hn] at hs
  rw [hm] at ht
  rw [hn, hm]
  rw [abs_le] at hs ht
  have : ((n - m : ℤ) : ℝ) < 1 := by push_cast; linarith [hs.2, ht.1]
  have h2 : n - m < 1 := by exact_mod_cast this
  have : n ≤ m := by omega
  exact_mod_cast this

theorem roundDec_mono (k : Nat) {x y : ℝ} (h : x ≤ y) : roundDec k x ≤ roundDec k y := by
  simp only [roundDec, pow10_real]
  have hp : (0 : ℝ) < 10 ^ k := by positivity
  exact div_le_div_of_nonneg_right (rint_mono (mul_le_mul_of_nonneg_right h hp.le)) hp.le

theorem roundDec_int (k : Nat) (m : ℤ) : roundDec k ((m : ℝ)) = m := by
  simp only [roundDec, pow10_real]
  have hp : (0 : ℝ) < 10 ^ k := by positivity
  have : (m : ℝ) * 10 ^ k = ((m * 10 ^ k : ℤ) : ℝ) := by push_cast; ring
  rw [this, rint_int]; push_cast; field_simp

theorem roundDec_one (k : Nat) : roundDec k (1 : ℝ) = 1 := by
  have := roundDec_int k 1; simpa using this

/-! ### `angle_with` -/
/-- over ℝ the `+0` start of `np.sum` is invisible -/
theorem npDot_real (u v : Vec3 ℝ) : npDot u v = Vec3.dot u v := by simp [npDot, Vec3.dot]

theorem angleWith_real (u v : Vec3 ℝ) :
    angleWith u v = Real.arccos (roundDec 10 (Vec3.dot u v / Vec3.norm u / Vec3.norm v)) := by
  simp only [angleWith, npDot_real, acos_real]

theorem angleWith_nonneg' (u v : Vec3 ℝ) : 0 ≤ angleWith u v := Real.arccos_nonneg _
theorem angleWith_le_pi (u v : Vec3 ℝ) : angleWith u v ≤ Real.pi := Real.arccos_le_pi _

/-- a larger cosine gives a smaller angle, rounding included -/
theorem angleWith_le_of_cos_le {u v u' v' : Vec3 ℝ}
    (h : Vec3.dot u' v' / Vec3.norm u' / Vec3.norm v' ≤ Vec3.dot u v / Vec3.norm u / Vec3.norm v) :
    angleWith u v ≤ angleWith u' v' := by
  rw [angleWith_real, angleWith_real]
  exact Real.arccos_le_arccos (roundDec_mono 10 h)

theorem norm_nonneg (v : Vec3 ℝ) : 0 ≤ Vec3.norm v := Real.sqrt_nonneg _

theorem norm_neg (v : Vec3 ℝ) : Vec3.norm (Vec3.neg v) = Vec3.norm v := by
  simp only [Vec3.norm, Vec3.normSq, Vec3.dot, Vec3.neg]; congr 1; ring

theorem norm_of_unit {v : Vec3 ℝ} (h : Vec3.normSq v = 1) : Vec3.norm v = 1 := by
  simp [Vec3.norm, h]

theorem norm_zero_vec : Vec3.norm (⟨0, 0, 0⟩ : Vec3 ℝ) = 0 := by
  simp [Vec3.norm, Vec3.normSq, Vec3.dot]

theorem unit_cases (v : Vec3 ℝ) :
    (Vec3.normSq v = 0 ∧ Vec3.unit v = ⟨0, 0, 0⟩) ∨
    (0 < Vec3.norm v ∧ Vec3.unit v = ⟨v.x / Vec3.norm v, v.y / Vec3.norm v, v.z / Vec3.norm v⟩) := by
  rcases eq_or_lt_of_le (normSq_nonneg v) with h | h
  · exact Or.inl ⟨h.symm, unit_zero h.symm⟩
  · exact Or.inr ⟨norm_pos h, unit_of_pos h⟩

/-! ### the geometry behind the polar coordinate -/
macro "vsimp" : tactic =>
  `(tactic| simp only [Vec3.dot, Vec3.cross, Vec3.normSq, Vec3.neg, Vec3.sub, Vec3.smul])

theorem one_sub_dot_nonneg {c v : Vec3 ℝ} (hc : Vec3.normSq c = 1) (hv : Vec3.normSq v = 1) :
    0 ≤ 1 - Vec3.dot c v := by
  simp only [Vec3.normSq, Vec3.dot] at hc hv ⊢
  nlinarith [sq_nonneg (c.x - v.x), sq_nonneg (c.y - v.y), sq_nonneg (c.z - v.z)]

/-- `(c − v) · ((v × c) × n) = (1 − c·v)(n·c + n·v)` for unit vectors `c`, `v` -/
theorem triple_identity {c v : Vec3 ℝ} (n : Vec3 ℝ) (hc : Vec3.normSq c = 1) (hv : Vec3.normSq v = 1) :
    Vec3.dot (Vec3.sub c v) (Vec3.cross (Vec3.cross v c) n) =
      (1 - Vec3.dot c v) * (Vec3.dot n c + Vec3.dot n v) := by
  simp only [Vec3.normSq, Vec3.dot, Vec3.cross, Vec3.sub] at hc hv ⊢
  linear_combination (n.x * v.x + n.y * v.y + n.z * v.z) * hc + (n.x * c.x + n.y * c.y + n.z * c.z) * hv

theorem dot_cross_scaled (d a n : Vec3 ℝ) (k : ℝ) :
    Vec3.dot d (Vec3.cross ⟨a.x / k, a.y / k, a.z / k⟩ n) = Vec3.dot d (Vec3.cross a n) / k := by
  vsimp; ring

theorem cross_zero_left (n : Vec3 ℝ) : Vec3.cross (⟨0, 0, 0⟩ : Vec3 ℝ) n = ⟨0, 0, 0⟩ := by
  simp [Vec3.cross]

theorem dot_zero_right (d : Vec3 ℝ) : Vec3.dot d (⟨0, 0, 0⟩ : Vec3 ℝ) = 0 := by simp [Vec3.dot]

/-- the boundary vector of wall `n` seen from `c − v`: non-negative as soon as `n·c + n·v ≥ 0` -/
theorem sub_dot_boundary_nonneg {c v : Vec3 ℝ} (n : Vec3 ℝ) (hc : Vec3.normSq c = 1) (hv : Vec3.normSq v = 1)
    (hn : 0 ≤ Vec3.dot n c + Vec3.dot n v) :
    0 ≤ Vec3.dot (Vec3.sub c v) (Vec3.cross (Vec3.unit (Vec3.cross v c)) n) := by
  rcases unit_cases (Vec3.cross v c) with ⟨_, h0⟩ | ⟨hk, hu⟩
  · rw [h0, cross_zero_left, dot_zero_right]
  · rw [hu, dot_cross_scaled, triple_identity n hc hv]
    exact div_nonneg (mul_nonneg (one_sub_dot_nonneg hc hv) hn) hk.le

theorem dot_neg_scaled (u w : Vec3 ℝ) (k : ℝ) :
    Vec3.dot (Vec3.neg u) ⟨w.x / k, w.y / k, w.z / k⟩ = -(Vec3.dot u w) / k := by
  vsimp; ring

/-- the distance of `v` to the boundary point is at most that of the centre (rounding to 10 decimals included) -/
theorem boundary_angle_le {c v : Vec3 ℝ} (n : Vec3 ℝ) (hc : Vec3.normSq c = 1) (hv : Vec3.normSq v = 1)
    (hn : 0 ≤ Vec3.dot n c + Vec3.dot n v) :
    angleWith (Vec3.neg v) (Vec3.unit (Vec3.cross (Vec3.unit (Vec3.cross v c)) n)) ≤
      angleWith (Vec3.neg c) (Vec3.unit (Vec3.cross (Vec3.unit (Vec3.cross v c)) n)) := by
  apply angleWith_le_of_cos_le
  rw [norm_neg, norm_neg, norm_of_unit hc, norm_of_unit hv, div_one, div_one]
  apply div_le_div_of_nonneg_right _ (norm_nonneg _)
  have key := sub_dot_boundary_nonneg n hc hv hn
  set w := Vec3.cross (Vec3.unit (Vec3.cross v c)) n with hw
  rcases unit_cases w with ⟨_, h0⟩ | ⟨hk, hu⟩
  · rw [h0]; simp [Vec3.dot]
  · rw [hu, dot_neg_scaled, dot_neg_scaled]
    apply div_le_div_of_nonneg_right _ hk.le
    have : Vec3.dot (Vec3.sub c v) w = Vec3.dot c w - Vec3.dot v w := by vsimp; ring
    linarith

theorem distanceRatio_real (c v vcn n : Vec3 ℝ) :
    distanceRatio c v vcn n =
      angleWith (Vec3.neg v) (Vec3.unit (Vec3.cross vcn n)) / angleWith (Vec3.neg c) (Vec3.unit (Vec3.cross vcn n)) := by
  simp [distanceRatio, isNaN]

theorem distanceRatio_nonneg (c v vcn n : Vec3 ℝ) : 0 ≤ distanceRatio c v vcn n := by
  rw [distanceRatio_real]; exact div_nonneg (angleWith_nonneg' _ _) (angleWith_nonneg' _ _)

theorem distanceRatio_le_one {c v : Vec3 ℝ} (n : Vec3 ℝ) (hc : Vec3.normSq c = 1) (hv : Vec3.normSq v = 1)
    (hn : 0 ≤ Vec3.dot n c + Vec3.dot n v) :
    distanceRatio c v (Vec3.unit (Vec3.cross v c)) n ≤ 1 := by
  rw [distanceRatio_real]
  exact div_le_one_of_le₀ (boundary_angle_le n hc hv hn) (angleWith_nonneg' _ _)

/-! ### the minimum over the walls -/
/-- `np.minimum` folded over the walls, over ℝ -/
noncomputable def minFold (a : ℝ) (l : List ℝ) : ℝ := l.foldl (fun p d => if d < p then d else p) a

theorem minFold_mem (a : ℝ) (l : List ℝ) : minFold a l ∈ a :: l := by
  unfold minFold
  induction l generalizing a with
  | nil => simp
  | cons x r ih =>
    simp only [List.foldl_cons]
    have := ih (if x < a then x else a)
    rcases List.mem_cons.mp this with h | h
    · rw [h]; split_ifs <;> simp
    · exact List.mem_cons_of_mem _ (List.mem_cons_of_mem _ h)

theorem minFold_le (a : ℝ) (l : List ℝ) : ∀ x ∈ a :: l, minFold a l ≤ x := by
  unfold minFold
  induction l generalizing a with
  | nil => intro x hx; simp at hx; simp [hx]
  | cons y r ih =>
    intro x hx
    simp only [List.foldl_cons]
    have h0 := ih (if y < a then y else a) (if y < a then y else a) (by simp)
    rcases List.mem_cons.mp hx with rfl | hx
    · refine le_trans h0 ?_; split_ifs with h <;> linarith
    · rcases List.mem_cons.mp hx with rfl | hx
      · refine le_trans h0 ?_; split_ifs with h <;> linarith
      · exact ih _ x (List.mem_cons_of_mem _ hx)

theorem polarCoordinate_walls (n : Vec3 ℝ) (ns : List (Vec3 ℝ)) (c v : Vec3 ℝ)
    (h : (n :: ns).all (fun m => Scalar.beq (Vec3.dot m c) (Scalar.lit 0 : ℝ)) = false) :
    polarCoordinate (n :: ns) c v =
      minFold (distanceRatio c v (Vec3.unit (Vec3.cross v c)) n)
        (ns.map (distanceRatio c v (Vec3.unit (Vec3.cross v c)))) := by
  have hf : (fun (p d : ℝ) => if Scalar.lt d p = true then d else p) = fun p d => if d < p then d else p := by
    funext p d
    by_cases hd : d < p
    · simp [(lt_real _ _).mpr hd, hd]
    · have : ¬ (Scalar.lt d p = true) := fun hc => hd ((lt_real _ _).mp hc)
      simp [this, hd]
  simp only [polarCoordinate, npDot_real, h, Bool.false_eq_true, if_false, minFold, hf]

theorem polarCoordinate_flat (normals : List (Vec3 ℝ)) (c v : Vec3 ℝ)
    (h : normals.all (fun m => Scalar.beq (Vec3.dot m c) (Scalar.lit 0 : ℝ)) = true) :
    polarCoordinate normals c v = angleWith c v / Real.pi := by
  cases normals with
  | nil => rfl
  | cons n ns => simp only [polarCoordinate, npDot_real, h, if_true, pi_real]

/-! ### at the centre -/
theorem cross_self (c : Vec3 ℝ) : Vec3.cross c c = ⟨0, 0, 0⟩ := by
  simp only [Vec3.cross]; congr 1 <;> ring

theorem unit_zero_vec : Vec3.unit (⟨0, 0, 0⟩ : Vec3 ℝ) = ⟨0, 0, 0⟩ :=
  unit_zero (by simp [Vec3.normSq, Vec3.dot])

theorem angleWith_zero_right (u : Vec3 ℝ) : angleWith u ⟨0, 0, 0⟩ = Real.pi / 2 := by
  rw [angleWith_real, dot_zero_right, zero_div, zero_div, roundDec_zero, Real.arccos_zero]

theorem distanceRatio_centre (c n : Vec3 ℝ) : distanceRatio c c (Vec3.unit (Vec3.cross c c)) n = 1 := by
  rw [distanceRatio_real, cross_self, unit_zero_vec, cross_zero_left, unit_zero_vec, angleWith_zero_right]
  exact div_self (by positivity)

/-! ### on a wall -/
theorem cross_cross (v c n : Vec3 ℝ) : Vec3.cross (Vec3.cross v c) n =
    ⟨c.x * Vec3.dot v n - v.x * Vec3.dot c n, c.y * Vec3.dot v n - v.y * Vec3.dot c n,
     c.z * Vec3.dot v n - v.z * Vec3.dot c n⟩ := by
  simp only [Vec3.cross, Vec3.dot]; congr 1 <;> ring

theorem cross_scaled_left (a n : Vec3 ℝ) (k : ℝ) : Vec3.cross ⟨a.x / k, a.y / k, a.z / k⟩ n =
    ⟨(Vec3.cross a n).x / k, (Vec3.cross a n).y / k, (Vec3.cross a n).z / k⟩ := by
  simp only [Vec3.cross]; congr 1 <;> ring

theorem unit_neg_scaled {v : Vec3 ℝ} (hv : Vec3.normSq v = 1) {μ : ℝ} (hμ : 0 < μ) :
    Vec3.unit ⟨-μ * v.x, -μ * v.y, -μ * v.z⟩ = Vec3.neg v := by
  have hsq : Vec3.normSq (⟨-μ * v.x, -μ * v.y, -μ * v.z⟩ : Vec3 ℝ) = μ ^ 2 := by
    simp only [Vec3.normSq, Vec3.dot] at hv ⊢
    linear_combination μ ^ 2 * hv
  have hpos : 0 < Vec3.normSq (⟨-μ * v.x, -μ * v.y, -μ * v.z⟩ : Vec3 ℝ) := by rw [hsq]; positivity
  have hn : Vec3.norm (⟨-μ * v.x, -μ * v.y, -μ * v.z⟩ : Vec3 ℝ) = μ := by
    simp only [Vec3.norm, sqrt_real, hsq]; exact Real.sqrt_sq hμ.le
  rw [unit_of_pos hpos, hn]
  simp only [Vec3.neg]
  congr 1 <;> field_simp

theorem angleWith_self_unit {u : Vec3 ℝ} (hu : Vec3.normSq u = 1) : angleWith u u = 0 := by
  have hd : Vec3.dot u u = 1 := hu
  rw [angleWith_real, norm_of_unit hu, hd, div_one, div_one, roundDec_one, Real.arccos_one]

theorem normSq_neg (v : Vec3 ℝ) : Vec3.normSq (Vec3.neg v) = Vec3.normSq v := by
  vsimp; ring

/-- on a wall whose positive side contains the centre the distance ratio of that wall vanishes -/
theorem distanceRatio_wall {c v n : Vec3 ℝ} (hv : Vec3.normSq v = 1) (hnv : Vec3.dot n v = 0)
    (hnc : 0 < Vec3.dot n c) : distanceRatio c v (Vec3.unit (Vec3.cross v c)) n = 0 := by
  have hvn : Vec3.dot v n = 0 := by rw [← hnv]; vsimp; ring
  have hcn : Vec3.dot c n = Vec3.dot n c := by vsimp; ring
  have hcc := cross_cross v c n
  rw [hvn, hcn] at hcc
  -- `v × c` is not the zero vector
  have hapos : 0 < Vec3.normSq (Vec3.cross v c) := by
    rcases eq_or_lt_of_le (normSq_nonneg (Vec3.cross v c)) with h | h
    · exfalso
      have h' := h.symm
      simp only [Vec3.normSq, Vec3.dot] at h'
      have hx : (Vec3.cross v c).x = 0 := by nlinarith [sq_nonneg (Vec3.cross v c).x, sq_nonneg (Vec3.cross v c).y, sq_nonneg (Vec3.cross v c).z]
      have hy : (Vec3.cross v c).y = 0 := by nlinarith [sq_nonneg (Vec3.cross v c).x, sq_nonneg (Vec3.cross v c).y, sq_nonneg (Vec3.cross v c).z]
      have hz : (Vec3.cross v c).z = 0 := by nlinarith [sq_nonneg (Vec3.cross v c).x, sq_nonneg (Vec3.cross v c).y, sq_nonneg (Vec3.cross v c).z]
      have e : Vec3.cross (Vec3.cross v c) n = ⟨0, 0, 0⟩ := by
        have : Vec3.cross v c = ⟨0, 0, 0⟩ := by
          cases hq : Vec3.cross v c with
          | mk x y z => rw [hq] at hx hy hz; simp only at hx hy hz; rw [hx, hy, hz]
        rw [this, cross_zero_left]
      rw [e] at hcc
      simp only [Vec3.mk.injEq, mul_zero, zero_sub] at hcc
      obtain ⟨e1, e2, e3⟩ := hcc
      have hne := hnc.ne'
      have v1 : v.x = 0 := by
        rcases mul_eq_zero.mp (neg_eq_zero.mp e1.symm) with h1 | h1
        · exact h1
        · exact absurd h1 hne
      have v2 : v.y = 0 := by
        rcases mul_eq_zero.mp (neg_eq_zero.mp e2.symm) with h1 | h1
        · exact h1
        · exact absurd h1 hne
      have v3 : v.z = 0 := by
        rcases mul_eq_zero.mp (neg_eq_zero.mp e3.symm) with h1 | h1
        · exact h1
        · exact absurd h1 hne
      simp only [Vec3.normSq, Vec3.dot, v1, v2, v3] at hv
      norm_num at hv
    · exact h
  have hk := norm_pos hapos
  have hμ : 0 < Vec3.dot n c / Vec3.norm (Vec3.cross v c) := div_pos hnc hk
  have hb : Vec3.unit (Vec3.cross (Vec3.unit (Vec3.cross v c)) n) = Vec3.neg v := by
    rw [unit_of_pos hapos, cross_scaled_left, hcc]
    rw [← unit_neg_scaled hv hμ]
    congr 1
    simp only [mul_zero, zero_sub]
    congr 1 <;> ring
  rw [distanceRatio_real, hb, angleWith_self_unit (by rw [normSq_neg]; exact hv), zero_div]

/-! ### the polar coordinate -/
theorem angleWith_div_pi_range (u v : Vec3 ℝ) : 0 ≤ angleWith u v / Real.pi ∧ angleWith u v / Real.pi ≤ 1 :=
  ⟨div_nonneg (angleWith_nonneg' _ _) Real.pi_pos.le, div_le_one_of_le₀ (angleWith_le_pi _ _) Real.pi_pos.le⟩

/-- RANGE of the polar coordinate, both branches: for unit `c`, `v` with `n·c + n·v ≥ 0` for every wall
(in particular for `c` and `v` in the closed sector) it lies in `[0, 1]` -/
theorem polarCoordinate_range_aux (normals : List (Vec3 ℝ)) {c v : Vec3 ℝ} (hc : Vec3.normSq c = 1)
    (hv : Vec3.normSq v = 1) (hn : ∀ n ∈ normals, 0 ≤ Vec3.dot n c + Vec3.dot n v) :
    0 ≤ polarCoordinate normals c v ∧ polarCoordinate normals c v ≤ 1 := by
  cases hall : normals.all (fun m => Scalar.beq (Vec3.dot m c) (Scalar.lit 0 : ℝ)) with
  | true => rw [polarCoordinate_flat normals c v hall]; exact angleWith_div_pi_range c v
  | false =>
    cases normals with
    | nil => simp at hall
    | cons n ns =>
      rw [polarCoordinate_walls n ns c v hall]
      have hmem := minFold_mem (distanceRatio c v (Vec3.unit (Vec3.cross v c)) n)
        (ns.map (distanceRatio c v (Vec3.unit (Vec3.cross v c))))
      rw [← List.map_cons (f := distanceRatio c v (Vec3.unit (Vec3.cross v c)))] at hmem
      obtain ⟨m, hm, hme⟩ := List.mem_map.mp hmem
      rw [← hme]
      exact ⟨distanceRatio_nonneg _ _ _ _, distanceRatio_le_one m hc hv (hn m hm)⟩

/-- CENTRE, branch with walls: the polar coordinate of the centre is 1 -/
theorem polarCoordinate_centre_aux (normals : List (Vec3 ℝ)) (c : Vec3 ℝ)
    (hall : normals.all (fun m => Scalar.beq (Vec3.dot m c) (Scalar.lit 0 : ℝ)) = false) :
    polarCoordinate normals c c = 1 := by
  cases normals with
  | nil => simp at hall
  | cons n ns =>
    rw [polarCoordinate_walls n ns c c hall]
    have hmem := minFold_mem (distanceRatio c c (Vec3.unit (Vec3.cross c c)) n)
      (ns.map (distanceRatio c c (Vec3.unit (Vec3.cross c c))))
    rw [← List.map_cons (f := distanceRatio c c (Vec3.unit (Vec3.cross c c)))] at hmem
    obtain ⟨m, _, hme⟩ := List.mem_map.mp hmem
    rw [← hme, distanceRatio_centre]

/-- WALL: a unit direction on a wall whose positive side contains the centre has polar coordinate 0 -/
theorem polarCoordinate_wall_aux (normals : List (Vec3 ℝ)) {c v n0 : Vec3 ℝ} (hv : Vec3.normSq v = 1)
    (hmem : n0 ∈ normals) (hnv : Vec3.dot n0 v = 0) (hnc : 0 < Vec3.dot n0 c) :
    polarCoordinate normals c v = 0 := by
  have hall : normals.all (fun m => Scalar.beq (Vec3.dot m c) (Scalar.lit 0 : ℝ)) = false := by
    rw [Bool.eq_false_iff]
    intro h
    have := (List.all_eq_true.mp h) n0 hmem
    rw [beq_real, lit_real] at this
    simp only [Nat.cast_zero] at this
    exact hnc.ne' this
  cases normals with
  | nil => simp at hmem
  | cons n ns =>
    rw [polarCoordinate_walls n ns c v hall]
    apply le_antisymm
    · have := minFold_le (distanceRatio c v (Vec3.unit (Vec3.cross v c)) n)
        (ns.map (distanceRatio c v (Vec3.unit (Vec3.cross v c))))
        (distanceRatio c v (Vec3.unit (Vec3.cross v c)) n0)
        (by rw [← List.map_cons (f := distanceRatio c v (Vec3.unit (Vec3.cross v c)))]
            exact List.mem_map_of_mem hmem)
      rwa [distanceRatio_wall hv hnv hnc] at this
    · have hm := minFold_mem (distanceRatio c v (Vec3.unit (Vec3.cross v c)) n)
        (ns.map (distanceRatio c v (Vec3.unit (Vec3.cross v c))))
      rw [← List.map_cons (f := distanceRatio c v (Vec3.unit (Vec3.cross v c)))] at hm
      obtain ⟨m, _, hme⟩ := List.mem_map.mp hm
      rw [← hme]; exact distanceRatio_nonneg _ _ _ _

/-- branch without walls: 0 at the centre -/
theorem polarCoordinate_flat_centre (normals : List (Vec3 ℝ)) {c : Vec3 ℝ} (hc : Vec3.normSq c = 1)
    (h : normals.all (fun m => Scalar.beq (Vec3.dot m c) (Scalar.lit 0 : ℝ)) = true) :
    polarCoordinate normals c c = 0 := by
  rw [polarCoordinate_flat normals c c h, angleWith_self_unit hc, zero_div]

/-! ### the azimuth before the correction -/
theorem fmod_range (x y : ℝ) (hy : 0 < y) : 0 ≤ Scalar.fmod x y ∧ Scalar.fmod x y < y := by
  rw [fmod_real]
  have h1 := Int.floor_le (x / y)
  have h2 := Int.lt_floor_add_one (x / y)
  have e : x = x / y * y := by field_simp
  constructor
  · have := mul_le_mul_of_nonneg_right h1 hy.le
    linarith
  · have := mul_lt_mul_of_pos_right h2 hy
    linarith

theorem twoPi_pos : (0 : ℝ) < twoPi := by
  simp only [twoPi, lit_real, pi_real]; positivity

/-- `_calculate_azimuth` returns a value in `[0, 2π)` -/
theorem calculateAzimuth_range (c rx v : Vec3 ℝ) :
    0 ≤ calculateAzimuth c rx v ∧ calculateAzimuth c rx v < 2 * Real.pi := by
  have e : (twoPi : ℝ) = 2 * Real.pi := by simp [twoPi]
  simp only [calculateAzimuth, isNaN, (beq_real _ _).mpr rfl, Bool.not_true, Bool.false_eq_true, if_false]
  rw [← e]
  exact fmod_range _ _ twoPi_pos

/-- at the centre itself the difference vector vanishes and the azimuth is `arctan2(0, 0) = 0` -/
theorem calculateAzimuth_centre (c rx : Vec3 ℝ) : calculateAzimuth c rx c = 0 := by
  have hs : Vec3.sub c c = ⟨0, 0, 0⟩ := by simp only [Vec3.sub]; congr 1 <;> ring
  simp only [calculateAzimuth, isNaN, (beq_real _ _).mpr rfl, Bool.not_true, Bool.false_eq_true, if_false, hs,
    unit_zero_vec, npDot_real, dot_zero_right, atan2_real]
  have : Complex.arg ⟨0, 0⟩ = 0 := by
    have : (⟨0, 0⟩ : ℂ) = 0 := rfl
    rw [this, Complex.arg_zero]
  rw [this, fmod_real]; simp

theorem dot_unit (n v : Vec3 ℝ) (hv : 0 < Vec3.normSq v) :
    Vec3.dot n (Vec3.unit v) = Vec3.dot n v / Vec3.norm v := by
  rw [unit_of_pos hv]; simp only [Vec3.dot]; ring

end Orix.ColorKey
