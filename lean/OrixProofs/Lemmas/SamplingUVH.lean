import Mathlib.Tactic.Ring
import Mathlib.Tactic.FieldSimp
import Mathlib.Tactic.LinearCombination
import Mathlib.Tactic.Positivity
import Mathlib.Tactic.NormNum
import Mathlib.Tactic.Linarith
import Mathlib.Algebra.Order.Floor.Semiring
import Mathlib.Analysis.SpecialFunctions.Trigonometric.Bounds
import OrixProofs.Lemmas.RealScalar
import OrixProofs.Lemmas.SamplingBasic
import OrixProofs.Lemmas.SamplingUV
import OrixModel.Sampling
/-
Helper lemmas for C19, part 6: the UV mesh for EVERY hemisphere and EVERY offset in `[0, 1)`.

With an offset the first polar line lies `offset·step` below the pole and the last line of `linspace` is filtered out,
so the nearest line to a direction is within one full polar step (not half a step); the azimuth lines are shifted by
`offset·step` and wrap around, so the nearest one (modulo 2π) is still within half an azimuth step.
-/
namespace Orix.SamplingLemmas
open Orix Scalar Sampling LatLemmas

/-- every `x ∈ [0, M·s]` lies in one of the `M` cells `[i·s, (i+1)·s]`, `i < M` -/
theorem cell_cover (M : ℕ) (hM : 0 < M) (s : ℝ) (hs : 0 < s) (x : ℝ) (hx0 : 0 ≤ x) (hx1 : x ≤ (M : ℝ) * s) :
    ∃ i : ℕ, i < M ∧ (i : ℝ) * s ≤ x ∧ x ≤ ((i : ℝ) + 1) * s := by
  have ht0 : 0 ≤ x / s := div_nonneg hx0 hs.le
  have htM : x / s ≤ M := by rw [div_le_iff₀ hs]; exact hx1
  have hfl : ((⌊x / s⌋₊ : ℕ) : ℝ) ≤ x / s := Nat.floor_le ht0
  have hfl2 : x / s < (⌊x / s⌋₊ : ℝ) + 1 := Nat.lt_floor_add_one _
  have hflM : ⌊x / s⌋₊ ≤ M := by
    have : ((⌊x / s⌋₊ : ℕ) : ℝ) ≤ (M : ℝ) := le_trans hfl htM
    exact_mod_cast this
  rcases Nat.lt_or_ge ⌊x / s⌋₊ M with hlt | hge
  · refine ⟨⌊x / s⌋₊, hlt, ?_, ?_⟩
    · have := (le_div_iff₀ hs).mp hfl; exact this
    · have := (div_lt_iff₀ hs).mp hfl2; exact this.le
  · have heq : ⌊x / s⌋₊ = M := le_antisymm hflM hge
    refine ⟨M - 1, by omega, ?_, ?_⟩
    · have h1 : ((M - 1 : ℕ) : ℝ) ≤ (⌊x / s⌋₊ : ℝ) := by rw [heq]; exact_mod_cast Nat.sub_le M 1
      have := (le_div_iff₀ hs).mp (le_trans h1 hfl); exact this
    · have h1 : ((M - 1 : ℕ) : ℝ) + 1 = (M : ℝ) := by
        have : M - 1 + 1 = M := by omega
        exact_mod_cast this
      rw [h1]; exact hx1

/-- cyclic covering by `N` shifted azimuth lines `o + j·s`, `s = 2π/N`, `0 ≤ o ≤ s`: every `φ ∈ [0, 2π]` is within
half a step of a line or of its copy one turn up or down -/
theorem az_cover (N : ℕ) (hN : 0 < N) (o : ℝ) (ho0 : 0 ≤ o) (ho1 : o ≤ 2 * Real.pi / N) (φ : ℝ) (h0 : 0 ≤ φ)
    (h1 : φ ≤ 2 * Real.pi) :
    ∃ j : ℕ, j < N ∧ ∃ k : ℝ, (k = 0 ∨ k = 2 * Real.pi ∨ k = -(2 * Real.pi)) ∧
      |φ - (o + (j : ℝ) * (2 * Real.pi / N) + k)| ≤ (2 * Real.pi / N) / 2 := by
  have hNr : (0 : ℝ) < N := by exact_mod_cast hN
  have hpi := Real.pi_pos
  have hs : 0 < 2 * Real.pi / N := by positivity
  have hfull : (N : ℝ) * (2 * Real.pi / N) = 2 * Real.pi := by field_simp
  by_cases hψ : o ≤ φ
  · obtain ⟨j, hj, hd⟩ := grid_cover N hN (2 * Real.pi) (by positivity) (φ - o) (by linarith) (by linarith)
    rcases Nat.lt_or_ge j N with hlt | hge
    · refine ⟨j, hlt, 0, Or.inl rfl, ?_⟩
      have : φ - (o + (j : ℝ) * (2 * Real.pi / N) + 0) = φ - o - (j : ℝ) * (2 * Real.pi / N) := by ring
      rw [this]; exact hd
    · have hjN : j = N := le_antisymm hj hge
      refine ⟨0, hN, 2 * Real.pi, Or.inr (Or.inl rfl), ?_⟩
      have : φ - (o + ((0 : ℕ) : ℝ) * (2 * Real.pi / N) + 2 * Real.pi) = φ - o - (j : ℝ) * (2 * Real.pi / N) := by
        rw [hjN, hfull]; push_cast; ring
      rw [this]; exact hd
  · have hψ' : φ < o := lt_of_not_ge hψ
    have hsle : 2 * Real.pi / N ≤ 2 * Real.pi := div_le_self (by positivity) (by exact_mod_cast hN)
    obtain ⟨j, hj, hd⟩ := grid_cover N hN (2 * Real.pi) (by positivity) (φ - o + 2 * Real.pi) (by linarith) (by linarith)
    rcases Nat.lt_or_ge j N with hlt | hge
    · refine ⟨j, hlt, -(2 * Real.pi), Or.inr (Or.inr rfl), ?_⟩
      have : φ - (o + (j : ℝ) * (2 * Real.pi / N) + -(2 * Real.pi)) = φ - o + 2 * Real.pi - (j : ℝ) * (2 * Real.pi / N) := by
        ring
      rw [this]; exact hd
    · have hjN : j = N := le_antisymm hj hge
      refine ⟨0, hN, 0, Or.inl rfl, ?_⟩
      have : φ - (o + ((0 : ℕ) : ℝ) * (2 * Real.pi / N) + 0) = φ - o + 2 * Real.pi - (j : ℝ) * (2 * Real.pi / N) := by
        rw [hjN, hfull]; push_cast; ring
      rw [this]; exact hd

theorem sph_sub_two_pi (θ φ : ℝ) : sph θ (φ + -(2 * Real.pi)) = sph θ φ := by
  have := sph_add_two_pi θ (φ + -(2 * Real.pi))
  rw [← this]; congr 1; ring

/-! ### the mesh of a hemisphere with an offset -/

/-- polar range of a hemisphere in degrees and the number of polar steps -/
def hrange (h : Hemisphere) : ℕ := h.polarDeg.2 - h.polarDeg.1
noncomputable def nPolH (h : Hemisphere) (r : ℝ) : ℕ := ⌈((hrange h : ℕ) : ℝ) / r⌉.toNat

theorem hrange_pos (h : Hemisphere) : 0 < hrange h := by cases h <;> simp [hrange, Hemisphere.polarDeg]

theorem nPolH_pos {r : ℝ} (hr : 0 < r) (h : Hemisphere) : 0 < nPolH h r := by
  have : 0 < ⌈((hrange h : ℕ) : ℝ) / r⌉ := Int.ceil_pos.mpr (div_pos (by exact_mod_cast hrange_pos h) hr)
  unfold nPolH; omega

theorem nPolH_cast {r : ℝ} (hr : 0 < r) (h : Hemisphere) :
    ((nPolH h r : ℕ) : ℝ) = (⌈((hrange h : ℕ) : ℝ) / r⌉ : ℝ) := by
  have h0 : 0 ≤ ⌈((hrange h : ℕ) : ℝ) / r⌉ :=
    (Int.ceil_pos.mpr (div_pos (by exact_mod_cast hrange_pos h) hr)).le
  have : ((nPolH h r : ℕ) : ℤ) = ⌈((hrange h : ℕ) : ℝ) / r⌉ := Int.toNat_of_nonneg h0
  exact_mod_cast this

/-- polar step, polar lines and azimuth lines -/
noncomputable def stepPolH (h : Hemisphere) (r : ℝ) : ℝ := ((hrange h : ℕ) : ℝ) * (Real.pi / 180) / (nPolH h r : ℝ)
noncomputable def polLineH (h : Hemisphere) (r off : ℝ) (i : ℕ) : ℝ :=
  ((h.polarDeg.1 : ℕ) : ℝ) * (Real.pi / 180) + off * stepPolH h r + (i : ℝ) * stepPolH h r
noncomputable def azLineO (r off : ℝ) (j : ℕ) : ℝ :=
  off * (2 * Real.pi / (nAz r : ℝ)) + (j : ℝ) * (2 * Real.pi / (nAz r : ℝ))

theorem stepPolH_pos {r : ℝ} (hr : 0 < r) (h : Hemisphere) : 0 < stepPolH h r := by
  have h1 : (0 : ℝ) < (hrange h : ℝ) := by exact_mod_cast hrange_pos h
  have h2 : (0 : ℝ) < (nPolH h r : ℝ) := by exact_mod_cast nPolH_pos hr h
  have := Real.pi_pos
  unfold stepPolH; positivity

theorem stepPolH_le {r : ℝ} (hr : 0 < r) (h : Hemisphere) : stepPolH h r ≤ r * Real.pi / 180 := by
  unfold stepPolH
  rw [nPolH_cast hr]
  have hd := div_ceil_le ((hrange h : ℕ) : ℝ) r (by positivity) hr
  have hpi := Real.pi_pos
  calc ((hrange h : ℕ) : ℝ) * (Real.pi / 180) / (⌈((hrange h : ℕ) : ℝ) / r⌉ : ℝ)
      = (Real.pi / 180) * (((hrange h : ℕ) : ℝ) / (⌈((hrange h : ℕ) : ℝ) / r⌉ : ℝ)) := by ring
    _ ≤ (Real.pi / 180) * r := mul_le_mul_of_nonneg_left hd (by positivity)
    _ = r * Real.pi / 180 := by ring

theorem stepPolH_total {r : ℝ} (hr : 0 < r) (h : Hemisphere) :
    (nPolH h r : ℝ) * stepPolH h r = ((hrange h : ℕ) : ℝ) * (Real.pi / 180) := by
  have h2 : ((nPolH h r : ℕ) : ℝ) ≠ 0 := by exact_mod_cast (nPolH_pos hr h).ne'
  unfold stepPolH; field_simp

theorem polarDeg_max (h : Hemisphere) : ((h.polarDeg.2 : ℕ) : ℝ) = ((h.polarDeg.1 : ℕ) : ℝ) + ((hrange h : ℕ) : ℝ) := by
  cases h <;> simp [hrange, Hemisphere.polarDeg] <;> norm_num

/-- the lines `i < nPolH` pass the `polar <= polar_max` filter and are in the coordinate list; every listed polar
angle lies in `[polar_min, polar_max]`; the azimuth list is the shifted equispaced one -/
theorem uvCoordinates_hemi (r : ℝ) (hr : 0 < r) (h : Hemisphere) (off : ℝ) (ho : 0 ≤ off) (ho1 : off < 1) :
    ∃ c, uvCoordinates r h off false = .ok c
      ∧ c.azimuth = (List.range (nAz r)).map (azLineO r off)
      ∧ (∀ i, i < nPolH h r → polLineH h r off i ∈ c.polar)
      ∧ (∀ p ∈ c.polar, ((h.polarDeg.1 : ℕ) : ℝ) * (Real.pi / 180) ≤ p ∧ p ≤ ((h.polarDeg.2 : ℕ) : ℝ) * (Real.pi / 180)) := by
  refine ⟨_, uvCoordinates_real r hr h off ho ho1 false, ?_, ?_, ?_⟩
  · simp only
    rw [linspace_real]
    apply List.map_congr_left
    intro j _
    have hz : (⌈360 / r⌉.toNat : ℝ) = (nAz r : ℝ) := rfl
    simp only [azLineO, linStep, linspaceDiv, Bool.false_eq_true, if_false, ← nAz_cast hr, hz]
    ring
  · intro i hi
    simp only
    have hsp : deg2rad (((h.polarDeg.2 - h.polarDeg.1 : ℕ) : ℝ)) / (⌈((h.polarDeg.2 - h.polarDeg.1 : ℕ) : ℝ) / r⌉ : ℝ)
        = stepPolH h r := by
      rw [deg2rad_real]; unfold stepPolH; rw [nPolH_cast hr]; rfl
    have hn : (⌈((h.polarDeg.2 - h.polarDeg.1 : ℕ) : ℝ) / r⌉ + 1).toNat = nPolH h r + 1 := by
      have : 0 < ⌈((hrange h : ℕ) : ℝ) / r⌉ := Int.ceil_pos.mpr (div_pos (by exact_mod_cast hrange_pos h) hr)
      unfold nPolH hrange at *; omega
    rw [hsp, hn, linspace_real]
    apply List.mem_filter.mpr
    have hstepEq : linStep (deg2rad ((h.polarDeg.1 : ℕ) : ℝ) + off * stepPolH h r)
        (deg2rad ((h.polarDeg.2 : ℕ) : ℝ) + off * stepPolH h r) (nPolH h r + 1) true = stepPolH h r := by
      have h2 : ((nPolH h r : ℕ) : ℝ) ≠ 0 := by exact_mod_cast (nPolH_pos hr h).ne'
      simp only [linStep, linspaceDiv, if_true, Nat.add_sub_cancel, deg2rad_real]
      rw [polarDeg_max h]
      rw [div_eq_iff h2]
      have := stepPolH_total hr h
      linarith
    constructor
    · apply List.mem_map.mpr
      refine ⟨i, List.mem_range.mpr (by omega), ?_⟩
      rw [hstepEq, deg2rad_real]; rfl
    · rw [le_real, deg2rad_real, polarDeg_max h]
      unfold polLineH
      have hsp0 := stepPolH_pos hr h
      have hi' : (i : ℝ) + 1 ≤ (nPolH h r : ℝ) := by exact_mod_cast hi
      have htot := stepPolH_total hr h
      nlinarith
  · intro p hp
    simp only at hp
    obtain ⟨hmem, hle⟩ := List.mem_filter.mp hp
    rw [le_real, deg2rad_real] at hle
    refine ⟨?_, hle⟩
    rw [linspace_real] at hmem
    obtain ⟨i, _, rfl⟩ := List.mem_map.mp hmem
    have hsp : deg2rad (((h.polarDeg.2 - h.polarDeg.1 : ℕ) : ℝ)) / (⌈((h.polarDeg.2 - h.polarDeg.1 : ℕ) : ℝ) / r⌉ : ℝ)
        = stepPolH h r := by
      rw [deg2rad_real]; unfold stepPolH; rw [nPolH_cast hr]; rfl
    rw [hsp]
    have hsp0 := stepPolH_pos hr h
    have hstep0 : 0 ≤ linStep (deg2rad ((h.polarDeg.1 : ℕ) : ℝ) + off * stepPolH h r)
        (deg2rad ((h.polarDeg.2 : ℕ) : ℝ) + off * stepPolH h r)
        (⌈((h.polarDeg.2 - h.polarDeg.1 : ℕ) : ℝ) / r⌉ + 1).toNat true := by
      unfold linStep
      apply div_nonneg _ (Nat.cast_nonneg _)
      rw [deg2rad_real, deg2rad_real, polarDeg_max h]
      have : (0 : ℝ) ≤ ((hrange h : ℕ) : ℝ) * (Real.pi / 180) := by positivity
      nlinarith
    rw [deg2rad_real]
    have h1 : 0 ≤ off * stepPolH h r := mul_nonneg ho hsp0.le
    have h2 : 0 ≤ (i : ℝ) * linStep (((h.polarDeg.1 : ℕ) : ℝ) * (Real.pi / 180) + off * stepPolH h r)
        (deg2rad ((h.polarDeg.2 : ℕ) : ℝ) + off * stepPolH h r)
        (⌈((h.polarDeg.2 - h.polarDeg.1 : ℕ) : ℝ) / r⌉ + 1).toNat true := by
      rw [deg2rad_real] at hstep0
      exact mul_nonneg (Nat.cast_nonneg _) hstep0
    linarith

/-- NODE NEAR EVERY DIRECTION OF THE HEMISPHERE, any offset: polar distance at most one polar step, azimuth distance
(modulo 2π) at most half an azimuth step, hence squared chord at most `(5/4)·(r·π/180)²` -/
theorem uv_node_near_hemi {r : ℝ} (hr : 0 < r) (h : Hemisphere) {off : ℝ} (ho : 0 ≤ off) (ho1 : off < 1) {θ φ : ℝ}
    (hθ0 : ((h.polarDeg.1 : ℕ) : ℝ) * (Real.pi / 180) ≤ θ) (hθ1 : θ ≤ ((h.polarDeg.2 : ℕ) : ℝ) * (Real.pi / 180))
    (hφ0 : 0 ≤ φ) (hφ1 : φ ≤ 2 * Real.pi) :
    ∃ i j : ℕ, i < nPolH h r ∧ j < nAz r ∧
      Vec3.normSq (Vec3.sub (sph θ φ) (sph (polLineH h r off i) (azLineO r off j))) ≤ 5 / 4 * (r * Real.pi / 180) ^ 2 := by
  have hsp0 := stepPolH_pos hr h
  have htot := stepPolH_total hr h
  obtain ⟨i, hi, hlo, hhi⟩ := cell_cover (nPolH h r) (nPolH_pos hr h) (stepPolH h r) hsp0
    (θ - ((h.polarDeg.1 : ℕ) : ℝ) * (Real.pi / 180)) (by linarith) (by rw [htot]; rw [polarDeg_max h] at hθ1; linarith)
  have hsa0 : 0 < 2 * Real.pi / (nAz r : ℝ) := by
    have : (0 : ℝ) < (nAz r : ℝ) := by exact_mod_cast nAz_pos hr
    have := Real.pi_pos
    positivity
  obtain ⟨j, hj, k, hk, hdj⟩ := az_cover (nAz r) (nAz_pos hr) (off * (2 * Real.pi / (nAz r : ℝ)))
    (mul_nonneg ho hsa0.le) (by nlinarith) φ hφ0 hφ1
  refine ⟨i, j, hi, hj, ?_⟩
  have hpolar : |θ - polLineH h r off i| ≤ stepPolH h r := by
    unfold polLineH
    have h1 : 0 ≤ off * stepPolH h r := mul_nonneg ho hsp0.le
    have h2 : off * stepPolH h r ≤ stepPolH h r := by nlinarith
    rw [abs_le]; constructor <;> linarith
  have hsph : sph (polLineH h r off i) (azLineO r off j) = sph (polLineH h r off i) (azLineO r off j + k) := by
    rcases hk with rfl | rfl | rfl
    · rw [add_zero]
    · rw [sph_add_two_pi]
    · rw [sph_sub_two_pi]
  rw [hsph]
  have hchord := chord_sq_le θ φ (polLineH h r off i) (azLineO r off j + k)
  have hsa := stepAz_le hr
  have hspl := stepPolH_le hr h
  have hρ : 0 ≤ r * Real.pi / 180 := by have := Real.pi_pos; positivity
  have h1 : (θ - polLineH h r off i) ^ 2 ≤ (r * Real.pi / 180) ^ 2 := by
    rw [← sq_abs]; exact pow_le_pow_left₀ (abs_nonneg _) (le_trans hpolar hspl) 2
  have h2 : (φ - (azLineO r off j + k)) ^ 2 ≤ ((r * Real.pi / 180) / 2) ^ 2 := by
    rw [← sq_abs]
    apply pow_le_pow_left₀ (abs_nonneg _) _ 2
    unfold azLineO
    linarith
  nlinarith

/-- for `r ≥ 0.002°` the polar step of every hemisphere exceeds the `np.isclose` windows around 0 and π -/
theorem stepPolH_gt {r : ℝ} (hr : 1 / 500 ≤ r) (h : Hemisphere) :
    1 / 10 ^ 8 + 1 / 10 ^ 5 * Real.pi < stepPolH h r := by
  have hr0 : 0 < r := by linarith
  have hR : (90 : ℝ) ≤ ((hrange h : ℕ) : ℝ) := by cases h <;> simp [hrange, Hemisphere.polarDeg] <;> norm_num
  have hRpos : (0 : ℝ) < ((hrange h : ℕ) : ℝ) := by linarith
  have hM : ((nPolH h r : ℕ) : ℝ) < 500 * ((hrange h : ℕ) : ℝ) + 1 := by
    rw [nPolH_cast hr0]
    have h1 : (⌈((hrange h : ℕ) : ℝ) / r⌉ : ℝ) < ((hrange h : ℕ) : ℝ) / r + 1 := Int.ceil_lt_add_one _
    have h2 : ((hrange h : ℕ) : ℝ) / r ≤ 500 * ((hrange h : ℕ) : ℝ) := by
      rw [div_le_iff₀ hr0]; nlinarith
    linarith
  have hMpos : (0 : ℝ) < (nPolH h r : ℝ) := by exact_mod_cast nPolH_pos hr0 h
  unfold stepPolH
  rw [lt_div_iff₀ hMpos]
  have hpi2 := Real.two_le_pi
  have hpi4 := Real.pi_le_four
  have hc : (0 : ℝ) < 1 / 10 ^ 8 + 1 / 10 ^ 5 * Real.pi := by positivity
  have h3 := mul_lt_mul_of_pos_left hM hc
  -- (1e-8 + 1e-5 π)(500 R + 1) < R π / 180  for R ≥ 90
  nlinarith

/-- POLE DUPLICATES LOSE NOTHING among the lines used for the covering (offset 0, `r ≥ 0.002°`, any hemisphere) -/
theorem uv_kept_node_hemi {r : ℝ} (hr : 1 / 500 ≤ r) (h : Hemisphere) {i j : ℕ} (hi : i < nPolH h r) (hj : j < nAz r) :
    ∃ j', j' < nAz r ∧ sph (polLineH h r 0 i) (azLineO r 0 j') = sph (polLineH h r 0 i) (azLineO r 0 j)
      ∧ poleDuplicate (azLineO r 0 j', polLineH h r 0 i) = false := by
  have hr0 : 0 < r := by linarith
  by_cases hd : poleDuplicate (azLineO r 0 j, polLineH h r 0 i) = true
  · have haz0 : azLineO r 0 0 = 0 := by simp [azLineO]
    have hkeep0 : poleDuplicate (azLineO r 0 0, polLineH h r 0 i) = false := by
      rw [Bool.eq_false_iff, Ne, poleDuplicate_real, haz0]
      intro h; exact lt_irrefl _ h.1
    rw [poleDuplicate_real] at hd
    have hstep := stepPolH_gt hr h
    have hsp0 := stepPolH_pos hr0 h
    have htot := stepPolH_total hr0 h
    have hpi := Real.pi_pos
    have hline : polLineH h r 0 i = ((h.polarDeg.1 : ℕ) : ℝ) * (Real.pi / 180) + (i : ℝ) * stepPolH h r := by
      unfold polLineH; ring
    have hpmin0 : 0 ≤ ((h.polarDeg.1 : ℕ) : ℝ) * (Real.pi / 180) := by positivity
    have hi' : (i : ℝ) + 1 ≤ (nPolH h r : ℝ) := by exact_mod_cast hi
    -- the line is at least one step below `polar_max ≤ π`
    have hmax : ((h.polarDeg.1 : ℕ) : ℝ) * (Real.pi / 180) + ((hrange h : ℕ) : ℝ) * (Real.pi / 180) ≤ Real.pi := by
      rw [← add_mul, ← polarDeg_max h]
      have : ((h.polarDeg.2 : ℕ) : ℝ) ≤ 180 := by cases h <;> simp [Hemisphere.polarDeg] <;> norm_num
      calc ((h.polarDeg.2 : ℕ) : ℝ) * (Real.pi / 180) ≤ 180 * (Real.pi / 180) :=
            mul_le_mul_of_nonneg_right this (by positivity)
        _ = Real.pi := by ring
    have hbelow : polLineH h r 0 i ≤ Real.pi - stepPolH h r := by
      rw [hline]; nlinarith
    have hnn : 0 ≤ polLineH h r 0 i := by rw [hline]; positivity
    refine ⟨0, nAz_pos hr0, ?_, hkeep0⟩
    rcases hd.2 with h0 | hπ
    · -- close to 0: the line is the pole itself
      rw [sub_zero, abs_of_nonneg hnn, abs_zero, mul_zero, add_zero] at h0
      have hi0 : i = 0 := by
        by_contra hne
        have h1 : (1 : ℝ) ≤ (i : ℝ) := by exact_mod_cast Nat.one_le_iff_ne_zero.mpr hne
        have : stepPolH h r ≤ polLineH h r 0 i := by rw [hline]; nlinarith
        have h5 : (0 : ℝ) ≤ 1 / 10 ^ 5 * Real.pi := by positivity
        linarith
      subst hi0
      have hp0 : ((h.polarDeg.1 : ℕ) : ℝ) * (Real.pi / 180) = 0 := by
        rw [hline] at h0
        simp only [Nat.cast_zero, zero_mul, add_zero] at h0
        cases h
        · simp [Hemisphere.polarDeg]
        · exfalso
          simp only [Hemisphere.polarDeg] at h0
          have : (1 : ℝ) ≤ ((90 : ℕ) : ℝ) * (Real.pi / 180) := by push_cast; nlinarith [Real.two_le_pi]
          linarith
        · simp [Hemisphere.polarDeg]
      have : polLineH h r 0 0 = 0 := by rw [hline, hp0]; simp
      rw [this]; exact sph_zero _ _
    · exfalso
      rw [abs_sub_comm, abs_of_nonneg (by linarith), abs_of_pos hpi] at hπ
      linarith
  · exact ⟨j, hj, rfl, by simpa using hd⟩

end Orix.SamplingLemmas
