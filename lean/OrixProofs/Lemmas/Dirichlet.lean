import Mathlib.Tactic.Ring
import Mathlib.Tactic.Linarith
import Mathlib.Tactic.LinearCombination
import Mathlib.Tactic.Push
import Mathlib.Data.Real.Basic
import OrixModel.Sector
import OrixProofs.Lemmas.GroupSound
/-
Dirichlet cells of a finite group of integer matrices acting on ℝ³ with an invariant pairing, and the
soundness of the integer certificate checker `checkSector`: a kernel run `checkSector r = true` implies that
the sector is a fundamental domain (every real direction has an equivalent in the closed sector, and a
direction strictly inside has no other equivalent in the closed sector).
-/
namespace Orix.Grp

structure R3 where
  x : ℝ
  y : ℝ
  z : ℝ

def M3.actR (m : M3) (v : R3) : R3 :=
  ⟨m.a * v.x + m.b * v.y + m.c * v.z, m.d * v.x + m.e * v.y + m.f * v.z, m.g * v.x + m.h * v.y + m.i * v.z⟩
def Z3.dotR (h : Z3) (v : R3) : ℝ := h.x * v.x + h.y * v.y + h.z * v.z
def Z3.toR (c : Z3) : R3 := ⟨c.x, c.y, c.z⟩
/-- `uᵀ G v` -/
def pairR (G : M3) (u v : R3) : ℝ :=
  u.x * (G.a * v.x + G.b * v.y + G.c * v.z) + u.y * (G.d * v.x + G.e * v.y + G.f * v.z)
    + u.z * (G.g * v.x + G.h * v.y + G.i * v.z)

theorem actR_mul (m n : M3) (v : R3) : (m.mul n).actR v = m.actR (n.actR v) := by
  simp only [M3.actR, M3.mul]; push_cast; congr 1 <;> ring
theorem actR_one (v : R3) : M3.one.actR v = v := by
  cases v; simp [M3.actR, M3.one]
theorem act_toR (m : M3) (c : Z3) : (m.act c).toR = m.actR c.toR := by
  simp only [M3.act, Z3.toR, M3.actR]; push_cast; rfl
theorem cov_dotR (h : Z3) (m : M3) (v : R3) : (M3.cov h m).dotR v = h.dotR (m.actR v) := by
  simp only [M3.cov, Z3.dotR, M3.actR]; push_cast; ring
theorem neg_dotR (h : Z3) (v : R3) : h.neg.dotR v = -h.dotR v := by
  simp only [Z3.neg, Z3.dotR]; push_cast; ring

theorem pair_invariant {G m : M3} (h : preserves G m = true) (u v : R3) :
    pairR G (m.actR u) (m.actR v) = pairR G u v := by
  have e : m.transpose.mul (G.mul m) = G := by simpa [preserves] using h
  have ea := congrArg (fun t : M3 => (t.a : ℝ)) e
  have eb := congrArg (fun t : M3 => (t.b : ℝ)) e
  have ec := congrArg (fun t : M3 => (t.c : ℝ)) e
  have ed := congrArg (fun t : M3 => (t.d : ℝ)) e
  have ee := congrArg (fun t : M3 => (t.e : ℝ)) e
  have ef := congrArg (fun t : M3 => (t.f : ℝ)) e
  have eg := congrArg (fun t : M3 => (t.g : ℝ)) e
  have eh := congrArg (fun t : M3 => (t.h : ℝ)) e
  have ei := congrArg (fun t : M3 => (t.i : ℝ)) e
  simp only [M3.mul, M3.transpose] at ea eb ec ed ee ef eg eh ei
  push_cast at ea eb ec ed ee ef eg eh ei
  simp only [pairR, M3.actR]
  linear_combination u.x * v.x * ea + u.x * v.y * eb + u.x * v.z * ec + u.y * v.x * ed + u.y * v.y * ee
    + u.y * v.z * ef + u.z * v.x * eg + u.z * v.y * eh + u.z * v.z * ei

/-- `⟨x, c⟩ − ⟨x, M c⟩ = wall · x` -/
theorem cellWall_dotR (G m : M3) (c : Z3) (x : R3) :
    (cellWall G m c).dotR x = pairR G x c.toR - pairR G x (m.actR c.toR) := by
  simp only [cellWall, M3.act, Z3.sub, Z3.dotR, pairR, Z3.toR, M3.actR]; push_cast; ring

theorem exists_max {α : Type} (f : α → ℝ) : ∀ (L : List α), L ≠ [] → ∃ k ∈ L, ∀ m ∈ L, f m ≤ f k
  | [], h => absurd rfl h
  | [a], _ => ⟨a, by simp, by intro m hm; simp at hm; rw [hm]⟩
  | a :: b :: r, _ => by
    obtain ⟨k, hk, hmax⟩ := exists_max f (b :: r) (by simp)
    by_cases hak : f k ≤ f a
    · refine ⟨a, by simp, ?_⟩
      intro m hm
      rcases List.mem_cons.mp hm with rfl | hm'
      · exact le_refl _
      · exact le_trans (hmax m hm') hak
    · refine ⟨k, List.mem_cons_of_mem _ hk, ?_⟩
      intro m hm
      rcases List.mem_cons.mp hm with rfl | hm'
      · exact le_of_lt (lt_of_not_ge hak)
      · exact hmax m hm'

section Cell
variable {G : M3} {L : List M3} (hL : IsGroupList L) (hP : ∀ m ∈ L, preserves G m = true) (c : Z3)

def closedCell (G : M3) (L : List M3) (c : Z3) (x : R3) : Prop :=
  ∀ m ∈ L, pairR G x (m.actR c.toR) ≤ pairR G x c.toR
def openCell (G : M3) (L : List M3) (c : Z3) (x : R3) : Prop :=
  ∀ m ∈ L, m ≠ M3.one → pairR G x (m.actR c.toR) < pairR G x c.toR

include hL hP in
/-- The argmax rule of `in_fundamental_sector`: if `k` maximises `⟨x, k c⟩` over the group then `k⁻¹ x`
lies in the closed Dirichlet cell of `c` (whatever the tie-breaking). -/
theorem argmax_in_cell (x : R3) {k : M3} (hk : k ∈ L)
    (hmax : ∀ m ∈ L, pairR G x (m.actR c.toR) ≤ pairR G x (k.actR c.toR))
    {g : M3} (_hg : g ∈ L) (hkg : k.mul g = M3.one) : closedCell G L c (g.actR x) := by
  intro m hm
  have h1 : pairR G (g.actR x) (m.actR c.toR) = pairR G x ((k.mul m).actR c.toR) := by
    rw [← pair_invariant (hP k hk) (g.actR x) (m.actR c.toR), ← actR_mul, ← actR_mul, hkg, actR_one]
  have h2 : pairR G (g.actR x) c.toR = pairR G x (k.actR c.toR) := by
    rw [← pair_invariant (hP k hk) (g.actR x) c.toR, ← actR_mul, hkg, actR_one]
  rw [h1, h2]
  exact hmax _ (hL.mul_mem k hk m hm)

include hL hP in
/-- every point has an image in the closed Dirichlet cell -/
theorem cell_covering (x : R3) : ∃ g ∈ L, closedCell G L c (g.actR x) := by
  have hne : L ≠ [] := by intro h; have := hL.one_mem; rw [h] at this; cases this
  obtain ⟨k, hk, hmax⟩ := exists_max (fun m => pairR G x (m.actR c.toR)) L hne
  obtain ⟨g, hg, hkg⟩ := hL.inv_mem k hk
  exact ⟨g, hg, argmax_in_cell hL hP c x hk hmax hg hkg⟩

theorem mul_one' (k : M3) : k.mul M3.one = k := by
  cases k; simp [M3.mul, M3.one]

include hL hP in
/-- a point of the open cell has no other image in the closed cell -/
theorem cell_unique {y : R3} (hy : openCell G L c y) {k : M3} (hk : k ∈ L)
    (hky : closedCell G L c (k.actR y)) : k = M3.one := by
  by_contra hne
  obtain ⟨g, hg, hkg⟩ := hL.inv_mem k hk
  have hg1 : g ≠ M3.one := by
    intro h; rw [h, mul_one'] at hkg; exact hne hkg
  have h1 := hky k hk
  have e1 : pairR G (k.actR y) (k.actR c.toR) = pairR G y c.toR := pair_invariant (hP k hk) y c.toR
  have h2 := hy g hg hg1
  have e2 : pairR G y (g.actR c.toR) = pairR G (k.actR y) c.toR := by
    rw [← pair_invariant (hP k hk) y (g.actR c.toR), ← actR_mul, hkg, actR_one]
  rw [e1] at h1
  rw [e2] at h2
  linarith

end Cell

/-! ### sectors -/

def closedS (walls : List Z3) (x : R3) : Prop := ∀ h ∈ walls, 0 ≤ h.dotR x
def openS (walls : List Z3) (x : R3) : Prop := ∀ h ∈ walls, 0 < h.dotR x

theorem smul_dotR (k : Int) (h : Z3) (x : R3) : (Z3.smul k h).dotR x = k * h.dotR x := by
  simp only [Z3.smul, Z3.dotR]; push_cast; ring
theorem add_dotR (u v : Z3) (x : R3) : (u.add v).dotR x = u.dotR x + v.dotR x := by
  simp only [Z3.add, Z3.dotR]; push_cast; ring
theorem zero_dotR (x : R3) : Z3.zero.dotR x = 0 := by simp [Z3.zero, Z3.dotR]

theorem ofNat_cast_nonneg (k : Nat) : (0 : ℝ) ≤ ((Int.ofNat k : Int) : ℝ) := by
  simp [Int.ofNat_eq_natCast]
theorem ofNat_cast_pos {k : Nat} (h : 0 < k) : (0 : ℝ) < ((Int.ofNat k : Int) : ℝ) := by
  simp only [Int.ofNat_eq_natCast, Int.cast_natCast]; exact_mod_cast h

theorem lincomb_nonneg (x : R3) : ∀ (ks : List Nat) (vs : List Z3), (∀ v ∈ vs, 0 ≤ v.dotR x) →
    0 ≤ (lincomb ks vs).dotR x
  | [], _, _ => by simp [lincomb, zero_dotR]
  | _ :: _, [], _ => by simp [lincomb, zero_dotR]
  | k :: ks, v :: vs, h => by
    simp only [lincomb, add_dotR, smul_dotR]
    have h1 : 0 ≤ v.dotR x := h v (by simp)
    have h2 := lincomb_nonneg x ks vs (fun w hw => h w (List.mem_cons_of_mem _ hw))
    have : (0 : ℝ) ≤ ((Int.ofNat k : Int) : ℝ) := ofNat_cast_nonneg k
    nlinarith

theorem lincomb_pos (x : R3) : ∀ (ks : List Nat) (vs : List Z3), ks.length = vs.length →
    (∀ v ∈ vs, 0 < v.dotR x) → (ks.any fun l => decide (0 < l)) = true → 0 < (lincomb ks vs).dotR x
  | [], _, _, _, hany => by simp at hany
  | _ :: _, [], hlen, _, _ => by simp at hlen
  | k :: ks, v :: vs, hlen, h, hany => by
    simp only [lincomb, add_dotR, smul_dotR]
    have h1 : 0 < v.dotR x := h v (by simp)
    have hrest : ∀ w ∈ vs, 0 < w.dotR x := fun w hw => h w (List.mem_cons_of_mem _ hw)
    have h2 : 0 ≤ (lincomb ks vs).dotR x := lincomb_nonneg x ks vs (fun w hw => le_of_lt (hrest w hw))
    have hk0 : (0 : ℝ) ≤ ((Int.ofNat k : Int) : ℝ) := ofNat_cast_nonneg k
    by_cases hk : 0 < k
    · have : (0 : ℝ) < ((Int.ofNat k : Int) : ℝ) := ofNat_cast_pos hk
      nlinarith
    · have hk' : k = 0 := Nat.eq_zero_of_not_pos hk
      have hany' : (ks.any fun l => decide (0 < l)) = true := by
        simp only [List.any_cons, Bool.or_eq_true] at hany
        rcases hany with h0 | h0
        · simp [hk'] at h0
        · exact h0
      have h3 := lincomb_pos x ks vs (by simpa using hlen) hrest hany'
      subst hk'
      simp only [Int.ofNat_eq_natCast, Nat.cast_zero, Int.cast_zero, zero_mul, zero_add]
      exact h3

theorem zip3_forall {α β : Type} {f : α → β → Bool} : ∀ {as : List α} {bs : List β},
    zip3 f as bs = true → ∀ a ∈ as, ∃ b ∈ bs, f a b = true
  | [], [], _, a, ha => by cases ha
  | [], _ :: _, h, _, _ => by simp [zip3] at h
  | _ :: _, [], h, _, _ => by simp [zip3] at h
  | x :: as, y :: bs, h, a, ha => by
    simp only [zip3, Bool.and_eq_true] at h
    rcases List.mem_cons.mp ha with rfl | ha'
    · exact ⟨y, by simp, h.1⟩
    · obtain ⟨b, hb, hf⟩ := zip3_forall h.2 a ha'
      exact ⟨b, List.mem_cons_of_mem _ hb, hf⟩

/-- forward certificates: the (open / closed) sector lies in the (open / closed) cell -/
theorem fwd_sound {G : M3} {c : Z3} {W : List Z3} {H : List M3} {certs : List (Nat × List Nat)}
    (h : zip3 (checkFwd G c W) H certs = true) (x : R3) :
    (closedS W x → closedCell G H c x) ∧ (openS W x → openCell G H c x) := by
  constructor
  · intro hx m hm
    obtain ⟨cert, _, hc⟩ := zip3_forall h m hm
    unfold checkFwd at hc
    rcases Bool.or_eq_true _ _ |>.mp hc with h1 | h2
    · have : m = M3.one := by simpa using h1
      rw [this, actR_one]
    · simp only [Bool.and_eq_true, decide_eq_true_eq] at h2
      obtain ⟨⟨⟨hmu, _⟩, _⟩, heq⟩ := h2
      have e := congrArg (fun t : Z3 => t.dotR x) heq
      simp only [smul_dotR, cellWall_dotR] at e
      have hn := lincomb_nonneg x cert.2 W hx
      have hmu' : (0 : ℝ) < ((Int.ofNat cert.1 : Int) : ℝ) := ofNat_cast_pos hmu
      nlinarith
  · intro hx m hm hne
    obtain ⟨cert, _, hc⟩ := zip3_forall h m hm
    unfold checkFwd at hc
    rcases Bool.or_eq_true _ _ |>.mp hc with h1 | h2
    · exact absurd (by simpa using h1) hne
    · simp only [Bool.and_eq_true, decide_eq_true_eq] at h2
      obtain ⟨⟨⟨hmu, hlen⟩, hany⟩, heq⟩ := h2
      have e := congrArg (fun t : Z3 => t.dotR x) heq
      simp only [smul_dotR, cellWall_dotR] at e
      have hn := lincomb_pos x cert.2 W hlen hx hany
      have hmu' : (0 : ℝ) < ((Int.ofNat cert.1 : Int) : ℝ) := ofNat_cast_pos hmu
      nlinarith

/-- backward certificates: the closed cell lies in the closed sector -/
theorem bwd_sound {G : M3} {c : Z3} {W : List Z3} {H : List M3} {certs : List (Nat × List Nat)}
    (h : zip3 (checkBwd G c H) W certs = true) (x : R3) (hx : closedCell G H c x) : closedS W x := by
  intro w hw
  obtain ⟨cert, _, hc⟩ := zip3_forall h w hw
  unfold checkBwd at hc
  simp only [Bool.and_eq_true, decide_eq_true_eq] at hc
  obtain ⟨⟨hnu, _⟩, heq⟩ := hc
  have e := congrArg (fun t : Z3 => t.dotR x) heq
  simp only [smul_dotR] at e
  have hn : 0 ≤ (lincomb cert.2 (H.map fun m => cellWall G m c)).dotR x := by
    apply lincomb_nonneg
    intro v hv
    obtain ⟨m, hm, rfl⟩ := List.mem_map.mp hv
    rw [cellWall_dotR]
    linarith [hx m hm]
  have hnu' : (0 : ℝ) < ((Int.ofNat cert.1 : Int) : ℝ) := ofNat_cast_pos hnu
  nlinarith

/-- The sector is a fundamental domain of the group: covering by the closed sector, and a direction
strictly inside has no other equivalent in the closed sector (hence exactly one equivalent inside in
general position, and all members of an orbit that meets the open sector project to the same direction). -/
def FundamentalDomain (L : List M3) (walls : List Z3) : Prop :=
  (∀ x : R3, ∃ g ∈ L, closedS walls (g.actR x)) ∧
  (∀ y : R3, openS walls y → ∀ k ∈ L, closedS walls (k.actR y) → k = M3.one)

theorem mem'_iff {p : Z3} {l : List Z3} : checkSector.mem' p l = true ↔ p ∈ l := by
  unfold checkSector.mem'
  rw [List.any_eq_true]
  constructor
  · rintro ⟨h, hh, e⟩; have : h = p := by simpa using e
    exact this ▸ hh
  · intro h; exact ⟨p, h, by simp⟩

theorem checkSector_sound {r : SectorRec} (h : checkSector r = true) : FundamentalDomain r.ops r.walls := by
  unfold checkSector at h
  simp only [Bool.and_eq_true] at h
  obtain ⟨⟨⟨⟨⟨⟨⟨hgL, hgH⟩, _hsym⟩, hpres⟩, hhalf⟩, _hstab⟩, hfwd⟩, hbwd⟩ := h
  have hL := isGroup_iff.mp hgL
  have hH := isGroup_iff.mp hgH
  have hP : ∀ m ∈ r.ops, preserves r.metric m = true := List.all_eq_true.mp hpres
  cases hh : r.half with
  | none =>
    have eH : r.sub = r.ops := by simp [SectorRec.sub, hh]
    have eW : r.cellWalls = r.walls := by simp [SectorRec.cellWalls, hh]
    rw [eH, eW] at hfwd hbwd
    constructor
    · intro x
      obtain ⟨g, hg, hc⟩ := cell_covering hL hP r.cert.centre x
      exact ⟨g, hg, bwd_sound hbwd _ hc⟩
    · intro y hy k hk hky
      exact cell_unique hL hP r.cert.centre ((fwd_sound hfwd y).2 hy) hk ((fwd_sound hfwd _).1 hky)
  | some p =>
    rw [hh] at hhalf
    simp only [Bool.and_eq_true] at hhalf
    obtain ⟨⟨hpmem, hpm⟩, hrev⟩ := hhalf
    have hpw : p ∈ r.walls := mem'_iff.mp hpmem
    have hsub : ∀ m, m ∈ r.sub ↔ (m ∈ r.ops ∧ M3.cov p m = p) := by
      intro m; simp [SectorRec.sub, hh, List.mem_filter]
    have hcw : ∀ w, w ∈ r.walls → w = p ∨ w ∈ r.cellWalls := by
      intro w hw
      by_cases e : w = p
      · exact Or.inl e
      · right; simp [SectorRec.cellWalls, hh, List.mem_filter, hw, e]
    have hcw' : ∀ w, w ∈ r.cellWalls → w ∈ r.walls := by
      intro w hw; simp [SectorRec.cellWalls, hh, List.mem_filter] at hw; exact hw.1
    have hPH : ∀ m ∈ r.sub, preserves r.metric m = true := fun m hm => hP m ((hsub m).mp hm).1
    have hdich : ∀ m ∈ r.ops, M3.cov p m = p ∨ M3.cov p m = p.neg := by
      intro m hm
      have := (List.all_eq_true.mp hpm) m hm
      simpa using this
    constructor
    · intro x
      -- first move x into the half-space
      have step : ∃ s ∈ r.ops, 0 ≤ p.dotR (s.actR x) := by
        by_cases hx : 0 ≤ p.dotR x
        · exact ⟨M3.one, hL.one_mem, by rwa [actR_one]⟩
        · obtain ⟨s, hs, hsr⟩ := List.any_eq_true.mp hrev
          have hsr' : M3.cov p s = p.neg := by simpa using hsr
          refine ⟨s, hs, ?_⟩
          rw [← cov_dotR, hsr', neg_dotR]
          linarith [lt_of_not_ge hx]
      obtain ⟨s, hs, hsx⟩ := step
      obtain ⟨g, hg, hc⟩ := cell_covering hH hPH r.cert.centre (s.actR x)
      have hgm := (hsub g).mp hg
      refine ⟨g.mul s, hL.mul_mem g hgm.1 s hs, ?_⟩
      rw [actR_mul]
      intro w hw
      rcases hcw w hw with rfl | hwc
      · rw [← cov_dotR, hgm.2]; exact hsx
      · exact bwd_sound hbwd _ hc w hwc
    · intro y hy k hk hky
      have hpy : 0 < p.dotR y := hy p hpw
      have hpk : 0 ≤ p.dotR (k.actR y) := hky p hpw
      have hkp : M3.cov p k = p := by
        rcases hdich k hk with e | e
        · exact e
        · exfalso
          rw [← cov_dotR, e, neg_dotR] at hpk
          linarith
      have hkH : k ∈ r.sub := (hsub k).mpr ⟨hk, hkp⟩
      have hyW : openS r.cellWalls y := fun w hw => hy w (hcw' w hw)
      have hkW : closedS r.cellWalls (k.actR y) := fun w hw => hky w (hcw' w hw)
      exact cell_unique hH hPH r.cert.centre ((fwd_sound hfwd y).2 hyW) hkH ((fwd_sound hfwd _).1 hkW)

/-- For a sector that is a plain Dirichlet cell (no half-space stage), the argmax rule lands in the closed
sector. -/
theorem argmax_projection_in_sector {r : SectorRec} (h : checkSector r = true) (hh : r.half = none) (x : R3)
    {k : M3} (hk : k ∈ r.ops)
    (hmax : ∀ m ∈ r.ops, pairR r.metric x (m.actR r.cert.centre.toR) ≤ pairR r.metric x (k.actR r.cert.centre.toR))
    {g : M3} (hg : g ∈ r.ops) (hkg : k.mul g = M3.one) : closedS r.walls (g.actR x) := by
  unfold checkSector at h
  simp only [Bool.and_eq_true] at h
  obtain ⟨⟨⟨⟨⟨⟨⟨hgL, _⟩, _⟩, hpres⟩, _⟩, _⟩, _⟩, hbwd⟩ := h
  have hL := isGroup_iff.mp hgL
  have hP : ∀ m ∈ r.ops, preserves r.metric m = true := List.all_eq_true.mp hpres
  have eH : r.sub = r.ops := by simp [SectorRec.sub, hh]
  have eW : r.cellWalls = r.walls := by simp [SectorRec.cellWalls, hh]
  rw [eH, eW] at hbwd
  exact bwd_sound hbwd _ (argmax_in_cell hL hP r.cert.centre x hk hmax hg hkg)

/-- For a two-stage sector (half-space `π` kept by the subgroup `H = r.sub`, reversed by the other operations) the
algorithm of `in_fundamental_sector` for the groups 321, 312, 32, (-4) and (-3) — first move the direction into the half-space with a reversing
operation `s` if necessary, then apply the argmax rule over `H` — lands in the closed sector. -/
theorem two_stage_projection_in_sector {r : SectorRec} (h : checkSector r = true) {p : Z3} (hh : r.half = some p)
    (x : R3) {s : M3} (_hs : s ∈ r.ops) (hsx : 0 ≤ p.dotR (s.actR x))
    {k : M3} (hk : k ∈ r.sub)
    (hmax : ∀ m ∈ r.sub, pairR r.metric (s.actR x) (m.actR r.cert.centre.toR)
        ≤ pairR r.metric (s.actR x) (k.actR r.cert.centre.toR))
    {g : M3} (hg : g ∈ r.sub) (hkg : k.mul g = M3.one) : closedS r.walls (g.actR (s.actR x)) := by
  unfold checkSector at h
  simp only [Bool.and_eq_true] at h
  obtain ⟨⟨⟨⟨⟨⟨⟨_, hgH⟩, _⟩, hpres⟩, _⟩, _⟩, _⟩, hbwd⟩ := h
  have hH := isGroup_iff.mp hgH
  have hP : ∀ m ∈ r.ops, preserves r.metric m = true := List.all_eq_true.mp hpres
  have hsub : ∀ m, m ∈ r.sub ↔ (m ∈ r.ops ∧ M3.cov p m = p) := by
    intro m; simp [SectorRec.sub, hh, List.mem_filter]
  have hPH : ∀ m ∈ r.sub, preserves r.metric m = true := fun m hm => hP m ((hsub m).mp hm).1
  have hc := argmax_in_cell hH hPH r.cert.centre (s.actR x) hk hmax hg hkg
  intro w hw
  by_cases e : w = p
  · subst e
    rw [← cov_dotR, ((hsub g).mp hg).2]; exact hsx
  · have hwc : w ∈ r.cellWalls := by simp [SectorRec.cellWalls, hh, List.mem_filter, hw, e]
    exact bwd_sound hbwd _ hc w hwc

open Classical in
/-- the "keep the ones already inside the sector" rule around any projection `f` -/
noncomputable def keepInside (walls : List Z3) (f : R3 → R3) (x : R3) : R3 :=
  if closedS walls x then x else f x

theorem keepInside_inside {walls : List Z3} {f : R3 → R3} (hf : ∀ x, closedS walls (f x)) (x : R3) :
    closedS walls (keepInside walls f x) := by
  unfold keepInside; split
  · assumption
  · exact hf x

theorem keepInside_idempotent {walls : List Z3} {f : R3 → R3} (hf : ∀ x, closedS walls (f x)) (x : R3) :
    keepInside walls f (keepInside walls f x) = keepInside walls f x := by
  have h := keepInside_inside hf x
  generalize keepInside walls f x = y at h ⊢
  unfold keepInside
  rw [if_pos h]

theorem keepInside_orbit {L : List M3} (hL : IsGroupList L) {walls : List Z3} {f : R3 → R3}
    (horb : ∀ x, ∃ g ∈ L, f x = g.actR x) (x : R3) : ∃ g ∈ L, keepInside walls f x = g.actR x := by
  unfold keepInside; split
  · exact ⟨M3.one, hL.one_mem, (actR_one x).symm⟩
  · exact horb x

/-- All symmetry-equivalent directions project to the same direction when the orbit meets the open sector. -/
theorem projection_constant_on_orbit {L : List M3} (hL : IsGroupList L) {walls : List Z3}
    (hFD : FundamentalDomain L walls) {f : R3 → R3} (hf : ∀ x, closedS walls (f x))
    (horb : ∀ x, ∃ g ∈ L, f x = g.actR x) {y : R3} (hy : openS walls y) {g : M3} (hg : g ∈ L) :
    keepInside walls f (g.actR y) = y := by
  obtain ⟨k, hk, e⟩ := keepInside_orbit hL (walls := walls) horb (g.actR y)
  have hin := keepInside_inside hf (g.actR y)
  rw [e, ← actR_mul] at hin
  have := hFD.2 y hy (k.mul g) (hL.mul_mem k hk g hg) hin
  rw [e, ← actR_mul, this, actR_one]

/-- A bad witness refutes the fundamental-domain property: a direction in general position with two
distinct equivalents strictly inside. -/
theorem checkBad_sound {ops : List M3} {walls : List Z3} {w : BadWitness} (h : checkBad ops walls w = true) :
    ¬ FundamentalDomain ops walls := by
  unfold checkBad at h
  simp only [Bool.and_eq_true, Bool.not_eq_true', decide_eq_false_iff_not] at h
  obtain ⟨⟨⟨⟨hg, hne⟩, hin1⟩, hin2⟩, _⟩ := h
  rintro ⟨_, huniq⟩
  have open_of : ∀ v : Z3, strictlyInside walls v = true → openS walls v.toR := by
    intro v hv hh hhw
    have := (List.all_eq_true.mp hv) hh hhw
    have hpos : 0 < hh.dot v := by simpa using this
    have : hh.dotR v.toR = ((hh.dot v : Int) : ℝ) := by
      simp only [Z3.dotR, Z3.toR, Z3.dot]; push_cast; ring
    rw [this]; exact_mod_cast hpos
  have h1 := open_of _ hin1
  have h2 := open_of _ hin2
  rw [act_toR] at h2
  exact hne (huniq _ h1 w.g (mem_iff.mp hg) (fun hh hhw => le_of_lt (h2 hh hhw)))

end Orix.Grp
