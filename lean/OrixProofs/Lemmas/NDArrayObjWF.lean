import OrixProofs.Lemmas.NDArrayObj
import OrixProofs.Lemmas.NDArrayWF
/-
Object level: every step of a program maps well-formed objects to well-formed objects or answers one of the
modelled errors (`index`, `value`, `dimension`) — never `internal`.
-/
namespace Orix
open NDArray

variable {ε : Type}

def Obj.WF (O : Obj ε) : Prop := O.arr.WF

def Op.WF : Op ε → Prop
  | .stack _ others => ∀ B ∈ others, B.WF
  | _ => True

/-- result of a step: a well-formed value or an error other than `internal` -/
def Fine {β : Type} (wf : β → Prop) (r : Except NDErr β) : Prop :=
  (∃ b, r = .ok b ∧ wf b) ∨ (∃ e, r = .error e ∧ e ≠ .internal)

namespace NDArray
variable {α β : Type}

theorem map_wf (g : α → β) {A : NDArray α} (hw : A.WF) : (A.map g).WF := by
  show (A.data.map g).length = prod A.shape
  rw [List.length_map]; exact hw

theorem zip_wf {D : NDArray α} {F : NDArray β} (hD : D.WF) (hF : F.WF) (hs : D.shape = F.shape) :
    ∃ Z, NDArray.zip D F = some Z ∧ Z.WF := by
  refine ⟨⟨D.shape, D.data.zip F.data⟩, by simp [NDArray.zip, hs], ?_⟩
  show (D.data.zip F.data).length = prod D.shape
  rw [List.length_zip, hD, hF, hs]; simp

theorem getitem_fine (k : Key) {A : NDArray α} (hw : A.WF) : Fine NDArray.WF (getitem k A) := by
  rcases getitem_total hw k with ⟨B, hB, hBw⟩ | h | h
  · exact Or.inl ⟨B, hB, hBw⟩
  · exact Or.inr ⟨_, h, by decide⟩
  · exact Or.inr ⟨_, h, by decide⟩

theorem flatten_fine {A : NDArray α} (hw : A.WF) : Fine NDArray.WF (flatten A) := by
  obtain ⟨B, hB, hBw⟩ := flatten_ok hw
  exact Or.inl ⟨B, hB, hBw⟩

theorem transpose_fine (e : Nat) (axes : Option (List Int)) {A : NDArray α} (hw : A.WF) :
    Fine NDArray.WF (transpose e axes A) := by
  rcases transpose_total hw e axes with ⟨B, hB, hBw⟩ | h
  · exact Or.inl ⟨B, hB, hBw⟩
  · exact Or.inr ⟨_, h, by decide⟩

/-- a natural operation gives results of the same shape on well-formed arrays of the same shape -/
theorem natural_shape (f : {γ : Type} → NDArray γ → Except NDErr (NDArray γ)) (hf : Natural @f)
    {X : NDArray α} {Y : NDArray β} (hX : X.WF) (hY : Y.WF) (hs : X.shape = Y.shape)
    {D : NDArray α} {F : NDArray β} (hD : f X = .ok D) (hF : f Y = .ok F) : D.shape = F.shape := by
  have e : X.map (fun _ => ()) = Y.map (fun _ => ()) := by
    cases X; cases Y
    simp only [NDArray.map, NDArray.mk.injEq] at *
    refine ⟨hs, ?_⟩
    apply List.ext_getElem
    · simp only [List.length_map]
      have h1 : _ = _ := hX
      have h2 : _ = _ := hY
      simp only at h1 h2
      rw [h1, h2, hs]
    · intros; rfl
  have h1 := hf (fun _ => ()) X
  have h2 := hf (fun _ => ()) Y
  rw [e, h2, hD, hF] at h1
  simp only [emap_ok, Except.ok.injEq] at h1
  have := congrArg NDArray.shape h1
  simpa using this.symm

theorem transposePerm_shape {p : List Nat} {A B : NDArray α} (h : transposePerm p A = .ok B) :
    B.shape = p.filterMap (fun a => A.shape[a]?) := by
  unfold transposePerm at h
  rw [ofOpt_ok] at h
  exact (gatherList_data h).1

theorem transpose_shape_agree (axes : Option (List Int)) {X : NDArray α} {Y : NDArray β}
    (hs : X.shape = Y.shape) {D : NDArray α} {F : NDArray β}
    (hD : transpose 1 axes X = .ok D) (hF : transpose 0 axes Y = .ok F) : D.shape = F.shape := by
  unfold transpose at hD hF
  rw [← hs] at hF
  by_cases h1 : X.shape.length = 1
  · simp only [h1, if_true, Except.ok.injEq] at hD hF
    subst hD hF; exact hs
  · simp only [h1, if_false] at hD hF
    cases axes with
    | none =>
      simp only at hD hF
      by_cases h2 : X.shape.length = 2
      · rw [if_pos h2] at hD hF
        rw [transposePerm_shape hD, transposePerm_shape hF, hs]
      · rw [if_neg h2] at hD; cases hD
    | some ax =>
      simp only at hD hF
      by_cases h3 : ax.length ≠ X.shape.length
      · rw [if_pos h3] at hD; cases hD
      · rw [if_neg h3] at hD hF
        cases hn1 : normAxes X.shape.length 1 ax with
        | error e => rw [hn1] at hD; cases hD
        | ok p1 =>
          cases hn0 : normAxes X.shape.length 0 ax with
          | error e => rw [hn0] at hF; cases hF
          | ok p0 =>
            rw [hn1] at hD; rw [hn0] at hF
            simp only [bind, Except.bind] at hD hF
            have := normAxes_agree (not_not.1 h3) hn1 hn0
            subst this
            rw [transposePerm_shape hD, transposePerm_shape hF, hs]

end NDArray

namespace Obj

theorem split_fine (c : Cls) (fD fF : {γ : Type} → NDArray γ → Except NDErr (NDArray γ))
    (hDf : ∀ {γ : Type} {X : NDArray γ}, X.WF → Fine NDArray.WF (fD X))
    (hFf : ∀ {γ : Type} {X : NDArray γ}, X.WF → Fine NDArray.WF (fF X))
    (hsh : ∀ {γ δ : Type} {X : NDArray γ} {Y : NDArray δ}, X.WF → Y.WF → X.shape = Y.shape →
      ∀ {D : NDArray γ} {F : NDArray δ}, fD X = .ok D → fF Y = .ok F → D.shape = F.shape)
    {A : NDArray (ε × Bool)} (hw : A.WF) : Fine NDArray.WF (split c fD fF A) := by
  unfold split
  dsimp only
  rcases hDf (NDArray.map_wf Prod.fst hw) with ⟨D, hD, hDw⟩ | ⟨e, he, hne⟩
  · rw [hD]
    simp only [bind, Except.bind]
    cases hc : c.isRot with
    | false =>
      simp only [Bool.false_eq_true, if_false]
      exact Or.inl ⟨_, rfl, NDArray.map_wf _ hDw⟩
    | true =>
      simp only [if_true]
      rcases hFf (NDArray.map_wf Prod.snd hw) with ⟨F, hF, hFw⟩ | ⟨e, he, hne⟩
      · rw [hF]
        simp only
        have hs := hsh (NDArray.map_wf Prod.fst hw) (NDArray.map_wf Prod.snd hw) rfl hD hF
        obtain ⟨Z, hZ, hZw⟩ := NDArray.zip_wf hDw hFw hs
        rw [hZ]
        exact Or.inl ⟨Z, rfl, hZw⟩
      · rw [he]; exact Or.inr ⟨e, rfl, hne⟩
  · rw [he]; exact Or.inr ⟨e, rfl, hne⟩

theorem fine_map {β γ : Type} {wb : β → Prop} {wc : γ → Prop} (f : β → γ) (hf : ∀ b, wb b → wc (f b))
    {r : Except NDErr β} (h : Fine wb r) : Fine wc (do let a ← r; .ok (f a)) := by
  rcases h with ⟨b, rfl, hb⟩ | ⟨e, rfl, hne⟩
  · exact Or.inl ⟨f b, rfl, hf b hb⟩
  · exact Or.inr ⟨e, rfl, hne⟩

/-- every step: well-formed result or a modelled error -/
theorem step_fine (E : ElemOps ε) {O : Obj ε} (hw : O.WF) (op : Op ε) (hop : op.WF) :
    Fine Obj.WF (O.step E op) := by
  cases op with
  | getitem k =>
    exact fine_map (fun a => ({ O with arr := a } : Obj ε)) (fun _ h => h)
      (split_fine O.cls _ _ (fun h => getitem_fine k h) (fun h => getitem_fine k h)
        (fun hX hY hs _ _ hD hF => natural_shape _ (natural_getitem k) hX hY hs hD hF) hw)
  | reshape d =>
    simp only [step, Obj.reshape]
    cases hr : NDArray.reshape d O.arr with
    | error e => exact Or.inr ⟨e, rfl, by rw [reshape_error hr]; decide⟩
    | ok B => exact Or.inl ⟨_, rfl, reshape_wf hw hr⟩
  | flatten =>
    exact fine_map (fun a => ({ O with arr := a } : Obj ε)) (fun _ h => h)
      (split_fine O.cls _ _ (fun h => flatten_fine h) (fun h => flatten_fine h)
        (fun hX hY hs _ _ hD hF => natural_shape _ natural_flatten hX hY hs hD hF) hw)
  | transpose ax =>
    exact fine_map (fun a => ({ O with arr := a } : Obj ε)) (fun _ h => h)
      (split_fine O.cls _ _ (fun h => transpose_fine 1 ax h) (fun h => transpose_fine 0 ax h)
        (fun _ _ hs _ _ hD hF => transpose_shape_agree ax hs hD hF) hw)
  | squeeze => exact Or.inl ⟨_, rfl, squeeze_wf hw⟩
  | stack pos others =>
    simp only [step, Obj.stack]
    have hall : ∀ B ∈ List.take pos others ++ O.arr :: List.drop pos others, B.WF := by
      intro B hB
      rcases List.mem_append.1 hB with h | h
      · exact hop B (List.mem_of_mem_take h)
      · rcases List.mem_cons.1 h with rfl | h
        · exact hw
        · exact hop B (List.mem_of_mem_drop h)
    rcases stack_total hall with ⟨B, hB, hBw⟩ | h
    · rw [hB]; exact Or.inl ⟨_, rfl, hBw⟩
    · rw [h]; exact Or.inr ⟨_, rfl, by decide⟩
  | unit => exact Or.inl ⟨_, rfl, NDArray.map_wf _ hw⟩
  | inv =>
    simp only [step, Obj.inv]
    by_cases hq : O.cls.isQuat = true
    · rw [if_pos hq]; exact Or.inl ⟨_, rfl, NDArray.map_wf _ hw⟩
    · rw [if_neg hq]; exact Or.inr ⟨_, rfl, by decide⟩
  | neg =>
    simp only [step, Obj.neg]
    by_cases hr : O.cls.isRot = true
    · rw [if_pos hr]; exact Or.inl ⟨_, rfl, NDArray.map_wf _ hw⟩
    · rw [if_neg hr]; exact Or.inl ⟨_, rfl, NDArray.map_wf _ hw⟩

theorem run_fine (E : ElemOps ε) (prog : List (Op ε)) (hp : ∀ op ∈ prog, op.WF) :
    ∀ {O : Obj ε}, O.WF → Fine Obj.WF (O.run E prog) := by
  induction prog with
  | nil => intro O hw; exact Or.inl ⟨O, rfl, hw⟩
  | cons op r ih =>
    intro O hw
    simp only [run]
    rcases step_fine E hw op (hp op (List.mem_cons_self ..)) with ⟨O1, h1, hw1⟩ | ⟨e, he, hne⟩
    · rw [h1]; exact ih (fun o ho => hp o (List.mem_cons_of_mem _ ho)) hw1
    · rw [he]; exact Or.inr ⟨e, rfl, hne⟩

end Obj
end Orix
