import Mathlib.Data.List.Sort
import Mathlib.Data.List.Induction
import Mathlib.Tactic.Ring
import OrixModel.Codec.Rec
/-
Helper lemmas for the codec models: `np.unique` model, phase-list reconciliation of `CrystalMap.__init__`,
sorting of phase lists, association-list lookups.
-/
namespace Orix.Codec

theorem mem_insertUniq {a x : Int} {l : List Int} : x ∈ insertUniq a l ↔ x = a ∨ x ∈ l := by
  induction l with
  | nil => simp [insertUniq]
  | cons b r ih =>
    unfold insertUniq
    split_ifs with h1 h2
    · simp
    · subst h2; simp
    · simp only [List.mem_cons, ih]; tauto

theorem pairwise_insertUniq {a : Int} {l : List Int} (h : l.Pairwise (· < ·)) :
    (insertUniq a l).Pairwise (· < ·) := by
  induction l with
  | nil => simp [insertUniq]
  | cons b r ih =>
    unfold insertUniq
    split_ifs with h1 h2
    · refine List.Pairwise.cons ?_ h
      intro c hc
      rcases List.mem_cons.1 hc with rfl | hc
      · exact h1
      · exact lt_trans h1 (List.rel_of_pairwise_cons h hc)
    · exact h
    · have hb : b < a := lt_of_le_of_ne (not_lt.1 h1) (fun e => h2 e.symm)
      refine List.Pairwise.cons ?_ (ih h.of_cons)
      intro c hc
      rcases mem_insertUniq.1 hc with rfl | hc
      · exact hb
      · exact List.rel_of_pairwise_cons h hc

theorem mem_uniqSorted {x : Int} {l : List Int} : x ∈ uniqSorted l ↔ x ∈ l := by
  induction l with
  | nil => simp [uniqSorted]
  | cons a r ih =>
    have : uniqSorted (a :: r) = insertUniq a (uniqSorted r) := rfl
    rw [this, mem_insertUniq, ih]; simp

theorem pairwise_uniqSorted (l : List Int) : (uniqSorted l).Pairwise (· < ·) := by
  induction l with
  | nil => simp [uniqSorted]
  | cons a r ih => exact pairwise_insertUniq ih

/-- `np.unique` is characterised by: strictly increasing, same members -/
theorem uniqSorted_eq {l t : List Int} (ht : t.Pairwise (· < ·)) (hm : ∀ a, a ∈ l ↔ a ∈ t) :
    uniqSorted l = t :=
  List.Pairwise.eq_of_mem_iff (pairwise_uniqSorted l) ht (fun a => by rw [mem_uniqSorted, hm])

theorem rekey_self (pl : List PhaseInfo) : rekey (pl.map (·.id)) pl = pl := by
  induction pl with
  | nil => rfl
  | cons p r ih => simp [rekey, ih]

/-- On a record whose phase list is consistent with its data (same set of ids, `-1` standing for
"not indexed"), the constructor's reconciliation only adds the `not_indexed` phase. -/
theorem reconcile_consistent (ids : List Int) (pl : List PhaseInfo) (ni : Bool)
    (hs : (pl.map (·.id)).Pairwise (· < ·)) (hpos : ∀ p ∈ pl, -1 < p.id)
    (hm : ∀ a, a ∈ ids ↔ (a = -1 ∧ ni = true) ∨ a ∈ pl.map (·.id)) :
    reconcile ids pl = some (if ni then notIndexedPhase :: pl else pl) := by
  have hfil : pl.filter (fun x => x.id != -1) = pl := by
    rw [List.filter_eq_self]
    intro p hp
    have := hpos p hp
    have hne : p.id ≠ -1 := by omega
    simpa using hne
  cases ni with
  | false =>
    have hu : uniqSorted ids = pl.map (·.id) := uniqSorted_eq hs (fun a => by simpa using hm a)
    have hh : ((pl.map (·.id)).head? == some (-1 : Int)) = false := by
      cases pl with
      | nil => rfl
      | cons p r =>
        have := hpos p (by simp)
        simp only [List.map_cons, List.head?_cons]
        have hne : p.id ≠ -1 := by omega
        simp [hne]
    simp only [reconcile, hfil, hu, hh, Bool.false_eq_true, if_false, List.length_map, lt_irrefl, Nat.sub_self,
      dropSuperfluous, List.reverse_reverse, rekey_self]
  | true =>
    have ht : ((-1 : Int) :: pl.map (·.id)).Pairwise (· < ·) := by
      refine List.Pairwise.cons ?_ hs
      intro a ha
      obtain ⟨p, hp, rfl⟩ := List.mem_map.1 ha
      exact hpos p hp
    have hu : uniqSorted ids = (-1 : Int) :: pl.map (·.id) :=
      uniqSorted_eq ht (fun a => by simpa using hm a)
    simp [reconcile, hfil, hu, dropSuperfluous, rekey_self]

/-! ### sorting phases by id -/

theorem insertById_append (p : PhaseInfo) (l : List PhaseInfo) (h : ∀ q ∈ l, q.id < p.id) :
    insertById p l = l ++ [p] := by
  induction l with
  | nil => rfl
  | cons q r ih =>
    have hq : ¬ p.id ≤ q.id := not_le.2 (h q (by simp))
    simp [insertById, hq, ih (fun x hx => h x (by simp [hx]))]

/-- phases written in descending id order come back in ascending order -/
theorem sortById_reverse (l : List PhaseInfo) (h : (l.map (·.id)).Pairwise (· < ·)) :
    sortById l.reverse = l := by
  induction l using List.reverseRecOn with
  | nil => rfl
  | append_singleton r p ih =>
    have h' : (r.map (·.id)).Pairwise (· < ·) := by
      rw [List.map_append] at h; exact (List.pairwise_append.1 h).1
    have hlt : ∀ q ∈ r, q.id < p.id := by
      rw [List.map_append] at h
      intro q hq
      exact (List.pairwise_append.1 h).2.2 q.id (List.mem_map_of_mem hq) p.id (by simp)
    have : sortById (r ++ [p]).reverse = insertById p (sortById r.reverse) := by
      simp [sortById]
    rw [this, ih h', insertById_append p r hlt]

/-! ### association lists -/

theorem lookupStr_append_left {β} (k : Str) (l r : List (Str × β)) (v : β) (h : lookupStr k l = some v) :
    lookupStr k (l ++ r) = some v := by
  induction l with
  | nil => simp [lookupStr] at h
  | cons e l ih =>
    obtain ⟨n, x⟩ := e
    simp only [lookupStr, List.cons_append] at h ⊢
    split_ifs at h ⊢ with hn
    · exact h
    · exact ih h

theorem lookupStr_append_right {β} (k : Str) (l r : List (Str × β)) (h : ∀ e ∈ l, e.1 ≠ k) :
    lookupStr k (l ++ r) = lookupStr k r := by
  induction l with
  | nil => rfl
  | cons e l ih =>
    obtain ⟨n, x⟩ := e
    have hn : (n == k) = false := by simpa using h (n, x) (by simp)
    simp only [lookupStr, List.cons_append, hn]
    exact ih (fun e he => h e (by simp [he]))

/-- looking every key of a duplicate-free key list up in its own zip returns the values -/
theorem mapM_lookup_zip (ks : List Str) (vs : List Int) (hl : ks.length = vs.length) (hn : ks.Nodup)
    (pre : List (Str × Int)) (hpre : ∀ e ∈ pre, e.1 ∉ ks) :
    ks.mapM (fun k => lookupStr k (pre ++ ks.zip vs)) = some vs := by
  induction ks generalizing vs pre with
  | nil =>
    cases vs with
    | nil => rfl
    | cons => simp at hl
  | cons k ks ih =>
    cases vs with
    | nil => simp at hl
    | cons v vs =>
      have hk : k ∉ ks := (List.nodup_cons.1 hn).1
      have h1 : lookupStr k (pre ++ (k, v) :: ks.zip vs) = some v := by
        rw [lookupStr_append_right _ _ _ (fun e he hek => hpre e he (by simp [hek]))]
        simp [lookupStr]
      have h2 := ih vs (by simpa using hl) (List.nodup_cons.1 hn).2 (pre ++ [(k, v)]) (by
        intro e he
        rcases List.mem_append.1 he with he | he
        · exact fun hm => hpre e he (by simp [hm])
        · simp at he; subst he; simpa using hk)
      simp only [List.append_assoc, List.singleton_append] at h2
      simp [h1, h2]

end Orix.Codec

namespace Orix.Codec

/-! ### `mapM` in the `Option` monad -/

theorem mapM_eq_some_map {α β} (f : α → Option β) (g : α → β) (l : List α)
    (h : ∀ a ∈ l, f a = some (g a)) : l.mapM f = some (l.map g) := by
  induction l with
  | nil => rfl
  | cons a r ih =>
    simp [h a (by simp), ih (fun b hb => h b (by simp [hb]))]

theorem mapM_some_forall₂ {α β} (f : α → Option β) (l : List α) (rs : List β)
    (h : l.mapM f = some rs) : List.Forall₂ (fun a r => f a = some r) l rs := by
  induction l generalizing rs with
  | nil => simp at h; subst h; exact List.Forall₂.nil
  | cons a r ih =>
    simp only [List.mapM_cons] at h
    cases ha : f a with
    | none => simp [ha] at h
    | some b =>
      cases hr : r.mapM f with
      | none => simp [ha, hr] at h
      | some bs =>
        simp [ha, hr] at h
        subst h
        exact List.Forall₂.cons ha (ih bs hr)

theorem forall₂_map_eq {α β γ} {R : α → β → Prop} {l : List α} {rs : List β} (h : List.Forall₂ R l rs)
    (u : β → γ) (v : α → γ) (huv : ∀ a r, a ∈ l → R a r → u r = v a) : rs.map u = l.map v := by
  induction h with
  | nil => rfl
  | cons hab _ ih =>
    simp only [List.map_cons]
    rw [huv _ _ (by simp) hab, ih (fun a r ha => huv a r (by simp [ha]))]

theorem forall₂_length {α β} {R : α → β → Prop} {l : List α} {rs : List β} (h : List.Forall₂ R l rs) :
    l.length = rs.length := by
  induction h with
  | nil => rfl
  | cons _ _ ih => simp [ih]

theorem forall₂_mem_right {α β} {R : α → β → Prop} {l : List α} {rs : List β} (h : List.Forall₂ R l rs)
    {r : β} (hr : r ∈ rs) : ∃ a ∈ l, R a r := by
  induction h with
  | nil => simp at hr
  | cons hab _ ih =>
    rcases List.mem_cons.1 hr with rfl | hr
    · exact ⟨_, by simp, hab⟩
    · obtain ⟨a, ha, hR⟩ := ih hr
      exact ⟨a, by simp [ha], hR⟩

theorem forall₂_mem_left {α β} {R : α → β → Prop} {l : List α} {rs : List β} (h : List.Forall₂ R l rs)
    {a : α} (ha : a ∈ l) : ∃ r ∈ rs, R a r := by
  induction h with
  | nil => simp at ha
  | cons hab _ ih =>
    rcases List.mem_cons.1 ha with rfl | ha
    · exact ⟨_, by simp, hab⟩
    · obtain ⟨r, hr, hR⟩ := ih ha
      exact ⟨r, by simp [hr], hR⟩

end Orix.Codec

namespace Orix.Codec

theorem mapM_map_eq_some {α β γ} (l : List α) (u : α → γ) (f : γ → Option β) (g : α → β)
    (h : ∀ a ∈ l, f (u a) = some (g a)) : (l.map u).mapM f = some (l.map g) := by
  induction l with
  | nil => rfl
  | cons a r ih =>
    simp [h a (by simp), ih (fun b hb => h b (by simp [hb]))]

end Orix.Codec
