import Mathlib.Tactic.Ring
import Mathlib.Tactic.FieldSimp
import Mathlib.Tactic.LinearCombination
import Mathlib.Tactic.Positivity
import Mathlib.Tactic.NormNum
import Mathlib.Tactic.Linarith
import Mathlib.Analysis.SpecialFunctions.Trigonometric.Bounds
import Mathlib.Analysis.SpecialFunctions.Complex.Arg
import Mathlib.Analysis.Complex.Norm
import OrixProofs.Lemmas.RealScalar
import OrixProofs.Lemmas.Lattice
import OrixProofs.Lemmas.SamplingBasic
import OrixModel.Sampling
/-
Helper lemmas for C19, part 2: the UV mesh.  Spherical unit vectors, the chord bound, surjectivity of spherical
coordinates, the closed form of `_sample_S2_uv_mesh_coordinates` over ℝ and the pole-duplicate bookkeeping.
-/
namespace Orix.SamplingLemmas
open Orix Scalar Sampling LatLemmas

/-- the direction with polar angle `θ` and azimuth `φ` -/
noncomputable def sph (θ φ : ℝ) : Vec3 ℝ := ⟨Real.cos φ * Real.sin θ, Real.sin φ * Real.sin θ, Real.cos θ⟩

theorem normSq_sph (θ φ : ℝ) : Vec3.normSq (sph θ φ) = 1 := by
  simp only [sph, Vec3.normSq, Vec3.dot]
  have h1 := Real.sin_sq_add_cos_sq θ
  have h2 := Real.sin_sq_add_cos_sq φ
  linear_combination Real.sin θ ^ 2 * h2 + h1

/-- `Vector3d.from_polar(azimuth, polar).unit` is exactly the spherical direction (the `.unit` changes nothing) -/
theorem nodeVector_eq (a p : ℝ) : nodeVector (a, p) = sph p a := by
  have h : Stereo.fromPolar false a p (Scalar.lit 1 : ℝ) = sph p a := by
    simp [Stereo.fromPolar, sph]
  unfold nodeVector
  simp only
  rw [h, unit_of_unit (normSq_sph p a)]

theorem sph_add_two_pi (θ φ : ℝ) : sph θ (φ + 2 * Real.pi) = sph θ φ := by
  simp [sph, Real.cos_add_two_pi, Real.sin_add_two_pi]

/-- at the poles the azimuth does not matter -/
theorem sph_zero (φ φ' : ℝ) : sph 0 φ = sph 0 φ' := by simp [sph]
theorem sph_pi (φ φ' : ℝ) : sph Real.pi φ = sph Real.pi φ' := by simp [sph]

/-- CHORD IDENTITY -/
theorem chord_sq (θ φ θ' φ' : ℝ) :
    Vec3.normSq (Vec3.sub (sph θ φ) (sph θ' φ'))
      = 2 - 2 * Real.cos (θ - θ') + 2 * Real.sin θ * Real.sin θ' * (1 - Real.cos (φ - φ')) := by
  simp only [sph, Vec3.normSq, Vec3.dot, Vec3.sub, Real.cos_sub]
  have h1 := Real.sin_sq_add_cos_sq θ
  have h2 := Real.sin_sq_add_cos_sq φ
  have h3 := Real.sin_sq_add_cos_sq θ'
  have h4 := Real.sin_sq_add_cos_sq φ'
  linear_combination Real.sin θ ^ 2 * h2 + Real.sin θ' ^ 2 * h4 + h1 + h3

theorem one_sub_cos_le (x : ℝ) : 1 - Real.cos x ≤ x ^ 2 / 2 := by
  have := Real.one_sub_sq_div_two_le_cos (x := x)
  linarith

/-- CHORD BOUND: the squared chord between two directions is at most the squared Euclidean distance of their
spherical coordinates -/
theorem chord_sq_le (θ φ θ' φ' : ℝ) :
    Vec3.normSq (Vec3.sub (sph θ φ) (sph θ' φ')) ≤ (θ - θ') ^ 2 + (φ - φ') ^ 2 := by
  rw [chord_sq]
  have h1 := one_sub_cos_le (θ - θ')
  have h2 := one_sub_cos_le (φ - φ')
  have hc : 0 ≤ 1 - Real.cos (φ - φ') := by linarith [Real.cos_le_one (φ - φ')]
  have hs : Real.sin θ * Real.sin θ' ≤ 1 := by
    nlinarith [Real.sin_le_one θ, Real.sin_le_one θ', Real.neg_one_le_sin θ, Real.neg_one_le_sin θ',
      Real.sin_sq_add_cos_sq θ, Real.sin_sq_add_cos_sq θ', sq_nonneg (Real.sin θ - Real.sin θ'),
      sq_nonneg (Real.cos θ), sq_nonneg (Real.cos θ')]
  have h3 : Real.sin θ * Real.sin θ' * (1 - Real.cos (φ - φ')) ≤ 1 * (1 - Real.cos (φ - φ')) :=
    mul_le_mul_of_nonneg_right hs hc
  nlinarith

/-- SURJECTIVITY of spherical coordinates onto the unit sphere -/
theorem exists_sph (v : Vec3 ℝ) (hv : Vec3.normSq v = 1) :
    ∃ θ φ : ℝ, 0 ≤ θ ∧ θ ≤ Real.pi ∧ 0 ≤ φ ∧ φ < 2 * Real.pi ∧ v = sph θ φ := by
  obtain ⟨x, y, z⟩ := v
  simp only [Vec3.normSq, Vec3.dot] at hv
  have hz : -1 ≤ z ∧ z ≤ 1 := by
    constructor <;> nlinarith [mul_self_nonneg x, mul_self_nonneg y]
  set ρ := Real.sqrt (x * x + y * y) with hρ
  have hρnn : 0 ≤ x * x + y * y := by nlinarith [mul_self_nonneg x, mul_self_nonneg y]
  have hρsq : ρ * ρ = x * x + y * y := Real.mul_self_sqrt hρnn
  have hρ0 : 0 ≤ ρ := Real.sqrt_nonneg _
  have hcos : Real.cos (Real.arccos z) = z := Real.cos_arccos hz.1 hz.2
  have hsin : Real.sin (Real.arccos z) = ρ := by
    rw [Real.sin_arccos, hρ]; congr 1; nlinarith
  by_cases hρz : ρ = 0
  · have hx0 : x = 0 := by nlinarith [mul_self_nonneg x, mul_self_nonneg y]
    have hy0 : y = 0 := by nlinarith [mul_self_nonneg x, mul_self_nonneg y]
    refine ⟨Real.arccos z, 0, Real.arccos_nonneg z, Real.arccos_le_pi z, le_refl _, by positivity, ?_⟩
    simp only [sph, hcos, hsin, hρz, hx0, hy0, mul_zero]
  · have hnorm : ‖(⟨x, y⟩ : ℂ)‖ = ρ := by rw [Complex.norm_def, Complex.normSq_mk]
    have hcne : (⟨x, y⟩ : ℂ) ≠ 0 := by
      intro h; apply hρz; rw [← hnorm, h, norm_zero]
    have hca : Real.cos (Complex.arg ⟨x, y⟩) = x / ρ := by rw [Complex.cos_arg hcne, hnorm]
    have hsa : Real.sin (Complex.arg ⟨x, y⟩) = y / ρ := by rw [Complex.sin_arg, hnorm]
    have hlo := Complex.neg_pi_lt_arg (⟨x, y⟩ : ℂ)
    have hhi := Complex.arg_le_pi (⟨x, y⟩ : ℂ)
    by_cases hneg : Complex.arg ⟨x, y⟩ < 0
    · refine ⟨Real.arccos z, Complex.arg ⟨x, y⟩ + 2 * Real.pi, Real.arccos_nonneg z, Real.arccos_le_pi z,
        by linarith, by linarith, ?_⟩
      simp only [sph, Real.cos_add_two_pi, Real.sin_add_two_pi, hcos, hsin, hca, hsa]
      congr 1 <;> field_simp
    · refine ⟨Real.arccos z, Complex.arg ⟨x, y⟩, Real.arccos_nonneg z, Real.arccos_le_pi z,
        by linarith, by linarith [Real.pi_pos], ?_⟩
      simp only [sph, hcos, hsin, hca, hsa]
      congr 1 <;> field_simp

/-! ### `_sample_S2_uv_mesh_coordinates` over ℝ -/

/-- CLOSED FORM of `_sample_S2_uv_mesh_coordinates` for every legitimate input (`resolution > 0`, `0 ≤ offset < 1`, any
hemisphere, either endpoint flag): no error branch is taken, the numbers of grid lines are the ceilings the code
computes and the lists are the two `linspace`s -/
theorem uvCoordinates_real (r : ℝ) (hr : 0 < r) (h : Hemisphere) (off : ℝ) (ho : 0 ≤ off) (ho1 : off < 1) (ep : Bool) :
    uvCoordinates r h off ep = .ok
      { stepsAzimuth := ⌈360 / r⌉.toNat
        stepsPolar := (⌈((h.polarDeg.2 - h.polarDeg.1 : ℕ) : ℝ) / r⌉ + 1).toNat
        stepAzimuth := 2 * Real.pi / (⌈360 / r⌉ : ℝ)
        stepPolar := deg2rad (((h.polarDeg.2 - h.polarDeg.1 : ℕ) : ℝ)) / (⌈((h.polarDeg.2 - h.polarDeg.1 : ℕ) : ℝ) / r⌉ : ℝ)
        azimuth := linspace (off * (2 * Real.pi / (⌈360 / r⌉ : ℝ))) (2 * Real.pi + off * (2 * Real.pi / (⌈360 / r⌉ : ℝ)))
                     ⌈360 / r⌉.toNat ep
        polar := (linspace (deg2rad (h.polarDeg.1 : ℝ) + off * (deg2rad (((h.polarDeg.2 - h.polarDeg.1 : ℕ) : ℝ)) / (⌈((h.polarDeg.2 - h.polarDeg.1 : ℕ) : ℝ) / r⌉ : ℝ)))
                    (deg2rad (h.polarDeg.2 : ℝ) + off * (deg2rad (((h.polarDeg.2 - h.polarDeg.1 : ℕ) : ℝ)) / (⌈((h.polarDeg.2 - h.polarDeg.1 : ℕ) : ℝ) / r⌉ : ℝ)))
                    (⌈((h.polarDeg.2 - h.polarDeg.1 : ℕ) : ℝ) / r⌉ + 1).toNat true).filter
                    (fun p => Scalar.le p (deg2rad (h.polarDeg.2 : ℝ))) } := by
  have hoff : ¬ ((!(Scalar.le (0 : ℝ) off && Scalar.lt off (1 : ℝ))) = true) := by
    simp [ho, ho1]
  have hr0 : ¬ (Scalar.beq r (0 : ℝ) = true) := by simp [hr.ne']
  have hca : 0 < ⌈360 / r⌉ := Int.ceil_pos.mpr (by positivity)
  have hrange : 0 < h.polarDeg.2 - h.polarDeg.1 := by cases h <;> simp [Hemisphere.polarDeg]
  have hcp : 0 < ⌈((h.polarDeg.2 - h.polarDeg.1 : ℕ) : ℝ) / r⌉ :=
    Int.ceil_pos.mpr (div_pos (by exact_mod_cast hrange) hr)
  unfold uvCoordinates
  simp only [ceilInt_real, lit_real, ofInt_real, pi_real, Nat.cast_zero, Nat.cast_one, Nat.cast_ofNat,
    add_sub_cancel_right]
  rw [if_neg hoff, if_neg hr0, if_neg (by omega), if_neg (by omega), if_neg (by omega)]

/-- number of azimuth grid lines and of polar intervals of the full-sphere UV mesh -/
noncomputable def nAz (r : ℝ) : ℕ := ⌈360 / r⌉.toNat
noncomputable def nPol (r : ℝ) : ℕ := ⌈180 / r⌉.toNat

theorem nAz_pos {r : ℝ} (hr : 0 < r) : 0 < nAz r := by
  have : 0 < ⌈360 / r⌉ := Int.ceil_pos.mpr (by positivity)
  unfold nAz; omega
theorem nPol_pos {r : ℝ} (hr : 0 < r) : 0 < nPol r := by
  have : 0 < ⌈180 / r⌉ := Int.ceil_pos.mpr (by positivity)
  unfold nPol; omega
theorem nAz_cast {r : ℝ} (hr : 0 < r) : ((nAz r : ℕ) : ℝ) = (⌈360 / r⌉ : ℝ) := by
  have h : 0 ≤ ⌈360 / r⌉ := (Int.ceil_pos.mpr (by positivity)).le
  have : ((nAz r : ℕ) : ℤ) = ⌈360 / r⌉ := Int.toNat_of_nonneg h
  exact_mod_cast this
theorem nPol_cast {r : ℝ} (hr : 0 < r) : ((nPol r : ℕ) : ℝ) = (⌈180 / r⌉ : ℝ) := by
  have h : 0 ≤ ⌈180 / r⌉ := (Int.ceil_pos.mpr (by positivity)).le
  have : ((nPol r : ℕ) : ℤ) = ⌈180 / r⌉ := Int.toNat_of_nonneg h
  exact_mod_cast this

/-- STEP BOUNDS from the ceilings: both angular steps are at most the resolution (in radians) -/
theorem stepAz_le {r : ℝ} (hr : 0 < r) : 2 * Real.pi / (nAz r : ℝ) ≤ r * Real.pi / 180 := by
  rw [nAz_cast hr]
  have h := div_ceil_le 360 r (by norm_num) hr
  have hpi := Real.pi_pos
  calc 2 * Real.pi / (⌈360 / r⌉ : ℝ) = (Real.pi / 180) * (360 / (⌈360 / r⌉ : ℝ)) := by ring
    _ ≤ (Real.pi / 180) * r := mul_le_mul_of_nonneg_left h (by positivity)
    _ = r * Real.pi / 180 := by ring
theorem stepPol_le {r : ℝ} (hr : 0 < r) : Real.pi / (nPol r : ℝ) ≤ r * Real.pi / 180 := by
  rw [nPol_cast hr]
  have h := div_ceil_le 180 r (by norm_num) hr
  have hpi := Real.pi_pos
  calc Real.pi / (⌈180 / r⌉ : ℝ) = (Real.pi / 180) * (180 / (⌈180 / r⌉ : ℝ)) := by ring
    _ ≤ (Real.pi / 180) * r := mul_le_mul_of_nonneg_left h (by positivity)
    _ = r * Real.pi / 180 := by ring

/-- the azimuth and polar grid lines of the full-sphere mesh without offset -/
noncomputable def azLine (r : ℝ) (j : ℕ) : ℝ := (j : ℝ) * (2 * Real.pi / (nAz r : ℝ))
noncomputable def polLine (r : ℝ) (i : ℕ) : ℝ := (i : ℝ) * (Real.pi / (nPol r : ℝ))

theorem polLine_last {r : ℝ} (hr : 0 < r) : polLine r (nPol r) = Real.pi := by
  have : ((nPol r : ℕ) : ℝ) ≠ 0 := by exact_mod_cast (nPol_pos hr).ne'
  unfold polLine; field_simp

theorem polLine_le_pi {r : ℝ} (hr : 0 < r) {i : ℕ} (hi : i ≤ nPol r) : polLine r i ≤ Real.pi := by
  rw [← polLine_last hr]
  unfold polLine
  have : (0 : ℝ) ≤ Real.pi / (nPol r : ℝ) := by positivity
  exact mul_le_mul_of_nonneg_right (by exact_mod_cast hi) this

/-- `hemisphere="both"`, `offset=0`, `azimuth_endpoint=False`: `⌈360/r⌉` azimuths `j·2π/⌈360/r⌉` and `⌈180/r⌉ + 1`
polar angles `i·π/⌈180/r⌉` (the `polar <= polar_max` filter removes nothing) -/
theorem uvCoordinates_both (r : ℝ) (hr : 0 < r) :
    ∃ c, uvCoordinates r .both (0 : ℝ) false = .ok c ∧ c.stepsAzimuth = nAz r ∧ c.stepsPolar = nPol r + 1
      ∧ c.azimuth = (List.range (nAz r)).map (azLine r) ∧ c.polar = (List.range (nPol r + 1)).map (polLine r) := by
  refine ⟨_, uvCoordinates_real r hr .both 0 (le_refl _) (by norm_num) false, ?_, ?_, ?_, ?_⟩
  · rfl
  · have h : 0 < ⌈180 / r⌉ := Int.ceil_pos.mpr (by positivity)
    simp only [Hemisphere.polarDeg, nPol, Nat.sub_zero, Nat.cast_ofNat]
    omega
  · simp only [zero_mul, add_zero]
    rw [linspace_real]
    apply List.map_congr_left
    intro j _
    simp only [azLine, linStep, linspaceDiv, sub_zero, zero_add, nAz, Bool.false_eq_true, if_false]
  · have h : 0 < ⌈180 / r⌉ := Int.ceil_pos.mpr (by positivity)
    have hn : (⌈180 / r⌉ + 1).toNat = nPol r + 1 := by unfold nPol; omega
    simp only [Hemisphere.polarDeg, Nat.sub_zero, Nat.cast_ofNat, Nat.cast_zero, zero_mul, add_zero, deg2rad_real, hn]
    have h180 : (180 : ℝ) * (Real.pi / 180) = Real.pi := by ring
    rw [h180, linspace_real]
    have hl : ∀ x ∈ (List.range (nPol r + 1)).map (fun i : ℕ => (0 : ℝ) + (i : ℝ) * linStep 0 Real.pi (nPol r + 1) true),
        x ∈ (List.range (nPol r + 1)).map (polLine r) ∧ Scalar.le x Real.pi = true := by
      intro x hx
      obtain ⟨i, hi, rfl⟩ := List.mem_map.mp hx
      have hi' : i ≤ nPol r := by have := List.mem_range.mp hi; omega
      have e : (0 : ℝ) + (i : ℝ) * linStep 0 Real.pi (nPol r + 1) true = polLine r i := by
        simp [linStep, linspaceDiv, polLine]
      rw [e]
      exact ⟨List.mem_map.mpr ⟨i, hi, rfl⟩, (le_real _ _).mpr (polLine_le_pi hr hi')⟩
    rw [List.filter_eq_self.mpr (fun x hx => by simpa using (hl x hx).2)]
    apply List.map_congr_left
    intro i _
    simp [linStep, linspaceDiv, polLine]

/-! ### mesh nodes, pole duplicates -/

theorem mem_meshAP {az pol : List ℝ} {a p : ℝ} : (a, p) ∈ meshAP az pol ↔ a ∈ az ∧ p ∈ pol := by
  simp only [meshAP, List.mem_flatMap, List.mem_map, Prod.mk.injEq]
  constructor
  · rintro ⟨p', hp', a', ha', rfl, rfl⟩; exact ⟨ha', hp'⟩
  · rintro ⟨ha, hp⟩; exact ⟨p, hp, a, ha, rfl, rfl⟩

theorem isclose_real (a b : ℝ) : isclose a b = true ↔ |a - b| ≤ 1 / 10 ^ 8 + 1 / 10 ^ 5 * |b| := by
  simp only [isclose, le_real, abs_real, dec_real, Nat.cast_one]

theorem poleDuplicate_real (a p : ℝ) :
    poleDuplicate (a, p) = true ↔ 0 < a ∧ (|p - 0| ≤ 1 / 10 ^ 8 + 1 / 10 ^ 5 * |(0 : ℝ)| ∨
      |p - Real.pi| ≤ 1 / 10 ^ 8 + 1 / 10 ^ 5 * |Real.pi|) := by
  simp only [poleDuplicate, Bool.and_eq_true, Bool.or_eq_true, lt_real, isclose_real, lit_real, Nat.cast_zero, pi_real]

theorem azLine_zero (r : ℝ) : azLine r 0 = 0 := by simp [azLine]
theorem polLine_zero (r : ℝ) : polLine r 0 = 0 := by simp [polLine]

/-- for `r ≥ 0.002°` the polar step exceeds the `np.isclose` windows around 0 and π -/
theorem polStep_gt {r : ℝ} (hr : 1 / 500 ≤ r) :
    1 / 10 ^ 8 + 1 / 10 ^ 5 * Real.pi < Real.pi / (nPol r : ℝ) := by
  have hr0 : 0 < r := by linarith
  have hM : ((nPol r : ℕ) : ℝ) < 90001 := by
    rw [nPol_cast hr0]
    have h1 : (⌈180 / r⌉ : ℝ) < 180 / r + 1 := Int.ceil_lt_add_one _
    have h2 : 180 / r ≤ 90000 := by
      rw [div_le_iff₀ hr0]; linarith
    linarith
  have hMpos : (0 : ℝ) < (nPol r : ℝ) := by exact_mod_cast nPol_pos hr0
  rw [lt_div_iff₀ hMpos]
  have hpi := Real.two_le_pi
  have hc : (0 : ℝ) < 1 / 10 ^ 8 + 1 / 10 ^ 5 * Real.pi := by positivity
  have := mul_lt_mul_of_pos_left hM hc
  linarith

/-- NODE NEAR EVERY DIRECTION: every direction `(θ, φ)` has a grid node `(i, j)` whose direction is within squared
chord `(r·π/180)²/2` -/
theorem uv_node_near {r : ℝ} (hr : 0 < r) {θ φ : ℝ} (hθ0 : 0 ≤ θ) (hθ1 : θ ≤ Real.pi) (hφ0 : 0 ≤ φ)
    (hφ1 : φ ≤ 2 * Real.pi) :
    ∃ i j : ℕ, i ≤ nPol r ∧ j < nAz r ∧
      Vec3.normSq (Vec3.sub (sph θ φ) (sph (polLine r i) (azLine r j))) ≤ (r * Real.pi / 180) ^ 2 / 2 := by
  obtain ⟨i, hi, hdi⟩ := grid_cover (nPol r) (nPol_pos hr) Real.pi Real.pi_pos.le θ hθ0 hθ1
  obtain ⟨j, hj, hdj⟩ := grid_cover (nAz r) (nAz_pos hr) (2 * Real.pi) (by positivity) φ hφ0 hφ1
  have hsa := stepAz_le hr
  have hsp := stepPol_le hr
  have hsa0 : 0 ≤ 2 * Real.pi / (nAz r : ℝ) := by positivity
  have hsp0 : 0 ≤ Real.pi / (nPol r : ℝ) := by positivity
  have hρ : 0 ≤ r * Real.pi / 180 := by positivity
  have hbound : (θ - polLine r i) ^ 2 + (φ - azLine r j) ^ 2 ≤ (r * Real.pi / 180) ^ 2 / 2 := by
    have h1 : (θ - polLine r i) ^ 2 ≤ ((r * Real.pi / 180) / 2) ^ 2 := by
      rw [← sq_abs]; exact pow_le_pow_left₀ (abs_nonneg _) (by unfold polLine; linarith) 2
    have h2 : (φ - azLine r j) ^ 2 ≤ ((r * Real.pi / 180) / 2) ^ 2 := by
      rw [← sq_abs]; exact pow_le_pow_left₀ (abs_nonneg _) (by unfold azLine; linarith) 2
    nlinarith
  have hchord := chord_sq_le θ φ (polLine r i) (azLine r j)
  rcases Nat.lt_or_ge j (nAz r) with hlt | hge
  · exact ⟨i, j, hi, hlt, le_trans hchord hbound⟩
  · -- `j = nAz r`: the azimuth `2π` is the azimuth `0`
    have hjN : j = nAz r := le_antisymm hj hge
    have hN0 : ((nAz r : ℕ) : ℝ) ≠ 0 := by exact_mod_cast (nAz_pos hr).ne'
    have h2pi : azLine r j = azLine r 0 + 2 * Real.pi := by
      have e : ((nAz r : ℕ) : ℝ) * (2 * Real.pi / (nAz r : ℝ)) = 2 * Real.pi := by field_simp
      rw [hjN, azLine_zero, zero_add]; exact e
    refine ⟨i, 0, hi, nAz_pos hr, ?_⟩
    rw [← sph_add_two_pi (polLine r i) (azLine r 0), ← h2pi]
    exact le_trans hchord hbound

/-- POLE DUPLICATES LOSE NOTHING (for `r ≥ 0.002°`): every grid node has a node of the same direction that
`_remove_pole_duplicates` keeps — the nodes it removes are at `θ = 0` or `θ = π` exactly, where every azimuth
gives the same vector, and the node with azimuth 0 stays -/
theorem uv_kept_node {r : ℝ} (hr : 1 / 500 ≤ r) {i j : ℕ} (hi : i ≤ nPol r) (hj : j < nAz r) :
    ∃ j', j' < nAz r ∧ sph (polLine r i) (azLine r j') = sph (polLine r i) (azLine r j)
      ∧ poleDuplicate (azLine r j', polLine r i) = false := by
  have hr0 : 0 < r := by linarith
  by_cases hd : poleDuplicate (azLine r j, polLine r i) = true
  · have hkeep0 : poleDuplicate (azLine r 0, polLine r i) = false := by
      rw [Bool.eq_false_iff, Ne, poleDuplicate_real, azLine_zero]
      intro h; exact lt_irrefl _ h.1
    rw [poleDuplicate_real] at hd
    have hstep := polStep_gt hr
    have hpi := Real.pi_pos
    have hs0 : 0 < Real.pi / (nPol r : ℝ) := by
      have : (0 : ℝ) < (nPol r : ℝ) := by exact_mod_cast nPol_pos hr0
      positivity
    refine ⟨0, nAz_pos hr0, ?_, hkeep0⟩
    rcases hd.2 with h0 | hπ
    · -- close to 0: only the node `i = 0`
      have hi0 : i = 0 := by
        by_contra hne
        have h1 : (1 : ℝ) ≤ (i : ℝ) := by exact_mod_cast Nat.one_le_iff_ne_zero.mpr hne
        have : Real.pi / (nPol r : ℝ) ≤ polLine r i := by
          unfold polLine; nlinarith
        have habs : |polLine r i - 0| = polLine r i := by
          rw [sub_zero, abs_of_nonneg (by linarith)]
        rw [habs, abs_zero, mul_zero, add_zero] at h0
        nlinarith
      subst hi0
      rw [polLine_zero]; exact sph_zero _ _
    · -- close to π: only the node `i = nPol r`
      have hiM : i = nPol r := by
        by_contra hne
        have hlt : i + 1 ≤ nPol r := by omega
        have h1 : (i : ℝ) + 1 ≤ (nPol r : ℝ) := by exact_mod_cast hlt
        have hMs : ((nPol r : ℕ) : ℝ) * (Real.pi / (nPol r : ℝ)) = Real.pi := polLine_last hr0
        have : polLine r i ≤ Real.pi - Real.pi / (nPol r : ℝ) := by
          have h2 : (i : ℝ) * (Real.pi / (nPol r : ℝ)) ≤ ((nPol r : ℝ) - 1) * (Real.pi / (nPol r : ℝ)) :=
            mul_le_mul_of_nonneg_right (by linarith) hs0.le
          unfold polLine
          linarith
        have habs : |polLine r i - Real.pi| = Real.pi - polLine r i := by
          rw [abs_sub_comm, abs_of_nonneg (by linarith)]
        rw [habs, abs_of_pos hpi] at hπ
        linarith
      subst hiM
      rw [polLine_last hr0]; exact sph_pi _ _
  · exact ⟨j, hj, rfl, by simpa using hd⟩

end Orix.SamplingLemmas
