import Mathlib.Tactic.Ring
import Mathlib.Tactic.Linarith
import Mathlib.Data.List.Basic
import Mathlib.Data.List.Nodup
import OrixProofs.Lemmas.NDArrayNat
/-
Index arithmetic of `OrixModel/NDArray.lean`: C-order enumeration (`cart`, `allIdx`) against `ravel`,
what `gatherList` returns, bounds.
-/
namespace Orix.NDArray
variable {α β : Type}

theorem optAll_eq_some {l : List (Option α)} {d : List α} : optAll l = some d ↔ l = d.map some := by
  induction l generalizing d with
  | nil => cases d <;> simp [optAll]
  | cons x r ih =>
    cases x with
    | none => cases d <;> simp [optAll]
    | some x =>
      cases d with
      | nil =>
        simp only [optAll, List.map_nil, reduceCtorEq, iff_false]
        cases optAll r <;> simp
      | cons y d =>
        simp only [optAll, List.map_cons, List.cons.injEq, Option.some.injEq]
        cases h : optAll r with
        | none =>
          simp only [Option.map_none, reduceCtorEq, false_iff, not_and]
          intro _ h2
          have := (ih (d := d)).2 h2
          rw [h] at this; cases this
        | some d' =>
          have := (ih (d := d')).1 h
          subst this
          simp only [Option.map_some, Option.some.injEq, List.cons.injEq]
          constructor
          · rintro ⟨rfl, rfl⟩; exact ⟨rfl, rfl⟩
          · rintro ⟨rfl, h2⟩
            exact ⟨rfl, (List.map_injective_iff.2 (Option.some_injective _)) h2⟩

/-- what a gather returns: the `k`-th element is the source element at multi-index `src[k]` -/
theorem gatherList_data {A B : NDArray α} {ns : List Nat} {src : List (List Nat)}
    (h : gatherList A ns src = some B) : B.shape = ns ∧ B.data.map some = src.map A.get? := by
  unfold gatherList at h
  cases h2 : optAll (src.map A.get?) with
  | none => rw [h2] at h; cases h
  | some d =>
    rw [h2] at h
    simp only [Option.map_some, Option.some.injEq] at h
    subst h
    exact ⟨rfl, (optAll_eq_some.1 h2).symm⟩

theorem gatherList_getElem? {A B : NDArray α} {ns : List Nat} {src : List (List Nat)}
    (h : gatherList A ns src = some B) (k : Nat) (i : List Nat) (hk : src[k]? = some i) :
    B.data[k]? = A.get? i := by
  have h2 := (gatherList_data h).2
  have h3 : (B.data.map some)[k]? = (src.map A.get?)[k]? := by rw [h2]
  simp only [List.getElem?_map, hk, Option.map_some] at h3
  cases h4 : B.data[k]? with
  | none => rw [h4] at h3; cases h3
  | some x => rw [h4] at h3; simpa using h3

theorem gatherList_length {A B : NDArray α} {ns : List Nat} {src : List (List Nat)}
    (h : gatherList A ns src = some B) : B.data.length = src.length := by
  have h2 := congrArg List.length (gatherList_data h).2
  simpa using h2

/-! ### C-order enumeration -/

theorem flatMap_uniform_getElem? {γ δ : Type} (l : List γ) (f : γ → List δ) (m : Nat)
    (hf : ∀ x ∈ l, (f x).length = m) (i r : Nat) (hr : r < m) :
    (l.flatMap f)[i * m + r]? = (l[i]?).bind (fun x => (f x)[r]?) := by
  induction l generalizing i with
  | nil => simp
  | cons x xs ih =>
    have hx : (f x).length = m := hf x (List.mem_cons_self ..)
    rw [List.flatMap_cons]
    cases i with
    | zero =>
      simp only [Nat.zero_mul, Nat.zero_add, List.getElem?_cons_zero, Option.bind_some]
      rw [List.getElem?_append_left (by omega)]
    | succ i =>
      rw [List.getElem?_append_right (by rw [hx]; nlinarith)]
      have : (i + 1) * m + r - (f x).length = i * m + r := by rw [hx]; ring_nf; omega
      rw [this, ih (fun y hy => hf y (List.mem_cons_of_mem _ hy))]
      simp

theorem length_cart (ls : List (List Nat)) : (cart ls).length = prod (ls.map List.length) := by
  induction ls with
  | nil => rfl
  | cons l ls ih =>
    simp only [cart, List.map_cons, prod]
    induction l with
    | nil => simp
    | cons x xs ihx =>
      rw [List.flatMap_cons, List.length_append, ihx, List.length_map, ih, List.length_cons]
      ring

/-- the multi-index picked from per-axis index lists -/
def pick : List (List Nat) → List Nat → List Nat
  | l :: ls, i :: is => (match l[i]? with | some x => [x] | none => []) ++ pick ls is
  | _, _ => []

theorem cart_getElem? (ls : List (List Nat)) (j : List Nat) (hj : validIdx (ls.map List.length) j = true) :
    (cart ls)[ravel (ls.map List.length) j]? = some (pick ls j) := by
  induction ls generalizing j with
  | nil =>
    cases j with
    | nil => rfl
    | cons _ _ => simp [validIdx] at hj
  | cons l ls ih =>
    cases j with
    | nil => simp [validIdx] at hj
    | cons i is =>
      simp only [List.map_cons, validIdx, Bool.and_eq_true, decide_eq_true_eq] at hj
      obtain ⟨hi, his⟩ := hj
      simp only [cart, List.map_cons, ravel]
      have hlt : ravel (ls.map List.length) is < prod (ls.map List.length) ∨ True := Or.inr trivial
      have hr : ravel (ls.map List.length) is < (cart ls).length := by
        have := ih is his
        exact (List.getElem?_eq_some_iff.1 this).1
      rw [← length_cart ls]
      rw [flatMap_uniform_getElem? l _ (cart ls).length (fun x _ => by simp) i _ hr]
      rw [List.getElem?_eq_getElem hi]
      simp only [Option.bind_some, List.getElem?_map, ih is his, Option.map_some, pick,
        List.getElem?_eq_getElem hi, List.singleton_append]

theorem pick_range (s : List Nat) (j : List Nat) (hj : validIdx s j = true) :
    pick (s.map List.range) j = j := by
  induction s generalizing j with
  | nil => cases j <;> simp_all [validIdx, pick]
  | cons n s ih =>
    cases j with
    | nil => simp [validIdx] at hj
    | cons i is =>
      simp only [validIdx, Bool.and_eq_true, decide_eq_true_eq] at hj
      simp only [List.map_cons, pick, ih is hj.2]
      rw [List.getElem?_range hj.1]
      rfl

theorem map_length_range (s : List Nat) : (s.map List.range).map List.length = s := by
  induction s with
  | nil => rfl
  | cons n s ih => simp [ih]

theorem allIdx_getElem? (s j : List Nat) (hj : validIdx s j = true) : (allIdx s)[ravel s j]? = some j := by
  have h := cart_getElem? (s.map List.range) j (by rw [map_length_range]; exact hj)
  rw [map_length_range, pick_range s j hj] at h
  exact h

theorem length_allIdx (s : List Nat) : (allIdx s).length = prod s := by
  unfold allIdx; rw [length_cart, map_length_range]

theorem ravel_lt (s j : List Nat) (hj : validIdx s j = true) : ravel s j < prod s := by
  have := allIdx_getElem? s j hj
  rw [← length_allIdx]
  exact (List.getElem?_eq_some_iff.1 this).1

theorem ofOpt_ok {o : Option β} {b : β} : ofOpt o = .ok b ↔ o = some b := by
  cases o <;> simp [ofOpt]

/-- `transpose` as an index map on multi-indices -/
theorem transposePerm_get? {p : List Nat} {A B : NDArray α} (h : transposePerm p A = .ok B)
    (j : List Nat) (hj : validIdx B.shape j = true) : B.get? j = A.get? (unperm p j) := by
  unfold transposePerm at h
  rw [ofOpt_ok] at h
  have hs := (gatherList_data h).1
  unfold get?
  rw [if_pos hj]
  rw [hs] at hj ⊢
  have hk : ((allIdx (p.filterMap fun a => A.shape[a]?)).map (unperm p))[ravel (p.filterMap fun a => A.shape[a]?) j]?
      = some (unperm p j) := by
    rw [List.getElem?_map, allIdx_getElem? _ _ hj]; rfl
  rw [gatherList_getElem? h _ _ hk]
  rfl

theorem ravel_append (s j : List Nat) (m t : Nat) (hj : validIdx s j = true) :
    ravel (s ++ [m]) (j ++ [t]) = ravel s j * m + t := by
  induction s generalizing j with
  | nil => cases j <;> simp_all [validIdx, ravel, prod]
  | cons n s ih =>
    cases j with
    | nil => simp [validIdx] at hj
    | cons i is =>
      simp only [validIdx, Bool.and_eq_true, decide_eq_true_eq] at hj
      have hp : prod (s ++ [m]) = prod s * m := by
        clear ih hj
        induction s with
        | nil => simp [prod]
        | cons a s ih => simp only [List.cons_append, prod, ih]; ring
      simp only [List.cons_append, ravel, ih is hj.2, hp]
      ring

theorem validIdx_append (s j : List Nat) (m t : Nat) (hj : validIdx s j = true) (ht : t < m) :
    validIdx (s ++ [m]) (j ++ [t]) = true := by
  induction s generalizing j with
  | nil => cases j <;> simp_all [validIdx]
  | cons n s ih =>
    cases j with
    | nil => simp [validIdx] at hj
    | cons i is =>
      simp only [validIdx, Bool.and_eq_true, decide_eq_true_eq] at hj
      simp [validIdx, hj.1, ih is hj.2]

/-- `stack` as an index map: the new last axis numbers the operands -/
theorem stack_get? {As : List (NDArray α)} {B : NDArray α} (h : stack As = .ok B)
    (j : List Nat) (t : Nat) (C : NDArray α) (hC : As[t]? = some C) (hj : validIdx C.shape j = true) :
    B.get? (j ++ [t]) = C.get? j := by
  cases As with
  | nil => simp at hC
  | cons A rest =>
    simp only [stack] at h
    by_cases hall : (rest.all fun B => B.shape == A.shape) = true
    · rw [if_pos hall, ofOpt_ok] at h
      have hshape : ∀ D ∈ A :: rest, D.shape = A.shape := by
        intro D hD
        rcases List.mem_cons.1 hD with rfl | hD
        · rfl
        · simpa using (List.all_eq_true.1 hall) D hD
      have hCs : C.shape = A.shape := hshape C (List.mem_of_getElem? hC)
      have ht : t < (A :: rest).length := (List.getElem?_eq_some_iff.1 hC).1
      cases hd : optAll ((List.range (prod A.shape)).flatMap fun j => (A :: rest).map (fun B => B.data[j]?)) with
      | none => rw [hd] at h; cases h
      | some d =>
        rw [hd] at h
        simp only [Option.map_some, Option.some.injEq] at h
        subst h
        have hd' := optAll_eq_some.1 hd
        rw [hCs] at hj
        unfold get?
        rw [if_pos (validIdx_append _ _ _ _ hj ht), hCs, if_pos hj, ravel_append _ _ _ _ hj]
        have hlt := ravel_lt _ _ hj
        have h3 : (d.map some)[ravel A.shape j * (A :: rest).length + t]? = some (C.data[ravel A.shape j]?) := by
          rw [← hd', flatMap_uniform_getElem? _ _ (A :: rest).length (fun x _ => by simp) _ _ ht]
          rw [List.getElem?_range hlt]
          simp only [Option.bind_some, List.getElem?_map, hC, Option.map_some]
        rw [List.getElem?_map] at h3
        cases h4 : d[ravel A.shape j * (A :: rest).length + t]? with
        | none => rw [h4] at h3; cases h3
        | some x =>
          rw [h4] at h3
          simp only [Option.map_some, Option.some.injEq] at h3
          exact h3
    · rw [if_neg hall] at h; cases h

theorem filterMap_getElem?_range (s : List β) (n : Nat) :
    (List.range n).filterMap (fun a => s[a]?) = s.take n := by
  induction n with
  | zero => simp
  | succ n ih =>
    rw [List.range_succ, List.filterMap_append, ih, List.take_add_one]
    cases h : s[n]? <;> simp [h]

theorem filterMap_getElem?_range_length (s : List β) :
    (List.range s.length).filterMap (fun a => s[a]?) = s := by
  rw [filterMap_getElem?_range, List.take_length]

theorem revShape (s : List Nat) :
    ((List.range s.length).reverse.filterMap fun a => s[a]?) = s.reverse := by
  rw [List.filterMap_reverse, filterMap_getElem?_range_length]

theorem idxOf_range_reverse (n a : Nat) (ha : a < n) : (List.range n).reverse.idxOf a = n - 1 - a := by
  have hnd : (List.range n).reverse.Nodup := List.nodup_reverse.2 List.nodup_range
  have hl : n - 1 - a < (List.range n).reverse.length := by simp; omega
  have hget : (List.range n).reverse[n - 1 - a] = a := by
    rw [List.getElem_reverse]; simp; omega
  have := hnd.idxOf_getElem (n - 1 - a) hl
  rw [hget] at this
  exact this

theorem unperm_reverse (j : List Nat) :
    unperm (List.range j.length).reverse j = j.reverse := by
  unfold unperm
  simp only [List.length_reverse, List.length_range]
  have : ∀ a ∈ List.range j.length,
      j[(List.range j.length).reverse.idxOf a]? = j.reverse[a]? := by
    intro a ha
    have ha' : a < j.length := List.mem_range.1 ha
    rw [idxOf_range_reverse _ _ ha', List.getElem?_reverse ha']
  rw [List.filterMap_congr this]
  have h2 := filterMap_getElem?_range_length j.reverse
  rw [List.length_reverse] at h2
  exact h2

theorem validIdx_length {s j : List Nat} (h : validIdx s j = true) : j.length = s.length := by
  induction s generalizing j with
  | nil => cases j <;> simp_all [validIdx]
  | cons n s ih =>
    cases j with
    | nil => simp [validIdx] at h
    | cons i is =>
      simp only [validIdx, Bool.and_eq_true] at h
      simp [ih h.2]

/-- `flatten` as an index map: position `ravel (reverse shape) j` of the result holds `A[reverse j]`,
i.e. the first axis runs fastest (column-major order) -/
theorem flatten_getElem? {A B : NDArray α} (h : flatten A = .ok B) (j : List Nat)
    (hj : validIdx A.shape.reverse j = true) :
    B.shape = [prod A.shape] ∧ B.data[ravel A.shape.reverse j]? = A.get? j.reverse := by
  unfold flatten at h
  cases hT : transposePerm (List.range A.shape.length).reverse A with
  | error e => rw [hT] at h; cases h
  | ok T =>
    rw [hT] at h
    simp only [bind, Except.bind, Except.ok.injEq] at h
    subst h
    refine ⟨rfl, ?_⟩
    have hTs : T.shape = A.shape.reverse := by
      have := hT
      unfold transposePerm at this
      rw [ofOpt_ok] at this
      rw [(gatherList_data this).1, revShape]
    have hj' : validIdx T.shape j = true := by rw [hTs]; exact hj
    have := transposePerm_get? hT j hj'
    unfold get? at this
    rw [if_pos hj', hTs] at this
    have hl : j.length = A.shape.length := by rw [validIdx_length hj, List.length_reverse]
    rw [← hl, unperm_reverse] at this
    exact this

end Orix.NDArray
