import OrixProofs.Lemmas.CodecVendors
set_option linter.unusedSimpArgs false
set_option linter.unusedVariables false
/-
C15, .ang vendor variants: `readAng` (with the tables generated from the source) inverts the format
descriptions `encodeAng fmt` of EDAX TSL (10 and 14 columns), EMsoft and ASTAR files; and files with an
unexpected number of columns get a warning and generic names.
-/
namespace Orix.Codec.Ang
open Orix.Codec Orix.Gen.Io

def fmtVendor : AngFmt → Vendor
  | .tsl | .tslWide => .tsl
  | .emsoft => .emsoft
  | .astar => .astar

/-- T-gen obligation: for each vendor variant the reader's column table *generated from the source* assigns
to a file with that many columns exactly the documented names, in the documented order -/
theorem columns_table (f : AngFmt) :
    columnsFor angReader (fmtVendor f) (fmtColumns f).length = some (fmtVendor f, fmtColumns f, false) := by
  cases f <;> decide +kernel

theorem fmt_facts (f : AngFmt) :
    (∀ s ∈ specialNames, s ∈ fmtColumns f) ∧
    ((fmtColumns f).filter (fun n => !angReader.dataKeys.contains n) = fmtProps f) ∧
    (∀ k ∈ fmtProps f, k ∈ fmtColumns f ∧ k ∉ specialNames) ∧ (fmtProps f).Nodup ∧ (fmtColumns f).Nodup ∧
    (angReader.notIndexedVendors.contains (fmtVendor f) = fmtCiRule f) ∧
    ((if fmtVendor f = Vendor.astar then angReader.astarUnit else angReader.defaultUnit) = fmtUnit f) := by
  cases f <;> decide +kernel

/-- well-formedness of a map with respect to a vendor variant (`ni`: whether it has not-indexed points) -/
structure VendorWF (f : AngFmt) (x : AngExtras) (m : PMap) (ni : Bool) : Prop where
  props : m.propNames = fmtProps f
  vals : ∀ p ∈ m.pts, (fmtProps f).length = p.vals.length
  unit : m.unit = fmtUnit f
  rad : m.degrees = false
  blocks : List.Forall₂ (BlockOK f) (realPhases m) x.phases
  nonempty : realPhases m ≠ []
  sorted : ((realPhases m).map (·.id)).Pairwise (· < ·)
  phases : m.phases = (if ni then [notIndexedPhase] else []) ++ realPhases m
  ids : ∀ a, a ∈ m.pts.map (·.phaseId) ↔ (a = -1 ∧ ni = true) ∨ a ∈ (realPhases m).map (·.id)
  /-- EDAX TSL: a point is not indexed iff its confidence index is -1 -/
  ci : fmtCiRule f = true →
    ∀ p ∈ m.pts, (p.phaseId = -1 ↔ getCol (fmtProps f) p.vals (S "ci") = some (-100000))

theorem vendor_header_neutral (f : AngFmt) :
    (∀ l ∈ (if f = AngFmt.astar then [HLine.mark .astar, .other, .other, .other]
        else [HLine.other, .other, .other, .other, .other, .other]), neutral l = true) ∧
    (∀ l ∈ [HLine.other, .other, .other, .other, .other, .other, .other], neutral l = true) := by
  constructor
  · intro l hl
    cases f <;> simp at hl <;> rcases hl with rfl | rfl <;> rfl
  · intro l hl
    simp at hl
    subst hl; rfl

theorem toNat_ids (ps : List PhaseInfo) (h : ∀ p ∈ ps, 0 ≤ p.id) :
    (ps.map (·.id.toNat)).map Int.ofNat = ps.map (·.id) := by
  rw [List.map_map]
  exact List.map_congr_left (fun p hp => Int.toNat_of_nonneg (h p hp))

theorem range_pairwise (n : Nat) : ((List.range n).map Int.ofNat).Pairwise (· < ·) := by
  rw [List.pairwise_map]
  exact (List.pairwise_lt_range (n := n)).imp (fun h => Int.ofNat_lt.2 h)

/-- the header of a vendor file yields the phases of the map, possibly numbered 0 … n-1 (ASTAR) -/
theorem headerPhases_vendor (f : AngFmt) (ps : List PhaseInfo) (xs : List PhaseX)
    (h : List.Forall₂ (BlockOK f) ps xs) (hs : (ps.map (·.id)).Pairwise (· < ·))
    (pre post : List HLine) (hpre : ∀ l ∈ pre, neutral l = true) (hpost : ∀ l ∈ post, neutral l = true) :
    ∃ H, headerPhases angReader (pre ++ vendorBlocks f ps xs ++ post) = some H ∧
      H.length = ps.length ∧ rekey (ps.map (·.id)) H = ps ∧ (∀ p ∈ H, p.id ≠ -1) := by
  obtain ⟨a1, a2, a3, a4, a5⟩ := hdr_neutral pre hpre
  obtain ⟨c1, c2, c3, c4, c5⟩ := hdr_neutral post hpost
  obtain ⟨b1, b2, b3, b4, b5⟩ := hdr_vendorBlocks f ps xs h
  have hlen := forall₂_len h
  have hnames : (if (if f = AngFmt.astar then ([] : List Str) else ps.map (·.name)).length
        == (xs.map fun x => joinSp x.mat).length
        && (if f = AngFmt.astar then ([] : List Str) else ps.map (·.name)).all (fun s => !s.isEmpty)
      then (if f = AngFmt.astar then ([] : List Str) else ps.map (·.name))
      else xs.map fun x => joinSp x.mat) = ps.map (·.name) := by
    by_cases hf : f = AngFmt.astar
    · subst hf
      have hn := blocks_names_astar ps xs h
      cases ps with
      | nil => cases xs <;> simp_all
      | cons p ps' =>
        cases xs with
        | nil => simp at hlen
        | cons x xs' => simp [hn]
    · have hall : (ps.map (·.name)).all (fun s => !s.isEmpty) = true := by
        simp only [List.all_map, List.all_eq_true, Function.comp]
        intro p hp
        have := blocks_names_nonempty f hf ps xs h p hp
        cases hn : p.name with
        | nil => exact absurd hn this
        | cons c r => rfl
      simp [hf, hall, hlen]
  have hids : phaseIds (if f = AngFmt.astar then ([] : List Nat) else ps.map (·.id.toNat))
      (xs.map fun x => joinSp x.mat).length
      = (if f = AngFmt.astar then List.range ps.length else ps.map (·.id.toNat)) := by
    by_cases hf : f = AngFmt.astar
    · simp [hf, phaseIds, hlen]
    · simp only [hf, if_false]
      have : (xs.map fun x => joinSp x.mat).length = (ps.map (·.id.toNat)).length := by simp [hlen]
      rw [this, phaseIds_self]
  have hz := zipPhases_vendor (if f = AngFmt.astar then List.range ps.length else ps.map (·.id.toNat)) f ps xs h
    (by by_cases hf : f = AngFmt.astar <;> simp [hf])
  refine ⟨sortById (rekey ((if f = AngFmt.astar then List.range ps.length else ps.map (·.id.toNat)).map Int.ofNat) ps), ?_, ?_, ?_, ?_⟩
  · unfold headerPhases
    simp only [hdrIds_append, hdrNames_append, hdrFormulas_append, hdrSyms_append, hdrLattices_append,
      a1, a2, a3, a4, a5, b1, b2, b3, b4, b5, c1, c2, c3, c4, c5, List.nil_append, List.append_nil]
    rw [hnames, hids, hz]
    rfl
  all_goals
    have hpos : ∀ p ∈ ps, 0 ≤ p.id := blocks_ids_nonneg f ps xs h
    have hsorted : sortById (rekey ((if f = AngFmt.astar then List.range ps.length
          else ps.map (·.id.toNat)).map Int.ofNat) ps)
        = rekey ((if f = AngFmt.astar then List.range ps.length else ps.map (·.id.toNat)).map Int.ofNat) ps := by
      apply sortById_sorted
      rw [rekey_length _ _ (by by_cases hf : f = AngFmt.astar <;> simp [hf])]
      by_cases hf : f = AngFmt.astar
      · simp only [hf, if_true]; exact range_pairwise _
      · simp only [hf, if_false]; rw [toNat_ids ps hpos]; exact hs
    rw [hsorted]
  · exact rekey_len _ _ (by by_cases hf : f = AngFmt.astar <;> simp [hf])
  · rw [rekey_rekey _ _ _ (by by_cases hf : f = AngFmt.astar <;> simp [hf])
      (by by_cases hf : f = AngFmt.astar <;> simp [hf]), rekey_self]
  · intro p hp
    have hids := rekey_length ((if f = AngFmt.astar then List.range ps.length else ps.map (·.id.toNat)).map Int.ofNat)
      ps (by by_cases hf : f = AngFmt.astar <;> simp [hf])
    have hmem : p.id ∈ (if f = AngFmt.astar then List.range ps.length else ps.map (·.id.toNat)).map Int.ofNat := by
      rw [← hids]; exact List.mem_map_of_mem hp
    obtain ⟨i, _, hi⟩ := List.mem_map.1 hmem
    intro hneg
    rw [← hi] at hneg
    have : (0 : Int) ≤ Int.ofNat i := Int.natCast_nonneg i
    omega

/-- the header `encodeAng` writes -/
def vendorHeader (f : AngFmt) (ps : List PhaseInfo) (xs : List PhaseX) : List HLine :=
  (if f = AngFmt.astar then [HLine.mark .astar, .other, .other, .other]
      else [HLine.other, .other, .other, .other, .other, .other])
    ++ vendorBlocks f ps xs ++ [HLine.other, .other, .other, .other, .other, .other, .other]

/-- marks in a vendor header: the ASTAR footprint in the first line of ASTAR files, the EMsoft footprint in
the phase blocks of EMsoft files, nothing else; no `Column names:` line -/
theorem vendorHeader_lines (f : AngFmt) (ps : List PhaseInfo) (xs : List PhaseX) :
    ∀ l ∈ vendorHeader f ps xs, isColNames l = false ∧
      (∀ v, l = .mark v → (v = .emsoft ∧ f = .emsoft) ∨ (v = .astar ∧ f = .astar)) := by
  intro l hl
  unfold vendorHeader at hl
  rcases List.mem_append.1 hl with h1 | h1
  · rcases List.mem_append.1 h1 with h2 | h2
    · cases f <;> simp at h2 <;> rcases h2 with rfl | rfl <;> simp [isColNames]
    · have := vendorBlocks_lines f ps xs l h2
      exact ⟨this.1, fun v hv => Or.inl (this.2 v hv)⟩
  · simp at h1; subst h1; simp [isColNames]

theorem not_mark_mem (f : AngFmt) (ps : List PhaseInfo) (xs : List PhaseX) (v : Vendor)
    (h : ¬ ((v = .emsoft ∧ f = .emsoft) ∨ (v = .astar ∧ f = .astar))) : HLine.mark v ∉ vendorHeader f ps xs :=
  fun hm => h ((vendorHeader_lines f ps xs _ hm).2 v rfl)

/-- vendor detection on a vendor file -/
theorem detect_vendor (f : AngFmt) (ps : List PhaseInfo) (xs : List PhaseX) (hne : ps ≠ [])
    (hl : ps.length = xs.length) :
    detectVendor angReader (vendorHeader f ps xs) = (fmtVendor f, none) := by
  have hcol : ∀ l ∈ vendorHeader f ps xs, isColNames l = false := fun l hl' => (vendorHeader_lines f ps xs l hl').1
  have horix : findMark angReader .orix (vendorHeader f ps xs) = none :=
    findMark_absent angReader .orix _ (not_mark_mem f ps xs .orix (by simp)) (fun _ => hcol)
  cases f
  case tsl =>
    have he : findMark angReader .emsoft (vendorHeader .tsl ps xs) = none :=
      findMark_absent angReader .emsoft _ (not_mark_mem _ ps xs .emsoft (by simp)) (by intro h; cases h)
    have ha : findMark angReader .astar (vendorHeader .tsl ps xs) = none :=
      findMark_absent angReader .astar _ (not_mark_mem _ ps xs .astar (by simp)) (by intro h; cases h)
    simp only [detectVendor, footprint_order, List.foldl, he, ha, horix, fmtVendor]
  case tslWide =>
    have he : findMark angReader .emsoft (vendorHeader .tslWide ps xs) = none :=
      findMark_absent angReader .emsoft _ (not_mark_mem _ ps xs .emsoft (by simp)) (by intro h; cases h)
    have ha : findMark angReader .astar (vendorHeader .tslWide ps xs) = none :=
      findMark_absent angReader .astar _ (not_mark_mem _ ps xs .astar (by simp)) (by intro h; cases h)
    simp only [detectVendor, footprint_order, List.foldl, he, ha, horix, fmtVendor]
  case emsoft =>
    have he : findMark angReader .emsoft (vendorHeader .emsoft ps xs) = some none :=
      findMark_mem angReader .emsoft (by decide) _
        (List.mem_append_left _ (List.mem_append_right _ (vendorBlocks_mark ps xs hne hl)))
    have ha : findMark angReader .astar (vendorHeader .emsoft ps xs) = none :=
      findMark_absent angReader .astar _ (not_mark_mem _ ps xs .astar (by simp)) (by intro h; cases h)
    simp only [detectVendor, footprint_order, List.foldl, he, ha, horix, fmtVendor, Option.join]
    rfl
  case astar =>
    have he : findMark angReader .emsoft (vendorHeader .astar ps xs) = none :=
      findMark_absent angReader .emsoft _ (not_mark_mem _ ps xs .emsoft (by simp)) (by intro h; cases h)
    have ha : findMark angReader .astar (vendorHeader .astar ps xs) = some none :=
      findMark_mem angReader .astar (by decide) _
        (List.mem_append_left _ (List.mem_append_left _ (by simp)))
    simp only [detectVendor, footprint_order, List.foldl, he, ha, horix, fmtVendor, Option.join]
    rfl

theorem getCol_some (names : List Str) (vals : List Int) (k : Str) (hk : k ∈ names)
    (hl : names.length = vals.length) : ∃ c, getCol names vals k = some c := by
  unfold getCol
  induction names generalizing vals with
  | nil => simp at hk
  | cons a r ih =>
    cases vals with
    | nil => simp at hl
    | cons v vs =>
      simp only [List.zip_cons_cons, lookupStr]
      by_cases h : (a == k) = true
      · exact ⟨v, by simp [h]⟩
      · have hk' : k ∈ r := by
          rcases List.mem_cons.1 hk with h' | h'
          · subst h'; simp at h
          · exact h'
        obtain ⟨c, hc⟩ := ih vs hk' (by simpa using hl)
        exact ⟨c, by simp [h, hc]⟩

/-- the point as the file carries it (TSL writes some phase number at not-indexed points) -/
def fixPt (f : AngFmt) (x : AngExtras) (p : Pt) : Pt :=
  if fmtCiRule f && p.phaseId == -1 then { p with phaseId := x.niPhase } else p

theorem encodeAng_eq (f : AngFmt) (x : AngExtras) (m : PMap) :
    encodeAng f x m =
      { header := vendorHeader f (realPhases m) x.phases, ncols := (fmtColumns f).length,
        rows := m.pts.map fun p => (fmtColumns f).map (field m.propNames (fixPt f x p)), widths := [] } := rfl

/-- **C15, .ang vendor variants**: the reader inverts the format description. -/
theorem ang_vendor_main (f : AngFmt) (x : AngExtras) (m : PMap) (ni : Bool) (hwf : VendorWF f x m ni) :
    readAng angReader 100000 (encodeAng f x m) = some (false, m) := by
  obtain ⟨hspec, hfilter, hprops, hpnodup, hnodup, hni, hunit⟩ := fmt_facts f
  have hlen := forall₂_len hwf.blocks
  have hneut := vendor_header_neutral f
  obtain ⟨H, hH, hHlen, hHrekey, hHne⟩ := headerPhases_vendor f (realPhases m) x.phases hwf.blocks hwf.sorted
    _ _ hneut.1 hneut.2
  have hdet := detect_vendor f (realPhases m) x.phases hwf.nonempty hlen
  have hvc : vendorColumns angReader (vendorHeader f (realPhases m) x.phases) (fmtColumns f).length
      = some (fmtVendor f, fmtColumns f, false) := by
    unfold vendorColumns
    rw [hdet]
    cases f <;> exact columns_table _
  -- rows
  have hrows : (m.pts.map fun p => (fmtColumns f).map (field m.propNames (fixPt f x p))).mapM
      (rowToPt (fmtColumns f) (fmtProps f)) = some (m.pts.map (fixPt f x)) := by
    apply mapM_map_eq_some
    intro p hp
    rw [hwf.props]
    have hv : (fmtProps f).length = (fixPt f x p).vals.length := by
      unfold fixPt; split <;> exact hwf.vals p hp
    exact rowToPt_field (fmtColumns f) (fmtProps f) (fixPt f x p) hspec hprops hpnodup hv
  have hall : (m.pts.map fun p => (fmtColumns f).map (field m.propNames (fixPt f x p))).all
      (fun r => r.length == (fmtColumns f).length) = true := by
    simp [List.all_map, List.all_eq_true]
  -- the ci rule
  have hci : (if angReader.notIndexedVendors.contains (fmtVendor f) = true
      then (m.pts.map (fixPt f x)).mapM (applyCi (fmtProps f) angReader.ciName (angReader.ciSentinel * 100000))
      else some (m.pts.map (fixPt f x))) = some m.pts := by
    rw [hni]
    by_cases hr : fmtCiRule f = true
    · simp only [hr, if_true]
      have hmap := mapM_map_eq_some m.pts (fixPt f x)
        (applyCi (fmtProps f) angReader.ciName (angReader.ciSentinel * 100000)) id (fun p hp => by
          have hcimem : S "ci" ∈ fmtProps f := by cases f <;> first | decide | (simp [fmtCiRule] at hr)
          have hvals : (fixPt f x p).vals = p.vals := by unfold fixPt; split <;> rfl
          obtain ⟨c, hc⟩ := getCol_some (fmtProps f) p.vals (S "ci") hcimem (hwf.vals p hp)
          have hiff := hwf.ci hr p hp
          have hname : angReader.ciName = S "ci" := by decide
          have hsent : angReader.ciSentinel * 100000 = -100000 := by decide
          simp only [applyCi, hvals, hname, hsent, hc, id]
          by_cases hpid : p.phaseId = -1
          · have : c = -100000 := by
              have := hiff.1 hpid
              rw [hc] at this
              exact Option.some.inj this
            subst this
            simp only [if_true, fixPt, hr, hpid, Bool.true_and, beq_self_eq_true]
            cases p
            simp_all
          · have : c ≠ -100000 := by
              intro hcc
              exact hpid (hiff.2 (by rw [hc, hcc]))
            simp [this, fixPt, hpid])
      simpa using hmap
    · have hr' : fmtCiRule f = false := by simpa using hr
      simp only [hr', Bool.false_eq_true, if_false]
      congr 1
      conv_rhs => rw [← List.map_id m.pts]
      exact List.map_congr_left (fun p _ => by simp [fixPt, hr'])
  -- phases
  have hpos : ∀ a ∈ (realPhases m).map (·.id), (-1 : Int) < a := by
    intro a ha
    obtain ⟨p, hp, rfl⟩ := List.mem_map.1 ha
    have := blocks_ids_nonneg f _ _ hwf.blocks p hp
    omega
  have hu : uniqSorted (m.pts.map (·.phaseId))
      = (if ni then [(-1 : Int)] else []) ++ (realPhases m).map (·.id) := by
    apply uniqSorted_eq
    · cases ni
      · simpa using hwf.sorted
      · simp only [if_true, List.singleton_append]
        exact List.Pairwise.cons hpos hwf.sorted
    · intro a
      rw [hwf.ids a]
      cases ni <;> simp
  have hrec := reconcile_rekey (m.pts.map (·.phaseId)) H ((realPhases m).map (·.id)) ni hu hpos
    (by simp [hHlen]) hHne
  rw [hHrekey, ← hwf.phases] at hrec
  -- assemble
  have hH' : headerPhases angReader (vendorHeader f (realPhases m) x.phases) = some H := hH
  rw [encodeAng_eq]
  unfold readAng
  simp only [hH', hvc]
  have hcond : (fmtColumns f).length ≤ (fmtColumns f).length ∧ (fmtColumns f).Nodup ∧
      (m.pts.map fun p => (fmtColumns f).map (field m.propNames (fixPt f x p))).all
        (fun r => r.length == (fmtColumns f).length) = true := ⟨le_refl _, hnodup, hall⟩
  simp only [hcond, not_true_eq_false, and_self, if_false, hfilter, hrows, hci, hrec, hunit]
  have hm : m = { propNames := fmtProps f, pts := m.pts, phases := m.phases, unit := fmtUnit f, degrees := false } := by
    cases m
    simp only [PMap.mk.injEq]
    exact ⟨hwf.props, trivial, trivial, hwf.unit, hwf.rad⟩
  rw [← hm]

/-- **Unexpected number of columns**: when the number of columns of a TSL / EMsoft / ASTAR file is none of
the numbers the reader's table lists for the vendor, the file is read with a warning and the generic names
`euler1, euler2, euler3, x, y, unknown1, unknown2, phase_id, unknown3, …` — no property name of the vendor
is assigned (kernel-checked on the generated table for every column count up to 40; and for all `n` beyond the
largest table row by `columnsFor`'s definition). -/
theorem unexpected_columns_small :
    ([Vendor.tsl, Vendor.emsoft, Vendor.astar].all fun v => (List.range 40).all fun n =>
      (match lookupV v angReader.columns with
        | some variants => (variants.map List.length).contains n
        | none => true) ||
      (columnsFor angReader v n == some (Vendor.unknown,
        [S "euler1", S "euler2", S "euler3", S "x", S "y", S "unknown1", S "unknown2", S "phase_id"]
          ++ (List.range (n - 8)).map unknownName, true))) = true := by
  decide +kernel

end Orix.Codec.Ang
