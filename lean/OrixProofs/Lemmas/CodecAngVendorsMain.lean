import OrixProofs.Lemmas.CodecVendors
set_option linter.unusedSimpArgs false
set_option linter.unusedVariables false
/-
C15, .ang vendor variants: `readAng` (with the tables generated from the source) inverts the format
descriptions `encodeAng fmt` of EDAX TSL (10 and 14 columns), EMsoft and ASTAR files; and files with an
unexpected number of columns get a warning and generic names.
-/
namespace Orix.Codec.Ang
open Orix.Codec Orix.Gen.Io

def fmtVendor : AngFmt → Vendor
  | .tsl | .tslWide => .tsl
  | .emsoft => .emsoft
  | .astar => .astar

/-- T-gen obligation: for each vendor variant the reader's column table *generated from the source* assigns
to a file with that many columns exactly the documented names, in the documented order -/
theorem columns_table (f : AngFmt) :
    columnsFor angReader (fmtVendor f) (fmtColumns f).length = some (fmtVendor f, fmtColumns f, false) := by
  cases f <;> decide +kernel

theorem fmt_facts (f : AngFmt) :
    (∀ s ∈ specialNames, s ∈ fmtColumns f) ∧
    ((fmtColumns f).filter (fun n => !angReader.dataKeys.contains n) = fmtProps f) ∧
    (∀ k ∈ fmtProps f, k ∈ fmtColumns f ∧ k ∉ specialNames) ∧ (fmtProps f).Nodup ∧ (fmtColumns f).Nodup ∧
    (angReader.notIndexedVendors.contains (fmtVendor f) = fmtCiRule f) ∧
    ((if fmtVendor f = Vendor.astar then angReader.astarUnit else angReader.defaultUnit) = fmtUnit f) := by
  cases f <;> decide +kernel

/-- well-formedness of a map with respect to a vendor variant (`ni`: whether it has not-indexed points) -/
structure VendorWF (f : AngFmt) (x : AngExtras) (m : PMap) (ni : Bool) : Prop where
  props : m.propNames = fmtProps f
  vals : ∀ p ∈ m.pts, (fmtProps f).length = p.vals.length
  unit : m.unit = fmtUnit f
  rad : m.degrees = false
  blocks : List.Forall₂ (BlockOK f) (realPhases m) x.phases
  nonempty : realPhases m ≠ []
  sorted : ((realPhases m).map (·.id)).Pairwise (· < ·)
  phases : m.phases = (if ni then [notIndexedPhase] else []) ++ realPhases m
  ids : ∀ a, a ∈ m.pts.map (·.phaseId) ↔ (a = -1 ∧ ni = true) ∨ a ∈ (realPhases m).map (·.id)
  /-- EDAX TSL: a point is not indexed iff its confidence index is -1 -/
  ci : fmtCiRule f = true →
    ∀ p ∈ m.pts, (p.phaseId = -1 ↔ getCol (fmtProps f) p.vals (S "ci") = some (-100000))

theorem vendor_header_neutral (f : AngFmt) :
    (∀ l ∈ (if f = AngFmt.astar then [HLine.mark .astar, .other, .other, .other]
        else [HLine.other, .other, .other, .other, .other, .other]), neutral l = true) ∧
    (∀ l ∈ [HLine.other, .other, .other, .other, .other, .other, .other], neutral l = true) := by
  constructor
  · intro l hl
    cases f <;> simp at hl <;> rcases hl with rfl | rfl <;> rfl
  · intro l hl
    simp at hl
    subst hl; rfl

theorem toNat_ids (ps : List PhaseInfo) (h : ∀ p ∈ ps, 0 ≤ p.id) :
    (ps.map (·.id.toNat)).map Int.ofNat = ps.map (·.id) := by
  rw [List.map_map]
  exact List.map_congr_left (fun p hp => Int.toNat_of_nonneg (h p hp))

theorem range_pairwise (n : Nat) : ((List.range n).map Int.ofNat).Pairwise (· < ·) := by
  rw [List.pairwise_map]
  exact (List.pairwise_lt_range (n := n)).imp (fun h => Int.ofNat_lt.2 h)

/-- the header of a vendor file yields the phases of the map, possibly numbered 0 … n-1 (ASTAR) -/
theorem headerPhases_vendor (f : AngFmt) (ps : List PhaseInfo) (xs : List PhaseX)
    (h : List.Forall₂ (BlockOK f) ps xs) (hs : (ps.map (·.id)).Pairwise (· < ·))
    (pre post : List HLine) (hpre : ∀ l ∈ pre, neutral l = true) (hpost : ∀ l ∈ post, neutral l = true) :
    ∃ H, headerPhases angReader (pre ++ vendorBlocks f ps xs ++ post) = some H ∧
      H.length = ps.length ∧ rekey (ps.map (·.id)) H = ps := by
  obtain ⟨a1, a2, a3, a4, a5⟩ := hdr_neutral pre hpre
  obtain ⟨c1, c2, c3, c4, c5⟩ := hdr_neutral post hpost
  obtain ⟨b1, b2, b3, b4, b5⟩ := hdr_vendorBlocks f ps xs h
  have hlen := forall₂_len h
  have hnames : (if (if f = AngFmt.astar then ([] : List Str) else ps.map (·.name)).length
        == (xs.map fun x => joinSp x.mat).length
        && (if f = AngFmt.astar then ([] : List Str) else ps.map (·.name)).all (fun s => !s.isEmpty)
      then (if f = AngFmt.astar then ([] : List Str) else ps.map (·.name))
      else xs.map fun x => joinSp x.mat) = ps.map (·.name) := by
    by_cases hf : f = AngFmt.astar
    · subst hf
      have hn := blocks_names_astar ps xs h
      cases ps with
      | nil => cases xs <;> simp_all
      | cons p ps' =>
        cases xs with
        | nil => simp at hlen
        | cons x xs' => simp [hn]
    · have hall : (ps.map (·.name)).all (fun s => !s.isEmpty) = true := by
        simp only [List.all_map, List.all_eq_true, Function.comp]
        intro p hp
        have := blocks_names_nonempty f hf ps xs h p hp
        cases hn : p.name with
        | nil => exact absurd hn this
        | cons c r => rfl
      simp [hf, hall, hlen]
  have hids : phaseIds (if f = AngFmt.astar then ([] : List Nat) else ps.map (·.id.toNat))
      (xs.map fun x => joinSp x.mat).length
      = (if f = AngFmt.astar then List.range ps.length else ps.map (·.id.toNat)) := by
    by_cases hf : f = AngFmt.astar
    · simp [hf, phaseIds, hlen]
    · simp only [hf, if_false]
      have : (xs.map fun x => joinSp x.mat).length = (ps.map (·.id.toNat)).length := by simp [hlen]
      rw [this, phaseIds_self]
  have hz := zipPhases_vendor (if f = AngFmt.astar then List.range ps.length else ps.map (·.id.toNat)) f ps xs h
    (by by_cases hf : f = AngFmt.astar <;> simp [hf])
  refine ⟨sortById (rekey ((if f = AngFmt.astar then List.range ps.length else ps.map (·.id.toNat)).map Int.ofNat) ps), ?_, ?_, ?_⟩
  · unfold headerPhases
    simp only [hdrIds_append, hdrNames_append, hdrFormulas_append, hdrSyms_append, hdrLattices_append,
      a1, a2, a3, a4, a5, b1, b2, b3, b4, b5, c1, c2, c3, c4, c5, List.nil_append, List.append_nil]
    rw [hnames, hids, hz]
    rfl
  all_goals
    have hpos : ∀ p ∈ ps, 0 ≤ p.id := blocks_ids_nonneg f ps xs h
    have hsorted : sortById (rekey ((if f = AngFmt.astar then List.range ps.length
          else ps.map (·.id.toNat)).map Int.ofNat) ps)
        = rekey ((if f = AngFmt.astar then List.range ps.length else ps.map (·.id.toNat)).map Int.ofNat) ps := by
      apply sortById_sorted
      rw [rekey_length _ _ (by by_cases hf : f = AngFmt.astar <;> simp [hf])]
      by_cases hf : f = AngFmt.astar
      · simp only [hf, if_true]; exact range_pairwise _
      · simp only [hf, if_false]; rw [toNat_ids ps hpos]; exact hs
    rw [hsorted]
  · exact rekey_len _ _ (by by_cases hf : f = AngFmt.astar <;> simp [hf])
  · rw [rekey_rekey _ _ _ (by by_cases hf : f = AngFmt.astar <;> simp [hf])
      (by by_cases hf : f = AngFmt.astar <;> simp [hf]), rekey_self]

/-- vendor detection on a vendor file -/
theorem detect_vendor (f : AngFmt) (ps : List PhaseInfo) (xs : List PhaseX) (hne : ps ≠ [])
    (hl : ps.length = xs.length) :
    detectVendor angReader
      ((if f = AngFmt.astar then [HLine.mark .astar, .other, .other, .other]
          else [HLine.other, .other, .other, .other, .other, .other])
        ++ vendorBlocks f ps xs ++ [HLine.other, .other, .other, .other, .other, .other, .other])
      = (fmtVendor f, none) := by
  have hb := vendorBlocks_lines f ps xs
  have hcol : ∀ l ∈ ((if f = AngFmt.astar then [HLine.mark .astar, .other, .other, .other]
          else [HLine.other, .other, .other, .other, .other, .other])
        ++ vendorBlocks f ps xs ++ [HLine.other, .other, .other, .other, .other, .other, .other]),
      isColNames l = false := by
    intro l hl'
    rcases List.mem_append.1 hl' with h1 | h1
    · rcases List.mem_append.1 h1 with h2 | h2
      · cases f <;> simp at h2 <;> rcases h2 with rfl | rfl <;> rfl
      · exact (hb l h2).1
    · simp at h1; subst h1; rfl
  have horix := findMark_absent angReader .orix _ (by
      intro hm
      rcases List.mem_append.1 hm with h1 | h1
      · rcases List.mem_append.1 h1 with h2 | h2
        · cases f <;> exact absurd h2 (by decide)
        · have := (hb _ h2).2 .orix rfl
          exact absurd this.1 (by decide)
      · exact absurd h1 (by decide)) (fun _ => hcol)
  cases f
  case tsl | tslWide =>
    all_goals
      have he := findMark_absent angReader .emsoft _ (by
        intro hm
        rcases List.mem_append.1 hm with h1 | h1
        · rcases List.mem_append.1 h1 with h2 | h2
          · exact absurd h2 (by decide)
          · have := (hb _ h2).2 .emsoft rfl
            exact absurd this.2 (by decide)
        · exact absurd h1 (by decide)) (by intro h; cases h)
      have ha := findMark_absent angReader .astar _ (by
        intro hm
        rcases List.mem_append.1 hm with h1 | h1
        · rcases List.mem_append.1 h1 with h2 | h2
          · exact absurd h2 (by decide)
          · have := (hb _ h2).2 .astar rfl
            exact absurd this.1 (by decide)
        · exact absurd h1 (by decide)) (by intro h; cases h)
      simp only [detectVendor, footprint_order, List.foldl, he, ha, horix, fmtVendor]
  case emsoft =>
    have he := findMark_mem angReader .emsoft (by decide) _
      (List.mem_append_left _ (List.mem_append_right _ (vendorBlocks_mark ps xs hne hl)))
    have ha := findMark_absent angReader .astar _ (by
      intro hm
      rcases List.mem_append.1 hm with h1 | h1
      · rcases List.mem_append.1 h1 with h2 | h2
        · exact absurd h2 (by decide)
        · have := (hb _ h2).2 .astar rfl
          exact absurd this.1 (by decide)
      · exact absurd h1 (by decide)) (by intro h; cases h)
    simp only [detectVendor, footprint_order, List.foldl, he, ha, horix, fmtVendor, Option.join]
  case astar =>
    have he := findMark_absent angReader .emsoft _ (by
      intro hm
      rcases List.mem_append.1 hm with h1 | h1
      · rcases List.mem_append.1 h1 with h2 | h2
        · exact absurd h2 (by decide)
        · have := (hb _ h2).2 .emsoft rfl
          exact absurd this.2 (by decide)
      · exact absurd h1 (by decide)) (by intro h; cases h)
    have ha := findMark_mem angReader .astar (by decide) _
      (List.mem_append_left _ (List.mem_append_left _ (by simp)))
    simp only [detectVendor, footprint_order, List.foldl, he, ha, horix, fmtVendor, Option.join]

end Orix.Codec.Ang
