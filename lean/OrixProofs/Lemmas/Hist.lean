import Mathlib.Tactic.Ring
import Mathlib.Tactic.FieldSimp
import Mathlib.Tactic.LinearCombination
import Mathlib.Tactic.Positivity
import Mathlib.Tactic.NormNum
import Mathlib.Tactic.Linarith
import OrixProofs.Lemmas.RealScalar
import OrixModel.Hist
/-
Helper lemmas for the histogram part of C20: list sums, bin indices, accumulation, masked means.
-/
namespace Orix.HistLemmas
open Orix Scalar Hist

theorem sumL_nil : sumL ([] : List ℝ) = 0 := by simp [sumL]
theorem sumL_cons (a : ℝ) (l : List ℝ) : sumL (a :: l) = a + sumL l := by simp [sumL]

theorem sumL_replicate_zero (n : Nat) : sumL (List.replicate n (Scalar.lit 0 : ℝ)) = 0 := by
  induction n with
  | zero => simp [sumL]
  | succ n ih => rw [List.replicate_succ, sumL_cons, ih]; simp

theorem length_addAt (i : Nat) (w : ℝ) (l : List ℝ) : (addAt i w l).length = l.length := by
  induction l generalizing i with
  | nil => simp [addAt]
  | cons b bs ih => cases i <;> simp [addAt, ih]

theorem sumL_addAt (i : Nat) (w : ℝ) (l : List ℝ) (h : i < l.length) : sumL (addAt i w l) = sumL l + w := by
  induction l generalizing i with
  | nil => simp at h
  | cons b bs ih =>
    cases i with
    | zero => simp only [addAt, sumL_cons]; ring
    | succ i =>
      simp only [addAt, sumL_cons]
      rw [ih i (by simpa using h)]; ring

theorem addAt_nonneg (i : Nat) (w : ℝ) (l : List ℝ) (hw : 0 ≤ w) (hl : ∀ x ∈ l, 0 ≤ x) :
    ∀ x ∈ addAt i w l, 0 ≤ x := by
  induction l generalizing i with
  | nil => simp [addAt]
  | cons b bs ih =>
    cases i with
    | zero =>
      intro x hx
      simp only [addAt, List.mem_cons] at hx
      rcases hx with rfl | hx
      · have := hl b (by simp); linarith
      · exact hl x (by simp [hx])
    | succ i =>
      intro x hx
      simp only [addAt, List.mem_cons] at hx
      rcases hx with rfl | hx
      · exact hl _ (by simp)
      · exact ih i (fun y hy => hl y (by simp [hy])) x hx

/-- the accumulation loop: length kept, sum = initial sum + weight of the binned samples -/
theorem foldl_accumulate {β : Type} (idx : β → Option Nat) (wt : β → ℝ) (pts : List β) (acc : List ℝ)
    (hidx : ∀ p ∈ pts, ∀ i, idx p = some i → i < acc.length) :
    (pts.foldl (accStep idx wt) acc).length = acc.length
      ∧ sumL (pts.foldl (accStep idx wt) acc) = sumL acc + inRangeWeight idx wt pts := by
  induction pts generalizing acc with
  | nil => simp [inRangeWeight]
  | cons p ps ih =>
    simp only [List.foldl_cons, accStep]
    cases hp : idx p with
    | none =>
      have := ih acc (fun q hq i hi => hidx q (by simp [hq]) i hi)
      simp only [inRangeWeight, List.foldr_cons, hp] at this ⊢
      exact this
    | some i =>
      have hi : i < acc.length := hidx p (by simp) i hp
      have := ih (addAt i (wt p) acc) (fun q hq j hj => by
        rw [length_addAt]; exact hidx q (by simp [hq]) j hj)
      rw [length_addAt, sumL_addAt i (wt p) acc hi] at this
      simp only [inRangeWeight, List.foldr_cons, hp] at this ⊢
      refine ⟨this.1, ?_⟩
      rw [this.2]; ring

theorem foldl_accumulate_nonneg {β : Type} (idx : β → Option Nat) (wt : β → ℝ) (pts : List β) (acc : List ℝ)
    (hw : ∀ p ∈ pts, 0 ≤ wt p) (hacc : ∀ x ∈ acc, 0 ≤ x) :
    ∀ x ∈ (pts.foldl (accStep idx wt) acc), 0 ≤ x := by
  induction pts generalizing acc with
  | nil => simpa using hacc
  | cons p ps ih =>
    simp only [List.foldl_cons, accStep]
    cases hp : idx p with
    | none => exact ih acc (fun q hq => hw q (by simp [hq])) hacc
    | some i =>
      exact ih _ (fun q hq => hw q (by simp [hq])) (addAt_nonneg i (wt p) acc (hw p (by simp)) hacc)

/-! ### bin indices -/

theorem binFrom_lt (t : List ℝ) (x : ℝ) (i : Nat) (h : binFrom t x = some i) : i < t.length := by
  induction t generalizing i with
  | nil => simp [binFrom] at h
  | cons hi t ih =>
    cases t with
    | nil =>
      simp only [binFrom] at h
      split at h <;> simp_all
    | cons h2 rest =>
      simp only [binFrom] at h
      split at h
      · simp only [Option.some.injEq] at h; subst h; simp
      · cases hb : binFrom (h2 :: rest) x with
        | none => simp [hb] at h
        | some j =>
          simp only [hb, Option.map_some, Option.some.injEq] at h
          have := ih j hb
          simp only [List.length_cons] at this ⊢
          omega

theorem binIndex_lt (e : List ℝ) (x : ℝ) (i : Nat) (h : binIndex e x = some i) : i < e.length - 1 := by
  cases e with
  | nil => simp [binIndex] at h
  | cons lo t =>
    simp only [binIndex] at h
    split at h
    · cases h
    · have := binFrom_lt t x i h
      simpa using this

theorem bin2_lt (ea ep : List ℝ) (az pol : ℝ) (k : Nat) (h : bin2 ea ep az pol = some k) :
    k < (ea.length - 1) * (ep.length - 1) := by
  simp only [bin2] at h
  cases hi : binIndex ea az with
  | none => simp [hi] at h
  | some i =>
    cases hj : binIndex ep pol with
    | none => simp [hi, hj] at h
    | some j =>
      simp only [hi, hj, Option.some.injEq] at h
      have h1 := binIndex_lt ea az i hi
      have h2 := binIndex_lt ep pol j hj
      subst h
      calc i * (ep.length - 1) + j < i * (ep.length - 1) + (ep.length - 1) := by omega
        _ = (i + 1) * (ep.length - 1) := by ring
        _ ≤ (ea.length - 1) * (ep.length - 1) := Nat.mul_le_mul_right _ (by omega)


/-- for sorted edges a value has a bin exactly when it lies between the first and the last edge -/
theorem binFrom_isSome (t : List ℝ) (x : ℝ) (ht : t ≠ []) (hs : t.Pairwise (· ≤ ·)) :
    (binFrom t x).isSome = true ↔ x ≤ t.getLast ht := by
  induction t with
  | nil => exact absurd rfl ht
  | cons hi t ih =>
    cases t with
    | nil =>
      simp only [binFrom, List.getLast_singleton]
      split
      · rename_i h; rw [le_real] at h; simp [h]
      · rename_i h; rw [le_real] at h; simp [h]
    | cons h2 rest =>
      have hs' : (h2 :: rest).Pairwise (· ≤ ·) := (List.pairwise_cons.mp hs).2
      have hlast : hi ≤ (h2 :: rest).getLast (by simp) :=
        (List.pairwise_cons.mp hs).1 _ (List.getLast_mem _)
      have ih' := ih (by simp) hs'
      simp only [binFrom, List.getLast_cons_cons]
      split
      · rename_i h
        rw [lt_real] at h
        simp only [Option.isSome_some, true_iff]
        linarith
      · rw [Option.isSome_map]
        exact ih'

theorem binIndex_isSome_iff (lo : ℝ) (t : List ℝ) (x : ℝ) (ht : t ≠ []) (hs : (lo :: t).Pairwise (· ≤ ·)) :
    (binIndex (lo :: t) x).isSome = true ↔ lo ≤ x ∧ x ≤ t.getLast ht := by
  simp only [binIndex]
  split
  · rename_i h; rw [lt_real] at h
    simp only [Option.isSome_none, Bool.false_eq_true, false_iff, not_and]
    intro h'; linarith
  · rename_i h; rw [lt_real, not_lt] at h
    rw [binFrom_isSome t x ht (List.pairwise_cons.mp hs).2]
    exact ⟨fun h' => ⟨h, h'⟩, fun h' => h'.2⟩

/-! ### masked mean -/

theorem validCount_map (f : ℝ → ℝ) (h : List ℝ) (mask : List Bool) :
    validCount (h.map f) mask = validCount h mask := by
  induction h generalizing mask with
  | nil => simp [validCount]
  | cons a as ih =>
    cases mask with
    | nil => simp [validCount]
    | cons m ms => cases m <;> simp [validCount, ih]

theorem validSum_div (h : List ℝ) (mask : List Bool) (c : ℝ) :
    validSum (h.map (· / c)) mask = validSum h mask / c := by
  induction h generalizing mask with
  | nil => simp [validSum]
  | cons a as ih =>
    cases mask with
    | nil => simp [validSum]
    | cons m ms =>
      cases m
      · simp only [List.map_cons, validSum, ih, Bool.false_eq_true, if_false]; ring
      · simp only [List.map_cons, validSum, ih, if_true]

theorem validSum_nonneg (h : List ℝ) (mask : List Bool) (hh : ∀ x ∈ h, 0 ≤ x) : 0 ≤ validSum h mask := by
  induction h generalizing mask with
  | nil => simp [validSum]
  | cons a as ih =>
    cases mask with
    | nil => simp [validSum]
    | cons m ms =>
      have ha := hh a (by simp)
      have := ih ms (fun x hx => hh x (by simp [hx]))
      cases m
      · simp only [validSum, Bool.false_eq_true, if_false]; linarith
      · simpa only [validSum, if_true] using this

end Orix.HistLemmas
