import Mathlib.Tactic.Ring
import Mathlib.Tactic.NormNum
import Mathlib.Tactic.Linarith
import Mathlib.Analysis.SpecialFunctions.Trigonometric.Inverse
import OrixProofs.Lemmas.RealScalar
import OrixProofs.Lemmas.Lattice
import OrixProofs.Lemmas.ColorKeyPolar
import OrixProofs.Lemmas.MillerRound
import OrixProofs.Lemmas.Orbit
import OrixModel.MillerRound
/-
C10, `angle_with(use_symmetry=True)` over ℝ: `np.min` of a list (specification; depends only on the set of values),
and the set of rounded angles to the images of `other` under a group list.
-/
namespace Orix.MillerRound
open Orix Scalar LatLemmas ColorKey Orix.Grp Orix.Orb

/-! ### `np.min` -/

theorem foldl_min2_spec : ∀ (xs : List ℝ) (x : ℝ),
    xs.foldl min2 x ∈ x :: xs ∧ ∀ y ∈ x :: xs, xs.foldl min2 x ≤ y
  | [], x => by simp
  | a :: xs, x => by
    obtain ⟨hm, hle⟩ := foldl_min2_spec xs (min2 x a)
    simp only [List.foldl_cons]
    rw [min2_real] at hm hle ⊢
    constructor
    · rcases List.mem_cons.mp hm with h | h
      · rw [h]
        rcases min_choice x a with h' | h'
        · rw [h']; simp
        · rw [h']; simp
      · exact List.mem_cons_of_mem _ (List.mem_cons_of_mem _ h)
    · intro y hy
      have h0 := hle (min x a) (by simp)
      rcases List.mem_cons.mp hy with rfl | hy
      · exact le_trans h0 (min_le_left _ _)
      · rcases List.mem_cons.mp hy with rfl | hy
        · exact le_trans h0 (min_le_right _ _)
        · exact hle y (List.mem_cons_of_mem _ hy)

/-- `np.min`: an element of the list that is ≤ every element -/
theorem minList_eq_some_iff {l : List ℝ} {a : ℝ} : minList l = some a ↔ a ∈ l ∧ ∀ y ∈ l, a ≤ y := by
  cases l with
  | nil => simp [minList]
  | cons x xs =>
    obtain ⟨hm, hle⟩ := foldl_min2_spec xs x
    simp only [minList, Option.some.injEq]
    constructor
    · rintro rfl; exact ⟨hm, hle⟩
    · rintro ⟨ha, hal⟩
      exact le_antisymm (hle a ha) (hal _ hm)

theorem minList_isSome {l : List ℝ} (h : l ≠ []) : ∃ a, minList l = some a := by
  cases l with
  | nil => exact absurd rfl h
  | cons x xs => exact ⟨_, rfl⟩

/-- the minimum depends only on the set of values -/
theorem minList_congr {l₁ l₂ : List ℝ} (h : ∀ a, a ∈ l₁ ↔ a ∈ l₂) : minList l₁ = minList l₂ := by
  cases l₁ with
  | nil =>
    cases l₂ with
    | nil => rfl
    | cons y ys => exact absurd ((h y).mpr (by simp)) (by simp)
  | cons x xs =>
    obtain ⟨a, ha⟩ := minList_isSome (l := x :: xs) (by simp)
    rw [ha]
    symm
    rw [minList_eq_some_iff] at ha ⊢
    exact ⟨(h a).mp ha.1, fun y hy => ha.2 y ((h y).mpr hy)⟩

/-! ### the angles to the images -/

variable {X : Type}

theorem angleOver_congr (dot : X → X → ℝ) (self : X) {o₁ o₂ : List X}
    (h : ∀ a, a ∈ o₁.map (angleTo dot self) ↔ a ∈ o₂.map (angleTo dot self)) :
    angleOver dot self o₁ = angleOver dot self o₂ := minList_congr h

/-- the minimum over a list of vectors depends only on the set of vectors -/
theorem angleOver_congr_mem (dot : X → X → ℝ) (self : X) {o₁ o₂ : List X} (h : ∀ x, x ∈ o₁ ↔ x ∈ o₂) :
    angleOver dot self o₁ = angleOver dot self o₂ := by
  apply angleOver_congr
  intro a
  simp only [List.mem_map]
  constructor
  · rintro ⟨x, hx, rfl⟩; exact ⟨x, (h x).mp hx, rfl⟩
  · rintro ⟨x, hx, rfl⟩; exact ⟨x, (h x).mpr hx, rfl⟩

theorem angleWithSym_eq_some_iff (act : M3 → X → X) (dot : X → X → ℝ) (L : List M3) (self other : X) (a : ℝ) :
    angleWithSym act dot L self other = some a ↔
      (∃ g ∈ L, a = angleTo dot self (act g other)) ∧ ∀ g ∈ L, a ≤ angleTo dot self (act g other) := by
  simp only [angleWithSym, angleOver, minList_eq_some_iff, images, List.map_map, List.mem_map, Function.comp]
  constructor
  · rintro ⟨⟨g, hg, rfl⟩, h⟩
    exact ⟨⟨g, hg, rfl⟩, fun k hk => h _ ⟨k, hk, rfl⟩⟩
  · rintro ⟨⟨g, hg, rfl⟩, h⟩
    exact ⟨⟨g, hg, rfl⟩, by rintro y ⟨k, hk, rfl⟩; exact h k hk⟩

/-! ### the rounding of the cosine -/

theorem angleTo_real (dot : X → X → ℝ) (x y : X) :
    angleTo dot x y = Real.arccos (roundDec 12 (dot x y / (Real.sqrt (dot x x) * Real.sqrt (dot y y)))) := by
  simp only [angleTo, acos_real, sqrt_real]

/-- the rounded angle brackets the exact one: `arccos(c + 5e-13) ≤ angle ≤ arccos(c - 5e-13)` -/
theorem angleTo_bracket (dot : X → X → ℝ) (x y : X) :
    Real.arccos (dot x y / (Real.sqrt (dot x x) * Real.sqrt (dot y y)) + 1 / 2 / 10 ^ 12) ≤ angleTo dot x y ∧
    angleTo dot x y ≤ Real.arccos (dot x y / (Real.sqrt (dot x x) * Real.sqrt (dot y y)) - 1 / 2 / 10 ^ 12) := by
  rw [angleTo_real]
  have h := abs_le.mp (roundDec_close 12 (dot x y / (Real.sqrt (dot x x) * Real.sqrt (dot y y))))
  exact ⟨Real.arccos_le_arccos (by linarith [h.2]), Real.arccos_le_arccos (by linarith [h.1])⟩

/-! ### the action on real lattice coordinates the driver uses -/

@[simp] theorem ofInt_real (i : ℤ) : (MillerRound.ofInt i : ℝ) = (i : ℝ) := by
  cases i with
  | ofNat n => simp [MillerRound.ofInt]
  | negSucc n => simp [MillerRound.ofInt, Int.cast_negSucc]

theorem actS_mul (a b : M3) (v : Vec3 ℝ) : actS (a.mul b) v = actS a (actS b v) := by
  simp only [actS, M3.mul, ofInt_real]
  congr 1 <;> (push_cast; ring)

theorem actS_one (v : Vec3 ℝ) : actS M3.one v = v := by
  cases v; simp [actS, M3.one]

end Orix.MillerRound
