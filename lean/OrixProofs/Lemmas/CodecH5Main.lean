import OrixProofs.Lemmas.CodecH5
set_option linter.unusedSimpArgs false
set_option linter.unusedVariables false
/-
C13 assembly: well-formedness predicate and `read (write m) = m` for the orix-HDF5 model.
-/
namespace Orix.Codec.H5
open Orix.Codec

/-- printable-ASCII-like: every code point in 1 … 127 (UTF-8 = latin-1 there, no NUL to be stripped) -/
def asciiStr (s : Str) : Prop := ∀ c ∈ s, 0 < c ∧ c < 128
/-- the first axis does not have length 1 (the generic reader would unwrap it) -/
def arrOK (a : Arr) : Prop := a.shape.head? ≠ some 1

instance (s : Str) : Decidable (asciiStr s) := by unfold asciiStr; infer_instance
instance (a : Arr) : Decidable (arrOK a) := by unfold arrOK; infer_instance

structure AtomWF (a : AtomRec) : Prop where
  el : asciiStr a.element
  label : asciiStr a.label
  xyz : arrOK a.xyz
  u : arrOK a.u

structure PhaseWF (T : PhaseTables) (p : PhaseRec) : Prop where
  name : asciiStr p.name
  color : asciiStr p.color
  abc : arrOK p.abcABG
  baserot : arrOK p.baserot
  atoms : ∀ a ∈ p.atoms, AtomWF a
  /-- the point-group name is ASCII, is not the marker "None" … -/
  pgName : ∀ g, p.pg = some g → asciiStr g ∧ g ≠ noneStr
  /-- … and the `Phase` constructor reproduces the pair: with a space group the point group is the one derived
  from it, without one the name resolves to itself through the alias table -/
  sym : mkPhase T p.sg (if p.sg.isSome then none else p.pg) = some (p.sg, p.pg)

/-- Explicit decidable well-formedness for the C13 round trip. Every conjunct is exercised against the
implementation at a point it excludes (harness strata `known/…`). -/
structure H5WF (T : PhaseTables) (ni : PhaseRec) (m : MapRec) : Prop where
  unit : asciiStr m.scanUnit
  y : ∀ a, m.y = some a → arrOK a
  x : ∀ a, m.x = some a → arrOK a
  /-- more than one point: a length-1 array comes back as a scalar -/
  inData : arrOK m.inData
  phaseId : arrOK m.phaseId
  /-- Euler arrays have no axis of length 1 (`dstack(...).squeeze()`) -/
  phi1 : squeezeShape m.phi1.shape = m.phi1.shape
  phi : squeezeShape m.phi.shape = m.phi.shape
  phi2 : squeezeShape m.phi2.shape = m.phi2.shape
  props_arr : ∀ p ∈ m.props, arrOK p.arr
  /-- a property called like a dataset of the format overwrites it -/
  props_names : ∀ p ∈ m.props, Key.s p.name ∉ reservedData
  props_nodup : (m.props.map (·.name)).Nodup
  phases : ∀ p ∈ m.phases, PhaseWF T p
  phases_sorted : (m.phases.map (·.id)).Pairwise (· < ·)
  /-- the constructor keeps the phase list: its ids are the ids occurring in `phase_id`, the phase -1 is the
  one `add_not_indexed` creates -/
  phases_consistent : reconcileRec ni m.phaseId.vals m.phases = some m.phases

theorem arrOK_of_squeeze (sh : List Nat) (h : squeezeShape sh = sh) : sh.head? ≠ some 1 := by
  cases sh with
  | nil => simp
  | cons d r =>
    intro hd
    simp only [List.head?_cons, Option.some.injEq] at hd
    subst hd
    have : (squeezeShape (1 :: r)).length ≤ r.length := by
      simp only [squeezeShape, List.filter_cons, bne_self_eq_false, Bool.false_eq_true, if_false]
      exact List.length_filter_le _ _
    rw [h] at this
    simp at this

/-! ### lookups in a sorted dict -/

theorem lookupK_mem {α} (k : Key) (v : α) (l : List (Key × α)) (hn : (l.map (·.1)).Nodup) (h : (k, v) ∈ l) :
    lookupK k l = some v := by
  induction l with
  | nil => simp at h
  | cons e r ih =>
    obtain ⟨k', v'⟩ := e
    simp only [List.map_cons, List.nodup_cons] at hn
    rcases List.mem_cons.1 h with h | h
    · cases h; simp [lookupK]
    · have hne : ¬ k' = k := by
        intro heq
        exact hn.1 (List.mem_map.2 ⟨(k, v), h, heq.symm⟩)
      simp [lookupK, hne, ih hn.2 h]

theorem lookupK_sortK_mem {α} (k : Key) (v : α) (l : List (Key × α)) (hn : (l.map (·.1)).Nodup)
    (h : (k, v) ∈ l) : lookupK k (sortK l) = some v := by
  rw [lookupK_sortK k l hn]; exact lookupK_mem k v l hn h

/-! ### numbered children: up to ten of them are stored in numeric order -/

/-- decimal strings of 0 … 9 are ordered like the numbers (kernel-checked) -/
theorem keyLe_small : ∀ j < 10, ∀ i ≤ j, Key.le (.n (i : Nat)) (.n (j : Nat)) = true := by decide +kernel

/-- … but "10" sorts before "2" -/
theorem keyLe_ten_two : Key.le (.n 10) (.n 2) = true ∧ Key.le (.n 2) (.n 10) = false := by decide +kernel

theorem enumFrom_mem {α} (k : Nat) (l : List α) (ia : Nat × α) (h : ia ∈ enumFrom k l) :
    k ≤ ia.1 ∧ ia.1 < k + l.length := by
  induction l generalizing k with
  | nil => simp [enumFrom] at h
  | cons a r ih =>
    simp only [enumFrom, List.mem_cons] at h
    rcases h with rfl | h
    · simp
    · have := ih (k + 1) h
      simp only [List.length_cons]
      omega

theorem numbered_pairwise {α} (f : α → PyTree) (k : Nat) (l : List α) (h : k + l.length ≤ 10) :
    ((enumFrom k l).map fun ia => (Key.n ia.1, f ia.2)).Pairwise
      (fun a b : Key × PyTree => Key.le a.1 b.1 = true) := by
  induction l generalizing k with
  | nil => simp [enumFrom]
  | cons a r ih =>
    simp only [enumFrom, List.map_cons]
    refine List.Pairwise.cons ?_ (ih (k + 1) (by simp only [List.length_cons] at h; omega))
    intro b hb
    obtain ⟨ia, hia, rfl⟩ := List.mem_map.1 hb
    have := enumFrom_mem (k + 1) r ia hia
    simp only [List.length_cons] at h
    exact keyLe_small ia.1 (by omega) k (by omega)

theorem numbered_sorted {α} (f : α → PyTree) (l : List α) (h : l.length ≤ 10) :
    sortK ((enumFrom 0 l).map fun ia => (Key.n ia.1, f ia.2))
      = (enumFrom 0 l).map fun ia => (Key.n ia.1, f ia.2) := by
  rw [sortK_eq]
  exact List.Pairwise.insertionSort_eq (numbered_pairwise f 0 l (by omega))

theorem enumFrom_snd {α} (k : Nat) (l : List α) : (enumFrom k l).map (·.2) = l := by
  induction l generalizing k with
  | nil => rfl
  | cons a r ih => simp [enumFrom, ih]

theorem arr_roundtrip (a : Arr) (h : arrOK a) : readDS (.num a.dt a.shape a.vals) = .arr a := arr_stable a h

/-! ### atoms and phases -/

theorem atom_round (a : AtomRec) (h : AtomWF a) : dict2atom (roundTree (atom2dict a)) = some a := by
  have hn : ([kS "element", kS "label", kS "occupancy", kS "xyz", kS "U"]).Nodup := by decide
  obtain ⟨el, label, odt, o, xyz, u⟩ := a
  simp only [atom2dict, roundTree, roundItems, dict2atom, getDict]
  rw [lookupK_sortK_mem (kS "element") (.leaf (normVal (.str el))) _ (by simpa using hn) (by simp),
    lookupK_sortK_mem (kS "label") (.leaf (normVal (.str label))) _ (by simpa using hn) (by simp),
    lookupK_sortK_mem (kS "occupancy") (.leaf (normVal (.scalar odt o))) _ (by simpa using hn) (by simp),
    lookupK_sortK_mem (kS "xyz") (.leaf (normVal (.arr xyz))) _ (by simpa using hn) (by simp),
    lookupK_sortK_mem (kS "U") (.leaf (normVal (.arr u))) _ (by simpa using hn) (by simp)]
  rw [str_stable _ h.el, str_stable _ h.label, arr_stable _ h.xyz, arr_stable _ h.u]
  rfl

/-! ### atoms are restored in numeric order -/

theorem insertByInt_eq (e : Int × PyTree) (l : List (Int × PyTree)) :
    insertByInt e l = List.orderedInsert (fun a b : Int × PyTree => a.1 ≤ b.1) e l := by
  induction l with
  | nil => rfl
  | cons f r ih => simp [insertByInt, List.orderedInsert, ih]

theorem sortByInt_eq (l : List (Int × PyTree)) :
    sortByInt l = List.insertionSort (fun a b : Int × PyTree => a.1 ≤ b.1) l := by
  induction l with
  | nil => rfl
  | cons e r ih =>
    have : sortByInt (e :: r) = insertByInt e (sortByInt r) := rfl
    rw [this, ih, insertByInt_eq]; rfl

instance : Std.Total (fun a b : Int × PyTree => a.1 ≤ b.1) := ⟨fun a b => le_total a.1 b.1⟩
instance : IsTrans (Int × PyTree) (fun a b : Int × PyTree => a.1 ≤ b.1) := ⟨fun _ _ _ h1 h2 => le_trans h1 h2⟩

theorem eq_of_perm_of_map_eq' {α β} (f : α → β) (l : List α) :
    ∀ (S : List α), S.Perm l → S.map f = l.map f → (l.map f).Nodup → S = l := by
  induction l with
  | nil => intro S hp _ _; exact hp.eq_nil
  | cons a r ih =>
    intro S hp hm hn
    cases S with
    | nil => exact absurd hp.symm.eq_nil (by simp)
    | cons s S' =>
      simp only [List.map_cons, List.cons.injEq] at hm
      have hs : s ∈ a :: r := hp.subset (by simp)
      have hsa : s = a := by
        rcases List.mem_cons.1 hs with h | h
        · exact h
        · exfalso
          have : f a ∈ r.map f := hm.1 ▸ List.mem_map_of_mem h
          exact (List.nodup_cons.1 hn).1 this
      subst hsa
      rw [ih S' (List.Perm.cons_inv hp) hm.2 (List.nodup_cons.1 hn).2]

/-- sorting by the integer key any permutation of a list with strictly increasing keys gives the list -/
theorem sortByInt_perm (L R : List (Int × PyTree)) (hp : R.Perm L) (hs : (L.map (·.1)).Pairwise (· < ·)) :
    sortByInt R = L := by
  rw [sortByInt_eq]
  have h1 : (List.insertionSort (fun a b : Int × PyTree => a.1 ≤ b.1) R).Perm L :=
    (List.perm_insertionSort _ R).trans hp
  have h3 : ((List.insertionSort (fun a b : Int × PyTree => a.1 ≤ b.1) R).map (·.1)).Pairwise (· ≤ ·) :=
    List.pairwise_map.2 (List.pairwise_insertionSort _ R)
  have h4 : (L.map (·.1)).Pairwise (· ≤ ·) := hs.imp (fun h => le_of_lt h)
  have h5 := List.Perm.eq_of_pairwise' h3 h4 (h1.map _)
  have hn : (L.map (·.1)).Nodup := hs.imp (fun h => ne_of_lt h)
  exact eq_of_perm_of_map_eq' (fun e : Int × PyTree => e.1) L _ h1 h5 hn

theorem enumFrom_keys_pairwise {α β} (f : Nat × α → β) (k : Nat) (l : List α) :
    (((enumFrom k l).map fun ia => ((ia.1 : Int), f ia)).map (·.1)).Pairwise (· < ·) := by
  induction l generalizing k with
  | nil => simp [enumFrom]
  | cons a r ih =>
    simp only [enumFrom, List.map_cons]
    refine List.Pairwise.cons ?_ (ih (k + 1))
    intro b hb
    simp only [List.map_map, List.mem_map, Function.comp] at hb
    obtain ⟨ia, hia, rfl⟩ := hb
    have := enumFrom_mem (k + 1) r ia hia
    omega

theorem atoms_round (atoms : List AtomRec) (h : ∀ a ∈ atoms, AtomWF a) :
    atomsInOrder (sortK (roundItems ((enumFrom 0 atoms).map fun (ia : Nat × AtomRec) => (Key.n ia.1, atom2dict ia.2))))
      = some atoms := by
  rw [roundItems_map (enumFrom 0 atoms) (fun ia => Key.n ia.1) (fun ia => atom2dict ia.2)]
  let N : List (Key × PyTree) := (enumFrom 0 atoms).map fun ia => (Key.n ia.1, roundTree (atom2dict ia.2))
  let g : Key × PyTree → Int × PyTree := fun kv => match kv.1 with
    | .n i => (i, kv.2)
    | .s _ => (0, kv.2)
  let L : List (Int × PyTree) := (enumFrom 0 atoms).map fun ia => ((ia.1 : Int), roundTree (atom2dict ia.2))
  have hperm : (sortK N).Perm N := sortK_perm N
  have hG : (sortK N).mapM (fun kv => (keyInt kv.1).map fun i => (i, kv.2)) = some ((sortK N).map g) := by
    apply mapM_eq_some_map
    intro kv hkv
    obtain ⟨ia, _, rfl⟩ := List.mem_map.1 (hperm.subset hkv)
    rfl
  have hL : ((sortK N).map g).Perm L := by
    refine (hperm.map g).trans ?_
    have : N.map g = L := by
      simp only [N, L, List.map_map]
      exact List.map_congr_left (fun ia _ => rfl)
    rw [this]
  have hsort := sortByInt_perm L _ hL (enumFrom_keys_pairwise (fun ia => roundTree (atom2dict ia.2)) 0 atoms)
  show atomsInOrder (sortK N) = some atoms
  unfold atomsInOrder
  rw [hG]
  simp only [hsort]
  have := mapM_map_eq_some (enumFrom 0 atoms)
    (fun ia : Nat × AtomRec => ((ia.1 : Int), roundTree (atom2dict ia.2)))
    (fun e : Int × PyTree => dict2atom e.2) (fun ia => ia.2)
    (fun ia hia => by
      have hm : ia.2 ∈ atoms := by
        have := List.mem_map_of_mem (f := (·.2)) hia
        rwa [enumFrom_snd] at this
      exact atom_round ia.2 (h ia.2 hm))
  rw [this, enumFrom_snd]

theorem noneStr_ascii : asciiStr noneStr := by decide

theorem encodeSg_stable (intDt : Nat) (sg : Option Nat) : normVal (encodeSg intDt sg) = encodeSg intDt sg := by
  cases sg with
  | none => exact str_stable _ noneStr_ascii
  | some n => rfl
theorem decode_encodeSg (intDt : Nat) (sg : Option Nat) : decodeSg (encodeSg intDt sg) = some sg := by
  cases sg with
  | none => simp [encodeSg, decodeSg]
  | some n => simp [encodeSg, decodeSg]
theorem decode_encodePg (pg : Option Str) (h : ∀ g, pg = some g → g ≠ noneStr) : decodePg (encodePg pg) = pg := by
  cases pg with
  | none => simp [encodePg, decodePg]
  | some g => simp [encodePg, decodePg, h g rfl]
theorem encodePg_ascii (pg : Option Str) (h : ∀ g, pg = some g → asciiStr g) : asciiStr (encodePg pg) := by
  cases pg with
  | none => exact noneStr_ascii
  | some g => exact h g rfl

theorem phase_round (T : PhaseTables) (intDt : Nat) (p : PhaseRec) (h : PhaseWF T p) :
    dict2phase T p.id (roundTree (phase2dict intDt p)) = some p := by
  have hn5 : ([kS "name", kS "space_group", kS "point_group", kS "color", kS "structure"]).Nodup := by decide
  have hn2 : ([kS "lattice", kS "atoms"]).Nodup := by decide
  have hn2' : ([kS "abcABG", kS "baserot"]).Nodup := by decide
  obtain ⟨id, name, sg, pg, color, abc, br, atoms⟩ := p
  have hat := atoms_round atoms h.atoms
  have hsym : mkPhase T sg (if sg.isSome then none else pg) = some (sg, pg) := h.sym
  have hpgs : normVal (.str (encodePg pg)) = .str (encodePg pg) :=
    str_stable _ (encodePg_ascii pg (fun g hg => (h.pgName g hg).1))
  have hdp : decodePg (encodePg pg) = pg := decode_encodePg pg (fun g hg => (h.pgName g hg).2)
  simp only [phase2dict, structure2dict, roundTree, roundItems, dict2phase, getDict]
  rw [lookupK_sortK_mem (kS "name") (.leaf (normVal (.str name))) _ (by simpa using hn5) (by simp),
    lookupK_sortK_mem (kS "space_group") (.leaf (normVal (encodeSg intDt sg))) _ (by simpa using hn5) (by simp),
    lookupK_sortK_mem (kS "point_group") (.leaf (normVal (.str (encodePg pg)))) _ (by simpa using hn5) (by simp),
    lookupK_sortK_mem (kS "color") (.leaf (normVal (.str color))) _ (by simpa using hn5) (by simp),
    lookupK_sortK_mem (kS "structure")
      (.dict (sortK [(kS "lattice", .dict (sortK [(kS "abcABG", .leaf (normVal (.arr abc))),
                                                   (kS "baserot", .leaf (normVal (.arr br)))])),
                     (kS "atoms", .dict (sortK (roundItems
                        ((enumFrom 0 atoms).map fun x => (Key.n x.1, atom2dict x.2)))))]))
      _ (by simpa using hn5) (by simp)]
  rw [str_stable _ h.name, str_stable _ h.color, hpgs, encodeSg_stable]
  simp only [Option.bind_some, getDict, decode_encodeSg, hdp]
  rw [lookupK_sortK_mem (kS "lattice")
      (.dict (sortK [(kS "abcABG", .leaf (normVal (.arr abc))), (kS "baserot", .leaf (normVal (.arr br)))]))
      _ (by simpa using hn2) (by simp),
    lookupK_sortK_mem (kS "atoms")
      (.dict (sortK (roundItems ((enumFrom 0 atoms).map fun x => (Key.n x.1, atom2dict x.2)))))
      _ (by simpa using hn2) (by simp)]
  simp only [Option.bind_some, getDict]
  rw [lookupK_sortK_mem (kS "abcABG") (.leaf (normVal (.arr abc))) _ (by simpa using hn2') (by simp),
    lookupK_sortK_mem (kS "baserot") (.leaf (normVal (.arr br))) _ (by simpa using hn2') (by simp)]
  rw [arr_stable _ h.abc, arr_stable _ h.baserot, hat]
  simp [hsym, getArr]

/-! ### the phase list -/

theorem dict2phases_eq_mapM (T : PhaseTables) (l : List (Key × PyTree)) :
    dict2phases T l = l.mapM fun kv => match kv.1 with
      | .n i => dict2phase T i kv.2
      | .s _ => none := by
  induction l with
  | nil => rfl
  | cons e r ih =>
    obtain ⟨k, d⟩ := e
    cases k with
    | s name => simp [dict2phases]
    | n i =>
      simp only [dict2phases, ih, List.mapM_cons]
      cases dict2phase T i d <;> simp
      rename_i p
      cases List.mapM (fun kv : Key × PyTree => match kv.1 with
        | .n i => dict2phase T i kv.2
        | .s _ => none) r <;> simp

theorem insertRecById_eq (p : PhaseRec) (l : List PhaseRec) :
    insertRecById p l = List.orderedInsert (fun a b : PhaseRec => a.id ≤ b.id) p l := by
  induction l with
  | nil => rfl
  | cons q r ih => simp [insertRecById, List.orderedInsert, ih]

theorem sortRecById_eq (l : List PhaseRec) :
    sortRecById l = List.insertionSort (fun a b : PhaseRec => a.id ≤ b.id) l := by
  induction l with
  | nil => rfl
  | cons p r ih =>
    have : sortRecById (p :: r) = insertRecById p (sortRecById r) := rfl
    rw [this, ih, insertRecById_eq]; rfl

instance : Std.Total (fun a b : PhaseRec => a.id ≤ b.id) := ⟨fun a b => le_total a.id b.id⟩
instance : IsTrans PhaseRec (fun a b : PhaseRec => a.id ≤ b.id) := ⟨fun _ _ _ h1 h2 => le_trans h1 h2⟩

theorem eq_of_perm_of_map_eq {α β} (f : α → β) (l : List α) :
    ∀ (S : List α), S.Perm l → S.map f = l.map f → (l.map f).Nodup → S = l := by
  induction l with
  | nil => intro S hp _ _; exact hp.eq_nil
  | cons a r ih =>
    intro S hp hm hn
    cases S with
    | nil => exact absurd hp.symm.eq_nil (by simp)
    | cons s S' =>
      simp only [List.map_cons, List.cons.injEq] at hm
      have hs : s ∈ a :: r := hp.subset (by simp)
      have hsa : s = a := by
        rcases List.mem_cons.1 hs with h | h
        · exact h
        · exfalso
          have : f a ∈ r.map f := hm.1 ▸ List.mem_map_of_mem h
          exact (List.nodup_cons.1 hn).1 this
      subst hsa
      rw [ih S' (List.Perm.cons_inv hp) hm.2 (List.nodup_cons.1 hn).2]

/-- sorting any permutation of a phase list with strictly increasing ids gives the list -/
theorem sortRecById_perm (l R : List PhaseRec) (hp : R.Perm l) (hs : (l.map (·.id)).Pairwise (· < ·)) :
    sortRecById R = l := by
  rw [sortRecById_eq]
  have h1 : (List.insertionSort (fun a b : PhaseRec => a.id ≤ b.id) R).Perm l :=
    (List.perm_insertionSort _ R).trans hp
  have h2 : (List.insertionSort (fun a b : PhaseRec => a.id ≤ b.id) R).Pairwise (fun a b => a.id ≤ b.id) :=
    List.pairwise_insertionSort _ R
  have h3 : ((List.insertionSort (fun a b : PhaseRec => a.id ≤ b.id) R).map (·.id)).Pairwise (· ≤ ·) :=
    List.pairwise_map.2 h2
  have h4 : (l.map (·.id)).Pairwise (· ≤ ·) := hs.imp (fun h => le_of_lt h)
  have h5 := List.Perm.eq_of_pairwise' h3 h4 (h1.map _)
  have hn : (l.map (·.id)).Nodup := hs.imp (fun h => ne_of_lt h)
  exact eq_of_perm_of_map_eq (·.id) l _ h1 h5 hn

theorem phases_round (T : PhaseTables) (intDt : Nat) (phases : List PhaseRec)
    (hwf : ∀ p ∈ phases, PhaseWF T p) (hs : (phases.map (·.id)).Pairwise (· < ·)) :
    (dict2phases T (sortK (roundItems (phaseItems intDt phases)))).map sortRecById
      = some phases := by
  unfold phaseItems
  rw [roundItems_map phases (fun p => Key.n p.id) (fun p => phase2dict intDt p), dict2phases_eq_mapM]
  let G : PhaseRec → Key × PyTree := fun p => (Key.n p.id, roundTree (phase2dict intDt p))
  let F : Key × PyTree → Option PhaseRec := fun kv => match kv.1 with
    | .n i => dict2phase T i kv.2
    | .s _ => none
  have hFG : ∀ p ∈ phases, F (G p) = some p := fun p hp => phase_round T intDt p (hwf p hp)
  have hperm : (sortK (phases.map G)).Perm (phases.map G) := sortK_perm _
  have hall : ∀ x ∈ sortK (phases.map G), F x = some ((F x).getD default) := by
    intro x hx
    obtain ⟨p, hp, rfl⟩ := List.mem_map.1 (hperm.subset hx)
    rw [hFG p hp]; rfl
  have hm := mapM_eq_some_map F (fun x => (F x).getD default) _ hall
  show (List.mapM F (sortK (phases.map G))).map sortRecById = some phases
  rw [hm]
  simp only [Option.map_some, Option.some.injEq]
  apply sortRecById_perm _ _ _ hs
  refine (hperm.map _).trans ?_
  rw [List.map_map]
  have : phases.map ((fun x => (F x).getD default) ∘ G) = phases.map id :=
    List.map_congr_left (fun p hp => by simp [Function.comp, hFG p hp])
  rw [this, List.map_id]

/-! ### the whole map -/

theorem clean_atom2dict (a : AtomRec) : clean (atom2dict a) = true := by
  simp [atom2dict, clean, cleanItems]

theorem clean_phase2dict (intDt : Nat) (p : PhaseRec) : clean (phase2dict intDt p) = true := by
  have h1 : cleanItems ((enumFrom 0 p.atoms).map fun (ia : Nat × AtomRec) => (Key.n ia.1, atom2dict ia.2)) = true :=
    cleanItems_map _ _ _ (fun ia _ => clean_atom2dict ia.2)
  cases hsg : p.sg <;>
    simp [phase2dict, structure2dict, clean, cleanItems, encodeSg, hsg, h1]

theorem reserved_keys (e : Derived) (m : MapRec) : (reservedItems e m).map (·.1) = reservedData := rfl

theorem data_items (T : PhaseTables) (ni : PhaseRec) (e : Derived) (m : MapRec) (hwf : H5WF T ni m) :
    dictUpdate (reservedItems e m) (propItems m) = reservedItems e m ++ propItems m := by
  apply dictUpdate_fresh
  · intro x hx f hf heq
    obtain ⟨p, hp, rfl⟩ := List.mem_map.1 hx
    have : f.1 ∈ reservedData := by rw [← reserved_keys e m]; exact List.mem_map_of_mem hf
    exact hwf.props_names p hp (by rw [heq] at this; exact this)
  · have : (propItems m).map (·.1) = (m.props.map (·.name)).map Key.s := by
      simp [propItems, List.map_map, Function.comp]
    rw [this]
    exact hwf.props_nodup.map (fun a b h => by cases h; rfl)

theorem optArr_stable (intDt : Nat) (o : Option Arr) (h : ∀ a, o = some a → arrOK a) :
    roundTree (optArr intDt o) = optArr intDt o ∧ getArr (optArr intDt o) = o := by
  cases o with
  | none => simp [optArr, roundTree, normVal, getArr]
  | some a => simp [optArr, roundTree, arr_stable a (h a rfl), getArr]

theorem propItems_round (T : PhaseTables) (ni : PhaseRec) (m : MapRec) (hwf : H5WF T ni m) :
    roundItems (propItems m) = propItems m := by
  unfold propItems
  rw [roundItems_map m.props (fun p => Key.s p.name) (fun p => PyTree.leaf (.arr p.arr))]
  exact List.map_congr_left (fun p hp => by simp [roundTree, arr_stable p.arr (hwf.props_arr p hp)])

/-- the reader's view of a property dataset -/
def toProp (kv : Key × PyTree) : PropRec :=
  match kv with
  | (Key.s name, .leaf (.arr a)) => ⟨name, a⟩
  | _ => default

/-- **C13 main theorem** (model): for every well-formed record the writer succeeds and the reader returns
the record, with the properties as a permutation of the same (name, array) pairs. -/
theorem read_write_main (T : PhaseTables) (ni : PhaseRec) (e : Derived) (m : MapRec) (hwf : H5WF T ni m)
    (hid : arrOK e.idArr) :
    ∃ t ps, write e m = some t ∧ ps.Perm m.props ∧ read T ni t = some { m with props := ps } := by
  -- the tree is writable
  have hclean : clean (crystalmap2dict e m) = true := by
    have h1 : cleanItems (reservedItems e m ++ propItems m) = true := by
      rw [cleanItems_append]
      have : cleanItems (propItems m) = true := cleanItems_map _ _ _ (fun _ _ => rfl)
      cases hy : m.y <;> cases hx : m.x <;> simp [reservedItems, cleanItems, clean, optArr, hy, hx, this]
    have h2 : cleanItems (phaseItems e.intDt m.phases) = true :=
      cleanItems_map _ _ _ (fun p _ => clean_phase2dict e.intDt p)
    simp [crystalmap2dict, clean, cleanItems, data_items T ni e m hwf, h1, headerItems, h2]
  obtain ⟨h, hw, hr⟩ := codec_tree _ hclean
  -- data group
  have hkeys : ((reservedItems e m ++ propItems m).map (·.1)).Nodup := by
    rw [List.map_append, reserved_keys]
    refine List.nodup_append.2 ⟨by decide, ?_, ?_⟩
    · have : (propItems m).map (·.1) = (m.props.map (·.name)).map Key.s := by
        simp [propItems, List.map_map, Function.comp]
      rw [this]
      exact hwf.props_nodup.map (fun a b h => by cases h; rfl)
    · intro a ha b hb hab
      subst hab
      obtain ⟨x, hx, rfl⟩ := List.mem_map.1 hb
      obtain ⟨p, hp, rfl⟩ := List.mem_map.1 hx
      exact hwf.props_names p hp ha
  have hy := optArr_stable e.intDt m.y hwf.y
  have hx := optArr_stable e.intDt m.x hwf.x
  have hround : roundItems (reservedItems e m ++ propItems m) = reservedItems e m ++ propItems m := by
    rw [roundItems_append, propItems_round T ni m hwf]
    congr 1
    simp [reservedItems, roundItems, hy.1, hx.1, roundTree,
      arr_stable _ (arrOK_of_squeeze _ hwf.phi1), arr_stable _ (arrOK_of_squeeze _ hwf.phi),
      arr_stable _ (arrOK_of_squeeze _ hwf.phi2), arr_stable _ hwf.phaseId, arr_stable _ hwf.inData, normVal]
    exact ⟨arr_roundtrip _ (arrOK_of_squeeze _ hwf.phi1), arr_roundtrip _ (arrOK_of_squeeze _ hwf.phi),
      arr_roundtrip _ (arrOK_of_squeeze _ hwf.phi2), arr_roundtrip _ hwf.phaseId, arr_roundtrip _ hid,
      arr_roundtrip _ hwf.inData⟩
  -- lookups in the data group
  have hD : ∀ k v, (k, v) ∈ reservedItems e m →
      lookupK k (sortK (reservedItems e m ++ propItems m)) = some v :=
    fun k v hm => lookupK_sortK_mem k v _ hkeys (List.mem_append_left _ hm)
  have hrest : ((sortK (reservedItems e m ++ propItems m)).filter
      fun kv => !reservedData.contains kv.1).Perm (propItems m) := by
    refine ((sortK_perm (reservedItems e m ++ propItems m)).filter _).trans ?_
    rw [List.filter_append]
    have h1 : (reservedItems e m).filter (fun kv => !reservedData.contains kv.1) = [] := by
      rw [List.filter_eq_nil_iff]
      intro kv hkv
      have : kv.1 ∈ reservedData := by rw [← reserved_keys e m]; exact List.mem_map_of_mem hkv
      simp [this]
    have h2 : (propItems m).filter (fun kv => !reservedData.contains kv.1) = propItems m := by
      rw [List.filter_eq_self]
      intro kv hkv
      obtain ⟨p, hp, rfl⟩ := List.mem_map.1 hkv
      simp [hwf.props_names p hp]
    rw [h1, h2]; simp
  have hprops : ((sortK (reservedItems e m ++ propItems m)).filter
        fun kv => !reservedData.contains kv.1).mapM propOf
      = some (((sortK (reservedItems e m ++ propItems m)).filter
        fun kv => !reservedData.contains kv.1).map toProp) := by
    apply mapM_eq_some_map
    intro kv hkv
    obtain ⟨p, hp, rfl⟩ := List.mem_map.1 (hrest.subset hkv)
    rfl
  have hps : (((sortK (reservedItems e m ++ propItems m)).filter
        fun kv => !reservedData.contains kv.1).map toProp).Perm m.props := by
    refine (hrest.map toProp).trans ?_
    have : (propItems m).map toProp = m.props := by
      unfold propItems
      rw [List.map_map]
      conv_rhs => rw [← List.map_id m.props]
      exact List.map_congr_left (fun p _ => rfl)
    rw [this]
  -- header group
  have hHkeys : ((roundItems (headerItems e m)).map (·.1)).Nodup := by
    simp only [headerItems, roundItems, List.map_cons, List.map_nil]
    decide
  have hunit : lookupK (kS "scan_unit") (sortK (roundItems (headerItems e m))) = some (.leaf (.str m.scanUnit)) := by
    apply lookupK_sortK_mem _ _ _ hHkeys
    simp [headerItems, roundItems, roundTree, str_stable _ hwf.unit]
  have hphd : lookupK (kS "phases") (sortK (roundItems (headerItems e m)))
      = some (.dict (sortK (roundItems (phaseItems e.intDt m.phases)))) := by
    apply lookupK_sortK_mem _ _ _ hHkeys
    simp [headerItems, roundItems, roundTree]
  have hpl := phases_round T e.intDt m.phases hwf.phases hwf.phases_sorted
  refine ⟨storeTree h, _, by simp [write, hw], hps, ?_⟩
  have htop : roundTree (crystalmap2dict e m)
      = .dict (sortK [(kS "data", .dict (sortK (reservedItems e m ++ propItems m))),
                      (kS "header", .dict (sortK (roundItems (headerItems e m))))]) := by
    simp only [crystalmap2dict, roundTree, roundItems, data_items T ni e m hwf, hround]
  have hk2 : ([(kS "data", PyTree.dict (sortK (reservedItems e m ++ propItems m))),
               (kS "header", PyTree.dict (sortK (roundItems (headerItems e m))))].map (·.1)).Nodup := by
    simp only [List.map_cons, List.map_nil]; decide
  cases hpl0 : dict2phases T (sortK (roundItems (phaseItems e.intDt m.phases))) with
  | none => simp [hpl0] at hpl
  | some pl0 =>
    simp only [hpl0, Option.map_some, Option.some.injEq] at hpl
    simp only [read, hr, htop, dict2crystalmap, getDict, Option.bind_some]
    rw [lookupK_sortK_mem (kS "data") (.dict (sortK (reservedItems e m ++ propItems m))) _ hk2 (by simp),
      lookupK_sortK_mem (kS "header") (.dict (sortK (roundItems (headerItems e m)))) _ hk2 (by simp)]
    simp only [Option.bind_some, getDict]
    rw [hD (kS "phi1") (.leaf (.arr m.phi1)) (by simp [reservedItems]),
      hD (kS "Phi") (.leaf (.arr m.phi)) (by simp [reservedItems]),
      hD (kS "phi2") (.leaf (.arr m.phi2)) (by simp [reservedItems]),
      hD (kS "phase_id") (.leaf (.arr m.phaseId)) (by simp [reservedItems]),
      hD (kS "is_in_data") (.leaf (.arr m.inData)) (by simp [reservedItems]),
      hD (kS "y") (optArr e.intDt m.y) (by simp [reservedItems]),
      hD (kS "x") (optArr e.intDt m.x) (by simp [reservedItems]),
      hD (kS "id") (.leaf (.arr e.idArr)) (by simp [reservedItems]), hunit, hphd]
    simp only [Option.bind_some, getDict, getArr, getStr, hpl0, hwf.phi1, hwf.phi, hwf.phi2]
    rw [hprops]
    simp only [hpl, hwf.phases_consistent]
    have hy2 : getArr (optArr e.intDt m.y) = m.y := hy.2
    have hx2 : getArr (optArr e.intDt m.x) = m.x := hx.2
    unfold getArr at hy2 hx2
    simp only [hy2, hx2]

end Orix.Codec.H5
