import OrixProofs.Lemmas.CodecH5
set_option linter.unusedSimpArgs false
set_option linter.unusedVariables false
/-
C13 assembly: well-formedness predicate and `read (write m) = m` for the orix-HDF5 model.
-/
namespace Orix.Codec.H5
open Orix.Codec

/-- printable-ASCII-like: every code point in 1 … 127 (UTF-8 = latin-1 there, no NUL to be stripped) -/
def asciiStr (s : Str) : Prop := ∀ c ∈ s, 0 < c ∧ c < 128
/-- the first axis does not have length 1 (the generic reader would unwrap it) -/
def arrOK (a : Arr) : Prop := a.shape.head? ≠ some 1

instance (s : Str) : Decidable (asciiStr s) := by unfold asciiStr; infer_instance
instance (a : Arr) : Decidable (arrOK a) := by unfold arrOK; infer_instance

structure AtomWF (a : AtomRec) : Prop where
  el : asciiStr a.element
  label : asciiStr a.label
  xyz : arrOK a.xyz
  u : arrOK a.u

structure PhaseWF (T : PhaseTables) (p : PhaseRec) : Prop where
  name : asciiStr p.name
  color : asciiStr p.color
  abc : arrOK p.abcABG
  baserot : arrOK p.baserot
  atoms : ∀ a ∈ p.atoms, AtomWF a
  /-- `atoms/10` sorts before `atoms/2` -/
  natoms : p.atoms.length ≤ 10
  /-- the point-group name is ASCII, is not the marker "None" … -/
  pgName : ∀ g, p.pg = some g → asciiStr g ∧ g ≠ noneStr
  /-- … and `Phase(space_group, point_group)` reproduces the pair (the name resolves to itself through the
  alias table and agrees with the point group derived from the space group) -/
  sym : mkPhase T p.sg p.pg = some (p.sg, p.pg)

/-- Explicit decidable well-formedness for the C13 round trip. Every conjunct is exercised against the
implementation at a point it excludes (harness strata `known/…`). -/
structure H5WF (T : PhaseTables) (ni : PhaseRec) (m : MapRec) : Prop where
  unit : asciiStr m.scanUnit
  y : ∀ a, m.y = some a → arrOK a
  x : ∀ a, m.x = some a → arrOK a
  /-- more than one point: a length-1 array comes back as a scalar -/
  inData : arrOK m.inData
  phaseId : arrOK m.phaseId
  /-- Euler arrays have no axis of length 1 (`dstack(...).squeeze()`) -/
  phi1 : squeezeShape m.phi1.shape = m.phi1.shape
  phi : squeezeShape m.phi.shape = m.phi.shape
  phi2 : squeezeShape m.phi2.shape = m.phi2.shape
  props_arr : ∀ p ∈ m.props, arrOK p.arr
  /-- a property called like a dataset of the format overwrites it -/
  props_names : ∀ p ∈ m.props, Key.s p.name ∉ reservedData
  props_nodup : (m.props.map (·.name)).Nodup
  phases : ∀ p ∈ m.phases, PhaseWF T p
  phases_sorted : (m.phases.map (·.id)).Pairwise (· < ·)
  /-- the constructor keeps the phase list: its ids are the ids occurring in `phase_id`, the phase -1 is the
  one `add_not_indexed` creates -/
  phases_consistent : reconcileRec ni m.phaseId.vals m.phases = some m.phases

theorem arrOK_of_squeeze (sh : List Nat) (h : squeezeShape sh = sh) : sh.head? ≠ some 1 := by
  cases sh with
  | nil => simp
  | cons d r =>
    intro hd
    simp only [List.head?_cons, Option.some.injEq] at hd
    subst hd
    have : (squeezeShape (1 :: r)).length ≤ r.length := by
      simp only [squeezeShape, List.filter_cons, bne_self_eq_false, Bool.false_eq_true, if_false]
      exact List.length_filter_le _ _
    rw [h] at this
    simp at this

/-! ### lookups in a sorted dict -/

theorem lookupK_mem {α} (k : Key) (v : α) (l : List (Key × α)) (hn : (l.map (·.1)).Nodup) (h : (k, v) ∈ l) :
    lookupK k l = some v := by
  induction l with
  | nil => simp at h
  | cons e r ih =>
    obtain ⟨k', v'⟩ := e
    simp only [List.map_cons, List.nodup_cons] at hn
    rcases List.mem_cons.1 h with h | h
    · cases h; simp [lookupK]
    · have hne : ¬ k' = k := by
        intro heq
        exact hn.1 (List.mem_map.2 ⟨(k, v), h, heq.symm⟩)
      simp [lookupK, hne, ih hn.2 h]

theorem lookupK_sortK_mem {α} (k : Key) (v : α) (l : List (Key × α)) (hn : (l.map (·.1)).Nodup)
    (h : (k, v) ∈ l) : lookupK k (sortK l) = some v := by
  rw [lookupK_sortK k l hn]; exact lookupK_mem k v l hn h

/-! ### numbered children: up to ten of them are stored in numeric order -/

theorem enumFrom_map_sorted (l : List PyTree) (h : l.length ≤ 10) :
    sortK ((enumFrom 0 l).map fun (ia : Nat × PyTree) => (Key.n ia.1, ia.2))
      = (enumFrom 0 l).map fun (ia : Nat × PyTree) => (Key.n ia.1, ia.2) := by
  match l, h with
  | [], _ => rfl
  | [_], _ => rfl
  | [_, _], _ => rfl
  | [_, _, _], _ => rfl
  | [_, _, _, _], _ => rfl
  | [_, _, _, _, _], _ => rfl
  | [_, _, _, _, _, _], _ => rfl
  | [_, _, _, _, _, _, _], _ => rfl
  | [_, _, _, _, _, _, _, _], _ => rfl
  | [_, _, _, _, _, _, _, _, _], _ => rfl
  | [_, _, _, _, _, _, _, _, _, _], _ => rfl
  | _ :: _ :: _ :: _ :: _ :: _ :: _ :: _ :: _ :: _ :: _ :: _, h => by simp at h; omega

theorem enumFrom_map_snd {α β} (f : α → β) (k : Nat) (l : List α) :
    (enumFrom k l).map (fun ia => (ia.1, f ia.2)) = enumFrom k (l.map f) := by
  induction l generalizing k with
  | nil => rfl
  | cons a r ih => simp [enumFrom, ih]

theorem enumFrom_snd {α} (k : Nat) (l : List α) : (enumFrom k l).map (·.2) = l := by
  induction l generalizing k with
  | nil => rfl
  | cons a r ih => simp [enumFrom, ih]

/-! ### atoms and phases -/

theorem atom_round (a : AtomRec) (h : AtomWF a) : dict2atom (roundTree (atom2dict a)) = some a := by
  have hn : ([kS "element", kS "label", kS "occupancy", kS "xyz", kS "U"]).Nodup := by decide
  obtain ⟨el, label, odt, o, xyz, u⟩ := a
  simp only [atom2dict, roundTree, roundItems, dict2atom, getDict]
  rw [lookupK_sortK_mem (kS "element") (.leaf (normVal (.str el))) _ (by simpa using hn) (by simp),
    lookupK_sortK_mem (kS "label") (.leaf (normVal (.str label))) _ (by simpa using hn) (by simp),
    lookupK_sortK_mem (kS "occupancy") (.leaf (normVal (.scalar odt o))) _ (by simpa using hn) (by simp),
    lookupK_sortK_mem (kS "xyz") (.leaf (normVal (.arr xyz))) _ (by simpa using hn) (by simp),
    lookupK_sortK_mem (kS "U") (.leaf (normVal (.arr u))) _ (by simpa using hn) (by simp)]
  simp [str_stable _ h.el, str_stable _ h.label, arr_stable _ h.xyz, arr_stable _ h.u, normVal]

theorem atoms_round (atoms : List AtomRec) (h : ∀ a ∈ atoms, AtomWF a) (hl : atoms.length ≤ 10) :
    (sortK (roundItems ((enumFrom 0 atoms).map fun (ia : Nat × AtomRec) => (Key.n ia.1, atom2dict ia.2)))).mapM
      (fun kv => dict2atom kv.2) = some atoms := by
  have h1 : roundItems ((enumFrom 0 atoms).map fun (ia : Nat × AtomRec) => (Key.n ia.1, atom2dict ia.2))
      = (enumFrom 0 (atoms.map fun a => roundTree (atom2dict a))).map fun (ia : Nat × PyTree) => (Key.n ia.1, ia.2) := by
    rw [roundItems_map (enumFrom 0 atoms) (fun ia => Key.n ia.1) (fun ia => atom2dict ia.2),
      ← enumFrom_map_snd (fun a => roundTree (atom2dict a)) 0 atoms, List.map_map]
    rfl
  rw [h1, enumFrom_map_sorted _ (by simpa using hl)]
  rw [← enumFrom_map_snd (fun a => roundTree (atom2dict a)) 0 atoms, List.map_map]
  have := mapM_map_eq_some (enumFrom 0 atoms)
    (fun ia : Nat × AtomRec => (Key.n ia.1, roundTree (atom2dict ia.2)))
    (fun kv : Key × PyTree => dict2atom kv.2) (fun ia => ia.2)
    (fun ia hia => by
      have hm : ia.2 ∈ atoms := by
        have := List.mem_map_of_mem (f := (·.2)) hia
        rwa [enumFrom_snd] at this
      exact atom_round ia.2 (h ia.2 hm))
  simpa [enumFrom_snd, Function.comp] using this

end Orix.Codec.H5
