import Mathlib.Tactic.Ring
import Mathlib.Tactic.Linarith
import Mathlib.Tactic.LinearCombination
import Mathlib.Data.Real.Basic
/-
Algebra behind the antipodal key of `Rotation.unique`: a real 4-vector is determined up to sign by its ten
quadratic monomials.
-/
namespace Orix.UniqueKey

theorem minor_zero {x y x' y' : ℝ} (hx : x * x = x' * x') (hy : y * y = y' * y') (hxy : x * y = x' * y') :
    x * y' - y * x' = 0 := by
  have : (x * y' - y * x') ^ 2 = 0 := by
    linear_combination (y' * y') * hx + (x' * x') * hy - 2 * (x' * y') * hxy
  exact pow_eq_zero_iff (two_ne_zero) |>.1 this

theorem sign_cases {x x' : ℝ} (h : x * x = x' * x') : x = x' ∨ x = -x' := by
  have : (x - x') * (x + x') = 0 := by linear_combination h
  rcases mul_eq_zero.1 this with h | h
  · left; linarith
  · right; linarith

theorem zero_of_sq {x x' : ℝ} (h : x * x = x' * x') (hx' : x' = 0) : x = 0 := by
  have : x * x = 0 := by rw [h, hx']; ring
  exact mul_self_eq_zero.1 this

theorem follow_pos {x x' y y' : ℝ} (hx' : x' ≠ 0) (hxx : x = x') (hm : x * y' - y * x' = 0) : y = y' := by
  have : x' * (y - y') = 0 := by linear_combination (-1 : ℝ) * hm + y' * hxx
  rcases mul_eq_zero.1 this with h | h
  · exact absurd h hx'
  · linarith

theorem follow_neg {x x' y y' : ℝ} (hx' : x' ≠ 0) (hxx : x = -x') (hm : x * y' - y * x' = 0) : y = -y' := by
  have : x' * (y + y') = 0 := by linear_combination (-1 : ℝ) * hm + y' * hxx
  rcases mul_eq_zero.1 this with h | h
  · exact absurd h hx'
  · linarith

/-- equal quadratic monomials ⇒ equal up to a common sign -/
theorem eq_or_neg_of_monomials {a b c d a' b' c' d' : ℝ}
    (haa : a * a = a' * a') (hbb : b * b = b' * b') (hcc : c * c = c' * c') (hdd : d * d = d' * d')
    (hab : a * b = a' * b') (hac : a * c = a' * c') (had : a * d = a' * d')
    (hbc : b * c = b' * c') (hbd : b * d = b' * d') (hcd : c * d = c' * d') :
    (a = a' ∧ b = b' ∧ c = c' ∧ d = d') ∨ (a = -a' ∧ b = -b' ∧ c = -c' ∧ d = -d') := by
  have eab := minor_zero haa hbb hab
  have eac := minor_zero haa hcc hac
  have ead := minor_zero haa hdd had
  have ebc := minor_zero hbb hcc hbc
  have ebd := minor_zero hbb hdd hbd
  have ecd := minor_zero hcc hdd hcd
  by_cases ha : a' = 0
  · have ha0 := zero_of_sq haa ha
    by_cases hb : b' = 0
    · have hb0 := zero_of_sq hbb hb
      by_cases hc : c' = 0
      · have hc0 := zero_of_sq hcc hc
        rcases sign_cases hdd with h | h
        · left; exact ⟨by rw [ha0, ha], by rw [hb0, hb], by rw [hc0, hc], h⟩
        · right; exact ⟨by rw [ha0, ha]; simp, by rw [hb0, hb]; simp, by rw [hc0, hc]; simp, h⟩
      · rcases sign_cases hcc with h | h
        · left; exact ⟨by rw [ha0, ha], by rw [hb0, hb], h, follow_pos hc h ecd⟩
        · right; exact ⟨by rw [ha0, ha]; simp, by rw [hb0, hb]; simp, h, follow_neg hc h ecd⟩
    · rcases sign_cases hbb with h | h
      · left; exact ⟨by rw [ha0, ha], h, follow_pos hb h ebc, follow_pos hb h ebd⟩
      · right; exact ⟨by rw [ha0, ha]; simp, h, follow_neg hb h ebc, follow_neg hb h ebd⟩
  · rcases sign_cases haa with h | h
    · left; exact ⟨h, follow_pos ha h eab, follow_pos ha h eac, follow_pos ha h ead⟩
    · right; exact ⟨h, follow_neg ha h eab, follow_neg ha h eac, follow_neg ha h ead⟩

end Orix.UniqueKey
