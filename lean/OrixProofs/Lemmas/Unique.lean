import Mathlib.Data.List.Nodup
import Mathlib.Data.List.Sort
import Mathlib.Data.List.Perm.Basic
import OrixModel.Unique
/-
Lemmas about `OrixModel/Unique.lean`: the specification (`firstIdx`, `outKeys`, `invSpec`), insertion sort,
the numpy contract `npUnique`, and the two code paths.
-/
namespace Orix.Unique
variable {κ : Type} [DecidableEq κ]

theorem filterMap_getElem?_of_all_some {α β : Type} (f : α → Option β) (l : List α)
    (h : ∀ a ∈ l, (f a).isSome) (u : Nat) : (l.filterMap f)[u]? = (l[u]?).bind f := by
  induction l generalizing u with
  | nil => simp
  | cons a l ih =>
    have ha := h a (List.mem_cons_self ..)
    cases hfa : f a with
    | none => rw [hfa] at ha; cases ha
    | some b =>
      rw [List.filterMap_cons_some hfa]
      cases u with
      | zero => simp [hfa]
      | succ u => simpa using ih (fun x hx => h x (List.mem_cons_of_mem _ hx)) u

/-! ## specification -/

theorem isFirst_iff (keys : List κ) (i : Nat) :
    isFirst keys i = true ↔ ∃ k, keys[i]? = some k ∧ keys.idxOf k = i := by
  unfold isFirst
  cases h : keys[i]? with
  | none => simp
  | some k => simp

theorem mem_firstIdx (keys : List κ) (i : Nat) :
    i ∈ firstIdx keys ↔ ∃ k, keys[i]? = some k ∧ keys.idxOf k = i := by
  unfold firstIdx
  rw [List.mem_filter, isFirst_iff, List.mem_range]
  constructor
  · exact fun h => h.2
  · rintro ⟨k, hk, hi⟩
    exact ⟨(List.getElem?_eq_some_iff.1 hk).1, k, hk, hi⟩

theorem idxOf_mem_firstIdx (keys : List κ) (k : κ) (hk : k ∈ keys) : keys.idxOf k ∈ firstIdx keys :=
  (mem_firstIdx keys _).2 ⟨k, List.getElem?_idxOf hk, rfl⟩

theorem firstIdx_sorted (keys : List κ) : (firstIdx keys).Pairwise (· < ·) :=
  List.Pairwise.filter _ List.pairwise_lt_range

theorem firstIdx_nodup (keys : List κ) : (firstIdx keys).Nodup :=
  (firstIdx_sorted keys).imp (fun h => Nat.ne_of_lt h)

theorem firstIdx_all_some (keys : List κ) : ∀ i ∈ firstIdx keys, (keys[i]?).isSome := by
  intro i hi
  obtain ⟨k, hk, _⟩ := (mem_firstIdx keys i).1 hi
  simp [hk]

theorem outKeys_getElem? (keys : List κ) (u : Nat) :
    (outKeys keys)[u]? = ((firstIdx keys)[u]?).bind (fun i => keys[i]?) :=
  filterMap_getElem?_of_all_some _ _ (firstIdx_all_some keys) u

theorem mem_outKeys (keys : List κ) (k : κ) : k ∈ outKeys keys ↔ k ∈ keys := by
  unfold outKeys
  rw [List.mem_filterMap]
  constructor
  · rintro ⟨i, _, hi⟩; exact List.mem_of_getElem? hi
  · intro hk
    exact ⟨keys.idxOf k, idxOf_mem_firstIdx keys k hk, List.getElem?_idxOf hk⟩

theorem outKeys_nodup (keys : List κ) : (outKeys keys).Nodup := by
  unfold outKeys
  have h := List.Pairwise.and_mem.1 (firstIdx_nodup keys)
  refine List.Pairwise.filterMap _ ?_ h
  intro i j ⟨hi, hj, hne⟩ a ha b hb hab
  subst hab
  obtain ⟨k, hk, hik⟩ := (mem_firstIdx keys i).1 hi
  obtain ⟨k', hk', hjk⟩ := (mem_firstIdx keys j).1 hj
  rw [ha] at hk; rw [hb] at hk'
  cases hk; cases hk'
  exact hne (hik.symm.trans hjk)

theorem idxOf_le_of_getElem? (keys : List κ) (k : κ) (j : Nat) (h : keys[j]? = some k) : keys.idxOf k ≤ j := by
  induction keys generalizing j with
  | nil => simp at h
  | cons x xs ih =>
    rw [List.idxOf_cons]
    by_cases hx : x = k
    · have hb : (x == k) = true := by simpa using hx
      rw [hb]; simp
    · cases j with
      | zero => simp at h; exact absurd h hx
      | succ j =>
        have := ih j (by simpa using h)
        have hb : (x == k) = false := by simpa using hx
        rw [hb]; simp only [cond_false]; omega

/-- nothing before a first occurrence carries the same key -/
theorem firstIdx_first (keys : List κ) (i : Nat) (hi : i ∈ firstIdx keys) (j : Nat) (hj : j < i) :
    keys[j]? ≠ keys[i]? := by
  obtain ⟨k, hk, hik⟩ := (mem_firstIdx keys i).1 hi
  rw [hk]
  intro hjk
  have hjl : j < keys.length := (List.getElem?_eq_some_iff.1 hjk).1
  have : keys.idxOf k ≤ j := idxOf_le_of_getElem? keys k j hjk
  omega

theorem invSpec_getElem? (keys : List κ) (p : Nat) (k : κ) (hk : keys[p]? = some k) :
    ∃ u, (invSpec keys)[p]? = some u ∧ (outKeys keys)[u]? = some k := by
  have hmem : k ∈ keys := List.mem_of_getElem? hk
  have hi := idxOf_mem_firstIdx keys k hmem
  refine ⟨(firstIdx keys).idxOf (keys.idxOf k), ?_, ?_⟩
  · simp [invSpec, List.getElem?_map, hk]
  · rw [outKeys_getElem?, List.getElem?_idxOf hi]
    simp [List.getElem?_idxOf hmem]

/-! ## the recursive form of the specification -/

theorem mem_dedup (l : List κ) (k : κ) : k ∈ dedup l ↔ k ∈ l := by
  induction l with
  | nil => simp [dedup]
  | cons x xs ih =>
    simp only [dedup, List.mem_cons, List.mem_filter, ih, decide_eq_true_eq]
    by_cases h : k = x <;> simp [h]

theorem dedup_nodup (l : List κ) : (dedup l).Nodup := by
  induction l with
  | nil => simp [dedup]
  | cons x xs ih =>
    simp only [dedup, List.nodup_cons, List.mem_filter, decide_eq_true_eq, ne_eq, not_true_eq_false, and_false,
      not_false_eq_true, true_and]
    exact ih.filter _

/-! ## insertion sort -/

omit [DecidableEq κ] in
theorem insertBy_perm (lt : κ → κ → Bool) (x : κ) (l : List κ) : (insertBy lt x l).Perm (x :: l) := by
  induction l with
  | nil => exact List.Perm.refl _
  | cons y ys ih =>
    unfold insertBy
    by_cases h : lt y x = true
    · rw [if_pos h]
      exact ((List.Perm.cons y ih).trans (List.Perm.swap x y ys))
    · rw [if_neg h]

omit [DecidableEq κ] in
theorem isort_perm (lt : κ → κ → Bool) (l : List κ) : (isort lt l).Perm l := by
  induction l with
  | nil => exact List.Perm.refl _
  | cons x xs ih => exact (insertBy_perm lt x _).trans (List.Perm.cons x ih)

omit [DecidableEq κ] in
theorem mem_isort (lt : κ → κ → Bool) (l : List κ) (k : κ) : k ∈ isort lt l ↔ k ∈ l :=
  (isort_perm lt l).mem_iff

theorem insertBy_natLt_sorted (x : Nat) (l : List Nat) (hl : l.Pairwise (· < ·)) (hx : x ∉ l) :
    (insertBy natLt x l).Pairwise (· < ·) := by
  induction l with
  | nil => simp [insertBy]
  | cons y ys ih =>
    rw [List.pairwise_cons] at hl
    unfold insertBy
    by_cases h : natLt y x = true
    · rw [if_pos h]
      have hyx : y < x := by simpa [natLt] using h
      rw [List.pairwise_cons]
      refine ⟨?_, ih hl.2 (fun hm => hx (List.mem_cons_of_mem _ hm))⟩
      intro z hz
      rcases List.mem_cons.1 ((insertBy_perm natLt x ys).mem_iff.1 hz) with rfl | hz
      · exact hyx
      · exact hl.1 z hz
    · rw [if_neg h]
      have hxy : x < y := by
        have h1 : ¬ y < x := by simpa [natLt] using h
        have h2 : x ≠ y := fun e => hx (e ▸ List.mem_cons_self ..)
        omega
      rw [List.pairwise_cons]
      refine ⟨?_, List.pairwise_cons.2 hl⟩
      intro z hz
      rcases List.mem_cons.1 hz with rfl | hz
      · exact hxy
      · exact Nat.lt_trans hxy (hl.1 z hz)

theorem isort_natLt_sorted (l : List Nat) (hl : l.Nodup) : (isort natLt l).Pairwise (· < ·) := by
  induction l with
  | nil => simp [isort]
  | cons x xs ih =>
    rw [List.nodup_cons] at hl
    exact insertBy_natLt_sorted x _ (ih hl.2) (fun hm => hl.1 ((mem_isort natLt xs x).1 hm))

/-! ## the numpy contract -/

/-- the sorted distinct keys: no duplicates, same members as the input (for *any* comparison function) -/
theorem npU_nodup (lt : κ → κ → Bool) (keys : List κ) : (npUnique lt keys).1.Nodup :=
  (isort_perm lt _).nodup_iff.2 (dedup_nodup keys)

theorem mem_npU (lt : κ → κ → Bool) (keys : List κ) (k : κ) : k ∈ (npUnique lt keys).1 ↔ k ∈ keys := by
  simp only [npUnique, mem_isort, mem_dedup]

theorem idxOf_inj_on_mem (keys : List κ) (a b : κ) (ha : a ∈ keys) (h : keys.idxOf a = keys.idxOf b) : a = b := by
  have h1 := List.getElem?_idxOf ha
  have hb : b ∈ keys := by
    rw [← List.idxOf_lt_length_iff, ← h]; exact List.idxOf_lt_length_iff.2 ha
  have h2 := List.getElem?_idxOf hb
  rw [h] at h1
  rw [h1] at h2
  exact Option.some.inj h2

theorem npIdx_nodup (lt : κ → κ → Bool) (keys : List κ) : (npUnique lt keys).2.1.Nodup := by
  simp only [npUnique]
  refine List.Nodup.map_on ?_ (npU_nodup lt keys)
  intro a ha b _ hab
  exact idxOf_inj_on_mem keys a b ((mem_npU lt keys a).1 ha) hab

theorem mem_npIdx (lt : κ → κ → Bool) (keys : List κ) (i : Nat) :
    i ∈ (npUnique lt keys).2.1 ↔ i ∈ firstIdx keys := by
  simp only [npUnique, List.mem_map, mem_isort, mem_dedup, mem_firstIdx]
  constructor
  · rintro ⟨k, hk, rfl⟩; exact ⟨k, List.getElem?_idxOf hk, rfl⟩
  · rintro ⟨k, hk, rfl⟩; exact ⟨k, List.mem_of_getElem? hk, rfl⟩

/-- numpy's first-occurrence indices are a permutation of the first-appearance indices -/
theorem npIdx_perm (lt : κ → κ → Bool) (keys : List κ) : (npUnique lt keys).2.1.Perm (firstIdx keys) :=
  (List.perm_ext_iff_of_nodup (npIdx_nodup lt keys) (firstIdx_nodup keys)).2 (mem_npIdx lt keys)

/-- sorting them gives exactly the first-appearance indices -/
theorem sort_npIdx (lt : κ → κ → Bool) (keys : List κ) :
    isort natLt (npUnique lt keys).2.1 = firstIdx keys := by
  refine List.Pairwise.eq_of_mem_iff (isort_natLt_sorted _ (npIdx_nodup lt keys)) (firstIdx_sorted keys) ?_
  intro i
  rw [mem_isort, mem_npIdx]

/-- numpy's inverse refers to the sorted distinct keys -/
theorem npInv_getElem? (lt : κ → κ → Bool) (keys : List κ) (p : Nat) (k : κ) (hk : keys[p]? = some k) :
    ∃ u, (npUnique lt keys).2.2[p]? = some u ∧ (npUnique lt keys).1[u]? = some k ∧
      (npUnique lt keys).2.1[u]? = some (keys.idxOf k) := by
  have hm : k ∈ (npUnique lt keys).1 := (mem_npU lt keys k).2 (List.mem_of_getElem? hk)
  refine ⟨(npUnique lt keys).1.idxOf k, ?_, List.getElem?_idxOf hm, ?_⟩
  · simp only [npUnique, List.getElem?_map, hk, Option.map_some]
  · have : (npUnique lt keys).2.1 = (npUnique lt keys).1.map (fun k => keys.idxOf k) := rfl
    rw [this, List.getElem?_map, List.getElem?_idxOf hm]
    rfl

/-! ## dropped entries -/

omit [DecidableEq κ] in
theorem keptZ_fst (drop : κ → Bool) (keys : List κ) :
    (keptZ drop keys).map (·.1) = keys.filter (fun k => !drop k) := by
  unfold keptZ
  have h := List.filter_map (f := (Prod.fst : κ × Nat → κ)) (p := fun k => !drop k) (l := keys.zipIdx)
  rw [List.zipIdx_map_fst] at h
  rw [h]
  rfl

omit [DecidableEq κ] in
theorem mem_keptZ (drop : κ → Bool) (keys : List κ) (k : κ) (i : Nat) :
    (k, i) ∈ keptZ drop keys ↔ keys[i]? = some k ∧ drop k = false := by
  unfold keptZ
  rw [List.mem_filter, List.mem_zipIdx_iff_getElem?]
  simp

omit [DecidableEq κ] in
theorem keptZ_sorted (drop : κ → Bool) (keys : List κ) :
    (keptZ drop keys).Pairwise (fun a b => a.2 < b.2) := by
  unfold keptZ
  refine List.Pairwise.filter _ ?_
  have h : (keys.zipIdx.map Prod.snd).Pairwise (· < ·) := by
    rw [List.zipIdx_map_snd]; exact List.pairwise_lt_range' 1
  exact List.pairwise_map.1 h

omit [DecidableEq κ] in
theorem keptZ_pos_sorted (drop : κ → Bool) (keys : List κ) :
    ((keptZ drop keys).map (·.2)).Pairwise (· < ·) :=
  List.pairwise_map.2 (keptZ_sorted drop keys)

omit [DecidableEq κ] in
/-- entry `a` of the kept list sits at position `pos[a]` of the flattened input -/
theorem kept_getElem? (drop : κ → Bool) (keys : List κ) (a : Nat) :
    ((keptZ drop keys).map (·.1))[a]? = (((keptZ drop keys).map (·.2))[a]?).bind (fun i => keys[i]?) := by
  simp only [List.getElem?_map]
  cases h : (keptZ drop keys)[a]? with
  | none => rfl
  | some p =>
    have hm : (p.1, p.2) ∈ keptZ drop keys := List.mem_of_getElem? h
    simp [((mem_keptZ drop keys p.1 p.2).1 hm).1]

end Orix.Unique
