import OrixProofs.Lemmas.ConvEu
import OrixProofs.Lemmas.ConvOmSpec
/-
quaternion → Euler angles, spec level (`ConvSpec.qu2eu`: exact gimbal tests, `+2bc` in the `Φ = π` branch):
the Bunge matrix of the angles returned is the matrix of the quaternion, for every unit quaternion;
hence `eu2qu ∘ qu2eu = ± id`.
-/
namespace Orix
open Scalar

theorem sq_sum_zero {x y : ℝ} (h : x * x + y * y = 0) : x = 0 ∧ y = 0 := by
  constructor <;> nlinarith [mul_self_nonneg x, mul_self_nonneg y]

/-- `cos`/`sin` of `atan2 (y/r) (x/r)` when `x² + y² = r²`, `r ≠ 0` -/
theorem cos_atan2_div {x y r : ℝ} (hr : r ≠ 0) (h : x * x + y * y = r * r) :
    Real.cos (Scalar.atan2 (y / r) (x / r)) = x / r := by
  apply cos_atan2_unit
  field_simp; linarith
theorem sin_atan2_div {x y r : ℝ} (hr : r ≠ 0) (h : x * x + y * y = r * r) :
    Real.sin (Scalar.atan2 (y / r) (x / r)) = y / r := by
  apply sin_atan2_unit
  field_simp; linarith

theorem qu2euSpec_real (q : Quat ℝ) :
    ConvSpec.qu2eu q =
      if q.b * q.b + q.c * q.c = 0 then
        ⟨fmod (atan2 (-2 * q.a * q.d) (q.a * q.a - q.d * q.d)) (Real.pi * 2), 0, 0⟩
      else if q.a * q.a + q.d * q.d = 0 then
        ⟨fmod (atan2 (2 * q.b * q.c) (q.b * q.b - q.c * q.c)) (Real.pi * 2), Real.pi, 0⟩
      else
        ⟨fmod (atan2 ((q.b * q.d - q.a * q.c) / Real.sqrt ((q.a * q.a + q.d * q.d) * (q.b * q.b + q.c * q.c)))
            ((-q.a * q.b - q.c * q.d) / Real.sqrt ((q.a * q.a + q.d * q.d) * (q.b * q.b + q.c * q.c)))) (Real.pi * 2),
         atan2 (2 * Real.sqrt ((q.a * q.a + q.d * q.d) * (q.b * q.b + q.c * q.c)))
            (q.a * q.a + q.d * q.d - (q.b * q.b + q.c * q.c)),
         fmod (atan2 ((q.a * q.c + q.b * q.d) / Real.sqrt ((q.a * q.a + q.d * q.d) * (q.b * q.b + q.c * q.c)))
            ((q.c * q.d - q.a * q.b) / Real.sqrt ((q.a * q.a + q.d * q.d) * (q.b * q.b + q.c * q.c)))) (Real.pi * 2)⟩ := by
  simp only [ConvSpec.qu2eu, beq_real, lit_real, Nat.cast_ofNat, Nat.cast_zero, pi_real, sqrt_real]

/-- the generic branch: the Bunge matrix of the three `atan2` angles is the quaternion's matrix -/
theorem bunge_generic (a b c d : ℝ) (h' : a * a + b * b + c * c + d * d = 1)
    (hA : a * a + d * d ≠ 0) (hB : b * b + c * c ≠ 0) (t0 t1 t2 : ℝ)
    (c0 : Real.cos t0 = (-a * b - c * d) / Real.sqrt ((a * a + d * d) * (b * b + c * c)))
    (s0 : Real.sin t0 = (b * d - a * c) / Real.sqrt ((a * a + d * d) * (b * b + c * c)))
    (c1 : Real.cos t1 = a * a + d * d - (b * b + c * c))
    (s1 : Real.sin t1 = 2 * Real.sqrt ((a * a + d * d) * (b * b + c * c)))
    (c2 : Real.cos t2 = (c * d - a * b) / Real.sqrt ((a * a + d * d) * (b * b + c * c)))
    (s2 : Real.sin t2 = (a * c + b * d) / Real.sqrt ((a * a + d * d) * (b * b + c * c))) :
    ConvSpec.bunge ⟨t0, t1, t2⟩ = Quat.toMat ⟨a, b, c, d⟩ := by
  have hAB : 0 < (a * a + d * d) * (b * b + c * c) := by
    have h1 : 0 < a * a + d * d := lt_of_le_of_ne (by nlinarith [mul_self_nonneg a, mul_self_nonneg d]) (Ne.symm hA)
    have h2 : 0 < b * b + c * c := lt_of_le_of_ne (by nlinarith [mul_self_nonneg b, mul_self_nonneg c]) (Ne.symm hB)
    exact mul_pos h1 h2
  set X := Real.sqrt ((a * a + d * d) * (b * b + c * c)) with hX
  have hXpos : 0 < X := Real.sqrt_pos.mpr hAB
  have hX0 : X ≠ 0 := hXpos.ne'
  have hXX : X * X = (a * a + d * d) * (b * b + c * c) := Real.mul_self_sqrt hAB.le
  rw [bunge_entries]
  simp only [c0, s0, c1, s1, c2, s2, Quat.toMat, lit_real, Nat.cast_ofNat]
  congr 1
  · field_simp
    rw [show X ^ 2 = X * X by ring, hXX]
    linear_combination (-(a * a * b * b - c * c * d * d)) * h'
  · field_simp
    rw [show X ^ 2 = X * X by ring, hXX]
    linear_combination (-(b * c * (a * a + d * d) - a * d * (b * b + c * c))) * h'
  · first | (field_simp; done) | (field_simp; ring1)
  · field_simp
    rw [show X ^ 2 = X * X by ring, hXX]
    linear_combination (-(b * c * (a * a + d * d) + a * d * (b * b + c * c))) * h'
  · field_simp
    rw [show X ^ 2 = X * X by ring, hXX]
    linear_combination ((b * b * d * d - a * a * c * c)) * h'
  · first | (field_simp; done) | (field_simp; ring1)
  · first | (field_simp; done) | (field_simp; ring1)
  · first | (field_simp; done) | (field_simp; ring1)
  · ring

/-- **the Bunge matrix of `qu2eu q` is the matrix of `q`** — every unit quaternion, gimbal cases included -/
theorem bunge_qu2euSpec (q : Quat ℝ) (h : Quat.normSq q = 1) :
    ConvSpec.bunge (ConvSpec.qu2eu q) = Quat.toMat q := by
  have h' : q.a * q.a + q.b * q.b + q.c * q.c + q.d * q.d = 1 := h
  rw [qu2euSpec_real]
  obtain ⟨a, b, c, d⟩ := q
  simp only at h' ⊢
  split_ifs with hbc had
  · -- Φ = 0
    obtain ⟨hb, hc⟩ := sq_sum_zero hbc
    subst hb hc
    have hu : (a * a - d * d) * (a * a - d * d) + (-2 * a * d) * (-2 * a * d) = 1 := by
      have : (a * a + d * d) ^ 2 = 1 := by rw [show a * a + d * d = 1 by linarith]; norm_num
      linear_combination this
    rw [bunge_entries]
    simp only [cos_fmod, sin_fmod, cos_atan2_unit hu, sin_atan2_unit hu, Real.cos_zero, Real.sin_zero,
      Quat.toMat, lit_real, Nat.cast_ofNat]
    congr 1 <;> first | ring1 | linear_combination (-1 : ℝ) * h'
  · -- Φ = π
    obtain ⟨ha, hd⟩ := sq_sum_zero had
    subst ha hd
    have hu : (b * b - c * c) * (b * b - c * c) + (2 * b * c) * (2 * b * c) = 1 := by
      have : (b * b + c * c) ^ 2 = 1 := by rw [show b * b + c * c = 1 by linarith]; norm_num
      linear_combination this
    rw [bunge_entries]
    simp only [cos_fmod, sin_fmod, cos_atan2_unit hu, sin_atan2_unit hu, Real.cos_zero, Real.sin_zero,
      Real.cos_pi, Real.sin_pi, Quat.toMat, lit_real, Nat.cast_ofNat]
    congr 1 <;> first | ring1 | linear_combination h' | linear_combination (-1 : ℝ) * h'
  · -- generic
    have hAB : 0 < (a * a + d * d) * (b * b + c * c) := by
      have h1 : 0 < a * a + d * d :=
        lt_of_le_of_ne (by nlinarith [mul_self_nonneg a, mul_self_nonneg d]) (Ne.symm had)
      have h2 : 0 < b * b + c * c :=
        lt_of_le_of_ne (by nlinarith [mul_self_nonneg b, mul_self_nonneg c]) (Ne.symm hbc)
      exact mul_pos h1 h2
    have hX0 : Real.sqrt ((a * a + d * d) * (b * b + c * c)) ≠ 0 := (Real.sqrt_pos.mpr hAB).ne'
    have hXX := Real.mul_self_sqrt hAB.le
    have u0 : (-a * b - c * d) * (-a * b - c * d) + (b * d - a * c) * (b * d - a * c)
        = Real.sqrt ((a * a + d * d) * (b * b + c * c)) * Real.sqrt ((a * a + d * d) * (b * b + c * c)) := by
      rw [hXX]; ring
    have u2 : (c * d - a * b) * (c * d - a * b) + (a * c + b * d) * (a * c + b * d)
        = Real.sqrt ((a * a + d * d) * (b * b + c * c)) * Real.sqrt ((a * a + d * d) * (b * b + c * c)) := by
      rw [hXX]; ring
    have u1 : (a * a + d * d - (b * b + c * c)) * (a * a + d * d - (b * b + c * c))
        + (2 * Real.sqrt ((a * a + d * d) * (b * b + c * c))) * (2 * Real.sqrt ((a * a + d * d) * (b * b + c * c))) = 1 := by
      have : (a * a + d * d + (b * b + c * c)) ^ 2 = 1 := by
        rw [show a * a + d * d + (b * b + c * c) = 1 by linarith]; norm_num
      linear_combination this + 4 * hXX
    exact bunge_generic a b c d h' had hbc _ _ _
      (by rw [cos_fmod]; exact cos_atan2_div hX0 u0) (by rw [sin_fmod]; exact sin_atan2_div hX0 u0)
      (cos_atan2_unit u1) (sin_atan2_unit u1)
      (by rw [cos_fmod]; exact cos_atan2_div hX0 u2) (by rw [sin_fmod]; exact sin_atan2_div hX0 u2)

theorem toMat_eu2qu (e : Euler ℝ) : Quat.toMat (Conv.eu2qu e) = ConvSpec.bunge e := by
  rcases eu2qu_eq_or_neg e with h | h <;> rw [h]
  · exact toMat_eu2quRaw e
  · rw [toMat_neg]; exact toMat_eu2quRaw e

/-- **Euler round trip**: `eu2qu (qu2eu q) = ± q` for every unit quaternion (spec-level `qu2eu`) -/
theorem eu2qu_qu2euSpec (q : Quat ℝ) (h : Quat.normSq q = 1) :
    Conv.eu2qu (ConvSpec.qu2eu q) = q ∨ Conv.eu2qu (ConvSpec.qu2eu q) = Quat.neg q :=
  toMat_injective_up_to_sign _ _ (eu2qu_unit _) h (by rw [toMat_eu2qu, bunge_qu2euSpec q h])

end Orix
