import Mathlib.Data.List.Sort
import Mathlib.Data.List.Range
import Mathlib.Tactic.Linarith
import OrixProofs.Lemmas.XMapSel
/-
Helper lemmas for C12: the phase list as an id-sorted dictionary (dictSet / sortById / add / del /
add_not_indexed), the invariant `Inv` of a crystal map with its selections, and its preservation by every
admissible operation.
-/
namespace Orix.PhaseList
open Orix

abbrev leId : (Int × Phase) → (Int × Phase) → Prop := fun a b => a.1 ≤ b.1

instance : DecidableRel leId := fun a b => inferInstanceAs (Decidable (a.1 ≤ b.1))
instance : Std.Total leId := ⟨fun a b => le_total a.1 b.1⟩
instance : IsTrans (Int × Phase) leId := ⟨fun _ _ _ h1 h2 => le_trans h1 h2⟩

theorem insertById_eq (e : Int × Phase) (d : PhaseList) : insertById e d = List.orderedInsert leId e d := by
  induction d with
  | nil => rfl
  | cons f r ih =>
    simp only [insertById, List.orderedInsert_cons, ih]

theorem sortById_eq (d : PhaseList) : sortById d = List.insertionSort leId d := by
  induction d with
  | nil => rfl
  | cons e d ih =>
    simp only [sortById, List.foldr_cons, List.insertionSort_cons] at ih ⊢
    rw [ih, insertById_eq]

theorem sortById_perm (d : PhaseList) : (sortById d).Perm d := by
  rw [sortById_eq]; exact List.perm_insertionSort _ _

theorem mem_sortById {d : PhaseList} {e : Int × Phase} : e ∈ sortById d ↔ e ∈ d :=
  (sortById_perm d).mem_iff

theorem ids_sortById_perm (d : PhaseList) : (ids (sortById d)).Perm (ids d) :=
  (sortById_perm d).map _

theorem sortById_sorted {d : PhaseList} (hnd : (ids d).Nodup) : (ids (sortById d)).Pairwise (· < ·) := by
  have hle : (sortById d).Pairwise leId := by rw [sortById_eq]; exact List.pairwise_insertionSort _ _
  have hnd' : (ids (sortById d)).Nodup := (ids_sortById_perm d).nodup_iff.2 hnd
  have h1 : (ids (sortById d)).Pairwise (· ≤ ·) := by
    simp only [ids, List.pairwise_map]; exact hle
  have h2 : (ids (sortById d)).Pairwise (· ≠ ·) := hnd'
  exact (h1.and h2).imp (fun h => lt_of_le_of_ne h.1 h.2)

theorem sortById_of_sorted {d : PhaseList} (h : (ids d).Pairwise (· < ·)) : sortById d = d := by
  rw [sortById_eq]
  apply List.Pairwise.insertionSort_eq
  have : (ids d).Pairwise (· ≤ ·) := h.imp le_of_lt
  simpa only [ids, List.pairwise_map] using this

theorem nodup_of_sorted {l : List Int} (h : l.Pairwise (· < ·)) : l.Nodup := h.imp ne_of_lt

/-! #### `d[i] = p` -/

theorem any_id_iff {d : PhaseList} {i : Int} : d.any (fun e => e.1 == i) = true ↔ i ∈ ids d := by
  simp only [List.any_eq_true, beq_iff_eq, ids, List.mem_map]

theorem ids_dictSet (d : PhaseList) (i : Int) (p : Phase) :
    ids (dictSet d i p) = if i ∈ ids d then ids d else ids d ++ [i] := by
  unfold dictSet
  by_cases h : i ∈ ids d
  · simp only [any_id_iff.2 h, if_true, h]
    simp only [ids, List.map_map]
    apply List.map_congr_left
    intro e _
    by_cases he : e.1 = i <;> simp [he]
  · have : d.any (fun e => e.1 == i) = false := by
      rw [Bool.eq_false_iff]; exact fun hh => h (any_id_iff.1 hh)
    have h' : i ∉ List.map (fun x : Int × Phase => x.1) d := h
    simp [this, ids, h']

theorem mem_dictSet {d : PhaseList} {i : Int} {p : Phase} {e : Int × Phase} :
    e ∈ dictSet d i p ↔ (e = (i, p) ∧ True) ∨ (e ∈ d ∧ e.1 ≠ i) ∨ (e = (i, p) ∧ i ∈ ids d) := by
  unfold dictSet
  by_cases h : i ∈ ids d
  · simp only [any_id_iff.2 h, if_true, List.mem_map]
    constructor
    · rintro ⟨f, hf, rfl⟩
      by_cases hfi : f.1 = i
      · left; simp [hfi]
      · right; left; simp [hfi, hf]
    · rintro (⟨rfl, _⟩ | ⟨he, hne⟩ | ⟨rfl, _⟩)
      · obtain ⟨f, hf, hfi⟩ := List.mem_map.1 h
        exact ⟨f, hf, by simp [hfi]⟩
      · exact ⟨e, he, by simp [hne]⟩
      · obtain ⟨f, hf, hfi⟩ := List.mem_map.1 h
        exact ⟨f, hf, by simp [hfi]⟩
  · have : d.any (fun e => e.1 == i) = false := by
      rw [Bool.eq_false_iff]; exact fun hh => h (any_id_iff.1 hh)
    simp only [this, Bool.false_eq_true, if_false, List.mem_append, List.mem_singleton]
    constructor
    · rintro (he | rfl)
      · right; left
        exact ⟨he, fun hei => h (by rw [← hei]; exact List.mem_map_of_mem he)⟩
      · left; exact ⟨rfl, trivial⟩
    · rintro (⟨rfl, _⟩ | ⟨he, _⟩ | ⟨_, hi⟩)
      · right; rfl
      · left; exact he
      · exact absurd hi h

theorem mem_dictSet' {d : PhaseList} {i : Int} {p : Phase} {e : Int × Phase} (he : e ∈ dictSet d i p) :
    e = (i, p) ∨ (e ∈ d ∧ e.1 ≠ i) := by
  rcases mem_dictSet.1 he with ⟨h, _⟩ | h | ⟨h, _⟩
  · exact Or.inl h
  · exact Or.inr h
  · exact Or.inl h

theorem nodup_dictSet {d : PhaseList} (h : (ids d).Nodup) (i : Int) (p : Phase) : (ids (dictSet d i p)).Nodup := by
  rw [ids_dictSet]
  by_cases hi : i ∈ ids d
  · simp [hi, h]
  · simp only [hi, if_false]
    exact List.Nodup.append h (by simp) (by simpa using hi)

theorem ids_subset_dictSet (d : PhaseList) (i : Int) (p : Phase) : ∀ x ∈ ids d, x ∈ ids (dictSet d i p) := by
  intro x hx
  rw [ids_dictSet]
  by_cases hi : i ∈ ids d <;> simp [hi, hx]

theorem self_mem_ids_dictSet (d : PhaseList) (i : Int) (p : Phase) : i ∈ ids (dictSet d i p) := by
  rw [ids_dictSet]
  by_cases hi : i ∈ ids d <;> simp [hi]

theorem nodup_ofPairs (ps : List (Int × Phase)) : (ids (ofPairs ps)).Nodup := by
  unfold ofPairs
  have : ∀ (d : PhaseList), (ids d).Nodup → (ids (ps.foldl (fun d e => dictSet d e.1 e.2) d)).Nodup := by
    induction ps with
    | nil => intro d h; exact h
    | cons e ps ih => intro d h; exact ih _ (nodup_dictSet h _ _)
  exact this [] (by simp [ids])

/-! #### `max(ids)` -/

theorem foldl_max_int_le (xs : List Int) (x : Int) :
    x ≤ xs.foldl max x ∧ ∀ y ∈ xs, y ≤ xs.foldl max x := by
  induction xs generalizing x with
  | nil => simp
  | cons a xs ih =>
    simp only [List.foldl_cons, List.mem_cons, forall_eq_or_imp]
    obtain ⟨h1, h2⟩ := ih (max x a)
    exact ⟨le_trans (le_max_left _ _) h1, le_trans (le_max_right _ _) h1, h2⟩

theorem foldl_max_int_mem (xs : List Int) (x : Int) : xs.foldl max x ∈ x :: xs := by
  induction xs generalizing x with
  | nil => simp
  | cons a xs ih =>
    simp only [List.foldl_cons]
    have := ih (max x a)
    rcases List.mem_cons.1 this with h | h
    · rcases max_choice x a with hc | hc
      · rw [h, hc]; simp
      · rw [h, hc]; simp
    · exact List.mem_cons_of_mem _ (List.mem_cons_of_mem _ h)

theorem maxId_spec {l : List Int} {m : Int} (h : maxId l = some m) : m ∈ l ∧ ∀ y ∈ l, y ≤ m := by
  cases l with
  | nil => simp [maxId] at h
  | cons x xs =>
    simp only [maxId, Option.some.injEq] at h
    subst h
    refine ⟨foldl_max_int_mem xs x, ?_⟩
    intro y hy
    rcases List.mem_cons.1 hy with rfl | hy
    · exact (foldl_max_int_le xs y).1
    · exact (foldl_max_int_le xs x).2 y hy

theorem maxId_eq_none {l : List Int} : maxId l = none ↔ l = [] := by
  cases l <;> simp [maxId]

end Orix.PhaseList
