import Mathlib.Data.List.Sort
import Mathlib.Data.List.Range
import Mathlib.Tactic.Linarith
import OrixProofs.Lemmas.XMapSel
/-
Helper lemmas for C12: the phase list as an id-sorted dictionary (dictSet / sortById / add / del /
add_not_indexed), the invariant `Inv` of a crystal map with its selections, and its preservation by every
admissible operation.
-/
namespace Orix.PhaseList
open Orix

abbrev leId : (Int × Phase) → (Int × Phase) → Prop := fun a b => a.1 ≤ b.1

instance : DecidableRel leId := fun a b => inferInstanceAs (Decidable (a.1 ≤ b.1))
instance : Std.Total leId := ⟨fun a b => le_total a.1 b.1⟩
instance : IsTrans (Int × Phase) leId := ⟨fun _ _ _ h1 h2 => le_trans h1 h2⟩

theorem insertById_eq (e : Int × Phase) (d : PhaseList) : insertById e d = List.orderedInsert leId e d := by
  induction d with
  | nil => rfl
  | cons f r ih =>
    simp only [insertById, List.orderedInsert_cons, ih]

theorem sortById_eq (d : PhaseList) : sortById d = List.insertionSort leId d := by
  induction d with
  | nil => rfl
  | cons e d ih =>
    simp only [sortById, List.foldr_cons, List.insertionSort_cons] at ih ⊢
    rw [ih, insertById_eq]

theorem sortById_perm (d : PhaseList) : (sortById d).Perm d := by
  rw [sortById_eq]; exact List.perm_insertionSort _ _

theorem mem_sortById {d : PhaseList} {e : Int × Phase} : e ∈ sortById d ↔ e ∈ d :=
  (sortById_perm d).mem_iff

theorem ids_sortById_perm (d : PhaseList) : (ids (sortById d)).Perm (ids d) :=
  (sortById_perm d).map _

theorem sortById_sorted {d : PhaseList} (hnd : (ids d).Nodup) : (ids (sortById d)).Pairwise (· < ·) := by
  have hle : (sortById d).Pairwise leId := by rw [sortById_eq]; exact List.pairwise_insertionSort _ _
  have hnd' : (ids (sortById d)).Nodup := (ids_sortById_perm d).nodup_iff.2 hnd
  have h1 : (ids (sortById d)).Pairwise (· ≤ ·) := by
    simp only [ids, List.pairwise_map]; exact hle
  have h2 : (ids (sortById d)).Pairwise (· ≠ ·) := hnd'
  exact (h1.and h2).imp (fun h => lt_of_le_of_ne h.1 h.2)

theorem sortById_of_sorted {d : PhaseList} (h : (ids d).Pairwise (· < ·)) : sortById d = d := by
  rw [sortById_eq]
  apply List.Pairwise.insertionSort_eq
  have : (ids d).Pairwise (· ≤ ·) := h.imp le_of_lt
  simpa only [ids, List.pairwise_map] using this

theorem nodup_of_sorted {l : List Int} (h : l.Pairwise (· < ·)) : l.Nodup := h.imp ne_of_lt

/-! #### `d[i] = p` -/

theorem any_id_iff {d : PhaseList} {i : Int} : d.any (fun e => e.1 == i) = true ↔ i ∈ ids d := by
  simp only [List.any_eq_true, beq_iff_eq, ids, List.mem_map]

theorem ids_dictSet (d : PhaseList) (i : Int) (p : Phase) :
    ids (dictSet d i p) = if i ∈ ids d then ids d else ids d ++ [i] := by
  unfold dictSet
  by_cases h : i ∈ ids d
  · simp only [any_id_iff.2 h, if_true, h]
    simp only [ids, List.map_map]
    apply List.map_congr_left
    intro e _
    by_cases he : e.1 = i <;> simp [he]
  · have : d.any (fun e => e.1 == i) = false := by
      rw [Bool.eq_false_iff]; exact fun hh => h (any_id_iff.1 hh)
    have h' : i ∉ List.map (fun x : Int × Phase => x.1) d := h
    simp [this, ids, h']

theorem mem_dictSet {d : PhaseList} {i : Int} {p : Phase} {e : Int × Phase} :
    e ∈ dictSet d i p ↔ (e = (i, p) ∧ True) ∨ (e ∈ d ∧ e.1 ≠ i) ∨ (e = (i, p) ∧ i ∈ ids d) := by
  unfold dictSet
  by_cases h : i ∈ ids d
  · simp only [any_id_iff.2 h, if_true, List.mem_map]
    constructor
    · rintro ⟨f, hf, rfl⟩
      by_cases hfi : f.1 = i
      · left; simp [hfi]
      · right; left; simp [hfi, hf]
    · rintro (⟨rfl, _⟩ | ⟨he, hne⟩ | ⟨rfl, _⟩)
      · obtain ⟨f, hf, hfi⟩ := List.mem_map.1 h
        exact ⟨f, hf, by simp [hfi]⟩
      · exact ⟨e, he, by simp [hne]⟩
      · obtain ⟨f, hf, hfi⟩ := List.mem_map.1 h
        exact ⟨f, hf, by simp [hfi]⟩
  · have : d.any (fun e => e.1 == i) = false := by
      rw [Bool.eq_false_iff]; exact fun hh => h (any_id_iff.1 hh)
    simp only [this, Bool.false_eq_true, if_false, List.mem_append, List.mem_singleton]
    constructor
    · rintro (he | rfl)
      · right; left
        exact ⟨he, fun hei => h (by rw [← hei]; exact List.mem_map_of_mem he)⟩
      · left; exact ⟨rfl, trivial⟩
    · rintro (⟨rfl, _⟩ | ⟨he, _⟩ | ⟨_, hi⟩)
      · right; rfl
      · left; exact he
      · exact absurd hi h

theorem mem_dictSet' {d : PhaseList} {i : Int} {p : Phase} {e : Int × Phase} (he : e ∈ dictSet d i p) :
    e = (i, p) ∨ (e ∈ d ∧ e.1 ≠ i) := by
  rcases mem_dictSet.1 he with ⟨h, _⟩ | h | ⟨h, _⟩
  · exact Or.inl h
  · exact Or.inr h
  · exact Or.inl h

theorem nodup_dictSet {d : PhaseList} (h : (ids d).Nodup) (i : Int) (p : Phase) : (ids (dictSet d i p)).Nodup := by
  rw [ids_dictSet]
  by_cases hi : i ∈ ids d
  · simp [hi, h]
  · simp only [hi, if_false]
    exact List.Nodup.append h (by simp) (by simpa using hi)

theorem ids_subset_dictSet (d : PhaseList) (i : Int) (p : Phase) : ∀ x ∈ ids d, x ∈ ids (dictSet d i p) := by
  intro x hx
  rw [ids_dictSet]
  by_cases hi : i ∈ ids d <;> simp [hi, hx]

theorem self_mem_ids_dictSet (d : PhaseList) (i : Int) (p : Phase) : i ∈ ids (dictSet d i p) := by
  rw [ids_dictSet]
  by_cases hi : i ∈ ids d <;> simp [hi]

theorem nodup_ofPairs (ps : List (Int × Phase)) : (ids (ofPairs ps)).Nodup := by
  unfold ofPairs
  have : ∀ (d : PhaseList), (ids d).Nodup → (ids (ps.foldl (fun d e => dictSet d e.1 e.2) d)).Nodup := by
    induction ps with
    | nil => intro d h; exact h
    | cons e ps ih => intro d h; exact ih _ (nodup_dictSet h _ _)
  exact this [] (by simp [ids])

/-! #### `max(ids)` -/

theorem foldl_max_int_le (xs : List Int) (x : Int) :
    x ≤ xs.foldl max x ∧ ∀ y ∈ xs, y ≤ xs.foldl max x := by
  induction xs generalizing x with
  | nil => simp
  | cons a xs ih =>
    simp only [List.foldl_cons, List.mem_cons, forall_eq_or_imp]
    obtain ⟨h1, h2⟩ := ih (max x a)
    exact ⟨le_trans (le_max_left _ _) h1, le_trans (le_max_right _ _) h1, h2⟩

theorem foldl_max_int_mem (xs : List Int) (x : Int) : xs.foldl max x ∈ x :: xs := by
  induction xs generalizing x with
  | nil => simp
  | cons a xs ih =>
    simp only [List.foldl_cons]
    have := ih (max x a)
    rcases List.mem_cons.1 this with h | h
    · rcases max_choice x a with hc | hc
      · rw [h, hc]; simp
      · rw [h, hc]; simp
    · exact List.mem_cons_of_mem _ (List.mem_cons_of_mem _ h)

theorem maxId_spec {l : List Int} {m : Int} (h : maxId l = some m) : m ∈ l ∧ ∀ y ∈ l, y ≤ m := by
  cases l with
  | nil => simp [maxId] at h
  | cons x xs =>
    simp only [maxId, Option.some.injEq] at h
    subst h
    refine ⟨foldl_max_int_mem xs x, ?_⟩
    intro y hy
    rcases List.mem_cons.1 hy with rfl | hy
    · exact (foldl_max_int_le xs y).1
    · exact (foldl_max_int_le xs x).2 y hy

theorem maxId_eq_none {l : List Int} : maxId l = none ↔ l = [] := by
  cases l <;> simp [maxId]

/-! #### the phase-list invariant -/

/-- the phase-list part of the invariant -/
structure PLInv (d : PhaseList) : Prop where
  sorted : (ids d).Pairwise (· < ·)
  notIdx : ∀ e ∈ d, e.1 = -1 ↔ e.2.name = "not_indexed"
  lower : ∀ e ∈ d, -1 ≤ e.1

theorem plinv_addNotIndexed {d : PhaseList} (h : PLInv d) :
    PLInv (Orix.PhaseList.addNotIndexed d) ∧ (∀ x ∈ ids d, x ∈ ids (addNotIndexed d)) ∧ (-1 : Int) ∈ ids (addNotIndexed d) := by
  unfold Orix.PhaseList.addNotIndexed
  have hnd := nodup_dictSet (nodup_of_sorted h.sorted) (-1) Phase.notIndexed
  refine ⟨⟨sortById_sorted hnd, ?_, ?_⟩, ?_, ?_⟩
  · intro e he
    rcases mem_dictSet' (mem_sortById.1 he) with rfl | ⟨hd, hne⟩
    · simp [Phase.notIndexed]
    · have := h.notIdx e hd
      constructor
      · intro h1; exact absurd h1 hne
      · intro h2; exact absurd (this.2 h2) hne
  · intro e he
    rcases mem_dictSet' (mem_sortById.1 he) with rfl | ⟨hd, _⟩
    · simp
    · exact h.lower e hd
  · intro x hx
    exact (ids_sortById_perm _).mem_iff.2 (ids_subset_dictSet d _ _ x hx)
  · exact (ids_sortById_perm _).mem_iff.2 (self_mem_ids_dictSet d _ _)

theorem plinv_sortById_eq {d : PhaseList} (h : PLInv d) : sortById d = d :=
  sortById_of_sorted h.sorted

theorem plinv_dictSet_new {d : PhaseList} {nid : Int} {p : Phase} (h : PLInv d) (hp : p.name ≠ "not_indexed")
    (hgt : ∀ x ∈ ids d, x < nid) (hnn : 0 ≤ nid) :
    PLInv (dictSet d nid p) ∧ (∀ x ∈ ids d, x ∈ ids (dictSet d nid p)) := by
  have hnotin : nid ∉ ids d := fun hin => by have := hgt nid hin; omega
  refine ⟨⟨?_, ?_, ?_⟩, ids_subset_dictSet d _ _⟩
  · rw [ids_dictSet]
    simp only [hnotin, if_false]
    rw [List.pairwise_append]
    refine ⟨h.sorted, by simp, ?_⟩
    intro a ha b hb
    simp only [List.mem_singleton] at hb
    subst hb
    exact hgt a ha
  · intro e he
    rcases mem_dictSet' he with rfl | ⟨hd, _⟩
    · simp only
      constructor
      · intro h1; omega
      · intro h2; exact absurd h2 hp
    · exact h.notIdx e hd
  · intro e he
    rcases mem_dictSet' he with rfl | ⟨hd, _⟩
    · simp only; omega
    · exact h.lower e hd

theorem plinv_add1 {d d' : PhaseList} {p : Phase} (h : PLInv d) (hp : p.name ≠ "not_indexed")
    (ha : add1 d p = some d') : PLInv d' ∧ (∀ x ∈ ids d, x ∈ ids d') := by
  unfold Orix.PhaseList.add1 at ha
  by_cases hc : (names d).contains p.name = true
  · rw [if_pos hc] at ha; cases ha
  · rw [if_neg hc] at ha
    cases hm : maxId (ids d) with
    | none =>
      simp only [hm, Option.some.injEq] at ha
      subst ha
      exact plinv_dictSet_new h hp (by rw [maxId_eq_none.1 hm]; simp) (le_refl _)
    | some m =>
      simp only [hm, Option.some.injEq] at ha
      subst ha
      obtain ⟨hm1, hm2⟩ := maxId_spec hm
      obtain ⟨e, he, hei⟩ := List.mem_map.1 hm1
      have hlow := h.lower e he
      refine plinv_dictSet_new h hp (fun x hx => ?_) ?_
      · have := hm2 x hx; omega
      · omega

theorem plinv_add {d : PhaseList} (h : PLInv d) (ps : List Phase) (hps : ∀ p ∈ ps, p.name ≠ "not_indexed") :
    PLInv (add d ps).1 ∧ (∀ x ∈ ids d, x ∈ ids (add d ps).1) := by
  induction ps generalizing d with
  | nil => exact ⟨h, fun x hx => hx⟩
  | cons p ps ih =>
    unfold Orix.PhaseList.add
    cases ha : add1 d p with
    | none => exact ⟨h, fun x hx => hx⟩
    | some d' =>
      obtain ⟨h', hsub⟩ := plinv_add1 h (hps p (by simp)) ha
      obtain ⟨h'', hsub'⟩ := ih h' (fun q hq => hps q (by simp [hq]))
      exact ⟨h'', fun x hx => hsub' x (hsub x hx)⟩

theorem plinv_filter {d : PhaseList} (h : PLInv d) (f : Int × Phase → Bool) : PLInv (d.filter f) := by
  refine ⟨?_, fun e he => h.notIdx e (List.mem_filter.1 he).1, fun e he => h.lower e (List.mem_filter.1 he).1⟩
  exact h.sorted.sublist ((List.filter_sublist).map _)

theorem mem_ids_pop {d : PhaseList} {i x : Int} (hx : x ∈ ids d) (hne : x ≠ i) :
    x ∈ ids (d.filter fun e => !(e.1 == i)) := by
  obtain ⟨e, he, rfl⟩ := List.mem_map.1 hx
  exact List.mem_map.2 ⟨e, List.mem_filter.2 ⟨he, by simpa using hne⟩, rfl⟩

end Orix.PhaseList

namespace Orix.XMap
open Orix

/-- the invariant of property C12 (stated over *all* original points, hence valid for every selection) -/
structure Inv (s : Sys) : Prop where
  pl : PhaseList.PLInv s.phases
  covers : ∀ p, p < s.n → s.phaseId p ∈ PhaseList.ids s.phases

def Value.values : Value → List Int
  | .scalar v => [v]
  | .array vs => vs

theorem lookup_mem_zip {I : List Nat} {vs : List Int} {p : Nat} {v : Int}
    (h : (I.zip vs).lookup p = some v) : v ∈ vs := by
  induction I generalizing vs with
  | nil => simp at h
  | cons a I ih =>
    cases vs with
    | nil => simp at h
    | cons w vs =>
      simp only [List.zip_cons_cons, List.lookup_cons] at h
      by_cases hpa : (p == a) = true
      · simp only [hpa] at h
        simp only [Option.some.injEq] at h
        subst h; simp
      · have : (p == a) = false := by simpa using hpa
        simp only [this] at h
        exact List.mem_cons_of_mem _ (ih h)

theorem lookup_zip_none {I : List Nat} {vs : List Int} {p : Nat} (hp : p ∉ I) :
    (I.zip vs).lookup p = none := by
  rw [List.lookup_eq_none_iff]
  intro e he
  have hmem := (List.of_mem_zip (a := e.1) (b := e.2) he).1
  have : p ≠ e.1 := fun heq => hp (heq ▸ hmem)
  simpa using this

theorem assign_values {I : List Nat} {old : Nat → Int} {val : Value} {f : Nat → Int}
    (h : assign I old val = .ok f) (p : Nat) : f p = old p ∨ f p ∈ val.values := by
  cases val with
  | scalar v =>
    simp only [assign, Except.ok.injEq] at h
    subst h
    by_cases hc : p ∈ I <;> simp [hc, Value.values]
  | array vs =>
    simp only [assign] at h
    by_cases hl : vs.length = I.length
    · simp only [hl, if_true, Except.ok.injEq] at h
      subst h
      cases hlk : (I.zip vs).lookup p with
      | none => left; simp [hlk]
      | some v => right; simp only [hlk, Value.values]; exact lookup_mem_zip hlk
    · simp only [hl, if_false] at h
      match vs, h with
      | [v], h =>
        simp only [Except.ok.injEq] at h
        subst h
        by_cases hc : p ∈ I <;> simp [hc, Value.values]

/-- **frame**: an assignment through a selection leaves every point outside the selection untouched -/
theorem assign_frame {I : List Nat} {old : Nat → Int} {val : Value} {f : Nat → Int}
    (h : assign I old val = .ok f) {p : Nat} (hp : p ∉ I) : f p = old p := by
  cases val with
  | scalar v =>
    simp only [assign, Except.ok.injEq] at h
    subst h
    simp [hp]
  | array vs =>
    simp only [assign] at h
    by_cases hl : vs.length = I.length
    · simp only [hl, if_true, Except.ok.injEq] at h
      subst h
      simp [lookup_zip_none hp]
    · simp only [hl, if_false] at h
      match vs, h with
      | [v], h =>
        simp only [Except.ok.injEq] at h
        subst h
        simp [hp]

theorem hasNeg1_of_mem {val : Value} (h : (-1 : Int) ∈ val.values) : val.hasNeg1 = true := by
  cases val with
  | scalar v => simp only [Value.values, List.mem_singleton] at h; simp [Value.hasNeg1, ← h]
  | array vs => simpa [Value.hasNeg1, Value.values] using h

theorem admissible_values {s : Sys} {v : Nat} {val : Value} (h : admissible s (.setPhaseId v val) = true) :
    ∀ x ∈ val.values, x = -1 ∨ x ∈ PhaseList.ids s.phases := by
  intro x hx
  cases val with
  | scalar w =>
    simp only [Value.values, List.mem_singleton] at hx
    subst hx
    simpa [admissible] using h
  | array vs =>
    simp only [Value.values] at hx
    have := h
    simp only [admissible, List.all_eq_true] at this
    simpa using this x hx


theorem step_select_fields (s : Sys) (v : Nat) (k : Key) :
    (step s (.select v k)).1.phases = s.phases ∧ (step s (.select v k)).1.phaseId = s.phaseId ∧
    (step s (.select v k)).1.grid = s.grid ∧ (step s (.select v k)).1.props = s.props := by
  unfold step
  cases hv : s.views[v]? with
  | none => simp [hv]
  | some m =>
    cases hg : getItem s.base m k with
    | ok m' => simp [hv, hg]
    | error e => simp [hv, hg]

theorem step_setProp_fields (s : Sys) (v : Nat) (nm : String) (val : Value) :
    (step s (.setProp v nm val)).1.phases = s.phases ∧ (step s (.setProp v nm val)).1.phaseId = s.phaseId ∧
    (step s (.setProp v nm val)).1.grid = s.grid ∧ (step s (.setProp v nm val)).1.views = s.views := by
  unfold step
  cases hv : s.views[v]? with
  | none => simp [hv]
  | some m =>
    simp only [hv]
    split <;> simp

theorem inv_of_fields {s s' : Sys} (h : Inv s) (h1 : s'.phases = s.phases) (h2 : s'.phaseId = s.phaseId)
    (h3 : s'.grid = s.grid) : Inv s' := by
  refine ⟨by rw [h1]; exact h.pl, ?_⟩
  intro p hp
  rw [h1, h2]
  exact h.covers p (by simpa [Sys.n, h3] using hp)

/-- **every admissible operation preserves the invariant** -/
theorem inv_step {s : Sys} (h : Inv s) (o : Op) (ha : admissible s o = true) : Inv (step s o).1 := by
  cases o with
  | select v k =>
    obtain ⟨h1, h2, h3, _⟩ := step_select_fields s v k
    exact inv_of_fields h h1 h2 h3
  | setProp v nm val =>
    obtain ⟨h1, h2, h3, _⟩ := step_setProp_fields s v nm val
    exact inv_of_fields h h1 h2 h3
  | setPhaseId v val =>
    cases hv : s.views[v]? with
    | none => simpa [step, hv] using h
    | some m =>
      cases has : assign (ids s.n m) s.phaseId val with
      | error e => simpa [step, hv, has] using h
      | ok pid' =>
        simp only [step, hv, has]
        have hvals := admissible_values ha
        by_cases hc : (val.hasNeg1 && !((PhaseList.names s.phases).contains "not_indexed")) = true
        · simp only [hc, if_true]
          obtain ⟨hpl, hsub, hneg⟩ := PhaseList.plinv_addNotIndexed h.pl
          refine ⟨hpl, ?_⟩
          intro p hp
          show pid' p ∈ PhaseList.ids (PhaseList.addNotIndexed s.phases)
          rcases assign_values has p with heq | hmem
          · rw [heq]; exact hsub _ (h.covers p hp)
          · rcases hvals _ hmem with h1 | h1
            · rw [h1]; exact hneg
            · exact hsub _ h1
        · simp only [hc, Bool.false_eq_true, if_false]
          refine ⟨h.pl, ?_⟩
          intro p hp
          show pid' p ∈ PhaseList.ids s.phases
          rcases assign_values has p with heq | hmem
          · rw [heq]; exact h.covers p hp
          · rcases hvals _ hmem with h1 | h1
            · -- the value -1 was assigned and no phase was added: `not_indexed` is already a name, so -1 is an id
              have hneg : val.hasNeg1 = true := hasNeg1_of_mem (h1 ▸ hmem)
              have hcont : (PhaseList.names s.phases).contains "not_indexed" = true := by
                simpa [hneg] using hc
              have : "not_indexed" ∈ PhaseList.names s.phases := by simpa using hcont
              obtain ⟨e, he, hen⟩ := List.mem_map.1 this
              have hid : e.1 = -1 := (h.pl.notIdx e he).2 hen
              rw [h1, ← hid]
              exact List.mem_map_of_mem he
            · exact h1
  | plAdd ps =>
    simp only [step]
    have hps : ∀ p ∈ ps, p.name ≠ "not_indexed" := by
      intro p hp
      have := ha
      simp only [admissible, List.all_eq_true] at this
      simpa using this p hp
    obtain ⟨hpl, hsub⟩ := PhaseList.plinv_add h.pl ps hps
    exact ⟨hpl, fun p hp => hsub _ (h.covers p hp)⟩
  | plDel k =>
    cases k with
    | id i =>
      simp only [step, PhaseList.delItem, PhaseList.dictPop]
      by_cases hany : s.phases.any (fun e => e.1 == i) = true
      · simp only [hany, if_true]
        refine ⟨PhaseList.plinv_filter h.pl _, ?_⟩
        intro p hp
        have hne : s.phaseId p ≠ i := by
          have := ha
          simp only [admissible, List.all_eq_true] at this
          simpa using this p (List.mem_range.2 hp)
        exact PhaseList.mem_ids_pop (h.covers p hp) hne
      · simp only [hany, Bool.false_eq_true, if_false]
        exact h
    | name nm =>
      cases hf : s.phases.find? (fun e => e.2.name == nm) with
      | none => simpa [step, PhaseList.delItem, hf] using h
      | some e =>
        simp only [step, PhaseList.delItem, hf, PhaseList.dictPop]
        by_cases hany : s.phases.any (fun f => f.1 == e.1) = true
        · simp only [hany, if_true]
          refine ⟨PhaseList.plinv_filter h.pl _, ?_⟩
          intro p hp
          have hne : s.phaseId p ≠ e.1 := by
            have := ha
            simp only [admissible, hf, List.all_eq_true] at this
            simpa using this p (List.mem_range.2 hp)
          exact PhaseList.mem_ids_pop (h.covers p hp) hne
        · simp only [hany, Bool.false_eq_true, if_false]
          exact h
  | plAddNotIndexed =>
    simp only [step]
    obtain ⟨hpl, hsub, _⟩ := PhaseList.plinv_addNotIndexed h.pl
    exact ⟨hpl, fun p hp => hsub _ (h.covers p hp)⟩
  | plSort =>
    simp only [step]
    refine ⟨?_, ?_⟩
    · show PhaseList.PLInv (PhaseList.sortById s.phases)
      rw [PhaseList.plinv_sortById_eq h.pl]; exact h.pl
    · intro p hp
      show s.phaseId p ∈ PhaseList.ids (PhaseList.sortById s.phases)
      rw [PhaseList.plinv_sortById_eq h.pl]; exact h.covers p hp

/-- lifted to all finite histories of admissible operations -/
theorem inv_runOps {s : Sys} (h : Inv s) (os : List Op) (ha : admissibleAll s os = true) : Inv (runOps s os) := by
  induction os generalizing s with
  | nil => exact h
  | cons o os ih =>
    simp only [admissibleAll, Bool.and_eq_true] at ha
    exact ih (inv_step h o ha.1) ha.2

end Orix.XMap

namespace Orix.XMap
open Orix

/-! ### `np.unique` -/

theorem mem_insertUniq {x y : Int} {l : List Int} : y ∈ insertUniq x l ↔ y = x ∨ y ∈ l := by
  induction l with
  | nil => simp [insertUniq]
  | cons a l ih =>
    unfold insertUniq
    by_cases h1 : x < a
    · simp [h1]
    · by_cases h2 : x = a
      · subst h2; simp
      · simp only [h1, h2, if_false, List.mem_cons, ih]
        tauto

theorem insertUniq_sorted {x : Int} {l : List Int} (h : l.Pairwise (· < ·)) :
    (insertUniq x l).Pairwise (· < ·) := by
  induction l with
  | nil => simp [insertUniq]
  | cons a l ih =>
    unfold insertUniq
    rw [List.pairwise_cons] at h
    by_cases h1 : x < a
    · simp only [h1, if_true]
      refine List.pairwise_cons.2 ⟨?_, List.pairwise_cons.2 h⟩
      intro b hb
      rcases List.mem_cons.1 hb with rfl | hb
      · exact h1
      · exact lt_trans h1 (h.1 b hb)
    · by_cases h2 : x = a
      · subst h2
        simp only [lt_self_iff_false, if_false, if_true]
        exact List.pairwise_cons.2 h
      · simp only [h1, h2, if_false]
        refine List.pairwise_cons.2 ⟨?_, ih h.2⟩
        intro b hb
        rcases mem_insertUniq.1 hb with rfl | hb
        · omega
        · exact h.1 b hb

theorem mem_uniqueSorted {y : Int} {l : List Int} : y ∈ uniqueSorted l ↔ y ∈ l := by
  induction l with
  | nil => simp [uniqueSorted]
  | cons a l ih =>
    simp only [uniqueSorted, List.foldr_cons, List.mem_cons] at ih ⊢
    rw [mem_insertUniq, ih]

theorem uniqueSorted_sorted (l : List Int) : (uniqueSorted l).Pairwise (· < ·) := by
  induction l with
  | nil => simp [uniqueSorted]
  | cons a l ih =>
    simp only [uniqueSorted, List.foldr_cons] at ih ⊢
    exact insertUniq_sorted ih

/-- the ids the constructor links phases to: the sorted unique ids of the data without `-1` -/
theorem uniq_spec (u : List Int) (hs : u.Pairwise (· < ·)) (hlow : ∀ x ∈ u, -1 ≤ x) :
    let notIdx := u.head? == some (-1)
    let uniq := if notIdx then u.drop 1 else u
    (notIdx = true ↔ (-1 : Int) ∈ u) ∧ uniq.Pairwise (· < ·) ∧ (∀ x, x ∈ uniq ↔ x ∈ u ∧ x ≠ -1) := by
  cases u with
  | nil => simp
  | cons a u =>
    rw [List.pairwise_cons] at hs
    simp only [List.head?_cons, List.drop_one, List.tail_cons]
    by_cases ha : a = -1
    · subst ha
      simp only [beq_self_eq_true, if_true, List.mem_cons, true_or, iff_true, true_and]
      refine ⟨hs.2, ?_⟩
      intro x
      constructor
      · intro hx; exact ⟨Or.inr hx, ne_of_gt (hs.1 x hx)⟩
      · rintro ⟨h1 | h1, h2⟩
        · exact absurd h1 h2
        · exact h1
    · have hbeq : (some a == some (-1 : Int)) = false := by simpa using ha
      simp only [hbeq, Bool.false_eq_true, if_false, false_iff, List.mem_cons]
      have hnot : (-1 : Int) ∉ u := by
        intro hin
        have h1 := hs.1 _ hin
        have h2 := hlow a (by simp)
        omega
      refine ⟨?_, List.pairwise_cons.2 hs, ?_⟩
      · rintro (h | h)
        · exact ha h.symm
        · exact hnot h
      · intro x
        constructor
        · intro hx
          refine ⟨hx, ?_⟩
          rintro rfl
          rcases hx with h | h
          · exact ha h.symm
          · exact hnot h
        · exact fun h => h.1

end Orix.XMap

namespace Orix.PhaseList
open Orix

/-- with pairwise distinct keys `dict(zip(keys, values))` is the list of pairs itself -/
theorem foldl_dictSet_nodup (ps : List (Int × Phase)) :
    ∀ d : PhaseList, (ids d ++ ps.map (·.1)).Nodup → ps.foldl (fun d e => dictSet d e.1 e.2) d = d ++ ps := by
  induction ps with
  | nil => intro d _; simp
  | cons e ps ih =>
    intro d h
    simp only [List.foldl_cons]
    have hnot : e.1 ∉ ids d := by
      intro hin
      rw [List.nodup_append] at h
      exact h.2.2 e.1 hin e.1 (by simp) rfl
    have hset : dictSet d e.1 e.2 = d ++ [e] := by
      unfold dictSet
      have : d.any (fun f => f.1 == e.1) = false := by
        rw [Bool.eq_false_iff]; exact fun hh => hnot (any_id_iff.1 hh)
      simp [this]
    rw [hset, ih (d ++ [e])]
    · simp
    · have : ids (d ++ [e]) ++ ps.map (·.1) = ids d ++ (e :: ps).map (·.1) := by simp [ids]
      rw [this]; exact h

theorem ofPairs_of_nodup {ps : List (Int × Phase)} (h : (ps.map (·.1)).Nodup) : ofPairs ps = ps := by
  unfold ofPairs
  rw [foldl_dictSet_nodup ps [] (by simpa [ids] using h)]
  simp

end Orix.PhaseList

namespace Orix.XMap
open Orix

theorem length_filter_pop {d : PhaseList} {i : Int} (hnd : (PhaseList.ids d).Nodup) (hi : i ∈ PhaseList.ids d) :
    (d.filter fun e => !(e.1 == i)).length + 1 = d.length := by
  induction d with
  | nil => simp [PhaseList.ids] at hi
  | cons e d ih =>
    simp only [PhaseList.ids, List.map_cons, List.nodup_cons, List.mem_cons] at hnd hi
    by_cases he : e.1 = i
    · subst he
      have : (d.filter fun f => !(f.1 == e.1)) = d := by
        rw [List.filter_eq_self]
        intro f hf
        have : f.1 ≠ e.1 := fun h => hnd.1 (by rw [← h]; exact List.mem_map_of_mem hf)
        simpa using this
      simp [List.filter_cons, this]
    · have hi' : i ∈ PhaseList.ids d := by
        rcases hi with h | h
        · exact absurd h.symm he
        · exact h
      have := ih hnd.2 hi'
      simp [List.filter_cons, he]
      omega

theorem dropSurplus_length (uniq : List Int) :
    ∀ (l : List Int) (k : Nat) (d : PhaseList), l.Nodup → (∀ i ∈ l, i ∈ PhaseList.ids d) →
      (PhaseList.ids d).Nodup → k ≤ (l.filter fun i => !uniq.contains i).length →
      (dropSurplus uniq l k d).length + k = d.length := by
  intro l
  induction l with
  | nil => intro k d _ _ _ hk; simp at hk; subst hk; simp [dropSurplus]
  | cons i rest ih =>
    intro k d hl hsub hnd hk
    cases k with
    | zero => simp [dropSurplus]
    | succ k =>
      rw [List.nodup_cons] at hl
      unfold dropSurplus
      by_cases hc : uniq.contains i = true
      · simp only [hc, if_true]
        apply ih (k + 1) d hl.2 (fun j hj => hsub j (by simp [hj])) hnd
        have hm : i ∈ uniq := by simpa using hc
        simpa [List.filter_cons, hm] using hk
      · have hc' : uniq.contains i = false := by simpa using hc
        simp only [hc', Bool.false_eq_true, if_false]
        have hi : i ∈ PhaseList.ids d := hsub i (by simp)
        have hlen := length_filter_pop hnd hi
        have hnd' : (PhaseList.ids (d.filter fun e => !(e.1 == i))).Nodup :=
          hnd.sublist ((List.filter_sublist).map _)
        have := ih k (d.filter fun e => !(e.1 == i)) hl.2
          (fun j hj => PhaseList.mem_ids_pop (hsub j (by simp [hj])) (fun h => hl.1 (h ▸ hj))) hnd'
          (by have hm : i ∉ uniq := by simpa using hc'
              simpa [List.filter_cons, hm] using hk)
        omega

theorem dropSurplus_sub (uniq : List Int) : ∀ (l : List Int) (k : Nat) (d : PhaseList),
    ∀ e ∈ dropSurplus uniq l k d, e ∈ d := by
  intro l
  induction l with
  | nil => intro k d e he; simpa [dropSurplus] using he
  | cons i rest ih =>
    intro k d e he
    cases k with
    | zero => simpa [dropSurplus] using he
    | succ k =>
      unfold dropSurplus at he
      by_cases hc : uniq.contains i = true
      · simp only [hc, if_true] at he; exact ih _ _ e he
      · have hc' : uniq.contains i = false := by simpa using hc
        simp only [hc', Bool.false_eq_true, if_false] at he
        exact (List.mem_filter.1 (ih _ _ e he)).1

/-- pigeonhole: at most `|uniq|` of the pairwise distinct ids of the list can be ids of the data -/
theorem surplus_le (uniq pids : List Int) (hnd : pids.Nodup) :
    pids.length - uniq.length ≤ (pids.filter fun i => !uniq.contains i).length := by
  have h1 : (pids.filter fun i => uniq.contains i).length ≤ uniq.length := by
    have hsub : (pids.filter fun i => uniq.contains i) ⊆ uniq := by
      intro x hx
      have := (List.mem_filter.1 hx).2
      simpa using this
    exact (List.subperm_of_subset (hnd.sublist List.filter_sublist) hsub).length_le
  have h2 : (pids.filter fun i => uniq.contains i).length + (pids.filter fun i => !uniq.contains i).length
      = pids.length := by
    have := List.length_eq_length_filter_add (l := pids) (fun i => uniq.contains i)
    simpa using this.symm
  omega


theorem dictGet_mem {d : PhaseList} {i : Int} {p : Phase} (h : PhaseList.dictGet d i = some p) :
    ∃ e ∈ d, e.2 = p := by
  unfold PhaseList.dictGet at h
  cases hf : d.find? (fun e => e.1 == i) with
  | none => simp [hf] at h
  | some e =>
    simp only [hf, Option.some.injEq] at h
    exact ⟨e, List.mem_of_find?_eq_some hf, h⟩

/-- what `CrystalMap.__init__` makes of the caller's phase list: exactly one phase per id of the data, each
either one of the caller's phases or a default phase -/
theorem reconcile_spec (uniq : List Int) (pl : PhaseList) (hu : uniq.Pairwise (· < ·))
    (hpl : (PhaseList.ids pl).Nodup) :
    PhaseList.ids (reconcile uniq pl) = uniq ∧
      ∀ e ∈ reconcile uniq pl, e.2 = Phase.dflt ∨ ∃ f ∈ pl, f.2 = e.2 := by
  have hund : uniq.Nodup := PhaseList.nodup_of_sorted hu
  -- the intermediate list `pl1` has at least as many phases as there are ids, all from `pl` or default
  have key : ∀ pl1 : PhaseList, uniq.length ≤ pl1.length →
      (∀ e ∈ pl1, e.2 = Phase.dflt ∨ ∃ f ∈ pl, f.2 = e.2) →
      PhaseList.ids (PhaseList.ofPairs (uniq.zip (pl1.map (·.2)))) = uniq ∧
        ∀ e ∈ PhaseList.ofPairs (uniq.zip (pl1.map (·.2))), e.2 = Phase.dflt ∨ ∃ f ∈ pl, f.2 = e.2 := by
    intro pl1 hlen hval
    have hfst : (uniq.zip (pl1.map (·.2))).map (·.1) = uniq :=
      List.map_fst_zip (by simpa using hlen)
    rw [PhaseList.ofPairs_of_nodup (by rw [hfst]; exact hund)]
    refine ⟨hfst, ?_⟩
    intro e he
    have := (List.of_mem_zip (a := e.1) (b := e.2) he).2
    obtain ⟨f, hf, hfe⟩ := List.mem_map.1 this
    rcases hval f hf with h | ⟨g, hg, hge⟩
    · left; rw [← hfe]; exact h
    · right; exact ⟨g, hg, by rw [hge, hfe]⟩
  unfold reconcile
  simp only
  by_cases hgt : (PhaseList.ids pl).length > uniq.length
  · simp only [hgt, if_true]
    apply key
    · have hk := surplus_le uniq (PhaseList.ids pl) hpl
      have := dropSurplus_length uniq (PhaseList.ids pl).reverse ((PhaseList.ids pl).length - uniq.length) pl
        (List.nodup_reverse.2 hpl) (fun i hi => List.mem_reverse.1 hi) hpl
        (by rw [List.filter_reverse, List.length_reverse]; exact hk)
      have hl : (PhaseList.ids pl).length = pl.length := by simp [PhaseList.ids]
      omega
    · intro e he
      exact Or.inr ⟨e, dropSurplus_sub _ _ _ _ e he, rfl⟩
  · simp only [hgt, if_false]
    by_cases hlt : (PhaseList.ids pl).length < uniq.length
    · simp only [hlt, if_true]
      set g : Int → Int × Phase := fillFor pl with hg
      have hgfst : ∀ i, (g i).1 = i := by
        intro i; simp only [hg, fillFor]; split <;> rfl
      have hkeys : (uniq.map g).map (·.1) = uniq := by
        rw [List.map_map]
        conv_rhs => rw [← List.map_id uniq]
        exact List.map_congr_left (fun i _ => hgfst i)
      have hof : PhaseList.ofDict (uniq.map g) = uniq.map g := by
        unfold PhaseList.ofDict
        rw [PhaseList.ofPairs_of_nodup (by rw [hkeys]; exact hund)]
        exact PhaseList.sortById_of_sorted (by show ((uniq.map g).map (·.1)).Pairwise _; rw [hkeys]; exact hu)
      rw [hof]
      apply key
      · simp
      · intro e he
        obtain ⟨i, _, rfl⟩ := List.mem_map.1 he
        simp only [hg, fillFor]
        split
        · rename_i p hp
          have hp' : PhaseList.dictGet pl i = some p := by
            by_cases hc : (PhaseList.ids pl).contains i = true
            · simpa only [hc, if_true] using hp
            · rw [if_neg hc] at hp; cases hp
          obtain ⟨f, hf, hfp⟩ := dictGet_mem hp'
          exact Or.inr ⟨f, hf, hfp⟩
        · exact Or.inl rfl
    · simp only [hlt, if_false]
      apply key
      · have hl : (PhaseList.ids pl).length = pl.length := by simp [PhaseList.ids]
        omega
      · intro e he; exact Or.inr ⟨e, he, rfl⟩

end Orix.XMap

namespace Orix.PhaseList
open Orix

theorem ofPairs_append (l : List (Int × Phase)) (e : Int × Phase) :
    ofPairs (l ++ [e]) = dictSet (ofPairs l) e.1 e.2 := by
  simp [ofPairs, List.foldl_append]

theorem foldl_keywords_ids (step : Option (PhaseList × Int) → Nat → Option (PhaseList × Int)) (uniq : List Int)
    (hstep : ∀ (d : PhaseList) (it : Int) (i : Nat) (h : i < uniq.length),
      step (some (d, it)) i = some (dictSet d uniq[i] Phase.dflt, it)) :
    ∀ k, k ≤ uniq.length →
      (List.range k).foldl step (some ([], 0)) = some (ofPairs ((uniq.take k).map (·, Phase.dflt)), 0) := by
  intro k
  induction k with
  | zero => intro _; simp [ofPairs]
  | succ k ih =>
    intro hk
    have hk' : k < uniq.length := by omega
    rw [List.range_succ, List.foldl_append, ih (by omega)]
    simp only [List.foldl_cons, List.foldl_nil]
    rw [hstep _ _ k hk']
    have : uniq.take (k + 1) = uniq.take k ++ [uniq[k]] := by
      rw [List.take_succ]; simp [List.getElem?_eq_getElem hk']
    rw [this, List.map_append, List.map_singleton, ofPairs_append]

theorem ofKeywords_ids_only (uniq : List Int) :
    ofKeywords none none none (some uniq) none = some (sortById (ofPairs (uniq.map (·, Phase.dflt)))) := by
  unfold ofKeywords
  simp only [List.length_nil, Nat.max_self, Nat.zero_max, Nat.max_zero, max_self]
  rw [foldl_keywords_ids _ uniq ?_ uniq.length (le_refl _)]
  · simp
  · intro d it i h
    simp [List.getElem?_eq_getElem h, Phase.dflt]

theorem plinv_of_ids_names {d : PhaseList} (hs : (ids d).Pairwise (· < ·))
    (hn : ∀ e ∈ d, e.2.name ≠ "not_indexed") (hpos : ∀ x ∈ ids d, (0 : Int) ≤ x) : PLInv d := by
  refine ⟨hs, ?_, ?_⟩
  · intro e he
    have h0 := hpos e.1 (List.mem_map_of_mem he)
    constructor
    · intro h1; omega
    · intro h2; exact absurd h2 (hn e he)
  · intro e he
    have h0 := hpos e.1 (List.mem_map_of_mem he)
    omega
end Orix.PhaseList

namespace Orix.XMap
open Orix

/-- the constructor establishes the invariant as soon as the reconciled list (before `add_not_indexed`)
has exactly the non-negative ids of the data and no phase called `not_indexed` -/
theorem inv_init_core (g : Grid) (pid : Nat → Int) (props : List (String × (Nat → Int))) (mask : Mask)
    (hlow : ∀ p, p < g.size → -1 ≤ pid p) (mk : List Int → PhaseList)
    (hmk : ∀ uniq : List Int, uniq.Pairwise (· < ·) →
      PhaseList.ids (mk uniq) = uniq ∧ ∀ e ∈ mk uniq, e.2.name ≠ "not_indexed") :
    let u := uniqueSorted ((List.range g.size).map pid)
    let notIdx := u.head? == some (-1)
    let uniq := if notIdx then u.drop 1 else u
    Inv ⟨g, pid, props, if notIdx then PhaseList.addNotIndexed (mk uniq) else mk uniq, [mask]⟩ := by
  intro u notIdx uniq
  have hus : u.Pairwise (· < ·) := uniqueSorted_sorted _
  have hul : ∀ x ∈ u, -1 ≤ x := by
    intro x hx
    obtain ⟨p, hp, rfl⟩ := List.mem_map.1 (mem_uniqueSorted.1 hx)
    exact hlow p (List.mem_range.1 hp)
  obtain ⟨hni, huniq, hmem⟩ := uniq_spec u hus hul
  obtain ⟨hids, hnames⟩ := hmk uniq huniq
  have hpos : ∀ x ∈ PhaseList.ids (mk uniq), (0 : Int) ≤ x := by
    intro x hx
    rw [hids] at hx
    have := (hmem x).1 hx
    have := hul x this.1
    omega
  have hpl0 : PhaseList.PLInv (mk uniq) :=
    PhaseList.plinv_of_ids_names (by rw [hids]; exact huniq) hnames hpos
  have hcov : ∀ p, p < g.size → pid p = -1 ∨ pid p ∈ PhaseList.ids (mk uniq) := by
    intro p hp
    by_cases h1 : pid p = -1
    · exact Or.inl h1
    · right
      rw [hids]
      exact (hmem _).2 ⟨mem_uniqueSorted.2 (List.mem_map_of_mem (List.mem_range.2 hp)), h1⟩
  by_cases hn : notIdx = true
  · simp only [hn, if_true]
    obtain ⟨hpl, hsub, hneg⟩ := PhaseList.plinv_addNotIndexed hpl0
    refine ⟨hpl, ?_⟩
    intro p hp
    show pid p ∈ _
    rcases hcov p hp with h | h
    · rw [h]; exact hneg
    · exact hsub _ h
  · simp only [hn, Bool.false_eq_true, if_false]
    refine ⟨hpl0, ?_⟩
    intro p hp
    show pid p ∈ _
    rcases hcov p hp with h | h
    · exfalso
      apply hn
      apply hni.2
      rw [← h]
      exact mem_uniqueSorted.2 (List.mem_map_of_mem (List.mem_range.2 hp))
    · exact h

theorem inv_initOld_none' (g : Grid) (pid : Nat → Int) (props : List (String × (Nat → Int))) (mask : Mask)
    (hlow : ∀ p, p < g.size → -1 ≤ pid p) : Inv (initOld g pid none props mask) := by
  have := inv_init_core g pid props mask hlow
    (fun uniq => PhaseList.sortById (PhaseList.ofPairs (uniq.map (·, Phase.dflt)))) (by
      intro uniq hu
      have hk : (uniq.map (·, Phase.dflt)).map (·.1) = uniq := by
        rw [List.map_map]; conv_rhs => rw [← List.map_id uniq]
        exact List.map_congr_left (fun _ _ => rfl)
      rw [PhaseList.ofPairs_of_nodup (by rw [hk]; exact PhaseList.nodup_of_sorted hu)]
      rw [PhaseList.sortById_of_sorted (by show ((uniq.map (·, Phase.dflt)).map (·.1)).Pairwise _; rw [hk]; exact hu)]
      refine ⟨hk, ?_⟩
      intro e he
      obtain ⟨i, _, rfl⟩ := List.mem_map.1 he
      simp [Phase.dflt])
  simpa only [initOld, PhaseList.ofKeywords_ids_only] using this

theorem inv_initOld_some' (g : Grid) (pid : Nat → Int) (pl : PhaseList) (props : List (String × (Nat → Int)))
    (mask : Mask) (hlow : ∀ p, p < g.size → -1 ≤ pid p) (hnd : (PhaseList.ids pl).Nodup)
    (hnames : ∀ e ∈ pl, e.2.name ≠ "not_indexed") : Inv (initOld g pid (some pl) props mask) := by
  have := inv_init_core g pid props mask hlow (fun uniq => reconcile uniq pl) (by
      intro uniq hu
      obtain ⟨h1, h2⟩ := reconcile_spec uniq pl hu hnd
      refine ⟨h1, ?_⟩
      intro e he
      rcases h2 e he with h | ⟨f, hf, hfe⟩
      · rw [h]; simp [Phase.dflt]
      · rw [← hfe]; exact hnames f hf)
  simpa only [initOld] using this

theorem dropNotIndexed_eq_filter (pl : PhaseList) :
    dropNotIndexed pl = pl.filter fun e => !(e.1 == -1) := by
  unfold dropNotIndexed PhaseList.dictPop
  by_cases hany : pl.any (fun e => e.1 == -1) = true
  · simp [hany]
  · simp only [hany, Bool.false_eq_true, if_false]
    symm
    rw [List.filter_eq_self]
    intro e he
    have : ¬ (e.1 == -1) = true := fun hh => hany (List.any_eq_true.2 ⟨e, he, hh⟩)
    simpa using this

/-- `CrystalMap.__init__` (the code as it is now) establishes the invariant without a phase list … -/
theorem inv_init_none' (g : Grid) (pid : Nat → Int) (props : List (String × (Nat → Int))) (mask : Mask)
    (hlow : ∀ p, p < g.size → -1 ≤ pid p) : Inv (init g pid none props mask) :=
  inv_initOld_none' g pid props mask hlow

/-- … and with every caller list with pairwise distinct ids in which only id -1 may be called "not_indexed" -/
theorem inv_init_some' (g : Grid) (pid : Nat → Int) (pl : PhaseList) (props : List (String × (Nat → Int)))
    (mask : Mask) (hlow : ∀ p, p < g.size → -1 ≤ pid p) (hnd : (PhaseList.ids pl).Nodup)
    (hwf : ∀ e ∈ pl, e.2.name = "not_indexed" → e.1 = -1) : Inv (init g pid (some pl) props mask) := by
  unfold init
  simp only [Option.map_some, dropNotIndexed_eq_filter]
  apply inv_initOld_some' g pid _ props mask hlow
  · exact hnd.sublist ((List.filter_sublist).map _)
  · intro e he hname
    have := List.mem_filter.1 he
    have hid := hwf e this.1 hname
    simp [hid] at this

end Orix.XMap

namespace Orix.PhaseList
open Orix

/-! #### add -/

theorem add1_none_iff {d : PhaseList} {p : Phase} : add1 d p = none ↔ p.name ∈ names d := by
  unfold add1
  by_cases hc : (names d).contains p.name = true
  · simp only [hc, if_true, true_iff]; simpa using hc
  · simp only [hc, Bool.false_eq_true, if_false, reduceCtorEq, false_iff]; simpa using hc

theorem names_add1 {d d' : PhaseList} {p : Phase} (h : add1 d p = some d') (hnd : (ids d).Nodup) :
    names d' = names d ++ [p.name] ∧ (ids d').Nodup := by
  unfold add1 at h
  by_cases hc : (names d).contains p.name = true
  · rw [if_pos hc] at h; cases h
  · rw [if_neg hc] at h
    simp only [Option.some.injEq] at h
    subst h
    -- the new id is not an id of the list
    have hnew : ∀ nid : Int, (∀ x ∈ ids d, x < nid) →
        names (dictSet d nid p) = names d ++ [p.name] ∧ (ids (dictSet d nid p)).Nodup := by
      intro nid hgt
      have hnotin : nid ∉ ids d := fun hin => by have := hgt nid hin; omega
      have : d.any (fun e => e.1 == nid) = false := by
        rw [Bool.eq_false_iff]; exact fun hh => hnotin (any_id_iff.1 hh)
      refine ⟨by simp [dictSet, this, names], nodup_dictSet hnd _ _⟩
    cases hm : maxId (ids d) with
    | none => exact hnew 0 (by rw [maxId_eq_none.1 hm]; simp)
    | some m =>
      exact hnew (m + 1) (fun x hx => by have := (maxId_spec hm).2 x hx; omega)

/-- adding phases keeps names pairwise distinct: a phase whose name is already present (in the list or among
the phases added before it) is rejected -/
theorem names_nodup_add (ps : List Phase) : ∀ d : PhaseList, (names d).Nodup → (ids d).Nodup →
    (names (add d ps).1).Nodup := by
  induction ps with
  | nil => intro d h _; exact h
  | cons p ps ih =>
    intro d h hid
    unfold add
    cases ha : add1 d p with
    | none => exact h
    | some d' =>
      obtain ⟨hn, hid'⟩ := names_add1 ha hid
      apply ih d' _ hid'
      rw [hn]
      have hnot : p.name ∉ names d := by
        intro hin
        rw [add1_none_iff.2 hin] at ha
        cases ha
      exact List.Nodup.append h (by simp) (by simpa using hnot)

theorem add_error_iff (ps : List Phase) : ∀ d : PhaseList,
    (add d ps).2 = some .duplicateName ↔ (add d ps).2 ≠ none := by
  induction ps with
  | nil => intro d; simp [add]
  | cons p ps ih =>
    intro d
    unfold add
    cases ha : add1 d p with
    | none => simp
    | some d' => exact ih d'

/-- the first phase whose name is present is rejected on the spot -/
theorem add_rejects (d : PhaseList) (p : Phase) (ps : List Phase) (h : p.name ∈ names d) :
    add d (p :: ps) = (d, some .duplicateName) := by
  unfold add
  rw [add1_none_iff.2 h]

/-! #### item access -/

theorem sorted_filter {d : PhaseList} (h : (ids d).Pairwise (· < ·)) (f : Int × Phase → Bool) :
    (ids (d.filter f)).Pairwise (· < ·) := h.sublist ((List.filter_sublist).map _)

theorem getItem_idList_eq {d : PhaseList} (hs : (ids d).Pairwise (· < ·)) (l : List Int)
    (hall : ∀ k ∈ l, k ∈ ids d) (hne : (d.filter fun e => l.any fun k => k == e.1) ≠ []) :
    getItem d (.idList l) = .ok (d.filter fun e => l.any fun k => k == e.1) := by
  have h1 : (l.all fun k => d.any fun e => e.1 == k) = true := by
    rw [List.all_eq_true]; intro k hk; exact any_id_iff.2 (hall k hk)
  simp only [getItem, h1, if_true, List.isEmpty_eq_false_iff.2 hne, Bool.false_eq_true, if_false]
  rw [sortById_of_sorted (sorted_filter hs _)]

/-- `pl[id]`, `pl[[ids]]`, `pl[(ids)]`, `pl[array]`: a successful access returns exactly the entries of the
list whose id is among the requested ones, in id order -/
theorem getItem_idList_ok {d r : PhaseList} (hs : (ids d).Pairwise (· < ·)) (l : List Int)
    (h : getItem d (.idList l) = .ok r) :
    (∀ e, e ∈ r ↔ e ∈ d ∧ e.1 ∈ l) ∧ (∀ k ∈ l, k ∈ ids d) ∧ r.Sublist d ∧ (ids r).Pairwise (· < ·) := by
  simp only [getItem] at h
  by_cases h1 : (l.all fun k => d.any fun e => e.1 == k) = true
  · simp only [h1, if_true] at h
    by_cases hem : (d.filter fun e => l.any fun k => k == e.1).isEmpty = true
    · simp [hem] at h
    · simp only [hem, Bool.false_eq_true, if_false, Except.ok.injEq] at h
      rw [sortById_of_sorted (sorted_filter hs _)] at h
      subst h
      refine ⟨?_, ?_, List.filter_sublist, sorted_filter hs _⟩
      · intro e
        simp only [List.mem_filter, List.any_eq_true, beq_iff_eq]
        constructor
        · rintro ⟨he, k, hk, rfl⟩; exact ⟨he, hk⟩
        · rintro ⟨he, hk⟩; exact ⟨he, e.1, hk, rfl⟩
      · intro k hk
        rw [List.all_eq_true] at h1
        exact any_id_iff.1 (h1 k hk)
  · simp [h1] at h

/-- … and it fails (with `KeyError`) only if an id is missing or nothing was asked for -/
theorem getItem_idList_error {d : PhaseList} (l : List Int) (e : XErr) (h : getItem d (.idList l) = .error e) :
    e = .keyError ∧ (l = [] ∨ ∃ k ∈ l, k ∉ ids d) := by
  simp only [getItem] at h
  by_cases h1 : (l.all fun k => d.any fun e => e.1 == k) = true
  · simp only [h1, if_true] at h
    by_cases hem : (d.filter fun e => l.any fun k => k == e.1).isEmpty = true
    · simp only [hem, if_true, Except.error.injEq] at h
      refine ⟨h.symm, ?_⟩
      by_cases hl : l = []
      · exact Or.inl hl
      · exfalso
        obtain ⟨k, hk⟩ := List.exists_mem_of_ne_nil l hl
        rw [List.all_eq_true] at h1
        obtain ⟨f, hf, hfk⟩ := List.mem_map.1 (any_id_iff.1 (h1 k hk))
        have : f ∈ d.filter fun e => l.any fun k => k == e.1 :=
          List.mem_filter.2 ⟨hf, List.any_eq_true.2 ⟨k, hk, by simp [hfk]⟩⟩
        rw [List.isEmpty_iff.1 hem] at this
        simp at this
    · simp [hem] at h
  · simp only [h1, Bool.false_eq_true, if_false, Except.error.injEq] at h
    refine ⟨h.symm, Or.inr ?_⟩
    by_contra hcon
    push Not at hcon
    apply h1
    rw [List.all_eq_true]
    intro k hk
    exact any_id_iff.2 (hcon k hk)

/-- `pl[name]`, `pl[[names]]`, `pl[(names)]`: exactly the entries with one of those names; `KeyError` iff
there is none -/
theorem getItem_nameList_ok {d r : PhaseList} (hs : (ids d).Pairwise (· < ·)) (l : List String)
    (h : getItem d (.nameList l) = .ok r) :
    (∀ e, e ∈ r ↔ e ∈ d ∧ e.2.name ∈ l) ∧ r.Sublist d ∧ (ids r).Pairwise (· < ·) ∧ r ≠ [] := by
  simp only [getItem] at h
  by_cases hem : (d.filter fun e => l.any fun k => k == e.2.name).isEmpty = true
  · simp [hem] at h
  · simp only [hem, Bool.false_eq_true, if_false, Except.ok.injEq] at h
    rw [sortById_of_sorted (sorted_filter hs _)] at h
    subst h
    refine ⟨?_, List.filter_sublist, sorted_filter hs _, ?_⟩
    · intro e
      simp only [List.mem_filter, List.any_eq_true, beq_iff_eq]
      constructor
      · rintro ⟨he, k, hk, rfl⟩; exact ⟨he, hk⟩
      · rintro ⟨he, hk⟩; exact ⟨he, e.2.name, hk, rfl⟩
    · intro hnil
      rw [hnil] at hem; simp at hem

theorem getItem_nameList_error {d : PhaseList} (l : List String) (e : XErr)
    (h : getItem d (.nameList l) = .error e) : e = .keyError ∧ ∀ f ∈ d, f.2.name ∉ l := by
  simp only [getItem] at h
  by_cases hem : (d.filter fun e => l.any fun k => k == e.2.name).isEmpty = true
  · simp only [hem, if_true, Except.error.injEq] at h
    refine ⟨h.symm, ?_⟩
    intro f hf hin
    have : f ∈ d.filter fun e => l.any fun k => k == e.2.name :=
      List.mem_filter.2 ⟨hf, List.any_eq_true.2 ⟨f.2.name, hin, by simp⟩⟩
    rw [List.isEmpty_iff.1 hem] at this
    simp at this
  · simp [hem] at h

/-! #### constructor forms -/

theorem sorted_ofList (phases : List Phase) (is : Option (List Int)) : (ids (ofList phases is)).Pairwise (· < ·) :=
  sortById_sorted (nodup_ofPairs _)

theorem sorted_ofDict (es : List (Int × Phase)) : (ids (ofDict es)).Pairwise (· < ·) :=
  sortById_sorted (nodup_ofPairs _)

theorem sorted_ofSingle (p : Phase) (i : Option Int) : (ids (ofSingle p i)).Pairwise (· < ·) := by
  simp [ofSingle, ids]

theorem foldl_option_inv {σ : Type} (P : σ → Prop) (step : Option σ → Nat → Option σ)
    (hstep : ∀ a i b, P a → step (some a) i = some b → P b) (hnone : ∀ i, step none i = none) :
    ∀ (l : List Nat) (a : σ), P a → ∀ b, l.foldl step (some a) = some b → P b := by
  intro l
  induction l with
  | nil => intro a ha b hb; simp at hb; subst hb; exact ha
  | cons i l ih =>
    intro a ha b hb
    simp only [List.foldl_cons] at hb
    cases hs : step (some a) i with
    | none =>
      rw [hs] at hb
      have : ∀ l : List Nat, l.foldl step none = none := by
        intro l; induction l with
        | nil => rfl
        | cons j l ih2 => simp [List.foldl_cons, hnone, ih2]
      rw [this] at hb; cases hb
    | some a' =>
      rw [hs] at hb
      exact ih a' (hstep a i a' ha hs) b hb

theorem sorted_ofKeywords (names : Option (List String)) (sgs pgs : Option (List (Option String)))
    (is : Option (List Int)) (tags : Option (List Nat)) (d : PhaseList)
    (h : ofKeywords names sgs pgs is tags = some d) : (ids d).Pairwise (· < ·) := by
  unfold ofKeywords at h
  simp only at h
  split at h
  · cases h
  · rename_i d0 it hfold
    simp only [Option.some.injEq] at h
    subst h
    apply sortById_sorted
    refine foldl_option_inv (fun (a : PhaseList × Int) => (ids a.1).Nodup) _ ?_ ?_ _ ([], 0) (by simp [ids])
      (d0, it) hfold
    · intro a i b ha hb
      obtain ⟨da, ita⟩ := a
      simp only at hb
      split at hb
      · simp only [Option.some.injEq] at hb; subst hb; exact nodup_dictSet ha _ _
      · split at hb
        · cases hb
        · simp only [Option.some.injEq] at hb; subst hb; exact nodup_dictSet ha _ _
    · intro i; rfl

end Orix.PhaseList

namespace Orix.XMap
open Orix

theorem common_eq_present {s : Sys} (h : Inv s) (m : Mask) :
    ((uniqueSorted ((ids s.n m).map s.phaseId)).filter fun i => (PhaseList.ids s.phases).contains i)
      = uniqueSorted ((ids s.n m).map s.phaseId) := by
  rw [List.filter_eq_self]
  intro i hi
  obtain ⟨p, hp, rfl⟩ := List.mem_map.1 (mem_uniqueSorted.1 hi)
  have := h.covers p (mem_ids.1 hp).1
  simpa using this

theorem spec_filter_eq {s : Sys} (m : Mask) :
    (s.phases.filter fun e => (uniqueSorted ((ids s.n m).map s.phaseId)).any fun k => k == e.1)
      = phasesInDataSpec s m := by
  unfold phasesInDataSpec
  apply List.filter_congr
  intro e _
  rw [Bool.eq_iff_iff]
  simp only [List.any_eq_true, beq_iff_eq, List.contains_iff_mem]
  constructor
  · rintro ⟨k, hk, rfl⟩; exact mem_uniqueSorted.1 hk
  · intro hk; exact ⟨e.1, mem_uniqueSorted.2 hk, rfl⟩

theorem spec_ne_nil {s : Sys} (h : Inv s) {m : Mask} (hne : ids s.n m ≠ []) : phasesInDataSpec s m ≠ [] := by
  obtain ⟨p, hp⟩ := List.exists_mem_of_ne_nil _ hne
  obtain ⟨e, he, hep⟩ := List.mem_map.1 (h.covers p (mem_ids.1 hp).1)
  intro hnil
  have : e ∈ phasesInDataSpec s m := by
    unfold phasesInDataSpec
    refine List.mem_filter.2 ⟨he, ?_⟩
    simp only [List.contains_iff_mem]
    rw [hep]; exact List.mem_map_of_mem hp
  rw [hnil] at this; simp at this

/-- `phases_in_data` with the proposed repair returns exactly the entries of the phase list whose id occurs
in the data -/
theorem phasesInDataGet_eq {s : Sys} (h : Inv s) {m : Mask} (hne : ids s.n m ≠ []) :
    phasesInDataGet s m = .ok (phasesInDataSpec s m) := by
  unfold phasesInDataGet
  simp only [common_eq_present h m]
  rw [PhaseList.getItem_idList_eq h.pl.sorted]
  · rw [spec_filter_eq]
  · intro k hk
    obtain ⟨p, hp, rfl⟩ := List.mem_map.1 (mem_uniqueSorted.1 hk)
    exact h.covers p (mem_ids.1 hp).1
  · rw [spec_filter_eq]; exact spec_ne_nil h hne

/-- the ids of `phases_in_data` are exactly the ids present in the data (ascending, each once) -/
theorem ids_spec {s : Sys} (h : Inv s) (m : Mask) :
    PhaseList.ids (phasesInDataSpec s m) = uniqueSorted ((ids s.n m).map s.phaseId) := by
  apply List.Pairwise.eq_of_mem_iff (r := (· < ·)) (PhaseList.sorted_filter h.pl.sorted _) (uniqueSorted_sorted _)
  intro i
  rw [mem_uniqueSorted]
  simp only [PhaseList.ids, List.mem_map, List.mem_filter, List.contains_iff_mem]
  constructor
  · rintro ⟨e, ⟨_, he⟩, rfl⟩; exact he
  · rintro ⟨p, hp, rfl⟩
    obtain ⟨e, he, hep⟩ := List.mem_map.1 (h.covers p (mem_ids.1 hp).1)
    exact ⟨e, ⟨he, ⟨p, hp, hep.symm⟩⟩, hep⟩

theorem phasesInDataOld_unfold (s : Sys) (m : Mask) :
    phasesInDataOld s m = match phasesInDataGet s m with
      | .error e => .error e
      | .ok [(_, p)] =>
        (match PhaseList.idFromName s.phases p.name with
         | some i => .ok (PhaseList.ofSingle p (some i))
         | none => .error .keyError)
      | .ok d => .ok d := rfl

/-- the code before `fix:` bb01d48 agrees with the specification only when names identify phases -/
theorem phasesInDataOld_eq_of_names {s : Sys} (h : Inv s) {m : Mask} (hne : ids s.n m ≠ [])
    (hnames : ∀ e ∈ s.phases, ∀ f ∈ s.phases, e.2.name = f.2.name → e = f) :
    phasesInDataOld s m = .ok (phasesInDataSpec s m) := by
  rw [phasesInDataOld_unfold, phasesInDataGet_eq h hne]
  match hspec : phasesInDataSpec s m with
  | [] => exact absurd hspec (spec_ne_nil h hne)
  | [(i, p)] =>
    simp only
    have hmem : (i, p) ∈ s.phases := by
      have : (i, p) ∈ phasesInDataSpec s m := by rw [hspec]; simp
      exact (List.mem_filter.1 this).1
    have : PhaseList.idFromName s.phases p.name = some i := by
      unfold PhaseList.idFromName
      cases hf : s.phases.find? (fun e => e.2.name == p.name) with
      | none =>
        have := List.find?_eq_none.1 hf (i, p) hmem
        simp at this
      | some e =>
        have he := List.mem_of_find?_eq_some hf
        have hn : e.2.name = p.name := by simpa using List.find?_some hf
        have := hnames e he (i, p) hmem hn
        simp [this]
    simp [this, PhaseList.ofSingle]
  | _ :: _ :: _ => rfl

theorem phasesInData_unfold (s : Sys) (m : Mask) :
    phasesInData s m = match phasesInDataGet s m with
      | .error e => .error e
      | .ok [(_, p)] =>
        (match ((uniqueSorted ((ids s.n m).map s.phaseId)).filter
            fun i => (PhaseList.ids s.phases).contains i).head? with
         | some i => .ok (PhaseList.ofSingle p (some i))
         | none => .error .keyError)
      | .ok d => .ok d := rfl

/-- **`phases_in_data` is exact** (the code as it is now): for a non-empty selection it returns exactly the
entries of the phase list whose id occurs in the selection -/
theorem phasesInData_eq {s : Sys} (h : Inv s) {m : Mask} (hne : ids s.n m ≠ []) :
    phasesInData s m = .ok (phasesInDataSpec s m) := by
  rw [phasesInData_unfold, phasesInDataGet_eq h hne, common_eq_present h m, ← ids_spec h m]
  match hspec : phasesInDataSpec s m with
  | [] => exact absurd hspec (spec_ne_nil h hne)
  | [(i, p)] => simp [PhaseList.ids, PhaseList.ofSingle]
  | _ :: _ :: _ => rfl

/-- **orientations**: when `orientations` is defined, all points of the selection have one phase id and the
symmetry returned is the point group of the phase stored under that id -/
theorem orientationsSym_spec {s : Sys} (h : Inv s) {m : Mask} {sy : Option String}
    (ho : orientationsSym s m = .ok sy) :
    ∃ i p, (i, p) ∈ s.phases ∧ p.sym = sy ∧ ∀ q ∈ ids s.n m, s.phaseId q = i := by
  have hne : ids s.n m ≠ [] := by
    intro hnil
    unfold orientationsSym at ho
    rw [phasesInData_unfold] at ho
    unfold phasesInDataGet at ho
    simp [hnil, uniqueSorted, PhaseList.getItem] at ho
  unfold orientationsSym at ho
  rw [phasesInData_eq h hne] at ho
  match hspec : phasesInDataSpec s m with
  | [] => exact absurd hspec (spec_ne_nil h hne)
  | [(i, p)] =>
    rw [hspec] at ho
    simp only [Except.ok.injEq] at ho
    have hmem : (i, p) ∈ s.phases := by
      have : (i, p) ∈ phasesInDataSpec s m := by rw [hspec]; simp
      exact (List.mem_filter.1 this).1
    refine ⟨i, p, hmem, ho, ?_⟩
    intro q hq
    have hids := ids_spec h m
    rw [hspec] at hids
    have : s.phaseId q ∈ uniqueSorted ((ids s.n m).map s.phaseId) :=
      mem_uniqueSorted.2 (List.mem_map_of_mem hq)
    rw [← hids] at this
    simpa [PhaseList.ids] using this
  | a :: b :: r =>
    rw [hspec] at ho
    simp at ho


/-! ### witnesses used by the proved counter-examples in `Properties/C12.lean` -/

/-- the caller's list `PhaseList(names=["a","b"], point_groups=["m-3m","432"])` after `add_not_indexed()` -/
def witnessCallerList : PhaseList :=
  [(-1, Phase.notIndexed), (0, ⟨"a", some "m-3m", 1⟩), (1, ⟨"b", some "432", 2⟩)]

/-- `CrystalMap(rotations, phase_id=[0, 1, 1])` without a phase list: two unnamed default phases -/
def witnessTwoUnnamed : Sys := init ⟨1, 3⟩ (fun p => if p = 0 then 0 else 1) none [] (fun _ => true)

end Orix.XMap

namespace Orix.XMap
open Orix

theorem lookup_map_replace (nm : String) (a' : Nat → Int) (l : List (String × (Nat → Int))) :
    (l.map fun e => if e.1 == nm then (nm, a') else e).lookup nm = (l.lookup nm).map fun _ => a' := by
  induction l with
  | nil => rfl
  | cons e l ih =>
    obtain ⟨k, b⟩ := e
    by_cases h : k = nm
    · subst h
      simp [List.lookup_cons]
    · have hf : (k == nm) = false := by simpa using h
      have h' : (nm == k) = false := by simpa using (fun hh : nm = k => h hh.symm)
      simp only [List.map_cons, hf, Bool.false_eq_true, if_false, List.lookup_cons, h', ih]

theorem lookup_append_self (nm : String) (a : Nat → Int) (l : List (String × (Nat → Int)))
    (h : l.lookup nm = none) : (l ++ [(nm, a)]).lookup nm = some a := by
  induction l with
  | nil => simp [List.lookup_cons]
  | cons e l ih =>
    obtain ⟨k, b⟩ := e
    by_cases he : nm = k
    · subst he; simp [List.lookup_cons] at h
    · have hf : (nm == k) = false := by simpa using he
      simp only [List.lookup_cons, hf] at h
      simp only [List.cons_append, List.lookup_cons, hf]
      exact ih h

/-- a successful `xmap[...].prop[name] = value` stores, under `name`, the old array (zeros for a new
property) overwritten at the selected points only -/
theorem setProp_result (s : Sys) (v : Nat) (nm : String) (val : Value) (m : Mask) (hv : s.views[v]? = some m)
    (a' : Nat → Int) (has : assign (ids s.n m) (propOld s.props nm) val = .ok a') :
    (step s (.setProp v nm val)).1.props.lookup nm = some a' ∧
      ∀ p, p ∉ ids s.n m → a' p = propOld s.props nm p := by
  refine ⟨?_, fun p hp => assign_frame has hp⟩
  simp only [step, hv, has]
  rw [lookup_map_replace]
  cases hl : s.props.lookup nm with
  | some a => simp [hl]
  | none => simp [hl, lookup_append_self nm _ s.props hl]

end Orix.XMap
