import OrixModel.NDArray
/-
Naturality of the structural operations: every operation of `OrixModel/NDArray.lean` commutes with
`NDArray.map g` for every `g` — the operation only looks at the shape and moves elements around.
-/
namespace Orix.NDArray
variable {α β : Type}

@[simp] theorem map_shape (g : α → β) (A : NDArray α) : (A.map g).shape = A.shape := rfl
@[simp] theorem map_data (g : α → β) (A : NDArray α) : (A.map g).data = A.data.map g := rfl

theorem optAll_map (g : α → β) (l : List (Option α)) :
    optAll (l.map (Option.map g)) = (optAll l).map (List.map g) := by
  induction l with
  | nil => rfl
  | cons x r ih =>
    cases x with
    | none => rfl
    | some x =>
      simp only [List.map_cons, Option.map_some, optAll, ih]
      cases optAll r <;> rfl

theorem get?_map (g : α → β) (A : NDArray α) (idx : List Nat) :
    (A.map g).get? idx = (A.get? idx).map g := by
  unfold get?
  simp only [map_shape, map_data]
  by_cases h : validIdx A.shape idx = true <;> simp [h]

theorem gatherList_map (g : α → β) (A : NDArray α) (ns : List Nat) (src : List (List Nat)) :
    gatherList (A.map g) ns src = (gatherList A ns src).map (NDArray.map g) := by
  unfold gatherList
  have : src.map (A.map g).get? = (src.map A.get?).map (Option.map g) := by
    simp [List.map_map, get?_map, Function.comp_def]
  rw [this, optAll_map]
  cases optAll (src.map A.get?) <;> rfl

/-- `Except`-level map, written out -/
def emap (f : α → β) : Except NDErr α → Except NDErr β
  | .ok x => .ok (f x)
  | .error e => .error e

@[simp] theorem emap_ok (f : α → β) (x : α) : emap f (.ok x) = .ok (f x) := rfl
@[simp] theorem emap_error (f : α → β) (e : NDErr) : emap f (.error e : Except NDErr α) = .error e := rfl

theorem ofOpt_map (f : α → β) (o : Option α) : ofOpt (o.map f) = emap f (ofOpt o) := by
  cases o <;> rfl

theorem reshape_map (g : α → β) (dims : List Int) (A : NDArray α) :
    reshape dims (A.map g) = emap (NDArray.map g) (reshape dims A) := by
  unfold reshape
  simp only [map_shape, map_data]
  cases resolveShape (prod A.shape) dims with
  | error e => rfl
  | ok ns =>
    simp only [bind, Except.bind]
    by_cases h : ns = [] <;> simp [h] <;> rfl

theorem transposePerm_map (g : α → β) (p : List Nat) (A : NDArray α) :
    transposePerm p (A.map g) = emap (NDArray.map g) (transposePerm p A) := by
  unfold transposePerm
  simp only [map_shape, gatherList_map, ofOpt_map]

theorem transpose_map (g : α → β) (extra : Nat) (axes : Option (List Int)) (A : NDArray α) :
    transpose extra axes (A.map g) = emap (NDArray.map g) (transpose extra axes A) := by
  unfold transpose
  simp only [map_shape]
  by_cases h1 : A.shape.length = 1
  · simp [h1]
  · simp only [h1, if_false]
    cases axes with
    | none =>
      by_cases h2 : A.shape.length = 2
      · simp only [h2, if_true]; exact transposePerm_map g _ A
      · simp [h2]
    | some ax =>
      by_cases h3 : ax.length ≠ A.shape.length
      · simp [h3]
      · simp only [h3, if_false]
        cases normAxes A.shape.length extra ax with
        | error e => rfl
        | ok p => exact transposePerm_map g p A

theorem flatten_map (g : α → β) (A : NDArray α) :
    flatten (A.map g) = emap (NDArray.map g) (flatten A) := by
  unfold flatten
  simp only [map_shape, transposePerm_map]
  cases transposePerm (List.range A.shape.length).reverse A <;> rfl

theorem squeeze_map (g : α → β) (A : NDArray α) : squeeze (A.map g) = (squeeze A).map g := rfl

theorem all_shape_map (g : α → β) (S : List Nat) (rest : List (NDArray α)) :
    ((rest.map (NDArray.map g)).all fun B => B.shape == S) = (rest.all fun B => B.shape == S) := by
  induction rest with
  | nil => rfl
  | cons B r ih => simp only [List.map_cons, List.all_cons, map_shape, ih]

theorem stackData_map (g : α → β) (n : Nat) (As : List (NDArray α)) :
    ((List.range n).flatMap fun j => (As.map (NDArray.map g)).map (fun B => B.data[j]?)) =
      ((List.range n).flatMap fun j => As.map (fun B => B.data[j]?)).map (Option.map g) := by
  simp only [List.map_flatMap, List.map_map, Function.comp_def, map_data, List.getElem?_map]

theorem stack_map (g : α → β) (As : List (NDArray α)) :
    stack (As.map (NDArray.map g)) = emap (NDArray.map g) (stack As) := by
  cases As with
  | nil => rfl
  | cons A rest =>
    have h2 := stackData_map g (prod A.shape) (A :: rest)
    rw [List.map_cons] at h2
    show stack (A.map g :: rest.map (NDArray.map g)) = _
    unfold stack
    simp only [map_shape, List.length_cons, List.length_map]
    rw [all_shape_map]
    by_cases h : (rest.all fun B => B.shape == A.shape) = true
    · rw [if_pos h, if_pos h, h2, optAll_map]
      cases optAll ((List.range (prod A.shape)).flatMap fun j => (A :: rest).map (fun B => B.data[j]?)) <;> rfl
    · rw [if_neg h, if_neg h]; rfl

theorem getitem_map (g : α → β) (k : Key) (A : NDArray α) :
    getitem k (A.map g) = emap (NDArray.map g) (getitem k A) := by
  cases k with
  | tuple items =>
    simp only [getitem, map_shape]
    cases selections A.shape items with
    | error e => rfl
    | ok sels =>
      simp only [bind, Except.bind, gatherList_map, ofOpt_map]
  | mask msh bits =>
    simp only [getitem, map_shape, map_data]
    by_cases h : msh = [] ∨ msh ≠ A.shape.take msh.length ∨ bits.length ≠ prod msh
    · simp only [h, if_true]; rfl
    · have : (⟨prod msh :: List.drop msh.length A.shape, List.map g A.data⟩ : NDArray β) =
          NDArray.map g ⟨prod msh :: List.drop msh.length A.shape, A.data⟩ := rfl
      simp only [h, if_false]
      rw [this, gatherList_map, ofOpt_map]

end Orix.NDArray
