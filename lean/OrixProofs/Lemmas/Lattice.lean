import Mathlib.Tactic.Ring
import Mathlib.Tactic.FieldSimp
import Mathlib.Tactic.LinearCombination
import Mathlib.Tactic.Positivity
import Mathlib.Tactic.NormNum
import Mathlib.Tactic.Linarith
import Mathlib.Algebra.Order.Floor.Ring
import OrixProofs.Lemmas.RealScalar
import OrixModel.Miller
/-
Helper lemmas for C09: 3×3 matrix algebra over ℝ for the model's `Mat3`, the guards of `Lattice.ofBase`,
unit vectors, and the decimal rounding `roundDec`.
-/
namespace Orix
open Scalar

macro "lsimp" : tactic =>
  `(tactic| simp only [Mat3.mul, Mat3.mulVec, Mat3.vecMul, Mat3.one, Mat3.transpose, Mat3.adj, Mat3.inv,
      Mat3.map, Mat3.gram, Mat3.ofRows, Mat3.row0, Mat3.row1, Mat3.row2, Mat3.col0, Mat3.col1, Mat3.col2,
      Vec3.dot, Vec3.cross, Vec3.normSq, Vec3.neg, Vec3.add, Vec3.sub, Vec3.smul, Vec3.zero,
      lit_real, Nat.cast_ofNat, Nat.cast_one, Nat.cast_zero])

namespace LatLemmas

theorem det_def (B : Mat3 ℝ) : Mat3.det B = B.m00 * (B.m11 * B.m22 - B.m12 * B.m21)
    - B.m01 * (B.m10 * B.m22 - B.m12 * B.m20) + B.m02 * (B.m10 * B.m21 - B.m11 * B.m20) := rfl

theorem m3_mul_inv_cancel (B : Mat3 ℝ) (h : Mat3.det B ≠ 0) : Mat3.mul B (Mat3.inv B) = Mat3.one := by
  have hd := det_def B
  lsimp
  generalize Mat3.det B = d at *
  congr 1 <;> (field_simp; first | ring1 | linear_combination hd | linear_combination -hd)

theorem m3_inv_mul_cancel (B : Mat3 ℝ) (h : Mat3.det B ≠ 0) : Mat3.mul (Mat3.inv B) B = Mat3.one := by
  have hd := det_def B
  lsimp
  generalize Mat3.det B = d at *
  congr 1 <;> (field_simp; first | ring1 | linear_combination hd | linear_combination -hd)

theorem det_transpose (B : Mat3 ℝ) : Mat3.det (Mat3.transpose B) = Mat3.det B := by
  simp only [det_def, Mat3.transpose]; ring

theorem det_mul (A B : Mat3 ℝ) : Mat3.det (Mat3.mul A B) = Mat3.det A * Mat3.det B := by
  simp only [det_def, Mat3.mul]; ring

theorem det_one : Mat3.det (Mat3.one : Mat3 ℝ) = 1 := by
  simp only [det_def, Mat3.one, lit_real]; norm_num

theorem det_inv (B : Mat3 ℝ) (h : Mat3.det B ≠ 0) : Mat3.det (Mat3.inv B) = 1 / Mat3.det B := by
  have := det_mul B (Mat3.inv B)
  rw [m3_mul_inv_cancel B h, det_one] at this
  field_simp
  linarith

theorem vecMul_mul (v : Vec3 ℝ) (A B : Mat3 ℝ) :
    Mat3.vecMul (Mat3.vecMul v A) B = Mat3.vecMul v (Mat3.mul A B) := by
  lsimp; congr 1 <;> ring

theorem vecMul_one (v : Vec3 ℝ) : Mat3.vecMul v Mat3.one = v := by
  cases v; lsimp; simp

theorem transpose_mul (A B : Mat3 ℝ) :
    Mat3.transpose (Mat3.mul A B) = Mat3.mul (Mat3.transpose B) (Mat3.transpose A) := by
  lsimp; congr 1 <;> ring

theorem transpose_transpose (A : Mat3 ℝ) : Mat3.transpose (Mat3.transpose A) = A := by
  cases A; rfl

theorem transpose_one : Mat3.transpose (Mat3.one : Mat3 ℝ) = Mat3.one := rfl

theorem m3_mul_assoc (A B C : Mat3 ℝ) : Mat3.mul (Mat3.mul A B) C = Mat3.mul A (Mat3.mul B C) := by
  lsimp; congr 1 <;> ring

theorem m3_mul_one (A : Mat3 ℝ) : Mat3.mul A Mat3.one = A := by cases A; lsimp; simp
theorem m3_one_mul (A : Mat3 ℝ) : Mat3.mul Mat3.one A = A := by cases A; lsimp; simp

/-- the transpose of the inverse is the inverse of the transpose -/
theorem transpose_inv_mul (B : Mat3 ℝ) (h : Mat3.det B ≠ 0) :
    Mat3.mul (Mat3.transpose (Mat3.inv B)) (Mat3.transpose B) = Mat3.one := by
  rw [← transpose_mul, m3_mul_inv_cancel B h, transpose_one]
theorem transpose_mul_inv (B : Mat3 ℝ) (h : Mat3.det B ≠ 0) :
    Mat3.mul (Mat3.transpose B) (Mat3.transpose (Mat3.inv B)) = Mat3.one := by
  rw [← transpose_mul, m3_inv_mul_cancel B h, transpose_one]

/-! ### the constructor guards -/

theorem ofBase_ok {B : Mat3 ℝ} {L : Lattice ℝ} (h : Lattice.ofBase B = .ok L) :
    L = ⟨B, Mat3.inv B, Lattice.metricsOf B⟩ ∧ (1 : ℝ) / 10 ^ 8 ≤ Mat3.det B := by
  simp only [Lattice.ofBase, lt_real, abs_real, dec_real, lit_real, Nat.cast_zero, Nat.cast_one] at h
  split_ifs at h with h1 h2
  injection h with h
  refine ⟨h.symm, ?_⟩
  rw [not_lt] at h1 h2
  rwa [abs_of_nonneg h2] at h1

theorem ofBase_of_det {B : Mat3 ℝ} (h : (1 : ℝ) / 10 ^ 8 ≤ Mat3.det B) :
    Lattice.ofBase B = .ok ⟨B, Mat3.inv B, Lattice.metricsOf B⟩ := by
  have hpos : (0 : ℝ) < Mat3.det B := lt_of_lt_of_le (by positivity) h
  simp only [Lattice.ofBase, lt_real, abs_real, dec_real, lit_real, Nat.cast_zero, Nat.cast_one]
  rw [if_neg (by rw [not_lt, abs_of_pos hpos]; exact h), if_neg (by rw [not_lt]; exact hpos.le)]

/-! ### rows of an invertible matrix are non-zero; diffpy's metric tensor is the Gram matrix -/

theorem row0_pos (B : Mat3 ℝ) (h : Mat3.det B ≠ 0) : 0 < Vec3.dot B.row0 B.row0 := by
  rw [det_def] at h
  simp only [Vec3.dot, Mat3.row0]
  by_contra hc
  push Not at hc
  have h0 : B.m00 = 0 := by nlinarith [sq_nonneg B.m00, sq_nonneg B.m01, sq_nonneg B.m02]
  have h1 : B.m01 = 0 := by nlinarith [sq_nonneg B.m00, sq_nonneg B.m01, sq_nonneg B.m02]
  have h2 : B.m02 = 0 := by nlinarith [sq_nonneg B.m00, sq_nonneg B.m01, sq_nonneg B.m02]
  apply h; rw [h0, h1, h2]; ring
theorem row1_pos (B : Mat3 ℝ) (h : Mat3.det B ≠ 0) : 0 < Vec3.dot B.row1 B.row1 := by
  rw [det_def] at h
  simp only [Vec3.dot, Mat3.row1]
  by_contra hc
  push Not at hc
  have h0 : B.m10 = 0 := by nlinarith [sq_nonneg B.m10, sq_nonneg B.m11, sq_nonneg B.m12]
  have h1 : B.m11 = 0 := by nlinarith [sq_nonneg B.m10, sq_nonneg B.m11, sq_nonneg B.m12]
  have h2 : B.m12 = 0 := by nlinarith [sq_nonneg B.m10, sq_nonneg B.m11, sq_nonneg B.m12]
  apply h; rw [h0, h1, h2]; ring
theorem row2_pos (B : Mat3 ℝ) (h : Mat3.det B ≠ 0) : 0 < Vec3.dot B.row2 B.row2 := by
  rw [det_def] at h
  simp only [Vec3.dot, Mat3.row2]
  by_contra hc
  push Not at hc
  have h0 : B.m20 = 0 := by nlinarith [sq_nonneg B.m20, sq_nonneg B.m21, sq_nonneg B.m22]
  have h1 : B.m21 = 0 := by nlinarith [sq_nonneg B.m20, sq_nonneg B.m21, sq_nonneg B.m22]
  have h2 : B.m22 = 0 := by nlinarith [sq_nonneg B.m20, sq_nonneg B.m21, sq_nonneg B.m22]
  apply h; rw [h0, h1, h2]; ring

/-- diffpy computes the metric tensor from lengths and cosines; for an invertible base this is `B·Bᵀ` -/
theorem metricsOf_eq_gram (B : Mat3 ℝ) (h : Mat3.det B ≠ 0) : Lattice.metricsOf B = Mat3.gram B := by
  have ha := row0_pos B h
  have hb := row1_pos B h
  have hc := row2_pos B h
  have sa := Real.mul_self_sqrt ha.le
  have sb := Real.mul_self_sqrt hb.le
  have sc := Real.mul_self_sqrt hc.le
  have pa := Real.sqrt_pos.mpr ha
  have pb := Real.sqrt_pos.mpr hb
  have pc := Real.sqrt_pos.mpr hc
  simp only [Lattice.metricsOf, Lattice.cellOf, sqrt_real]
  generalize Real.sqrt (Vec3.dot B.row0 B.row0) = a at *
  generalize Real.sqrt (Vec3.dot B.row1 B.row1) = b at *
  generalize Real.sqrt (Vec3.dot B.row2 B.row2) = c at *
  have ha0 : a ≠ 0 := pa.ne'
  have hb0 : b ≠ 0 := pb.ne'
  have hc0 : c ≠ 0 := pc.ne'
  simp only [Vec3.dot, Mat3.row0, Mat3.row1, Mat3.row2] at sa sb sc ⊢
  simp only [Mat3.gram, Mat3.mul, Mat3.transpose]
  congr 1
  all_goals first | exact sa | exact sb | exact sc | (field_simp; try ring1)

/-! ### unit vectors -/

theorem norm_pos {v : Vec3 ℝ} (h : 0 < Vec3.normSq v) : 0 < Vec3.norm v := by
  simp only [Vec3.norm, sqrt_real]; exact Real.sqrt_pos.mpr h

theorem norm_mul_self {v : Vec3 ℝ} : Vec3.norm v * Vec3.norm v = Vec3.normSq v := by
  simp only [Vec3.norm, sqrt_real]
  apply Real.mul_self_sqrt
  simp only [Vec3.normSq, Vec3.dot]; nlinarith [sq_nonneg v.x, sq_nonneg v.y, sq_nonneg v.z]

theorem normSq_nonneg (v : Vec3 ℝ) : 0 ≤ Vec3.normSq v := by
  simp only [Vec3.normSq, Vec3.dot]; nlinarith [sq_nonneg v.x, sq_nonneg v.y, sq_nonneg v.z]

/-- for a non-zero vector, `unit v = v / ‖v‖` (the `nan_to_num` branch is not taken) -/
theorem unit_of_pos {v : Vec3 ℝ} (h : 0 < Vec3.normSq v) :
    Vec3.unit v = ⟨v.x / Vec3.norm v, v.y / Vec3.norm v, v.z / Vec3.norm v⟩ := by
  have hp := norm_pos h
  have : ¬ (Scalar.beq (Vec3.norm v) (Scalar.lit 0 : ℝ) = true) := by
    rw [beq_real, lit_real]; simpa using hp.ne'
  simp only [Vec3.unit, this, if_false, Bool.false_eq_true]

theorem unit_zero {v : Vec3 ℝ} (h : Vec3.normSq v = 0) : Vec3.unit v = ⟨0, 0, 0⟩ := by
  have hn : Vec3.norm v = 0 := by simp [Vec3.norm, h]
  have hb : Scalar.beq (0 : ℝ) (0 : ℝ) = true := by rw [beq_real]
  simp only [Vec3.unit, hn, lit_real, Nat.cast_zero, hb, if_true]

theorem normSq_unit {v : Vec3 ℝ} (h : 0 < Vec3.normSq v) : Vec3.normSq (Vec3.unit v) = 1 := by
  rw [unit_of_pos h]
  have hp := norm_pos h
  have hs := @norm_mul_self v
  simp only [Vec3.normSq, Vec3.dot] at hs ⊢
  field_simp
  nlinarith [hs]

/-- a vector of unit length is its own `unit` -/
theorem unit_of_unit {v : Vec3 ℝ} (h : Vec3.normSq v = 1) : Vec3.unit v = v := by
  have hp : 0 < Vec3.normSq v := by rw [h]; norm_num
  rw [unit_of_pos hp]
  have : Vec3.norm v = 1 := by simp [Vec3.norm, h]
  cases v; simp [this]

/-! ### decimal rounding -/

theorem floorS_real (x : ℝ) : floorS x = (⌊x⌋ : ℝ) := by
  simp only [floorS, fmod_real, lit_real, Nat.cast_one, div_one]; ring

/-- `rint t` is an integer within 1/2 of `t` -/
theorem rint_spec (t : ℝ) : |rint t - t| ≤ 1 / 2 ∧ ∃ n : ℤ, rint t = n := by
  have hf := Int.floor_le t
  have hl := Int.lt_floor_add_one t
  simp only [rint, floorS_real]
  have hdec : (Scalar.dec 5 1 : ℝ) = 1 / 2 := by rw [dec_real]; norm_num
  rw [hdec]
  by_cases h1 : Scalar.lt (t - (⌊t⌋ : ℝ)) (1 / 2 : ℝ) = true
  · simp only [h1, if_true]
    rw [lt_real] at h1
    exact ⟨by rw [abs_le]; constructor <;> linarith, ⌊t⌋, rfl⟩
  · simp only [h1, if_false, Bool.false_eq_true]
    rw [lt_real] at h1; push Not at h1
    by_cases h2 : Scalar.lt (1 / 2 : ℝ) (t - (⌊t⌋ : ℝ)) = true
    · simp only [h2, if_true]
      rw [lt_real] at h2
      refine ⟨by rw [abs_le, lit_real]; constructor <;> (push_cast; linarith), ⌊t⌋ + 1, ?_⟩
      rw [lit_real]; push_cast; ring
    · simp only [h2, if_false, Bool.false_eq_true]
      rw [lt_real] at h2; push Not at h2
      split
      · exact ⟨by rw [abs_le]; constructor <;> linarith, ⌊t⌋, rfl⟩
      · refine ⟨by rw [abs_le, lit_real]; constructor <;> (push_cast; linarith), ⌊t⌋ + 1, ?_⟩
        rw [lit_real]; push_cast; ring

theorem rint_zero : rint (0 : ℝ) = 0 := by
  obtain ⟨h, n, hn⟩ := rint_spec 0
  rw [hn] at h ⊢
  simp only [sub_zero] at h
  have : |n| < 1 := by
    have : |(n : ℝ)| < 1 := by linarith
    exact_mod_cast this
  have : n = 0 := Int.abs_lt_one_iff.mp this
  simp [this]

theorem pow10_real (k : Nat) : (pow10 k : ℝ) = 10 ^ k := by
  induction k with
  | zero => simp [pow10, Scalar.npow]
  | succ k ih =>
    cases k with
    | zero => simp [pow10, Scalar.npow]
    | succ k =>
      simp only [pow10, Scalar.npow] at ih ⊢
      rw [ih, lit_real]; push_cast; ring

/-- `np.round(x, k)` moves `x` by at most half a unit of the `k`-th decimal -/
theorem roundDec_close (k : Nat) (x : ℝ) : |roundDec k x - x| ≤ 1 / 2 / 10 ^ k := by
  simp only [roundDec, pow10_real]
  have hp : (0 : ℝ) < 10 ^ k := by positivity
  obtain ⟨h, -⟩ := rint_spec (x * 10 ^ k)
  have : rint (x * 10 ^ k) / 10 ^ k - x = (rint (x * 10 ^ k) - x * 10 ^ k) / 10 ^ k := by
    field_simp
  rw [this, abs_div, abs_of_pos hp]
  exact div_le_div_of_nonneg_right h hp.le

theorem roundDec_zero (k : Nat) : roundDec k (0 : ℝ) = 0 := by
  simp [roundDec, rint_zero]

end LatLemmas
end Orix
