import OrixProofs.Lemmas.CodecAngVendorsMain
import OrixModel.Codec.Ctf
set_option linter.unusedSimpArgs false
set_option linter.unusedVariables false
/-
C15, .ctf: the reader model (with the tables generated from the source) inverts the format description
`encodeCtf` for the Oxford/Bruker, EMsoft and MTEX variants (the ASTAR variant differs by the coordinate
repair, which is exercised by the correspondence check and stated separately).
-/
namespace Orix.Codec.Ctf
open Orix.Codec Orix.Codec.Ang Orix.Gen.Io

def rawProps : List Str := [S "bands", S "error", S "MAD", S "BC", S "BS"]

/-- T-gen obligations (kernel-decided on the generated tables) -/
theorem table_facts :
    ctfTables.columns = fmtColumns ∧
    (fmtColumns.filter fun n => !ctfTables.dataKeys.contains n) = rawProps ∧
    (∀ s ∈ specialNames, s ∈ fmtColumns) ∧ (∀ k ∈ rawProps, k ∈ fmtColumns ∧ k ∉ specialNames) ∧
    rawProps.Nodup ∧ ctfTables.degrees = true ∧ ctfTables.notIndexedId = 0 ∧ ctfTables.unit = S "um" ∧
    ctfTables.coordFixVendor = S "astar" := by
  decide +kernel

theorem vendor_facts (fmt : CtfFmt) (h : fmt ≠ .astar) :
    vendorOf ctfTables (fmtMarks fmt) ≠ S "astar" ∧
    rawProps.map (propNameOf ctfTables (vendorOf ctfTables (fmtMarks fmt))) = fmtProps fmt := by
  cases fmt <;> first | exact absurd rfl h | decide +kernel

/-- the real (indexed) phases of a map -/
def real (m : PMap) : List PhaseInfo := m.phases.filter (·.id != -1)

/-- well-formedness of a map with respect to a .ctf variant -/
structure CtfWF (fmt : CtfFmt) (x : CtfExtras) (m : PMap) (ni : Bool) : Prop where
  props : m.propNames = fmtProps fmt
  vals : ∀ p ∈ m.pts, rawProps.length = p.vals.length
  unit : m.unit = S "um"
  deg : m.degrees = true
  phases : m.phases = (if ni then [notIndexedPhase] else []) ++ real m
  /-- the `Phases` block describes the phases: numbered 1 … n in order, Laue class and space group accepted by
  the `Phase` constructor and giving the phase's point group / space group -/
  header : phasesOf ctfTables 1 (phaseLinesOf (real m) x.laue x.sg) = some (real m)
  lens : x.laue.length = (real m).length ∧ x.sg.length = (real m).length
  sorted : ((real m).map (·.id)).Pairwise (· < ·)
  pos : ∀ a ∈ (real m).map (·.id), (-1 : Int) < a
  ids : ∀ a, a ∈ m.pts.map (·.phaseId) ↔ (a = -1 ∧ ni = true) ∨ a ∈ (real m).map (·.id)
  /-- phase number 0 is the format's not-indexed marker -/
  nozero : ∀ p ∈ m.pts, p.phaseId ≠ 0

theorem phaseLinesOf_length (ps : List PhaseInfo) (l s : List Int) (h1 : l.length = ps.length)
    (h2 : s.length = ps.length) : (phaseLinesOf ps l s).length = ps.length := by
  induction ps generalizing l s with
  | nil => simp [phaseLinesOf]
  | cons p ps ih =>
    cases l with
    | nil => simp at h1
    | cons a l =>
      cases s with
      | nil => simp at h2
      | cons b s => simp [phaseLinesOf, ih l s (by simpa using h1) (by simpa using h2)]

/-- the point as the file carries it: phase 0 for not indexed -/
def toFile (p : Pt) : Pt := if p.phaseId = -1 then { p with phaseId := 0 } else p

/-- **C15, .ctf (Oxford/Bruker, EMsoft, MTEX)**: the reader inverts the format description. -/
theorem ctf_main (fmt : CtfFmt) (hfmt : fmt ≠ .astar) (x : CtfExtras) (m : PMap) (ni : Bool)
    (hwf : CtfWF fmt x m ni) : readCtf ctfTables (encodeCtf fmt x m) = some m := by
  obtain ⟨hcols, hfilter, hspec, hprops, hpnodup, hdeg, hnid, hunit, hfix⟩ := table_facts
  obtain ⟨hv1, hv2⟩ := vendor_facts fmt hfmt
  have hll := phaseLinesOf_length (real m) x.laue x.sg hwf.lens.1 hwf.lens.2
  have henc : encodeCtf fmt x m =
      { marks := fmtMarks fmt, xcells := some x.xcells, ycells := some x.ycells, xstep := some x.xstep,
        ystep := some x.ystep, nPhases := (real m).length, phaseLines := phaseLinesOf (real m) x.laue x.sg,
        ncols := 11, rows := m.pts.map fun p => fmtColumns.map (field rawProps (toFile p)) } := by
    unfold encodeCtf
    simp only [hfmt, if_false, real, rawProps, toFile]
  have hrows : (m.pts.map fun p => fmtColumns.map (field rawProps (toFile p))).mapM
      (rowToPt fmtColumns rawProps) = some (m.pts.map toFile) := by
    apply mapM_map_eq_some
    intro p hp
    have hv : rawProps.length = (toFile p).vals.length := by
      unfold toFile; split <;> exact hwf.vals p hp
    exact rowToPt_field fmtColumns rawProps (toFile p) hspec hprops hpnodup hv
  have hback : (m.pts.map toFile).map (fun p => if p.phaseId = 0 then { p with phaseId := -1 } else p) = m.pts := by
    rw [List.map_map]
    conv_rhs => rw [← List.map_id m.pts]
    apply List.map_congr_left
    intro p hp
    simp only [Function.comp, toFile, id]
    by_cases h1 : p.phaseId = -1
    · simp only [h1, if_true]
      cases p
      simp_all
    · simp [h1, hwf.nozero p hp]
  have hu : uniqSorted (m.pts.map (·.phaseId)) = (if ni then [(-1 : Int)] else []) ++ (real m).map (·.id) := by
    apply uniqSorted_eq
    · cases ni
      · simpa using hwf.sorted
      · simp only [if_true, List.singleton_append]
        exact List.Pairwise.cons hwf.pos hwf.sorted
    · intro a
      rw [hwf.ids a]
      cases ni <;> simp
  have hrec := reconcile_rekey (m.pts.map (·.phaseId)) (real m) ((real m).map (·.id)) ni hu hwf.pos (by simp)
    (fun p hp => by have := hwf.pos p.id (List.mem_map_of_mem hp); omega)
  rw [rekey_self, ← hwf.phases] at hrec
  have htake : (phaseLinesOf (real m) x.laue x.sg).take (real m).length = phaseLinesOf (real m) x.laue x.sg :=
    List.take_of_length_le (by rw [hll])
  rw [henc]
  unfold readCtf
  simp only [hll, lt_irrefl, if_false, htake, hwf.header, hcols, hfilter]
  have hcond : fmtColumns.length ≤ 11 ∧
      (m.pts.map fun p => fmtColumns.map (field rawProps (toFile p))).all (fun r => r.length == 11) = true :=
    ⟨by decide, by simp [List.all_map, List.all_eq_true, fmtColumns]⟩
  simp only [hcond, not_true_eq_false, and_self, if_false, hrows, hfix, hv1, hnid, hback, hrec, hv2, hunit, hdeg]
  have hm : m = { propNames := fmtProps fmt, pts := m.pts, phases := m.phases, unit := S "um", degrees := true } := by
    cases m
    simp only [PMap.mk.injEq]
    exact ⟨hwf.props, trivial, trivial, hwf.unit, hwf.deg⟩
  rw [← hm]

/-! ### ASTAR: coordinates are regenerated from the header -/

theorem vendor_astar :
    vendorOf ctfTables (fmtMarks .astar) = S "astar" ∧
    rawProps.map (propNameOf ctfTables (S "astar")) = fmtProps .astar := by decide +kernel

theorem toFile_coords (p : Pt) : (toFile p).x = p.x ∧ (toFile p).y = p.y := by
  unfold toFile; split <;> exact ⟨rfl, rfl⟩

theorem zip3_x (pts : List Pt) (fx fy : List Int) (h1 : fx.length = pts.length) (h2 : fy.length = pts.length) :
    ((zip3 pts fx fy).map toFile).map (·.x) = fx ∧ ((zip3 pts fx fy).map toFile).map (·.y) = fy := by
  induction pts generalizing fx fy with
  | nil => cases fx <;> cases fy <;> simp [zip3] at h1 h2 ⊢
  | cons p ps ih =>
    cases fx with
    | nil => simp at h1
    | cons a fx =>
      cases fy with
      | nil => simp at h2
      | cons b fy =>
        obtain ⟨i1, i2⟩ := ih fx fy (by simpa using h1) (by simpa using h2)
        simp [zip3, i1, i2, (toFile_coords _).1, (toFile_coords _).2]

theorem regen (gx gy : Nat → Int) (k : Nat) (pts : List Pt) (fx fy : List Int)
    (h1 : fx.length = pts.length) (h2 : fy.length = pts.length)
    (hg : ∀ jp ∈ zipIdxFrom k pts, jp.2.x = gx jp.1 ∧ jp.2.y = gy jp.1) :
    (zipIdxFrom k ((zip3 pts fx fy).map toFile)).map (fun jp => { jp.2 with x := gx jp.1, y := gy jp.1 })
      = pts.map toFile := by
  induction pts generalizing k fx fy with
  | nil => cases fx <;> cases fy <;> simp [zip3, zipIdxFrom] at h1 h2 ⊢
  | cons p ps ih =>
    cases fx with
    | nil => simp at h1
    | cons a fx =>
      cases fy with
      | nil => simp at h2
      | cons b fy =>
        have hp := hg (k, p) (by simp [zipIdxFrom])
        have := ih (k + 1) fx fy (by simpa using h1) (by simpa using h2)
          (fun jp hjp => hg jp (by simp [zipIdxFrom, hjp]))
        simp only [zip3, List.map_cons, zipIdxFrom, this, List.cons.injEq, and_true]
        unfold toFile
        cases p
        simp only at hp
        split <;> simp_all

/-- well-formedness for the ASTAR variant: as `CtfWF`, and the header grid regenerates the map's coordinates
(the file's own coordinate columns are rounded and, compared with the header the way the code does, never
confirm the header's shape) -/
structure AstarWF (x : CtfExtras) (m : PMap) (ni : Bool) : Prop extends CtfWF .astar x m ni where
  lenX : x.fileX.length = m.pts.length
  lenY : x.fileY.length = m.pts.length
  cells : 0 ≤ x.xcells ∧ 0 ≤ x.ycells ∧ m.pts.length = (x.ycells * x.xcells).toNat
  mismatch : ∃ sx sy, sliceStop x.fileX = some sx ∧ sliceStop x.fileY = some sy ∧
    (sx + 1, sy + 1) ≠ (x.ycells, x.xcells)
  grid : ∀ jp ∈ zipIdxFrom 0 m.pts,
    jp.2.x = ((jp.1 % x.xcells.toNat : Nat) : Int) * x.xstep ∧ jp.2.y = ((jp.1 / x.xcells.toNat : Nat) : Int) * x.ystep

/-- **C15, .ctf ASTAR**: the reader returns the map with the coordinates of the header grid. -/
theorem ctf_astar_main (x : CtfExtras) (m : PMap) (ni : Bool) (hwf : AstarWF x m ni) :
    readCtf ctfTables (encodeCtf .astar x m) = some m := by
  obtain ⟨hcols, hfilter, hspec, hprops, hpnodup, hdeg, hnid, hunit, hfix⟩ := table_facts
  obtain ⟨hv1, hv2⟩ := vendor_astar
  have hll := phaseLinesOf_length (real m) x.laue x.sg hwf.lens.1 hwf.lens.2
  have henc : encodeCtf .astar x m =
      { marks := fmtMarks .astar, xcells := some x.xcells, ycells := some x.ycells, xstep := some x.xstep,
        ystep := some x.ystep, nPhases := (real m).length, phaseLines := phaseLinesOf (real m) x.laue x.sg,
        ncols := 11,
        rows := (zip3 m.pts x.fileX x.fileY).map fun p => fmtColumns.map (field rawProps (toFile p)) } := by
    unfold encodeCtf
    simp only [if_true, real, rawProps, toFile]
  have hzlen : ∀ p ∈ zip3 m.pts x.fileX x.fileY, rawProps.length = p.vals.length := by
    have : ∀ (pts : List Pt) (fx fy : List Int), (∀ q ∈ pts, rawProps.length = q.vals.length) →
        ∀ p ∈ zip3 pts fx fy, rawProps.length = p.vals.length := by
      intro pts
      induction pts with
      | nil => intro fx fy _ p hp; cases fx <;> cases fy <;> simp [zip3] at hp
      | cons q qs ih =>
        intro fx fy hq p hp
        cases fx with
        | nil => simp [zip3] at hp
        | cons a fx =>
          cases fy with
          | nil => simp [zip3] at hp
          | cons b fy =>
            simp only [zip3, List.mem_cons] at hp
            rcases hp with rfl | hp
            · exact hq q (by simp)
            · exact ih fx fy (fun r hr => hq r (by simp [hr])) p hp
    exact this m.pts x.fileX x.fileY hwf.vals
  have hrows : ((zip3 m.pts x.fileX x.fileY).map fun p => fmtColumns.map (field rawProps (toFile p))).mapM
      (rowToPt fmtColumns rawProps) = some ((zip3 m.pts x.fileX x.fileY).map toFile) := by
    apply mapM_map_eq_some
    intro p hp
    have hv : rawProps.length = (toFile p).vals.length := by
      unfold toFile; split <;> exact hzlen p hp
    exact rowToPt_field fmtColumns rawProps (toFile p) hspec hprops hpnodup hv
  obtain ⟨sx, sy, hsx, hsy, hne⟩ := hwf.mismatch
  obtain ⟨zx, zy⟩ := zip3_x m.pts x.fileX x.fileY hwf.lenX hwf.lenY
  have hzl : ((zip3 m.pts x.fileX x.fileY).map toFile).length = (x.ycells * x.xcells).toNat := by
    have : ((zip3 m.pts x.fileX x.fileY).map toFile).length = x.fileX.length := by
      have := congrArg List.length zx
      simpa using this
    rw [this, hwf.lenX, hwf.cells.2.2]
  have hregen := regen (fun j => ((j % x.xcells.toNat : Nat) : Int) * x.xstep)
    (fun j => ((j / x.xcells.toNat : Nat) : Int) * x.ystep) 0 m.pts x.fileX x.fileY hwf.lenX hwf.lenY hwf.grid
  have hfixed : fixAstar
      { marks := fmtMarks .astar, xcells := some x.xcells, ycells := some x.ycells, xstep := some x.xstep,
        ystep := some x.ystep, nPhases := (real m).length, phaseLines := phaseLinesOf (real m) x.laue x.sg,
        ncols := 11,
        rows := (zip3 m.pts x.fileX x.fileY).map fun p => fmtColumns.map (field rawProps (toFile p)) }
      ((zip3 m.pts x.fileX x.fileY).map toFile) = some (m.pts.map toFile) := by
    unfold fixAstar
    simp only [zx, zy, hsx, hsy, hne, ne_eq, not_false_eq_true, if_true, hwf.cells.1, hwf.cells.2.1, hzl,
      and_self, hregen]
  have hback : (m.pts.map toFile).map (fun p => if p.phaseId = 0 then { p with phaseId := -1 } else p) = m.pts := by
    rw [List.map_map]
    conv_rhs => rw [← List.map_id m.pts]
    apply List.map_congr_left
    intro p hp
    simp only [Function.comp, toFile, id]
    by_cases h1 : p.phaseId = -1
    · simp only [h1, if_true]
      cases p
      simp_all
    · simp [h1, hwf.nozero p hp]
  have hu : uniqSorted (m.pts.map (·.phaseId)) = (if ni then [(-1 : Int)] else []) ++ (real m).map (·.id) := by
    apply uniqSorted_eq
    · cases ni
      · simpa using hwf.sorted
      · simp only [if_true, List.singleton_append]
        exact List.Pairwise.cons hwf.pos hwf.sorted
    · intro a
      rw [hwf.ids a]
      cases ni <;> simp
  have hrec := reconcile_rekey (m.pts.map (·.phaseId)) (real m) ((real m).map (·.id)) ni hu hwf.pos (by simp)
    (fun p hp => by have := hwf.pos p.id (List.mem_map_of_mem hp); omega)
  rw [rekey_self, ← hwf.phases] at hrec
  have htake : (phaseLinesOf (real m) x.laue x.sg).take (real m).length = phaseLinesOf (real m) x.laue x.sg :=
    List.take_of_length_le (by rw [hll])
  rw [henc]
  unfold readCtf
  simp only [hll, lt_irrefl, if_false, htake, hwf.header, hcols, hfilter]
  have hcond : fmtColumns.length ≤ 11 ∧
      ((zip3 m.pts x.fileX x.fileY).map fun p => fmtColumns.map (field rawProps (toFile p))).all
        (fun r => r.length == 11) = true :=
    ⟨by decide, by simp [List.all_map, List.all_eq_true, fmtColumns]⟩
  simp only [hcond, not_true_eq_false, and_self, if_false, hrows, hfix, hv1, if_true, hfixed, hnid, hback, hrec,
    hv2, hunit, hdeg]
  have hm : m = { propNames := fmtProps .astar, pts := m.pts, phases := m.phases, unit := S "um", degrees := true } := by
    cases m
    simp only [PMap.mk.injEq]
    exact ⟨hwf.props, trivial, trivial, hwf.unit, hwf.deg⟩
  rw [← hm]

end Orix.Codec.Ctf
