import OrixProofs.Lemmas.Lattice
/-
Helper lemmas for the alignment part of C09 (`_new_structure_matrix_from_alignment`).
-/
namespace Orix
open Scalar

namespace LatLemmas

/-- a right-handed orthonormal frame from a unit `x` and a unit `z ⟂ x`: rows `x, z × x, z` -/
theorem frame_orthonormal (x z : Vec3 ℝ) (hx : Vec3.normSq x = 1) (hz : Vec3.normSq z = 1)
    (hxz : Vec3.dot z x = 0) :
    Mat3.mul (Mat3.ofRows x (Vec3.cross z x) z) (Mat3.transpose (Mat3.ofRows x (Vec3.cross z x) z)) = Mat3.one
      ∧ Mat3.det (Mat3.ofRows x (Vec3.cross z x) z) = 1 := by
  simp only [Vec3.normSq, Vec3.dot] at hx hz hxz
  constructor
  · lsimp
    congr 1
    all_goals first
      | exact hx | exact hz | ring1 | linear_combination hxz
      | linear_combination (x.x * x.x + x.y * x.y + x.z * x.z) * hz + hx
          - (z.x * x.x + z.y * x.y + z.z * x.z) * hxz
  · simp only [det_def]; lsimp
    linear_combination (x.x * x.x + x.y * x.y + x.z * x.z) * hz + hx
        - (z.x * x.x + z.y * x.y + z.z * x.z) * hxz

/-- for a square matrix, `E·Eᵀ = 1` gives `Eᵀ·E = 1` -/
theorem orthogonal_comm (E : Mat3 ℝ) (h : Mat3.mul E (Mat3.transpose E) = Mat3.one) :
    Mat3.mul (Mat3.transpose E) E = Mat3.one := by
  have hdet : Mat3.det E ≠ 0 := by
    have := congrArg Mat3.det h
    rw [det_mul, det_transpose, det_one] at this
    intro h0; rw [h0] at this; norm_num at this
  calc Mat3.mul (Mat3.transpose E) E
      = Mat3.mul (Mat3.mul (Mat3.mul (Mat3.inv E) E) (Mat3.transpose E)) E := by
        rw [m3_inv_mul_cancel E hdet, m3_one_mul]
    _ = Mat3.mul (Mat3.mul (Mat3.inv E) (Mat3.mul E (Mat3.transpose E))) E := by rw [m3_mul_assoc (Mat3.inv E)]
    _ = Mat3.one := by rw [h, m3_mul_one, m3_inv_mul_cancel E hdet]

/-- rotating the base by an orthogonal frame keeps the Gram matrix (metric tensor) -/
theorem gram_rotate (B E : Mat3 ℝ) (h : Mat3.mul E (Mat3.transpose E) = Mat3.one) :
    Mat3.gram (Mat3.mul B (Mat3.transpose E)) = Mat3.gram B := by
  have h' := orthogonal_comm E h
  simp only [Mat3.gram]
  rw [transpose_mul, transpose_transpose, m3_mul_assoc, ← m3_mul_assoc (Mat3.transpose E), h', m3_one_mul]

theorem cross01_pos (B : Mat3 ℝ) (h : Mat3.det B ≠ 0) : 0 < Vec3.normSq (Vec3.cross B.row0 B.row1) := by
  rw [det_def] at h
  simp only [Vec3.normSq, Vec3.dot, Vec3.cross, Mat3.row0, Mat3.row1]
  by_contra hc
  push Not at hc
  have h0 : B.m01 * B.m12 - B.m02 * B.m11 = 0 := by
    nlinarith [sq_nonneg (B.m01 * B.m12 - B.m02 * B.m11), sq_nonneg (B.m02 * B.m10 - B.m00 * B.m12),
      sq_nonneg (B.m00 * B.m11 - B.m01 * B.m10)]
  have h1 : B.m02 * B.m10 - B.m00 * B.m12 = 0 := by
    nlinarith [sq_nonneg (B.m01 * B.m12 - B.m02 * B.m11), sq_nonneg (B.m02 * B.m10 - B.m00 * B.m12),
      sq_nonneg (B.m00 * B.m11 - B.m01 * B.m10)]
  have h2 : B.m00 * B.m11 - B.m01 * B.m10 = 0 := by
    nlinarith [sq_nonneg (B.m01 * B.m12 - B.m02 * B.m11), sq_nonneg (B.m02 * B.m10 - B.m00 * B.m12),
      sq_nonneg (B.m00 * B.m11 - B.m01 * B.m10)]
  apply h
  linear_combination B.m20 * h0 + B.m21 * h1 + B.m22 * h2

/-- the facts about the frame `(x̂, ŷ, ẑ)` the code builds, collected once -/
structure FrameFacts (B : Mat3 ℝ) where
  x : Vec3 ℝ
  bd : Vec3 ℝ
  z : Vec3 ℝ
  α : ℝ
  β : ℝ
  ν : ℝ
  frame : alignFrame B = Mat3.ofRows x (Vec3.cross z x) z
  hα : 0 < α
  hβ : 0 < β
  hν : 0 < ν
  αdef : α = Vec3.norm B.row0
  βdef : β = Vec3.norm B.row1
  hx : Vec3.normSq x = 1
  hz : Vec3.normSq z = 1
  hzx : Vec3.dot z x = 0
  hzb : Vec3.dot z bd = 0
  ha : B.row0 = Vec3.smul α x
  hb : B.row1 = Vec3.smul β bd
  htriple : Vec3.dot z (Vec3.cross x bd) = ν

theorem frameFacts (B : Mat3 ℝ) (h : Mat3.det B ≠ 0) : Nonempty (FrameFacts B) := by
  have ha : 0 < Vec3.normSq B.row0 := row0_pos B h
  have hb : 0 < Vec3.normSq B.row1 := row1_pos B h
  have hc := cross01_pos B h
  have pa := norm_pos ha
  have pb := norm_pos hb
  have sa := @norm_mul_self B.row0
  have sb := @norm_mul_self B.row1
  have ua := unit_of_pos ha
  have ub := unit_of_pos hb
  -- the normal n = x̂ × b̂ is non-zero
  have hn : 0 < Vec3.normSq (Vec3.cross (Vec3.unit B.row0) (Vec3.unit B.row1)) := by
    rw [ua, ub]
    have : Vec3.normSq (Vec3.cross ⟨B.row0.x / Vec3.norm B.row0, B.row0.y / Vec3.norm B.row0, B.row0.z / Vec3.norm B.row0⟩
        ⟨B.row1.x / Vec3.norm B.row1, B.row1.y / Vec3.norm B.row1, B.row1.z / Vec3.norm B.row1⟩)
        = Vec3.normSq (Vec3.cross B.row0 B.row1) / (Vec3.norm B.row0 * Vec3.norm B.row0 * (Vec3.norm B.row1 * Vec3.norm B.row1)) := by
      simp only [Vec3.normSq, Vec3.dot, Vec3.cross]
      field_simp
    rw [this]
    positivity
  have pn := norm_pos hn
  have sn := @norm_mul_self (Vec3.cross (Vec3.unit B.row0) (Vec3.unit B.row1))
  have un := unit_of_pos hn
  refine ⟨{ x := Vec3.unit B.row0, bd := Vec3.unit B.row1,
            z := Vec3.unit (Vec3.cross (Vec3.unit B.row0) (Vec3.unit B.row1)),
            α := Vec3.norm B.row0, β := Vec3.norm B.row1,
            ν := Vec3.norm (Vec3.cross (Vec3.unit B.row0) (Vec3.unit B.row1)),
            frame := rfl, hα := pa, hβ := pb, hν := pn, αdef := rfl, βdef := rfl,
            hx := normSq_unit ha, hz := normSq_unit hn, hzx := ?_, hzb := ?_, ha := ?_, hb := ?_, htriple := ?_ }⟩
  · rw [un]
    generalize Vec3.norm (Vec3.cross (Vec3.unit B.row0) (Vec3.unit B.row1)) = ν at *
    simp only [Vec3.dot, Vec3.cross]
    field_simp; ring
  · rw [un]
    generalize Vec3.norm (Vec3.cross (Vec3.unit B.row0) (Vec3.unit B.row1)) = ν at *
    simp only [Vec3.dot, Vec3.cross]
    field_simp; ring
  · rw [ua]
    simp only [Vec3.smul]
    have := pa.ne'
    cases hr : B.row0; simp only [hr] at this ⊢
    congr 1 <;> field_simp
  · rw [ub]
    simp only [Vec3.smul]
    have := pb.ne'
    cases hr : B.row1; simp only [hr] at this ⊢
    congr 1 <;> field_simp
  · rw [un]
    simp only [Vec3.normSq] at sn
    generalize Vec3.norm (Vec3.cross (Vec3.unit B.row0) (Vec3.unit B.row1)) = ν at *
    generalize Vec3.cross (Vec3.unit B.row0) (Vec3.unit B.row1) = n at *
    simp only [Vec3.dot] at sn ⊢
    have := pn.ne'
    field_simp
    linarith

end LatLemmas
end Orix
