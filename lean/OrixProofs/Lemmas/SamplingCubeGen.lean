import Mathlib.Tactic.Ring
import Mathlib.Tactic.FieldSimp
import Mathlib.Tactic.Positivity
import Mathlib.Tactic.NormNum
import Mathlib.Tactic.Linarith
import Mathlib.Analysis.SpecialFunctions.Trigonometric.Bounds
import Mathlib.Analysis.SpecialFunctions.Trigonometric.Arctan
import OrixProofs.Lemmas.RealScalar
import OrixProofs.Lemmas.SamplingBasic
import OrixProofs.Lemmas.SamplingCube
import OrixModel.Sampling
/-
Helper lemmas for C19, part 7: cube meshes with ANY odd edge function.

`sample_S2_cube_mesh` builds its six face lists and two corners from one edge grid `e(i)`, `i = -n..n-1`.  For every
odd `e` with `e(n) = 1` the lists contain every surface lattice point `(e a, e b, e c)`, and if every coordinate
`t ∈ [-1, 1]` is within `δ` of some `e(a)` (with `±1` hit exactly) the normalised points cover the sphere within
squared chord `2δ²`.  Instantiated for the spherified-edge grid `e(i) = tan(i·(π/4)/n)` with `δ = (π/4)/n ≤ r·π/180`.
-/
namespace Orix.SamplingLemmas
open Orix Scalar Sampling LatLemmas

/-- the edge grid of an edge function -/
noncomputable def edgeOf (n : ℤ) (e : ℤ → ℝ) : List ℝ := (intRange (-n) n).map e

theorem mem_edgeOf {n : ℤ} {e : ℤ → ℝ} {i : ℤ} (h1 : -n ≤ i) (h2 : i < n) : e i ∈ edgeOf n e :=
  List.mem_map.mpr ⟨i, mem_intRange.mpr ⟨h1, h2⟩, rfl⟩

/-- THE FACE LISTS MISS NOTHING, any odd edge function with `e n = 1` -/
theorem lattice_mem_cubePoints_gen (n : ℤ) (hn : 0 < n) (e : ℤ → ℝ) (hodd : ∀ i, e (-i) = -e i) (hone : e n = 1)
    (a b c : ℤ) (ha : -n ≤ a ∧ a ≤ n) (hb : -n ≤ b ∧ b ≤ n) (hc : -n ≤ c ∧ c ≤ n)
    (hs : a = n ∨ a = -n ∨ b = n ∨ b = -n ∨ c = n ∨ c = -n) :
    (⟨e a, e b, e c⟩ : Vec3 ℝ) ∈ cubePoints (edgeOf n e) := by
  have hmone : e (-n) = -1 := by rw [hodd, hone]
  have hneg : ∀ i : ℤ, e i = -e (-i) := by intro i; rw [hodd, neg_neg]
  simp only [cubePoints, List.mem_append, List.mem_map, List.mem_cons, List.mem_nil_iff, or_false, lit_real,
    Nat.cast_one]
  rcases cube_surface_cases n a b c hn ha hb hc hs with
    ⟨h0, h1, h2, h3, h4⟩ | ⟨h0, h1, h2, h3, h4⟩ | ⟨h0, h1, h2, h3, h4⟩ | ⟨h0, h1, h2, h3, h4⟩ |
    ⟨h0, h1, h2, h3, h4⟩ | ⟨h0, h1, h2, h3, h4⟩ | ⟨h0, h1, h2⟩ | ⟨h0, h1, h2⟩
  · refine Or.inl (Or.inl (Or.inl (Or.inl (Or.inl (Or.inl ⟨(_, _), mem_meshXY (mem_edgeOf h1 h2) (mem_edgeOf h3 h4), ?_⟩)))))
    rw [h0, hmone, hneg a, hneg b]
  · refine Or.inl (Or.inl (Or.inl (Or.inl (Or.inl (Or.inr ⟨(_, _), mem_meshXY (mem_edgeOf h1 h2) (mem_edgeOf h3 h4), ?_⟩)))))
    rw [h0, hone]
  · refine Or.inl (Or.inl (Or.inl (Or.inl (Or.inr ⟨(_, _), mem_meshXY (mem_edgeOf h1 h2) (mem_edgeOf h3 h4), ?_⟩))))
    rw [h0, hone, hneg c]
  · refine Or.inl (Or.inl (Or.inl (Or.inr ⟨(_, _), mem_meshXY (mem_edgeOf h1 h2) (mem_edgeOf h3 h4), ?_⟩)))
    rw [h0, hmone, hneg b]
  · refine Or.inl (Or.inl (Or.inr ⟨(_, _), mem_meshXY (mem_edgeOf h1 h2) (mem_edgeOf h3 h4), ?_⟩))
    rw [h0, hmone]
  · refine Or.inl (Or.inr ⟨(_, _), mem_meshXY (mem_edgeOf h1 h2) (mem_edgeOf h3 h4), ?_⟩)
    rw [h0, hone, hneg a, hneg c]
  · refine Or.inr (Or.inl ?_)
    rw [h0, h1, h2, hone, hmone]
  · refine Or.inr (Or.inr ?_)
    rw [h0, h1, h2, hone, hmone]

/-- GENERIC COVERING: if every coordinate in `[-1, 1]` is within `δ` of an edge value (±1 exactly), the normalised
cube points cover the sphere within squared chord `2δ²` -/
theorem cube_cover_gen (n : ℤ) (hn : 0 < n) (e : ℤ → ℝ) (hodd : ∀ i, e (-i) = -e i) (hone : e n = 1) (δ : ℝ)
    (hround : ∀ t : ℝ, |t| ≤ 1 → ∃ a : ℤ, -n ≤ a ∧ a ≤ n ∧ |t - e a| ≤ δ ∧ (t = 1 → a = n) ∧ (t = -1 → a = -n))
    (v : Vec3 ℝ) (hv : Vec3.normSq v = 1) :
    ∃ g ∈ (cubePoints (edgeOf n e)).map Vec3.unit, Vec3.normSq (Vec3.sub v g) ≤ 2 * δ ^ 2 := by
  have hmone : e (-n) = -1 := by rw [hodd, hone]
  obtain ⟨k, hk, hx, hy, hz, hface⟩ := exists_cube_scale v hv
  obtain ⟨a, ha1, ha2, hda, hap, ham⟩ := hround (k * v.x) hx
  obtain ⟨b, hb1, hb2, hdb, hbp, hbm⟩ := hround (k * v.y) hy
  obtain ⟨c, hc1, hc2, hdc, hcp, hcm⟩ := hround (k * v.z) hz
  have hs : a = n ∨ a = -n ∨ b = n ∨ b = -n ∨ c = n ∨ c = -n := by
    rcases hface with h1 | h1 | h1 | h1 | h1 | h1
    · exact Or.inl (hap h1)
    · exact Or.inr (Or.inl (ham h1))
    · exact Or.inr (Or.inr (Or.inl (hbp h1)))
    · exact Or.inr (Or.inr (Or.inr (Or.inl (hbm h1))))
    · exact Or.inr (Or.inr (Or.inr (Or.inr (Or.inl (hcp h1)))))
    · exact Or.inr (Or.inr (Or.inr (Or.inr (Or.inr (hcm h1)))))
  have hq := lattice_mem_cubePoints_gen n hn e hodd hone a b c ⟨ha1, ha2⟩ ⟨hb1, hb2⟩ ⟨hc1, hc2⟩ hs
  set q : Vec3 ℝ := ⟨e a, e b, e c⟩ with hqdef
  refine ⟨Vec3.unit q, List.mem_map.mpr ⟨q, hq, rfl⟩, ?_⟩
  have hcontract := radial_contract v q hv k hk (normSq_cubePoint_pos hq)
  refine le_trans hcontract ?_
  have hA : (k * v.x - e a) ^ 2 ≤ δ ^ 2 := by rw [← sq_abs]; exact pow_le_pow_left₀ (abs_nonneg _) hda 2
  have hB : (k * v.y - e b) ^ 2 ≤ δ ^ 2 := by rw [← sq_abs]; exact pow_le_pow_left₀ (abs_nonneg _) hdb 2
  have hC : (k * v.z - e c) ^ 2 ≤ δ ^ 2 := by rw [← sq_abs]; exact pow_le_pow_left₀ (abs_nonneg _) hdc 2
  have hexact : k * v.x - e a = 0 ∨ k * v.y - e b = 0 ∨ k * v.z - e c = 0 := by
    rcases hface with h1 | h1 | h1 | h1 | h1 | h1
    · left; rw [hap h1, h1, hone]; ring
    · left; rw [ham h1, h1, hmone]; ring
    · right; left; rw [hbp h1, h1, hone]; ring
    · right; left; rw [hbm h1, h1, hmone]; ring
    · right; right; rw [hcp h1, h1, hone]; ring
    · right; right; rw [hcm h1, h1, hmone]; ring
  simp only [Vec3.normSq, Vec3.dot, Vec3.sub, Vec3.smul, hqdef]
  rcases hexact with h0 | h0 | h0
  · rw [h0]; nlinarith
  · rw [h0]; nlinarith
  · rw [h0]; nlinarith

/-! ### the tangent on `[-π/4, π/4]` is 2-Lipschitz -/

theorem cos_ge_of_abs_le_pi_div_four {α : ℝ} (h : |α| ≤ Real.pi / 4) : Real.sqrt 2 / 2 ≤ Real.cos α := by
  rw [← Real.cos_pi_div_four, ← Real.cos_abs α]
  exact Real.cos_le_cos_of_nonneg_of_le_pi (abs_nonneg _) (by linarith [Real.pi_pos]) h

theorem tan_lipschitz_quarter {α β : ℝ} (hα : |α| ≤ Real.pi / 4) (hβ : |β| ≤ Real.pi / 4) :
    |Real.tan α - Real.tan β| ≤ 2 * |α - β| := by
  have hca := cos_ge_of_abs_le_pi_div_four hα
  have hcb := cos_ge_of_abs_le_pi_div_four hβ
  have hs2 : (0 : ℝ) < Real.sqrt 2 / 2 := by positivity
  have hcapos : 0 < Real.cos α := lt_of_lt_of_le hs2 hca
  have hcbpos : 0 < Real.cos β := lt_of_lt_of_le hs2 hcb
  have hprod : 1 / 2 ≤ Real.cos α * Real.cos β := by
    have h2 : Real.sqrt 2 / 2 * (Real.sqrt 2 / 2) = 1 / 2 := by
      have := Real.mul_self_sqrt (show (0 : ℝ) ≤ 2 by norm_num)
      nlinarith
    calc (1 : ℝ) / 2 = Real.sqrt 2 / 2 * (Real.sqrt 2 / 2) := h2.symm
      _ ≤ Real.cos α * Real.cos β := mul_le_mul hca hcb hs2.le hcapos.le
  have hdiff : Real.tan α - Real.tan β = Real.sin (α - β) / (Real.cos α * Real.cos β) := by
    rw [Real.tan_eq_sin_div_cos, Real.tan_eq_sin_div_cos, Real.sin_sub]
    field_simp
  rw [hdiff, abs_div, abs_of_pos (mul_pos hcapos hcbpos), div_le_iff₀ (mul_pos hcapos hcbpos)]
  have hsin := Real.abs_sin_le_abs (x := α - β)
  have hnn := abs_nonneg (α - β)
  nlinarith

/-! ### spherified-edge grid -/

noncomputable def sphEdgeFn (r : ℝ) (i : ℤ) : ℝ := Real.tan ((i : ℝ) * (Real.pi / 4 / (nEdge r : ℝ)))

theorem sphEdge_eq (r : ℝ) : sphEdge r = edgeOf (nEdge r) (sphEdgeFn r) := rfl

theorem sphEdgeFn_odd (r : ℝ) (i : ℤ) : sphEdgeFn r (-i) = -sphEdgeFn r i := by
  unfold sphEdgeFn; push_cast; rw [neg_mul, Real.tan_neg]

theorem sphEdgeFn_one {r : ℝ} (hr : 0 < r) : sphEdgeFn r (nEdge r) = 1 := by
  have hnr : ((nEdge r : ℤ) : ℝ) ≠ 0 := by exact_mod_cast (nEdge_pos hr).ne'
  have : ((nEdge r : ℤ) : ℝ) * (Real.pi / 4 / (nEdge r : ℝ)) = Real.pi / 4 := by field_simp
  unfold sphEdgeFn; rw [this, Real.tan_pi_div_four]

/-- every coordinate `t ∈ [-1, 1]` is within one angular step (as a length) of an edge value; `±1` exactly -/
theorem sphEdge_round {r : ℝ} (hr : 0 < r) (t : ℝ) (ht : |t| ≤ 1) :
    ∃ a : ℤ, -(nEdge r) ≤ a ∧ a ≤ nEdge r ∧ |t - sphEdgeFn r a| ≤ Real.pi / 4 / (nEdge r : ℝ)
      ∧ (t = 1 → a = nEdge r) ∧ (t = -1 → a = -(nEdge r)) := by
  have hn := nEdge_pos hr
  have hnr : (0 : ℝ) < (nEdge r : ℝ) := by exact_mod_cast hn
  have hpi := Real.pi_pos
  have hq : 0 < Real.pi / 4 := by positivity
  obtain ⟨hlo, hhi⟩ := abs_le.mp ht
  -- the angle of the coordinate, in units of π/4
  have hat1 : Real.arctan t ≤ Real.pi / 4 := by
    rw [← Real.arctan_one]; exact Real.arctan_mono hhi
  have hat2 : -(Real.pi / 4) ≤ Real.arctan t := by
    rw [← Real.arctan_one, ← Real.arctan_neg]; exact Real.arctan_mono hlo
  have hτ : |Real.arctan t / (Real.pi / 4)| ≤ 1 := by
    rw [abs_div, abs_of_pos hq, div_le_one hq, abs_le]; exact ⟨hat2, hat1⟩
  obtain ⟨a, ha1, ha2, hda, hap, ham⟩ := round_coord (nEdge r) hn (Real.arctan t / (Real.pi / 4)) hτ
  refine ⟨a, ha1, ha2, ?_, ?_, ?_⟩
  · -- |arctan t − a·s| ≤ s/2, then the Lipschitz bound
    have hang : |Real.arctan t - (a : ℝ) * (Real.pi / 4 / (nEdge r : ℝ))| ≤ Real.pi / 4 / (nEdge r : ℝ) / 2 := by
      have e : Real.arctan t - (a : ℝ) * (Real.pi / 4 / (nEdge r : ℝ))
          = (Real.pi / 4) * (Real.arctan t / (Real.pi / 4) - (a : ℝ) * (1 / (nEdge r : ℝ))) := by
        field_simp
      rw [e, abs_mul, abs_of_pos hq]
      calc Real.pi / 4 * |Real.arctan t / (Real.pi / 4) - (a : ℝ) * (1 / (nEdge r : ℝ))|
          ≤ Real.pi / 4 * (1 / (nEdge r : ℝ) / 2) := mul_le_mul_of_nonneg_left hda hq.le
        _ = Real.pi / 4 / (nEdge r : ℝ) / 2 := by ring
    have hβ : |(a : ℝ) * (Real.pi / 4 / (nEdge r : ℝ))| ≤ Real.pi / 4 := by
      have hs : 0 < Real.pi / 4 / (nEdge r : ℝ) := by positivity
      have hmax : (nEdge r : ℝ) * (Real.pi / 4 / (nEdge r : ℝ)) = Real.pi / 4 := by field_simp
      have h1 : (-(nEdge r : ℝ)) ≤ (a : ℝ) := by exact_mod_cast ha1
      have h2 : (a : ℝ) ≤ (nEdge r : ℝ) := by exact_mod_cast ha2
      rw [abs_le]; constructor
      · have := mul_le_mul_of_nonneg_right h1 hs.le
        rw [neg_mul, hmax] at this; exact this
      · have := mul_le_mul_of_nonneg_right h2 hs.le
        rw [hmax] at this; exact this
    have hα : |Real.arctan t| ≤ Real.pi / 4 := abs_le.mpr ⟨hat2, hat1⟩
    have hl := tan_lipschitz_quarter hα hβ
    rw [Real.tan_arctan] at hl
    unfold sphEdgeFn
    linarith
  · intro h1
    apply hap
    rw [h1, Real.arctan_one]; exact div_self hq.ne'
  · intro h1
    apply ham
    rw [h1, Real.arctan_neg, Real.arctan_one, neg_div]; congr 1; exact div_self hq.ne'

/-! ### spherified-corner grid: `tan(i·arctan(√2)/n)/√2` -/

/-- the tangent on `[-A, A]` with `cos A ≥ c₀ > 0`: `c₀²·|tan α − tan β| ≤ |α − β|` -/
theorem tan_lipschitz_of_cos {A c0 α β : ℝ} (hA : A ≤ Real.pi) (hc0 : 0 < c0) (hc : c0 ≤ Real.cos A)
    (hα : |α| ≤ A) (hβ : |β| ≤ A) : c0 ^ 2 * |Real.tan α - Real.tan β| ≤ |α - β| := by
  have hcos : ∀ x : ℝ, |x| ≤ A → c0 ≤ Real.cos x := by
    intro x hx
    rw [← Real.cos_abs x]
    exact le_trans hc (Real.cos_le_cos_of_nonneg_of_le_pi (abs_nonneg _) hA hx)
  have hca := hcos α hα
  have hcb := hcos β hβ
  have hcapos : 0 < Real.cos α := lt_of_lt_of_le hc0 hca
  have hcbpos : 0 < Real.cos β := lt_of_lt_of_le hc0 hcb
  have hprod : c0 ^ 2 ≤ Real.cos α * Real.cos β := by
    rw [_root_.sq]; exact mul_le_mul hca hcb hc0.le hcapos.le
  have hdiff : Real.tan α - Real.tan β = Real.sin (α - β) / (Real.cos α * Real.cos β) := by
    rw [Real.tan_eq_sin_div_cos, Real.tan_eq_sin_div_cos, Real.sin_sub]
    field_simp
  have hpp := mul_pos hcapos hcbpos
  rw [hdiff, abs_div, abs_of_pos hpp]
  have hsin := Real.abs_sin_le_abs (x := α - β)
  have h1 : c0 ^ 2 * (|Real.sin (α - β)| / (Real.cos α * Real.cos β))
      ≤ (Real.cos α * Real.cos β) * (|Real.sin (α - β)| / (Real.cos α * Real.cos β)) :=
    mul_le_mul_of_nonneg_right hprod (div_nonneg (abs_nonneg _) hpp.le)
  have h2 : (Real.cos α * Real.cos β) * (|Real.sin (α - β)| / (Real.cos α * Real.cos β)) = |Real.sin (α - β)| := by
    field_simp
  linarith

/-- `A = arctan √2` (half the angle of the cube's face diagonal … seen from the centre along a face diagonal) -/
noncomputable def cornerAngle : ℝ := Real.arctan (Real.sqrt 2)

theorem cornerAngle_pos : 0 < cornerAngle := by
  unfold cornerAngle; rw [Real.arctan_pos]; positivity    -- may need adjustment

theorem cos_cornerAngle : Real.cos cornerAngle = 1 / Real.sqrt 3 := by
  unfold cornerAngle
  rw [Real.cos_arctan, Real.sq_sqrt (by norm_num : (0 : ℝ) ≤ 2)]
  norm_num

noncomputable def nCorner (r : ℝ) : ℤ := ⌈cornerAngle / (r * (Real.pi / 180))⌉

theorem nCorner_pos {r : ℝ} (hr : 0 < r) : 0 < nCorner r := by
  have := Real.pi_pos
  have := cornerAngle_pos
  exact Int.ceil_pos.mpr (by positivity)

noncomputable def cornerFn (r : ℝ) (i : ℤ) : ℝ :=
  Real.tan ((i : ℝ) * (cornerAngle / (nCorner r : ℝ))) / Real.sqrt 2

theorem edgeGrid_spherifiedCorner_real {r : ℝ} :
    edgeGrid .spherifiedCorner r = .ok (nCorner r, edgeOf (nCorner r) (cornerFn r)) := by
  have hc : numberOfEquiangularSteps r (Scalar.sqrt (Scalar.lit 2) : ℝ) = some (nCorner r) := by
    simp [numberOfEquiangularSteps, nCorner, cornerAngle, deg2rad_real]
  simp only [edgeGrid, hc, sampleLengthEquiangular, startEndIndex_default, edgeOf, List.map_map]
  congr 2
  apply List.map_congr_left
  intro i _
  simp [cornerFn, cornerAngle]

theorem cornerStep_le {r : ℝ} (hr : 0 < r) : cornerAngle / (nCorner r : ℝ) ≤ r * (Real.pi / 180) := by
  have := Real.pi_pos
  exact div_ceil_le cornerAngle _ cornerAngle_pos.le (by positivity)

theorem cornerFn_odd (r : ℝ) (i : ℤ) : cornerFn r (-i) = -cornerFn r i := by
  unfold cornerFn; push_cast; rw [neg_mul, Real.tan_neg, neg_div]

theorem cornerFn_one {r : ℝ} (hr : 0 < r) : cornerFn r (nCorner r) = 1 := by
  have hnr : ((nCorner r : ℤ) : ℝ) ≠ 0 := by exact_mod_cast (nCorner_pos hr).ne'
  have : ((nCorner r : ℤ) : ℝ) * (cornerAngle / (nCorner r : ℝ)) = cornerAngle := by field_simp
  have h2 : Real.sqrt 2 ≠ 0 := by positivity
  unfold cornerFn; rw [this]; unfold cornerAngle; rw [Real.tan_arctan]; exact div_self h2

/-- every coordinate `t ∈ [-1, 1]` is within `(3/(2√2))·step` of an edge value of the corner grid; `±1` exactly -/
theorem corner_round {r : ℝ} (hr : 0 < r) (t : ℝ) (ht : |t| ≤ 1) :
    ∃ a : ℤ, -(nCorner r) ≤ a ∧ a ≤ nCorner r ∧
      |t - cornerFn r a| ≤ 3 / (2 * Real.sqrt 2) * (cornerAngle / (nCorner r : ℝ))
      ∧ (t = 1 → a = nCorner r) ∧ (t = -1 → a = -(nCorner r)) := by
  have hn := nCorner_pos hr
  have hnr : (0 : ℝ) < (nCorner r : ℝ) := by exact_mod_cast hn
  have hA := cornerAngle_pos
  have hs2 : 0 < Real.sqrt 2 := by positivity
  obtain ⟨hlo, hhi⟩ := abs_le.mp ht
  have hat1 : Real.arctan (Real.sqrt 2 * t) ≤ cornerAngle := by
    unfold cornerAngle; apply Real.arctan_mono; nlinarith
  have hat2 : -cornerAngle ≤ Real.arctan (Real.sqrt 2 * t) := by
    unfold cornerAngle; rw [← Real.arctan_neg]; apply Real.arctan_mono; nlinarith
  have hτ : |Real.arctan (Real.sqrt 2 * t) / cornerAngle| ≤ 1 := by
    rw [abs_div, abs_of_pos hA, div_le_one hA, abs_le]; exact ⟨hat2, hat1⟩
  obtain ⟨a, ha1, ha2, hda, hap, ham⟩ := round_coord (nCorner r) hn (Real.arctan (Real.sqrt 2 * t) / cornerAngle) hτ
  refine ⟨a, ha1, ha2, ?_, ?_, ?_⟩
  · have hang : |Real.arctan (Real.sqrt 2 * t) - (a : ℝ) * (cornerAngle / (nCorner r : ℝ))|
        ≤ cornerAngle / (nCorner r : ℝ) / 2 := by
      have e : Real.arctan (Real.sqrt 2 * t) - (a : ℝ) * (cornerAngle / (nCorner r : ℝ))
          = cornerAngle * (Real.arctan (Real.sqrt 2 * t) / cornerAngle - (a : ℝ) * (1 / (nCorner r : ℝ))) := by
        field_simp
      rw [e, abs_mul, abs_of_pos hA]
      calc cornerAngle * |Real.arctan (Real.sqrt 2 * t) / cornerAngle - (a : ℝ) * (1 / (nCorner r : ℝ))|
          ≤ cornerAngle * (1 / (nCorner r : ℝ) / 2) := mul_le_mul_of_nonneg_left hda hA.le
        _ = cornerAngle / (nCorner r : ℝ) / 2 := by ring
    have hβ : |(a : ℝ) * (cornerAngle / (nCorner r : ℝ))| ≤ cornerAngle := by
      have hs : 0 < cornerAngle / (nCorner r : ℝ) := by positivity
      have hmax : (nCorner r : ℝ) * (cornerAngle / (nCorner r : ℝ)) = cornerAngle := by field_simp
      have h1 : (-(nCorner r : ℝ)) ≤ (a : ℝ) := by exact_mod_cast ha1
      have h2 : (a : ℝ) ≤ (nCorner r : ℝ) := by exact_mod_cast ha2
      rw [abs_le]; constructor
      · have := mul_le_mul_of_nonneg_right h1 hs.le
        rw [neg_mul, hmax] at this; exact this
      · have := mul_le_mul_of_nonneg_right h2 hs.le
        rw [hmax] at this; exact this
    have hα : |Real.arctan (Real.sqrt 2 * t)| ≤ cornerAngle := abs_le.mpr ⟨hat2, hat1⟩
    have hApi : cornerAngle ≤ Real.pi := by
      unfold cornerAngle; linarith [Real.arctan_lt_pi_div_two (Real.sqrt 2), Real.pi_pos]
    have hs3 : 0 < Real.sqrt 3 := by positivity
    have hl := tan_lipschitz_of_cos (c0 := 1 / Real.sqrt 3) hApi (by positivity) (le_of_eq cos_cornerAngle.symm) hα hβ
    rw [Real.tan_arctan] at hl
    have h3 : (1 / Real.sqrt 3) ^ 2 = 1 / 3 := by
      rw [div_pow, one_pow, Real.sq_sqrt (by norm_num : (0 : ℝ) ≤ 3)]
    rw [h3] at hl
    -- |√2 t − tan(a s)| ≤ 3·s/2, divide by √2
    have hdiv : t - cornerFn r a
        = (Real.sqrt 2 * t - Real.tan ((a : ℝ) * (cornerAngle / (nCorner r : ℝ)))) / Real.sqrt 2 := by
      unfold cornerFn; field_simp
    rw [hdiv, abs_div, abs_of_pos hs2, div_le_iff₀ hs2]
    have e2 : 3 / (2 * Real.sqrt 2) * (cornerAngle / (nCorner r : ℝ)) * Real.sqrt 2
        = 3 * (cornerAngle / (nCorner r : ℝ) / 2) := by field_simp
    rw [e2]
    linarith
  · intro h1
    apply hap
    rw [h1, mul_one]; exact div_self hA.ne'
  · intro h1
    apply ham
    rw [h1, mul_neg, mul_one, Real.arctan_neg, neg_div]; congr 1; exact div_self hA.ne'

end Orix.SamplingLemmas
