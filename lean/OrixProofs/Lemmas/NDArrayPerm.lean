import OrixProofs.Lemmas.NDArrayWF
/-
`transpose` (hence `flatten`) rearranges the elements bijectively: the data of the result is a permutation
of the data of the operand — nothing is lost, nothing is duplicated.
-/
namespace Orix.NDArray
variable {α : Type}

theorem cart_nodup (ls : List (List Nat)) (h : ∀ l ∈ ls, l.Nodup) : (cart ls).Nodup := by
  induction ls with
  | nil => simp [cart]
  | cons l ls ih =>
    have hl := h l (List.mem_cons_self ..)
    have ihs := ih (fun x hx => h x (List.mem_cons_of_mem _ hx))
    simp only [cart]
    rw [List.nodup_flatMap]
    refine ⟨?_, ?_⟩
    · intro i _
      exact ihs.map (fun a b hab => by simpa using hab)
    · refine hl.imp ?_
      intro a b hab
      simp only [Function.onFun, List.disjoint_left, List.mem_map]
      rintro x ⟨t, _, rfl⟩ ⟨t', _, h2⟩
      simp only [List.cons.injEq] at h2
      exact hab h2.1.symm

theorem allIdx_nodup (s : List Nat) : (allIdx s).Nodup := by
  unfold allIdx
  refine cart_nodup _ ?_
  intro l hl
  obtain ⟨n, _, rfl⟩ := List.mem_map.1 hl
  exact List.nodup_range

theorem ravel_inj {s i j : List Nat} (hi : validIdx s i = true) (hj : validIdx s j = true)
    (h : ravel s i = ravel s j) : i = j := by
  have h1 := allIdx_getElem? s i hi
  have h2 := allIdx_getElem? s j hj
  rw [h] at h1
  rw [h1] at h2
  exact Option.some.inj h2

theorem unperm_getElem? {p : List Nat} {nd : Nat} (hp : IsPerm p nd) {j : List Nat} (hj : j.length = nd)
    (a : Nat) (ha : a < nd) : (unperm p j)[a]? = j[p.idxOf a]? := by
  have hall : ∀ a ∈ List.range p.length, (j[p.idxOf a]?).isSome := by
    intro a ha
    have ha' : a < nd := by rw [← hp.len]; exact List.mem_range.1 ha
    have hk : p.idxOf a < p.length := List.idxOf_lt_length_iff.2 (hp.mem ha')
    have : p.idxOf a < j.length := by rw [hj, ← hp.len]; exact hk
    simp [List.getElem?_eq_getElem this]
  unfold unperm
  rw [filterMap_getElem?_all_some _ _ hall, List.getElem?_range (by rw [hp.len]; exact ha)]
  rfl

theorem unperm_inj {p : List Nat} {nd : Nat} (hp : IsPerm p nd) {j j' : List Nat} (hj : j.length = nd)
    (hj' : j'.length = nd) (h : unperm p j = unperm p j') : j = j' := by
  apply List.ext_getElem?
  intro k
  by_cases hk : k < nd
  · have hkp : k < p.length := by rw [hp.len]; exact hk
    have ha : p[k] < nd := hp.lt _ (List.getElem_mem hkp)
    have e1 := unperm_getElem? hp hj p[k] ha
    have e2 := unperm_getElem? hp hj' p[k] ha
    rw [hp.nodup.idxOf_getElem k hkp] at e1 e2
    rw [← e1, ← e2, h]
  · rw [List.getElem?_eq_none (by omega), List.getElem?_eq_none (by omega)]

/-- the data of a transposed array is a permutation of the data of the operand -/
theorem transposePerm_perm {p : List Nat} {A B : NDArray α} (hw : A.WF) (hp : IsPerm p A.shape.length)
    (h : transposePerm p A = .ok B) : B.data.Perm A.data := by
  unfold transposePerm at h
  rw [ofOpt_ok] at h
  have hd := (gatherList_data h).2
  set ns := p.filterMap (fun a => A.shape[a]?) with hns
  have hnl : ns.length = A.shape.length := by
    rw [hns, filterMap_length_all_some _ _ (permShape_all_some hp), hp.len]
  -- flat source positions
  let R : List Nat := (allIdx ns).map (fun j => ravel A.shape (unperm p j))
  have hvalid : ∀ j ∈ allIdx ns, validIdx A.shape (unperm p j) = true :=
    fun j hj => unperm_valid hp (mem_allIdx.1 hj)
  have hR : B.data.map some = R.map (fun k => A.data[k]?) := by
    rw [hd, List.map_map, List.map_map]
    apply List.map_congr_left
    intro j hj
    simp only [Function.comp_def, get?, hvalid j hj, if_true]
  have hRnd : R.Nodup := by
    refine List.Nodup.map_on ?_ (allIdx_nodup ns)
    intro j hj j' hj' e
    have v1 := mem_allIdx.1 hj
    have v2 := mem_allIdx.1 hj'
    have := ravel_inj (hvalid j hj) (hvalid j' hj') e
    exact unperm_inj hp (by rw [validIdx_length v1, hnl]) (by rw [validIdx_length v2, hnl]) this
  have hRlt : ∀ k ∈ R, k ∈ List.range (prod A.shape) := by
    intro k hk
    obtain ⟨j, hj, rfl⟩ := List.mem_map.1 hk
    exact List.mem_range.2 (ravel_lt _ _ (hvalid j hj))
  have hRp : R.Perm (List.range (prod A.shape)) := by
    refine (List.subperm_of_subset hRnd hRlt).perm_of_length_le ?_
    simp only [R, List.length_map, List.length_range, length_allIdx]
    rw [hns, permShape_prod hp]
  have h1 : (B.data.map some).Perm ((List.range (prod A.shape)).map (fun k => A.data[k]?)) := by
    rw [hR]; exact hRp.map _
  have h2 : (List.range (prod A.shape)).map (fun k => A.data[k]?) = A.data.map some := by
    apply List.ext_getElem?
    intro k
    simp only [List.getElem?_map]
    by_cases hk : k < prod A.shape
    · rw [List.getElem?_range hk]
      have : k < A.data.length := by rw [hw]; exact hk
      simp [List.getElem?_eq_getElem this]
    · have : A.data.length ≤ k := by rw [hw]; omega
      rw [List.getElem?_eq_none (by simpa using hk), List.getElem?_eq_none this]
      rfl
  rw [h2] at h1
  have h3 := h1.filterMap id
  simpa [List.filterMap_map] using h3

theorem flatten_perm {A B : NDArray α} (hw : A.WF) (h : flatten A = .ok B) : B.data.Perm A.data := by
  unfold flatten at h
  cases hT : transposePerm (List.range A.shape.length).reverse A with
  | error e => rw [hT] at h; cases h
  | ok T =>
    rw [hT] at h
    cases h
    exact transposePerm_perm (B := T) hw (isPerm_reverse_range _) hT

theorem transpose_perm {A B : NDArray α} (hw : A.WF) {e : Nat} {axes : Option (List Int)}
    (h : transpose e axes A = .ok B) : B.data.Perm A.data := by
  unfold transpose at h
  by_cases h1 : A.shape.length = 1
  · simp only [h1, if_true, Except.ok.injEq] at h; subst h; exact List.Perm.refl _
  · simp only [h1, if_false] at h
    cases axes with
    | none =>
      simp only at h
      by_cases h2 : A.shape.length = 2
      · rw [if_pos h2] at h
        exact transposePerm_perm hw (by rw [h2]; exact ⟨by decide, rfl, by decide⟩) h
      · rw [if_neg h2] at h; cases h
    | some ax =>
      simp only at h
      by_cases h3 : ax.length ≠ A.shape.length
      · rw [if_pos h3] at h; cases h
      · rw [if_neg h3] at h
        cases hn : normAxes A.shape.length e ax with
        | error err => rw [hn] at h; cases h
        | ok p =>
          rw [hn] at h
          exact transposePerm_perm hw (normAxes_isPerm (not_not.1 h3) hn) h

end Orix.NDArray
