import Mathlib.Algebra.Order.Round
import Mathlib.Algebra.Order.Archimedean.Real.Basic
import Mathlib.Tactic.Ring
import Mathlib.Tactic.FieldSimp
import Mathlib.Tactic.Linarith
import Mathlib.Tactic.Positivity
import OrixProofs.Lemmas.XMapSel
/-
C11, origin/step clause: over exact real arithmetic the extents `_data_slices_from_coordinates` computes
from the coordinate arrays (origin = smallest coordinate of all points, step = difference of the two
smallest distinct coordinates, `round((c - origin)/step)`) equal the index-level extents.
-/
namespace Orix.XMap
open Orix

noncomputable instance : Coord ℝ where
  add := (· + ·)
  sub := (· - ·)
  mul := (· * ·)
  div := (· / ·)
  ofNat n := (n : ℝ)
  lt x y := decide (x < y)
  rnd := round

section
variable (f : ℕ → ℝ) (hf : StrictMono f)
include hf

theorem foldl_minC_mono (xs : List ℕ) (x : ℕ) :
    (xs.map f).foldl (fun a b => if Coord.lt b a then b else a) (f x) = f (xs.foldl min x) := by
  induction xs generalizing x with
  | nil => rfl
  | cons a xs ih =>
    simp only [List.map_cons, List.foldl_cons]
    have : (if Coord.lt (f a) (f x) then f a else f x) = f (min x a) := by
      simp only [Coord.lt, decide_eq_true_eq, hf.lt_iff_lt]
      by_cases h : a < x
      · simp [h, min_eq_right (le_of_lt h)]
      · simp [h, min_eq_left (not_lt.1 h)]
    rw [this, ih]

theorem foldl_maxC_mono (xs : List ℕ) (x : ℕ) :
    (xs.map f).foldl (fun a b => if Coord.lt a b then b else a) (f x) = f (xs.foldl max x) := by
  induction xs generalizing x with
  | nil => rfl
  | cons a xs ih =>
    simp only [List.map_cons, List.foldl_cons]
    have : (if Coord.lt (f x) (f a) then f a else f x) = f (max x a) := by
      simp only [Coord.lt, decide_eq_true_eq, hf.lt_iff_lt]
      by_cases h : x < a
      · simp [h, max_eq_right (le_of_lt h)]
      · simp [h, max_eq_left (not_lt.1 h)]
    rw [this, ih]

theorem minC_map_mono (l : List ℕ) : minC (l.map f) = (minOf l).map f := by
  cases l with
  | nil => rfl
  | cons x xs => simp only [List.map_cons, minC, minOf, Option.map_some, foldl_minC_mono f hf]

theorem maxC_map_mono (l : List ℕ) : maxC (l.map f) = (maxOf l).map f := by
  cases l with
  | nil => rfl
  | cons x xs => simp only [List.map_cons, maxC, maxOf, Option.map_some, foldl_maxC_mono f hf]

theorem filter_lt_map_mono (l : List ℕ) (k : ℕ) :
    (l.map f).filter (fun x => Coord.lt (f k) x) = (l.filter (fun j => decide (k < j))).map f := by
  induction l with
  | nil => rfl
  | cons a l ih =>
    have ih' : List.filter (fun x => decide (f k < x)) (List.map f l)
        = List.map f (List.filter (fun j => decide (k < j)) l) := ih
    simp only [List.map_cons, List.filter_cons, Coord.lt, hf.lt_iff_lt]
    by_cases h : k < a <;> simp [h, ih']
end

theorem minOf_eq_of {l : List ℕ} {a : ℕ} (hmem : a ∈ l) (hle : ∀ y ∈ l, a ≤ y) : minOf l = some a := by
  cases h : minOf l with
  | none => rw [minOf_eq_none.1 h] at hmem; simp at hmem
  | some b =>
    obtain ⟨hb1, hb2⟩ := minOf_spec h
    exact congrArg some (le_antisymm (hb2 a hmem) (hle b hb1))

/-- one axis, coordinate `o + c p * d` with `d > 0`; `c` takes the value 0 on the grid, and the value 1 iff
the axis has more than one index -/
theorem axisSliceC_eq (o d : ℝ) (hd : 0 < d) (c : ℕ → ℕ) (all I : List ℕ) (big : Prop) [Decidable big]
    (h0 : ∃ p ∈ all, c p = 0) (h1 : big → ∃ p ∈ all, c p = 1) (h2 : ¬big → ∀ p ∈ all, c p = 0) :
    axisSliceC (all.map fun p => Coord.add o (Coord.mul (Coord.ofNat (c p)) d))
      (I.map fun p => Coord.add o (Coord.mul (Coord.ofNat (c p)) d))
    = if big then
        (match minOf (I.map c), maxOf (I.map c) with
         | some lo, some hi => .ok (some ((lo : ℤ), ((hi + 1 : ℕ) : ℤ)))
         | _, _ => .error .emptyReduction)
      else .ok none := by
  set f : ℕ → ℝ := fun k => o + (k : ℝ) * d with hfdef
  have hf : StrictMono f := by
    intro a b hab
    have : (a : ℝ) < b := by exact_mod_cast hab
    simp only [hfdef]; nlinarith
  have hmapAll : (all.map fun p => Coord.add o (Coord.mul (Coord.ofNat (c p)) d)) = (all.map c).map f := by
    rw [List.map_map]; rfl
  have hmapI : (I.map fun p => Coord.add o (Coord.mul (Coord.ofNat (c p)) d)) = (I.map c).map f := by
    rw [List.map_map]; rfl
  obtain ⟨p0, hp0, hc0⟩ := h0
  have hmin0 : minOf (all.map c) = some 0 :=
    minOf_eq_of (by rw [← hc0]; exact List.mem_map_of_mem hp0) (fun y _ => Nat.zero_le y)
  rw [hmapAll, hmapI]
  unfold axisSliceC stepSize
  rw [minC_map_mono f hf, hmin0]
  simp only [Option.map_some]
  rw [filter_lt_map_mono f hf]
  rw [minC_map_mono f hf]
  by_cases hb : big
  · obtain ⟨p1, hp1, hc1⟩ := h1 hb
    have hmin1 : minOf ((all.map c).filter fun j => decide (0 < j)) = some 1 := by
      apply minOf_eq_of
      · rw [List.mem_filter]; exact ⟨by rw [← hc1]; exact List.mem_map_of_mem hp1, by simp⟩
      · intro y hy; have := (List.mem_filter.1 hy).2; simp at this; omega
    simp only [hmin1, Option.map_some, hb, if_true]
    have hstep : Coord.sub (f 1) (f 0) = d := by simp [hfdef, Coord.sub]
    rw [hstep]
    -- relative coordinates are `k * d`
    set f' : ℕ → ℝ := fun k => (k : ℝ) * d with hf'def
    have hf' : StrictMono f' := by
      intro a b hab
      have : (a : ℝ) < b := by exact_mod_cast hab
      simp only [hf'def]; nlinarith
    have hrel : (((I.map c).map f).map fun v => Coord.sub v (f 0)) = (I.map c).map f' := by
      rw [List.map_map]
      apply List.map_congr_left
      intro k _
      simp [hfdef, hf'def, Coord.sub]
    rw [hrel, minC_map_mono f' hf', maxC_map_mono f' hf']
    cases hmn : minOf (I.map c) with
    | none =>
      have : I.map c = [] := minOf_eq_none.1 hmn
      simp [this, maxOf]
    | some lo =>
      cases hmx : maxOf (I.map c) with
      | none =>
        have : I.map c = [] := maxOf_eq_none.1 hmx
        rw [this] at hmn; simp [minOf] at hmn
      | some hi =>
        simp only [Option.map_some]
        have hdne : d ≠ 0 := ne_of_gt hd
        have e1 : Coord.rnd (Coord.div (f' lo) d) = (lo : ℤ) := by
          simp only [Coord.rnd, Coord.div, hf'def]
          rw [mul_div_assoc, div_self hdne, mul_one, round_natCast]
        have e2 : Coord.rnd (Coord.add (Coord.div (f' hi) d) (Coord.ofNat 1)) = ((hi + 1 : ℕ) : ℤ) := by
          simp only [Coord.rnd, Coord.div, Coord.add, Coord.ofNat, hf'def]
          rw [mul_div_assoc, div_self hdne, mul_one, Nat.cast_one, round_add_one, round_natCast]
          push_cast; ring
        rw [e1, e2]
  · have hall : ∀ y ∈ all.map c, y = 0 := by
      intro y hy
      obtain ⟨p, hp, rfl⟩ := List.mem_map.1 hy
      exact h2 hb p hp
    have hnil : ((all.map c).filter fun j => decide (0 < j)) = [] := by
      rw [List.filter_eq_nil_iff]
      intro y hy
      simp [hall y hy]
    simp [hnil, minOf, hb]

theorem dataSlicesCN_eq (q : Geom ℝ) (g : Grid) (I : List ℕ) (hdy : 0 < q.dy) (hdx : 0 < q.dx)
    (hny : 1 ≤ g.ny) (hnx : 1 ≤ g.nx) : dataSlicesCN q g I = dataSlices g I := by
  have hn : 0 < g.size := Nat.mul_pos hny hnx
  have hY := axisSliceC_eq q.oy q.dy hdy (fun p => p / g.nx) (List.range g.size) I (g.ny > 1)
    ⟨0, List.mem_range.2 hn, Nat.zero_div _⟩
    (fun hb => ⟨g.nx, List.mem_range.2 (by
        unfold Grid.size
        calc g.nx = 1 * g.nx := (one_mul _).symm
          _ < g.ny * g.nx := Nat.mul_lt_mul_of_pos_right hb hnx), Nat.div_self hnx⟩)
    (fun hb p hp => by
      have h1 : g.ny = 1 := by omega
      have : p < g.nx := by
        have := List.mem_range.1 hp
        unfold Grid.size at this
        rw [h1, one_mul] at this
        exact this
      exact Nat.div_eq_of_lt this)
  have hX := axisSliceC_eq q.ox q.dx hdx (fun p => p % g.nx) (List.range g.size) I (g.nx > 1)
    ⟨0, List.mem_range.2 hn, Nat.zero_mod _⟩
    (fun hb => ⟨1, List.mem_range.2 (by
        unfold Grid.size
        calc 1 < g.nx := hb
          _ = 1 * g.nx := (one_mul _).symm
          _ ≤ g.ny * g.nx := Nat.mul_le_mul_right _ hny), Nat.mod_eq_of_lt hb⟩)
    (fun hb p _ => by
      have h1 : g.nx = 1 := by omega
      rw [h1, Nat.mod_one])
  unfold dataSlicesCN dataSlicesC yOf xOf
  simp only []
  rw [hY, hX]
  unfold dataSlices Grid.axes extent
  by_cases hy : g.ny > 1 <;> by_cases hx : g.nx > 1 <;>
    simp only [hy, hx, if_true, if_false, List.nil_append, List.append_nil, List.singleton_append,
      List.mapM_cons, List.mapM_nil] <;>
    (try cases hmy : minOf (I.map fun p => p / g.nx) <;> cases hxy : maxOf (I.map fun p => p / g.nx)) <;>
    (try cases hmx : minOf (I.map fun p => p % g.nx) <;> cases hxx : maxOf (I.map fun p => p % g.nx)) <;>
    simp [Except.map, bind, Except.bind, pure, Except.pure, Option.toList]

end Orix.XMap
