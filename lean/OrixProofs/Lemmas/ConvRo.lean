import OrixProofs.Lemmas.ConvAx
/-
Plain Rodrigues vectors through the public wrappers: `to_rodrigues()` = `Quaternion.axis · tan(angle/2)`,
`from_rodrigues(ρ)` = `from_axes_angles(ρ, 2·arctan‖ρ‖)`, code-shaped models `Conv.toRodrigues`,
`Conv.fromRodrigues` (with the `axis` / `angle` properties' own thresholds).
-/
namespace Orix
open Scalar

theorem vnorm_real (v : Vec3 ℝ) : Vec3.norm v = Real.sqrt (v.x * v.x + v.y * v.y + v.z * v.z) := by
  simp only [Vec3.norm, Vec3.normSq, Vec3.dot, sqrt_real]

/-- for a unit quaternion with `0 < a < 1` the Rodrigues vector is `(b, c, d)/a` -/
theorem toRodrigues_unit (q : Quat ℝ) (h : Quat.normSq q = 1) (ha : 0 < q.a) (ha1 : q.a < 1) :
    Conv.toRodrigues q = ⟨q.b / q.a, q.c / q.a, q.d / q.a⟩ := by
  have h' : q.a * q.a + q.b * q.b + q.c * q.c + q.d * q.d = 1 := h
  have hs : Real.sqrt (q.b * q.b + q.c * q.c + q.d * q.d) = Real.sqrt (1 - q.a ^ 2) := sqrt_vec_eq h'
  have hspos : 0 < Real.sqrt (1 - q.a ^ 2) := by
    apply Real.sqrt_pos.mpr; nlinarith
  have hs0 : Real.sqrt (1 - q.a ^ 2) ≠ 0 := hspos.ne'
  have ha0 : q.a ≠ 0 := ha.ne'
  -- tan(angle/2) = √(1-a²)/a
  have htan : Real.tan (2 * Real.arccos |q.a| / 2) = Real.sqrt (1 - q.a ^ 2) / q.a := by
    rw [abs_of_pos ha, show 2 * Real.arccos q.a / 2 = Real.arccos q.a by ring, Real.tan_eq_sin_div_cos,
      Real.sin_arccos, Real.cos_arccos (by linarith) ha1.le]
  have hnot : ¬ q.a < 0 := not_lt.mpr ha.le
  simp only [Conv.toRodrigues, unit_of_normSq_one q h, Conv.angleProp, Conv.axisProp, lt_real, beq_real, lit_real,
    Nat.cast_ofNat, Nat.cast_zero, Nat.cast_one, acos_real, abs_real, tan_real, hnot, if_false]
  simp only [vnorm_real, hs0, if_false, Conv.vunit, htan, hs, Vec3.smul]
  congr 1 <;> field_simp

/-- … and the same formula for a negative scalar part (`Quaternion.axis` flips the axis for every `a < 0`) -/
theorem toRodrigues_unit_neg (q : Quat ℝ) (h : Quat.normSq q = 1) (ha : q.a < 0) (ha1 : -1 < q.a) :
    Conv.toRodrigues q = ⟨q.b / q.a, q.c / q.a, q.d / q.a⟩ := by
  have h' : q.a * q.a + q.b * q.b + q.c * q.c + q.d * q.d = 1 := h
  have hs : Real.sqrt (q.b * q.b + q.c * q.c + q.d * q.d) = Real.sqrt (1 - q.a ^ 2) := sqrt_vec_eq h'
  have hs' : Real.sqrt (-q.b * -q.b + -q.c * -q.c + -q.d * -q.d) = Real.sqrt (1 - q.a ^ 2) := by
    rw [← hs]; congr 1; ring
  have hspos : 0 < Real.sqrt (1 - q.a ^ 2) := by
    apply Real.sqrt_pos.mpr; nlinarith
  have hs0 : Real.sqrt (1 - q.a ^ 2) ≠ 0 := hspos.ne'
  have ha0 : q.a ≠ 0 := ha.ne
  have htan : Real.tan (2 * Real.arccos |q.a| / 2) = Real.sqrt (1 - q.a ^ 2) / -q.a := by
    rw [abs_of_neg ha, show 2 * Real.arccos (-q.a) / 2 = Real.arccos (-q.a) by ring, Real.tan_eq_sin_div_cos,
      Real.sin_arccos, Real.cos_arccos (by linarith) (by linarith), show (-q.a) ^ 2 = q.a ^ 2 by ring]
  simp only [Conv.toRodrigues, unit_of_normSq_one q h, Conv.angleProp, Conv.axisProp, lt_real, beq_real, lit_real,
    Nat.cast_ofNat, Nat.cast_zero, Nat.cast_one, acos_real, abs_real, tan_real, ha, if_true]
  simp only [vnorm_real, hs', hs0, if_false, Conv.vunit, htan, Vec3.smul]
  congr 1 <;> field_simp

/-- the plain Rodrigues vector does not see the sign of the quaternion -/
theorem toRodrigues_neg (q : Quat ℝ) (h : Quat.normSq q = 1) (ha : q.a < 0) (ha1 : -1 < q.a) :
    Conv.toRodrigues q = Conv.toRodrigues (Quat.neg q) := by
  have hn : Quat.normSq (Quat.neg q) = 1 := by
    have h' : q.a * q.a + q.b * q.b + q.c * q.c + q.d * q.d = 1 := h
    simp only [Quat.normSq, Quat.neg]; linarith
  rw [toRodrigues_unit_neg q h ha ha1, toRodrigues_unit (Quat.neg q) hn (by simp only [Quat.neg]; linarith)
    (by simp only [Quat.neg]; linarith)]
  have ha0 : q.a ≠ 0 := ha.ne
  simp only [Quat.neg]; congr 1 <;> field_simp

/-- **plain Rodrigues round trip through the wrappers**: `from_rodrigues(to_rodrigues(q)) = q` for unit `q` with
`0 < a < 1`, when the angle `2·arctan‖ρ‖` is outside `ax2qu`'s small-angle band -/
theorem fromRodrigues_toRodrigues (q : Quat ℝ) (h : Quat.normSq q = 1) (ha : 0 < q.a) (ha1 : q.a < 1)
    (g : 1 / 10 ^ 8 ≤ 2 * Real.arctan (Real.sqrt (1 - q.a ^ 2) / q.a)) :
    Conv.fromRodrigues (Conv.toRodrigues q) = q := by
  have h' : q.a * q.a + q.b * q.b + q.c * q.c + q.d * q.d = 1 := h
  have hs : Real.sqrt (q.b * q.b + q.c * q.c + q.d * q.d) = Real.sqrt (1 - q.a ^ 2) := sqrt_vec_eq h'
  have hspos : 0 < Real.sqrt (1 - q.a ^ 2) := by
    apply Real.sqrt_pos.mpr; nlinarith
  have hs0 : Real.sqrt (1 - q.a ^ 2) ≠ 0 := hspos.ne'
  have ha0 : q.a ≠ 0 := ha.ne'
  set s := Real.sqrt (1 - q.a ^ 2) with hsdef
  have hss : s * s = 1 - q.a ^ 2 := Real.mul_self_sqrt (by nlinarith)
  rw [toRodrigues_unit q h ha ha1]
  -- ‖ρ‖ = s / a
  have hn : Real.sqrt (q.b / q.a * (q.b / q.a) + q.c / q.a * (q.c / q.a) + q.d / q.a * (q.d / q.a)) = s / q.a := by
    rw [show q.b / q.a * (q.b / q.a) + q.c / q.a * (q.c / q.a) + q.d / q.a * (q.d / q.a) = (s / q.a) ^ 2 by
      field_simp; nlinarith]
    exact Real.sqrt_sq (div_nonneg hspos.le ha.le)
  have ht0 : s / q.a ≠ 0 := div_ne_zero hs0 ha0
  -- cos, sin of arctan(s/a)
  have h1 : Real.sqrt (1 + (s / q.a) ^ 2) = 1 / q.a := by
    rw [show 1 + (s / q.a) ^ 2 = (1 / q.a) ^ 2 by field_simp; nlinarith]
    exact Real.sqrt_sq (by positivity)
  have hc : Real.cos (2 * Real.arctan (s / q.a) * (1 / 2)) = q.a := by
    rw [show 2 * Real.arctan (s / q.a) * (1 / 2) = Real.arctan (s / q.a) by ring, Real.cos_arctan, h1]; field_simp
  have hsn : Real.sin (2 * Real.arctan (s / q.a) * (1 / 2)) = s := by
    rw [show 2 * Real.arctan (s / q.a) * (1 / 2) = Real.arctan (s / q.a) by ring, Real.sin_arctan, h1]; field_simp
  have hw : ¬ (-(1 / 10 ^ 8) < 2 * Real.arctan (s / q.a) ∧ 2 * Real.arctan (s / q.a) < 1 / 10 ^ 8) := by
    intro hh; linarith [hh.2]
  simp only [Conv.fromRodrigues, Conv.fromAxesAngles, Conv.vunit, vnorm_real, lit_real, Nat.cast_ofNat, atan_real,
    Bool.false_eq_true, if_false, hn, ax2qu_real, if_neg hw, hc, hsn]
  have e : ∀ y : ℝ, y / q.a / (s / q.a) * s = y := fun y => by field_simp
  simp only [e]
  have hnorm : Real.sqrt (q.a * q.a + q.b * q.b + q.c * q.c + q.d * q.d) = 1 := by rw [h', Real.sqrt_one]
  simp only [hnorm, Quat.divS, div_one]
  exact unit_of_normSq_one q h

end Orix
