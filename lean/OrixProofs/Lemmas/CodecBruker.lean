import OrixProofs.Lemmas.CodecAngVendorsMain
import OrixModel.Codec.Bruker
set_option linter.unusedSimpArgs false
set_option linter.unusedVariables false
/-
C15, Bruker h5ebsd: the region-of-interest re-ordering is a permutation that `a[argsort(IY*ncols+IX)]` sorts back.
-/
namespace Orix.Codec.Bruker
open Orix.Codec Orix.Codec.Ang

theorem insertKV_eq (e : Int × Nat) (l : List (Int × Nat)) :
    insertKV e l = List.orderedInsert (fun a b : Int × Nat => a.1 ≤ b.1) e l := by
  induction l with
  | nil => rfl
  | cons f r ih => simp [insertKV, List.orderedInsert, ih]

theorem sortKV_eq (l : List (Int × Nat)) :
    l.foldr insertKV [] = List.insertionSort (fun a b : Int × Nat => a.1 ≤ b.1) l := by
  induction l with
  | nil => rfl
  | cons e r ih => simp [List.foldr, ih, insertKV_eq]

instance : Std.Total (fun a b : Int × Nat => a.1 ≤ b.1) := ⟨fun a b => le_total a.1 b.1⟩
instance : IsTrans (Int × Nat) (fun a b : Int × Nat => a.1 ≤ b.1) := ⟨fun _ _ _ h1 h2 => le_trans h1 h2⟩

theorem zipIdxFrom_map_fst {α} (k : Nat) (l : List α) : (zipIdxFrom k l).map (·.2) = l := by
  induction l generalizing k with
  | nil => rfl
  | cons a r ih => simp [zipIdxFrom, ih]

theorem zipIdxFrom_getElem {α} (k : Nat) (l : List α) (jp : Nat × α) (h : jp ∈ zipIdxFrom k l) :
    k ≤ jp.1 ∧ l[jp.1 - k]? = some jp.2 := by
  induction l generalizing k with
  | nil => simp [zipIdxFrom] at h
  | cons a r ih =>
    simp only [zipIdxFrom, List.mem_cons] at h
    rcases h with rfl | h
    · simp
    · obtain ⟨h1, h2⟩ := ih (k + 1) h
      refine ⟨by omega, ?_⟩
      have : jp.1 - k = (jp.1 - (k + 1)) + 1 := by omega
      rw [this]; simpa using h2

/-- **sorted back** (index form): if the file stores at position `k` the map point `perm[k]`, for a
permutation `perm` of `0 … n-1`, then `perm[argsort(perm)[j]] = j` for every `j` — so `stored[argsort(…)]`
lists any stored array in map order -/
theorem perm_argsort (perm : List Nat) (n : Nat) (hp : perm.Perm (List.range n)) :
    (argsort (perm.map Int.ofNat)).mapM (perm[·]?) = some (List.range n) := by
  let P : List (Int × Nat) := (zipIdxFrom 0 (perm.map Int.ofNat)).map fun jk => (jk.2, jk.1)
  let S := List.insertionSort (fun a b : Int × Nat => a.1 ≤ b.1) P
  have hS : argsort (perm.map Int.ofNat) = S.map (·.2) := by
    unfold argsort
    rw [sortKV_eq]
  have hperm : S.Perm P := List.perm_insertionSort _ P
  -- (1) every pair carries its own key
  have h1 : ∀ e ∈ S, perm[e.2]? = some e.1.toNat := by
    intro e he
    obtain ⟨jk, hjk, rfl⟩ := List.mem_map.1 (hperm.subset he)
    obtain ⟨_, hget⟩ := zipIdxFrom_getElem 0 (perm.map Int.ofNat) jk hjk
    simp only [Nat.sub_zero, List.getElem?_map, Option.map_eq_some_iff] at hget
    obtain ⟨v, hv, hvk⟩ := hget
    simp [hv, ← hvk]
  -- (2) the sorted keys are 0, 1, …, n-1
  have hkeysP : P.map (·.1) = perm.map Int.ofNat := by
    simp only [P, List.map_map]
    exact zipIdxFrom_map_fst 0 _
  have h2 : S.map (·.1) = (List.range n).map Int.ofNat := by
    have hsorted : (S.map (·.1)).Pairwise (· ≤ ·) :=
      List.pairwise_map.2 (List.pairwise_insertionSort (fun a b : Int × Nat => a.1 ≤ b.1) P)
    have hrange : ((List.range n).map Int.ofNat).Pairwise (· ≤ ·) :=
      (Ang.range_pairwise n).imp (fun h => le_of_lt h)
    have hpp : (S.map (·.1)).Perm ((List.range n).map Int.ofNat) := by
      refine (hperm.map _).trans ?_
      rw [hkeysP]
      exact hp.map _
    exact List.Perm.eq_of_pairwise' hsorted hrange hpp
  rw [hS, mapM_map_eq_some S (·.2) (perm[·]?) (fun e => e.1.toNat) h1]
  congr 1
  have : S.map (fun e => e.1.toNat) = (S.map (·.1)).map Int.toNat := by simp [List.map_map, Function.comp]
  rw [this, h2, List.map_map]
  conv_rhs => rw [← List.map_id (List.range n)]
  exact List.map_congr_left (fun i _ => by simp)

theorem range'_mapM_getElem {α} (pre a : List α) :
    (List.range' pre.length a.length).mapM ((pre ++ a)[·]?) = some a := by
  induction a generalizing pre with
  | nil => rfl
  | cons v r ih =>
    have h := ih (pre ++ [v])
    simp only [List.length_append, List.length_singleton, List.append_assoc, List.singleton_append] at h
    simp [List.range'_succ, h]

theorem range_mapM_getElem {α} (a : List α) : (List.range a.length).mapM (a[·]?) = some a := by
  have := range'_mapM_getElem [] a
  simpa [List.range_eq_range'] using this

/-- … hence for every array: indexing the stored array with the argsort gives the array in map order -/
theorem take_argsort {α} (a stored : List α) (perm : List Nat) (hp : perm.Perm (List.range a.length))
    (hst : perm.mapM (a[·]?) = some stored) :
    take stored (argsort (perm.map Int.ofNat)) = some a := by
  have hidx := perm_argsort perm a.length hp
  have hF := mapM_some_forall₂ _ _ _ hst
  have hlen : perm.length = stored.length := forall₂_length hF
  -- stored[k] = a[perm[k]]
  have hk : ∀ (k j : Nat), perm[k]? = some j → stored[k]? = a[j]? := by
    intro k j hkj
    have : ∀ (l : List Nat) (st : List α), List.Forall₂ (fun j r => a[j]? = some r) l st →
        ∀ (k j : Nat), l[k]? = some j → st[k]? = a[j]? := by
      intro l st hf
      induction hf with
      | nil => intro k j h; simp at h
      | cons hab _ ih =>
        intro k j h
        cases k with
        | zero => simp at h; subst h; simp [hab]
        | succ k => simpa using ih k j (by simpa using h)
    exact this perm stored hF k j hkj
  unfold take
  have hF2 := mapM_some_forall₂ _ _ _ hidx
  have hgen : ∀ (idx rs : List Nat), List.Forall₂ (fun i r => perm[i]? = some r) idx rs →
      idx.mapM (stored[·]?) = rs.mapM (a[·]?) := by
    intro idx rs hf
    induction hf with
    | nil => rfl
    | cons hab _ ih => simp [hk _ _ hab, ih]
  have := hgen _ _ hF2
  rw [this]
  exact range_mapM_getElem a

end Orix.Codec.Bruker
