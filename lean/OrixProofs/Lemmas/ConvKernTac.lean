import Mathlib.Tactic.Ring
import Mathlib.Tactic.Linarith
import Mathlib.Tactic.SplitIfs
import OrixProofs.Lemmas.RealScalar
/-
Tactics of the T-ast obligations `generated kernel = code-shaped model` for branching / transcendental kernels
(used by the generated files `OrixProofs/GenAudit/K_*.lean`, see harness/extract/gen.py).
`kern_close`: split every `if`; close each leaf by `rfl` / `ring1`; if that fails normalise arithmetic everywhere
first (`ring_nf`, so that re-associated / commuted conditions become syntactically equal), refute leaves whose
conditions contradict each other linearly, and unfold decimal literals when constants were re-written.
-/
set_option linter.unusedTactic false
set_option linter.unreachableTactic false
namespace Orix

macro "kern_leaf" : tactic =>
  `(tactic| (simp only [List.cons.injEq, and_true, true_and] <;> (try (repeat' apply And.intro)) <;>
      (first | rfl | ring1 | (exfalso; linarith) | (simp only [dec_real]; ring1) | (ring_nf; done)
             | (simp only [dec_real]; ring_nf; done))))
macro "kern_close" : tactic =>
  `(tactic| first
      | (split_ifs <;> simp only [List.cons.injEq, and_true, true_and] <;> (try (repeat' apply And.intro)) <;>
          (first | rfl | ring1))
      | (ring_nf; split_ifs <;> kern_leaf)
      | (split_ifs <;> kern_leaf))

end Orix
