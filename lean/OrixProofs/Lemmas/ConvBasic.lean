import Mathlib.Tactic.Ring
import Mathlib.Tactic.FieldSimp
import Mathlib.Tactic.Linarith
import Mathlib.Tactic.Positivity
import Mathlib.Tactic.NormNum
import Mathlib.Tactic.LinearCombination
import OrixProofs.Lemmas.RealScalar
import OrixModel.Conv
import OrixModel.ConvSpec
/-
Real-number facts about the scalar primitives used by the conversion kernels:
constants, `fmod` by `2π`, `atan2` (= `Complex.arg`) on the unit circle, half square roots.
-/
namespace Orix
open Scalar

@[simp] theorem eps9_real : (Conv.eps9 : ℝ) = 1 / 10 ^ 9 := by simp [Conv.eps9, dec_real]
@[simp] theorem eps8_real : (Conv.eps8 : ℝ) = 1 / 10 ^ 8 := by simp [Conv.eps8, dec_real]
@[simp] theorem eps16_real : (Conv.eps16 : ℝ) = 1 / 10 ^ 16 := by simp [Conv.eps16, dec_real]
@[simp] theorem eps3_real : (Conv.eps3 : ℝ) = 1 / 10 ^ 3 := by simp [Conv.eps3, dec_real]
@[simp] theorem half_real : (Conv.half : ℝ) = 1 / 2 := by simp [Conv.half, dec_real]; norm_num

theorem eps9_pos : (0 : ℝ) < 1 / 10 ^ 9 := by positivity
theorem eps8_pos : (0 : ℝ) < 1 / 10 ^ 8 := by positivity

/-- `Scalar.lt`/`le`/`beq` conditions of `if` over ℝ as propositions -/
theorem ite_lt_real {β : Type} (x y : ℝ) (a b : β) :
    (if Scalar.lt x y = true then a else b) = (if x < y then a else b) := by
  simp only [lt_real]

/-! ### fmod by 2π -/

theorem two_pi_pos : (0 : ℝ) < Real.pi * 2 := by positivity

theorem fmod_nonneg (x : ℝ) {y : ℝ} (hy : 0 < y) : 0 ≤ Scalar.fmod x y := by
  rw [fmod_real]
  have h := Int.floor_le (x / y)
  have : (⌊x / y⌋ : ℝ) * y ≤ x := by
    calc (⌊x / y⌋ : ℝ) * y ≤ x / y * y := by exact mul_le_mul_of_nonneg_right h hy.le
      _ = x := by field_simp
  linarith

theorem fmod_lt (x : ℝ) {y : ℝ} (hy : 0 < y) : Scalar.fmod x y < y := by
  rw [fmod_real]
  have h := Int.lt_floor_add_one (x / y)
  have : x < ((⌊x / y⌋ : ℝ) + 1) * y := by
    calc x = x / y * y := by field_simp
      _ < ((⌊x / y⌋ : ℝ) + 1) * y := by exact mul_lt_mul_of_pos_right h hy
  linarith

/-- `np.mod(x, y)` is the identity on `[0, y)` -/
theorem fmod_eq_self {x y : ℝ} (h0 : 0 ≤ x) (h1 : x < y) : Scalar.fmod x y = x := by
  rw [fmod_real]
  have hy : 0 < y := lt_of_le_of_lt h0 h1
  have : ⌊x / y⌋ = 0 := by
    rw [Int.floor_eq_iff]
    constructor
    · simpa using div_nonneg h0 hy.le
    · simpa using (div_lt_one hy).mpr h1
  rw [this]; simp

theorem cos_fmod (x : ℝ) : Real.cos (Scalar.fmod x (Real.pi * 2)) = Real.cos x := by
  rw [fmod_real, show (⌊x / (Real.pi * 2)⌋ : ℝ) * (Real.pi * 2) = (⌊x / (Real.pi * 2)⌋ : ℤ) * (2 * Real.pi) by ring]
  exact Real.cos_sub_int_mul_two_pi x _

theorem sin_fmod (x : ℝ) : Real.sin (Scalar.fmod x (Real.pi * 2)) = Real.sin x := by
  rw [fmod_real, show (⌊x / (Real.pi * 2)⌋ : ℝ) * (Real.pi * 2) = (⌊x / (Real.pi * 2)⌋ : ℤ) * (2 * Real.pi) by ring]
  exact Real.sin_sub_int_mul_two_pi x _

/-! ### atan2 -/

theorem norm_mk (x y : ℝ) : ‖(⟨x, y⟩ : ℂ)‖ = Real.sqrt (x * x + y * y) := by
  rw [Complex.norm_def, Complex.normSq_mk]

/-- on the unit circle `atan2` inverts `(cos, sin)` -/
theorem cos_atan2_unit {x y : ℝ} (h : x * x + y * y = 1) : Real.cos (Scalar.atan2 y x) = x := by
  rw [atan2_real]
  have hn : ‖(⟨x, y⟩ : ℂ)‖ = 1 := by rw [norm_mk, h, Real.sqrt_one]
  have h0 : (⟨x, y⟩ : ℂ) ≠ 0 := by
    intro h0; rw [h0] at hn; simp at hn
  rw [Complex.cos_arg h0, hn]; simp

theorem sin_atan2_unit {x y : ℝ} (h : x * x + y * y = 1) : Real.sin (Scalar.atan2 y x) = y := by
  rw [atan2_real]
  have hn : ‖(⟨x, y⟩ : ℂ)‖ = 1 := by rw [norm_mk, h, Real.sqrt_one]
  rw [Complex.sin_arg, hn]; simp

theorem atan2_le_pi (y x : ℝ) : Scalar.atan2 y x ≤ Real.pi := Complex.arg_le_pi _
theorem neg_pi_lt_atan2 (y x : ℝ) : -Real.pi < Scalar.atan2 y x := Complex.neg_pi_lt_arg _
theorem atan2_nonneg {y : ℝ} (x : ℝ) (hy : 0 ≤ y) : 0 ≤ Scalar.atan2 y x := by
  rw [atan2_real]; exact Complex.arg_nonneg_iff.mpr hy

/-! ### square roots -/

theorem sqrt_four_sq (x : ℝ) : Real.sqrt (4 * (x * x)) = 2 * |x| := by
  rw [show 4 * (x * x) = (2 * x) ^ 2 by ring, Real.sqrt_sq_eq_abs, abs_mul]; simp

end Orix
