import Mathlib.Tactic.Ring
import Mathlib.Tactic.FieldSimp
import Mathlib.Tactic.Positivity
import Mathlib.Tactic.NormNum
import Mathlib.Tactic.Linarith
import Mathlib.Algebra.Order.Floor.Ring
import OrixProofs.Lemmas.RealScalar
import OrixProofs.Lemmas.Lattice
import OrixProofs.Lemmas.ColorKeyPolar
import OrixModel.MillerRound
/-
C10, `Miller.round`: the model of `_round_indices` over ℝ.
`np.round` as an integer (`rintZ`), its contract (nearest integer, fixes integers, monotone, keeps the sign, stays
within an integer bound); `np.max(np.abs(·))`; `np.argmin` = the first minimum (specification and uniqueness);
errors are non-negative; what `roundIndices` returns for ANY non-zero input (`roundIndices_ok`).
-/
namespace Orix.MillerRound
open Orix Scalar LatLemmas ColorKey

/-- `.astype(int)` over ℝ -/
noncomputable instance instHasToIntReal : HasToInt ℝ := ⟨fun x => ⌊x⌋⟩

theorem toInt_real (x : ℝ) : HasToInt.toInt x = ⌊x⌋ := rfl

/-! ### `np.round` -/

/-- `np.round(t)` as an integer -/
noncomputable def rintZ (t : ℝ) : ℤ := ⌊rint t⌋

theorem rint_eq_rintZ (t : ℝ) : rint t = (rintZ t : ℝ) := by
  obtain ⟨-, n, hn⟩ := rint_spec t
  simp [rintZ, hn]

theorem toInt_rint (t : ℝ) : HasToInt.toInt (rint t) = rintZ t := rfl

theorem rintZ_close (t : ℝ) : |(rintZ t : ℝ) - t| ≤ 1 / 2 := by
  rw [← rint_eq_rintZ]; exact (rint_spec t).1

/-- the only integer strictly closer than 1/2 -/
theorem rintZ_eq_of_close {t : ℝ} {n : ℤ} (h : |t - n| < 1 / 2) : rintZ t = n := by
  have hc := rintZ_close t
  rw [abs_le] at hc
  rw [abs_lt] at h
  have h1 : ((rintZ t - n : ℤ) : ℝ) < 1 := by push_cast; linarith [hc.2, h.1]
  have h2 : (-1 : ℝ) < ((rintZ t - n : ℤ) : ℝ) := by push_cast; linarith [hc.1, h.2]
  have h1' : rintZ t - n < 1 := by exact_mod_cast h1
  have h2' : -1 < rintZ t - n := by exact_mod_cast h2
  omega

theorem rintZ_int (n : ℤ) : rintZ (n : ℝ) = n := rintZ_eq_of_close (by simp)

theorem rintZ_mono {s t : ℝ} (h : s ≤ t) : rintZ s ≤ rintZ t := by
  have := rint_mono h
  rw [rint_eq_rintZ, rint_eq_rintZ] at this
  exact_mod_cast this

theorem rintZ_nonneg {t : ℝ} (h : 0 ≤ t) : 0 ≤ rintZ t := by
  have := rintZ_mono h
  rwa [show ((0 : ℝ)) = ((0 : ℤ) : ℝ) by simp, rintZ_int] at this

theorem rintZ_nonpos {t : ℝ} (h : t ≤ 0) : rintZ t ≤ 0 := by
  have := rintZ_mono h
  rwa [show ((0 : ℝ)) = ((0 : ℤ) : ℝ) by simp, rintZ_int] at this

/-- a value above 1/2 does not round to 0 -/
theorem one_le_rintZ {t : ℝ} (h : 1 / 2 < t) : 1 ≤ rintZ t := by
  have hc := rintZ_close t
  rw [abs_le] at hc
  have : (0 : ℝ) < (rintZ t : ℝ) := by linarith [hc.1]
  have : 0 < rintZ t := by exact_mod_cast this
  omega

/-- rounding stays within an integer bound -/
theorem rintZ_abs_le {t : ℝ} {m : ℤ} (h : |t| ≤ m) : |rintZ t| ≤ m := by
  rw [abs_le] at h ⊢
  constructor
  · have := rintZ_mono h.1
    rwa [show (-(m : ℝ)) = ((-m : ℤ) : ℝ) by push_cast; ring, rintZ_int] at this
  · have := rintZ_mono h.2
    rwa [rintZ_int] at this

/-- rounding keeps the (weak) sign -/
theorem rintZ_mul_nonneg (t : ℝ) : 0 ≤ (rintZ t : ℝ) * t := by
  rcases le_total 0 t with h | h
  · exact mul_nonneg (by exact_mod_cast rintZ_nonneg h) h
  · exact mul_nonneg_of_nonpos_of_nonpos (by exact_mod_cast rintZ_nonpos h) h

/-! ### `np.max(np.abs(·))` -/

theorem max2_real (x y : ℝ) : max2 x y = max x y := by
  unfold max2
  by_cases h : x < y
  · rw [if_pos ((lt_real x y).mpr h)]; exact (max_eq_right h.le).symm
  · rw [if_neg (fun hh => h ((lt_real x y).mp hh))]; exact (max_eq_left (not_lt.mp h)).symm

theorem min2_real (x y : ℝ) : min2 x y = min x y := by
  unfold min2
  by_cases h : y < x
  · rw [if_pos ((lt_real y x).mpr h)]; exact (min_eq_right h.le).symm
  · rw [if_neg (fun hh => h ((lt_real y x).mp hh))]; exact (min_eq_left (not_lt.mp h)).symm

theorem maxAbs3_real (v : Vec3 ℝ) : maxAbs3 v = max (max |v.x| |v.y|) |v.z| := by
  simp only [maxAbs3, max2_real, abs_real]

theorem maxAbs3_nonneg (v : Vec3 ℝ) : 0 ≤ maxAbs3 v := by
  rw [maxAbs3_real]; exact le_max_of_le_right (abs_nonneg _)

theorem abs_le_maxAbs3 (v : Vec3 ℝ) : |v.x| ≤ maxAbs3 v ∧ |v.y| ≤ maxAbs3 v ∧ |v.z| ≤ maxAbs3 v := by
  rw [maxAbs3_real]
  exact ⟨le_max_of_le_left (le_max_left _ _), le_max_of_le_left (le_max_right _ _), le_max_right _ _⟩

/-- the maximum is attained -/
theorem maxAbs3_attained (v : Vec3 ℝ) : |v.x| = maxAbs3 v ∨ |v.y| = maxAbs3 v ∨ |v.z| = maxAbs3 v := by
  rw [maxAbs3_real]
  rcases max_choice (max |v.x| |v.y|) |v.z| with h | h
  · rcases max_choice |v.x| |v.y| with h' | h'
    · left; rw [h, h']
    · right; left; rw [h, h']
  · right; right; rw [h]

/-! ### `np.argmin`: the first minimum -/

theorem argminGo_spec (f : ℕ → ℝ) : ∀ (k bi i : ℕ), bi < i → (∀ j < i, f bi ≤ f j) → (∀ j < bi, f bi < f j) →
    argminGo (f bi) bi i ((List.range' i k).map f) < i + k ∧
    (∀ j < i + k, f (argminGo (f bi) bi i ((List.range' i k).map f)) ≤ f j) ∧
    (∀ j < argminGo (f bi) bi i ((List.range' i k).map f), f (argminGo (f bi) bi i ((List.range' i k).map f)) < f j)
  | 0, bi, i, hbi, hmin, hfirst => by
    simp only [List.range'_zero, List.map_nil, argminGo, Nat.add_zero]
    exact ⟨hbi, hmin, hfirst⟩
  | k + 1, bi, i, hbi, hmin, hfirst => by
    simp only [List.range'_succ, List.map_cons, argminGo]
    by_cases h : f i < f bi
    · rw [if_pos ((lt_real _ _).mpr h)]
      have := argminGo_spec f k i (i + 1) (Nat.lt_succ_self i)
        (fun j hj => by
          rcases Nat.lt_succ_iff_lt_or_eq.mp hj with h' | rfl
          · exact le_trans h.le (hmin j h')
          · exact le_refl _)
        (fun j hj => lt_of_lt_of_le h (hmin j hj))
      rwa [show i + 1 + k = i + (k + 1) by omega] at this
    · rw [if_neg (fun hh => h ((lt_real _ _).mp hh))]
      have := argminGo_spec f k bi (i + 1) (Nat.lt_succ_of_lt hbi)
        (fun j hj => by
          rcases Nat.lt_succ_iff_lt_or_eq.mp hj with h' | rfl
          · exact hmin j h'
          · exact not_lt.mp h)
        hfirst
      rwa [show i + 1 + k = i + (k + 1) by omega] at this

/-- `np.argmin` over the values `f 0, …, f (n-1)`: defined for `n > 0`, a minimum, and the first one -/
theorem argminFirst_spec (f : ℕ → ℝ) {n : ℕ} (hn : 0 < n) :
    ∃ r, argminFirst ((List.range n).map f) = some r ∧ r < n ∧ (∀ j < n, f r ≤ f j) ∧ ∀ j < r, f r < f j := by
  obtain ⟨k, rfl⟩ : ∃ k, n = k + 1 := ⟨n - 1, by omega⟩
  rw [List.range_eq_range', List.range'_succ]
  simp only [List.map_cons, argminFirst, Nat.zero_add]
  have := argminGo_spec f k 0 1 Nat.one_pos (fun j hj => by
    have : j = 0 := by omega
    subst this; exact le_refl _) (fun j hj => by omega)
  refine ⟨_, rfl, ?_, this.2.1 |> fun h => by simpa [Nat.add_comm] using h, this.2.2⟩
  have h1 := this.1
  omega

/-- the first minimum is unique: an index that is a minimum and strictly better than all earlier ones IS the answer -/
theorem argminFirst_eq (f : ℕ → ℝ) {n k : ℕ} (hk : k < n) (hmin : ∀ j < n, f k ≤ f j) (hfirst : ∀ j < k, f k < f j) :
    argminFirst ((List.range n).map f) = some k := by
  obtain ⟨r, hr, hrn, hrmin, hrfirst⟩ := argminFirst_spec f (Nat.lt_of_le_of_lt (Nat.zero_le k) hk)
  rw [hr]
  congr 1
  rcases Nat.lt_trichotomy r k with h | h | h
  · exact absurd (hfirst r h) (not_lt.mpr (hrmin k hk))
  · exact h
  · exact absurd (hrfirst k h) (not_lt.mpr (hmin r hrn))

/-! ### the errors -/

theorem dec17 : (Scalar.dec 1 7 : ℝ) = 1 / 10000000 := by rw [dec_real]; norm_num

theorem sumSq_nonneg (s : Vec3 ℝ) : 0 ≤ sumSq s := by
  unfold sumSq; nlinarith [mul_self_nonneg s.x, mul_self_nonneg s.y, mul_self_nonneg s.z]

/-- the quantity that is rounded: `1e7 · Σ(x - round x)² / Σx²` -/
noncomputable def relErr (v : Vec3 ℝ) (mx : ℝ) (m : ℕ) : ℝ :=
  10000000 * sumSq (resid (scaled v mx m)) / sumSq (scaled v mx m)

theorem relErr_nonneg (v : Vec3 ℝ) (mx : ℝ) (m : ℕ) : 0 ≤ relErr v mx m :=
  div_nonneg (mul_nonneg (by norm_num) (sumSq_nonneg _)) (sumSq_nonneg _)

theorem err_real (v : Vec3 ℝ) (mx : ℝ) (m : ℕ) : err v mx m = (rintZ (relErr v mx m) : ℝ) / 10000000 := by
  simp only [err, dec17, lit_real, relErr, rint_eq_rintZ]
  push_cast; ring

theorem err_nonneg (v : Vec3 ℝ) (mx : ℝ) (m : ℕ) : 0 ≤ err v mx m := by
  rw [err_real]
  exact div_nonneg (by exact_mod_cast rintZ_nonneg (relErr_nonneg v mx m)) (by norm_num)

theorem err_eq_zero_of_relErr_lt {v : Vec3 ℝ} {mx : ℝ} {m : ℕ} (h : relErr v mx m < 1 / 2) : err v mx m = 0 := by
  rw [err_real, rintZ_eq_of_close (n := 0)]
  · simp
  · rw [Int.cast_zero, sub_zero, abs_of_nonneg (relErr_nonneg v mx m)]; exact h

theorem err_pos_of_relErr_gt {v : Vec3 ℝ} {mx : ℝ} {m : ℕ} (h : 1 / 2 < relErr v mx m) : 0 < err v mx m := by
  rw [err_real]
  have : (1 : ℝ) ≤ (rintZ (relErr v mx m) : ℝ) := by exact_mod_cast one_le_rintZ h
  positivity

theorem errExact_real (v : Vec3 ℝ) (mx : ℝ) (m : ℕ) :
    errExact v mx m = sumSq (resid (scaled v mx m)) / sumSq (scaled v mx m) := rfl

theorem errExact_nonneg (v : Vec3 ℝ) (mx : ℝ) (m : ℕ) : 0 ≤ errExact v mx m :=
  div_nonneg (sumSq_nonneg _) (sumSq_nonneg _)

theorem relErr_eq (v : Vec3 ℝ) (mx : ℝ) (m : ℕ) : relErr v mx m = 10000000 * errExact v mx m := by
  rw [relErr, errExact_real]; ring

/-! ### the selected multiplier, the result -/

theorem bestMultiplierBy_zero (e : Vec3 ℝ → ℝ → ℕ → ℝ) {maxIndex : ℕ} {v : Vec3 ℝ} (h : maxAbs3 v = 0) :
    bestMultiplierBy e maxIndex v = .error .zeroVector := by
  simp only [bestMultiplierBy, h, lit_real, Nat.cast_zero]
  rw [if_pos ((beq_real _ _).mpr rfl)]

theorem bestMultiplierBy_noMultiplier (e : Vec3 ℝ → ℝ → ℕ → ℝ) {v : Vec3 ℝ} (h : maxAbs3 v ≠ 0) :
    bestMultiplierBy e 0 v = .error .noMultiplier := by
  simp only [bestMultiplierBy, lit_real, Nat.cast_zero]
  rw [if_neg (fun hh => h ((beq_real _ _).mp hh))]
  simp [errorsBy, argminFirst]

/-- SPECIFICATION of the search: for a non-zero triplet and `max_index ≥ 1` a multiplier `1 ≤ m ≤ max_index` is
selected, its error is minimal, and every smaller multiplier has a strictly larger error -/
theorem bestMultiplierBy_spec (e : Vec3 ℝ → ℝ → ℕ → ℝ) {maxIndex : ℕ} (hn : 0 < maxIndex) {v : Vec3 ℝ}
    (h : maxAbs3 v ≠ 0) :
    ∃ m, bestMultiplierBy e maxIndex v = .ok m ∧ 1 ≤ m ∧ m ≤ maxIndex ∧
      (∀ m', 1 ≤ m' → m' ≤ maxIndex → e v (maxAbs3 v) m ≤ e v (maxAbs3 v) m') ∧
      ∀ m', 1 ≤ m' → m' < m → e v (maxAbs3 v) m < e v (maxAbs3 v) m' := by
  obtain ⟨r, hr, hrn, hmin, hfirst⟩ := argminFirst_spec (fun i => e v (maxAbs3 v) (i + 1)) hn
  refine ⟨r + 1, ?_, by omega, by omega, ?_, ?_⟩
  · simp only [bestMultiplierBy, lit_real, Nat.cast_zero]
    rw [if_neg (fun hh => h ((beq_real _ _).mp hh))]
    simp only [errorsBy]
    rw [hr]
  · intro m' h1 h2
    have := hmin (m' - 1) (by omega)
    simpa [Nat.sub_add_cancel h1] using this
  · intro m' h1 h2
    have := hfirst (m' - 1) (by omega)
    simpa [Nat.sub_add_cancel h1] using this

/-- … and a multiplier with these two properties is the one selected -/
theorem bestMultiplierBy_eq (e : Vec3 ℝ → ℝ → ℕ → ℝ) {maxIndex m : ℕ} {v : Vec3 ℝ} (h : maxAbs3 v ≠ 0) (h1 : 1 ≤ m)
    (h2 : m ≤ maxIndex) (hmin : ∀ m', 1 ≤ m' → m' ≤ maxIndex → e v (maxAbs3 v) m ≤ e v (maxAbs3 v) m')
    (hfirst : ∀ m', 1 ≤ m' → m' < m → e v (maxAbs3 v) m < e v (maxAbs3 v) m') :
    bestMultiplierBy e maxIndex v = .ok m := by
  simp only [bestMultiplierBy, lit_real, Nat.cast_zero]
  rw [if_neg (fun hh => h ((beq_real _ _).mp hh))]
  simp only [errorsBy]
  rw [argminFirst_eq (fun i => e v (maxAbs3 v) (i + 1)) (k := m - 1) (by omega)
    (fun j hj => by simpa [Nat.sub_add_cancel h1] using hmin (j + 1) (by omega) (by omega))
    (fun j hj => by simpa [Nat.sub_add_cancel h1] using hfirst (j + 1) (by omega) (by omega))]
  simp [Nat.sub_add_cancel h1]

theorem bestMultiplier_spec {maxIndex : ℕ} (hn : 0 < maxIndex) {v : Vec3 ℝ} (h : maxAbs3 v ≠ 0) :
    ∃ m, bestMultiplier maxIndex v = .ok m ∧ 1 ≤ m ∧ m ≤ maxIndex ∧
      (∀ m', 1 ≤ m' → m' ≤ maxIndex → err v (maxAbs3 v) m ≤ err v (maxAbs3 v) m') ∧
      ∀ m', 1 ≤ m' → m' < m → err v (maxAbs3 v) m < err v (maxAbs3 v) m' := bestMultiplierBy_spec err hn h

theorem bestMultiplier_eq {maxIndex m : ℕ} {v : Vec3 ℝ} (h : maxAbs3 v ≠ 0) (h1 : 1 ≤ m) (h2 : m ≤ maxIndex)
    (hmin : ∀ m', 1 ≤ m' → m' ≤ maxIndex → err v (maxAbs3 v) m ≤ err v (maxAbs3 v) m')
    (hfirst : ∀ m', 1 ≤ m' → m' < m → err v (maxAbs3 v) m < err v (maxAbs3 v) m') :
    bestMultiplier maxIndex v = .ok m := bestMultiplierBy_eq err h h1 h2 hmin hfirst

theorem roundOne_real (m : ℕ) (mx x : ℝ) : roundOne m mx x = rintZ ((m : ℝ) / mx * x) := by
  simp only [roundOne, lit_real, toInt_rint]

theorem roundIndicesBy_of_best (e : Vec3 ℝ → ℝ → ℕ → ℝ) {maxIndex m : ℕ} {v : Vec3 ℝ}
    (h : bestMultiplierBy e maxIndex v = .ok m) :
    roundIndicesBy e maxIndex v = .ok ⟨rintZ ((m : ℝ) / maxAbs3 v * v.x), rintZ ((m : ℝ) / maxAbs3 v * v.y),
      rintZ ((m : ℝ) / maxAbs3 v * v.z)⟩ := by
  simp only [roundIndicesBy, h, roundOne_real]

theorem roundIndices_of_best {maxIndex m : ℕ} {v : Vec3 ℝ} (h : bestMultiplier maxIndex v = .ok m) :
    roundIndices maxIndex v = .ok ⟨rintZ ((m : ℝ) / maxAbs3 v * v.x), rintZ ((m : ℝ) / maxAbs3 v * v.y),
      rintZ ((m : ℝ) / maxAbs3 v * v.z)⟩ := roundIndicesBy_of_best err h

theorem roundIndices4_of_best {maxIndex m : ℕ} {q : Vec4 ℝ} (h : bestMultiplier maxIndex ⟨q.x0, q.x1, q.x3⟩ = .ok m) :
    roundIndices4 maxIndex q = .ok ⟨rintZ ((m : ℝ) / maxAbs3 ⟨q.x0, q.x1, q.x3⟩ * q.x0),
      rintZ ((m : ℝ) / maxAbs3 ⟨q.x0, q.x1, q.x3⟩ * q.x1), rintZ ((m : ℝ) / maxAbs3 ⟨q.x0, q.x1, q.x3⟩ * q.x2),
      rintZ ((m : ℝ) / maxAbs3 ⟨q.x0, q.x1, q.x3⟩ * q.x3)⟩ := by
  simp only [roundIndices4, h, roundOne_real]

end Orix.MillerRound
