import Mathlib.Analysis.SpecialFunctions.Trigonometric.Basic
import Mathlib.Analysis.SpecialFunctions.Complex.Arg
import Mathlib.Analysis.Complex.Norm
import Mathlib.Algebra.Order.Round
import Mathlib.Tactic.Ring
import Mathlib.Tactic.FieldSimp
import Mathlib.Tactic.Positivity
import Mathlib.Tactic.NormNum
import Mathlib.Tactic.Linarith
import OrixProofs.Lemmas.RealScalar
import OrixProofs.Lemmas.SamplingBasic
import OrixProofs.Lemmas.ConvEu
import OrixModel.SO3Sampling
/-
Helper lemmas for the SO(3) covering theorems of C19 (methods "quaternion" and "haar_euler"):
polar form of a plane vector, the nearest node of an equispaced angular grid, the radial bound of the Hopf
coordinates `(√(1-u) e^{iφ₂}, √u e^{iφ₃})`, and list membership in the meshgrid-ordered grids.
-/
namespace Orix.SO3Lemmas
open Orix Scalar Sampling SO3Sampling SamplingLemmas

/-- POLAR FORM: every plane vector `(x, y)` is `ρ (sin θ, cos θ)` with `ρ = √(x² + y²)` -/
theorem polar_form (x y : ℝ) : ∃ θ : ℝ, x = Real.sqrt (x * x + y * y) * Real.sin θ ∧ y = Real.sqrt (x * x + y * y) * Real.cos θ := by
  refine ⟨Complex.arg ⟨y, x⟩, ?_, ?_⟩
  · have h := Complex.norm_mul_sin_arg ⟨y, x⟩
    rw [Complex.norm_eq_sqrt_sq_add_sq] at h
    simp only at h
    rw [show x * x + y * y = y ^ 2 + x ^ 2 by ring]
    exact h.symm
  · have h := Complex.norm_mul_cos_arg ⟨y, x⟩
    rw [Complex.norm_eq_sqrt_sq_add_sq] at h
    simp only at h
    rw [show x * x + y * y = y ^ 2 + x ^ 2 by ring]
    exact h.symm

/-- NEAREST ANGULAR NODE: every angle `φ` is `2π k/n + e + 2π m` with a node index `k < n`, an error `|e| ≤ π/n` and an
integer number of turns `m` -/
theorem nearest_node (n : ℕ) (hn : 0 < n) (φ : ℝ) :
    ∃ k : ℕ, k < n ∧ ∃ m : ℤ, ∃ e : ℝ, |e| ≤ Real.pi / n ∧ φ = 2 * Real.pi * ((k : ℝ) / n) + e + m * (2 * Real.pi) := by
  have hnr : (0 : ℝ) < n := by exact_mod_cast hn
  have hpi := Real.pi_pos
  set t : ℝ := φ * n / (2 * Real.pi) with ht
  set j : ℤ := round t with hj
  have hr : |t - j| ≤ 1 / 2 := abs_sub_round t
  have hnz : (n : ℤ) ≠ 0 := by exact_mod_cast hn.ne'
  have hk0 : 0 ≤ j % (n : ℤ) := Int.emod_nonneg j hnz
  have hk1 : j % (n : ℤ) < n := Int.emod_lt_of_pos j (by exact_mod_cast hn)
  refine ⟨(j % (n : ℤ)).toNat, by omega, j / (n : ℤ), (2 * Real.pi / n) * (t - j), ?_, ?_⟩
  · rw [abs_mul, abs_of_pos (by positivity : (0 : ℝ) < 2 * Real.pi / n)]
    calc 2 * Real.pi / n * |t - j| ≤ 2 * Real.pi / n * (1 / 2) := by
          apply mul_le_mul_of_nonneg_left hr; positivity
      _ = Real.pi / n := by ring
  · have hcast : (((j % (n : ℤ)).toNat : ℕ) : ℝ) = ((j % (n : ℤ) : ℤ) : ℝ) := by
      have : (((j % (n : ℤ)).toNat : ℕ) : ℤ) = j % (n : ℤ) := Int.toNat_of_nonneg hk0
      exact_mod_cast this
    have hdiv : (j : ℝ) = ((j % (n : ℤ) : ℤ) : ℝ) + (n : ℝ) * ((j / (n : ℤ) : ℤ) : ℝ) := by
      have := Int.emod_add_mul_ediv j (n : ℤ)
      have h2 : ((j % (n : ℤ) + (n : ℤ) * (j / (n : ℤ)) : ℤ) : ℝ) = (j : ℝ) := by exact_mod_cast this
      push_cast at h2
      linarith
    rw [hcast]
    have htφ : φ = 2 * Real.pi / n * t := by
      rw [ht]; field_simp
    have hn0 : (n : ℝ) ≠ 0 := hnr.ne'
    calc φ = 2 * Real.pi / n * (t - j) + 2 * Real.pi / n * j := by rw [htφ]; ring
      _ = _ := by rw [hdiv]; field_simp; ring

/-- the cosine at the nearest node is at least `cos(π/n)` -/
theorem cos_small_error {n : ℕ} (hn : 1 ≤ n) {e : ℝ} (he : |e| ≤ Real.pi / n) : Real.cos (Real.pi / n) ≤ Real.cos e := by
  rw [← Real.cos_abs e]
  apply Real.cos_le_cos_of_nonneg_of_le_pi (abs_nonneg e) _ he
  have hnr : (1 : ℝ) ≤ n := by exact_mod_cast hn
  rw [div_le_iff₀ (by linarith)]
  nlinarith [Real.pi_pos]

theorem cos_pi_div_nonneg {n : ℕ} (hn : 2 ≤ n) : 0 ≤ Real.cos (Real.pi / n) := by
  apply Real.cos_nonneg_of_neg_pi_div_two_le_of_le
  · have : 0 ≤ Real.pi / n := by positivity
    linarith [Real.pi_pos]
  · have hnr : (2 : ℝ) ≤ n := by exact_mod_cast hn
    rw [div_le_div_iff₀ (by linarith) (by norm_num)]
    nlinarith [Real.pi_pos]

/-- RADIAL BOUND: `√((1-u)(1-u₁)) + √(u u₁) ≥ √(1 - |u - u₁|)` for `u, u₁ ∈ [0, 1]` (this is `cos(α - α₁)` for
`u = sin²α`, `u₁ = sin²α₁`) -/
theorem radial_bound_aux {u v : ℝ} (hv0 : 0 ≤ v) (hvu : v ≤ u) (hu1 : u ≤ 1) :
    Real.sqrt (1 - (u - v)) ≤ Real.sqrt ((1 - u) * (1 - v)) + Real.sqrt (u * v) := by
  have hu0 : 0 ≤ u := le_trans hv0 hvu
  have hA : 0 ≤ (1 - u) * (1 - v) := mul_nonneg (by linarith) (by linarith)
  have hB : 0 ≤ u * v := mul_nonneg hu0 hv0
  set x := Real.sqrt ((1 - u) * (1 - v)) with hx
  set y := Real.sqrt (u * v) with hy
  have hx0 : 0 ≤ x := Real.sqrt_nonneg _
  have hy0 : 0 ≤ y := Real.sqrt_nonneg _
  have hxx : x * x = (1 - u) * (1 - v) := Real.mul_self_sqrt hA
  have hyy : y * y = u * v := Real.mul_self_sqrt hB
  -- x y ≥ v (1 - u)
  have hxy : v * (1 - u) ≤ x * y := by
    have hw : 0 ≤ v * (1 - u) := mul_nonneg hv0 (by linarith)
    have hsq : (v * (1 - u)) * (v * (1 - u)) ≤ (x * y) * (x * y) := by
      have : (x * y) * (x * y) = (x * x) * (y * y) := by ring
      rw [this, hxx, hyy]
      have : (1 - u) * (1 - v) * (u * v) - v * (1 - u) * (v * (1 - u)) = v * (1 - u) * (u - v) := by ring
      nlinarith [mul_nonneg hw (by linarith : (0 : ℝ) ≤ u - v)]
    exact (mul_self_le_mul_self_iff hw (mul_nonneg hx0 hy0)).mpr hsq
  have key : 1 - (u - v) ≤ (x + y) * (x + y) := by
    have : (x + y) * (x + y) = x * x + y * y + 2 * (x * y) := by ring
    rw [this, hxx, hyy]; nlinarith
  calc Real.sqrt (1 - (u - v)) ≤ Real.sqrt ((x + y) * (x + y)) := Real.sqrt_le_sqrt key
    _ = x + y := Real.sqrt_mul_self (add_nonneg hx0 hy0)

theorem radial_bound {u v : ℝ} (hu0 : 0 ≤ u) (hu1 : u ≤ 1) (hv0 : 0 ≤ v) (hv1 : v ≤ 1) :
    Real.sqrt (1 - |u - v|) ≤ Real.sqrt ((1 - u) * (1 - v)) + Real.sqrt (u * v) := by
  rcases le_total v u with h | h
  · rw [abs_of_nonneg (by linarith)]
    exact radial_bound_aux hv0 h hu1
  · rw [abs_of_nonpos (by linarith)]
    have := radial_bound_aux hu0 h hv1
    rw [show -(u - v) = v - u by ring, mul_comm (1 - u), mul_comm u]
    exact this

/-! ### method "quaternion" -/

/-- the `u₁` node `i` over ℝ: `i/(n-1)` -/
theorem quatU1_at (n : ℕ) (hn : 2 ≤ n) (i : ℕ) (hi : i < n) :
    linspaceAt (lit 0 : ℝ) (lit 1) n true i = (i : ℝ) * (1 / ((n : ℝ) - 1)) := by
  rw [linspaceAt_real _ _ n true i hi]
  simp only [linStep, linspaceDiv, if_true, lit_real, Nat.cast_zero, Nat.cast_one, sub_zero, zero_add]
  have : ((n - 1 : ℕ) : ℝ) = (n : ℝ) - 1 := by
    rw [Nat.cast_sub (by omega)]; simp
  rw [this]

/-- the `u₂`, `u₃` node `k` over ℝ: `k/n` -/
theorem quatU23_at (n : ℕ) (k : ℕ) (hk : k < n) :
    linspaceAt (lit 0 : ℝ) (lit 1) n false k = (k : ℝ) / n := by
  rw [linspaceAt_real _ _ n false k hk]
  simp only [linStep, linspaceDiv, lit_real, Nat.cast_zero, Nat.cast_one, sub_zero, zero_add]
  simp
  ring

theorem mem_quatGrid {n i k2 k3 : ℕ} (hi : i < n) (h2 : k2 < n) (h3 : k3 < n) :
    quatPoint (linspaceAt (lit 0 : ℝ) (lit 1) n true i) (linspaceAt (lit 0 : ℝ) (lit 1) n false k2)
      (linspaceAt (lit 0 : ℝ) (lit 1) n false k3) ∈ (quatGrid n : List (Quat ℝ)) := by
  unfold quatGrid quatU1 quatU23
  simp only [List.mem_flatMap, List.mem_map, mem_linspace]
  exact ⟨_, ⟨k2, h2, rfl⟩, _, ⟨i, hi, rfl⟩, _, ⟨k3, h3, rfl⟩, rfl⟩

/-- the dot product of a quaternion in Hopf form with a grid quaternion -/
theorem hopf_dot (r s r' s' φ2 φ3 θ2 θ3 : ℝ) :
    Quat.dot (⟨r * Real.sin φ2, r * Real.cos φ2, s * Real.sin φ3, s * Real.cos φ3⟩ : Quat ℝ)
        ⟨r' * Real.sin θ2, r' * Real.cos θ2, s' * Real.sin θ3, s' * Real.cos θ3⟩
      = r * r' * Real.cos (φ2 - θ2) + s * s' * Real.cos (φ3 - θ3) := by
  simp only [Quat.dot, Real.cos_sub]; ring

/-- COVERING, method "quaternion": every unit quaternion `p` has a grid quaternion `q` with
`p·q ≥ cos(π/n) √(1 - 1/(2(n-1)))`, `n ≥ 2` the number of steps -/
theorem quat_grid_cover (n : ℕ) (hn : 2 ≤ n) (p : Quat ℝ) (hp : Quat.normSq p = 1) :
    ∃ q ∈ (quatGrid n : List (Quat ℝ)),
      Real.cos (Real.pi / n) * Real.sqrt (1 - 1 / (2 * ((n : ℝ) - 1))) ≤ Quat.dot p q := by
  have hnr : (2 : ℝ) ≤ n := by exact_mod_cast hn
  set u : ℝ := p.c * p.c + p.d * p.d with hu
  have hw : p.a * p.a + p.b * p.b = 1 - u := by
    simp only [Quat.normSq] at hp; rw [hu]; linarith
  have hu0 : 0 ≤ u := by rw [hu]; nlinarith [mul_self_nonneg p.c, mul_self_nonneg p.d]
  have hu1 : u ≤ 1 := by nlinarith [mul_self_nonneg p.a, mul_self_nonneg p.b]
  obtain ⟨φ2, ha, hb⟩ := polar_form p.a p.b
  obtain ⟨φ3, hc, hd⟩ := polar_form p.c p.d
  rw [hw] at ha hb
  rw [← hu] at hc hd
  obtain ⟨i, hi, hiu⟩ := grid_cover (n - 1) (by omega) 1 zero_le_one u hu0 hu1
  have hcast : ((n - 1 : ℕ) : ℝ) = (n : ℝ) - 1 := by rw [Nat.cast_sub (by omega)]; simp
  rw [hcast] at hiu
  obtain ⟨k2, hk2, m2, e2, he2, hφ2⟩ := nearest_node n (by omega) φ2
  obtain ⟨k3, hk3, m3, e3, he3, hφ3⟩ := nearest_node n (by omega) φ3
  have hin : i < n := by omega
  refine ⟨_, mem_quatGrid hin hk2 hk3, ?_⟩
  rw [quatU1_at n hn i hin, quatU23_at n k2 hk2, quatU23_at n k3 hk3]
  set v : ℝ := (i : ℝ) * (1 / ((n : ℝ) - 1)) with hv
  have hn1 : (0 : ℝ) < (n : ℝ) - 1 := by linarith
  have hv0 : 0 ≤ v := by rw [hv]; positivity
  have hv1 : v ≤ 1 := by
    rw [hv, mul_one_div, div_le_one hn1]
    have : (i : ℝ) ≤ ((n - 1 : ℕ) : ℝ) := by exact_mod_cast hi
    rw [hcast] at this; exact this
  have hp' : p = ⟨Real.sqrt (1 - u) * Real.sin φ2, Real.sqrt (1 - u) * Real.cos φ2,
      Real.sqrt u * Real.sin φ3, Real.sqrt u * Real.cos φ3⟩ := by
    cases p; simp only [Quat.mk.injEq]; exact ⟨ha, hb, hc, hd⟩
  have hq : (quatPoint v ((k2 : ℝ) / n) ((k3 : ℝ) / n) : Quat ℝ) =
      ⟨Real.sqrt (1 - v) * Real.sin (2 * Real.pi * ((k2 : ℝ) / n)), Real.sqrt (1 - v) * Real.cos (2 * Real.pi * ((k2 : ℝ) / n)),
       Real.sqrt v * Real.sin (2 * Real.pi * ((k3 : ℝ) / n)), Real.sqrt v * Real.cos (2 * Real.pi * ((k3 : ℝ) / n))⟩ := by
    simp [quatPoint]
  rw [hq, hp', hopf_dot]
  have hc2 : Real.cos (φ2 - 2 * Real.pi * ((k2 : ℝ) / n)) = Real.cos e2 := by
    rw [hφ2, show 2 * Real.pi * ((k2 : ℝ) / n) + e2 + m2 * (2 * Real.pi) - 2 * Real.pi * ((k2 : ℝ) / n)
        = e2 + m2 * (2 * Real.pi) by ring, Real.cos_add_int_mul_two_pi]
  have hc3 : Real.cos (φ3 - 2 * Real.pi * ((k3 : ℝ) / n)) = Real.cos e3 := by
    rw [hφ3, show 2 * Real.pi * ((k3 : ℝ) / n) + e3 + m3 * (2 * Real.pi) - 2 * Real.pi * ((k3 : ℝ) / n)
        = e3 + m3 * (2 * Real.pi) by ring, Real.cos_add_int_mul_two_pi]
  rw [hc2, hc3]
  have hC := cos_pi_div_nonneg hn
  have h2 := cos_small_error (by omega : 1 ≤ n) he2
  have h3 := cos_small_error (by omega : 1 ≤ n) he3
  have hA : 0 ≤ Real.sqrt (1 - u) * Real.sqrt (1 - v) := mul_nonneg (Real.sqrt_nonneg _) (Real.sqrt_nonneg _)
  have hB : 0 ≤ Real.sqrt u * Real.sqrt v := mul_nonneg (Real.sqrt_nonneg _) (Real.sqrt_nonneg _)
  have hrad := radial_bound hu0 hu1 hv0 hv1
  rw [Real.sqrt_mul (by linarith : 0 ≤ 1 - u), Real.sqrt_mul hu0] at hrad
  have hmono : Real.sqrt (1 - 1 / (2 * ((n : ℝ) - 1))) ≤ Real.sqrt (1 - |u - v|) := by
    apply Real.sqrt_le_sqrt
    have : |u - v| ≤ 1 / ((n : ℝ) - 1) / 2 := hiu
    have e : 1 / (2 * ((n : ℝ) - 1)) = 1 / ((n : ℝ) - 1) / 2 := by field_simp
    rw [e]; linarith
  calc Real.cos (Real.pi / n) * Real.sqrt (1 - 1 / (2 * ((n : ℝ) - 1)))
      ≤ Real.cos (Real.pi / n) * (Real.sqrt (1 - u) * Real.sqrt (1 - v) + Real.sqrt u * Real.sqrt v) :=
        mul_le_mul_of_nonneg_left (le_trans hmono hrad) hC
    _ = Real.sqrt (1 - u) * Real.sqrt (1 - v) * Real.cos (Real.pi / n) + Real.sqrt u * Real.sqrt v * Real.cos (Real.pi / n) := by ring
    _ ≤ _ := add_le_add (mul_le_mul_of_nonneg_left h2 hA) (mul_le_mul_of_nonneg_left h3 hB)

/-! ### method "haar_euler" -/

/-- the `α`, `γ` node `k` over ℝ: `2π k/n` -/
theorem eulerAlpha_at (n : ℕ) (k : ℕ) (hk : k < n) :
    linspaceAt (lit 0 : ℝ) (lit 2 * pi) n false k = 2 * Real.pi * ((k : ℝ) / n) := by
  rw [linspaceAt_real _ _ n false k hk]
  simp only [linStep, linspaceDiv, lit_real, pi_real, Nat.cast_zero, Nat.cast_ofNat, sub_zero, zero_add]
  simp
  ring

/-- the `cos β` node `j` over ℝ: `1 - 2 j/h` -/
theorem eulerCosBeta_at (h : ℕ) (j : ℕ) (hj : j < h) :
    linspaceAt (lit 1 : ℝ) (-(lit 1)) h false j = 1 - 2 * ((j : ℝ) / h) := by
  rw [linspaceAt_real _ _ h false j hj]
  simp only [linStep, linspaceDiv, lit_real, Nat.cast_one]
  simp
  ring

theorem mem_eulerGrid {n h ka kg j : ℕ} (ha : ka < n) (hg : kg < n) (hj : j < h) :
    Conv.eu2qu ⟨linspaceAt (lit 0 : ℝ) (lit 2 * pi) n false ka, acos (linspaceAt (lit 1 : ℝ) (-(lit 1)) h false j),
      linspaceAt (lit 0 : ℝ) (lit 2 * pi) n false kg⟩ ∈ (eulerGrid n h : List (Quat ℝ)) := by
  unfold eulerGrid eulerTriplets eulerAlpha eulerBeta
  simp only [List.mem_flatMap, List.mem_map, mem_linspace]
  exact ⟨_, ⟨_, ⟨kg, hg, rfl⟩, _, ⟨ka, ha, rfl⟩, _, ⟨_, ⟨j, hj, rfl⟩, rfl⟩, rfl⟩, rfl⟩

/-- half-angle values at a `β` node: `cos(β/2) = √(1-v)`, `sin(β/2) = √v` for `cos β = 1 - 2v`, `v ∈ [0, 1]` -/
theorem half_angle_at {v : ℝ} (hv0 : 0 ≤ v) (hv1 : v ≤ 1) :
    Real.cos (Real.arccos (1 - 2 * v) / 2) = Real.sqrt (1 - v) ∧ Real.sin (Real.arccos (1 - 2 * v) / 2) = Real.sqrt v := by
  have hc : Real.cos (Real.arccos (1 - 2 * v)) = 1 - 2 * v := Real.cos_arccos (by linarith) (by linarith)
  have h0 := Real.arccos_nonneg (1 - 2 * v)
  have h1 := Real.arccos_le_pi (1 - 2 * v)
  constructor
  · rw [Real.cos_half (by linarith [Real.pi_pos]) h1, hc]; congr 1; ring
  · rw [Real.sin_half_eq_sqrt h0 (by linarith [Real.pi_pos]), hc]; congr 1; ring

/-- `(-1)^(a+b) = (-1)^(a-b)` as a common sign `±1` -/
theorem common_sign (a b : ℤ) : ∃ s : ℝ, (s = 1 ∨ s = -1) ∧ (-1 : ℝ) ^ (a + b) = s ∧ (-1 : ℝ) ^ (a - b) = s := by
  rcases Int.even_or_odd (a + b) with he | ho
  · have he' : Even (a - b) := by
      rw [Int.even_sub]; rw [Int.even_add] at he; exact he
    exact ⟨1, Or.inl rfl, he.neg_one_zpow, he'.neg_one_zpow⟩
  · have ho' : Odd (a - b) := by
      rw [← Int.not_even_iff_odd] at ho ⊢
      rw [Int.even_sub]; rw [Int.even_add] at ho; exact ho
    exact ⟨-1, Or.inr rfl, ho.neg_one_zpow, ho'.neg_one_zpow⟩

/-- covering of `[0, 1]` by the `h` nodes `j/h`, `j < h` (the endpoint 1 is missing: the last cell is a whole step) -/
theorem half_open_cover (h : ℕ) (hh : 1 ≤ h) (u : ℝ) (hu0 : 0 ≤ u) (hu1 : u ≤ 1) :
    ∃ j : ℕ, j < h ∧ |u - (j : ℝ) / h| ≤ 1 / h := by
  have hhr : (1 : ℝ) ≤ h := by exact_mod_cast hh
  have hpos : (0 : ℝ) < h := by linarith
  obtain ⟨i, hi, hiu⟩ := grid_cover h (by omega) 1 zero_le_one u hu0 hu1
  rcases Nat.lt_or_ge i h with hlt | hge
  · refine ⟨i, hlt, ?_⟩
    have : (i : ℝ) / h = (i : ℝ) * (1 / h) := by ring
    rw [this]
    have h2 : (1 : ℝ) / h / 2 ≤ 1 / h := by
      have : (0 : ℝ) ≤ 1 / h := by positivity
      linarith
    exact le_trans hiu h2
  · have hih : i = h := le_antisymm hi hge
    subst hih
    refine ⟨i - 1, by omega, ?_⟩
    have hc : ((i - 1 : ℕ) : ℝ) = (i : ℝ) - 1 := by rw [Nat.cast_sub hh]; simp
    rw [hc]
    have e1 : (i : ℝ) * (1 / i) = 1 := by field_simp
    rw [e1] at hiu
    have hlo := (abs_le.mp hiu).1
    have e2 : ((i : ℝ) - 1) / i = 1 - 1 / i := by field_simp
    rw [e2, abs_le]
    have : (0 : ℝ) ≤ 1 / i := by positivity
    constructor <;> linarith

/-- dot product of a quaternion in `(a, d)`/`(b, c)` Hopf form with the raw Euler quaternion -/
theorem euler_dot (ρ τ c s σp δp σ δ : ℝ) :
    Quat.dot (⟨ρ * Real.cos σp, -(τ * Real.cos δp), -(τ * Real.sin δp), -(ρ * Real.sin σp)⟩ : Quat ℝ)
        ⟨c * Real.cos σ, -s * Real.cos δ, -s * Real.sin δ, -c * Real.sin σ⟩
      = ρ * c * Real.cos (σp - σ) + τ * s * Real.cos (δp - δ) := by
  simp only [Quat.dot, Real.cos_sub]; ring

theorem abs_dot_eu2qu (p : Quat ℝ) (e : Euler ℝ) : |Quat.dot p (Conv.eu2qu e)| = |Quat.dot p (Conv.eu2quRaw e)| := by
  rw [eu2qu_real]
  split_ifs
  · have : Quat.dot p (Quat.neg (Conv.eu2quRaw e)) = -Quat.dot p (Conv.eu2quRaw e) := by
      simp only [Quat.dot, Quat.neg]; ring
    rw [this, abs_neg]
  · rfl

/-- COVERING, method "haar_euler": every unit quaternion `p` has a grid quaternion `q` with
`|p·q| ≥ cos(π/n) √(1 - 1/h)`; `n ≥ 2` steps in `α`, `γ`, `h ≥ 1` steps in `cos β` (the code uses `h = n/2`) -/
theorem euler_grid_cover (n h : ℕ) (hn : 2 ≤ n) (hh : 1 ≤ h) (p : Quat ℝ) (hp : Quat.normSq p = 1) :
    ∃ q ∈ (eulerGrid n h : List (Quat ℝ)),
      Real.cos (Real.pi / n) * Real.sqrt (1 - 1 / h) ≤ |Quat.dot p q| := by
  have hnr : (2 : ℝ) ≤ n := by exact_mod_cast hn
  have hhr : (1 : ℝ) ≤ h := by exact_mod_cast hh
  set u : ℝ := p.b * p.b + p.c * p.c with hu
  have hw : p.d * p.d + p.a * p.a = 1 - u := by
    simp only [Quat.normSq] at hp; rw [hu]; linarith
  have hu0 : 0 ≤ u := by rw [hu]; nlinarith [mul_self_nonneg p.b, mul_self_nonneg p.c]
  have hu1 : u ≤ 1 := by nlinarith [mul_self_nonneg p.a, mul_self_nonneg p.d]
  obtain ⟨σp, hd, ha⟩ := polar_form (-p.d) p.a
  obtain ⟨δp, hc, hb⟩ := polar_form (-p.c) (-p.b)
  rw [show -p.d * -p.d + p.a * p.a = 1 - u by rw [← hw]; ring] at hd ha
  rw [show -p.c * -p.c + -p.b * -p.b = u by rw [hu]; ring] at hc hb
  obtain ⟨j, hj, hju⟩ := half_open_cover h hh u hu0 hu1
  obtain ⟨ka, hka, ma, ea, hea, hα⟩ := nearest_node n (by omega) (σp + δp)
  obtain ⟨kg, hkg, mg, eg, heg, hγ⟩ := nearest_node n (by omega) (σp - δp)
  refine ⟨_, mem_eulerGrid hka hkg hj, ?_⟩
  rw [abs_dot_eu2qu, eu2quRaw_real]
  simp only [acos_real]
  rw [eulerAlpha_at n ka hka, eulerAlpha_at n kg hkg, eulerCosBeta_at h j hj]
  set v : ℝ := (j : ℝ) / h with hv
  have hpos : (0 : ℝ) < h := by linarith
  have hv0 : 0 ≤ v := by rw [hv]; positivity
  have hv1 : v ≤ 1 := by
    rw [hv, div_le_one hpos]; exact_mod_cast hj.le
  obtain ⟨hch, hsh⟩ := half_angle_at hv0 hv1
  rw [hch, hsh]
  have hp' : p = ⟨Real.sqrt (1 - u) * Real.cos σp, -(Real.sqrt u * Real.cos δp), -(Real.sqrt u * Real.sin δp),
      -(Real.sqrt (1 - u) * Real.sin σp)⟩ := by
    cases p; simp only [Quat.mk.injEq]
    refine ⟨ha, ?_, ?_, ?_⟩ <;> linarith
  rw [hp', euler_dot]
  obtain ⟨sg, hsg, hs1, hs2⟩ := common_sign ma mg
  have hcσ : Real.cos (σp - 1 / 2 * (2 * Real.pi * ((ka : ℝ) / n) + 2 * Real.pi * ((kg : ℝ) / n))) = sg * Real.cos ((ea + eg) / 2) := by
    have e : σp - 1 / 2 * (2 * Real.pi * ((ka : ℝ) / n) + 2 * Real.pi * ((kg : ℝ) / n))
        = (ea + eg) / 2 + ((ma + mg : ℤ) : ℝ) * Real.pi := by
      push_cast; linarith
    rw [e, Real.cos_add_int_mul_pi, hs1]
  have hcδ : Real.cos (δp - 1 / 2 * (2 * Real.pi * ((ka : ℝ) / n) - 2 * Real.pi * ((kg : ℝ) / n))) = sg * Real.cos ((ea - eg) / 2) := by
    have e : δp - 1 / 2 * (2 * Real.pi * ((ka : ℝ) / n) - 2 * Real.pi * ((kg : ℝ) / n))
        = (ea - eg) / 2 + ((ma - mg : ℤ) : ℝ) * Real.pi := by
      push_cast; linarith
    rw [e, Real.cos_add_int_mul_pi, hs2]
  rw [hcσ, hcδ]
  have hC := cos_pi_div_nonneg hn
  have hx : |(ea + eg) / 2| ≤ Real.pi / n := by
    rw [abs_le] at hea heg ⊢; constructor <;> linarith [hea.1, hea.2, heg.1, heg.2]
  have hy : |(ea - eg) / 2| ≤ Real.pi / n := by
    rw [abs_le] at hea heg ⊢; constructor <;> linarith [hea.1, hea.2, heg.1, heg.2]
  have h2 := cos_small_error (by omega : 1 ≤ n) hx
  have h3 := cos_small_error (by omega : 1 ≤ n) hy
  have hA : 0 ≤ Real.sqrt (1 - u) * Real.sqrt (1 - v) := mul_nonneg (Real.sqrt_nonneg _) (Real.sqrt_nonneg _)
  have hB : 0 ≤ Real.sqrt u * Real.sqrt v := mul_nonneg (Real.sqrt_nonneg _) (Real.sqrt_nonneg _)
  have hrad := radial_bound hu0 hu1 hv0 hv1
  rw [Real.sqrt_mul (by linarith : 0 ≤ 1 - u), Real.sqrt_mul hu0] at hrad
  have hmono : Real.sqrt (1 - 1 / h) ≤ Real.sqrt (1 - |u - v|) := by
    apply Real.sqrt_le_sqrt; linarith
  have hval : Real.sqrt (1 - u) * Real.sqrt (1 - v) * (sg * Real.cos ((ea + eg) / 2)) + Real.sqrt u * Real.sqrt v * (sg * Real.cos ((ea - eg) / 2))
      = sg * (Real.sqrt (1 - u) * Real.sqrt (1 - v) * Real.cos ((ea + eg) / 2) + Real.sqrt u * Real.sqrt v * Real.cos ((ea - eg) / 2)) := by ring
  rw [hval, abs_mul]
  have hsgabs : |sg| = 1 := by rcases hsg with h | h <;> simp [h]
  rw [hsgabs, one_mul]
  have hlow : Real.cos (Real.pi / n) * Real.sqrt (1 - 1 / h) ≤
      Real.sqrt (1 - u) * Real.sqrt (1 - v) * Real.cos ((ea + eg) / 2) + Real.sqrt u * Real.sqrt v * Real.cos ((ea - eg) / 2) :=
    calc Real.cos (Real.pi / n) * Real.sqrt (1 - 1 / h)
        ≤ Real.cos (Real.pi / n) * (Real.sqrt (1 - u) * Real.sqrt (1 - v) + Real.sqrt u * Real.sqrt v) :=
          mul_le_mul_of_nonneg_left (le_trans hmono hrad) hC
      _ = Real.sqrt (1 - u) * Real.sqrt (1 - v) * Real.cos (Real.pi / n) + Real.sqrt u * Real.sqrt v * Real.cos (Real.pi / n) := by ring
      _ ≤ _ := add_le_add (mul_le_mul_of_nonneg_left h2 hA) (mul_le_mul_of_nonneg_left h3 hB)
  exact le_trans hlow (le_abs_self _)

end Orix.SO3Lemmas
