import Mathlib.Analysis.SpecialFunctions.Trigonometric.Bounds
import OrixProofs.Lemmas.ConvBasic
/-
quaternion → homochoric vector (code-shaped `Conv.qu2ho`): length, bound, direction; and the
out-of-range length for a negative scalar part (what the public `to_homochoric` returns there).
The inverse map (`ho2ax`, a fitted 21-term polynomial in the code) has no theorem: correspondence only.
-/
namespace Orix
open Scalar

theorem qu2ho_real (q : Quat ℝ) :
    Conv.qu2ho q =
      if 2 * Real.arccos q.a < 1 / 10 ^ 9 then ⟨0, 0, 0⟩
      else
        ⟨q.b / Real.sqrt (q.b * q.b + q.c * q.c + q.d * q.d)
            * (3 * (2 * Real.arccos q.a - Real.sin (2 * Real.arccos q.a)) / 4) ^ ((1 : ℝ) / 3),
         q.c / Real.sqrt (q.b * q.b + q.c * q.c + q.d * q.d)
            * (3 * (2 * Real.arccos q.a - Real.sin (2 * Real.arccos q.a)) / 4) ^ ((1 : ℝ) / 3),
         q.d / Real.sqrt (q.b * q.b + q.c * q.c + q.d * q.d)
            * (3 * (2 * Real.arccos q.a - Real.sin (2 * Real.arccos q.a)) / 4) ^ ((1 : ℝ) / 3)⟩ := by
  simp only [Conv.qu2ho, lt_real, lit_real, Nat.cast_ofNat, Nat.cast_zero, sqrt_real, acos_real, sin_real,
    eps9_real]
  rfl

/-- `f(ω) = 3(ω − sin ω)/4` -/
noncomputable def hoF (w : ℝ) : ℝ := 3 * (w - Real.sin w) / 4

theorem hoF_nonneg {w : ℝ} (h : 0 ≤ w) : 0 ≤ hoF w := by
  have := Real.sin_le h; unfold hoF; linarith

theorem hoF_le {w : ℝ} (h0 : 0 ≤ w) (h1 : w ≤ Real.pi) : hoF w ≤ 3 * Real.pi / 4 := by
  have := Real.sin_nonneg_of_nonneg_of_le_pi h0 h1; unfold hoF; linarith

theorem hoF_gt {w : ℝ} (h0 : Real.pi < w) (h1 : w < 2 * Real.pi) : 3 * Real.pi / 4 < hoF w := by
  have hs : Real.sin w < 0 := by
    have := Real.sin_pos_of_pos_of_lt_pi (show 0 < w - Real.pi by linarith) (by linarith)
    have e : Real.sin w = -Real.sin (w - Real.pi) := by
      rw [← Real.sin_add_pi, sub_add_cancel]
    linarith
  unfold hoF; linarith

theorem cbrt_cube {f : ℝ} (hf : 0 ≤ f) : (f ^ ((1 : ℝ) / 3)) ^ 3 = f := by
  rw [← Real.rpow_natCast, ← Real.rpow_mul hf]; norm_num

theorem vec_sqrt_pos {a b c d : ℝ} (h' : a * a + b * b + c * c + d * d = 1) (h1 : -1 < a) (h2 : a < 1) :
    0 < Real.sqrt (b * b + c * c + d * d) := by
  apply Real.sqrt_pos.mpr; nlinarith

/-- in the non-trivial branch the homochoric vector is `n̂·f(ω)^{1/3}` with `‖n̂‖ = 1`:
its squared length is `(f^{1/3})²` -/
theorem qu2ho_normSq (q : Quat ℝ) (h : Quat.normSq q = 1) (h1 : -1 < q.a) (h2 : q.a < 1)
    (hw : ¬ 2 * Real.arccos q.a < 1 / 10 ^ 9) :
    Vec3.normSq (Conv.qu2ho q) = (hoF (2 * Real.arccos q.a) ^ ((1 : ℝ) / 3)) ^ 2 := by
  have h' : q.a * q.a + q.b * q.b + q.c * q.c + q.d * q.d = 1 := h
  have hs := vec_sqrt_pos h' h1 h2
  have hss : Real.sqrt (q.b * q.b + q.c * q.c + q.d * q.d) * Real.sqrt (q.b * q.b + q.c * q.c + q.d * q.d)
      = q.b * q.b + q.c * q.c + q.d * q.d := Real.mul_self_sqrt (by nlinarith [mul_self_nonneg q.b, mul_self_nonneg q.c, mul_self_nonneg q.d])
  rw [qu2ho_real, if_neg hw]
  simp only [Vec3.normSq, Vec3.dot, hoF]
  set s := Real.sqrt (q.b * q.b + q.c * q.c + q.d * q.d) with hsdef
  set k := (3 * (2 * Real.arccos q.a - Real.sin (2 * Real.arccos q.a)) / 4) ^ ((1 : ℝ) / 3)
  have hs0 : s ≠ 0 := hs.ne'
  field_simp
  rw [show s ^ 2 = s * s by ring, hss]; ring

/-- **‖qu2ho q‖³ = 3(ω − sin ω)/4** with `ω = 2·arccos a` -/
theorem qu2ho_norm_cube (q : Quat ℝ) (h : Quat.normSq q = 1) (h1 : -1 < q.a) (h2 : q.a < 1)
    (hw : ¬ 2 * Real.arccos q.a < 1 / 10 ^ 9) :
    (Vec3.norm (Conv.qu2ho q)) ^ 3 = 3 * (2 * Real.arccos q.a - Real.sin (2 * Real.arccos q.a)) / 4 := by
  have hf : 0 ≤ hoF (2 * Real.arccos q.a) := hoF_nonneg (by linarith [Real.arccos_nonneg q.a])
  have hk : 0 ≤ hoF (2 * Real.arccos q.a) ^ ((1 : ℝ) / 3) := Real.rpow_nonneg hf _
  rw [Vec3.norm, sqrt_real, qu2ho_normSq q h h1 h2 hw, Real.sqrt_sq hk, cbrt_cube hf]; rfl

/-- **‖qu2ho q‖ ≤ (3π/4)^{1/3}** for every unit quaternion with non-negative scalar part -/
theorem qu2ho_norm_le (q : Quat ℝ) (h : Quat.normSq q = 1) (ha : 0 ≤ q.a) :
    Vec3.norm (Conv.qu2ho q) ≤ (3 * Real.pi / 4) ^ ((1 : ℝ) / 3) := by
  have h' : q.a * q.a + q.b * q.b + q.c * q.c + q.d * q.d = 1 := h
  have hR : 0 ≤ (3 * Real.pi / 4) ^ ((1 : ℝ) / 3) := Real.rpow_nonneg (by positivity) _
  by_cases hw : 2 * Real.arccos q.a < 1 / 10 ^ 9
  · rw [qu2ho_real, if_pos hw]
    simp only [Vec3.norm, Vec3.normSq, Vec3.dot, sqrt_real, mul_zero, add_zero, Real.sqrt_zero]
    exact hR
  · have ha1 : q.a < 1 := by
      by_contra hc
      have : Real.arccos q.a = 0 := Real.arccos_eq_zero.mpr (not_lt.mp hc)
      rw [this] at hw; exact hw (by norm_num)
    have hw0 : 0 ≤ 2 * Real.arccos q.a := by linarith [Real.arccos_nonneg q.a]
    have hwpi : 2 * Real.arccos q.a ≤ Real.pi := by linarith [Real.arccos_le_pi_div_two.mpr ha]
    have hf : 0 ≤ hoF (2 * Real.arccos q.a) := hoF_nonneg hw0
    have hk : 0 ≤ hoF (2 * Real.arccos q.a) ^ ((1 : ℝ) / 3) := Real.rpow_nonneg hf _
    rw [Vec3.norm, sqrt_real, qu2ho_normSq q h (by linarith) ha1 hw, Real.sqrt_sq hk]
    exact Real.rpow_le_rpow hf (hoF_le hw0 hwpi) (by norm_num)

/-- **for a negative scalar part the kernel's vector is too long**: `‖qu2ho q‖³ > 3π/4` -/
theorem qu2ho_norm_gt_of_neg (q : Quat ℝ) (h : Quat.normSq q = 1) (h1 : -1 < q.a) (h2 : q.a < 0) :
    3 * Real.pi / 4 < (Vec3.norm (Conv.qu2ho q)) ^ 3 := by
  have hlt : Real.pi / 2 < Real.arccos q.a := by
    by_contra hc
    exact absurd (Real.arccos_le_pi_div_two.mp (not_lt.mp hc)) (not_le.mpr h2)
  have hlt2 : Real.arccos q.a < Real.pi := by
    rcases lt_or_eq_of_le (Real.arccos_le_pi q.a) with hh | hh
    · exact hh
    · exact absurd (Real.arccos_eq_pi.mp hh) (not_le.mpr h1)
  have hw : ¬ 2 * Real.arccos q.a < 1 / 10 ^ 9 := by
    have : (1 : ℝ) / 10 ^ 9 < 1 := by norm_num
    have := Real.two_le_pi
    intro hh; linarith
  rw [qu2ho_norm_cube q h h1 (by linarith) hw]
  exact hoF_gt (by linarith) (by linarith)

/-- the homochoric vector is a non-negative multiple of the quaternion's vector part (the axis) -/
theorem qu2ho_parallel (q : Quat ℝ) :
    ∃ k : ℝ, 0 ≤ k ∧ Conv.qu2ho q = Vec3.smul k ⟨q.b, q.c, q.d⟩ := by
  rw [qu2ho_real]
  split_ifs with hw
  · exact ⟨0, le_rfl, by simp [Vec3.smul]⟩
  · refine ⟨(hoF (2 * Real.arccos q.a)) ^ ((1 : ℝ) / 3) / Real.sqrt (q.b * q.b + q.c * q.c + q.d * q.d), ?_, ?_⟩
    · exact div_nonneg (Real.rpow_nonneg (hoF_nonneg (by linarith [Real.arccos_nonneg q.a])) _) (Real.sqrt_nonneg _)
    · simp only [Vec3.smul, hoF]; congr 1 <;> ring

/-- `ho2ax_single` maps homochoric vectors with squared length below `1e-16` (length below `10⁻⁸`, rotation angle
below `2·10⁻⁸`) to the identity `(ẑ, 0)` -/
theorem ho2ax_small (h : Vec3 ℝ) (hs : h.x * h.x + h.y * h.y + h.z * h.z < 1 / 10 ^ 16) :
    Conv.ho2ax h = ⟨⟨0, 0, 1⟩, 0⟩ := by
  have h0 : -(1 / 10 ^ 16 : ℝ) < h.x * h.x + h.y * h.y + h.z * h.z := by
    have : (0 : ℝ) < 1 / 10 ^ 16 := by positivity
    nlinarith [mul_self_nonneg h.x, mul_self_nonneg h.y, mul_self_nonneg h.z]
  simp only [Conv.ho2ax, lt_real, eps16_real, Bool.and_eq_true, lit_real, Nat.cast_zero, Nat.cast_one]
  rw [if_pos ⟨h0, hs⟩]

end Orix
