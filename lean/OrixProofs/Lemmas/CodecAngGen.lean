import OrixProofs.Lemmas.CodecAng
import OrixGen.IoTables
set_option linter.unusedSimpArgs false
set_option linter.unusedVariables false
/-
Facts about the tables *generated from the source* (`OrixGen.IoTables`) that the C14/C15 theorems rest on,
decided by the kernel, and the lemmas that use them: symmetry strings round-trip, the orix column table,
one written row read back.
-/
namespace Orix.Codec.Ang
open Orix.Codec Orix.Gen.Io

/-- the point group the .ang format can keep: the proper subgroup (`1` for a phase without point group) -/
def quantPG (pg : Option Str) : Str :=
  match pg with
  | none => S "1"
  | some g => (lookupStr g properSubgroup).getD g

/-- writer's symmetry string of `pg` is read back as `quantPG pg` -/
def symOk (pg : Option Str) : Bool :=
  match symmetryOf angWriter pg with
  | some s => resolvePG angReader.aliases angReader.groups s == some (quantPG pg)
  | none => false

set_option maxRecDepth 100000 in
/-- T-gen obligation: for *every* point group the library defines (and for "no point group"), the string the
writer puts after `Symmetry` (proper subgroup, alias table applied) is resolved by the reader (alias table,
group names) to that proper subgroup. -/
theorem sym_table_ok : (none :: properSubgroup.map (fun e => some e.1)).all symOk = true := by
  decide +kernel

set_option maxRecDepth 100000 in
/-- proper subgroups are proper: the table is idempotent -/
theorem proper_idempotent :
    (properSubgroup.all fun e => lookupStr e.2 properSubgroup == some e.2) = true := by
  decide +kernel

theorem symOk_of_known (pg : Option Str) (h : ∀ g, pg = some g → g ∈ properSubgroup.map (·.1)) :
    symOk pg = true := by
  have := List.all_eq_true.1 sym_table_ok
  cases pg with
  | none => exact this none (by simp)
  | some g =>
    obtain ⟨e, he, rfl⟩ := List.mem_map.1 (h g rfl)
    exact this (some e.1) (List.mem_cons_of_mem _ (List.mem_map.2 ⟨e, he, rfl⟩))

/-- the column names the orix variant of the format assigns (format description) -/
def baseNames : List Str :=
  [S "euler1", S "euler2", S "euler3", S "x", S "y", S "iq", S "ci", S "phase_id", S "detector_signal", S "fit"]

/-- T-gen obligation: the reader's table for its own format -/
theorem orix_columns : lookupV Vendor.orix angReader.columns = some [baseNames] := by decide +kernel
theorem footprint_order : angReader.footprintOrder = [.emsoft, .astar, .orix] := by decide
theorem footprint_prefix (extra : List Str) :
    listPrefix angReader.orixFootprintNames (angWriter.columnHeader ++ extra) = true := by
  simp [listPrefix, angReader, angWriter, S]
theorem header_length : angWriter.columnHeader.length = 10 := by decide
theorem ni_vendor : angReader.notIndexedVendors.contains Vendor.orix = true := by decide
theorem std_filter :
    (baseNames.filter fun n => !angReader.dataKeys.contains n) = stdPropNames := by decide +kernel
theorem base_nodup : baseNames.Nodup := by decide +kernel

/-- the order in which `np.column_stack` lays out a row -/
theorem rowOf_eq (r : OutRow) :
    rowOf angWriter r
      = [r.eu.p1, r.eu.pp, r.eu.p2, r.x, r.y, r.iq, r.ci, r.phase, r.ds, r.fit] ++ r.extras := by
  simp [rowOf, angWriter, colOf]

/-- a written row, read with the reader's orix table: every value lands in the field it was written from -/
theorem rowToPt_rowOf (r : OutRow) (extras : List Str) (hl : extras.length = r.extras.length)
    (hn : extras.Nodup) (hfresh : ∀ e ∈ extras, e ∉ baseNames) :
    rowToPt (baseNames ++ extras) (stdPropNames ++ extras) (rowOf angWriter r)
      = some { x := r.x, y := r.y, phaseId := r.phase, eu := r.eu,
               vals := [r.iq, r.ci, r.ds, r.fit] ++ r.extras } := by
  rw [rowOf_eq]
  have hz : (baseNames ++ extras).zip
        ([r.eu.p1, r.eu.pp, r.eu.p2, r.x, r.y, r.iq, r.ci, r.phase, r.ds, r.fit] ++ r.extras)
      = baseNames.zip [r.eu.p1, r.eu.pp, r.eu.p2, r.x, r.y, r.iq, r.ci, r.phase, r.ds, r.fit]
        ++ extras.zip r.extras := by
    rw [List.zip_append]; simp [baseNames]
  have hex := mapM_lookup_zip extras r.extras hl hn
    (baseNames.zip [r.eu.p1, r.eu.pp, r.eu.p2, r.x, r.y, r.iq, r.ci, r.phase, r.ds, r.fit]) (by
      intro e he
      have := (List.of_mem_zip he).1
      exact fun hm => hfresh e.1 hm this)
  have hstd : stdPropNames.mapM (fun k => lookupStr k
        (baseNames.zip [r.eu.p1, r.eu.pp, r.eu.p2, r.x, r.y, r.iq, r.ci, r.phase, r.ds, r.fit]
          ++ extras.zip r.extras)) = some [r.iq, r.ci, r.ds, r.fit] := by
    simp [stdPropNames, baseNames, lookupStr, S]
  have hg : getCol (baseNames ++ extras)
        ([r.eu.p1, r.eu.pp, r.eu.p2, r.x, r.y, r.iq, r.ci, r.phase, r.ds, r.fit] ++ r.extras)
      = fun k => lookupStr k
        (baseNames.zip [r.eu.p1, r.eu.pp, r.eu.p2, r.x, r.y, r.iq, r.ci, r.phase, r.ds, r.fit]
          ++ extras.zip r.extras) := by
    funext k; simp only [getCol, hz]
  unfold rowToPt
  rw [hg]
  simp only [List.mapM_append, hstd, hex]
  simp [baseNames, lookupStr, S]

/-! ### the writer's phase blocks -/

theorem phaseNameOf_nonempty (i : Nat) (n : Str) (h : n ≠ []) : phaseNameOf i n = n := by
  cases n with
  | nil => exact absurd rfl h
  | cons a r => simp [phaseNameOf]

theorem phaseBlocks_spec (k : Nat) (pl : List PhaseInfo)
    (hname : ∀ p ∈ pl, p.name ≠ [] ∧ joinSp (splitWs p.name) = p.name) (hpg : ∀ p ∈ pl, symOk p.pg = true) :
    ∃ bs : List Blk, phaseBlocks angWriter k pl = some (bs.map Blk.lines)
      ∧ bs.map Blk.phase = quantPhases properSubgroup k pl
      ∧ (∀ b ∈ bs, b.nameOK)
      ∧ (∀ b ∈ bs, resolvePG angReader.aliases angReader.groups b.sym = some b.pg) := by
  induction pl generalizing k with
  | nil => exact ⟨[], rfl, rfl, by simp, by simp⟩
  | cons p r ih =>
    obtain ⟨bs, h1, h2, h3, h4⟩ := ih (k + 1) (fun q hq => hname q (by simp [hq]))
      (fun q hq => hpg q (by simp [hq]))
    have hn := hname p (by simp)
    have hne := hn.1
    have hs := hpg p (by simp)
    unfold symOk at hs
    cases hsym : symmetryOf angWriter p.pg with
    | none => simp [hsym] at hs
    | some s =>
      simp only [hsym, beq_iff_eq] at hs
      refine ⟨{ id := k, name := p.name, sym := s, pg := quantPG p.pg, lat := p.lattice } :: bs, ?_, ?_, ?_, ?_⟩
      · simp [phaseBlocks, phaseBlock, hsym, h1, phaseNameOf_nonempty k _ hne, Blk.lines]
      · simp only [List.map_cons, quantPhases, h2]
        congr 1
        simp [Blk.phase, quantPhase, phaseNameOf_nonempty k _ hne, quantPG]
        cases p.pg <;> rfl
      · intro b hb
        rcases List.mem_cons.1 hb with rfl | hb
        · exact hn
        · exact h3 b hb
      · intro b hb
        rcases List.mem_cons.1 hb with rfl | hb
        · exact hs
        · exact h4 b hb

theorem quantPhases_mem_id (pr : List (Str × Str)) (k : Nat) (pl : List PhaseInfo) (a : Int) :
    a ∈ (quantPhases pr k pl).map (·.id) ↔ ∃ i, i < pl.length ∧ a = ((k + i : Nat) : Int) := by
  induction pl generalizing k with
  | nil => simp [quantPhases]
  | cons p r ih =>
    simp only [quantPhases, List.map_cons, List.mem_cons, ih (k + 1), List.length_cons]
    constructor
    · rintro (h | ⟨i, hi, h⟩)
      · exact ⟨0, by omega, by simp [h, quantPhase]⟩
      · exact ⟨i + 1, by omega, by rw [h]; congr 1; omega⟩
    · rintro ⟨i, hi, h⟩
      cases i with
      | zero => left; simp [h, quantPhase]
      | succ j => right; exact ⟨j, by omega, by rw [h]; congr 1; omega⟩

theorem quantPhases_pairwise (pr : List (Str × Str)) (k : Nat) (pl : List PhaseInfo) :
    ((quantPhases pr k pl).map (·.id)).Pairwise (· < ·) := by
  induction pl generalizing k with
  | nil => simp [quantPhases]
  | cons p r ih =>
    simp only [quantPhases, List.map_cons]
    refine List.Pairwise.cons ?_ (ih (k + 1))
    intro a ha
    obtain ⟨i, _, h⟩ := (quantPhases_mem_id pr (k + 1) r a).1 ha
    simp only [quantPhase, h]
    omega

theorem quantPhases_pos (pr : List (Str × Str)) (pl : List PhaseInfo) :
    ∀ q ∈ quantPhases pr 1 pl, -1 < q.id := by
  intro q hq
  obtain ⟨i, _, h⟩ := (quantPhases_mem_id pr 1 pl q.id).1 (List.mem_map_of_mem hq)
  omega

/-! ### vendor detection on a file the orix writer produced -/

theorem detectVendor_orix (a b : List HLine) (names : List Str)
    (ha : ∀ x ∈ a, isMark x = false ∧ isColNames x = false) (hb : ∀ x ∈ b, isMark x = false)
    (hp : listPrefix angReader.orixFootprintNames names = true) :
    detectVendor angReader (a ++ .columnNames names :: b) = (.orix, some names) := by
  have hm : ∀ x ∈ a ++ .columnNames names :: b, isMark x = false := by
    intro x hx
    rcases List.mem_append.1 hx with hx | hx
    · exact (ha x hx).1
    · rcases List.mem_cons.1 hx with rfl | hx
      · rfl
      · exact hb x hx
  have h1 := findMark_none angReader .emsoft _ hm (by intro h; cases h)
  have h2 := findMark_none angReader .astar _ hm (by intro h; cases h)
  have h3 := findMark_orix angReader a b names ha hp
  simp [detectVendor, footprint_order, List.foldl, h1, h2, h3]

theorem vendorColumns_orix (a b : List HLine) (extras : List Str) (n : Nat)
    (ha : ∀ x ∈ a, isMark x = false ∧ isColNames x = false) (hb : ∀ x ∈ b, isMark x = false)
    (hplain : ∀ e ∈ extras, (Str.lstripSp e).spaceToUnderscore = e) :
    vendorColumns angReader (a ++ .columnNames (angWriter.columnHeader ++ extras) :: b) n
      = some (.orix, baseNames ++ extras, false) := by
  have hd := detectVendor_orix a b (angWriter.columnHeader ++ extras) ha hb (footprint_prefix extras)
  have hdrop : (angWriter.columnHeader ++ extras).drop baseNames.length = extras :=
    List.drop_left' (by decide)
  have hmap : extras.map (fun s => (Str.lstripSp s).spaceToUnderscore) = extras := by
    conv_rhs => rw [← List.map_id extras]
    exact List.map_congr_left (fun e he => by simpa using hplain e he)
  unfold vendorColumns
  simp only [hd, orix_columns, Option.bind_some, List.head?_cons, hdrop, hmap]

end Orix.Codec.Ang
