import OrixProofs.Lemmas.ConvBasic
/-
Euler angles → quaternion: unit, sign, and the matrix of `eu2qu e` is the passive Bunge ZXZ product.
-/
namespace Orix
open Scalar

/-- entries of the passive Bunge matrix `Rz(φ2)·Rx(Φ)·Rz(φ1)` -/
theorem bunge_entries (e : Euler ℝ) :
    ConvSpec.bunge e =
      ⟨Real.cos e.phi1 * Real.cos e.phi2 - Real.sin e.phi1 * Real.sin e.phi2 * Real.cos e.Phi,
       Real.sin e.phi1 * Real.cos e.phi2 + Real.cos e.phi1 * Real.sin e.phi2 * Real.cos e.Phi,
       Real.sin e.phi2 * Real.sin e.Phi,
       -Real.cos e.phi1 * Real.sin e.phi2 - Real.sin e.phi1 * Real.cos e.phi2 * Real.cos e.Phi,
       -Real.sin e.phi1 * Real.sin e.phi2 + Real.cos e.phi1 * Real.cos e.phi2 * Real.cos e.Phi,
       Real.cos e.phi2 * Real.sin e.Phi,
       Real.sin e.phi1 * Real.sin e.Phi,
       -Real.cos e.phi1 * Real.sin e.Phi,
       Real.cos e.Phi⟩ := by
  simp only [ConvSpec.bunge, ConvSpec.Rz, ConvSpec.Rx, Mat3.mul, lit_real, Nat.cast_zero, Nat.cast_one,
    cos_real, sin_real]
  congr 1 <;> ring

theorem eu2quRaw_real (e : Euler ℝ) :
    Conv.eu2quRaw e =
      ⟨Real.cos (e.Phi / 2) * Real.cos (1 / 2 * (e.phi1 + e.phi2)),
       -Real.sin (e.Phi / 2) * Real.cos (1 / 2 * (e.phi1 - e.phi2)),
       -Real.sin (e.Phi / 2) * Real.sin (1 / 2 * (e.phi1 - e.phi2)),
       -Real.cos (e.Phi / 2) * Real.sin (1 / 2 * (e.phi1 + e.phi2))⟩ := by
  simp only [Conv.eu2quRaw, half_real, lit_real, Nat.cast_ofNat, cos_real, sin_real]

/-- the result of `eu2qu` is a unit quaternion, for all angles -/
theorem eu2quRaw_unit (e : Euler ℝ) : Quat.normSq (Conv.eu2quRaw e) = 1 := by
  rw [eu2quRaw_real]
  simp only [Quat.normSq]
  have h1 := Real.sin_sq_add_cos_sq (e.Phi / 2)
  have h2 := Real.sin_sq_add_cos_sq (1 / 2 * (e.phi1 + e.phi2))
  have h3 := Real.sin_sq_add_cos_sq (1 / 2 * (e.phi1 - e.phi2))
  linear_combination (Real.cos (e.Phi / 2)) ^ 2 * h2 + (Real.sin (e.Phi / 2)) ^ 2 * h3 + h1

theorem eu2qu_real (e : Euler ℝ) :
    Conv.eu2qu e = if (Conv.eu2quRaw e).a < 0 then Quat.neg (Conv.eu2quRaw e) else Conv.eu2quRaw e := by
  simp only [Conv.eu2qu, lt_real, lit_real, Nat.cast_zero]

theorem eu2qu_eq_or_neg (e : Euler ℝ) :
    Conv.eu2qu e = Conv.eu2quRaw e ∨ Conv.eu2qu e = Quat.neg (Conv.eu2quRaw e) := by
  rw [eu2qu_real]; split_ifs <;> simp

theorem normSq_neg (q : Quat ℝ) : Quat.normSq (Quat.neg q) = Quat.normSq q := by
  simp only [Quat.normSq, Quat.neg]; ring

theorem eu2qu_unit (e : Euler ℝ) : Quat.normSq (Conv.eu2qu e) = 1 := by
  rcases eu2qu_eq_or_neg e with h | h <;> rw [h]
  · exact eu2quRaw_unit e
  · rw [normSq_neg]; exact eu2quRaw_unit e

/-- the code's sign flip: the scalar part of `eu2qu` is never negative -/
theorem eu2qu_scalar_nonneg (e : Euler ℝ) : 0 ≤ (Conv.eu2qu e).a := by
  rw [eu2qu_real]
  split_ifs with h
  · simp only [Quat.neg]; linarith
  · exact not_lt.mp h

/-- **the matrix of `eu2qu e` is the passive Bunge ZXZ product**, all angles -/
theorem toMat_eu2quRaw (e : Euler ℝ) : Quat.toMat (Conv.eu2quRaw e) = ConvSpec.bunge e := by
  rw [bunge_entries, eu2quRaw_real]
  obtain ⟨p1, P, p2⟩ := e
  simp only
  -- half-angle variables
  set s := 1 / 2 * (p1 + p2) with hs
  set d := 1 / 2 * (p1 - p2) with hd
  set h := P / 2 with hh
  have e1 : p1 = s + d := by rw [hs, hd]; ring
  have e2 : p2 = s - d := by rw [hs, hd]; ring
  have e3 : P = 2 * h := by rw [hh]; ring
  rw [e1, e2, e3]
  simp only [Quat.toMat, lit_real, Nat.cast_ofNat, Real.cos_add, Real.sin_add, Real.cos_sub, Real.sin_sub,
    Real.cos_two_mul, Real.sin_two_mul]
  congr 1 <;> first | ring1 | (ring_nf; simp only [Real.sin_sq]; ring1)

end Orix
