import Mathlib.Tactic.Ring
import Mathlib.Tactic.Linarith
import Mathlib.Tactic.FieldSimp
import Mathlib.Tactic.NormNum
import Mathlib.Algebra.BigOperators.Group.List.Basic
import Mathlib.Algebra.Order.BigOperators.Group.List
import OrixProofs.Lemmas.RealScalar
import OrixModel.ColorKey
/-
C08 — the azimuth correction table of the colour key over ℝ: contracts of `np.cumsum`, `np.linspace`, `np.interp`
as the model defines them, the cumulative table, the three-segment renormalisation, and what the model's
`azimuthTable` returns.
-/
namespace Orix.ColorKey
open Orix Scalar


theorem sumList_eq_sum (l : List ℝ) : sumList l = l.sum := by
  unfold sumList
  have : ∀ (acc : ℝ) (l : List ℝ), l.foldl (· + ·) acc = acc + l.sum := by
    intro acc l
    induction l generalizing acc with
    | nil => simp
    | cons x r ih => simp only [List.foldl_cons, List.sum_cons, ih]; ring
  rw [this]; simp

theorem cumsumFrom_length (acc : ℝ) (l : List ℝ) : (cumsumFrom acc l).length = l.length := by
  induction l generalizing acc with
  | nil => rfl
  | cons x r ih => simp [cumsumFrom, ih]

theorem cumsumFrom_getElem? (acc : ℝ) (l : List ℝ) (i : Nat) (hi : i < l.length) :
    (cumsumFrom acc l)[i]? = some (acc + (l.take (i + 1)).sum) := by
  induction l generalizing acc i with
  | nil => simp at hi
  | cons x r ih =>
    cases i with
    | zero => simp [cumsumFrom]
    | succ j =>
      simp only [cumsumFrom, List.getElem?_cons_succ]
      rw [ih (acc + x) j (by simpa using hi)]
      simp [List.take_succ_cons, add_assoc]

theorem cumsum_zero_cons_getElem? (q : List ℝ) (i : Nat) (hi : i ≤ q.length) :
    (cumsum ((0 : ℝ) :: q))[i]? = some ((q.take i).sum) := by
  cases i with
  | zero => simp [cumsum]
  | succ j =>
    simp only [cumsum, List.getElem?_cons_succ]
    rw [cumsumFrom_getElem? 0 q j (by omega)]
    simp

theorem twoPi_real : (twoPi : ℝ) = 2 * Real.pi := by simp [twoPi]

theorem sum_map_div (l : List ℝ) (S : ℝ) : (l.map (· / S)).sum = l.sum / S := by
  induction l with
  | nil => simp
  | cons x r ih => simp [ih, add_div]

theorem cumulativeTable_length (p : List ℝ) : (cumulativeTable p).length = p.length + 1 := by
  simp [cumulativeTable, cumsum, cumsumFrom_length]

/-- the table is the cumulative distribution of the distances -/
theorem cumulativeTable_getElem? (p : List ℝ) (i : Nat) (hi : i ≤ p.length) :
    (cumulativeTable p)[i]? = some (2 * Real.pi * ((p.take i).sum / p.sum)) := by
  unfold cumulativeTable
  simp only [List.getElem?_map, lit_real, Nat.cast_zero]
  rw [cumsum_zero_cons_getElem? _ i (by simpa using hi)]
  simp only [Option.map_some, ← List.map_take, sum_map_div, sumList_eq_sum, twoPi_real]



/-- a relation holds between each entry and the next one -/
def StepRel {β : Type} (R : β → β → Prop) : List β → Prop
  | [] => True
  | [_] => True
  | a :: b :: r => R a b ∧ StepRel R (b :: r)

theorem stepRel_of_getElem {β : Type} (R : β → β → Prop) (l : List β)
    (h : ∀ i (h1 : i + 1 < l.length), R (l[i]'(by omega)) (l[i + 1]'h1)) : StepRel R l := by
  induction l with
  | nil => trivial
  | cons a r ih =>
    cases r with
    | nil => trivial
    | cons b r' =>
      refine ⟨?_, ih ?_⟩
      · have := h 0 (by simp); simpa using this
      · intro i h1
        have := h (i + 1) (by simp at h1 ⊢; omega)
        simpa using this

/-- sample points of a non-decreasing function: abscissae strictly increasing, ordinates non-decreasing -/
def MonoPts (pts : List (ℝ × ℝ)) : Prop := StepRel (fun p q => p.1 < q.1 ∧ p.2 ≤ q.2) pts

theorem isNaN_real (x : ℝ) : isNaN x = false := by
  simp [isNaN, (beq_real x x).mpr rfl]

theorem lt_real_false {x y : ℝ} (h : ¬ x < y) : Scalar.lt x y = false := by
  cases hc : Scalar.lt x y with
  | false => rfl
  | true => exact absurd ((lt_real _ _).mp hc) h

/-- value inside a segment, whichever way the `xp[j] == x` shortcut goes -/
theorem seg_val (x x0 y0 s : ℝ) : (if Scalar.beq x0 x = true then y0 else s * (x - x0) + y0) = s * (x - x0) + y0 := by
  split_ifs with h
  · have := (beq_real _ _).mp h; subst this; ring
  · rfl

theorem interpGo_cons (x x0 y0 x1 y1 : ℝ) (r : List (ℝ × ℝ)) :
    interpGo x x0 y0 ((x1, y1) :: r) =
      if x < x1 then (y1 - y0) / (x1 - x0) * (x - x0) + y0 else interpGo x x1 y1 r := by
  simp only [interpGo, seg_val]
  by_cases h : x < x1
  · simp [(lt_real _ _).mpr h, h]
  · simp [lt_real_false h, h]

/-- last ordinate -/
def lastY (y0 : ℝ) : List (ℝ × ℝ) → ℝ
  | [] => y0
  | (_, y1) :: r => lastY y1 r

theorem lastY_ge (x0 y0 : ℝ) (r : List (ℝ × ℝ)) (h : MonoPts ((x0, y0) :: r)) : y0 ≤ lastY y0 r := by
  induction r generalizing x0 y0 with
  | nil => exact le_refl _
  | cons p r ih =>
    obtain ⟨x1, y1⟩ := p
    exact le_trans h.1.2 (ih x1 y1 h.2)

theorem seg_bounds {x x0 x1 y0 y1 : ℝ} (h0 : x0 ≤ x) (h1 : x ≤ x1) (hx : x0 < x1) (hy : y0 ≤ y1) :
    y0 ≤ (y1 - y0) / (x1 - x0) * (x - x0) + y0 ∧ (y1 - y0) / (x1 - x0) * (x - x0) + y0 ≤ y1 := by
  have hd : 0 < x1 - x0 := by linarith
  have hs : 0 ≤ (y1 - y0) / (x1 - x0) := div_nonneg (by linarith) hd.le
  constructor
  · have := mul_nonneg hs (by linarith : 0 ≤ x - x0); linarith
  · have h2 : (y1 - y0) / (x1 - x0) * (x - x0) ≤ (y1 - y0) / (x1 - x0) * (x1 - x0) :=
      mul_le_mul_of_nonneg_left (by linarith) hs
    have h3 : (y1 - y0) / (x1 - x0) * (x1 - x0) = y1 - y0 := by field_simp
    linarith

theorem interpGo_bounds (x x0 y0 : ℝ) (r : List (ℝ × ℝ)) (h : MonoPts ((x0, y0) :: r)) (hx : x0 ≤ x) :
    y0 ≤ interpGo x x0 y0 r ∧ interpGo x x0 y0 r ≤ lastY y0 r := by
  induction r generalizing x0 y0 with
  | nil => exact ⟨le_refl _, le_refl _⟩
  | cons p r ih =>
    obtain ⟨x1, y1⟩ := p
    rw [interpGo_cons]
    have hl := lastY_ge x1 y1 r h.2
    split_ifs with hlt
    · have := seg_bounds hx hlt.le h.1.1 h.1.2
      exact ⟨this.1, le_trans this.2 hl⟩
    · have := ih x1 y1 h.2 (not_lt.mp hlt)
      exact ⟨le_trans h.1.2 this.1, this.2⟩

theorem interpGo_mono (x x' x0 y0 : ℝ) (r : List (ℝ × ℝ)) (h : MonoPts ((x0, y0) :: r)) (hx : x0 ≤ x)
    (hxx : x ≤ x') : interpGo x x0 y0 r ≤ interpGo x' x0 y0 r := by
  induction r generalizing x0 y0 with
  | nil => exact le_refl _
  | cons p r ih =>
    obtain ⟨x1, y1⟩ := p
    rw [interpGo_cons, interpGo_cons]
    by_cases h1 : x' < x1
    · have h2 : x < x1 := lt_of_le_of_lt hxx h1
      rw [if_pos h1, if_pos h2]
      have hd : 0 < x1 - x0 := by linarith [h.1.1]
      have hs : 0 ≤ (y1 - y0) / (x1 - x0) := div_nonneg (by linarith [h.1.2]) hd.le
      have := mul_le_mul_of_nonneg_left (by linarith : x - x0 ≤ x' - x0) hs
      linarith
    · rw [if_neg h1]
      by_cases h2 : x < x1
      · rw [if_pos h2]
        have a := (seg_bounds hx h2.le h.1.1 h.1.2).2
        have b := (interpGo_bounds x' x1 y1 r h.2 (not_lt.mp h1)).1
        linarith
      · rw [if_neg h2]
        exact ih x1 y1 h.2 (not_lt.mp h2)

/-- `np.interp` over the reals: no NaN branch -/
theorem interp_cons (x x0 y0 : ℝ) (r : List (ℝ × ℝ)) :
    interp x ((x0, y0) :: r) = some (if x < x0 then y0 else interpGo x x0 y0 r) := by
  simp only [interp, isNaN_real, Bool.false_eq_true, if_false]
  by_cases h : x < x0
  · simp [(lt_real _ _).mpr h, h]
  · simp [lt_real_false h, h]


theorem interp_mono {pts : List (ℝ × ℝ)} (h : MonoPts pts) {x x' a b : ℝ} (hxx : x ≤ x')
    (ha : interp x pts = some a) (hb : interp x' pts = some b) : a ≤ b := by
  cases pts with
  | nil => simp [interp] at ha
  | cons p r =>
    obtain ⟨x0, y0⟩ := p
    rw [interp_cons] at ha hb
    cases Option.some.inj ha; cases Option.some.inj hb
    by_cases h1 : x' < x0
    · rw [if_pos h1, if_pos (lt_of_le_of_lt hxx h1)]
    · rw [if_neg h1]
      by_cases h2 : x < x0
      · rw [if_pos h2]; exact (interpGo_bounds x' x0 y0 r h (not_lt.mp h1)).1
      · rw [if_neg h2]; exact interpGo_mono x x' x0 y0 r h (not_lt.mp h2) hxx

theorem interp_range {x0 y0 : ℝ} {r : List (ℝ × ℝ)} (h : MonoPts ((x0, y0) :: r)) {x a : ℝ}
    (ha : interp x ((x0, y0) :: r) = some a) : y0 ≤ a ∧ a ≤ lastY y0 r := by
  rw [interp_cons] at ha
  cases Option.some.inj ha
  split_ifs with h1
  · exact ⟨le_refl _, lastY_ge x0 y0 r h⟩
  · exact interpGo_bounds x x0 y0 r h (not_lt.mp h1)

/-! ### `linspace` -/
theorem linspace_length (a b : ℝ) (n : Nat) : (linspace a b n).length = n := by
  match n with
  | 0 => rfl
  | 1 => rfl
  | n + 2 => simp [linspace]

theorem linspace_getElem_lt (a b : ℝ) (n i : Nat) (hi : i < n + 1) :
    (linspace a b (n + 2))[i]'(by rw [linspace_length]; omega) = (i : ℝ) * ((b - a) / ((n + 1 : Nat) : ℝ)) + a := by
  simp [linspace, hi]

theorem linspace_getElem_last (a b : ℝ) (n : Nat) :
    (linspace a b (n + 2))[n + 1]'(by rw [linspace_length]; omega) = b := by
  simp [linspace]

/-- the sample points of `np.linspace(a, b, n)` increase strictly when `a < b` -/
theorem linspace_strict (a b : ℝ) (hab : a < b) (n i : Nat) (h1 : i + 1 < (linspace a b n).length) :
    (linspace a b n)[i]'(by omega) < (linspace a b n)[i + 1]'h1 := by
  match n, h1 with
  | 0, h1 => simp [linspace] at h1
  | 1, h1 => simp [linspace] at h1
  | n + 2, h1 =>
    have hn : (0 : ℝ) < ((n + 1 : Nat) : ℝ) := by exact_mod_cast Nat.succ_pos n
    have hstep : 0 < (b - a) / ((n + 1 : Nat) : ℝ) := div_pos (by linarith) hn
    rw [linspace_length] at h1
    by_cases hi : i + 1 < n + 1
    · rw [linspace_getElem_lt a b n i (by omega), linspace_getElem_lt a b n (i + 1) hi]
      have key : ∀ s : ℝ, 0 < s → (i : ℝ) * s + a < ((i + 1 : Nat) : ℝ) * s + a := by
        intro s hs; push_cast; nlinarith
      exact key _ hstep
    · have : i = n := by omega
      subst this
      rw [linspace_getElem_lt a b i i (by omega)]
      have e := linspace_getElem_last a b i
      simp only [e]
      have : (i : ℝ) * ((b - a) / ((i + 1 : Nat) : ℝ)) = (b - a) * ((i : ℝ) / ((i + 1 : Nat) : ℝ)) := by ring
      rw [this]
      have hlt : (i : ℝ) / ((i + 1 : Nat) : ℝ) < 1 := by
        rw [div_lt_one hn]; push_cast; linarith
      nlinarith

/-! ### the cumulative table -/
theorem sum_take_le_sum_take (l : List ℝ) (h : ∀ d ∈ l, 0 ≤ d) {i j : Nat} (hij : i ≤ j) :
    (l.take i).sum ≤ (l.take j).sum := by
  obtain ⟨k, rfl⟩ := Nat.exists_eq_add_of_le hij
  rw [List.take_add, List.sum_append]
  have : 0 ≤ ((l.drop i).take k).sum :=
    List.sum_nonneg (fun d hd => h d (List.mem_of_mem_drop (List.mem_of_mem_take hd)))
  linarith

theorem sum_take_le_sum (l : List ℝ) (h : ∀ d ∈ l, 0 ≤ d) (i : Nat) : (l.take i).sum ≤ l.sum := by
  have := sum_take_le_sum_take l h (Nat.le_max_left i l.length)
  rwa [List.take_of_length_le (Nat.le_max_right i l.length)] at this

theorem sum_take_nonneg (l : List ℝ) (h : ∀ d ∈ l, 0 ≤ d) (i : Nat) : 0 ≤ (l.take i).sum :=
  List.sum_nonneg (fun d hd => h d (List.mem_of_mem_take hd))

/-- every table value is `2π ·` a fraction in `[0, 1]` -/
theorem cumulativeTable_mem_range (p : List ℝ) (h : ∀ d ∈ p, 0 ≤ d) (t : ℝ) (ht : t ∈ cumulativeTable p) :
    0 ≤ t ∧ t ≤ 2 * Real.pi := by
  obtain ⟨i, hi, rfl⟩ := List.getElem_of_mem ht
  rw [cumulativeTable_length] at hi
  have e := cumulativeTable_getElem? p i (by omega)
  rw [List.getElem?_eq_getElem (by rw [cumulativeTable_length]; omega)] at e
  rw [Option.some.inj e]
  have h0 := sum_take_nonneg p h i
  have h1 := sum_take_le_sum p h i
  have hS : 0 ≤ p.sum := le_trans h0 h1
  have hpi := Real.pi_pos
  have hf0 : 0 ≤ (p.take i).sum / p.sum := div_nonneg h0 hS
  have hf1 : (p.take i).sum / p.sum ≤ 1 := div_le_one_of_le₀ h1 hS
  constructor
  · positivity
  · nlinarith

/-- the table is sorted -/
theorem cumulativeTable_sorted (p : List ℝ) (h : ∀ d ∈ p, 0 ≤ d) :
    List.Pairwise (· ≤ ·) (cumulativeTable p) := by
  rw [List.pairwise_iff_getElem]
  intro i j hi hj hij
  rw [cumulativeTable_length] at hi hj
  have ei := cumulativeTable_getElem? p i (by omega)
  have ej := cumulativeTable_getElem? p j (by omega)
  rw [List.getElem?_eq_getElem (by rw [cumulativeTable_length]; omega)] at ei ej
  rw [Option.some.inj ei, Option.some.inj ej]
  have h0 := sum_take_nonneg p h i
  have hS : 0 ≤ p.sum := le_trans h0 (sum_take_le_sum p h i)
  have := div_le_div_of_nonneg_right (sum_take_le_sum_take p h hij.le) hS
  have hpi := Real.pi_pos
  nlinarith

theorem cumulativeTable_head (p : List ℝ) : (cumulativeTable p)[0]? = some 0 := by
  rw [cumulativeTable_getElem? p 0 (Nat.zero_le _)]; simp

theorem cumulativeTable_last (p : List ℝ) (h : p.sum ≠ 0) : (cumulativeTable p)[p.length]? = some (2 * Real.pi) := by
  rw [cumulativeTable_getElem? p p.length (le_refl _)]; simp [div_self h]

/-! ### interpolation in the table -/
theorem lastY_mem (y0 : ℝ) (r : List (ℝ × ℝ)) : lastY y0 r ∈ y0 :: r.map Prod.snd := by
  induction r generalizing y0 with
  | nil => simp [lastY]
  | cons p r ih =>
    obtain ⟨x1, y1⟩ := p
    have := ih y1
    simp only [lastY, List.map_cons]
    exact List.mem_cons_of_mem _ this

attribute [local irreducible] tableSize tableAngles

theorem tableAngles_length : (tableAngles (α := ℝ)).length = tableSize := by
  unfold tableAngles
  exact linspace_length (Scalar.lit 0) twoPi tableSize

theorem tableAngles_strict (i : Nat) (h1 : i + 1 < (tableAngles (α := ℝ)).length) :
    (tableAngles (α := ℝ))[i]'(Nat.lt_of_succ_lt h1) < (tableAngles (α := ℝ))[i + 1]'h1 := by
  have hpos : (Scalar.lit 0 : ℝ) < twoPi := by rw [twoPi_real, lit_real]; simp [Real.pi_pos]
  unfold tableAngles at h1 ⊢
  exact linspace_strict (Scalar.lit 0) twoPi hpos tableSize i h1

theorem monoPts_zip (xs ys : List ℝ)
    (hx : ∀ i (h1 : i + 1 < xs.length), xs[i]'(Nat.lt_of_succ_lt h1) < xs[i + 1]'h1)
    (hy : List.Pairwise (· ≤ ·) ys) : MonoPts (xs.zip ys) := by
  apply stepRel_of_getElem
  intro i h1
  simp only [List.length_zip, lt_min_iff] at h1
  simp only [List.getElem_zip]
  exact ⟨hx i h1.1, (List.pairwise_iff_getElem.mp hy) i (i + 1) (by omega) h1.2 (by omega)⟩

/-- CORRECTED AZIMUTH.  For every list of 999 non-negative distances the corrected azimuth exists, lies in `[0, 2π]`
and is a non-decreasing function of the azimuth. -/
theorem correctAzimuth_range (p : List ℝ) (hlen : p.length + 1 = tableSize) (h : ∀ d ∈ p, 0 ≤ d) (az : ℝ) :
    ∃ a, correctAzimuth (cumulativeTable p) az = some a ∧ 0 ≤ a ∧ a ≤ 2 * Real.pi := by
  have hl : (cumulativeTable p).length = tableSize := by rw [cumulativeTable_length, hlen]
  have hne : ((cumulativeTable p).length != tableSize) = false := by simp [hl]
  unfold correctAzimuth
  rw [hne]
  simp only [Bool.false_eq_true, if_false]
  have hm : MonoPts ((tableAngles (α := ℝ)).zip (cumulativeTable p)) :=
    monoPts_zip (tableAngles (α := ℝ)) (cumulativeTable p) tableAngles_strict (cumulativeTable_sorted p h)
  cases hz : (tableAngles (α := ℝ)).zip (cumulativeTable p) with
  | nil =>
    have : ((tableAngles (α := ℝ)).zip (cumulativeTable p)).length = tableSize := by
      rw [List.length_zip, tableAngles_length, hl, min_self]
    rw [hz] at this; simp [tableSize] at this
  | cons q r =>
    obtain ⟨x0, y0⟩ := q
    rw [hz] at hm
    rw [interp_cons]
    refine ⟨_, rfl, ?_⟩
    have hb := interp_range hm (interp_cons az x0 y0 r)
    have hmem : ∀ y ∈ y0 :: r.map Prod.snd, y ∈ cumulativeTable p := by
      intro y hy
      have : y ∈ (((x0, y0) :: r).map Prod.snd) := by simpa using hy
      rw [← hz] at this
      obtain ⟨q, hq, rfl⟩ := List.mem_map.mp this
      exact (List.of_mem_zip hq).2
    have h0 := (cumulativeTable_mem_range p h y0 (hmem y0 (by simp))).1
    have h1 := (cumulativeTable_mem_range p h _ (hmem _ (lastY_mem y0 r))).2
    exact ⟨le_trans h0 hb.1, le_trans hb.2 h1⟩

theorem correctAzimuth_mono (p : List ℝ) (h : ∀ d ∈ p, 0 ≤ d) {az az' a a' : ℝ} (hle : az ≤ az')
    (ha : correctAzimuth (cumulativeTable p) az = some a) (ha' : correctAzimuth (cumulativeTable p) az' = some a') :
    a ≤ a' := by
  unfold correctAzimuth at ha ha'
  split_ifs at ha ha' with hl
  have hm : MonoPts ((tableAngles (α := ℝ)).zip (cumulativeTable p)) :=
    monoPts_zip (tableAngles (α := ℝ)) (cumulativeTable p) tableAngles_strict (cumulativeTable_sorted p h)
  exact interp_mono hm hle ha ha'

/-! ### the three-segment renormalisation -/
theorem renormSegment_length (seg : List ℝ) : (renormSegment seg).length = seg.length := by
  simp [renormSegment]

theorem renormSegment_sum (seg : List ℝ) (h : seg.sum ≠ 0) : (renormSegment seg).sum = 3 := by
  simp only [renormSegment, sum_map_div, sumList_eq_sum, lit_real, Nat.cast_ofNat]
  field_simp

theorem renormSegment_nonneg (seg : List ℝ) (h : ∀ d ∈ seg, 0 ≤ d) : ∀ d ∈ renormSegment seg, 0 ≤ d := by
  intro d hd
  simp only [renormSegment, List.mem_map] at hd
  obtain ⟨e, he, rfl⟩ := hd
  rw [sumList_eq_sum]
  exact div_nonneg (h e he) (div_nonneg (List.sum_nonneg h) (by simp))

theorem renormSegment_pos (seg : List ℝ) (h : ∀ d ∈ seg, 0 < d) : ∀ d ∈ renormSegment seg, 0 < d := by
  intro d hd
  simp only [renormSegment, List.mem_map] at hd
  obtain ⟨e, he, rfl⟩ := hd
  rw [sumList_eq_sum]
  have hne : seg ≠ [] := List.ne_nil_of_mem he
  exact div_pos (h e he) (div_pos (List.sum_pos seg h hne) (by simp))

/-- for segment boundaries in order the three segments are renormalised independently -/
theorem renorm3_eq (p : List ℝ) (a b : Nat) (hab : a ≤ b) (hb : b ≤ p.length) :
    renorm3 a b p = some (renormSegment (p.take a) ++ renormSegment ((p.drop a).take (b - a)) ++
      renormSegment (p.drop b)) := by
  have ha : a ≤ p.length := le_trans hab hb
  have c1 : decide (p.length < a) = false := by simp; omega
  have c2 : decide (p.length < b) = false := by simp; omega
  have lA : (renormSegment (p.take a)).length = a := by rw [renormSegment_length, List.length_take]; omega
  have lB : (renormSegment ((p.drop a).take (b - a))).length = b - a := by
    rw [renormSegment_length, List.length_take, List.length_drop]; omega
  simp only [renorm3, c1, c2, Bool.and_false, Bool.or_false, Bool.false_eq_true, if_false]
  rw [List.take_left' lA, List.drop_left' lA, Nat.max_eq_right hab]
  have e1 : List.drop b (renormSegment (p.take a) ++ List.drop a p) = p.drop b := by
    have : b = a + (b - a) := by omega
    rw [this, ← List.drop_drop, List.drop_left' lA, List.drop_drop]
  rw [e1]
  have lAB : (renormSegment (p.take a) ++ renormSegment ((p.drop a).take (b - a))).length = b := by
    rw [List.length_append, lA, lB]; omega
  rw [List.take_left' lAB, List.drop_left' lAB]

/-- THIRDS.  In a 3-vertex sector, whatever the positive distances are, the table takes the values `2π/3` and `4π/3`
exactly at the two interior segment boundaries: each segment carries one third of the full turn. -/
theorem renorm3_thirds (p : List ℝ) (a b : Nat) (h0 : 0 < a) (hab : a < b) (hb : b < p.length)
    (hpos : ∀ d ∈ p, 0 < d) :
    ∃ p', renorm3 a b p = some p' ∧ p'.length = p.length ∧ (∀ d ∈ p', 0 < d) ∧
      (cumulativeTable p')[a]? = some (2 * Real.pi / 3) ∧ (cumulativeTable p')[b]? = some (4 * Real.pi / 3) := by
  have posA : ∀ d ∈ p.take a, 0 < d := fun d hd => hpos d (List.mem_of_mem_take hd)
  have posB : ∀ d ∈ (p.drop a).take (b - a), 0 < d :=
    fun d hd => hpos d (List.mem_of_mem_drop (List.mem_of_mem_take hd))
  have posC : ∀ d ∈ p.drop b, 0 < d := fun d hd => hpos d (List.mem_of_mem_drop hd)
  have neA : p.take a ≠ [] := by
    intro h; have := congrArg List.length h
    rw [List.length_take, List.length_nil] at this; omega
  have neB : (p.drop a).take (b - a) ≠ [] := by
    intro h; have := congrArg List.length h
    rw [List.length_take, List.length_drop, List.length_nil] at this; omega
  have neC : p.drop b ≠ [] := by
    intro h; have := congrArg List.length h
    rw [List.length_drop, List.length_nil] at this; omega
  have sA := renormSegment_sum _ (List.sum_pos _ posA neA).ne'
  have sB := renormSegment_sum _ (List.sum_pos _ posB neB).ne'
  have sC := renormSegment_sum _ (List.sum_pos _ posC neC).ne'
  have lA : (renormSegment (p.take a)).length = a := by rw [renormSegment_length, List.length_take]; omega
  have lB : (renormSegment ((p.drop a).take (b - a))).length = b - a := by
    rw [renormSegment_length, List.length_take, List.length_drop]; omega
  have lC : (renormSegment (p.drop b)).length = p.length - b := by
    rw [renormSegment_length, List.length_drop]
  have lAB : (renormSegment (p.take a) ++ renormSegment ((p.drop a).take (b - a))).length = b := by
    rw [List.length_append, lA, lB]; omega
  refine ⟨_, renorm3_eq p a b hab.le hb.le, ?_, ?_, ?_, ?_⟩
  · simp only [List.length_append, lA, lB, lC]; omega
  · intro d hd
    simp only [List.mem_append] at hd
    rcases hd with (hd | hd) | hd
    · exact renormSegment_pos _ posA d hd
    · exact renormSegment_pos _ posB d hd
    · exact renormSegment_pos _ posC d hd
  · rw [cumulativeTable_getElem? _ a (by simp only [List.length_append, lA, lB, lC]; omega)]
    rw [List.append_assoc, List.take_left' lA]
    simp only [List.sum_append, sA, sB, sC]
    congr 1; ring
  · rw [cumulativeTable_getElem? _ b (by simp only [List.length_append, lA, lB, lC]; omega)]
    rw [List.take_left' lAB]
    simp only [List.sum_append, sA, sB, sC]
    congr 1; ring

theorem renorm3_spec (p p' : List ℝ) (a b : Nat) (h : renorm3 a b p = some p') (hp : ∀ d ∈ p, 0 ≤ d) :
    p'.length = p.length ∧ ∀ d ∈ p', 0 ≤ d := by
  unfold renorm3 at h
  split_ifs at h with hc
  simp only [Bool.or_eq_true, Bool.and_eq_true, decide_eq_true_eq, not_or, not_and, not_lt] at hc
  have step : ∀ (l X : List ℝ) (i j : Nat), (∀ d ∈ l, 0 ≤ d) → (∀ d ∈ X, d ∈ l) →
      ∀ d ∈ l.take i ++ renormSegment X ++ l.drop j, 0 ≤ d := by
    intro l X i j hl hX d hd
    simp only [List.mem_append] at hd
    rcases hd with (hd | hd) | hd
    · exact hl d (List.mem_of_mem_take hd)
    · exact renormSegment_nonneg X (fun e he => hl e (hX e he)) d hd
    · exact hl d (List.mem_of_mem_drop hd)
  set p1 := renormSegment (p.take a) ++ p.drop a with hp1
  set p2 := p1.take a ++ renormSegment ((p1.drop a).take (b - a)) ++ p1.drop (max a b) with hp2
  have n1 : ∀ d ∈ p1, 0 ≤ d := by
    have := step p (p.take a) 0 a hp (fun d hd => List.mem_of_mem_take hd)
    simpa [hp1] using this
  have n2 : ∀ d ∈ p2, 0 ≤ d :=
    step p1 _ a (max a b) n1 (fun d hd => List.mem_of_mem_drop (List.mem_of_mem_take hd))
  have n3 : ∀ d ∈ p2.take b ++ renormSegment (p2.drop b), 0 ≤ d := by
    have := step p2 (p2.drop b) b p2.length n2 (fun d hd => List.mem_of_mem_drop hd)
    simpa using this
  have l1 : p1.length = p.length := by
    simp only [hp1, List.length_append, renormSegment_length, List.length_take, List.length_drop]; omega
  have l2 : p2.length = p.length := by
    simp only [hp2, List.length_append, renormSegment_length, List.length_take, List.length_drop, l1]; omega
  cases Option.some.inj h
  refine ⟨?_, n3⟩
  simp only [List.length_append, renormSegment_length, List.length_take, List.length_drop]; omega

theorem mapM_some_spec {β γ : Type} (f : β → Option γ) (l : List β) (r : List γ) (h : l.mapM f = some r) :
    r.length = l.length ∧ ∀ y ∈ r, ∃ x ∈ l, f x = some y := by
  induction l generalizing r with
  | nil => simp at h; subst h; simp
  | cons x l ih =>
    simp only [List.mapM_cons, Option.bind_eq_bind, Option.bind_eq_some_iff, Option.pure_def, Option.some.injEq] at h
    obtain ⟨y, hy, r', hr', rfl⟩ := h
    obtain ⟨h1, h2⟩ := ih r' hr'
    refine ⟨by simp [h1], ?_⟩
    intro z hz
    rcases List.mem_cons.mp hz with rfl | hz
    · exact ⟨x, by simp, hy⟩
    · obtain ⟨w, hw, hfw⟩ := h2 z hz
      exact ⟨w, List.mem_cons_of_mem _ hw, hfw⟩

theorem npMin_real (a b : ℝ) : npMin a b = if b < a then b else a := by
  simp only [npMin, isNaN_real, Bool.false_eq_true, if_false]
  by_cases h : b < a
  · simp [(lt_real _ _).mpr h, h]
  · have : Scalar.lt b a = false := by
      cases hc : Scalar.lt b a with
      | false => rfl
      | true => exact absurd ((lt_real _ _).mp hc) h
    simp [this, h]

theorem npMinList_nonneg (a : ℝ) (l : List ℝ) (ha : 0 ≤ a) (hl : ∀ d ∈ l, 0 ≤ d) : 0 ≤ npMinList a l := by
  unfold npMinList
  induction l generalizing a with
  | nil => simpa
  | cons x r ih =>
    simp only [List.foldl_cons]
    apply ih
    · rw [npMin_real]; split_ifs
      · exact hl x (by simp)
      · exact ha
    · exact fun d hd => hl d (List.mem_cons_of_mem _ hd)

theorem angleWith_nonneg (u v : Vec3 ℝ) : 0 ≤ angleWith u v := by
  unfold angleWith; rw [acos_real]; exact Real.arccos_nonneg _

theorem boundaryDistance_nonneg (normals : List (Vec3 ℝ)) (c rn : Vec3 ℝ) (d : ℝ)
    (h : boundaryDistance normals c rn = some d) : 0 ≤ d := by
  unfold boundaryDistance at h
  cases hm : normals.map (fun n => angleWith (Vec3.cross n rn) c) with
  | nil => rw [hm] at h; simp at h
  | cons d0 r =>
    rw [hm] at h
    cases Option.some.inj h
    have hall : ∀ e ∈ d0 :: r, 0 ≤ e := by
      intro e he; rw [← hm] at he
      obtain ⟨n, _, rfl⟩ := List.mem_map.mp he
      exact angleWith_nonneg _ _
    exact npMinList_nonneg d0 r (hall d0 (by simp)) (fun e he => hall e (List.mem_cons_of_mem _ he))


theorem boundaryDistances_spec (normals : List (Vec3 ℝ)) (c rx : Vec3 ℝ) (p : List ℝ)
    (h : boundaryDistances normals c rx = some p) : p.length + 1 = tableSize ∧ ∀ d ∈ p, 0 ≤ d := by
  unfold boundaryDistances at h
  obtain ⟨h1, h2⟩ := mapM_some_spec _ _ _ h
  constructor
  · rw [h1, List.length_take, tableAngles_length]
    unfold tableSize; rfl
  · intro d hd
    obtain ⟨a, _, ha⟩ := h2 d hd
    exact boundaryDistance_nonneg _ _ _ _ ha

/-- the table of the model is the cumulative table of 999 non-negative numbers -/
theorem azimuthTable_spec (S : SectorIn ℝ) (t : List ℝ) (h : azimuthTable S = some t) :
    ∃ p : List ℝ, t = cumulativeTable p ∧ p.length + 1 = tableSize ∧ ∀ d ∈ p, 0 ≤ d := by
  unfold azimuthTable at h
  cases hb : boundaryDistances S.normals (Vec3.unit S.center) (rxOf S) with
  | none => simp [hb] at h
  | some polar =>
    obtain ⟨hl, hn⟩ := boundaryDistances_spec _ _ _ _ hb
    simp only [hb] at h
    split_ifs at h with h3
    · cases hs : segmentBounds (Vec3.unit S.center) (rxOf S) S.vertices with
      | none => simp [hs] at h
      | some ab =>
        obtain ⟨a, b⟩ := ab
        simp only [hs] at h
        cases hr : renorm3 a b polar with
        | none => simp [hr] at h
        | some p' =>
          simp only [hr, Option.some.injEq] at h
          obtain ⟨l', n'⟩ := renorm3_spec polar p' a b hr hn
          exact ⟨p', h.symm, by rw [l']; exact hl, n'⟩
    · exact ⟨polar, (Option.some.inj h).symm, hl, hn⟩


end Orix.ColorKey
