import Mathlib.Analysis.SpecialFunctions.Trigonometric.Bounds
import OrixProofs.Lemmas.ConvBasic
/-
axis–angle ↔ quaternion (code-shaped, with the `eps9` / `1e-8` branches) and
axis–angle ↔ Rodrigues–Frank (infinite magnitude as a constructor, `1e-3` cut-off near π).
-/
namespace Orix
open Scalar

theorem qu2ax_real (q : Quat ℝ) :
    Conv.qu2ax q =
      if 2 * Real.arccos q.a < 1 / 10 ^ 9 then ⟨⟨0, 0, 1⟩, 0⟩
      else if |q.a| < 1 / 10 ^ 9 then ⟨⟨q.b, q.c, q.d⟩, Real.pi⟩
      else
        ⟨⟨q.b / (if q.a ≤ 0 then -Real.sqrt (q.b * q.b + q.c * q.c + q.d * q.d)
                  else Real.sqrt (q.b * q.b + q.c * q.c + q.d * q.d)),
          q.c / (if q.a ≤ 0 then -Real.sqrt (q.b * q.b + q.c * q.c + q.d * q.d)
                  else Real.sqrt (q.b * q.b + q.c * q.c + q.d * q.d)),
          q.d / (if q.a ≤ 0 then -Real.sqrt (q.b * q.b + q.c * q.c + q.d * q.d)
                  else Real.sqrt (q.b * q.b + q.c * q.c + q.d * q.d))⟩,
         2 * Real.arccos q.a⟩ := by
  simp only [Conv.qu2ax, lt_real, le_real, lit_real, Nat.cast_ofNat, Nat.cast_zero, Nat.cast_one, pi_real,
    sqrt_real, acos_real, abs_real, eps9_real]

theorem ax2qu_real (x : AxAng ℝ) :
    Conv.ax2qu x =
      if -(1 / 10 ^ 8) < x.w ∧ x.w < 1 / 10 ^ 8 then ⟨1, 0, 0, 0⟩
      else
        Quat.divS ⟨Real.cos (x.w * (1 / 2)), x.n.x * Real.sin (x.w * (1 / 2)), x.n.y * Real.sin (x.w * (1 / 2)),
            x.n.z * Real.sin (x.w * (1 / 2))⟩
          (Real.sqrt (Real.cos (x.w * (1 / 2)) * Real.cos (x.w * (1 / 2))
            + x.n.x * Real.sin (x.w * (1 / 2)) * (x.n.x * Real.sin (x.w * (1 / 2)))
            + x.n.y * Real.sin (x.w * (1 / 2)) * (x.n.y * Real.sin (x.w * (1 / 2)))
            + x.n.z * Real.sin (x.w * (1 / 2)) * (x.n.z * Real.sin (x.w * (1 / 2))))) := by
  simp only [Conv.ax2qu, lt_real, lit_real, Nat.cast_zero, Nat.cast_one, cos_real, sin_real, sqrt_real,
    eps8_real, half_real, Bool.and_eq_true]

/-- the rotation angle returned by `qu2ax` lies in `[0, π]` whenever the scalar part is non-negative -/
theorem qu2ax_angle_range (q : Quat ℝ) (ha : 0 ≤ q.a) : 0 ≤ (Conv.qu2ax q).w ∧ (Conv.qu2ax q).w ≤ Real.pi := by
  rw [qu2ax_real]
  have h1 := Real.arccos_nonneg q.a
  have h2 := Real.arccos_le_pi_div_two.mpr ha
  split_ifs <;> simp only <;> constructor <;> linarith [Real.pi_pos]

/-- guards of the round trip: the angle is outside the small-angle bands of both kernels or the
rotation is exactly the identity; the scalar part is outside the `eps9` band or exactly `0` -/
def AxGuard (q : Quat ℝ) : Prop :=
  (1 / 10 ^ 8 ≤ 2 * Real.arccos q.a ∨ q.a = 1) ∧ (¬ |q.a| < 1 / 10 ^ 9 ∨ q.a = 0)

theorem sqrt_vec_eq {a b c d : ℝ} (h' : a * a + b * b + c * c + d * d = 1) :
    Real.sqrt (b * b + c * c + d * d) = Real.sqrt (1 - a ^ 2) := by
  congr 1; linear_combination h'

/-- **axis–angle round trip, code-shaped**: `ax2qu (qu2ax q) = q` for unit `q` with scalar part ≥ 0 -/
theorem ax2qu_qu2ax (q : Quat ℝ) (h : Quat.normSq q = 1) (ha : 0 ≤ q.a) (g : AxGuard q) :
    Conv.ax2qu (Conv.qu2ax q) = q := by
  have h' : q.a * q.a + q.b * q.b + q.c * q.c + q.d * q.d = 1 := h
  obtain ⟨a, b, c, d⟩ := q
  simp only at h' ha
  obtain ⟨g1, g2⟩ := g
  simp only at g1 g2
  have ha1 : a ≤ 1 := by nlinarith [mul_self_nonneg b, mul_self_nonneg c, mul_self_nonneg d]
  rw [qu2ax_real]
  by_cases h1 : a = 1
  · -- identity
    subst h1
    have hb : b = 0 := by nlinarith [mul_self_nonneg b, mul_self_nonneg c, mul_self_nonneg d]
    have hc : c = 0 := by nlinarith [mul_self_nonneg b, mul_self_nonneg c, mul_self_nonneg d]
    have hd : d = 0 := by nlinarith [mul_self_nonneg b, mul_self_nonneg c, mul_self_nonneg d]
    subst hb hc hd
    simp only [Real.arccos_one, mul_zero]
    rw [if_pos (by positivity), ax2qu_real]
    simp only
    rw [if_pos ⟨by norm_num, by positivity⟩]
  · have hω : 1 / 10 ^ 8 ≤ 2 * Real.arccos a := by
      rcases g1 with g1 | g1
      · exact g1
      · exact absurd g1 h1
    have hω9 : ¬ 2 * Real.arccos a < 1 / 10 ^ 9 := by
      have : (1 : ℝ) / 10 ^ 9 ≤ 1 / 10 ^ 8 := by norm_num
      linarith
    rw [if_neg hω9]
    by_cases h0 : a = 0
    · -- two-fold rotation
      subst h0
      rw [if_pos (by simp), ax2qu_real]
      simp only
      have hp : ¬ (-(1 / 10 ^ 8) < Real.pi ∧ Real.pi < 1 / 10 ^ 8) := by
        intro hh; have := Real.two_le_pi; have : (1 : ℝ) / 10 ^ 8 < 1 := by norm_num
        linarith [hh.2]
      rw [if_neg hp, show Real.pi * (1 / 2) = Real.pi / 2 by ring, Real.cos_pi_div_two, Real.sin_pi_div_two]
      have hn : Real.sqrt (0 * 0 + b * b + c * c + d * d) = 1 := by rw [h', Real.sqrt_one]
      simp only [Quat.divS, mul_one, hn, div_one]
    · have hapos : 0 < a := lt_of_le_of_ne ha (Ne.symm h0)
      have hband : ¬ |a| < 1 / 10 ^ 9 := by
        rcases g2 with g2 | g2
        · exact g2
        · exact absurd g2 h0
      rw [if_neg hband, if_neg (not_le.mpr hapos)]
      have hs : Real.sqrt (b * b + c * c + d * d) = Real.sqrt (1 - a ^ 2) := sqrt_vec_eq h'
      have hspos : 0 < Real.sqrt (1 - a ^ 2) := by
        apply Real.sqrt_pos.mpr
        have : a < 1 := lt_of_le_of_ne ha1 h1
        nlinarith
      rw [ax2qu_real]
      simp only
      have hw : ¬ (-(1 / 10 ^ 8) < 2 * Real.arccos a ∧ 2 * Real.arccos a < 1 / 10 ^ 8) := by
        intro hh; linarith [hh.2]
      rw [if_neg hw, show 2 * Real.arccos a * (1 / 2) = Real.arccos a by ring,
        Real.cos_arccos (by linarith) ha1, Real.sin_arccos, hs]
      have hs0 : Real.sqrt (1 - a ^ 2) ≠ 0 := hspos.ne'
      have e : ∀ y : ℝ, y / Real.sqrt (1 - a ^ 2) * Real.sqrt (1 - a ^ 2) = y := fun y => by field_simp
      simp only [e]
      have hn : Real.sqrt (a * a + b * b + c * c + d * d) = 1 := by rw [h', Real.sqrt_one]
      simp only [Quat.divS, hn, div_one]

theorem unit_of_normSq_one (q : Quat ℝ) (h : Quat.normSq q = 1) : Quat.unit q = q := by
  simp only [Quat.unit, Quat.norm, h, sqrt_real, Real.sqrt_one, Quat.divS, div_one]

theorem nonnegScalar_real (q : Quat ℝ) : Conv.nonnegScalar q = if q.a < 0 then Quat.neg q else q := by
  simp only [Conv.nonnegScalar, lt_real, lit_real, Nat.cast_zero]

theorem nonnegScalar_spec (q : Quat ℝ) (h : Quat.normSq q = 1) :
    Quat.normSq (Conv.nonnegScalar q) = 1 ∧ 0 ≤ (Conv.nonnegScalar q).a ∧
      (Conv.nonnegScalar q = q ∨ Conv.nonnegScalar q = Quat.neg q) := by
  rw [nonnegScalar_real]
  split_ifs with hneg
  · refine ⟨?_, ?_, Or.inr rfl⟩
    · simp only [Quat.normSq, Quat.neg] at *; linarith [h]
    · simp only [Quat.neg]; linarith
  · exact ⟨h, not_lt.mp hneg, Or.inl rfl⟩

/-- **the wrapper `to_axes_angles` (sign canonicalised first) round-trips every unit quaternion up to
sign**, and its angle is in `[0, π]` -/
theorem ax2qu_toAxAng (q : Quat ℝ) (h : Quat.normSq q = 1) (g : AxGuard (Conv.nonnegScalar q)) :
    (Conv.ax2qu (Conv.toAxAng q) = q ∨ Conv.ax2qu (Conv.toAxAng q) = Quat.neg q) ∧
      0 ≤ (Conv.toAxAng q).w ∧ (Conv.toAxAng q).w ≤ Real.pi := by
  obtain ⟨hu, hnn, hpm⟩ := nonnegScalar_spec q h
  simp only [Conv.toAxAng, unit_of_normSq_one q h]
  refine ⟨?_, qu2ax_angle_range _ hnn⟩
  rw [ax2qu_qu2ax _ hu hnn g]
  exact hpm

/-! ### Rodrigues–Frank -/

theorem ax2ro_real (x : AxAng ℝ) :
    Conv.ax2ro x =
      if -(1 / 10 ^ 8) < x.w ∧ x.w < 1 / 10 ^ 8 then ⟨⟨0, 0, 1⟩, .fin 0⟩
      else if |x.w - Real.pi| < 1 / 10 ^ 3 then ⟨x.n, .inf⟩
      else ⟨x.n, .fin (Real.tan (x.w * (1 / 2)))⟩ := by
  simp only [Conv.ax2ro, lt_real, lit_real, Nat.cast_zero, Nat.cast_one, tan_real, abs_real, pi_real,
    eps8_real, eps3_real, half_real, Bool.and_eq_true]

theorem ro2ax_fin_real (n : Vec3 ℝ) (t : ℝ) :
    Conv.ro2ax ⟨n, .fin t⟩ =
      if -(1 / 10 ^ 8) < t ∧ t < 1 / 10 ^ 8 then ⟨⟨0, 0, 1⟩, 0⟩
      else ⟨⟨n.x / Real.sqrt (n.x * n.x + n.y * n.y + n.z * n.z), n.y / Real.sqrt (n.x * n.x + n.y * n.y + n.z * n.z),
          n.z / Real.sqrt (n.x * n.x + n.y * n.y + n.z * n.z)⟩, 2 * Real.arctan t⟩ := by
  simp only [Conv.ro2ax, lt_real, lit_real, Nat.cast_ofNat, Nat.cast_zero, Nat.cast_one, atan_real, sqrt_real,
    eps8_real, Bool.and_eq_true]

theorem ro2ax_inf_real (n : Vec3 ℝ) : Conv.ro2ax ⟨n, .inf⟩ = ⟨n, Real.pi⟩ := by
  simp only [Conv.ro2ax, pi_real]

/-- **Rodrigues–Frank round trip, code-shaped**: for unit axes and angles in `[2·10⁻⁸, π − 10⁻³]` -/
theorem ro2ax_ax2ro (n : Vec3 ℝ) (w : ℝ) (hn : n.x * n.x + n.y * n.y + n.z * n.z = 1)
    (h0 : 2 / 10 ^ 8 ≤ w) (h1 : w ≤ Real.pi - 1 / 10 ^ 3) :
    Conv.ro2ax (Conv.ax2ro ⟨n, w⟩) = ⟨n, w⟩ := by
  have hpi := Real.two_le_pi
  rw [ax2ro_real]
  simp only
  have hb : ¬ (-(1 / 10 ^ 8) < w ∧ w < 1 / 10 ^ 8) := by
    intro hh; have : (1 : ℝ) / 10 ^ 8 < 2 / 10 ^ 8 := by norm_num
    linarith [hh.2]
  have hc : ¬ |w - Real.pi| < 1 / 10 ^ 3 := by
    rw [abs_lt]; intro hh; linarith [hh.1]
  rw [if_neg hb, if_neg hc, ro2ax_fin_real]
  have hw2 : w * (1 / 2) < Real.pi / 2 := by
    have : (0 : ℝ) < 1 / 10 ^ 3 := by positivity
    linarith
  have hw0 : 0 ≤ w * (1 / 2) := by
    have : (0 : ℝ) < 2 / 10 ^ 8 := by positivity
    linarith
  have ht : 1 / 10 ^ 8 ≤ Real.tan (w * (1 / 2)) := by
    have := Real.le_tan hw0 hw2
    have : (1 : ℝ) / 10 ^ 8 ≤ w * (1 / 2) := by linarith
    linarith
  have hb2 : ¬ (-(1 / 10 ^ 8) < Real.tan (w * (1 / 2)) ∧ Real.tan (w * (1 / 2)) < 1 / 10 ^ 8) := by
    intro hh; linarith [hh.2]
  rw [if_neg hb2, hn, Real.sqrt_one, Real.arctan_tan (by linarith [Real.pi_pos]) hw2]
  simp only [div_one]
  congr 1; ring

/-- **the documented cut-off**: an angle within `10⁻³` of π comes back as exactly π -/
theorem ro2ax_ax2ro_cutoff (n : Vec3 ℝ) (w : ℝ) (h : |w - Real.pi| < 1 / 10 ^ 3) :
    Conv.ro2ax (Conv.ax2ro ⟨n, w⟩) = ⟨n, Real.pi⟩ := by
  have hpi := Real.two_le_pi
  rw [ax2ro_real]
  simp only
  have hb : ¬ (-(1 / 10 ^ 8) < w ∧ w < 1 / 10 ^ 8) := by
    intro hh; rw [abs_lt] at h
    have : (1 : ℝ) / 10 ^ 8 < 1 := by norm_num
    have : (1 : ℝ) / 10 ^ 3 < 1 := by norm_num
    linarith [hh.2, h.1]
  rw [if_neg hb, if_pos h, ro2ax_inf_real]

/-- spec level (infinite exactly at π, no thresholds): round trip for every angle in `[0, π]` -/
theorem ro2axSpec_ax2roSpec (n : Vec3 ℝ) (w : ℝ) (h0 : 0 ≤ w) (h1 : w ≤ Real.pi) :
    ConvSpec.ro2ax (ConvSpec.ax2ro ⟨n, w⟩) = ⟨n, w⟩ := by
  simp only [ConvSpec.ax2ro, beq_real, pi_real]
  split_ifs with hw
  · simp only [ConvSpec.ro2ax, pi_real, hw]
  · simp only [ConvSpec.ro2ax, lit_real, Nat.cast_ofNat, atan_real, tan_real]
    have hlt : w < Real.pi := lt_of_le_of_ne h1 hw
    rw [Real.arctan_tan (by linarith [Real.pi_pos]) (by linarith)]
    congr 1; ring

end Orix
