import Mathlib.Tactic.Ring
import Mathlib.Tactic.FieldSimp
import Mathlib.Tactic.Positivity
import Mathlib.Tactic.NormNum
import Mathlib.Tactic.Linarith
import Mathlib.Tactic.LinearCombination
import Mathlib.Algebra.Order.Floor.Ring
import Mathlib.Data.Int.GCD
import OrixProofs.Lemmas.MillerRound
/-
C10, `Miller.round` on multiples `t · w` of a primitive integer triplet `w` (gcd of the indices 1), `M = max |wᵢ|`.
* `m · w / M` is integral only if `M ∣ m` (`dvd_of_primitive`), so for `0 < m < M` some scaled index misses every integer
  by at least `1/M`; the relative squared error is then at least `1/(3 M² m²)`;
* on the 1e-7 grid this is visible (rounds to ≥ 1e-7) as long as `3 M² (M-1)² < 2·10⁷`, i.e. `M ≤ 51`;
* multiplier `M` has error 0; hence the first minimum is `M` and the result is `± w`.
-/
namespace Orix.MillerRound
open Orix Scalar LatLemmas ColorKey Orix.Grp

/-- `t · w` as real indices -/
def smulZ (t : ℝ) (w : Z3) : Vec3 ℝ := ⟨t * w.x, t * w.y, t * w.z⟩
/-- `t · q` for an integer quartet -/
def smulZ4 (t : ℝ) (q : Vec4 ℤ) : Vec4 ℝ := ⟨t * q.x0, t * q.x1, t * q.x2, t * q.x3⟩

/-- the Miller–Bravais quartet `(h, k, -(h+k), l)` of a triplet -/
def quartetOf (w : Z3) : Vec4 ℤ := ⟨w.x, w.y, -(w.x + w.y), w.z⟩

/-- largest absolute index -/
def maxAbsZ (w : Z3) : ℕ := max (max w.x.natAbs w.y.natAbs) w.z.natAbs

/-- coprime indices -/
def Primitive (w : Z3) : Prop := Int.gcd (Int.gcd w.x w.y) w.z = 1

instance (w : Z3) : Decidable (Primitive w) := by unfold Primitive; infer_instance

theorem natAbs_le_maxAbsZ (w : Z3) : w.x.natAbs ≤ maxAbsZ w ∧ w.y.natAbs ≤ maxAbsZ w ∧ w.z.natAbs ≤ maxAbsZ w := by
  unfold maxAbsZ; omega

theorem maxAbsZ_pos {w : Z3} (hw : Primitive w) : 0 < maxAbsZ w := by
  by_contra h
  have h0 : maxAbsZ w = 0 := by omega
  obtain ⟨hx, hy, hz⟩ := natAbs_le_maxAbsZ w
  rw [h0] at hx hy hz
  have ex : w.x = 0 := by omega
  have ey : w.y = 0 := by omega
  have ez : w.z = 0 := by omega
  unfold Primitive at hw
  rw [ex, ey, ez] at hw
  simp at hw

theorem maxAbsZ_neg (w : Z3) : maxAbsZ (Z3.neg w) = maxAbsZ w := by
  simp [maxAbsZ, Z3.neg]

theorem primitive_neg {w : Z3} (hw : Primitive w) : Primitive (Z3.neg w) := by
  unfold Primitive at hw ⊢
  simpa [Z3.neg] using hw

theorem smulZ_neg (t : ℝ) (w : Z3) : smulZ t w = smulZ (-t) (Z3.neg w) := by
  simp [smulZ, Z3.neg]

/-- KEY: if `M` divides `m·wᵢ` for all three coprime indices then `M` divides `m` -/
theorem dvd_of_primitive {w : Z3} (hw : Primitive w) {M m : ℤ} (hx : M ∣ m * w.x) (hy : M ∣ m * w.y)
    (hz : M ∣ m * w.z) : M ∣ m := by
  have e1 := Int.gcd_eq_gcd_ab w.x w.y
  have e2 := Int.gcd_eq_gcd_ab (Int.gcd w.x w.y : ℤ) w.z
  unfold Primitive at hw
  rw [hw, e1] at e2
  have hm : m = m * w.x * (Int.gcdA w.x w.y * Int.gcdA (w.x * Int.gcdA w.x w.y + w.y * Int.gcdB w.x w.y) w.z)
      + m * w.y * (Int.gcdB w.x w.y * Int.gcdA (w.x * Int.gcdA w.x w.y + w.y * Int.gcdB w.x w.y) w.z)
      + m * w.z * Int.gcdB (w.x * Int.gcdA w.x w.y + w.y * Int.gcdB w.x w.y) w.z := by
    push_cast at e2
    linear_combination m * e2
  rw [hm]
  exact dvd_add (dvd_add (Dvd.dvd.mul_right hx _) (Dvd.dvd.mul_right hy _)) (Dvd.dvd.mul_right hz _)

/-- for `0 < m < M` one of the scaled indices `m·wᵢ/M` is not an integer -/
theorem exists_not_dvd {w : Z3} (hw : Primitive w) {M m : ℕ} (h0 : 0 < m) (hm : m < M) :
    ¬ (M : ℤ) ∣ (m : ℤ) * w.x ∨ ¬ (M : ℤ) ∣ (m : ℤ) * w.y ∨ ¬ (M : ℤ) ∣ (m : ℤ) * w.z := by
  by_contra h
  push Not at h
  have := dvd_of_primitive hw h.1 h.2.1 h.2.2
  have := Int.le_of_dvd (by exact_mod_cast h0) this
  omega

/-- a fraction `a/M` with `M ∤ a` misses every integer by at least `1/M` -/
theorem sq_resid_ge {M : ℕ} (hM : 0 < M) {a : ℤ} (h : ¬ (M : ℤ) ∣ a) :
    1 / ((M : ℝ) * M) ≤ ((a : ℝ) / M - rint ((a : ℝ) / M)) * ((a : ℝ) / M - rint ((a : ℝ) / M)) := by
  have hMr : (0 : ℝ) < M := by exact_mod_cast hM
  rw [rint_eq_rintZ]
  set n := rintZ ((a : ℝ) / M) with hn
  have hk : a - n * M ≠ 0 := by
    intro h0
    exact h ⟨n, by linarith⟩
  have hk1 : (1 : ℝ) ≤ ((a - n * M : ℤ) : ℝ) * ((a - n * M : ℤ) : ℝ) := by
    have : 1 ≤ (a - n * M) * (a - n * M) := by
      rcases lt_or_gt_of_ne hk with h' | h'
      · nlinarith
      · nlinarith
    exact_mod_cast this
  have e : (a : ℝ) / M - n = ((a - n * M : ℤ) : ℝ) / M := by
    push_cast; field_simp
  rw [e, div_mul_div_comm]
  exact div_le_div_of_nonneg_right hk1 (by positivity)

theorem resid_zero_of_dvd {M : ℕ} (hM : 0 < M) {a : ℤ} (h : (M : ℤ) ∣ a) :
    (a : ℝ) / M - rint ((a : ℝ) / M) = 0 := by
  obtain ⟨b, rfl⟩ := h
  have hMr : (M : ℝ) ≠ 0 := by exact_mod_cast hM.ne'
  have : (((M : ℤ) * b : ℤ) : ℝ) / M = (b : ℝ) := by push_cast; field_simp
  rw [this, rint_int]; ring

theorem abs_cast_eq (a : ℤ) : |(a : ℝ)| = (a.natAbs : ℝ) := by
  rw [← Int.cast_abs, Int.abs_eq_natAbs]; simp

/-- `max_per_set` of `t·w` -/
theorem maxAbs3_smulZ (t : ℝ) (w : Z3) : maxAbs3 (smulZ t w) = |t| * (maxAbsZ w : ℝ) := by
  rw [maxAbs3_real]
  simp only [smulZ, abs_mul, abs_cast_eq, maxAbsZ, Nat.cast_max]
  rw [← mul_max_of_nonneg _ _ (abs_nonneg t), ← mul_max_of_nonneg _ _ (abs_nonneg t)]

/-- the scaled indices of `t·w` (`t > 0`) do not depend on `t` -/
theorem scaled_smulZ {t : ℝ} (ht : 0 < t) (w : Z3) {M : ℕ} (hM : 0 < M) (m : ℕ) :
    scaled (smulZ t w) (t * M) m =
      ⟨(((m : ℤ) * w.x : ℤ) : ℝ) / M, (((m : ℤ) * w.y : ℤ) : ℝ) / M, (((m : ℤ) * w.z : ℤ) : ℝ) / M⟩ := by
  have hMr : (M : ℝ) ≠ 0 := by exact_mod_cast hM.ne'
  simp only [scaled, smulZ, lit_real]
  congr 1 <;> (push_cast; field_simp)

theorem sq_le_of_natAbs_le {a : ℤ} {M m : ℕ} (hM : 0 < M) (ha : a.natAbs ≤ M) :
    ((((m : ℤ) * a : ℤ) : ℝ) / M) * ((((m : ℤ) * a : ℤ) : ℝ) / M) ≤ (m : ℝ) * m := by
  have hMr : (0 : ℝ) < M := by exact_mod_cast hM
  have h1 : |(a : ℝ)| ≤ M := by rw [abs_cast_eq]; exact_mod_cast ha
  have h2 : (a : ℝ) * a ≤ (M : ℝ) * M := by
    have := abs_le.mp h1
    nlinarith
  rw [div_mul_div_comm, div_le_iff₀ (by positivity)]
  push_cast
  nlinarith [mul_nonneg (Nat.cast_nonneg (α := ℝ) m) (Nat.cast_nonneg (α := ℝ) m)]

section
variable {w : Z3} (hw : Primitive w) {t : ℝ} (ht : 0 < t)
include hw ht

/-- multiplier `M` reproduces `w` exactly: error 0 -/
theorem relErr_at_max : relErr (smulZ t w) (t * maxAbsZ w) (maxAbsZ w) = 0 := by
  have hM := maxAbsZ_pos hw
  have hd : ∀ a : ℤ, (((maxAbsZ w : ℕ) : ℤ) * a : ℤ) / ((maxAbsZ w : ℕ) : ℝ)
      - rint ((((maxAbsZ w : ℕ) : ℤ) * a : ℤ) / ((maxAbsZ w : ℕ) : ℝ)) = 0 :=
    fun a => resid_zero_of_dvd hM (Dvd.intro _ rfl)
  simp only [relErr, scaled_smulZ ht w hM, resid, sumSq, hd]
  simp

/-- a multiplier `0 < m < M`: some scaled index misses the integers by `1/M`; the squared length is in `(0, 3m²]` -/
theorem scaled_bounds {m : ℕ} (h0 : 0 < m) (hm : m < maxAbsZ w) :
    1 / ((maxAbsZ w : ℝ) * maxAbsZ w) ≤ sumSq (resid (scaled (smulZ t w) (t * maxAbsZ w) m)) ∧
    0 < sumSq (scaled (smulZ t w) (t * maxAbsZ w) m) ∧
    sumSq (scaled (smulZ t w) (t * maxAbsZ w) m) ≤ 3 * ((m : ℝ) * m) := by
  have hM := maxAbsZ_pos hw
  obtain ⟨bx, by', bz⟩ := natAbs_le_maxAbsZ w
  set M := maxAbsZ w with hMdef
  have hMr : (0 : ℝ) < M := by exact_mod_cast hM
  simp only [scaled_smulZ ht w hM, resid, sumSq]
  set qx := (((m : ℤ) * w.x : ℤ) : ℝ) / M with hqx
  set qy := (((m : ℤ) * w.y : ℤ) : ℝ) / M with hqy
  set qz := (((m : ℤ) * w.z : ℤ) : ℝ) / M with hqz
  have sx := sq_le_of_natAbs_le (m := m) hM bx
  have sy := sq_le_of_natAbs_le (m := m) hM by'
  have sz := sq_le_of_natAbs_le (m := m) hM bz
  rw [← hqx] at sx
  rw [← hqy] at sy
  rw [← hqz] at sz
  have nx := mul_self_nonneg (qx - rint qx)
  have ny := mul_self_nonneg (qy - rint qy)
  have nz := mul_self_nonneg (qz - rint qz)
  have px := mul_self_nonneg qx
  have py := mul_self_nonneg qy
  have pz := mul_self_nonneg qz
  have key : ∀ a : ℤ, ¬ (M : ℤ) ∣ (m : ℤ) * a → 0 < ((((m : ℤ) * a : ℤ) : ℝ) / M) * ((((m : ℤ) * a : ℤ) : ℝ) / M) := by
    intro a h
    have : (((m : ℤ) * a : ℤ) : ℝ) ≠ 0 := by
      intro h0'
      have : (m : ℤ) * a = 0 := by exact_mod_cast h0'
      exact h (this ▸ dvd_zero _)
    have : (((m : ℤ) * a : ℤ) : ℝ) / M ≠ 0 := div_ne_zero this hMr.ne'
    exact mul_self_pos.mpr this
  refine ⟨?_, ?_, by linarith⟩
  · rcases exists_not_dvd hw h0 hm with h | h | h
    · have := sq_resid_ge hM h; rw [← hqx] at this; linarith
    · have := sq_resid_ge hM h; rw [← hqy] at this; linarith
    · have := sq_resid_ge hM h; rw [← hqz] at this; linarith
  · rcases exists_not_dvd hw h0 hm with h | h | h
    · have := key _ h; rw [← hqx] at this; linarith
    · have := key _ h; rw [← hqy] at this; linarith
    · have := key _ h; rw [← hqz] at this; linarith

/-- without the grid every multiplier `0 < m < M` has a positive error -/
theorem errExact_pos {m : ℕ} (h0 : 0 < m) (hm : m < maxAbsZ w) :
    0 < errExact (smulZ t w) (t * maxAbsZ w) m := by
  obtain ⟨hR, hS, -⟩ := scaled_bounds hw ht h0 hm
  have hMr : (0 : ℝ) < maxAbsZ w := by exact_mod_cast maxAbsZ_pos hw
  rw [errExact_real]
  exact div_pos (lt_of_lt_of_le (by positivity) hR) hS

theorem errExact_at_max : errExact (smulZ t w) (t * maxAbsZ w) (maxAbsZ w) = 0 := by
  have := relErr_at_max hw ht
  rw [relErr_eq] at this
  linarith

/-- a multiplier `0 < m < M ≤ 51` leaves a relative squared error above half a grid step:
`1e7 / (3 m² M²) > 1/2` because `3 · 50² · 51² < 2·10⁷` -/
theorem relErr_gt_half {m : ℕ} (h0 : 0 < m) (hm : m < maxAbsZ w) (h51 : maxAbsZ w ≤ 51) :
    1 / 2 < relErr (smulZ t w) (t * maxAbsZ w) m := by
  obtain ⟨hR, hS, hS3⟩ := scaled_bounds hw ht h0 hm
  have hMr : (0 : ℝ) < maxAbsZ w := by exact_mod_cast maxAbsZ_pos hw
  have hmr : (0 : ℝ) < m := by exact_mod_cast h0
  have hm50 : (m : ℝ) ≤ 50 := by
    have : m ≤ 50 := by omega
    exact_mod_cast this
  have hM51 : (maxAbsZ w : ℝ) ≤ 51 := by exact_mod_cast h51
  have hmm : (m : ℝ) * m ≤ 2500 := by nlinarith
  have hMM : (maxAbsZ w : ℝ) * maxAbsZ w ≤ 2601 := by nlinarith
  have hMMpos : (0 : ℝ) < (maxAbsZ w : ℝ) * maxAbsZ w := by positivity
  have hmmpos : (0 : ℝ) < (m : ℝ) * m := by positivity
  have hprod : 3 * ((m : ℝ) * m) * ((maxAbsZ w : ℝ) * maxAbsZ w) ≤ 3 * 2500 * 2601 :=
    mul_le_mul (by linarith) hMM hMMpos.le (by norm_num)
  have h2 : 1 / 2 * (3 * ((m : ℝ) * m)) < 10000000 * (1 / ((maxAbsZ w : ℝ) * maxAbsZ w)) := by
    rw [mul_one_div, lt_div_iff₀ hMMpos]
    linarith
  unfold relErr
  rw [lt_div_iff₀ hS]
  calc 1 / 2 * sumSq (scaled (smulZ t w) (t * maxAbsZ w) m) ≤ 1 / 2 * (3 * ((m : ℝ) * m)) := by linarith
    _ < 10000000 * (1 / ((maxAbsZ w : ℝ) * maxAbsZ w)) := h2
    _ ≤ 10000000 * sumSq (resid (scaled (smulZ t w) (t * maxAbsZ w) m)) := by linarith

end

/-- `round(1/t · t·a) = a` -/
theorem roundOne_smul {t : ℝ} (ht : 0 < t) {M : ℕ} (hM : 0 < M) (a : ℤ) :
    rintZ ((M : ℝ) / (t * M) * (t * a)) = a := by
  have hMr : (M : ℝ) ≠ 0 := by exact_mod_cast hM.ne'
  have : (M : ℝ) / (t * M) * (t * a) = (a : ℝ) := by field_simp
  rw [this, rintZ_int]

/-- the search on `t·w` (`t > 0`, `w` primitive with `M = max |wᵢ| ≤ min(max_index, 51)`) selects the multiplier `M`:
its error is 0, every earlier multiplier has a positive error on the 1e-7 grid -/
theorem bestMultiplier_smulZ {w : Z3} (hw : Primitive w) {t : ℝ} (ht : 0 < t) {maxIndex : ℕ}
    (hmax : maxAbsZ w ≤ maxIndex) (h51 : maxAbsZ w ≤ 51) :
    bestMultiplier maxIndex (smulZ t w) = .ok (maxAbsZ w) := by
  have hM := maxAbsZ_pos hw
  have hmx : maxAbs3 (smulZ t w) = t * maxAbsZ w := by rw [maxAbs3_smulZ, abs_of_pos ht]
  have hne : maxAbs3 (smulZ t w) ≠ 0 := by
    rw [hmx]; exact (mul_pos ht (by exact_mod_cast hM)).ne'
  have h0 : err (smulZ t w) (maxAbs3 (smulZ t w)) (maxAbsZ w) = 0 := by
    rw [hmx]; exact err_eq_zero_of_relErr_lt (by rw [relErr_at_max hw ht]; norm_num)
  refine bestMultiplier_eq hne hM hmax ?_ ?_
  · intro m' _ _
    rw [h0]; exact err_nonneg _ _ _
  · intro m' h1 h2
    rw [h0, hmx]
    exact err_pos_of_relErr_gt (relErr_gt_half hw ht h1 h2 h51)

theorem roundIndices_smulZ_pos {w : Z3} (hw : Primitive w) {t : ℝ} (ht : 0 < t) {maxIndex : ℕ}
    (hmax : maxAbsZ w ≤ maxIndex) (h51 : maxAbsZ w ≤ 51) :
    roundIndices maxIndex (smulZ t w) = .ok w := by
  have hM := maxAbsZ_pos hw
  rw [roundIndices_of_best (bestMultiplier_smulZ hw ht hmax h51), maxAbs3_smulZ, abs_of_pos ht]
  simp only [smulZ, roundOne_smul ht hM]

/-- SPEC (no error grid): no bound on `M` other than `max_index` is needed -/
theorem roundIndicesSpec_smulZ_pos {w : Z3} (hw : Primitive w) {t : ℝ} (ht : 0 < t) {maxIndex : ℕ}
    (hmax : maxAbsZ w ≤ maxIndex) : roundIndicesSpec maxIndex (smulZ t w) = .ok w := by
  have hM := maxAbsZ_pos hw
  have hmx : maxAbs3 (smulZ t w) = t * maxAbsZ w := by rw [maxAbs3_smulZ, abs_of_pos ht]
  have hne : maxAbs3 (smulZ t w) ≠ 0 := by
    rw [hmx]; exact (mul_pos ht (by exact_mod_cast hM)).ne'
  have hb : bestMultiplierBy errExact maxIndex (smulZ t w) = .ok (maxAbsZ w) := by
    refine bestMultiplierBy_eq errExact hne hM hmax ?_ ?_
    · intro m' _ _
      rw [hmx, errExact_at_max hw ht]; exact errExact_nonneg _ _ _
    · intro m' h1 h2
      rw [hmx, errExact_at_max hw ht]
      exact errExact_pos hw ht h1 h2
  rw [roundIndicesSpec, roundIndicesBy_of_best errExact hb, maxAbs3_smulZ, abs_of_pos ht]
  simp only [smulZ, roundOne_smul ht hM]

/-! ### the witness above 51: `w = (52, 52, 51)`, multiplier 51 -/

def w52 : Z3 := ⟨52, 52, 51⟩

theorem maxAbsZ_w52 : maxAbsZ w52 = 52 := by decide
theorem primitive_w52 : Primitive w52 := by decide

/-- `51/52 · (52, 52, 51) = (51, 51, 50 + 1/52)`: relative squared error `≈ 4.8e-8`, below half a grid step -/
theorem relErr_w52 {t : ℝ} (ht : 0 < t) : relErr (smulZ t w52) (t * (52 : ℕ)) 51 < 1 / 2 := by
  have h1 : rint (51 : ℝ) = 51 := by
    have := rint_int 51; simpa using this
  have h2 : rint ((2601 : ℝ) / 52) = 50 := by
    rw [rint_eq_rintZ, rintZ_eq_of_close (n := 50)]
    · simp
    · rw [abs_lt]; constructor <;> norm_num
  have e1 : ((((51 : ℕ) : ℤ) * (52 : ℤ) : ℤ) : ℝ) / ((52 : ℕ) : ℝ) = 51 := by norm_num
  have e2 : ((((51 : ℕ) : ℤ) * (51 : ℤ) : ℤ) : ℝ) / ((52 : ℕ) : ℝ) = 2601 / 52 := by norm_num
  have hs := scaled_smulZ ht w52 (M := 52) (by norm_num) 51
  unfold relErr
  rw [hs]
  simp only [resid, sumSq, w52, e1, e2, h1, h2]
  norm_num

end Orix.MillerRound
