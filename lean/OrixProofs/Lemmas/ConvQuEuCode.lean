import OrixProofs.Lemmas.ConvQuEuSpec
/-
quaternion → Euler angles, code-shaped model (`Conv.qu2eu`, all `eps9` branches):
ranges for *all* inputs; agreement with the spec under the guards the thresholds need;
the `Φ = π` gimbal branch (`a = -2·b·c` in the code) agrees only when `b·c = 0`, and a concrete
unit quaternion on which the code-shaped model does not round-trip.
-/
namespace Orix
open Scalar

theorem zeroSmall_real (x : ℝ) : Conv.zeroSmall x = if |x| < 1 / 10 ^ 9 then 0 else x := by
  simp only [Conv.zeroSmall, lt_real, abs_real, eps9_real, lit_real, Nat.cast_zero]

theorem qu2euWith_real (s : ℝ) (q : Quat ℝ) :
    Conv.qu2euWith s q =
      if Real.sqrt ((q.a * q.a + q.d * q.d) * (q.b * q.b + q.c * q.c)) < 1 / 10 ^ 9 then
        if q.b * q.b + q.c * q.c < 1 / 10 ^ 9 then
          ⟨fmod (atan2 (-2 * q.a * q.d) (q.a * q.a - q.d * q.d)) (Real.pi * 2), fmod 0 (Real.pi * 2),
            fmod 0 (Real.pi * 2)⟩
        else
          ⟨fmod (atan2 (s * q.b * q.c) (q.b * q.b - q.c * q.c)) (Real.pi * 2), fmod Real.pi (Real.pi * 2),
            fmod 0 (Real.pi * 2)⟩
      else
        ⟨fmod (Conv.zeroSmall (atan2
            ((q.b * q.d - q.a * q.c) / Real.sqrt ((q.a * q.a + q.d * q.d) * (q.b * q.b + q.c * q.c)))
            ((-q.a * q.b - q.c * q.d) / Real.sqrt ((q.a * q.a + q.d * q.d) * (q.b * q.b + q.c * q.c)))))
            (Real.pi * 2),
         fmod (Conv.zeroSmall (atan2 (2 * Real.sqrt ((q.a * q.a + q.d * q.d) * (q.b * q.b + q.c * q.c)))
            (q.a * q.a + q.d * q.d - (q.b * q.b + q.c * q.c)))) (Real.pi * 2),
         fmod (Conv.zeroSmall (atan2
            ((q.a * q.c + q.b * q.d) / Real.sqrt ((q.a * q.a + q.d * q.d) * (q.b * q.b + q.c * q.c)))
            ((q.c * q.d - q.a * q.b) / Real.sqrt ((q.a * q.a + q.d * q.d) * (q.b * q.b + q.c * q.c)))))
            (Real.pi * 2)⟩ := by
  simp only [Conv.qu2euWith, lt_real, lit_real, Nat.cast_ofNat, Nat.cast_zero, pi_real, sqrt_real, eps9_real]

theorem fmod_zero_two_pi : fmod (0 : ℝ) (Real.pi * 2) = 0 :=
  fmod_eq_self le_rfl two_pi_pos
theorem fmod_pi_two_pi : fmod Real.pi (Real.pi * 2) = Real.pi :=
  fmod_eq_self Real.pi_pos.le (by linarith [Real.pi_pos])

/-! ### ranges (all inputs, no guard) -/

/-- every Euler angle returned lies in `[0, 2π)` -/
theorem qu2euWith_range (s : ℝ) (q : Quat ℝ) :
    (0 ≤ (Conv.qu2euWith s q).phi1 ∧ (Conv.qu2euWith s q).phi1 < Real.pi * 2) ∧
    (0 ≤ (Conv.qu2euWith s q).Phi ∧ (Conv.qu2euWith s q).Phi < Real.pi * 2) ∧
    (0 ≤ (Conv.qu2euWith s q).phi2 ∧ (Conv.qu2euWith s q).phi2 < Real.pi * 2) := by
  rw [qu2euWith_real]
  split_ifs <;>
    exact ⟨⟨fmod_nonneg _ two_pi_pos, fmod_lt _ two_pi_pos⟩, ⟨fmod_nonneg _ two_pi_pos, fmod_lt _ two_pi_pos⟩,
      ⟨fmod_nonneg _ two_pi_pos, fmod_lt _ two_pi_pos⟩⟩

theorem zeroSmall_mem {x : ℝ} (h0 : 0 ≤ x) (h1 : x ≤ Real.pi) :
    0 ≤ Conv.zeroSmall x ∧ Conv.zeroSmall x ≤ Real.pi := by
  rw [zeroSmall_real]; split_ifs
  · exact ⟨le_rfl, Real.pi_pos.le⟩
  · exact ⟨h0, h1⟩

/-- the second Euler angle lies in `[0, π]` -/
theorem qu2euWith_Phi_le_pi (s : ℝ) (q : Quat ℝ) : (Conv.qu2euWith s q).Phi ≤ Real.pi := by
  rw [qu2euWith_real]
  split_ifs
  · simp only [fmod_zero_two_pi]; exact Real.pi_pos.le
  · simp only [fmod_pi_two_pi]; exact le_rfl
  · simp only
    have hm := zeroSmall_mem
      (atan2_nonneg (q.a * q.a + q.d * q.d - (q.b * q.b + q.c * q.c))
        (show 0 ≤ 2 * Real.sqrt ((q.a * q.a + q.d * q.d) * (q.b * q.b + q.c * q.c)) by positivity))
      (atan2_le_pi _ _)
    rw [fmod_eq_self hm.1 (by linarith [hm.2, Real.pi_pos])]
    exact hm.2

/-! ### agreement with the spec under the guards -/

/-- guard of the `eu[np.abs(eu) < eps9] = 0` step: the angle is outside the band or exactly zero -/
def ZeroGuard (x : ℝ) : Prop := ¬ |x| < 1 / 10 ^ 9 ∨ x = 0

theorem zeroSmall_of_guard {x : ℝ} (g : ZeroGuard x) : Conv.zeroSmall x = x := by
  rw [zeroSmall_real]
  rcases g with g | g
  · rw [if_neg g]
  · subst g; simp

theorem sqrt_prod_pos_iff {A B : ℝ} (hA : 0 ≤ A) (hB : 0 ≤ B) : 0 < Real.sqrt (A * B) ↔ A ≠ 0 ∧ B ≠ 0 := by
  rw [Real.sqrt_pos]
  constructor
  · intro h; constructor <;> rintro rfl <;> simp at h
  · rintro ⟨h1, h2⟩; exact mul_pos (lt_of_le_of_ne hA (Ne.symm h1)) (lt_of_le_of_ne hB (Ne.symm h2))

/-- generic branch (`χ ≥ eps9`): the code-shaped model is the spec, when no angle falls into the
zeroing band -/
theorem qu2euWith_eq_spec_generic (s : ℝ) (q : Quat ℝ)
    (hχ : ¬ Real.sqrt ((q.a * q.a + q.d * q.d) * (q.b * q.b + q.c * q.c)) < 1 / 10 ^ 9)
    (g0 : ZeroGuard (ConvSpec.qu2eu q).Phi)
    (g1 : ZeroGuard (atan2
            ((q.b * q.d - q.a * q.c) / Real.sqrt ((q.a * q.a + q.d * q.d) * (q.b * q.b + q.c * q.c)))
            ((-q.a * q.b - q.c * q.d) / Real.sqrt ((q.a * q.a + q.d * q.d) * (q.b * q.b + q.c * q.c)))))
    (g2 : ZeroGuard (atan2
            ((q.a * q.c + q.b * q.d) / Real.sqrt ((q.a * q.a + q.d * q.d) * (q.b * q.b + q.c * q.c)))
            ((q.c * q.d - q.a * q.b) / Real.sqrt ((q.a * q.a + q.d * q.d) * (q.b * q.b + q.c * q.c))))) :
    Conv.qu2euWith s q = ConvSpec.qu2eu q := by
  have hA : 0 ≤ q.a * q.a + q.d * q.d := by nlinarith [mul_self_nonneg q.a, mul_self_nonneg q.d]
  have hB : 0 ≤ q.b * q.b + q.c * q.c := by nlinarith [mul_self_nonneg q.b, mul_self_nonneg q.c]
  have hpos : 0 < Real.sqrt ((q.a * q.a + q.d * q.d) * (q.b * q.b + q.c * q.c)) :=
    lt_of_lt_of_le eps9_pos (not_lt.mp hχ)
  obtain ⟨hA0, hB0⟩ := (sqrt_prod_pos_iff hA hB).mp hpos
  rw [qu2euSpec_real, if_neg hB0, if_neg hA0] at g0 ⊢
  rw [qu2euWith_real, if_neg hχ, zeroSmall_of_guard g1, zeroSmall_of_guard g2, zeroSmall_of_guard g0]
  have h0 := atan2_nonneg (q.a * q.a + q.d * q.d - (q.b * q.b + q.c * q.c)) (show 0 ≤ 2 * Real.sqrt ((q.a * q.a + q.d * q.d) * (q.b * q.b + q.c * q.c)) by positivity)
  rw [fmod_eq_self h0 (by linarith [atan2_le_pi (2 * Real.sqrt ((q.a * q.a + q.d * q.d) * (q.b * q.b + q.c * q.c))) (q.a * q.a + q.d * q.d - (q.b * q.b + q.c * q.c)), Real.pi_pos])]

/-- gimbal branch `Φ = 0` (`b = c = 0` exactly): code-shaped model = spec -/
theorem qu2euWith_eq_spec_gimbal0 (s : ℝ) (q : Quat ℝ) (hb : q.b = 0) (hc : q.c = 0) :
    Conv.qu2euWith s q = ConvSpec.qu2eu q := by
  rw [qu2euWith_real, qu2euSpec_real]
  simp only [hb, hc, mul_zero, add_zero, Real.sqrt_zero, fmod_zero_two_pi]
  norm_num

/-- gimbal branch `Φ = π` (`a = d = 0` exactly, unit): with the factor `+2` the code-shaped model is
the spec -/
theorem qu2euWith_two_eq_spec_gimbalPi (q : Quat ℝ) (h : Quat.normSq q = 1) (ha : q.a = 0) (hd : q.d = 0) :
    Conv.qu2euWith 2 q = ConvSpec.qu2eu q := by
  have h' : q.a * q.a + q.b * q.b + q.c * q.c + q.d * q.d = 1 := h
  rw [ha, hd] at h'
  have hbc : q.b * q.b + q.c * q.c = 1 := by linarith
  rw [qu2euWith_real, qu2euSpec_real]
  simp only [ha, hd, hbc, mul_zero, add_zero, zero_mul, Real.sqrt_zero, fmod_zero_two_pi, fmod_pi_two_pi]
  norm_num

/-- … and with the code's factor `-2` only when `b·c = 0` -/
theorem qu2eu_eq_spec_gimbalPi_partial (q : Quat ℝ) (h : Quat.normSq q = 1) (ha : q.a = 0) (hd : q.d = 0)
    (hbc0 : q.b * q.c = 0) : Conv.qu2eu q = ConvSpec.qu2eu q := by
  rw [← qu2euWith_two_eq_spec_gimbalPi q h ha hd]
  simp only [Conv.qu2eu, Conv.qu2euWith, lit_real, Nat.cast_ofNat]
  rw [show -(2 : ℝ) * q.b * q.c = 0 by linear_combination (-2 : ℝ) * hbc0,
    show (2 : ℝ) * q.b * q.c = 0 by linear_combination (2 : ℝ) * hbc0]

/-! ### the code-shaped model at `q = (0, 3/5, −4/5, 0)` -/

/-- In the `Φ = π` branch the code-shaped model returns `φ1` with `sin φ1 = −2bc` where the rotation
needs `+2bc`: entry `(0,1)` of the Bunge matrix of its result is `+24/25`, that of the quaternion's matrix
is `−24/25`. -/
theorem qu2eu_code_counterexample :
    (ConvSpec.bunge (Conv.qu2eu (⟨0, 3 / 5, -4 / 5, 0⟩ : Quat ℝ))).m01 = 24 / 25 ∧
    (Quat.toMat (⟨0, 3 / 5, -4 / 5, 0⟩ : Quat ℝ)).m01 = -24 / 25 := by
  constructor
  · have hu : (-(7 / 25 : ℝ)) * (-(7 / 25)) + (24 / 25) * (24 / 25) = 1 := by norm_num
    rw [bunge_entries]
    simp only [Conv.qu2eu, qu2euWith_real, lit_real, Nat.cast_ofNat]
    norm_num only [Real.sqrt_zero, mul_zero, zero_mul, add_zero, zero_add]
    simp only [if_true, if_false, fmod_zero_two_pi, fmod_pi_two_pi, cos_fmod, sin_fmod, Real.cos_zero,
      Real.sin_zero, Real.cos_pi, sin_atan2_unit hu]
    norm_num
  · simp only [Quat.toMat, lit_real, Nat.cast_ofNat]; norm_num

end Orix
