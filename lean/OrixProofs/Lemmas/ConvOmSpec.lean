import OrixProofs.Lemmas.ConvBasic
/-
matrix → quaternion, spec level: `ConvSpec.om2qu (toMat q) = canon q` for every unit quaternion.
-/
namespace Orix
open Scalar

/-- the four "almost" quantities of the matrix of a unit quaternion -/
theorem almost_a (q : Quat ℝ) (h : Quat.normSq q = 1) :
    1 + (Quat.toMat q).m00 + (Quat.toMat q).m11 + (Quat.toMat q).m22 = 4 * (q.a * q.a) := by
  have h' : q.a * q.a + q.b * q.b + q.c * q.c + q.d * q.d = 1 := h
  simp only [Quat.toMat, lit_real, Nat.cast_ofNat]; linear_combination (-1 : ℝ) * h'
theorem almost_b (q : Quat ℝ) (h : Quat.normSq q = 1) :
    1 + (Quat.toMat q).m00 - (Quat.toMat q).m11 - (Quat.toMat q).m22 = 4 * (q.b * q.b) := by
  have h' : q.a * q.a + q.b * q.b + q.c * q.c + q.d * q.d = 1 := h
  simp only [Quat.toMat, lit_real, Nat.cast_ofNat]; linear_combination (-1 : ℝ) * h'
theorem almost_c (q : Quat ℝ) (h : Quat.normSq q = 1) :
    1 - (Quat.toMat q).m00 + (Quat.toMat q).m11 - (Quat.toMat q).m22 = 4 * (q.c * q.c) := by
  have h' : q.a * q.a + q.b * q.b + q.c * q.c + q.d * q.d = 1 := h
  simp only [Quat.toMat, lit_real, Nat.cast_ofNat]; linear_combination (-1 : ℝ) * h'
theorem almost_d (q : Quat ℝ) (h : Quat.normSq q = 1) :
    1 - (Quat.toMat q).m00 - (Quat.toMat q).m11 + (Quat.toMat q).m22 = 4 * (q.d * q.d) := by
  have h' : q.a * q.a + q.b * q.b + q.c * q.c + q.d * q.d = 1 := h
  simp only [Quat.toMat, lit_real, Nat.cast_ofNat]; linear_combination (-1 : ℝ) * h'

theorem anti_ab (q : Quat ℝ) : (Quat.toMat q).m21 - (Quat.toMat q).m12 = 4 * (q.a * q.b) := by
  simp only [Quat.toMat, lit_real, Nat.cast_ofNat]; ring
theorem anti_ac (q : Quat ℝ) : (Quat.toMat q).m02 - (Quat.toMat q).m20 = 4 * (q.a * q.c) := by
  simp only [Quat.toMat, lit_real, Nat.cast_ofNat]; ring
theorem anti_ad (q : Quat ℝ) : (Quat.toMat q).m10 - (Quat.toMat q).m01 = 4 * (q.a * q.d) := by
  simp only [Quat.toMat, lit_real, Nat.cast_ofNat]; ring
theorem sym_bc (q : Quat ℝ) : (Quat.toMat q).m01 + (Quat.toMat q).m10 = 4 * (q.b * q.c) := by
  simp only [Quat.toMat, lit_real, Nat.cast_ofNat]; ring
theorem sym_bd (q : Quat ℝ) : (Quat.toMat q).m02 + (Quat.toMat q).m20 = 4 * (q.b * q.d) := by
  simp only [Quat.toMat, lit_real, Nat.cast_ofNat]; ring
theorem sym_cd (q : Quat ℝ) : (Quat.toMat q).m12 + (Quat.toMat q).m21 = 4 * (q.c * q.d) := by
  simp only [Quat.toMat, lit_real, Nat.cast_ofNat]; ring

theorem pos_four_sq {x : ℝ} (hx : x ≠ 0) : 0 < 4 * (x * x) := by
  have := mul_self_pos.mpr hx; linarith

/-- `ConvSpec.om2qu` in terms of the components of the unit quaternion whose matrix it is given -/
theorem omSpec_toMat (q : Quat ℝ) (h : Quat.normSq q = 1) :
    ConvSpec.om2qu (Quat.toMat q) =
      if 0 < 4 * (q.a * q.a) then
        ⟨|q.a|, 4 * (q.a * q.b) / (4 * |q.a|), 4 * (q.a * q.c) / (4 * |q.a|), 4 * (q.a * q.d) / (4 * |q.a|)⟩
      else if 0 < 4 * (q.b * q.b) then
        ⟨0, |q.b|, 4 * (q.b * q.c) / (4 * |q.b|), 4 * (q.b * q.d) / (4 * |q.b|)⟩
      else if 0 < 4 * (q.c * q.c) then ⟨0, 0, |q.c|, 4 * (q.c * q.d) / (4 * |q.c|)⟩
      else ⟨0, 0, 0, |q.d|⟩ := by
  have e2 : ∀ x : ℝ, Real.sqrt (4 * (x * x)) / 2 = |x| := fun x => by rw [sqrt_four_sq]; ring
  simp only [ConvSpec.om2qu, lit_real, Nat.cast_ofNat, Nat.cast_one, Nat.cast_zero, lt_real, sqrt_real,
    almost_a q h, almost_b q h, almost_c q h, almost_d q h, anti_ab, anti_ac, anti_ad, sym_bc, sym_bd, sym_cd, e2]

theorem canon_real (q : Quat ℝ) :
    ConvSpec.canon q =
      if 0 < q.a then q else if q.a < 0 then Quat.neg q
      else if 0 < q.b then q else if q.b < 0 then Quat.neg q
      else if 0 < q.c then q else if q.c < 0 then Quat.neg q
      else if 0 < q.d then q else if q.d < 0 then Quat.neg q else q := by
  simp only [ConvSpec.canon, lt_real, lit_real, Nat.cast_zero]

theorem div_four_abs_pos {x y : ℝ} (hx : 0 < x) : 4 * (x * y) / (4 * |x|) = y := by
  rw [abs_of_pos hx]; field_simp
theorem div_four_abs_neg {x y : ℝ} (hx : x < 0) : 4 * (x * y) / (4 * |x|) = -y := by
  rw [abs_of_neg hx]; have : x ≠ 0 := hx.ne; field_simp

/-- **matrix → quaternion inverts quaternion → matrix up to the canonical sign**, all unit quaternions -/
theorem omSpec_toMat_eq_canon (q : Quat ℝ) (h : Quat.normSq q = 1) :
    ConvSpec.om2qu (Quat.toMat q) = ConvSpec.canon q := by
  have h' : q.a * q.a + q.b * q.b + q.c * q.c + q.d * q.d = 1 := h
  rw [omSpec_toMat q h, canon_real]
  obtain ⟨a, b, c, d⟩ := q
  simp only [Quat.neg] at *
  rcases lt_trichotomy a 0 with ha | ha | ha
  · rw [if_pos (pos_four_sq ha.ne), if_neg (not_lt.mpr ha.le), if_pos ha,
      div_four_abs_neg ha, div_four_abs_neg ha, div_four_abs_neg ha, abs_of_neg ha]
  · subst ha
    simp only [mul_zero, lt_irrefl, if_false]
    rcases lt_trichotomy b 0 with hb | hb | hb
    · rw [if_pos (pos_four_sq hb.ne), if_neg (not_lt.mpr hb.le), if_pos hb,
        div_four_abs_neg hb, div_four_abs_neg hb, abs_of_neg hb]; simp
    · subst hb
      simp only [mul_zero, lt_irrefl, if_false]
      rcases lt_trichotomy c 0 with hc | hc | hc
      · rw [if_pos (pos_four_sq hc.ne), if_neg (not_lt.mpr hc.le), if_pos hc,
          div_four_abs_neg hc, abs_of_neg hc]; simp
      · subst hc
        simp only [mul_zero, lt_irrefl, if_false]
        have hd : d * d = 1 := by linarith
        rcases lt_trichotomy d 0 with hd0 | hd0 | hd0
        · rw [if_neg (not_lt.mpr hd0.le), if_pos hd0, abs_of_neg hd0]; simp
        · subst hd0; simp at hd
        · rw [if_pos hd0, abs_of_pos hd0]
      · rw [if_pos (pos_four_sq hc.ne'), if_pos hc, div_four_abs_pos hc, abs_of_pos hc]
    · rw [if_pos (pos_four_sq hb.ne'), if_pos hb, div_four_abs_pos hb, div_four_abs_pos hb, abs_of_pos hb]
  · rw [if_pos (pos_four_sq ha.ne'), if_pos ha, div_four_abs_pos ha, div_four_abs_pos ha,
      div_four_abs_pos ha, abs_of_pos ha]

theorem canon_eq_or_neg (q : Quat ℝ) : ConvSpec.canon q = q ∨ ConvSpec.canon q = Quat.neg q := by
  rw [canon_real]; split_ifs <;> simp

theorem canon_neg (q : Quat ℝ) : ConvSpec.canon (Quat.neg q) = ConvSpec.canon q := by
  obtain ⟨a, b, c, d⟩ := q
  simp only [canon_real, Quat.neg, neg_neg, Left.neg_pos_iff, Left.neg_neg_iff]
  split_ifs <;> first | rfl | (exfalso; linarith) | (simp only [Quat.mk.injEq]; refine ⟨?_, ?_, ?_, ?_⟩ <;> linarith)

theorem toMat_neg (q : Quat ℝ) : Quat.toMat (Quat.neg q) = Quat.toMat q := by
  simp only [Quat.toMat, Quat.neg, lit_real, Nat.cast_ofNat]; congr 1 <;> ring

/-- the double cover is exactly two-to-one: unit quaternions with the same matrix differ by sign -/
theorem toMat_injective_up_to_sign (p q : Quat ℝ) (hp : Quat.normSq p = 1) (hq : Quat.normSq q = 1)
    (h : Quat.toMat p = Quat.toMat q) : p = q ∨ p = Quat.neg q := by
  have e : ConvSpec.canon p = ConvSpec.canon q := by
    rw [← omSpec_toMat_eq_canon p hp, ← omSpec_toMat_eq_canon q hq, h]
  have nn : ∀ r : Quat ℝ, Quat.neg (Quat.neg r) = r := fun r => by cases r; simp [Quat.neg]
  rcases canon_eq_or_neg p with h1 | h1 <;> rcases canon_eq_or_neg q with h2 | h2
  · left; rw [← h1, ← h2, e]
  · right; rw [← h1, ← h2, e]
  · have t : Quat.neg p = q := by rw [← h1, e, h2]
    right; rw [← t, nn]
  · have t : Quat.neg p = Quat.neg q := by rw [← h1, e, h2]
    left; have t2 := congrArg Quat.neg t; rwa [nn, nn] at t2

end Orix
