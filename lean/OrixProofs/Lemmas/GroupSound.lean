import OrixModel.Group
/-
Soundness of the Boolean group checkers of `OrixModel/Group.lean`: a kernel run
`checker table = true` implies the declarative statement.  Core Lean only.
-/
namespace Orix.Grp

theorem mem_iff {x : M3} {L : List M3} : mem x L = true ↔ x ∈ L := by
  unfold mem
  rw [List.any_eq_true]
  constructor
  · rintro ⟨y, hy, h⟩
    have : y = x := by simpa using h
    exact this ▸ hy
  · intro h; exact ⟨x, h, by simp⟩

theorem subset_iff {A B : List M3} : subset A B = true ↔ ∀ x ∈ A, x ∈ B := by
  unfold subset
  rw [List.all_eq_true]
  constructor
  · intro h x hx; exact mem_iff.mp (h x hx)
  · intro h x hx; exact mem_iff.mpr (h x hx)

theorem setEq_iff {A B : List M3} : setEq A B = true ↔ ∀ x, x ∈ A ↔ x ∈ B := by
  unfold setEq
  rw [Bool.and_eq_true, subset_iff, subset_iff]
  constructor
  · rintro ⟨h1, h2⟩ x; exact ⟨h1 x, h2 x⟩
  · intro h; exact ⟨fun x hx => (h x).mp hx, fun x hx => (h x).mpr hx⟩

theorem closed_iff {L : List M3} : closed L = true ↔ ∀ x ∈ L, ∀ y ∈ L, x.mul y ∈ L := by
  unfold closed
  rw [List.all_eq_true]
  constructor
  · intro h x hx y hy
    have := h x hx
    rw [List.all_eq_true] at this
    exact mem_iff.mp (this y hy)
  · intro h x hx
    rw [List.all_eq_true]
    intro y hy; exact mem_iff.mpr (h x hx y hy)

theorem hasInv_iff {L : List M3} : hasInv L = true ↔ ∀ x ∈ L, ∃ y ∈ L, x.mul y = M3.one := by
  unfold hasInv
  rw [List.all_eq_true]
  constructor
  · intro h x hx
    have := h x hx
    rw [List.any_eq_true] at this
    obtain ⟨y, hy, e⟩ := this
    exact ⟨y, hy, by simpa using e⟩
  · intro h x hx
    rw [List.any_eq_true]
    obtain ⟨y, hy, e⟩ := h x hx
    exact ⟨y, hy, by simpa using e⟩

theorem nodup_iff {L : List M3} : nodup L = true ↔ L.Nodup := by
  induction L with
  | nil => simp [nodup]
  | cons x r ih =>
    simp only [nodup, Bool.and_eq_true, Bool.not_eq_true', List.nodup_cons, ih]
    constructor
    · rintro ⟨h1, h2⟩
      refine ⟨?_, h2⟩
      intro hx
      have := mem_iff.mpr hx
      rw [h1] at this; exact Bool.false_ne_true this
    · rintro ⟨h1, h2⟩
      refine ⟨?_, h2⟩
      cases hm : mem x r with
      | false => rfl
      | true => exact absurd (mem_iff.mp hm) h1

/-- the declarative notion of "finite group of matrices given as a duplicate-free list" -/
structure IsGroupList (L : List M3) : Prop where
  one_mem : M3.one ∈ L
  mul_mem : ∀ x ∈ L, ∀ y ∈ L, x.mul y ∈ L
  inv_mem : ∀ x ∈ L, ∃ y ∈ L, x.mul y = M3.one
  nodup : L.Nodup

theorem isGroup_iff {L : List M3} : isGroup L = true ↔ IsGroupList L := by
  unfold isGroup
  simp only [Bool.and_eq_true]
  rw [mem_iff, closed_iff, hasInv_iff, nodup_iff]
  constructor
  · rintro ⟨⟨⟨h1, h2⟩, h3⟩, h4⟩; exact ⟨h1, h2, h3, h4⟩
  · rintro ⟨h1, h2, h3, h4⟩; exact ⟨⟨⟨h1, h2⟩, h3⟩, h4⟩

/-- everything `checkIn` establishes, stated declaratively -/
structure GroupFacts (r : GroupRec) (b : Basis) (L : List M3) : Prop where
  group : IsGroupList L
  order : L.length = r.order
  laue : ∃ LL, r.laueOps b = some LL ∧ IsGroupList LL ∧ ∀ x, x ∈ LL ↔ (x ∈ L ∨ ∃ y ∈ L, x = y.neg)
  proper : ∃ P, r.properOps b = some P ∧ ∀ x, x ∈ P ↔ (x ∈ L ∧ x.det = 1)
  inversion : r.containsInversion = true ↔ negI ∈ L
  isProper : r.isProper = true ↔ ∀ x ∈ L, x.det = 1

theorem checkIn_sound {b : Basis} {r : GroupRec} {L : List M3} (h : checkIn b r = true)
    (hL : r.ops b = some L) : GroupFacts r b L := by
  unfold checkIn at h
  rw [hL] at h
  simp only [Bool.and_eq_true] at h
  obtain ⟨⟨⟨⟨⟨hg, ho⟩, hl⟩, hp⟩, hi⟩, hpr⟩ := h
  refine ⟨isGroup_iff.mp hg, by simpa using ho, ?_, ?_, ?_, ?_⟩
  · cases hLL : r.laueOps b with
    | none => rw [hLL] at hl; exact absurd hl (by simp)
    | some LL =>
      rw [hLL] at hl
      simp only [Bool.and_eq_true] at hl
      refine ⟨LL, rfl, isGroup_iff.mp hl.1, ?_⟩
      intro x
      rw [setEq_iff.mp hl.2 x, List.mem_append, List.mem_map]
      constructor
      · rintro (h | ⟨y, hy, e⟩)
        · exact Or.inl h
        · exact Or.inr ⟨y, hy, e.symm⟩
      · rintro (h | ⟨y, hy, e⟩)
        · exact Or.inl h
        · exact Or.inr ⟨y, hy, e.symm⟩
  · cases hP : r.properOps b with
    | none => rw [hP] at hp; exact absurd hp (by simp)
    | some P =>
      rw [hP] at hp
      refine ⟨P, rfl, ?_⟩
      intro x
      rw [setEq_iff.mp hp x, List.mem_filter]
      simp
  · rw [← mem_iff]
    cases hc : r.containsInversion <;> cases hm : mem negI L <;> simp_all
  · have : (L.all fun x => decide (x.det = 1)) = true ↔ ∀ x ∈ L, x.det = 1 := by
      rw [List.all_eq_true]; simp
    rw [← this]
    cases hc : r.isProper <;> cases hm : (L.all fun x => decide (x.det = 1)) <;> simp_all

theorem checkName_sound {b : Basis} {r : GroupRec} {L : List M3} (h : checkName b r = true)
    (hL : r.ops b = some L) : ∃ R, reference b r.name = some R ∧ ∀ x, x ∈ L ↔ x ∈ R := by
  unfold checkName at h
  rw [hL] at h
  cases hR : reference b r.name with
  | none => rw [hR] at h; exact absurd h (by simp)
  | some R => rw [hR] at h; exact ⟨R, rfl, setEq_iff.mp h⟩

theorem isSubgroup_sound {h g : GroupRec} (hs : isSubgroup h g = true) :
    ∃ b H G, h.ops b = some H ∧ g.ops b = some G ∧ ∀ x ∈ H, x ∈ G := by
  unfold isSubgroup at hs
  cases hgc : g.cub with
  | some G =>
    rw [hgc] at hs
    cases hhc : h.cub with
    | none => rw [hhc] at hs; exact absurd hs (by simp)
    | some H => rw [hhc] at hs; exact ⟨.cub, H, G, hhc, hgc, subset_iff.mp hs⟩
  | none =>
    rw [hgc] at hs
    cases hgh : g.hex with
    | none => rw [hgh] at hs; exact absurd hs (by simp)
    | some G =>
      rw [hgh] at hs
      cases hhh : h.hex with
      | none => rw [hhh] at hs; exact absurd hs (by simp)
      | some H => rw [hhh] at hs; exact ⟨.hex, H, G, hhh, hgh, subset_iff.mp hs⟩

theorem sgOk_sound {all : List GroupRec} {s : SpaceGroupRec} (h : sgOk all s = true) :
    ∃ g L, lookup all s.pointGroup = some g ∧ g.ops s.basis = some L ∧ ∀ x, x ∈ L ↔ x ∈ s.rotParts := by
  unfold sgOk at h
  cases hg : lookup all s.pointGroup with
  | none => rw [hg] at h; exact absurd h (by simp)
  | some g =>
    rw [hg] at h
    cases hL : g.ops s.basis with
    | none => simp only [hL] at h; exact absurd h (by simp)
    | some L => simp only [hL] at h; exact ⟨g, L, rfl, hL, setEq_iff.mp h⟩

theorem eq_of_nodup_map {α β : Type} (f : α → β) :
    ∀ {l : List α}, (l.map f).Nodup → ∀ {a b : α}, a ∈ l → b ∈ l → f a = f b → a = b
  | [], _, _, _, ha, _, _ => by cases ha
  | x :: r, hn, a, b, ha, hb, hab => by
    rw [List.map_cons, List.nodup_cons] at hn
    rcases List.mem_cons.mp ha with rfl | ha'
    · rcases List.mem_cons.mp hb with rfl | hb'
      · rfl
      · exact absurd (hab ▸ List.mem_map_of_mem (f := f) hb') hn.1
    · rcases List.mem_cons.mp hb with rfl | hb'
      · exact absurd (hab ▸ List.mem_map_of_mem (f := f) ha') hn.1
      · exact eq_of_nodup_map f hn.2 ha' hb' hab

end Orix.Grp
