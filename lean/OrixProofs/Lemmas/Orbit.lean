import Mathlib.Data.Finset.Card
import Mathlib.Data.Finset.Image
import Mathlib.Algebra.BigOperators.Group.Finset.Basic
import Mathlib.Tactic.Ring
import OrixModel.Sector
import OrixProofs.Lemmas.GroupSound
/-
Orbits of a finite group of integer matrices (C10): group-law facts of `M3`, two-sided inverses in a
group list, and the orbit–stabiliser theorem for any action.
-/
namespace Orix.Grp

theorem M3.mul_assoc (a b c : M3) : (a.mul b).mul c = a.mul (b.mul c) := by
  simp only [M3.mul]; congr 1 <;> ring
theorem M3.one_mul (a : M3) : M3.one.mul a = a := by
  cases a; simp [M3.mul, M3.one]
theorem M3.mul_one (a : M3) : a.mul M3.one = a := by
  cases a; simp [M3.mul, M3.one]

/-- in a group list right inverses are two-sided -/
theorem inv_two_sided {L : List M3} (hL : IsGroupList L) {k : M3} (hk : k ∈ L) :
    ∃ k' ∈ L, k.mul k' = M3.one ∧ k'.mul k = M3.one := by
  obtain ⟨k', hk', h1⟩ := hL.inv_mem k hk
  obtain ⟨k'', _, h2⟩ := hL.inv_mem k' hk'
  refine ⟨k', hk', h1, ?_⟩
  have : k = k'' := by
    calc k = k.mul M3.one := (M3.mul_one k).symm
      _ = k.mul (k'.mul k'') := by rw [h2]
      _ = (k.mul k').mul k'' := (M3.mul_assoc _ _ _).symm
      _ = M3.one.mul k'' := by rw [h1]
      _ = k'' := M3.one_mul k''
  rw [this]; exact h2

section Action
variable {X : Type} [DecidableEq X] (act : M3 → X → X)
  (act_mul : ∀ a b x, act (a.mul b) x = act a (act b x)) (act_one : ∀ x, act M3.one x = x)

/-- the distinct images of `x` -/
def orbitF (L : List M3) (x : X) : Finset X := (L.map fun g => act g x).toFinset
/-- the operations fixing `x` -/
def stabF (L : List M3) (x : X) : Finset M3 := (L.filter fun g => decide (act g x = x)).toFinset
/-- the operations mapping `x` to `w` -/
def fiberF (L : List M3) (x w : X) : Finset M3 := (L.filter fun g => decide (act g x = w)).toFinset

include act_mul act_one in
theorem fiber_card_eq_stab {L : List M3} (hL : IsGroupList L) (x : X) {w : X} (hw : w ∈ orbitF act L x) :
    (fiberF act L x w).card = (stabF act L x).card := by
  simp only [orbitF, List.mem_toFinset, List.mem_map] at hw
  obtain ⟨k, hk, rfl⟩ := hw
  obtain ⟨k', hk', h1, h2⟩ := inv_two_sided hL hk
  apply le_antisymm
  · -- g ↦ k'·g maps the fibre injectively into the stabiliser
    apply Finset.card_le_card_of_injOn (fun g => k'.mul g)
    · intro g hg
      simp only [fiberF, stabF, Finset.coe_filter, List.coe_toFinset, List.mem_filter, decide_eq_true_eq,
        Set.mem_setOf_eq] at hg ⊢
      refine ⟨hL.mul_mem k' hk' g hg.1, ?_⟩
      rw [act_mul, hg.2, ← act_mul, h2, act_one]
    · intro a _ b _ hab
      have : k.mul (k'.mul a) = k.mul (k'.mul b) := by simp only [hab]
      rwa [← M3.mul_assoc, ← M3.mul_assoc, h1, M3.one_mul, M3.one_mul] at this
  · apply Finset.card_le_card_of_injOn (fun g => k.mul g)
    · intro g hg
      simp only [fiberF, stabF, Finset.coe_filter, List.coe_toFinset, List.mem_filter, decide_eq_true_eq,
        Set.mem_setOf_eq] at hg ⊢
      refine ⟨hL.mul_mem k hk g hg.1, ?_⟩
      rw [act_mul, hg.2]
    · intro a _ b _ hab
      have : k'.mul (k.mul a) = k'.mul (k.mul b) := by simp only [hab]
      rwa [← M3.mul_assoc, ← M3.mul_assoc, h2, M3.one_mul, M3.one_mul] at this

include act_mul act_one in
/-- ORBIT–STABILISER: (number of distinct images) · (order of the stabiliser) = order of the group -/
theorem orbit_stabiliser {L : List M3} (hL : IsGroupList L) (x : X) :
    (orbitF act L x).card * (stabF act L x).card = L.length := by
  have hcard : L.length = L.toFinset.card := (List.toFinset_card_of_nodup hL.nodup).symm
  rw [hcard]
  have hmaps : ∀ g ∈ L.toFinset, act g x ∈ orbitF act L x := by
    intro g hg
    simp only [orbitF, List.mem_toFinset, List.mem_map]
    exact ⟨g, List.mem_toFinset.mp hg, rfl⟩
  rw [Finset.card_eq_sum_card_fiberwise hmaps]
  have : ∀ w ∈ orbitF act L x, (L.toFinset.filter fun g => act g x = w).card = (stabF act L x).card := by
    intro w hw
    rw [← fiber_card_eq_stab act act_mul act_one hL x hw]
    congr 1
    ext g
    simp [fiberF, List.mem_filter]
  rw [Finset.sum_congr rfl this, Finset.sum_const]
  simp

include act_mul act_one in
/-- the multiplicity divides the group order -/
theorem multiplicity_dvd_order {L : List M3} (hL : IsGroupList L) (x : X) :
    (orbitF act L x).card ∣ L.length :=
  ⟨_, (orbit_stabiliser act act_mul act_one hL x).symm⟩

include act_mul act_one in
/-- two vectors have the same orbit iff one is an image of the other (key equality ⇔ same orbit) -/
theorem orbit_eq_iff {L : List M3} (hL : IsGroupList L) (x y : X) :
    orbitF act L x = orbitF act L y ↔ y ∈ orbitF act L x := by
  constructor
  · intro h
    rw [h]
    simp only [orbitF, List.mem_toFinset, List.mem_map]
    exact ⟨M3.one, hL.one_mem, act_one y⟩
  · intro h
    simp only [orbitF, List.mem_toFinset, List.mem_map] at h
    obtain ⟨k, hk, rfl⟩ := h
    obtain ⟨k', hk', h1, h2⟩ := inv_two_sided hL hk
    ext w
    simp only [orbitF, List.mem_toFinset, List.mem_map]
    constructor
    · rintro ⟨g, hg, rfl⟩
      refine ⟨g.mul k', hL.mul_mem g hg k' hk', ?_⟩
      rw [act_mul, ← act_mul k' k, h2, act_one]
    · rintro ⟨g, hg, rfl⟩
      exact ⟨g.mul k, hL.mul_mem g hg k hk, act_mul g k x⟩

end Action

theorem act_mul_Z3 (a b : M3) (v : Z3) : (a.mul b).act v = a.act (b.act v) := by
  simp only [M3.act, M3.mul]; congr 1 <;> ring
theorem act_one_Z3 (v : Z3) : M3.one.act v = v := by
  cases v; simp [M3.act, M3.one]

end Orix.Grp
