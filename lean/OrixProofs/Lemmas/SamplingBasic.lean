import Mathlib.Tactic.Ring
import Mathlib.Tactic.FieldSimp
import Mathlib.Tactic.Positivity
import Mathlib.Tactic.NormNum
import Mathlib.Tactic.Linarith
import Mathlib.Algebra.Order.Floor.Ring
import Mathlib.Algebra.Order.Round
import OrixProofs.Lemmas.RealScalar
import OrixModel.Sampling
/-
Helper lemmas for C19 (S2 sampling grids), part 1: the real-number reading of `int(np.ceil(x))`, of `ofInt`, the
contract of the `np.linspace` model (length, first element, step, last element) and the one-dimensional covering
lemma for an equispaced grid.
-/
namespace Orix.SamplingLemmas
open Orix Scalar Sampling

/-- over ℝ `int(np.ceil(x))` is the integer ceiling (never an error) -/
noncomputable instance instHasCeilReal : HasCeil ℝ := ⟨fun x => some ⌈x⌉⟩

@[simp] theorem ceilInt_real (x : ℝ) : HasCeil.ceilInt x = some ⌈x⌉ := rfl

@[simp] theorem ofInt_real (i : ℤ) : (ofInt i : ℝ) = (i : ℝ) := by
  cases i with
  | ofNat n => simp [ofInt]
  | negSucc n => simp [ofInt, Int.cast_negSucc]

theorem deg2rad_real (x : ℝ) : (deg2rad x : ℝ) = x * (Real.pi / 180) := by
  simp [deg2rad]

/-! ### `intRange` -/

theorem mem_intRange {a b i : ℤ} : i ∈ intRange a b ↔ a ≤ i ∧ i < b := by
  simp only [intRange, List.mem_map, List.mem_range]
  constructor
  · rintro ⟨k, hk, rfl⟩
    constructor
    · simp
    · have : (k : ℤ) < (b - a).toNat := by exact_mod_cast hk
      have h2 : ((b - a).toNat : ℤ) = b - a := Int.toNat_of_nonneg (by omega)
      simp only [Int.ofNat_eq_natCast]; omega
  · rintro ⟨h1, h2⟩
    refine ⟨(i - a).toNat, ?_, ?_⟩
    · omega
    · simp only [Int.ofNat_eq_natCast]; omega

theorem length_intRange (a b : ℤ) : (intRange a b).length = (b - a).toNat := by
  simp [intRange]

/-! ### contract of `np.linspace` -/

/-- LENGTH: `np.linspace(start, stop, num, endpoint)` has `num` elements (any scalar type) -/
theorem linspace_length {α : Type} [Scalar α] (a b : α) (n : ℕ) (e : Bool) : (linspace a b n e).length = n := by
  simp [linspace]

theorem mem_linspace {α : Type} [Scalar α] {a b : α} {n : ℕ} {e : Bool} {x : α} :
    x ∈ linspace a b n e ↔ ∃ i, i < n ∧ linspaceAt a b n e i = x := by
  simp [linspace]

/-- LAST ELEMENT: with `endpoint=True` and more than one sample the last element is `stop` itself, bit for bit
(any scalar type: numpy assigns it) -/
theorem linspaceAt_last {α : Type} [Scalar α] (a b : α) (n : ℕ) (hn : 1 < n) :
    linspaceAt a b n true (n - 1) = b := by
  have h : n - 1 + 1 = n := by omega
  simp [linspaceAt, hn, h]

/-- the step of `np.linspace`: `(stop - start) / div`, `div = num - 1` with the endpoint and `num` without -/
noncomputable def linStep (a b : ℝ) (n : ℕ) (e : Bool) : ℝ := (b - a) / (linspaceDiv n e : ℝ)

/-- CLOSED FORM over ℝ: element `i` is `start + i·step` — the zero-step branch, the ordinary branch and the
assigned last element all agree with it -/
theorem linspaceAt_real (a b : ℝ) (n : ℕ) (e : Bool) (i : ℕ) (hi : i < n) :
    linspaceAt a b n e i = a + i * linStep a b n e := by
  unfold linspaceAt linStep
  simp only [lit_real, Nat.cast_zero]
  by_cases hlast : (e && decide (1 < n) && decide (i + 1 = n)) = true
  · rw [if_pos hlast]
    simp only [Bool.and_eq_true, decide_eq_true_eq] at hlast
    obtain ⟨⟨he, hn⟩, hin⟩ := hlast
    subst he
    have hd : (linspaceDiv n true : ℝ) = (i : ℝ) := by
      simp only [linspaceDiv, if_true]
      have : n - 1 = i := by omega
      rw [this]
    rw [hd]
    have hi0 : (i : ℝ) ≠ 0 := by
      have : 0 < i := by omega
      positivity
    field_simp
    ring
  · rw [if_neg hlast]
    by_cases hd : linspaceDiv n e = 0
    · rw [if_pos hd]
      simp only [hd, Nat.cast_zero, div_zero, mul_zero, add_zero]
      -- `div = 0` with `i < n` forces `n = 1`, `i = 0`
      have : i = 0 := by
        unfold linspaceDiv at hd
        split_ifs at hd <;> omega
      subst this
      simp
    · rw [if_neg hd]
      have hdr : (linspaceDiv n e : ℝ) ≠ 0 := by exact_mod_cast hd
      by_cases hz : Scalar.beq ((b - a) / (linspaceDiv n e : ℝ)) (0 : ℝ) = true
      · rw [if_pos hz]
        rw [beq_real] at hz
        have hba : b - a = 0 := by
          rcases div_eq_zero_iff.mp hz with h | h
          · exact h
          · exact absurd h hdr
        rw [hba]; simp
      · rw [if_neg hz]; ring

/-- FIRST ELEMENT over ℝ -/
theorem linspaceAt_zero (a b : ℝ) (n : ℕ) (e : Bool) (hn : 0 < n) : linspaceAt a b n e 0 = a := by
  rw [linspaceAt_real a b n e 0 hn]; simp

/-- STEP over ℝ: consecutive elements differ by `(stop - start)/div` -/
theorem linspaceAt_succ_sub (a b : ℝ) (n : ℕ) (e : Bool) (i : ℕ) (hi : i + 1 < n) :
    linspaceAt a b n e (i + 1) - linspaceAt a b n e i = linStep a b n e := by
  rw [linspaceAt_real a b n e (i + 1) hi, linspaceAt_real a b n e i (by omega)]
  push_cast; ring

/-- the list over ℝ -/
theorem linspace_real (a b : ℝ) (n : ℕ) (e : Bool) :
    linspace a b n e = (List.range n).map (fun i : ℕ => a + (i : ℝ) * linStep a b n e) := by
  unfold linspace
  apply List.map_congr_left
  intro i hi
  exact linspaceAt_real a b n e i (List.mem_range.mp hi)

/-! ### the ceiling gives a step not larger than the resolution -/

/-- `L / ⌈L / r⌉ ≤ r`: dividing a length `L ≥ 0` into `⌈L/r⌉` parts gives parts not longer than `r` -/
theorem div_ceil_le (L r : ℝ) (hL : 0 ≤ L) (hr : 0 < r) : L / (⌈L / r⌉ : ℝ) ≤ r := by
  have h1 : L / r ≤ (⌈L / r⌉ : ℝ) := Int.le_ceil _
  by_cases hc : (⌈L / r⌉ : ℝ) = 0
  · rw [hc, div_zero]; exact hr.le
  · have hpos : 0 < (⌈L / r⌉ : ℝ) := by
      have : 0 ≤ L / r := div_nonneg hL hr.le
      exact lt_of_le_of_ne (le_trans this h1) (Ne.symm hc)
    rw [div_le_iff₀ hpos]
    have := (div_le_iff₀ hr).mp h1
    linarith

theorem ceil_pos_of_pos {x : ℝ} (hx : 0 < x) : 0 < ⌈x⌉ := Int.ceil_pos.mpr hx

/-! ### covering by an equispaced grid -/

/-- every `x ∈ [0, L]` is within half a step of one of the `M + 1` nodes `i·(L/M)`, `i = 0..M` -/
theorem grid_cover (M : ℕ) (hM : 0 < M) (L : ℝ) (hL : 0 ≤ L) (x : ℝ) (hx0 : 0 ≤ x) (hxL : x ≤ L) :
    ∃ i : ℕ, i ≤ M ∧ |x - (i : ℝ) * (L / M)| ≤ (L / M) / 2 := by
  have hMr : (0 : ℝ) < M := by exact_mod_cast hM
  rcases eq_or_lt_of_le hL with hL0 | hLpos
  · refine ⟨0, Nat.zero_le _, ?_⟩
    have : x = 0 := le_antisymm (by rw [hL0]; exact hxL) hx0
    subst this; simp [← hL0]
  · have hh : 0 < L / M := div_pos hLpos hMr
    set t := x / (L / M) with ht
    have ht0 : 0 ≤ t := div_nonneg hx0 hh.le
    have htM : t ≤ M := by
      rw [ht, div_le_iff₀ hh]
      have : (M : ℝ) * (L / M) = L := by field_simp
      linarith
    have hr := abs_sub_round t
    have hlo : (-1 : ℝ) < round t := by
      have := (abs_le.mp hr).2
      linarith
    have hhi : (round t : ℝ) < M + 1 := by
      have := (abs_le.mp hr).1
      linarith
    have hlo' : 0 ≤ round t := by
      have : (-1 : ℤ) < round t := by exact_mod_cast hlo
      omega
    have hhi' : round t ≤ M := by
      have : round t < (M : ℤ) + 1 := by exact_mod_cast hhi
      omega
    refine ⟨(round t).toNat, ?_, ?_⟩
    · omega
    · have hc : (((round t).toNat : ℕ) : ℝ) = (round t : ℝ) := by
        have : (((round t).toNat : ℕ) : ℤ) = round t := Int.toNat_of_nonneg hlo'
        exact_mod_cast this
      rw [hc]
      have hx : x = t * (L / M) := by rw [ht]; field_simp
      rw [hx, ← sub_mul, abs_mul, abs_of_pos hh]
      calc |t - round t| * (L / M) ≤ 1 / 2 * (L / M) := mul_le_mul_of_nonneg_right hr hh.le
        _ = L / M / 2 := by ring

end Orix.SamplingLemmas
