import OrixProofs.Lemmas.NDArrayNat
/-
Objects and programs: `Obj.map`, homomorphisms of element-wise operations, naturality of every step and of
every program (induction over the program), the "split = joint" lemma (data columns and improper flags are
moved by the same index map).
-/
namespace Orix
open NDArray

variable {ε ε' : Type}

/-- apply `g` to the data part of every element (flags and metadata untouched) -/
def Obj.map (g : ε → ε') (O : Obj ε) : Obj ε' := ⟨O.cls, O.arr.map (Prod.map g id), O.md⟩

def Op.map (g : ε → ε') : Op ε → Op ε'
  | .getitem k => .getitem k
  | .reshape d => .reshape d
  | .flatten => .flatten
  | .transpose ax => .transpose ax
  | .squeeze => .squeeze
  | .stack pos others => .stack pos (others.map (NDArray.map (Prod.map g id)))
  | .unit => .unit
  | .inv => .inv
  | .neg => .neg

/-- `g` commutes with the element-wise operations -/
structure ElemHom (E : ElemOps ε) (E' : ElemOps ε') (g : ε → ε') : Prop where
  unit : ∀ x, g (E.unit x) = E'.unit (g x)
  inv : ∀ x, g (E.inv x) = E'.inv (g x)
  neg : ∀ x, g (E.neg x) = E'.neg (g x)

/-- an operation on arrays that only moves elements -/
def Natural (f : {γ : Type} → NDArray γ → Except NDErr (NDArray γ)) : Prop :=
  ∀ {γ δ : Type} (h : γ → δ) (X : NDArray γ), f (X.map h) = emap (NDArray.map h) (f X)

namespace NDArray
variable {α β γ : Type}

theorem map_map (f : α → β) (g : β → γ) (A : NDArray α) : (A.map f).map g = A.map (g ∘ f) := by
  simp [NDArray.map, List.map_map]

theorem zip_map (g : α → β) (D : NDArray α) (F : NDArray γ) :
    NDArray.zip (D.map g) F = (NDArray.zip D F).map (NDArray.map (Prod.map g id)) := by
  unfold NDArray.zip
  simp only [map_shape, map_data]
  by_cases h : D.shape = F.shape
  · simp only [h, if_true, Option.map_some, NDArray.map]
    congr 2
    simp [List.zip_map_left]
  · simp [h]

theorem zip_fst_snd (Z : NDArray (α × β)) : NDArray.zip (Z.map Prod.fst) (Z.map Prod.snd) = some Z := by
  unfold NDArray.zip
  simp only [map_shape, map_data, if_true]
  congr 2
  induction Z.data with
  | nil => rfl
  | cons x r ih => simp [ih]

end NDArray

namespace Obj

theorem split_map (g : ε → ε') (c : Cls)
    (fD fF : {γ : Type} → NDArray γ → Except NDErr (NDArray γ)) (hD : Natural @fD) (A : NDArray (ε × Bool)) :
    split c fD fF (A.map (Prod.map g id)) = emap (NDArray.map (Prod.map g id)) (split c fD fF A) := by
  unfold split
  have h1 : (A.map (Prod.map g id)).map Prod.fst = (A.map Prod.fst).map g := by
    simp [NDArray.map_map, Function.comp_def]
  have h2 : (A.map (Prod.map g id)).map Prod.snd = A.map Prod.snd := by
    simp [NDArray.map_map, Function.comp_def]
  dsimp only
  rw [h1, h2, hD g]
  cases fD (A.map Prod.fst) with
  | error e => rfl
  | ok D =>
    simp only [emap_ok, bind, Except.bind]
    cases c.isRot with
    | false =>
      simp only [Bool.false_eq_true, if_false, emap_ok, NDArray.map_map]
      rfl
    | true =>
      simp only [if_true]
      cases fF (A.map Prod.snd) with
      | error e => rfl
      | ok F =>
        simp only [NDArray.zip_map]
        cases NDArray.zip D F <;> rfl

/-- both paths of `split` run the same natural operation: the result is that operation applied to the
widened array (classes without flags: with all flags cleared) -/
theorem split_joint (c : Cls) (f : {γ : Type} → NDArray γ → Except NDErr (NDArray γ)) (hf : Natural @f)
    (A : NDArray (ε × Bool)) :
    split c f f A = emap (fun B => if c.isRot then B else B.map (fun e => (e.1, false))) (f A) := by
  unfold split
  dsimp only
  rw [hf Prod.fst, hf Prod.snd]
  cases f A with
  | error e => rfl
  | ok B =>
    simp only [emap_ok, bind, Except.bind]
    cases c.isRot with
    | false => simp [NDArray.map_map, Function.comp_def]
    | true => simp [NDArray.zip_fst_snd]

theorem natural_getitem (k : Key) : Natural (fun {γ} (A : NDArray γ) => NDArray.getitem k A) :=
  fun h X => getitem_map h k X
theorem natural_flatten : Natural (fun {γ} (A : NDArray γ) => NDArray.flatten A) :=
  fun h X => flatten_map h X
theorem natural_transpose (e : Nat) (ax : Option (List Int)) :
    Natural (fun {γ} (A : NDArray γ) => NDArray.transpose e ax A) :=
  fun h X => transpose_map h e ax X

@[simp] theorem map_cls (g : ε → ε') (O : Obj ε) : (O.map g).cls = O.cls := rfl
@[simp] theorem map_md (g : ε → ε') (O : Obj ε) : (O.map g).md = O.md := rfl
@[simp] theorem map_arr (g : ε → ε') (O : Obj ε) : (O.map g).arr = O.arr.map (Prod.map g id) := rfl

theorem step_map {E : ElemOps ε} {E' : ElemOps ε'} {g : ε → ε'} (hg : ElemHom E E' g) (O : Obj ε) (op : Op ε) :
    (O.map g).step E' (op.map g) = emap (Obj.map g) (O.step E op) := by
  cases op with
  | getitem k =>
    simp only [step, Op.map, getitem, map_cls, map_arr, split_map g O.cls _ _ (natural_getitem k)]
    cases split O.cls _ _ O.arr <;> rfl
  | reshape d =>
    simp only [step, Op.map, reshape, map_arr, reshape_map]
    cases NDArray.reshape d O.arr <;> rfl
  | flatten =>
    simp only [step, Op.map, flatten, map_cls, map_arr, split_map g O.cls _ _ natural_flatten]
    cases split O.cls _ _ O.arr <;> rfl
  | transpose ax =>
    simp only [step, Op.map, transpose, map_cls, map_arr, split_map g O.cls _ _ (natural_transpose 1 ax)]
    cases split O.cls _ _ O.arr <;> rfl
  | squeeze =>
    simp only [step, Op.map, squeeze, emap_ok, Obj.map, squeeze_map]
  | stack pos others =>
    simp only [step, Op.map, stack, map_arr]
    have : List.take pos (others.map (NDArray.map (Prod.map g id))) ++
        O.arr.map (Prod.map g id) :: List.drop pos (others.map (NDArray.map (Prod.map g id))) =
        (List.take pos others ++ O.arr :: List.drop pos others).map (NDArray.map (Prod.map g id)) := by
      simp [List.map_take, List.map_drop]
    rw [this, stack_map]
    cases NDArray.stack (List.take pos others ++ O.arr :: List.drop pos others) <;> rfl
  | unit =>
    simp only [step, Op.map, unit, emap_ok, Obj.map, unitMeta, orientationMeta, NDArray.map_map]
    congr 2
    simp only [NDArray.map, NDArray.mk.injEq, true_and]
    apply List.map_congr_left
    intro x _
    simp [hg.unit]
  | inv =>
    simp only [step, Op.map, inv, map_cls]
    by_cases hq : O.cls.isQuat = true
    case neg => simp only [hq]; rfl
    case pos =>
      simp only [hq, if_true, emap_ok, Obj.map, orientationMeta, NDArray.map_map]
      congr 2
      simp only [NDArray.map, NDArray.mk.injEq, true_and]
      apply List.map_congr_left
      intro x _
      simp [hg.inv]
  | neg =>
    simp only [step, Op.map, neg, map_cls]
    by_cases hq : O.cls.isRot = true
    case neg =>
      have hq' : O.cls.isRot = false := by simpa using hq
      simp only [hq', Bool.false_eq_true, if_false, emap_ok, Obj.map, NDArray.map_map]
      congr 2
      simp only [NDArray.map, NDArray.mk.injEq, true_and]
      apply List.map_congr_left
      intro x _
      simp [hg.neg]
    case pos =>
      simp only [hq, if_true, emap_ok, Obj.map, unitMeta, orientationMeta, NDArray.map_map]
      rfl

theorem run_map {E : ElemOps ε} {E' : ElemOps ε'} {g : ε → ε'} (hg : ElemHom E E' g) (prog : List (Op ε)) :
    ∀ O : Obj ε, (O.map g).run E' (prog.map (Op.map g)) = emap (Obj.map g) (O.run E prog) := by
  induction prog with
  | nil => intro O; rfl
  | cons op r ih =>
    intro O
    simp only [List.map_cons, run, step_map hg]
    cases O.step E op with
    | error e => rfl
    | ok O' => exact ih O'

/-! ### metadata bookkeeping -/

end Obj

def Op.isStack : Op ε → Bool | .stack _ _ => true | _ => false
def Op.isInv : Op ε → Bool | .inv => true | _ => false
def Op.isNeg : Op ε → Bool | .neg => true | _ => false
def Op.isSqueeze : Op ε → Bool | .squeeze => true | _ => false
def Meta.swap (m : Meta) : Meta := { m with symL := m.symR, symR := m.symL }

/-- what the property asks of the metadata after one operation on a single object: unchanged, except that the
inverse of a misorientation carries the swapped symmetry pair -/
def expectedMeta (c : Cls) (op : Op ε) (m : Meta) : Meta :=
  if op.isInv = true ∧ c = .misorientation then m.swap else m

/-- `Orientation` objects carry `(C1, symmetry)` (the public setter stores exactly that) -/
def MetaOK (O : Obj ε) : Prop := O.cls = .orientation → O.md.symL = 0

/-- metadata after a whole program without `stack` -/
def expectedMetaRun (c : Cls) : List (Op ε) → Meta → Meta
  | [], m => m
  | op :: r, m => expectedMetaRun c r (expectedMeta c op m)

namespace Obj

/-! ### the index object: elements replaced by (source position, history of element-wise operations) -/

end Obj

theorem evalSym_hom (E : ElemOps ε) (lookup : Nat → ε) : ElemHom symOps E (evalSym E lookup) :=
  ⟨fun _ => rfl, fun _ => rfl, fun _ => rfl⟩

namespace Obj

/-- the index array of an object: element `k` (C order) becomes the symbol "source `k`, nothing applied yet";
flags and metadata are kept -/
def indexObj (O : Obj ε) : Obj SymE :=
  ⟨O.cls, ⟨O.arr.shape, O.arr.data.zipIdx.map (fun p => ((⟨p.2, []⟩ : SymE), p.1.2))⟩, O.md⟩

theorem indexObj_eval (E : ElemOps ε) (O : Obj ε) (lookup : Nat → ε)
    (h : ∀ k e, O.arr.data[k]? = some e → lookup k = e.1) :
    (indexObj O).map (evalSym E lookup) = O := by
  cases O with
  | mk c arr md =>
    cases arr with
    | mk sh d =>
      simp only [indexObj, Obj.map, NDArray.map, List.map_map, Obj.mk.injEq, NDArray.mk.injEq, true_and, and_true]
      apply List.ext_getElem?
      intro k
      simp only [List.getElem?_map, List.getElem?_zipIdx, Function.comp_def]
      cases hk : d[k]? with
      | none => rfl
      | some e =>
        simp only [Option.map_some, Prod.map, evalSym, List.foldr_nil, id, Nat.zero_add]
        rw [h k e hk]

end Obj
end Orix
