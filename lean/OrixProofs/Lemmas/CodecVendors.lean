import OrixProofs.Lemmas.CodecAngMain
import OrixModel.Codec.AngVendors
set_option linter.unusedSimpArgs false
set_option linter.unusedVariables false
/-
Lemmas shared by the vendor format descriptions (C15): a row written column by column from a point is read
back as that point for *any* table of column names; reconciliation of header phases with data ids.
-/
namespace Orix.Codec.Ang
open Orix.Codec Orix.Gen.Io

theorem getCol_map (names : List Str) (f : Str → Int) (k : Str) (hk : k ∈ names) :
    getCol names (names.map f) k = some (f k) := by
  unfold getCol
  induction names with
  | nil => simp at hk
  | cons a r ih =>
    simp only [List.map_cons, List.zip_cons_cons, lookupStr]
    by_cases h : a = k
    · subst h; simp
    · have hk' : k ∈ r := by
        rcases List.mem_cons.1 hk with h' | h'
        · exact absurd h'.symm h
        · exact h'
      have hne : (a == k) = false := by simpa using h
      simp [hne, ih hk']

theorem field_prop (props : List Str) (p : Pt) (k : Str) (hk : k ∉ specialNames) :
    field props p k = (lookupStr k (props.zip p.vals)).getD 0 := by
  have h1 : k ≠ S "euler1" := fun h => hk (by subst h; decide)
  have h2 : k ≠ S "euler2" := fun h => hk (by subst h; decide)
  have h3 : k ≠ S "euler3" := fun h => hk (by subst h; decide)
  have h4 : k ≠ S "x" := fun h => hk (by subst h; decide)
  have h5 : k ≠ S "y" := fun h => hk (by subst h; decide)
  have h6 : k ≠ S "phase_id" := fun h => hk (by subst h; decide)
  simp [field, h1, h2, h3, h4, h5, h6]

theorem field_special (props : List Str) (p : Pt) :
    field props p (S "x") = p.x ∧ field props p (S "y") = p.y ∧ field props p (S "phase_id") = p.phaseId ∧
    field props p (S "euler1") = p.eu.p1 ∧ field props p (S "euler2") = p.eu.pp ∧
    field props p (S "euler3") = p.eu.p2 := by
  refine ⟨?_, ?_, ?_, ?_, ?_, ?_⟩ <;> simp [field, S]

/-- **one row, any column table**: writing a point column by column under the names `names` and reading it
with the same names gives the point back — provided the table names the six non-property columns, the
property names are distinct and are not among the six -/
theorem rowToPt_field (names props : List Str) (p : Pt)
    (hs : ∀ s ∈ specialNames, s ∈ names) (hp : ∀ k ∈ props, k ∈ names ∧ k ∉ specialNames)
    (hn : props.Nodup) (hl : props.length = p.vals.length) :
    rowToPt names props (names.map (field props p)) = some p := by
  obtain ⟨fx, fy, fph, f1, f2, f3⟩ := field_special props p
  have hx := getCol_map names (field props p) (S "x") (hs _ (by decide))
  have hy := getCol_map names (field props p) (S "y") (hs _ (by decide))
  have hph := getCol_map names (field props p) (S "phase_id") (hs _ (by decide))
  have h1 := getCol_map names (field props p) (S "euler1") (hs _ (by decide))
  have h2 := getCol_map names (field props p) (S "euler2") (hs _ (by decide))
  have h3 := getCol_map names (field props p) (S "euler3") (hs _ (by decide))
  have hv : props.mapM (getCol names (names.map (field props p))) = some p.vals := by
    have hz := mapM_lookup_zip props p.vals hl hn [] (by simp)
    simp only [List.nil_append] at hz
    have hm := mapM_getD (fun k => lookupStr k (props.zip p.vals)) 0 props p.vals hz
    rw [mapM_eq_some_map _ (fun k => (lookupStr k (props.zip p.vals)).getD 0) props
      (fun k hk => by rw [getCol_map names _ k (hp k hk).1, field_prop props p k (hp k hk).2])]
    rw [hm]
  unfold rowToPt
  rw [hx, hy, hph, h1, h2, h3, hv, fx, fy, fph, f1, f2, f3]

/-! ### reconciliation when the header numbers the phases differently from the data -/

theorem rekey_length (u : List Int) (pl : List PhaseInfo) (h : u.length = pl.length) :
    (rekey u pl).map (·.id) = u := by
  induction u generalizing pl with
  | nil => cases pl <;> simp [rekey] at h ⊢
  | cons a r ih =>
    cases pl with
    | nil => simp at h
    | cons p ps => simp [rekey, ih ps (by simpa using h)]

/-- `reconcile` when header and data have the same number of phases: the header phases take the ids that
occur in the data (in ascending order), `not_indexed` is added iff -1 occurs -/
theorem reconcile_rekey (ids : List Int) (pl : List PhaseInfo) (u : List Int) (ni : Bool)
    (hu : uniqSorted ids = (if ni then [(-1 : Int)] else []) ++ u) (hpos : ∀ a ∈ u, (-1 : Int) < a)
    (hl : pl.length = u.length) (hne : ∀ p ∈ pl, p.id ≠ -1) :
    reconcile ids pl = some ((if ni then [notIndexedPhase] else []) ++ rekey u pl) := by
  have hfil : pl.filter (fun x => x.id != -1) = pl := by
    rw [List.filter_eq_self]
    intro p hp
    simpa using hne p hp
  cases ni with
  | false =>
    have hh : (u.head? == some (-1 : Int)) = false := by
      cases u with
      | nil => rfl
      | cons a r =>
        have := hpos a (by simp)
        have hne : a ≠ -1 := by omega
        simp [hne]
    simp only [Bool.false_eq_true, if_false, List.nil_append] at hu ⊢
    simp only [reconcile, hfil, hu, hh, Bool.false_eq_true, if_false, hl, lt_irrefl, Nat.sub_self, dropSuperfluous,
      List.reverse_reverse]
  | true =>
    simp only [if_true, List.singleton_append] at hu ⊢
    simp [reconcile, hfil, hu, hl, dropSuperfluous]

/-- two phase lists that agree up to ids -/
def sameUpToId (a b : List PhaseInfo) : Prop :=
  a.map (fun p => { p with id := 0 }) = b.map (fun p => { p with id := 0 })

theorem rekey_sameUpToId (real pl : List PhaseInfo) (h : sameUpToId pl real) :
    rekey (real.map (·.id)) pl = real := by
  unfold sameUpToId at h
  induction real generalizing pl with
  | nil =>
    cases pl with
    | nil => rfl
    | cons p ps => simp at h
  | cons r rs ih =>
    cases pl with
    | nil => simp at h
    | cons p ps =>
      simp only [List.map_cons, List.cons.injEq] at h
      simp only [List.map_cons, rekey, ih ps h.2, List.cons.injEq, and_true]
      have := h.1
      cases p; cases r
      simp only [PhaseInfo.mk.injEq] at this ⊢
      simp [this]

/-- phases sorted by id stay as they are -/
theorem sortById_sorted (l : List PhaseInfo) (h : (l.map (·.id)).Pairwise (· < ·)) : sortById l = l := by
  induction l with
  | nil => rfl
  | cons p r ih =>
    have hr := ih (List.Pairwise.of_cons h)
    have : sortById (p :: r) = insertById p (sortById r) := rfl
    rw [this, hr]
    cases r with
    | nil => rfl
    | cons q rs =>
      have hpq : p.id < q.id := List.rel_of_pairwise_cons h (by simp)
      simp [insertById, le_of_lt hpq]

/-! ### vendor headers -/

/-- what links a phase of the map with its header block -/
structure BlockOK (f : AngFmt) (p : PhaseInfo) (x : PhaseX) : Prop where
  mat : x.mat ≠ []
  sym : ∃ c, resolvePG angReader.aliases angReader.groups x.sym = some c ∧ p.pg = some c
  sg : p.sg = none
  atoms : p.atoms = []
  id : 0 ≤ p.id
  /-- ASTAR has no `Formula`: the material name is the phase name; elsewhere the formula (one word) is -/
  name : if f = .astar then joinSp x.mat = p.name else p.name ≠ []

theorem hdr_vendorBlocks (f : AngFmt) (ps : List PhaseInfo) (xs : List PhaseX)
    (h : List.Forall₂ (BlockOK f) ps xs) :
    hdrIds (vendorBlocks f ps xs) = (if f = .astar then [] else ps.map (·.id.toNat)) ∧
    hdrNames (vendorBlocks f ps xs) = xs.map (fun x => joinSp x.mat) ∧
    hdrFormulas (vendorBlocks f ps xs) = (if f = .astar then [] else ps.map (·.name)) ∧
    hdrSyms (vendorBlocks f ps xs) = xs.map (·.sym) ∧
    hdrLattices (vendorBlocks f ps xs) = ps.map (·.lattice) := by
  induction h with
  | nil => cases f <;> simp [vendorBlocks, hdrIds, hdrNames, hdrFormulas, hdrSyms, hdrLattices]
  | @cons p x ps xs hpx _ ih =>
    obtain ⟨h1, h2, h3, h4, h5⟩ := ih
    obtain ⟨t, ts, hmat⟩ : ∃ t ts, x.mat = t :: ts := by
      cases hm : x.mat with
      | nil => exact absurd hm hpx.mat
      | cons t ts => exact ⟨t, ts, rfl⟩
    simp only [vendorBlocks, hdrIds_append, hdrNames_append, hdrFormulas_append, hdrSyms_append,
      hdrLattices_append, h1, h2, h3, h4, h5]
    cases f <;>
      simp [vendorBlock, hdrIds, hdrNames, hdrFormulas, hdrSyms, hdrLattices, hmat, joinSp]

theorem zipPhases_vendor (ids : List Nat) (f : AngFmt) (ps : List PhaseInfo) (xs : List PhaseX)
    (h : List.Forall₂ (BlockOK f) ps xs) (hl : ids.length = ps.length) :
    zipPhases angReader ids (ps.map (·.name)) (xs.map (·.sym)) (ps.map (·.lattice))
      = some (rekey (ids.map Int.ofNat) ps) := by
  induction h generalizing ids with
  | nil =>
    cases ids with
    | nil => rfl
    | cons i is => simp at hl
  | @cons p x ps xs hpx _ ih =>
    cases ids with
    | nil => simp at hl
    | cons i is =>
      obtain ⟨c, hc, hpg⟩ := hpx.sym
      have := ih is (by simpa using hl)
      simp only [List.map_cons, zipPhases, hc, this, rekey]
      congr 2
      cases p
      simp only [PhaseInfo.mk.injEq] at *
      simp_all [BlockOK.sg hpx, BlockOK.atoms hpx]
      exact ⟨(BlockOK.sg hpx).symm, BlockOK.atoms hpx⟩

theorem rekey_rekey (u v : List Int) (pl : List PhaseInfo) (h1 : u.length = v.length) (h2 : v.length = pl.length) :
    rekey u (rekey v pl) = rekey u pl := by
  induction u generalizing v pl with
  | nil => cases v <;> cases pl <;> simp [rekey] at h1 h2 ⊢
  | cons a r ih =>
    cases v with
    | nil => simp at h1
    | cons b s =>
      cases pl with
      | nil => simp at h2
      | cons p ps => simp [rekey, ih s ps (by simpa using h1) (by simpa using h2)]

theorem rekey_len (u : List Int) (pl : List PhaseInfo) (h : u.length = pl.length) :
    (rekey u pl).length = pl.length := by
  induction u generalizing pl with
  | nil => cases pl <;> simp [rekey] at h ⊢
  | cons a r ih =>
    cases pl with
    | nil => simp at h
    | cons p ps => simp [rekey, ih ps (by simpa using h)]

theorem forall₂_len {α β} {R : α → β → Prop} {a : List α} {b : List β} (h : List.Forall₂ R a b) :
    a.length = b.length := forall₂_length h

theorem findMark_mem (t : ReaderTables) (v : Vendor) (hv : v ≠ .orix) (h : List HLine)
    (hm : HLine.mark v ∈ h) : findMark t v h = some none := by
  induction h with
  | nil => simp at hm
  | cons x r ih =>
    by_cases hx : x = HLine.mark v
    · subst hx; simp [findMark]
    · have hr : HLine.mark v ∈ r := by
        rcases List.mem_cons.1 hm with h' | h'
        · exact absurd h'.symm hx
        · exact h'
      have ih' := ih hr
      cases x <;> simp [findMark, ih', hv]

theorem findMark_absent (t : ReaderTables) (v : Vendor) (h : List HLine)
    (hm : HLine.mark v ∉ h) (hc : v = .orix → ∀ x ∈ h, isColNames x = false) : findMark t v h = none := by
  induction h with
  | nil => rfl
  | cons x r ih =>
    have ih' := ih (fun hx => hm (by simp [hx])) (fun hv y hy => hc hv y (by simp [hy]))
    cases x <;> simp [findMark, ih']
    · rename_i names
      intro hv
      have := hc hv (.columnNames names) (by simp)
      simp [isColNames] at this
    · rename_i w
      intro hw
      exact absurd (by simp [hw]) hm

/-- lines of a vendor header apart from `.mark` lines: no orix `Column names:` line anywhere -/
theorem vendorBlocks_lines (f : AngFmt) (ps : List PhaseInfo) (xs : List PhaseX) :
    ∀ l ∈ vendorBlocks f ps xs, isColNames l = false ∧ (∀ v, l = .mark v → v = .emsoft ∧ f = .emsoft) := by
  induction ps generalizing xs with
  | nil => simp [vendorBlocks]
  | cons p ps ih =>
    cases xs with
    | nil => simp [vendorBlocks]
    | cons x xs =>
      intro l hl
      simp only [vendorBlocks, List.mem_append] at hl
      rcases hl with hl | hl
      · cases f <;> simp [vendorBlock] at hl <;>
          rcases hl with rfl | rfl | rfl | rfl | rfl | rfl | rfl <;> simp [isColNames]
      · exact ih xs l hl

theorem vendorBlocks_mark (ps : List PhaseInfo) (xs : List PhaseX) (hne : ps ≠ []) (hl : ps.length = xs.length) :
    HLine.mark .emsoft ∈ vendorBlocks .emsoft ps xs := by
  cases ps with
  | nil => exact absurd rfl hne
  | cons p ps =>
    cases xs with
    | nil => simp at hl
    | cons x xs => simp [vendorBlocks, vendorBlock]

theorem blocks_names_astar (ps : List PhaseInfo) (xs : List PhaseX)
    (h : List.Forall₂ (BlockOK AngFmt.astar) ps xs) : xs.map (fun x => joinSp x.mat) = ps.map (·.name) := by
  induction h with
  | nil => rfl
  | cons hpx _ ih => simp [ih, (by simpa using hpx.name : joinSp _ = _)]

theorem blocks_names_nonempty (f : AngFmt) (hf : f ≠ AngFmt.astar) (ps : List PhaseInfo) (xs : List PhaseX)
    (h : List.Forall₂ (BlockOK f) ps xs) : ∀ p ∈ ps, p.name ≠ [] := by
  induction h with
  | nil => simp
  | cons hpx _ ih =>
    intro p hp
    rcases List.mem_cons.1 hp with rfl | hp
    · have := hpx.name
      simpa [hf] using this
    · exact ih p hp

theorem blocks_ids_nonneg (f : AngFmt) (ps : List PhaseInfo) (xs : List PhaseX)
    (h : List.Forall₂ (BlockOK f) ps xs) : ∀ p ∈ ps, 0 ≤ p.id := by
  induction h with
  | nil => simp
  | cons hpx _ ih =>
    intro p hp
    rcases List.mem_cons.1 hp with rfl | hp
    · exact hpx.id
    · exact ih p hp

end Orix.Codec.Ang
