import Mathlib.Tactic.Ring
import Mathlib.Tactic.Linarith
import Mathlib.Tactic.LinearCombination
import Mathlib.Analysis.SpecialFunctions.Trigonometric.Inverse
import OrixProofs.Lemmas.RealScalar
import OrixModel.Quat
/-
Symmetry-reduced dot products (C04, C06): suprema over finite lists of group elements, the cyclic
trace identity behind "reduced dot = brute-force maximum over equivalent pairs", and groups up to sign.
-/
namespace Orix.Dis
open Orix

/-- maximum of a list of non-negative reals (0 for the empty list) -/
noncomputable def maxL : List ℝ → ℝ
  | [] => 0
  | x :: xs => max x (maxL xs)

theorem maxL_nonneg : ∀ l : List ℝ, 0 ≤ maxL l
  | [] => le_refl _
  | _ :: xs => le_max_of_le_right (maxL_nonneg xs)

theorem le_maxL_of_mem : ∀ {l : List ℝ} {v : ℝ}, v ∈ l → v ≤ maxL l
  | x :: xs, v, h => by
    rcases List.mem_cons.mp h with rfl | h'
    · exact le_max_left _ _
    · exact le_max_of_le_right (le_maxL_of_mem h')

theorem maxL_le : ∀ {l : List ℝ} {b : ℝ}, 0 ≤ b → (∀ v ∈ l, v ≤ b) → maxL l ≤ b
  | [], _, hb, _ => hb
  | x :: xs, b, hb, h => max_le (h x (by simp)) (maxL_le hb (fun v hv => h v (List.mem_cons_of_mem _ hv)))

/-- two lists that dominate each other element-wise have the same maximum -/
theorem maxL_eq_of_cofinal {l1 l2 : List ℝ} (h12 : ∀ v ∈ l1, ∃ w ∈ l2, v ≤ w) (h21 : ∀ w ∈ l2, ∃ v ∈ l1, w ≤ v) :
    maxL l1 = maxL l2 := by
  apply le_antisymm
  · apply maxL_le (maxL_nonneg _)
    intro v hv; obtain ⟨w, hw, h⟩ := h12 v hv; exact le_trans h (le_maxL_of_mem hw)
  · apply maxL_le (maxL_nonneg _)
    intro w hw; obtain ⟨v, hv, h⟩ := h21 w hw; exact le_trans h (le_maxL_of_mem hv)

/-- the maximum is attained (or the list has only values ≤ 0 and the maximum is 0) -/
theorem maxL_mem_or_zero : ∀ l : List ℝ, maxL l ∈ l ∨ maxL l = 0
  | [] => Or.inr rfl
  | x :: xs => by
    rcases maxL_mem_or_zero xs with h | h
    · rcases le_total x (maxL xs) with hx | hx
      · left; simp only [maxL, max_eq_right hx]; exact List.mem_cons_of_mem _ h
      · left; simp only [maxL, max_eq_left hx]; exact List.mem_cons_self
    · rcases le_total x (maxL xs) with hx | hx
      · right; simp only [maxL, max_eq_right hx]; exact h
      · left; simp only [maxL, max_eq_left hx]; exact List.mem_cons_self

/-! ### quaternion identities -/

theorem dot_comm (p q : Quat ℝ) : Quat.dot p q = Quat.dot q p := by simp only [Quat.dot]; ring
theorem dot_neg_right (p q : Quat ℝ) : Quat.dot p (Quat.neg q) = -Quat.dot p q := by
  simp only [Quat.dot, Quat.neg]; ring
theorem dot_neg_left (p q : Quat ℝ) : Quat.dot (Quat.neg p) q = -Quat.dot p q := by
  simp only [Quat.dot, Quat.neg]; ring
/-- the cyclic-trace identity: `(g₂O₂)·(g₁O₁) = (O₂ O₁*)·(g₂* g₁)` -/
theorem dot_mul_mul (g2 O2 g1 O1 : Quat ℝ) :
    Quat.dot (Quat.mul g2 O2) (Quat.mul g1 O1) =
      Quat.dot (Quat.mul O2 (Quat.conj O1)) (Quat.mul (Quat.conj g2) g1) := by
  simp only [Quat.dot, Quat.mul, Quat.conj]; ring
/-- `(a M b)·(c N d) = ((c* a) M (b d*))·N` for misorientations with two-sided symmetry -/
theorem dot_two_sided (a M b c N d : Quat ℝ) :
    Quat.dot (Quat.mul (Quat.mul a M) b) (Quat.mul (Quat.mul c N) d) =
      Quat.normSq c * Quat.normSq d * 0 +
      Quat.dot (Quat.mul (Quat.mul (Quat.mul (Quat.conj c) a) M) (Quat.mul b (Quat.conj d))) N := by
  simp only [Quat.dot, Quat.mul, Quat.conj, Quat.normSq]; ring
theorem dot_le_one (p q : Quat ℝ) (hp : Quat.normSq p = 1) (hq : Quat.normSq q = 1) : |Quat.dot p q| ≤ 1 := by
  have hp' : p.a * p.a + p.b * p.b + p.c * p.c + p.d * p.d = 1 := hp
  have hq' : q.a * q.a + q.b * q.b + q.c * q.c + q.d * q.d = 1 := hq
  rw [abs_le]
  simp only [Quat.dot]
  constructor <;> nlinarith [sq_nonneg (p.a - q.a), sq_nonneg (p.b - q.b), sq_nonneg (p.c - q.c), sq_nonneg (p.d - q.d),
    sq_nonneg (p.a + q.a), sq_nonneg (p.b + q.b), sq_nonneg (p.c + q.c), sq_nonneg (p.d + q.d)]
theorem dot_self (p : Quat ℝ) : Quat.dot p p = Quat.normSq p := rfl
theorem conj_conj (p : Quat ℝ) : Quat.conj (Quat.conj p) = p := by cases p; simp [Quat.conj]
theorem conj_mul (p q : Quat ℝ) : Quat.conj (Quat.mul p q) = Quat.mul (Quat.conj q) (Quat.conj p) := by
  simp only [Quat.conj, Quat.mul]; congr 1 <;> ring
theorem mul_assoc (p q r : Quat ℝ) : Quat.mul (Quat.mul p q) r = Quat.mul p (Quat.mul q r) := by
  simp only [Quat.mul]; congr 1 <;> ring
theorem one_mul (q : Quat ℝ) : Quat.mul Quat.one q = q := by
  cases q; simp only [Quat.mul, Quat.one, lit_real]; congr 1 <;> simp
theorem mul_one (q : Quat ℝ) : Quat.mul q Quat.one = q := by
  cases q; simp only [Quat.mul, Quat.one, lit_real]; congr 1 <;> simp
theorem conj_one : Quat.conj (Quat.one : Quat ℝ) = Quat.one := by
  simp [Quat.conj, Quat.one]
theorem neg_mul (p q : Quat ℝ) : Quat.mul (Quat.neg p) q = Quat.neg (Quat.mul p q) := by
  simp only [Quat.mul, Quat.neg]; congr 1 <;> ring
theorem mul_neg (p q : Quat ℝ) : Quat.mul p (Quat.neg q) = Quat.neg (Quat.mul p q) := by
  simp only [Quat.mul, Quat.neg]; congr 1 <;> ring
theorem conj_neg (p : Quat ℝ) : Quat.conj (Quat.neg p) = Quat.neg (Quat.conj p) := by
  simp only [Quat.conj, Quat.neg]
theorem neg_neg (p : Quat ℝ) : Quat.neg (Quat.neg p) = p := by cases p; simp [Quat.neg]

/-! ### rotation groups up to sign (a rotation is `±q` with a properness flag) -/

/-- `r` is in `L` as a rotation: same flag, quaternion equal up to sign -/
def SMem (r : Rot ℝ) (L : List (Rot ℝ)) : Prop :=
  ∃ s ∈ L, s.improper = r.improper ∧ (s.q = r.q ∨ s.q = Quat.neg r.q)

/-- conjugate (inverse of a unit rotation) -/
noncomputable def rconj (r : Rot ℝ) : Rot ℝ := ⟨Quat.conj r.q, r.improper⟩

/-- equality of quaternions up to sign -/
def PM (a b : Quat ℝ) : Prop := a = b ∨ a = Quat.neg b
theorem PM.refl (a : Quat ℝ) : PM a a := Or.inl rfl
theorem PM.mul_right {a b : Quat ℝ} (h : PM a b) (c : Quat ℝ) : PM (Quat.mul a c) (Quat.mul b c) := by
  rcases h with h | h
  · exact Or.inl (by rw [h])
  · exact Or.inr (by rw [h, neg_mul])
theorem PM.mul_left {a b : Quat ℝ} (h : PM a b) (c : Quat ℝ) : PM (Quat.mul c a) (Quat.mul c b) := by
  rcases h with h | h
  · exact Or.inl (by rw [h])
  · exact Or.inr (by rw [h, mul_neg])
theorem PM.trans {a b c : Quat ℝ} (h1 : PM a b) (h2 : PM b c) : PM a c := by
  rcases h1 with h1 | h1 <;> rcases h2 with h2 | h2
  · exact Or.inl (by rw [h1, h2])
  · exact Or.inr (by rw [h1, h2])
  · exact Or.inr (by rw [h1, h2])
  · exact Or.inl (by rw [h1, h2, neg_neg])
theorem conj_mul_self (g : Quat ℝ) (h : Quat.normSq g = 1) : Quat.mul (Quat.conj g) g = Quat.one := by
  have h' : g.a * g.a + g.b * g.b + g.c * g.c + g.d * g.d = 1 := h
  simp only [Quat.mul, Quat.conj, Quat.one, lit_real, Nat.cast_one, Nat.cast_zero]
  congr 1
  · linear_combination h'
  · ring
  · ring
  · ring

structure IsRotGroup (G : List (Rot ℝ)) : Prop where
  unit : ∀ a ∈ G, Quat.normSq a.q = 1
  one_mem : SMem ⟨Quat.one, false⟩ G
  mul_mem : ∀ a ∈ G, ∀ b ∈ G, SMem (Rot.mul a b) G
  inv_mem : ∀ a ∈ G, SMem (rconj a) G

/-- the dot product as `Rotation.dot_outer` computes it: absolute value, zero for different properness -/
noncomputable def rdot (r s : Rot ℝ) : ℝ := bif xor r.improper s.improper then 0 else |Quat.dot r.q s.q|

theorem rdot_nonneg (r s : Rot ℝ) : 0 ≤ rdot r s := by
  unfold rdot; cases xor r.improper s.improper <;> simp [abs_nonneg]

theorem rdot_congr {r s s' : Rot ℝ} (hi : s'.improper = s.improper) (hq : s'.q = s.q ∨ s'.q = Quat.neg s.q) :
    rdot r s' = rdot r s := by
  unfold rdot; rw [hi]
  rcases hq with h | h
  · rw [h]
  · rw [h, dot_neg_right, abs_neg]

/-- `(g₂·O₂) · (g₁·O₁) = (O₂·O₁⁻¹) · (g₂⁻¹·g₁)` as reduced dot products -/
theorem rdot_mul_mul (g2 O2 g1 O1 : Rot ℝ) :
    rdot (Rot.mul g2 O2) (Rot.mul g1 O1) = rdot (Rot.mul O2 (rconj O1)) (Rot.mul (rconj g2) g1) := by
  have hx : xor (xor g2.improper O2.improper) (xor g1.improper O1.improper)
      = xor (xor O2.improper O1.improper) (xor g2.improper g1.improper) := by
    cases g2.improper <;> cases O2.improper <;> cases g1.improper <;> cases O1.improper <;> rfl
  have hd := dot_mul_mul g2.q O2.q g1.q O1.q
  unfold rdot
  simp only [Rot.mul, rconj, hx, hd]

end Orix.Dis
