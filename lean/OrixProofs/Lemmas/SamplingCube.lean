import Mathlib.Tactic.Ring
import Mathlib.Tactic.FieldSimp
import Mathlib.Tactic.LinearCombination
import Mathlib.Tactic.Positivity
import Mathlib.Tactic.NormNum
import Mathlib.Tactic.Linarith
import Mathlib.Analysis.SpecialFunctions.Trigonometric.Basic
import Mathlib.Analysis.SpecialFunctions.Trigonometric.Arctan
import OrixProofs.Lemmas.RealScalar
import OrixProofs.Lemmas.Lattice
import OrixProofs.Lemmas.SamplingBasic
import OrixModel.Sampling
/-
Helper lemmas for C19, part 3: the cube meshes.  Counting, unit length, the closed form of the normalized-cube edge
grid over ℝ, "the six face lists plus two corners contain every lattice point of the cube surface", and the radial
projection onto the sphere is 1-Lipschitz outside the unit ball.
-/
namespace Orix.SamplingLemmas
open Orix Scalar Sampling LatLemmas

/-! ### counting (any scalar type) -/

theorem length_flatMap_map {α β γ : Type} (l : List α) (l' : List β) (f : β → α → γ) :
    (l.flatMap (fun y => l'.map (fun x => f x y))).length = l.length * l'.length := by
  induction l with
  | nil => simp
  | cons a t ih => simp only [List.flatMap_cons, List.length_append, List.length_map, ih, List.length_cons]; ring

theorem length_meshXY {α : Type} (g : List α) : (meshXY g).length = g.length * g.length := by
  unfold meshXY; exact length_flatMap_map g g (fun x y => (x, y))

theorem length_cubePoints {α : Type} [Scalar α] (g : List α) :
    (cubePoints g).length = 6 * (g.length * g.length) + 2 := by
  simp only [cubePoints, List.length_append, List.length_map, length_meshXY, List.length_cons, List.length_nil]
  ring

theorem startEndIndex_default (n : ℤ) : startEndIndex n true false true = (-n, n) := by
  simp [startEndIndex]

theorem length_sampleLengthEquidistant {α : Type} [Scalar α] {n : ℤ} {L : α} {g : List α}
    (h : sampleLengthEquidistant n L = .ok g) : g.length = (2 * n).toNat := by
  unfold sampleLengthEquidistant at h
  simp only [startEndIndex_default] at h
  split_ifs at h
  cases h
  simp only [List.length_map, length_intRange]
  congr 1; ring

theorem length_sampleLengthEquiangular {α : Type} [Scalar α] (n : ℤ) (L : α) :
    (sampleLengthEquiangular n L).length = (2 * n).toNat := by
  unfold sampleLengthEquiangular
  simp only [startEndIndex_default, List.length_map, length_intRange]
  congr 1; ring

/-- POINTS PER EDGE: each of the three edge grids has `2·steps` points (none for a non-positive step count) -/
theorem length_edgeGrid {α : Type} [Scalar α] [HasCeil α] {t : GridType} {r : α} {n : ℤ} {g : List α}
    (h : edgeGrid t r = .ok (n, g)) : g.length = (2 * n).toNat := by
  cases t
  · simp only [edgeGrid] at h
    split at h
    · cases h
    · rename_i m hm
      split at h
      · cases h
      · rename_i g' hg'
        cases h
        exact length_sampleLengthEquidistant hg'
  · simp only [edgeGrid] at h
    split at h
    · cases h
    · cases h
      exact length_sampleLengthEquiangular _ _
  · simp only [edgeGrid] at h
    split at h
    · cases h
    · cases h
      simp only [List.length_map]
      exact length_sampleLengthEquiangular _ _

/-! ### unit length -/

theorem normSq_cubePoint_pos {g : List ℝ} {p : Vec3 ℝ} (hp : p ∈ cubePoints g) : 1 ≤ Vec3.normSq p := by
  simp only [cubePoints, List.mem_append, List.mem_map, List.mem_cons, List.mem_nil_iff, or_false, lit_real,
    Nat.cast_one] at hp
  rcases hp with hp | hp
  · rcases hp with (((((⟨q, _, rfl⟩ | ⟨q, _, rfl⟩) | ⟨q, _, rfl⟩) | ⟨q, _, rfl⟩) | ⟨q, _, rfl⟩) | ⟨q, _, rfl⟩) <;>
      (simp only [Vec3.normSq, Vec3.dot]; nlinarith [mul_self_nonneg q.1, mul_self_nonneg q.2])
  · rcases hp with rfl | rfl <;> (simp only [Vec3.normSq, Vec3.dot]; norm_num)

/-! ### the normalized-cube edge grid over ℝ -/

/-- `_number_of_equidistant_steps(r, 1)` over ℝ -/
noncomputable def nCube (r : ℝ) : ℤ := ⌈1 / Real.tan (r * (Real.pi / 180))⌉

theorem tan_res_pos {r : ℝ} (hr : 0 < r) (hr90 : r < 90) : 0 < Real.tan (r * (Real.pi / 180)) := by
  apply Real.tan_pos_of_pos_of_lt_pi_div_two
  · positivity
  · have := Real.pi_pos; nlinarith

theorem nCube_pos {r : ℝ} (hr : 0 < r) (hr90 : r < 90) : 0 < nCube r :=
  Int.ceil_pos.mpr (one_div_pos.mpr (tan_res_pos hr hr90))

/-- GRID SPACING on the cube face: `1/⌈1/tan r⌉ ≤ tan r` -/
theorem cubeSpacing_le {r : ℝ} (hr : 0 < r) (hr90 : r < 90) :
    1 / (nCube r : ℝ) ≤ Real.tan (r * (Real.pi / 180)) :=
  div_ceil_le 1 _ zero_le_one (tan_res_pos hr hr90)

/-- the edge grid `i/n`, `i = -n..n-1` -/
noncomputable def cubeEdge (r : ℝ) : List ℝ := (intRange (-(nCube r)) (nCube r)).map (fun i : ℤ => (i : ℝ) * (1 / (nCube r : ℝ)))

theorem edgeGrid_normalized_real {r : ℝ} (hr : 0 < r) (hr90 : r < 90) :
    edgeGrid .normalized r = .ok (nCube r, cubeEdge r) := by
  have hn := nCube_pos hr hr90
  have hc : numberOfEquidistantSteps r (Scalar.lit 1 : ℝ) = some (nCube r) := by
    simp [numberOfEquidistantSteps, nCube, deg2rad_real]
  have hs : sampleLengthEquidistant (nCube r) (Scalar.lit 1 : ℝ) = .ok (cubeEdge r) := by
    unfold sampleLengthEquidistant
    simp only [startEndIndex_default]
    rw [if_neg hn.ne']
    simp [cubeEdge]
  simp only [edgeGrid, hc, hs]

theorem mem_cubeEdge {r : ℝ} {i : ℤ} (h1 : -(nCube r) ≤ i) (h2 : i < nCube r) :
    (i : ℝ) * (1 / (nCube r : ℝ)) ∈ cubeEdge r :=
  List.mem_map.mpr ⟨i, mem_intRange.mpr ⟨h1, h2⟩, rfl⟩

theorem mem_meshXY {g : List ℝ} {x y : ℝ} (hx : x ∈ g) (hy : y ∈ g) : (x, y) ∈ meshXY g := by
  simp only [meshXY, List.mem_flatMap, List.mem_map, Prod.mk.injEq]
  exact ⟨y, hy, x, hx, rfl, rfl⟩

/-- the integer case split behind "six faces without overlapping edges, plus two corners": every lattice point of
the cube surface is on exactly the face list named here -/
theorem cube_surface_cases (n a b c : ℤ) (hn : 0 < n) (ha : -n ≤ a ∧ a ≤ n) (hb : -n ≤ b ∧ b ≤ n)
    (hc : -n ≤ c ∧ c ≤ n) (hs : a = n ∨ a = -n ∨ b = n ∨ b = -n ∨ c = n ∨ c = -n) :
    (c = -n ∧ -n ≤ -a ∧ -a < n ∧ -n ≤ -b ∧ -b < n) ∨ (c = n ∧ -n ≤ a ∧ a < n ∧ -n ≤ b ∧ b < n) ∨
    (a = n ∧ -n ≤ b ∧ b < n ∧ -n ≤ -c ∧ -c < n) ∨ (a = -n ∧ -n ≤ -b ∧ -b < n ∧ -n ≤ c ∧ c < n) ∨
    (b = -n ∧ -n ≤ a ∧ a < n ∧ -n ≤ c ∧ c < n) ∨ (b = n ∧ -n ≤ -a ∧ -a < n ∧ -n ≤ -c ∧ -c < n) ∨
    (a = -n ∧ b = n ∧ c = n) ∨ (a = n ∧ b = -n ∧ c = -n) := by
  omega

/-- THE FACE LISTS MISS NOTHING: every lattice point `(a, b, c)/n` of the cube surface (`max(|a|,|b|,|c|) = n`) is
among the points of `sample_S2_cube_mesh` before normalisation -/
theorem lattice_mem_cubePoints {r : ℝ} (hr : 0 < r) (hr90 : r < 90) (a b c : ℤ)
    (ha : -(nCube r) ≤ a ∧ a ≤ nCube r) (hb : -(nCube r) ≤ b ∧ b ≤ nCube r) (hc : -(nCube r) ≤ c ∧ c ≤ nCube r)
    (hs : a = nCube r ∨ a = -(nCube r) ∨ b = nCube r ∨ b = -(nCube r) ∨ c = nCube r ∨ c = -(nCube r)) :
    (⟨(a : ℝ) * (1 / (nCube r : ℝ)), (b : ℝ) * (1 / (nCube r : ℝ)), (c : ℝ) * (1 / (nCube r : ℝ))⟩ : Vec3 ℝ)
      ∈ cubePoints (cubeEdge r) := by
  have hn := nCube_pos hr hr90
  have hnr : ((nCube r : ℤ) : ℝ) ≠ 0 := by exact_mod_cast hn.ne'
  have hone : ((nCube r : ℤ) : ℝ) * (1 / (nCube r : ℝ)) = 1 := by field_simp
  have hmone : ((-(nCube r) : ℤ) : ℝ) * (1 / (nCube r : ℝ)) = -1 := by push_cast; field_simp
  have hneg : ∀ i : ℤ, ((-i : ℤ) : ℝ) * (1 / (nCube r : ℝ)) = -((i : ℝ) * (1 / (nCube r : ℝ))) := by
    intro i; push_cast; ring
  simp only [cubePoints, List.mem_append, List.mem_map, List.mem_cons, List.mem_nil_iff, or_false, lit_real,
    Nat.cast_one]
  rcases cube_surface_cases (nCube r) a b c hn ha hb hc hs with
    ⟨h0, h1, h2, h3, h4⟩ | ⟨h0, h1, h2, h3, h4⟩ | ⟨h0, h1, h2, h3, h4⟩ | ⟨h0, h1, h2, h3, h4⟩ |
    ⟨h0, h1, h2, h3, h4⟩ | ⟨h0, h1, h2, h3, h4⟩ | ⟨h0, h1, h2⟩ | ⟨h0, h1, h2⟩
  · -- bottom: (-x, -y, -1) with x = -a/n, y = -b/n
    refine Or.inl (Or.inl (Or.inl (Or.inl (Or.inl (Or.inl ⟨(_, _), mem_meshXY (mem_cubeEdge h1 h2) (mem_cubeEdge h3 h4), ?_⟩)))))
    rw [h0, hmone, hneg, hneg]; simp
  · refine Or.inl (Or.inl (Or.inl (Or.inl (Or.inl (Or.inr ⟨(_, _), mem_meshXY (mem_cubeEdge h1 h2) (mem_cubeEdge h3 h4), ?_⟩)))))
    rw [h0, hone]
  · refine Or.inl (Or.inl (Or.inl (Or.inl (Or.inr ⟨(_, _), mem_meshXY (mem_cubeEdge h1 h2) (mem_cubeEdge h3 h4), ?_⟩))))
    rw [h0, hone, hneg]; simp
  · refine Or.inl (Or.inl (Or.inl (Or.inr ⟨(_, _), mem_meshXY (mem_cubeEdge h1 h2) (mem_cubeEdge h3 h4), ?_⟩)))
    rw [h0, hmone, hneg]; simp
  · refine Or.inl (Or.inl (Or.inr ⟨(_, _), mem_meshXY (mem_cubeEdge h1 h2) (mem_cubeEdge h3 h4), ?_⟩))
    rw [h0, hmone]
  · refine Or.inl (Or.inr ⟨(_, _), mem_meshXY (mem_cubeEdge h1 h2) (mem_cubeEdge h3 h4), ?_⟩)
    rw [h0, hone, hneg, hneg]; simp
  · refine Or.inr (Or.inl ?_)
    rw [h0, h1, h2, hone, hmone]
  · refine Or.inr (Or.inr ?_)
    rw [h0, h1, h2, hone, hmone]

/-! ### radial projection onto the sphere -/

theorem normSq_sub (u w : Vec3 ℝ) :
    Vec3.normSq (Vec3.sub u w) = Vec3.normSq u + Vec3.normSq w - 2 * Vec3.dot u w := by
  simp only [Vec3.normSq, Vec3.dot, Vec3.sub]; ring

/-- Cauchy–Schwarz (Lagrange identity) -/
theorem dot_sq_le (u w : Vec3 ℝ) : Vec3.dot u w ^ 2 ≤ Vec3.normSq u * Vec3.normSq w := by
  simp only [Vec3.normSq, Vec3.dot]
  nlinarith [sq_nonneg (u.x * w.y - u.y * w.x), sq_nonneg (u.x * w.z - u.z * w.x), sq_nonneg (u.y * w.z - u.z * w.y)]

/-- RADIAL PROJECTION IS 1-LIPSCHITZ OUTSIDE THE UNIT BALL, in the form used here: for a unit vector `v`, a factor
`k ≥ 1` and a point `q` with `‖q‖ ≥ 1`: `‖v − q/‖q‖‖ ≤ ‖k·v − q‖` -/
theorem radial_contract (v q : Vec3 ℝ) (hv : Vec3.normSq v = 1) (k : ℝ) (hk : 1 ≤ k) (hq : 1 ≤ Vec3.normSq q) :
    Vec3.normSq (Vec3.sub v (Vec3.unit q)) ≤ Vec3.normSq (Vec3.sub (Vec3.smul k v) q) := by
  have hqpos : 0 < Vec3.normSq q := by linarith
  have hb := norm_pos hqpos
  have hbb := @norm_mul_self q
  set b := Vec3.norm q with hbdef
  have hb1 : 1 ≤ b := by nlinarith
  have hcs := dot_sq_le v q
  rw [hv, one_mul, ← hbb] at hcs
  have hd : Vec3.dot v q ≤ b := by
    have : |Vec3.dot v q| ≤ b := abs_le_of_sq_le_sq (by nlinarith) hb.le
    exact le_trans (le_abs_self _) this
  have hdu : Vec3.dot v (Vec3.unit q) = Vec3.dot v q / b := by
    rw [unit_of_pos hqpos]; simp only [Vec3.dot, ← hbdef]; field_simp
  have hks : Vec3.normSq (Vec3.smul k v) = k ^ 2 := by
    have : Vec3.normSq (Vec3.smul k v) = k ^ 2 * Vec3.normSq v := by
      simp only [Vec3.normSq, Vec3.dot, Vec3.smul]; ring
    rw [this, hv, mul_one]
  have hkd : Vec3.dot (Vec3.smul k v) q = k * Vec3.dot v q := by
    simp only [Vec3.dot, Vec3.smul]; ring
  rw [normSq_sub, normSq_sub, hv, normSq_unit hqpos, hdu, hks, hkd, ← hbb]
  set d := Vec3.dot v q
  set c := d / b with hc
  have hc1 : c ≤ 1 := by rw [hc, div_le_one hb]; exact hd
  have hdc : d = c * b := by rw [hc]; field_simp
  rw [hdc]
  have hkb : 0 ≤ k * b - 1 := by nlinarith
  nlinarith [mul_nonneg hkb (sub_nonneg.mpr hc1), sq_nonneg (k - b)]

/-- a unit vector scaled onto the surface of the cube `[-1, 1]³` -/
theorem exists_cube_scale (v : Vec3 ℝ) (hv : Vec3.normSq v = 1) :
    ∃ k : ℝ, 1 ≤ k ∧ |k * v.x| ≤ 1 ∧ |k * v.y| ≤ 1 ∧ |k * v.z| ≤ 1 ∧
      (k * v.x = 1 ∨ k * v.x = -1 ∨ k * v.y = 1 ∨ k * v.y = -1 ∨ k * v.z = 1 ∨ k * v.z = -1) := by
  obtain ⟨x, y, z⟩ := v
  simp only [Vec3.normSq, Vec3.dot] at hv
  simp only
  set m := max |x| (max |y| |z|) with hm
  have hx : |x| ≤ m := le_max_left _ _
  have hy : |y| ≤ m := le_trans (le_max_left _ _) (le_max_right _ _)
  have hz : |z| ≤ m := le_trans (le_max_right _ _) (le_max_right _ _)
  have hx1 : |x| ≤ 1 := abs_le_one_iff_mul_self_le_one.mpr (by nlinarith [mul_self_nonneg y, mul_self_nonneg z])
  have hy1 : |y| ≤ 1 := abs_le_one_iff_mul_self_le_one.mpr (by nlinarith [mul_self_nonneg x, mul_self_nonneg z])
  have hz1 : |z| ≤ 1 := abs_le_one_iff_mul_self_le_one.mpr (by nlinarith [mul_self_nonneg x, mul_self_nonneg y])
  have hm1 : m ≤ 1 := max_le hx1 (max_le hy1 hz1)
  have hmpos : 0 < m := by
    by_contra hneg
    have h0 : m ≤ 0 := not_lt.mp hneg
    have ex : x = 0 := abs_eq_zero.mp (le_antisymm (le_trans hx h0) (abs_nonneg _))
    have ey : y = 0 := abs_eq_zero.mp (le_antisymm (le_trans hy h0) (abs_nonneg _))
    have ez : z = 0 := abs_eq_zero.mp (le_antisymm (le_trans hz h0) (abs_nonneg _))
    rw [ex, ey, ez] at hv; norm_num at hv
  have hk1 : 1 ≤ 1 / m := by rw [le_div_iff₀ hmpos]; linarith
  have habs : ∀ t : ℝ, |t| ≤ m → |1 / m * t| ≤ 1 := by
    intro t ht
    rw [abs_mul, abs_of_pos (one_div_pos.mpr hmpos), one_div, inv_mul_le_iff₀ hmpos]; linarith
  have hsign : ∀ t : ℝ, m = |t| → 1 / m * t = 1 ∨ 1 / m * t = -1 := by
    intro t ht
    rcases le_or_gt 0 t with h | h
    · left; rw [ht, abs_of_nonneg h]
      have : t ≠ 0 := by intro h0; rw [ht, h0, abs_zero] at hmpos; exact lt_irrefl _ hmpos
      field_simp
    · right; rw [ht, abs_of_neg h]
      have : t ≠ 0 := h.ne
      field_simp
  refine ⟨1 / m, hk1, habs x hx, habs y hy, habs z hz, ?_⟩
  rcases max_choice |x| (max |y| |z|) with h | h
  · rcases hsign x (hm.trans h) with h' | h'
    · exact Or.inl h'
    · exact Or.inr (Or.inl h')
  · rcases max_choice |y| |z| with h2 | h2
    · rcases hsign y (hm.trans (h.trans h2)) with h' | h'
      · exact Or.inr (Or.inr (Or.inl h'))
      · exact Or.inr (Or.inr (Or.inr (Or.inl h')))
    · rcases hsign z (hm.trans (h.trans h2)) with h' | h'
      · exact Or.inr (Or.inr (Or.inr (Or.inr (Or.inl h'))))
      · exact Or.inr (Or.inr (Or.inr (Or.inr (Or.inr h'))))

/-- every coordinate `t ∈ [-1, 1]` is within half a spacing of a lattice coordinate `a/n`, `-n ≤ a ≤ n`; the face
coordinates `±1` are hit exactly -/
theorem round_coord (n : ℤ) (hn : 0 < n) (t : ℝ) (ht : |t| ≤ 1) :
    ∃ a : ℤ, -n ≤ a ∧ a ≤ n ∧ |t - (a : ℝ) * (1 / (n : ℝ))| ≤ 1 / (n : ℝ) / 2 ∧ (t = 1 → a = n) ∧ (t = -1 → a = -n) := by
  have hnr : (0 : ℝ) < (n : ℝ) := by exact_mod_cast hn
  have hh : 0 ≤ 1 / (n : ℝ) / 2 := by positivity
  by_cases h1 : t = 1
  · refine ⟨n, by omega, le_refl _, ?_, fun _ => rfl, fun h => ?_⟩
    · rw [h1]; have : (n : ℝ) * (1 / (n : ℝ)) = 1 := by field_simp
      rw [this, sub_self, abs_zero]; exact hh
    · rw [h1] at h; norm_num at h
  by_cases h2 : t = -1
  · refine ⟨-n, le_refl _, by omega, ?_, fun h => absurd h h1, fun _ => rfl⟩
    rw [h2]; have : ((-n : ℤ) : ℝ) * (1 / (n : ℝ)) = -1 := by push_cast; field_simp
    rw [this, sub_self, abs_zero]; exact hh
  obtain ⟨hlo, hhi⟩ := abs_le.mp ht
  have hM : 0 < (2 * n).toNat := by omega
  obtain ⟨i, hi, hd⟩ := grid_cover (2 * n).toNat hM 2 (by norm_num) (t + 1) (by linarith) (by linarith)
  have hMr : (((2 * n).toNat : ℕ) : ℝ) = 2 * (n : ℝ) := by
    have : (((2 * n).toNat : ℕ) : ℤ) = 2 * n := Int.toNat_of_nonneg (by omega)
    exact_mod_cast this
  rw [hMr] at hd
  have hstep : (2 : ℝ) / (2 * (n : ℝ)) = 1 / (n : ℝ) := by field_simp
  rw [hstep] at hd
  refine ⟨(i : ℤ) - n, by omega, by omega, ?_, fun h => absurd h h1, fun h => absurd h h2⟩
  have e : t - (((i : ℤ) - n : ℤ) : ℝ) * (1 / (n : ℝ)) = t + 1 - (i : ℝ) * (1 / (n : ℝ)) := by
    push_cast; field_simp; ring
  rw [e]; exact hd

/-! ### hexagonal mesh: no point of the bipyramid is the origin -/

theorem normSq_rotZ (a : ℝ) (p : Vec3 ℝ) : Vec3.normSq (rotZ a p) = Vec3.normSq p := by
  simp only [rotZ, Vec3.normSq, Vec3.dot, lit_real, cos_real, sin_real, Nat.cast_zero, Nat.cast_one]
  have h := Real.sin_sq_add_cos_sq a
  linear_combination (p.x ^ 2 + p.y ^ 2) * h

theorem normSq_hexFace_pos {g : List ℝ} {p : Vec3 ℝ} (hp : p ∈ hexFace g) : 0 < Vec3.normSq p := by
  simp only [hexFace, List.mem_filter, List.mem_map] at hp
  obtain ⟨⟨uv, _, rfl⟩, _⟩ := hp
  simp only [Vec3.normSq, Vec3.dot, lit_real, sqrt_real, Nat.cast_zero, Nat.cast_one, Nat.cast_ofNat]
  have h3 : 0 < Real.sqrt 3 := Real.sqrt_pos.mpr (by norm_num)
  set x := 2 / Real.sqrt 3 * uv.1 + 2 / Real.sqrt 3 / 2 * uv.2
  set y := 0 * uv.1 + 1 * uv.2
  -- z = 1 - x/h - y/2: the three coordinates cannot vanish together
  by_contra hneg
  have hsum : x * x + y * y + (-1 / (2 / Real.sqrt 3) * x - 1 / 2 * y + 1) * (-1 / (2 / Real.sqrt 3) * x - 1 / 2 * y + 1) ≤ 0 :=
    not_lt.mp hneg
  have hx : x = 0 := by nlinarith [mul_self_nonneg x, mul_self_nonneg y, mul_self_nonneg (-1 / (2 / Real.sqrt 3) * x - 1 / 2 * y + 1)]
  have hy : y = 0 := by nlinarith [mul_self_nonneg x, mul_self_nonneg y, mul_self_nonneg (-1 / (2 / Real.sqrt 3) * x - 1 / 2 * y + 1)]
  rw [hx, hy] at hsum
  norm_num at hsum

theorem normSq_hexPoints_pos {g : List ℝ} {p : Vec3 ℝ} (hp : p ∈ hexPoints g) : 0 < Vec3.normSq p := by
  have htop : ∀ q ∈ (List.range 6).flatMap (fun i => (hexFace g).map (rotZ (Scalar.lit i * deg2rad (Scalar.lit 60 : ℝ)))),
      0 < Vec3.normSq q := by
    intro q hq
    obtain ⟨i, _, hq⟩ := List.mem_flatMap.mp hq
    obtain ⟨f, hf, rfl⟩ := List.mem_map.mp hq
    rw [normSq_rotZ]; exact normSq_hexFace_pos hf
  simp only [hexPoints, List.mem_append, List.mem_cons, List.mem_nil_iff, or_false] at hp
  rcases hp with ((hp | rfl) | hp) | rfl
  · exact htop p hp
  · simp [Vec3.normSq, Vec3.dot]
  · obtain ⟨hp, _⟩ := List.mem_filter.mp hp
    obtain ⟨q, hq, rfl⟩ := List.mem_map.mp hp
    have := htop q hq
    simp only [Vec3.normSq, Vec3.dot, lit_real, Nat.cast_one] at this ⊢
    nlinarith
  · simp [Vec3.normSq, Vec3.dot]

/-! ### spherified-edge cube grid: equiangular with angular step ≤ resolution -/

/-- `_number_of_equiangular_steps(r, 1)` over ℝ -/
noncomputable def nEdge (r : ℝ) : ℤ := ⌈Real.pi / 4 / (r * (Real.pi / 180))⌉

theorem nEdge_pos {r : ℝ} (hr : 0 < r) : 0 < nEdge r := by
  have := Real.pi_pos
  exact Int.ceil_pos.mpr (by positivity)

/-- the spherified-edge grid `tan(i·step)`, `i = -n..n-1` -/
noncomputable def sphEdge (r : ℝ) : List ℝ :=
  (intRange (-(nEdge r)) (nEdge r)).map (fun i : ℤ => Real.tan ((i : ℝ) * (Real.pi / 4 / (nEdge r : ℝ))))

theorem edgeGrid_spherifiedEdge_real {r : ℝ} : edgeGrid .spherifiedEdge r = .ok (nEdge r, sphEdge r) := by
  unfold sphEdge
  have hc : numberOfEquiangularSteps r (Scalar.lit 1 : ℝ) = some (nEdge r) := by
    simp [numberOfEquiangularSteps, nEdge, deg2rad_real, Real.arctan_one]
  simp only [edgeGrid, hc, sampleLengthEquiangular, startEndIndex_default]
  simp [Real.arctan_one]

/-- the angular step `(π/4)/⌈(π/4)/(r·π/180)⌉` is at most the resolution -/
theorem edgeStep_le {r : ℝ} (hr : 0 < r) : Real.pi / 4 / (nEdge r : ℝ) ≤ r * (Real.pi / 180) := by
  have := Real.pi_pos
  exact div_ceil_le (Real.pi / 4) _ (by positivity) (by positivity)

/-- the grid point with index `i` lies at the angle `i·step` from the face centre -/
theorem arctan_edge_point {r : ℝ} (hr : 0 < r) {i : ℤ} (h1 : -(nEdge r) ≤ i) (h2 : i ≤ nEdge r) :
    Real.arctan (Real.tan ((i : ℝ) * (Real.pi / 4 / (nEdge r : ℝ)))) = (i : ℝ) * (Real.pi / 4 / (nEdge r : ℝ)) := by
  have hn := nEdge_pos hr
  have hnr : (0 : ℝ) < (nEdge r : ℝ) := by exact_mod_cast hn
  have hpi := Real.pi_pos
  have hs : 0 < Real.pi / 4 / (nEdge r : ℝ) := by positivity
  have hmax : (nEdge r : ℝ) * (Real.pi / 4 / (nEdge r : ℝ)) = Real.pi / 4 := by field_simp
  have hi1 : (-(nEdge r : ℝ)) ≤ (i : ℝ) := by exact_mod_cast h1
  have hi2 : (i : ℝ) ≤ (nEdge r : ℝ) := by exact_mod_cast h2
  apply Real.arctan_tan
  · have : (-(nEdge r : ℝ)) * (Real.pi / 4 / (nEdge r : ℝ)) ≤ (i : ℝ) * (Real.pi / 4 / (nEdge r : ℝ)) :=
      mul_le_mul_of_nonneg_right hi1 hs.le
    rw [neg_mul, hmax] at this; linarith
  · have : (i : ℝ) * (Real.pi / 4 / (nEdge r : ℝ)) ≤ (nEdge r : ℝ) * (Real.pi / 4 / (nEdge r : ℝ)) :=
      mul_le_mul_of_nonneg_right hi2 hs.le
    rw [hmax] at this; linarith

end Orix.SamplingLemmas
